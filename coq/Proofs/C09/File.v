(* C09, the whole file: the composition of the per-block steps of the reader (Model/StlDatafile.v reader_model:
   GSI decoding, 128-byte blocks, skipping, extension chains, cumulative sets, divisions per SGN, region sharing)
   against the specification's `presentation` (Spec/Ebu3264Spec.v), for every file in the specification's domain.
   Structure:
     1. blocks: unpack_tti = block_of, read_blocks = fold over the blocks
     2. groups: the fold over blocks = a fold of complete_subtitle over the specification's subtitles (any chain)
     3. paragraphs: one subtitle against one step of paragraphs_go, with the reader's state as invariant; the fold
     4. divisions: grouping by SGN (div map of the reader = by_group of the specification)
     5. the GSI block: rates, programme start, rows, int(bytes) on numeric fields
     6. the theorem *)
From Coq Require Import QArith Lia.
From TT Require Import Base.Prelude Gen.StlTables Model.TimeCode Model.Iso6937 Model.StlTf Model.StlDatafile Model.StlTriggers.
From TT Require Import Spec.Smpte12M Spec.Ebu3264Spec.
From TT Require Import Proofs.C09.Tables Proofs.C09.TextField Proofs.C09.Text Proofs.C09.Times Proofs.C09.Datafile.
Open Scope Z_scope.

(* ================================================================================================ 1 *)
Definition tti_of (b : block) : tti :=
  mkTti (b_sgn b) (b_sn b) (b_ebn b) (b_cs b) (b_tci b) (b_tco b) (b_vp b) (b_jc b) (b_cf b) (b_tf b).
Lemma unpack_block buf : unpack_tti buf = tti_of (block_of buf).
Proof. reflexivity. Qed.
Lemma carries_text_block b : carries_text b = text_block (tti_of b).
Proof.
  unfold carries_text, text_block, tti_of. cbn [t_ebn t_cf]. f_equal. f_equal.
  change 0xF0 with 240. change 0xFE with 254.
  destruct (240 <=? b_ebn b) eqn:E1, (b_ebn b <=? 254) eqn:E2, (239 <? b_ebn b) eqn:E3, (b_ebn b <? 255) eqn:E4; try reflexivity; lia.
Qed.

Lemma blocks_of_S k bs : bs <> [] ->
  blocks_of (S k) bs = if Nat.eqb (length (firstn 128 bs)) 128
                       then match blocks_of k (skipn 128 bs) with Some r => Some (block_of (firstn 128 bs) :: r) | None => None end
                       else None.
Proof. destruct bs; [contradiction | reflexivity]. Qed.
Lemma read_blocks_S k f s bs : bs <> [] ->
  read_blocks (S k) f s bs = if negb (Nat.eqb (length (firstn 128 bs)) 128) then inr EStruct else
                             match process_tti f s (unpack_tti (firstn 128 bs)) with
                             | inr e => inr e
                             | inl s' => read_blocks k f s' (skipn 128 bs)
                             end.
Proof. destruct bs; [contradiction | reflexivity]. Qed.

Lemma read_blocks_fold f : forall fuel bs s bl, blocks_of fuel bs = Some bl ->
  read_blocks fuel f s bs = fold_blocks f s (map tti_of bl).
Proof.
  induction fuel as [|k IH]; intros bs s bl H.
  - cbn [blocks_of] in H. injection H as <-. reflexivity.
  - destruct bs as [|b0 bs'].
    + cbn [blocks_of] in H. injection H as <-. reflexivity.
    + rewrite blocks_of_S in H by discriminate. rewrite read_blocks_S by discriminate.
      generalize dependent (firstn 128 (b0 :: bs')). generalize (skipn 128 (b0 :: bs')). intros rest buf H.
      destruct (Nat.eqb (length buf) 128); [|discriminate]. cbn [negb].
      destruct (blocks_of k rest) as [r|] eqn:Hr; [|discriminate]. injection H as <-.
      cbn [map fold_blocks]. rewrite unpack_block.
      destruct (process_tti f s (tti_of (block_of buf))) as [s'|e]; [|reflexivity].
      apply IH, Hr.
Qed.

(* ================================================================================================ 2 *)
Fixpoint fold_subs (f : datafile) (s : state) (subs : list subtitle) : state + error :=
  match subs with
  | [] => inl s
  | x :: r => match complete_subtitle f s (tti_of (s_head x)) (s_field x) with
              | inl s' => fold_subs f s' r
              | inr e => inr e
              end
  end.

(* complete_subtitle reads the state only through the last number, the divisions, the current paragraph and the regions *)
Definition core (s : state) : state := mkState false [] (st_last_sn s) (st_divs s) (st_cur s) (st_regions s).
Lemma complete_core f s t tf : complete_subtitle f s t tf = complete_subtitle f (core s) t tf.
Proof. reflexivity. Qed.
Lemma fold_subs_core f s x r : fold_subs f s (x :: r) = fold_subs f (core s) (x :: r).
Proof. cbn [fold_subs]. rewrite complete_core. reflexivity. Qed.
Lemma complete_not_ext f s t tf s' : complete_subtitle f s t tf = inl s' -> st_in_ext s' = false.
Proof.
  unfold complete_subtitle. destruct (q_neg _); [intros H; injection H as <-; reflexivity|].
  destruct (q_lt _ _); [intros H; injection H as <-; reflexivity|].
  destruct (_ || _).
  - destruct (region_for _ _ _ _); [|discriminate]. destruct (get_region _ _). cbn [st_cur st_in_ext].
    intros H; injection H as <-; reflexivity.
  - cbn [st_cur st_in_ext]. destruct (st_cur s) as [[sgn p]|]; [|discriminate]. intros H; injection H as <-; reflexivity.
Qed.

Definition pending_rel (s : state) (pending : option subtitle) : Prop :=
  match pending with
  | None => st_in_ext s = false
  | Some p => st_in_ext s = true /\ st_tf s = s_field p
  end.

Lemma pending_nonempty : forall l p subs, subtitles_go l (Some p) = Some subs -> subs <> [].
Proof.
  induction l as [|b r IH]; intros p subs H; cbn [subtitles_go] in H; [discriminate|].
  destruct (negb (same_subtitle (s_head p) b)); [discriminate|].
  destruct (b_ebn b =? 0xFF).
  - destruct (subtitles_go r None); [|discriminate]. injection H as <-. discriminate.
  - eapply IH, H.
Qed.

(* the reader's fold over all blocks of the file = the fold of complete_subtitle over the specification's subtitles:
   skipped blocks change nothing, extension blocks only accumulate text, the terminal block completes the subtitle with
   the concatenation of the texts *)
Lemma fold_groups f : forall bl pending s subs,
  subtitles_go (filter carries_text bl) pending = Some subs -> pending_rel s pending ->
  fold_blocks f s (map tti_of bl) = fold_subs f s subs.
Proof.
  induction bl as [|b r IH]; intros pending s subs H Hp.
  - cbn [filter subtitles_go] in H. destruct pending; [discriminate|]. injection H as <-. reflexivity.
  - cbn [filter map fold_blocks] in *. rewrite carries_text_block in H.
    destruct (text_block (tti_of b)) eqn:Htb.
    2:{ rewrite (process_skip f s _ Htb). eapply IH; eassumption. }
    cbn [subtitles_go] in H.
    assert (Hacc : forall fld, (match pending with Some p => s_field p | None => [] end) = fld -> acc_tf s = fld).
    { intros fld <-. unfold acc_tf. destruct pending as [p|]; cbn [pending_rel] in Hp; [destruct Hp as [-> ->]; reflexivity | rewrite Hp; reflexivity]. }
    set (fld := (match pending with Some p => s_field p | None => [] end) ++ text_of_field (b_tf b)).
    assert (H' : (if b_ebn b =? 0xFF
                  then match subtitles_go (filter carries_text r) None with Some l => Some (mkSub b fld :: l) | None => None end
                  else subtitles_go (filter carries_text r) (Some (mkSub b fld))) = Some subs).
    { destruct pending as [p|]; [destruct (negb (same_subtitle (s_head p) b)); [discriminate|]|]; exact H. }
    clear H. change 0xFF with 255 in H'.
    destruct (b_ebn b =? 255) eqn:Ee.
    + apply Z.eqb_eq in Ee.
      destruct (subtitles_go (filter carries_text r) None) as [l|] eqn:Hl; [|discriminate]. injection H' as <-.
      rewrite (process_terminal f s (tti_of b) Htb Ee). cbn [fold_subs s_head s_field].
      change (t_tf (tti_of b)) with (b_tf b). rewrite cut_is_cut, (Hacc _ eq_refl). fold fld.
      destruct (complete_subtitle f s (tti_of b) fld) as [s'|e] eqn:Hc; [|reflexivity].
      eapply IH; [exact Hl|]. cbn [pending_rel]. eapply complete_not_ext, Hc.
    + assert (Hx : is_ext (tti_of b) = true) by (unfold is_ext; rewrite Htb; cbn [t_ebn tti_of]; rewrite Ee; reflexivity).
      rewrite (process_ext f s _ Hx). change (t_tf (tti_of b)) with (b_tf b). rewrite cut_is_cut, (Hacc _ eq_refl). fold fld.
      set (s1 := mkState true fld (st_last_sn s) (st_divs s) (st_cur s) (st_regions s)).
      rewrite (IH (Some (mkSub b fld)) s1 subs H') by (cbn [pending_rel]; split; reflexivity).
      pose proof (pending_nonempty _ _ _ H') as Hne. destruct subs as [|x rest]; [contradiction|].
      rewrite (fold_subs_core f s1), (fold_subs_core f s). reflexivity.
Qed.

(* ================================================================================================ 3 *)
(* ---- one step of the specification's fold ---- *)
Definition spec_step (r : frame_rate) (start : Q) (dec : list Z -> text) (teletext : bool) (s : subtitle)
           (last_sn : Z) (acc : list paragraph) (open_set : option bool) : option (Z * list paragraph * option bool) :=
  let h := s_head s in
  let b := (time_of r (b_tci h) - start)%Q in
  let e := (time_of r (b_tco h) - start)%Q in
  if negb (last_sn <? b_sn h) then None else
  if q_ltb e b then None else
  let kept := negb (q_ltb b 0) in
  let txt := tf_spec dec teletext (s_field s) in
  let cs := b_cs h in
  if cs =? 0 then
    match open_set with
    | Some _ => None
    | None => Some (b_sn h, (if kept then acc ++ [mkParagraph (b_sgn h) (justification (b_jc h)) (first_row (b_vp h)) (rows_occupied (s_field s)) [mkPart b e txt]] else acc), None)
    end
  else if cs =? 1 then
    match open_set with
    | Some _ => None
    | None => Some (b_sn h, (if kept then acc ++ [mkParagraph (b_sgn h) (justification (b_jc h)) (first_row (b_vp h)) (rows_occupied (s_field s)) [mkPart b e (txt ++ [Break])]] else acc), Some kept)
    end
  else if (cs =? 2) || (cs =? 3) then
    match open_set with
    | None => None
    | Some k =>
        if negb (Bool.eqb k kept) then None else
        let piece_list := if cs =? 2 then txt ++ [Break] else txt in
        let acc' := if kept then
                      match rev acc with
                      | p :: before => rev before ++ [mkParagraph (pg_sgn p) (pg_align p) (pg_vp p) (pg_rows p) (pg_parts p ++ [mkPart b e piece_list])]
                      | [] => acc
                      end
                    else acc in
        Some (b_sn h, acc', if cs =? 2 then Some k else None)
    end
  else None.

Lemma paragraphs_go_cons r start dec tele s rest last_sn acc open_set :
  paragraphs_go r start dec tele (s :: rest) last_sn acc open_set =
  match spec_step r start dec tele s last_sn acc open_set with
  | Some (l, a, o) => paragraphs_go r start dec tele rest l a o
  | None => None
  end.
Proof.
  cbn [paragraphs_go]. unfold spec_step.
  destruct (negb (last_sn <? b_sn (s_head s))); [reflexivity|].
  destruct (q_ltb _ _); [reflexivity|].
  destruct (b_cs (s_head s) =? 0); [destruct open_set; reflexivity|].
  destruct (b_cs (s_head s) =? 1); [destruct open_set; reflexivity|].
  destruct ((b_cs (s_head s) =? 2) || (b_cs (s_head s) =? 3)); [|reflexivity].
  destruct open_set as [k|]; [|reflexivity]. destruct (negb (Bool.eqb k _)); reflexivity.
Qed.

(* ---- the reader's divisions as a function of the paragraphs opened so far ---- *)
Definition ensure (divs : list (Z * list para)) (sgn : Z) : list (Z * list para) :=
  if has_div divs sgn then divs else divs ++ [(sgn, [])].
Definition grp_step (d : list (Z * list para)) (x : Z * para) : list (Z * list para) :=
  div_add (ensure d (fst x)) (fst x) (snd x).
Definition grp (L : list (Z * para)) : list (Z * list para) := fold_left grp_step L [].

Inductive shape : state -> list (Z * para) -> Prop :=
| shape_nil s : st_cur s = None -> st_divs s = [] -> shape s []
| shape_snoc s L sgn p : st_cur s = Some (sgn, p) -> st_divs s = ensure (grp L) sgn -> shape s (L ++ [(sgn, p)]).

Lemma grp_snoc L sgn p : grp (L ++ [(sgn, p)]) = div_add (ensure (grp L) sgn) sgn p.
Proof. unfold grp. rewrite fold_left_app. reflexivity. Qed.
Lemma commit_shape s L : shape s L -> commit s = grp L.
Proof.
  intros [s' Hc Hd | s' L' sgn p Hc Hd]; unfold commit; rewrite Hc.
  - exact Hd.
  - rewrite Hd, grp_snoc. reflexivity.
Qed.

Lemma shape_snoc_inv s L sgn p : shape s (L ++ [(sgn, p)]) -> st_cur s = Some (sgn, p) /\ st_divs s = ensure (grp L) sgn.
Proof.
  intros H. remember (L ++ [(sgn, p)]) as LL eqn:E. destruct H as [s Hc Hd | s L' sgn' p' Hc Hd]; [destruct L; discriminate|].
  apply app_inj_tail in E as [-> Hp]. injection Hp as -> ->. auto.
Qed.

(* ---- complete_subtitle, case by case ---- *)
Definition new_para (f : datafile) (t : tti) (tf : list Z) (ri : Z) : para :=
  let b := (offset_q (f_fps f) (t_tci t) - f_start f)%Q in
  let e := (offset_q (f_fps f) (t_tco t) - f_start f)%Q in
  let leaves := tf_model (decoder_of_cct (f_cct f)) (f_teletext f) tf in
  let fs := if f_teletext f && negb (has_double_height_char tf) then default_single_height_font_size_pct
            else default_double_height_font_size_pct in
  if (t_cs t =? 1) || (t_cs t =? 2) || (t_cs t =? 3)
  then mkPara ri (text_align_of (t_jc t)) fs default_line_height_pct None
              [PSub b e (if (t_cs t =? 1) || (t_cs t =? 2) then leaves ++ [LBr] else leaves)]
  else mkPara ri (text_align_of (t_jc t)) fs default_line_height_pct (Some (b, e)) (map PLeaf leaves).
Definition more_para (f : datafile) (t : tti) (tf : list Z) (p : para) : para :=
  let b := (offset_q (f_fps f) (t_tci t) - f_start f)%Q in
  let e := (offset_q (f_fps f) (t_tco t) - f_start f)%Q in
  let leaves := tf_model (decoder_of_cct (f_cct f)) (f_teletext f) tf in
  if (t_cs t =? 1) || (t_cs t =? 2) || (t_cs t =? 3)
  then mkPara (p_region p) (p_align p) (p_font_size p) (p_line_height p) (p_time p)
              (p_items p ++ [PSub b e (if (t_cs t =? 1) || (t_cs t =? 2) then leaves ++ [LBr] else leaves)])
  else mkPara (p_region p) (p_align p) (p_font_size p) (p_line_height p) (Some (b, e)) (p_items p ++ map PLeaf leaves).

Lemma complete_dropped f s t tf : q_neg (offset_q (f_fps f) (t_tci t) - f_start f) = true ->
  complete_subtitle f s t tf = inl (mkState false tf (st_last_sn s) (st_divs s) (st_cur s) (st_regions s)).
Proof. intros H. unfold complete_subtitle. rewrite H. reflexivity. Qed.

Lemma complete_new f s t tf rr ri rs :
  q_neg (offset_q (f_fps f) (t_tci t) - f_start f) = false ->
  q_lt (offset_q (f_fps f) (t_tco t) - f_start f) (offset_q (f_fps f) (t_tci t) - f_start f) = false ->
  (sn_differs (t_sn t) (st_last_sn s) && ((t_cs t =? 0) || (t_cs t =? 1))) || no_paragraph s = true ->
  region_for (f_max_rows f) (t_vp t) tf (has_double_height_char tf) = Some rr ->
  get_region (st_regions s) rr = (ri, rs) ->
  complete_subtitle f s t tf =
  inl (mkState false tf (Some (t_sn t)) (ensure (commit s) (t_sgn t)) (Some (t_sgn t, new_para f t tf ri)) rs).
Proof.
  intros Hb He Hn Hr Hg. unfold complete_subtitle. rewrite Hb, He, Hn, Hr, Hg. cbn [st_cur st_in_ext st_tf st_last_sn st_divs st_regions].
  unfold new_para, ensure, text_align_of. cbn [p_region p_align p_font_size p_line_height p_time p_items app].
  destruct ((t_cs t =? 1) || (t_cs t =? 2) || (t_cs t =? 3)); reflexivity.
Qed.

Lemma complete_more f s t tf sgn p :
  q_neg (offset_q (f_fps f) (t_tci t) - f_start f) = false ->
  q_lt (offset_q (f_fps f) (t_tco t) - f_start f) (offset_q (f_fps f) (t_tci t) - f_start f) = false ->
  sn_differs (t_sn t) (st_last_sn s) && ((t_cs t =? 0) || (t_cs t =? 1)) = false ->
  st_cur s = Some (sgn, p) ->
  complete_subtitle f s t tf =
  inl (mkState false tf (st_last_sn s) (st_divs s) (Some (sgn, more_para f t tf p)) (st_regions s)).
Proof.
  intros Hb He Hn Hc. unfold complete_subtitle, no_paragraph. rewrite Hb, He, Hn, Hc. cbn [orb st_cur]. rewrite ?Hc.
  cbn [st_in_ext st_tf st_last_sn st_divs st_regions]. unfold more_para.
  destruct ((t_cs t =? 1) || (t_cs t =? 2) || (t_cs t =? 3)); reflexivity.
Qed.

(* ---- regions ---- *)
Lemma Qeq_bool_refl x : Qeq_bool x x = true.
Proof. apply Qeq_bool_iff. reflexivity. Qed.
Lemma region_eqb_refl r : region_eqb r r = true.
Proof. unfold region_eqb. rewrite !Qeq_bool_refl, Bool.eqb_reflx. reflexivity. Qed.
Lemma region_eqb_equiv a b : region_eqb a b = true -> rect_equiv (rect_of a) (rect_of b).
Proof.
  unfold region_eqb. intros H. repeat (apply andb_true_iff in H as [H ?]).
  repeat match goal with Hx : Qeq_bool _ _ = true |- _ => apply Qeq_bool_iff in Hx end.
  match goal with Hx : Bool.eqb _ _ = true |- _ => apply Bool.eqb_prop in Hx end.
  unfold rect_equiv, rect_of. cbn [x0 y0 width height align_after]. auto.
Qed.
Lemma rect_equiv_trans a b c : rect_equiv a b -> rect_equiv b c -> rect_equiv a c.
Proof.
  intros ((H1 & H2 & H3 & H4) & H5) ((G1 & G2 & G3 & G4) & G5). unfold rect_equiv.
  rewrite H1, H2, H3, H4, H5. auto.
Qed.

Lemma find_region_spec r : forall rs i k, find_region rs r i = Some k ->
  i <= k /\ exists r', nth_error rs (Z.to_nat (k - i)) = Some r' /\ region_eqb r' r = true.
Proof.
  induction rs as [|x rs IH]; intros i k H; cbn [find_region] in H; [discriminate|].
  destruct (region_eqb x r) eqn:E.
  - injection H as <-. split; [lia|]. exists x. rewrite Z.sub_diag. split; [reflexivity | exact E].
  - apply IH in H as (Hik & r' & Hn & He). split; [lia|]. exists r'. split; [|exact He].
    replace (Z.to_nat (k - i)) with (S (Z.to_nat (k - (i + 1)))) by lia. exact Hn.
Qed.
Lemma get_region_spec rs r ri rs' : get_region rs r = (ri, rs') ->
  0 <= ri /\ (exists ext, rs' = rs ++ ext) /\ exists r', nth_error rs' (Z.to_nat ri) = Some r' /\ region_eqb r' r = true.
Proof.
  unfold get_region. destruct (find_region rs r 0) as [k|] eqn:E; intros H; injection H as <- <-.
  - apply find_region_spec in E as (Hk & r' & Hn & He). rewrite Z.sub_0_r in Hn.
    split; [exact Hk|]. split; [exists []; symmetry; apply app_nil_r|]. exists r'. auto.
  - split; [lia|]. split; [exists [r]; reflexivity|]. exists r. rewrite Nat2Z.id, nth_error_app2, Nat.sub_diag by lia.
    split; [reflexivity | apply region_eqb_refl].
Qed.

(* ---- observation lemmas ---- *)
Lemma leaves_of_leaves ls : leaves_of_items (map PLeaf ls) = Some ls.
Proof. induction ls as [|l ls IH]; [reflexivity|]. cbn [map leaves_of_items]. rewrite IH. reflexivity. Qed.
Lemma parts_of_subs_snoc its ps b e ls : parts_of_subs its = Some ps ->
  parts_of_subs (its ++ [PSub b e ls]) = Some (ps ++ [mkPart b e (map piece_of_leaf ls)]).
Proof.
  revert ps. induction its as [|i its IH]; intros ps H.
  - injection H as <-. reflexivity.
  - destruct i as [l|b' e' ls']; cbn [parts_of_subs app] in *; [discriminate|].
    destruct (parts_of_subs its) as [ps'|]; [|discriminate]. injection H as <-. rewrite (IH ps' eq_refl). reflexivity.
Qed.
Lemma align_codes jc : text_align_of jc = align_code (justification jc).
Proof. unfold text_align_of, justification. destruct (jc =? 1); [reflexivity|]. destruct (jc =? 3); reflexivity. Qed.

Lemma Forall2_single_l {A B} (P : A -> B -> Prop) a l : Forall2 P [a] l -> exists b, l = [b] /\ P a b.
Proof.
  intros H. destruct l as [|b [|c l]].
  - inversion H.
  - exists b. split; [reflexivity|]. inversion H; assumption.
  - inversion H as [|? ? ? ? _ H2]. inversion H2.
Qed.

Section Paragraphs.
  Variables (f : datafile) (r : frame_rate) (start : Q) (cct : list Z) (tele : bool) (rows : Z).
  Hypothesis Hstart : f_start f = start.
  Hypothesis Hcct : f_cct f = cct.
  Hypothesis Htele : f_teletext f = tele.
  Hypothesis Hrows : f_max_rows f = rows.
  Hypothesis Hpos : 1 <= rows.

  (* what is assumed of a subtitle: its field consists of bytes, and its two time codes are converted as the
     specification converts them (true of every label at 24, 25, 30000/1001, 50 fps: Proofs/C09/Times.v) *)
  Definition sub_ok (x : subtitle) : Prop :=
    Forall is_byte (s_field x) /\
    offset_q (f_fps f) (b_tci (s_head x)) = time_of r (b_tci (s_head x)) /\
    offset_q (f_fps f) (b_tco (s_head x)) = time_of r (b_tco (s_head x)).

  Definition R (regions : list region) (x : Z * para) (g : paragraph) : Prop :=
    fst x = pg_sgn g /\ para_matches rows regions (snd x) g.

  Lemma R_mono regions ext x g : R regions x g -> R (regions ++ ext) x g.
  Proof.
    intros (H1 & H2 & H3 & rr & Hn & H0 & Hr). split; [exact H1|]. split; [exact H2|]. split; [exact H3|].
    exists rr. split; [|split; assumption]. rewrite nth_error_app1; [exact Hn|]. apply nth_error_Some. rewrite Hn. discriminate.
  Qed.
  Lemma R_mono_all regions ext L acc : Forall2 (R regions) L acc -> Forall2 (R (regions ++ ext)) L acc.
  Proof. induction 1; constructor; [apply R_mono|]; assumption. Qed.

  Definition Inv (s : state) (last_sn : Z) (acc : list paragraph) (open_set : option bool) (L : list (Z * para)) : Prop :=
    shape s L /\ Forall2 (R (st_regions s)) L acc /\
    (match st_last_sn s with Some l => l <= last_sn | None => True end) /\
    (open_set = Some true -> exists L0 sgn p, L = L0 ++ [(sgn, p)] /\ p_time p = None).

  (* the region of a new paragraph *)
  Lemma region_matches rs vp tf rr ri rs' :
    region_for rows vp tf (has_double_height_char tf) = Some rr -> get_region rs rr = (ri, rs') ->
    exists r', nth_error rs' (Z.to_nat ri) = Some r' /\ 0 <= ri /\
               (rect_equiv (rect_of r') (top_anchored rows (first_row vp)) \/
                rect_equiv (rect_of r') (bottom_anchored rows (first_row vp + rows_occupied tf - 1))).
  Proof.
    intros Hr Hg. apply get_region_spec in Hg as (H0 & _ & r' & Hn & He). apply region_eqb_equiv in He.
    exists r'. split; [exact Hn|]. split; [exact H0|].
    destruct (region_choice rows vp tf rr Hr) as [[_ H]|[_ H]]; [left | right]; eapply rect_equiv_trans; eassumption.
  Qed.

  (* one subtitle: the reader's step against the specification's step, the invariant is kept *)
  Lemma step x s last_sn acc open_set L last_sn' acc' open_set' :
    Inv s last_sn acc open_set L -> sub_ok x ->
    spec_step r start (decoder_spec cct) tele x last_sn acc open_set = Some (last_sn', acc', open_set') ->
    exists s' L', complete_subtitle f s (tti_of (s_head x)) (s_field x) = inl s' /\ Inv s' last_sn' acc' open_set' L'.
  Proof.
    intros (Hshape & HR & Hsn & Hopen) (Hbytes & Htci & Htco) Hstep.
    set (h := s_head x) in *. set (t := tti_of h). set (tf := s_field x) in *.
    unfold spec_step in Hstep. fold h tf in Hstep. cbv zeta in Hstep.
    set (b := (time_of r (b_tci h) - start)%Q) in *. set (e := (time_of r (b_tco h) - start)%Q) in *.
    assert (Hb : (offset_q (f_fps f) (t_tci t) - f_start f)%Q = b) by (unfold b, t; cbn [tti_of t_tci]; rewrite Htci, Hstart; reflexivity).
    assert (He : (offset_q (f_fps f) (t_tco t) - f_start f)%Q = e) by (unfold e, t; cbn [tti_of t_tco]; rewrite Htco, Hstart; reflexivity).
    destruct (last_sn <? b_sn h) eqn:Hlt; [cbn [negb] in Hstep | discriminate].
    destruct (q_ltb e b) eqn:Heb; [discriminate|].
    assert (Hdiff : sn_differs (t_sn t) (st_last_sn s) = true).
    { apply sn_value. unfold t. cbn [tti_of t_sn]. destruct (st_last_sn s) as [l|]; [|discriminate]. intros Heq. injection Heq as ->. lia. }
    assert (Hsn' : match st_last_sn s with Some l => l <= b_sn h | None => True end) by (destruct (st_last_sn s); [lia | exact I]).
    assert (Htxt : map piece_of_leaf (tf_model (decoder_of_cct (f_cct f)) (f_teletext f) tf) = tf_spec (decoder_spec cct) tele tf)
      by (rewrite Hcct, Htele; apply text_full, Hbytes).
    destruct (q_ltb b 0) eqn:Hkept; cbn [negb] in Hstep.
    { (* dropped: starts before the programme start *)
      assert (Hq : q_neg (offset_q (f_fps f) (t_tci t) - f_start f) = true) by (rewrite Hb; exact Hkept).
      exists (mkState false tf (st_last_sn s) (st_divs s) (st_cur s) (st_regions s)), L.
      split; [apply complete_dropped, Hq|].
      assert (Hsh : shape (mkState false tf (st_last_sn s) (st_divs s) (st_cur s) (st_regions s)) L)
        by (destruct Hshape as [s0 Hc Hd | s0 L0 sgn p Hc Hd]; [apply shape_nil | apply shape_snoc]; assumption).
      destruct (b_cs h =? 0); [destruct open_set; [discriminate|]; injection Hstep as <- <- <-; repeat split; try assumption; discriminate|].
      destruct (b_cs h =? 1); [destruct open_set; [discriminate|]; injection Hstep as <- <- <-; repeat split; try assumption; discriminate|].
      destruct ((b_cs h =? 2) || (b_cs h =? 3)); [|discriminate].
      destruct open_set as [k|]; [|discriminate]. destruct k; cbn [Bool.eqb negb] in Hstep; [discriminate|].
      injection Hstep as <- <- <-. repeat split; try assumption. destruct (b_cs h =? 2); discriminate. }
    assert (Hq : q_neg (offset_q (f_fps f) (t_tci t) - f_start f) = false) by (rewrite Hb; exact Hkept).
    assert (Hq2 : q_lt (offset_q (f_fps f) (t_tco t) - f_start f) (offset_q (f_fps f) (t_tci t) - f_start f) = false) by (rewrite Hb, He; exact Heb).
    assert (Hnew : (b_cs h =? 0) || (b_cs h =? 1) = true -> open_set = None -> forall parts,
              parts_of_para (new_para f t tf 0) = Some parts ->
              p_time (new_para f t tf 0) = None \/ (b_cs h =? 1) = false ->
              exists s' L', complete_subtitle f s t tf = inl s' /\
                Inv s' (b_sn h) (acc ++ [mkParagraph (b_sgn h) (justification (b_jc h)) (first_row (b_vp h)) (rows_occupied tf) parts])
                    (if b_cs h =? 1 then Some true else None) L').
    { intros Hcs Hos parts Hparts Htime.
      destruct (region_exists (f_max_rows f) (t_vp t) tf (has_double_height_char tf)) as [rr Hrr]; [lia|].
      destruct (get_region (st_regions s) rr) as [ri rs] eqn:Hg.
      assert (Hn : sn_differs (t_sn t) (st_last_sn s) && ((t_cs t =? 0) || (t_cs t =? 1)) || no_paragraph s = true)
        by (rewrite Hdiff; unfold t; cbn [tti_of t_cs]; rewrite Hcs; reflexivity).
      exists (mkState false tf (Some (t_sn t)) (ensure (commit s) (t_sgn t)) (Some (t_sgn t, new_para f t tf ri)) rs),
             (L ++ [(t_sgn t, new_para f t tf ri)]).
      split; [apply (complete_new f s t tf rr ri rs Hq Hq2 Hn Hrr Hg)|].
      pose proof (get_region_spec _ _ _ _ Hg) as (_ & (ext & Hext) & _).
      rewrite Hrows in Hrr. destruct (region_matches _ _ _ _ _ _ Hrr Hg) as (r' & Hnth & Hri & Hrect).
      assert (Hpp : parts_of_para (new_para f t tf ri) = parts_of_para (new_para f t tf 0) /\
                    p_time (new_para f t tf ri) = p_time (new_para f t tf 0) /\
                    p_align (new_para f t tf ri) = text_align_of (t_jc t) /\ p_region (new_para f t tf ri) = ri).
      { unfold new_para, parts_of_para. destruct ((t_cs t =? 1) || (t_cs t =? 2) || (t_cs t =? 3)); cbn; auto. }
      destruct Hpp as (Hpp1 & Hpp2 & Hpp3 & Hpp4).
      split; [|split; [|split]].
      - apply shape_snoc; [reflexivity|]. cbn [st_divs]. rewrite (commit_shape _ _ Hshape). reflexivity.
      - cbn [st_regions]. apply Forall2_app; [rewrite Hext; apply R_mono_all, HR|]. constructor; [|constructor].
        split; [reflexivity|]. cbn [snd]. split; [|split].
        + rewrite Hpp3. cbn [pg_align]. apply align_codes.
        + rewrite Hpp1. exact Hparts.
        + exists r'. rewrite Hpp4. cbn [pg_vp pg_rows]. auto.
      - cbn [st_last_sn]. unfold t. cbn [tti_of t_sn]. lia.
      - intros Ho. exists L, (t_sgn t), (new_para f t tf ri). split; [reflexivity|]. rewrite Hpp2.
        destruct Htime as [Ht|Ht]; [exact Ht | rewrite Ht in Ho; discriminate]. }
    destruct (b_cs h =? 0) eqn:Hcs0.
    { destruct open_set; [discriminate|]. injection Hstep as <- <- <-.
      apply Z.eqb_eq in Hcs0.
      assert (Hcs1 : b_cs h =? 1 = false) by (rewrite Hcs0; reflexivity).
      specialize (Hnew ltac:(reflexivity) eq_refl [mkPart b e (tf_spec (decoder_spec cct) tele tf)]).
      rewrite Hcs1 in Hnew. apply Hnew; [|right; reflexivity].
      unfold new_para, parts_of_para, t. cbn [tti_of t_cs]. rewrite Hcs0. cbn [Z.eqb orb p_time p_items].
      rewrite leaves_of_leaves. fold t. rewrite Hb, He, Htxt. reflexivity. }
    destruct (b_cs h =? 1) eqn:Hcs1.
    { destruct open_set; [discriminate|]. injection Hstep as <- <- <-.
      apply Z.eqb_eq in Hcs1.
      specialize (Hnew ltac:(reflexivity) eq_refl [mkPart b e (tf_spec (decoder_spec cct) tele tf ++ [Break])]).
      apply Hnew.
      - unfold new_para, parts_of_para, t. cbn [tti_of t_cs]. rewrite Hcs1. cbn [Z.eqb Pos.eqb orb p_time p_items parts_of_subs].
        fold t. rewrite Hb, He, map_app, Htxt. reflexivity.
      - left. unfold new_para, t. cbn [tti_of t_cs]. rewrite Hcs1. reflexivity. }
    destruct ((b_cs h =? 2) || (b_cs h =? 3)) eqn:Hcs23; [|discriminate].
    destruct open_set as [k|]; [|discriminate]. destruct k; cbn [Bool.eqb negb] in Hstep; [|discriminate].
    injection Hstep as <- <- <-.
    destruct (Hopen eq_refl) as (L0 & sgn & p & -> & Hpt).
    apply Forall2_app_inv_l in HR as (acc0 & accl & HR0 & HRl & ->).
    apply Forall2_single_l in HRl as (g & -> & HRp).
    rewrite rev_app_distr. cbn [rev app]. rewrite rev_involutive.
    assert (Hcur : st_cur s = Some (sgn, p) /\ st_divs s = ensure (grp L0) sgn).
    { apply shape_snoc_inv, Hshape. }
    destruct Hcur as [Hcur Hdivs].
    assert (Hn : sn_differs (t_sn t) (st_last_sn s) && ((t_cs t =? 0) || (t_cs t =? 1)) = false)
      by (unfold t; cbn [tti_of t_cs]; rewrite Hcs0, Hcs1; apply andb_false_r).
    exists (mkState false tf (st_last_sn s) (st_divs s) (Some (sgn, more_para f t tf p)) (st_regions s)), (L0 ++ [(sgn, more_para f t tf p)]).
    split; [apply (complete_more f s t tf sgn p Hq Hq2 Hn Hcur)|].
    assert (Hcs : (t_cs t =? 1) || (t_cs t =? 2) || (t_cs t =? 3) = true)
      by (unfold t; cbn [tti_of t_cs]; rewrite Hcs1; exact Hcs23).
    assert (Hmp : more_para f t tf p = mkPara (p_region p) (p_align p) (p_font_size p) (p_line_height p) (p_time p)
                    (p_items p ++ [PSub b e (if b_cs h =? 2 then tf_model (decoder_of_cct (f_cct f)) (f_teletext f) tf ++ [LBr]
                                             else tf_model (decoder_of_cct (f_cct f)) (f_teletext f) tf)])).
    { unfold more_para. rewrite Hcs, Hb, He. unfold t. cbn [tti_of t_cs]. rewrite Hcs1. reflexivity. }
    split; [|split; [|split]].
    - apply shape_snoc; [reflexivity | exact Hdivs].
    - cbn [st_regions]. apply Forall2_app; [exact HR0|]. constructor; [|constructor].
      destruct HRp as (H1 & H2 & H3 & H4). cbn [fst snd] in *. split; [exact H1|]. rewrite Hmp.
      split; [exact H2|]. split; [|exact H4].
      unfold parts_of_para in *. cbn [snd p_time p_items pg_parts]. rewrite Hpt in *.
      rewrite (parts_of_subs_snoc _ _ b e _ H3). f_equal. f_equal. f_equal.
      destruct (b_cs h =? 2); [rewrite map_app|]; rewrite Htxt; reflexivity.
    - cbn [st_last_sn]. exact Hsn'.
    - intros Ho. exists L0, sgn, (more_para f t tf p). split; [reflexivity|]. rewrite Hmp. exact Hpt.
  Qed.

  (* every list of subtitles *)
  Lemma fold_paragraphs : forall subs s last_sn acc open_set L ps,
    Inv s last_sn acc open_set L -> Forall sub_ok subs ->
    paragraphs_go r start (decoder_spec cct) tele subs last_sn acc open_set = Some ps ->
    exists s' L', fold_subs f s subs = inl s' /\ shape s' L' /\ Forall2 (R (st_regions s')) L' ps.
  Proof.
    induction subs as [|x rest IH]; intros s last_sn acc open_set L ps HI Hok H.
    - cbn [paragraphs_go] in H. destruct open_set; [discriminate|]. injection H as <-.
      exists s, L. destruct HI as (H1 & H2 & _). split; [reflexivity|]. split; assumption.
    - rewrite paragraphs_go_cons in H. apply Forall_cons_iff in Hok as [Hx Hrest].
      destruct (spec_step r start (decoder_spec cct) tele x last_sn acc open_set) as [[[l a] o]|] eqn:Hs; [|discriminate].
      destruct (step x s last_sn acc open_set L l a o HI Hx Hs) as (s1 & L1 & Hc & HI1).
      cbn [fold_subs]. rewrite Hc. eapply IH; eassumption.
  Qed.
End Paragraphs.

(* ================================================================================================ 4 *)
(* divisions: the reader's SGN -> div map, filled paragraph by paragraph, is the specification's grouping of the
   paragraphs by subtitle group in order of first appearance *)
Definition ord_step (acc : list Z) (k : Z) : list Z := if existsb (fun s => s =? k) acc then acc else acc ++ [k].
Definition ord (K : list Z) : list Z := fold_left ord_step K [].

Lemma existsb_rev {A} (p : A -> bool) l : existsb p (rev l) = existsb p l.
Proof.
  induction l as [|a l IH]; [reflexivity|]. cbn [rev existsb]. rewrite existsb_app, IH. cbn [existsb]. rewrite orb_false_r. apply orb_comm.
Qed.
Lemma sgn_order_ord : forall ps seen, sgn_order ps seen = fold_left ord_step (map pg_sgn ps) (rev seen).
Proof.
  induction ps as [|p r IH]; intros seen; [reflexivity|]. cbn [sgn_order map fold_left]. unfold ord_step at 2.
  rewrite existsb_rev. destruct (existsb (fun s => s =? pg_sgn p) seen); rewrite IH; reflexivity.
Qed.
Lemma by_group_ord ps : by_group ps = map (fun g => filter (fun p => pg_sgn p =? g) ps) (ord (map pg_sgn ps)).
Proof. unfold by_group. rewrite sgn_order_ord. reflexivity. Qed.

Lemma ord_snoc K k : ord (K ++ [k]) = ord_step (ord K) k.
Proof. unfold ord. rewrite fold_left_app. reflexivity. Qed.
Lemma mem_in O k : existsb (fun s => s =? k) O = true <-> In k O.
Proof.
  rewrite existsb_exists. split; [intros (x & Hx & He); apply Z.eqb_eq in He; subst; exact Hx | intros H; exists k; split; [exact H | apply Z.eqb_refl]].
Qed.
Lemma nodup_snoc (O : list Z) k : NoDup O -> ~ In k O -> NoDup (O ++ [k]).
Proof.
  induction O as [|a O IH]; intros Hn Hk; cbn [app]; [constructor; [intros []|constructor]|].
  apply NoDup_cons_iff in Hn as [Ha Hn]. constructor.
  - rewrite in_app_iff. intros [Hi|[Hi|[]]]; [contradiction | subst; apply Hk; left; reflexivity].
  - apply IH; [exact Hn | intros Hi; apply Hk; right; exact Hi].
Qed.
Lemma ord_nodup K : NoDup (ord K).
Proof.
  induction K as [|k K IH] using rev_ind; [constructor|]. rewrite ord_snoc. unfold ord_step.
  destruct (existsb (fun s => s =? k) (ord K)) eqn:E; [exact IH|].
  apply nodup_snoc; [exact IH|]. intros Hi. apply mem_in in Hi. congruence.
Qed.
Lemma ord_in K : forall k, In k (ord K) <-> In k K.
Proof.
  induction K as [|a K IH] using rev_ind; intros k; [reflexivity|]. rewrite ord_snoc. unfold ord_step.
  destruct (existsb (fun s => s =? a) (ord K)) eqn:E; rewrite !in_app_iff; cbn [In].
  - apply mem_in in E. apply IH in E. rewrite IH. split; [tauto|]. intros [H|[<-|[]]]; assumption.
  - rewrite IH. reflexivity.
Qed.

Definition sel (L : list (Z * para)) (k : Z) : list para := map snd (filter (fun x => fst x =? k) L).
Definition entry (L : list (Z * para)) (k : Z) : Z * list para := (k, sel L k).

Lemma sel_snoc L k p k' : sel (L ++ [(k, p)]) k' = sel L k' ++ (if k =? k' then [p] else []).
Proof. unfold sel. rewrite filter_app, map_app. cbn [filter fst]. destruct (k =? k'); reflexivity. Qed.
Lemma entry_other L k p k' : k' <> k -> entry (L ++ [(k, p)]) k' = entry L k'.
Proof. intros H. unfold entry. rewrite sel_snoc. destruct (k =? k') eqn:E; [lia|]. rewrite app_nil_r. reflexivity. Qed.
Lemma entries_other L k p O : ~ In k O -> map (entry (L ++ [(k, p)])) O = map (entry L) O.
Proof. intros H. apply map_ext_in. intros a Ha. apply entry_other. intros ->. contradiction. Qed.
Lemma sel_absent L k : ~ In k (map fst L) -> sel L k = [].
Proof.
  unfold sel. induction L as [|x L IH]; intros H; [reflexivity|]. cbn [map filter In] in *.
  destruct (fst x =? k) eqn:E; [exfalso; apply H; left; lia|]. apply IH. tauto.
Qed.

Lemma has_div_entries L O k : has_div (map (entry L) O) k = existsb (fun s => s =? k) O.
Proof. unfold has_div. induction O as [|a O IH]; [reflexivity|]. cbn [map existsb entry fst]. rewrite IH. reflexivity. Qed.
Lemma div_add_in L k p : forall O, NoDup O -> In k O -> div_add (map (entry L) O) k p = map (entry (L ++ [(k, p)])) O.
Proof.
  induction O as [|a O IH]; intros Hn Hi; [destruct Hi|]. apply NoDup_cons_iff in Hn as [Ha Hn].
  cbn [map div_add entry]. destruct (a =? k) eqn:E.
  - apply Z.eqb_eq in E. subst a. rewrite (entries_other L k p O Ha). unfold entry. rewrite sel_snoc, Z.eqb_refl. reflexivity.
  - destruct Hi as [->|Hi]; [lia|]. rewrite (IH Hn Hi). f_equal. symmetry. apply entry_other. lia.
Qed.
Lemma div_add_notin L k p : forall O, ~ In k O -> div_add (map (entry L) O ++ [(k, [])]) k p = map (entry L) O ++ [(k, [p])].
Proof.
  induction O as [|a O IH]; intros Hi.
  - cbn [map app div_add]. rewrite Z.eqb_refl. reflexivity.
  - cbn [map app div_add entry]. destruct (a =? k) eqn:E; [exfalso; apply Hi; left; lia|]. rewrite IH; [reflexivity|]. intros H; apply Hi; right; exact H.
Qed.

Lemma grp_char L : grp L = map (entry L) (ord (map fst L)).
Proof.
  induction L as [|[k p] L IH] using rev_ind; [reflexivity|].
  rewrite grp_snoc, IH, map_app. cbn [map fst]. rewrite ord_snoc. unfold ensure, ord_step.
  rewrite has_div_entries. set (O := ord (map fst L)).
  destruct (existsb (fun s => s =? k) O) eqn:E.
  - apply div_add_in; [apply ord_nodup | apply mem_in, E].
  - assert (Hk : ~ In k O) by (intros Hi; apply mem_in in Hi; congruence).
    rewrite div_add_notin by exact Hk. rewrite map_app, (entries_other L k p O Hk). cbn [map]. unfold entry at 3.
    rewrite sel_snoc, Z.eqb_refl, sel_absent; [reflexivity|]. intros Hi. apply Hk. apply ord_in, Hi.
Qed.

Lemma divisions_match (PM : para -> paragraph -> Prop) L ps :
  Forall2 (fun x g => fst x = pg_sgn g /\ PM (snd x) g) L ps ->
  Forall2 (Forall2 PM) (map snd (grp L)) (by_group ps).
Proof.
  intros H.
  assert (Hk : map fst L = map pg_sgn ps) by (induction H as [|x g L' ps' [Hx _] _ IH]; [reflexivity | cbn [map]; rewrite Hx, IH; reflexivity]).
  rewrite grp_char, by_group_ord, Hk, map_map. cbn [entry snd].
  induction (ord (map pg_sgn ps)) as [|k O IHO]; [constructor|]. cbn [map]. constructor; [|exact IHO].
  clear IHO Hk. unfold sel. induction H as [|x g L' ps' [Hx Hp] _ IH]; [constructor|].
  cbn [filter]. rewrite Hx. destruct (pg_sgn g =? k); [cbn [map]; constructor; assumption | exact IH].
Qed.

(* ================================================================================================ 5 *)
(* ---- the frame rate named by the DFC ---- *)
Ltac zlit H z := destruct z as [|z|z]; try discriminate H; repeat (destruct z as [z|z|]; try discriminate H).
Lemma dfc_inv dfc r : dfc_rate dfc = Some r -> exists a b, dfc = [83; 84; 76; a; b; 46; 48; 49].
Proof.
  intros H. unfold dfc_rate in H.
  destruct dfc as [|c0 l]; [discriminate|]. zlit H c0.
  destruct l as [|c1 l]; [discriminate|]. zlit H c1.
  destruct l as [|c2 l]; [discriminate|]. zlit H c2.
  destruct l as [|a l]; [discriminate|].
  destruct l as [|b l]; [discriminate|].
  destruct l as [|c5 l]; [discriminate|]. zlit H c5.
  destruct l as [|c6 l]; [discriminate|]. zlit H c6.
  destruct l as [|c7 l]; [discriminate|]. zlit H c7.
  destruct l as [|c8 l]; [|discriminate].
  exists a, b. reflexivity.
Qed.

(* the reader converts time codes as the specification does; at 24000/1001 only within the first minute (df-23976) *)
Definition rate_ok (dfc : list Z) (fps : rate) (r : frame_rate) : Prop :=
  forall l, is_stl23 dfc && beyond_first_minute l = false -> offset_q fps l = time_of r l.

Lemma rates dfc r : dfc_rate dfc = Some r ->
  exists n d, map_get_bytes dfc_fraction_map dfc = Some (n, d) /\ rate_ok dfc (mkRate n d) r.
Proof.
  intros H. destruct (dfc_inv dfc r H) as (a & b & ->). cbn [dfc_rate] in H.
  change 0x32 with 50 in H. change 0x33 with 51 in H. change 0x34 with 52 in H. change 0x35 with 53 in H. change 0x30 with 48 in H.
  destruct ((a =? 50) && (b =? 51)) eqn:E1.
  { assert (a = 50 /\ b = 51) as [-> ->] by lia. injection H as <-. exists 24000, 1001. split; [reflexivity|].
    intros l Hl. change (is_stl23 [83; 84; 76; 50; 51; 46; 48; 49]) with true in Hl. apply offset23976_partial, Hl. }
  destruct ((a =? 50) && (b =? 52)) eqn:E2.
  { assert (a = 50 /\ b = 52) as [-> ->] by lia. injection H as <-. exists 24, 1. split; [reflexivity|]. intros l _. apply offset24. }
  destruct ((a =? 50) && (b =? 53)) eqn:E3.
  { assert (a = 50 /\ b = 53) as [-> ->] by lia. injection H as <-. exists 25, 1. split; [reflexivity|]. intros l _. apply offset25. }
  destruct ((a =? 51) && (b =? 48)) eqn:E4.
  { assert (a = 51 /\ b = 48) as [-> ->] by lia. injection H as <-. exists 30000, 1001. split; [reflexivity|]. intros l _. apply offset2997. }
  destruct ((a =? 53) && (b =? 48)) eqn:E5; [|discriminate].
  assert (a = 53 /\ b = 48) as [-> ->] by lia. injection H as <-. exists 50, 1. split; [reflexivity|]. intros l _. apply offset50.
Qed.

(* ---- int(bytes) on the numeric GSI fields ---- *)
Definition dstep (acc : option Z) (c : Z) : option Z :=
  match acc, digit_val c with Some a, Some d => Some (10 * a + d) | _, _ => None end.
Lemma digits_value_fold bs : digits_value bs = fold_left dstep bs (Some 0).
Proof. reflexivity. Qed.
Lemma dstep_none bs : fold_left dstep bs None = None.
Proof. induction bs as [|b r IH]; [reflexivity | exact IH]. Qed.
Lemma digit_val_digit c d : digit_val c = Some d -> is_digit c = true /\ d = c - 48.
Proof.
  unfold digit_val, is_digit. change 0x30 with 48. change 0x39 with 57.
  destruct ((48 <=? c) && (c <=? 57)); [|discriminate]. intros H. injection H as <-. auto.
Qed.
Lemma digit_val_none c : digit_val c = None -> is_digit c = false.
Proof. unfold digit_val, is_digit. change 0x30 with 48. change 0x39 with 57. destruct ((48 <=? c) && (c <=? 57)); [discriminate | reflexivity]. Qed.

Lemma digits_go_value : forall bs a pd n, fold_left dstep bs (Some a) = Some n -> bs <> [] \/ pd = true ->
  digits_go bs a pd = Some n /\ forallb is_digit bs = true.
Proof.
  induction bs as [|b r IH]; intros a pd n H Hne.
  - cbn in H. injection H as <-. destruct Hne as [Hne| ->]; [contradiction | split; reflexivity].
  - cbn [fold_left dstep] in H. destruct (digit_val b) as [d|] eqn:Ed; [|rewrite dstep_none in H; discriminate].
    apply digit_val_digit in Ed as [Hd ->]. cbn [digits_go forallb]. rewrite Hd.
    replace (a * 10 + (b - 48)) with (10 * a + (b - 48)) by lia. apply (IH _ true n H). right; reflexivity.
Qed.
Lemma digits_go_nan : forall bs a pd, existsb lenient_char bs = false -> fold_left dstep bs (Some a) = None -> digits_go bs a pd = None.
Proof.
  induction bs as [|b r IH]; intros a pd Hl H; [discriminate|].
  cbn [existsb] in Hl. apply orb_false_iff in Hl as [Hb Hl]. cbn [fold_left dstep] in H. cbn [digits_go].
  destruct (digit_val b) as [d|] eqn:Ed.
  - apply digit_val_digit in Ed as [Hd ->]. rewrite Hd. replace (a * 10 + (b - 48)) with (10 * a + (b - 48)) by lia. apply IH; assumption.
  - rewrite (digit_val_none _ Ed). unfold lenient_char in Hb. change 0x5F with 95 in Hb.
    destruct (b =? 95) eqn:E; [rewrite !orb_true_r in Hb; discriminate | reflexivity].
Qed.

Lemma lstrip_head l : match l with [] => True | b :: _ => py_space b = false end -> lstrip_sp l = l.
Proof. destruct l as [|b r]; [reflexivity|]. intros H. cbn [lstrip_sp]. rewrite H. reflexivity. Qed.
Lemma nosign {A} (b : Z) (r : list Z) (X Y : list Z -> A) (D : A) : b <> 43 -> b <> 45 ->
  match b :: r with 43 :: r' => X r' | 45 :: r' => Y r' | _ => D end = D.
Proof.
  intros H1 H2. destruct b as [|p|p]; try reflexivity.
  repeat (destruct p as [p|p|]; try reflexivity); congruence.
Qed.
(* a string without blanks and signs is what int() sees *)
Lemma py_int_plain bs : Forall (fun b => py_space b = false /\ b <> 43 /\ b <> 45) bs -> py_int bs = digits_go bs 0 false.
Proof.
  intros H. unfold py_int.
  assert (H1 : lstrip_sp bs = bs) by (apply lstrip_head; destruct H as [|b r [Hb _] _]; [exact I | exact Hb]).
  assert (Hr : Forall (fun b => py_space b = false /\ b <> 43 /\ b <> 45) (rev bs)) by (apply Forall_rev, H).
  assert (H2 : lstrip_sp (rev bs) = rev bs) by (apply lstrip_head; destruct Hr as [|b r [Hb _] _]; [exact I | exact Hb]).
  rewrite H1, H2, rev_involutive. destruct H as [|b r (_ & H43 & H45) _]; [reflexivity|].
  apply (nosign b r (fun r' => digits_go r' 0 false)
                (fun r' => match digits_go r' 0 false with Some n => Some (- n) | None => None end)); assumption.
Qed.

Lemma digit_plain b : is_digit b = true -> py_space b = false /\ b <> 43 /\ b <> 45.
Proof. unfold is_digit, py_space. intros H. split; [|split]; lia. Qed.
Lemma lenient_plain b : lenient_char b = false -> py_space b = false /\ b <> 43 /\ b <> 45.
Proof.
  unfold lenient_char, py_space, in_range. change 0x20 with 32. change 0x2B with 43. change 0x2D with 45. change 0x5F with 95.
  intros H. split; [|split]; lia.
Qed.

Lemma py_int_number bs n : bs <> [] -> numeric_field bs = Some (Number n) -> py_int bs = Some n.
Proof.
  intros Hne H. unfold numeric_field in H. destruct (digits_value bs) as [v|] eqn:Ev.
  - injection H as ->. rewrite digits_value_fold in Ev.
    destruct (digits_go_value bs 0 false n Ev (or_introl Hne)) as [Hg Hd].
    rewrite py_int_plain; [exact Hg|]. apply Forall_forall. intros b Hb. apply digit_plain.
    rewrite forallb_forall in Hd. apply Hd, Hb.
  - destruct (existsb lenient_char bs); discriminate.
Qed.
Lemma py_int_nan bs : numeric_field bs = Some NotANumber -> py_int bs = None.
Proof.
  intros H. unfold numeric_field in H. destruct (digits_value bs) as [v|] eqn:Ev; [discriminate|].
  destruct (existsb lenient_char bs) eqn:El; [discriminate|].
  rewrite py_int_plain.
  - apply digits_go_nan; [exact El | exact Ev].
  - apply Forall_forall. intros b Hb. apply lenient_plain.
    destruct (lenient_char b) eqn:E; [|reflexivity]. assert (existsb lenient_char bs = true) by (apply existsb_exists; exists b; auto). congruence.
Qed.

(* ---- slices of the GSI block ---- *)
Lemma sub_nonempty off len (g : list Z) : (0 < len)%nat -> (off < length g)%nat -> sub off len g <> [].
Proof.
  intros Hl Ho H. apply (f_equal (@length Z)) in H. unfold sub in H. rewrite firstn_length, skipn_length in H. cbn [length] in H. lia.
Qed.
Lemma sub_length off len (g : list Z) : (off + len <= length g)%nat -> length (sub off len g) = len.
Proof. intros H. unfold sub. rewrite firstn_length, skipn_length. lia. Qed.

(* ---- "hh:mm:ss:ff" ---- *)
Lemma label_inv t l : label_of_text t = Some l ->
  exists a b c d e f g h, t = [a; b; 58; c; d; 58; e; f; 58; g; h].
Proof.
  intros H. unfold label_of_text in H.
  destruct t as [|a t]; [discriminate|]. destruct t as [|b t]; [discriminate|].
  destruct t as [|s1 t]; [discriminate|]. zlit H s1.
  destruct t as [|c t]; [discriminate|]. destruct t as [|d t]; [discriminate|].
  destruct t as [|s2 t]; [discriminate|]. zlit H s2.
  destruct t as [|e t]; [discriminate|]. destruct t as [|f t]; [discriminate|].
  destruct t as [|s3 t]; [discriminate|]. zlit H s3.
  destruct t as [|g t]; [discriminate|]. destruct t as [|h t]; [discriminate|].
  destruct t as [|x t]; [|discriminate].
  exists a, b, c, d, e, f, g, h. reflexivity.
Qed.
Lemma two_digit_digits a b n : two_digit a b = Some n -> two_digits a b = Some n.
Proof.
  unfold two_digit, two_digits. destruct (digit_val a) as [x|] eqn:Ea; [|discriminate]. destruct (digit_val b) as [y|] eqn:Eb; [|discriminate].
  apply digit_val_digit in Ea as [Ha ->]. apply digit_val_digit in Eb as [Hb ->]. rewrite Ha, Hb. cbn [andb].
  replace ((a - 48) * 10 + (b - 48)) with (10 * (a - 48) + (b - 48)) by ring. intros H. exact H.
Qed.
Lemma parse_label t l fps : label_of_text t = Some l -> parse_tc t fps = Some (l, fps).
Proof.
  intros H. destruct (label_inv t l H) as (a & b & c & d & e & f & g & h & ->).
  cbn [label_of_text] in H. unfold parse_tc. cbn [match_tc]. change colon with 58. cbn [Z.eqb Pos.eqb andb].
  destruct (two_digit a b) as [hh|] eqn:E1; [|discriminate]. destruct (two_digit c d) as [mm|] eqn:E2; [|discriminate].
  destruct (two_digit e f) as [ss|] eqn:E3; [|discriminate]. destruct (two_digit g h) as [ff|] eqn:E4; [|discriminate].
  injection H as <-.
  rewrite (two_digit_digits _ _ _ E1), (two_digit_digits _ _ _ E2), (two_digit_digits _ _ _ E3), (two_digit_digits _ _ _ E4). reflexivity.
Qed.

(* ---- DataFile.__init__ against the specification's reading of the GSI block ---- *)
Definition start_beyond (g : list Z) (cfg : config) : bool :=
  match cf_start cfg with
  | StNone => false
  | StTCP => let tcp := sub 256 8 g in
             match py_int (slice 0 2 tcp), py_int (slice 2 2 tcp), py_int (slice 4 2 tcp), py_int (slice 6 2 tcp) with
             | Some h, Some m, Some s, Some f => beyond_first_minute (h, m, s, f)
             | _, _, _, _ => false
             end
  | StStr t => match parse_tc t r23976 with Some (l, _) => beyond_first_minute l | None => false end
  end.

(* S's grid (a declared count that is not positive is no count) is the reader's row count after its guard
   `if self.max_row_count < 1` *)
Lemma grid_rows_guard n : grid_rows n = if n <? 1 then 23 else n.
Proof. destruct (n <? 1) eqn:E; destruct n as [|p|p]; cbn [grid_rows]; try reflexivity; lia. Qed.
Lemma grid_rows_pos n : 1 <= grid_rows n.
Proof. destruct n as [|p|p]; cbn [grid_rows]; lia. Qed.
Lemma max_rows_pos g c rows : max_rows g c = Some rows -> 1 <= rows.
Proof.
  unfold max_rows. destruct (teletext_dsc _); [intros H; injection H as <-; lia|].
  destruct c as [| |n].
  - intros H; injection H as <-; lia.
  - destruct (numeric_field _) as [[n|]|]; [| |discriminate]; intros H; injection H as <-; [apply grid_rows_pos | lia].
  - intros H; injection H as <-. apply grid_rows_pos.
Qed.
Lemma rows_guard_pos x : 1 <= (if x <? 1 then default_teletext_rows else x).
Proof. change default_teletext_rows with 23. destruct (x <? 1) eqn:E; lia. Qed.

Lemma rows_spec g cfg rows : length g = 1024%nat -> max_rows g (spec_rows (cf_rows cfg)) = Some rows ->
  (let raw := match cf_rows cfg with
              | MrNone => default_teletext_rows
              | MrMNR => if teletext_dsc (gsi_dsc g) then default_teletext_rows
                         else match py_int (sub 253 2 g) with Some n => n | None => default_teletext_rows end
              | MrInt n => if teletext_dsc (gsi_dsc g) then default_teletext_rows else n
              end in
   if raw <? 1 then default_teletext_rows else raw) = rows.
Proof.
  intros Hlen H. unfold max_rows in H. change default_teletext_rows with 23. cbv zeta.
  destruct (teletext_dsc (gsi_dsc g)).
  - injection H as <-. destruct (cf_rows cfg); reflexivity.
  - destruct (cf_rows cfg) as [| |n]; cbn [spec_rows] in H.
    + injection H as <-. reflexivity.
    + unfold gsi_mnr in H. destruct (numeric_field (sub 253 2 g)) as [[n|]|] eqn:E; [| |discriminate]; injection H as <-.
      * rewrite (py_int_number _ n); [symmetry; apply grid_rows_guard | apply sub_nonempty; lia | exact E].
      * rewrite (py_int_nan _ E). reflexivity.
    + injection H as <-. symmetry. apply grid_rows_guard.
Qed.

Lemma start_spec g cfg sc r fps start : length g = 1024%nat ->
  spec_start (cf_start cfg) = Some sc -> programme_start r g sc = Some start ->
  rate_ok (gsi_dfc g) fps r -> is_stl23 (gsi_dfc g) && start_beyond g cfg = false ->
  match cf_start cfg with
  | StNone => inl 0%Q
  | StTCP =>
      match py_int (slice 0 2 (sub 256 8 g)), py_int (slice 2 2 (sub 256 8 g)), py_int (slice 4 2 (sub 256 8 g)), py_int (slice 6 2 (sub 256 8 g)) with
      | Some h, Some m, Some s, Some f => inl (offset_q fps (h, m, s, f))
      | _, _, _, _ => inl 0%Q
      end
  | StStr t => match parse_tc t fps with Some (l, r') => inl (offset_q r' l) | None => inr EValue end
  end = (inl start : Q + error).
Proof.
  intros Hlen Hsc Hps Hrate Htrig. unfold start_beyond in Htrig.
  destruct (cf_start cfg) as [| |t]; cbn [spec_start] in Hsc.
  - injection Hsc as <-. cbn [programme_start] in Hps. injection Hps as <-. reflexivity.
  - injection Hsc as <-. cbn [programme_start] in Hps. unfold gsi_tcp in Hps. change slice with sub. change slice with sub in Htrig.
    set (tcp := sub 256 8 g) in *.
    assert (Ht : length tcp = 8%nat) by (apply sub_length; lia).
    assert (N0 : sub 0 2 tcp <> []) by (apply sub_nonempty; lia). assert (N2 : sub 2 2 tcp <> []) by (apply sub_nonempty; lia).
    assert (N4 : sub 4 2 tcp <> []) by (apply sub_nonempty; lia). assert (N6 : sub 6 2 tcp <> []) by (apply sub_nonempty; lia).
    destruct (numeric_field (sub 0 2 tcp)) as [[n0|]|] eqn:E0; [| |discriminate];
    destruct (numeric_field (sub 2 2 tcp)) as [[n2|]|] eqn:E2; try discriminate;
    destruct (numeric_field (sub 4 2 tcp)) as [[n4|]|] eqn:E4; try discriminate;
    destruct (numeric_field (sub 6 2 tcp)) as [[n6|]|] eqn:E6; try discriminate;
    injection Hps as <-;
    rewrite ?(py_int_number _ _ N0 E0), ?(py_int_number _ _ N2 E2), ?(py_int_number _ _ N4 E4), ?(py_int_number _ _ N6 E6),
            ?(py_int_nan _ E0), ?(py_int_nan _ E2), ?(py_int_nan _ E4), ?(py_int_nan _ E6) in *; try reflexivity.
    f_equal. apply Hrate, Htrig.
  - destruct (label_of_text t) as [l|] eqn:El; [|discriminate]. injection Hsc as <-. cbn [programme_start] in Hps. injection Hps as <-.
    rewrite (parse_label t l fps El). rewrite (parse_label t l r23976 El) in Htrig. f_equal. apply Hrate, Htrig.
Qed.

Lemma init_spec g cfg sc r start rows : length g = 1024%nat ->
  spec_start (cf_start cfg) = Some sc -> dfc_rate (gsi_dfc g) = Some r ->
  max_rows g (spec_rows (cf_rows cfg)) = Some rows -> programme_start r g sc = Some start ->
  is_stl23 (gsi_dfc g) && start_beyond g cfg = false ->
  exists fdat, init (unpack_gsi g) cfg = inl fdat /\ rate_ok (gsi_dfc g) (f_fps fdat) r /\ f_start fdat = start /\
               f_cct fdat = gsi_cct g /\ f_teletext fdat = teletext_dsc (gsi_dsc g) /\ f_max_rows fdat = rows.
Proof.
  intros Hlen Hsc Hr Hrows Hps Htrig.
  destruct (rates _ _ Hr) as (n & d & Hmap & Hrate).
  pose proof (start_spec g cfg sc r (mkRate n d) start Hlen Hsc Hps Hrate Htrig) as Hstart.
  pose proof (rows_spec g cfg rows Hlen Hrows) as Hrw.
  unfold init. cbn [g_dfc g_dsc g_cct g_lc g_tnb g_mnr g_tcp unpack_gsi].
  change (slice 3 8 g) with (gsi_dfc g). rewrite Hmap. change (slice 256 8 g) with (sub 256 8 g). cbv zeta.
  rewrite Hstart. eexists. split; [reflexivity|]. cbn [f_fps f_start f_cct f_teletext f_max_rows].
  split; [exact Hrate|]. split; [reflexivity|]. split; [reflexivity|]. split; [reflexivity|]. exact Hrw.
Qed.

(* ================================================================================================ 6 *)
Lemma Forall_firstn {A} (P : A -> Prop) n l : Forall P l -> Forall P (firstn n l).
Proof. intros H. rewrite <- (firstn_skipn n l) in H. apply Forall_app in H. tauto. Qed.
Lemma Forall_skipn {A} (P : A -> Prop) n l : Forall P l -> Forall P (skipn n l).
Proof. intros H. rewrite <- (firstn_skipn n l) in H. apply Forall_app in H. tauto. Qed.

Lemma chunks_S k (bs : list Z) : bs <> [] -> chunks (S k) bs = firstn 128 bs :: chunks k (skipn 128 bs).
Proof. destruct bs; [contradiction | reflexivity]. Qed.

(* the blocks the trigger looks at are the blocks the specification reads; their text fields are bytes *)
Lemma blocks_facts : forall fuel l bs, blocks_of fuel l = Some bs -> Forall is_byte l ->
  map unpack_tti (filter (fun c => Nat.eqb (length c) 128) (chunks fuel l)) = map tti_of bs /\
  Forall (fun b => Forall is_byte (b_tf b)) bs.
Proof.
  induction fuel as [|k IH]; intros l bs H Hb.
  - cbn [blocks_of] in H. injection H as <-. split; [reflexivity | constructor].
  - destruct l as [|b0 l'].
    + cbn [blocks_of] in H. injection H as <-. split; [reflexivity | constructor].
    + rewrite blocks_of_S in H by discriminate. rewrite chunks_S by discriminate.
      pose proof (Forall_firstn _ 128 _ Hb) as Hb1. pose proof (Forall_skipn _ 128 _ Hb) as Hb2.
      generalize dependent (firstn 128 (b0 :: l')). generalize dependent (skipn 128 (b0 :: l')). intros rest Hb2 buf H Hb1.
      cbn [filter]. destruct (Nat.eqb (length buf) 128); [|discriminate].
      destruct (blocks_of k rest) as [r|] eqn:Hr; [|discriminate]. injection H as <-.
      destruct (IH rest r Hr Hb2) as [H1 H2]. split.
      * cbn [map]. rewrite H1, unpack_block. reflexivity.
      * constructor; [|exact H2]. cbn [block_of b_tf]. unfold sub. apply Forall_firstn, Forall_skipn, Hb1.
Qed.

Lemma subs_facts (P : block -> Prop) : forall l pending subs, subtitles_go l pending = Some subs ->
  Forall (fun b => P b /\ Forall is_byte (b_tf b)) l ->
  match pending with Some p => Forall is_byte (s_field p) | None => True end ->
  Forall (fun x => P (s_head x) /\ Forall is_byte (s_field x)) subs.
Proof.
  induction l as [|b r IH]; intros pending subs H Hl Hp; cbn [subtitles_go] in H.
  - destruct pending; [discriminate|]. injection H as <-. constructor.
  - apply Forall_cons_iff in Hl as [[HP Hb] Hl].
    assert (Hf : Forall is_byte ((match pending with Some p => s_field p | None => [] end) ++ text_of_field (b_tf b))).
    { apply Forall_app. split; [destruct pending; [exact Hp | constructor] | apply text_of_field_forall, Hb]. }
    set (fld := (match pending with Some p => s_field p | None => [] end) ++ text_of_field (b_tf b)) in *.
    assert (H' : (if b_ebn b =? 0xFF
                  then match subtitles_go r None with Some l => Some (mkSub b fld :: l) | None => None end
                  else subtitles_go r (Some (mkSub b fld))) = Some subs).
    { destruct pending as [p|]; [destruct (negb (same_subtitle (s_head p) b)); [discriminate|]|]; exact H. }
    clear H. destruct (b_ebn b =? 0xFF).
    + destruct (subtitles_go r None) as [l'|] eqn:Hl'; [|discriminate]. injection H' as <-.
      constructor; [split; assumption|]. eapply IH; [exact Hl' | exact Hl | exact I].
    + eapply IH; [exact H' | exact Hl | exact Hf].
Qed.

(* THE WHOLE FILE.  For every file made of bytes that lies in the domain of the specification (a complete GSI block
   with a known DFC, complete TTI blocks, well-bracketed extension chains and cumulative sets, increasing subtitle
   numbers, TCO not before TCI, numeric GSI fields without blanks or signs) and every reader configuration - any
   row count, a count below 1 meaning the default grid since the repair of the reader -, outside the one recorded finding (df-23976), the reader returns a document, and its divisions are
   the specification's subtitle groups: paragraph by paragraph the same alignment, exactly the same timed parts
   (begin and end = TCI and TCO at the DFC rate minus the programme start, early subtitles dropped; the text of the
   concatenated text fields up to the first unused-space bytes, decoded with the CCT's table, with its line breaks,
   colours, italics and underline; cumulative members accumulated), and a region that is the specification's
   top-anchored region of the first row or bottom-anchored region of the last row *)
Theorem file_presentation file cfg sc groups rows :
  Forall is_byte file -> spec_start (cf_start cfg) = Some sc ->
  presentation file sc (spec_rows (cf_rows cfg)) = Some (groups, rows) ->
  trigger_23976 file cfg = false ->
  exists d, reader_model file cfg = Ok d /\ doc_matches rows d groups.
Proof.
  intros Hbytes Hsc Hpres Htrig. unfold presentation in Hpres. unfold reader_model.
  set (g := firstn 1024 file) in *. cbv zeta in Hpres.
  destruct (Nat.eqb (length g) 1024) eqn:Hlen; [cbn [negb] in * | discriminate].
  apply Nat.eqb_eq in Hlen.
  destruct (dfc_rate (gsi_dfc g)) as [r|] eqn:Hr; [|discriminate].
  destruct (blocks_of (S (length file)) (skipn 1024 file)) as [bs|] eqn:Hbs; [|discriminate].
  destruct (subtitles_of bs) as [subs|] eqn:Hsubs; [|discriminate].
  destruct (max_rows g (spec_rows (cf_rows cfg))) as [rows'|] eqn:Hrows; [|discriminate].
  destruct (programme_start r g sc) as [start|] eqn:Hstart; [|discriminate].
  destruct (paragraphs_go r start (decoder_spec (gsi_cct g)) (teletext_dsc (gsi_dsc g)) subs (-1) [] None) as [ps|] eqn:Hps; [|discriminate].
  injection Hpres as <- <-.
  (* the trigger, in parts *)
  assert (Htrig' : is_stl23 (gsi_dfc g) &&
                   (existsb (fun t => text_block t && (beyond_first_minute (t_tci t) || beyond_first_minute (t_tco t))) (tti_blocks file)
                    || start_beyond g cfg) = false) by exact Htrig.
  assert (Hts : is_stl23 (gsi_dfc g) && start_beyond g cfg = false)
    by (destruct (is_stl23 (gsi_dfc g)); [cbn [andb] in *; apply orb_false_iff in Htrig'; tauto | reflexivity]).
  destruct (init_spec g cfg sc r start rows' Hlen Hsc Hr Hrows Hstart Hts) as (fdat & Hinit & Hrate & Hfs & Hfc & Hft & Hfr).
  rewrite Hinit.
  destruct (blocks_facts _ _ _ Hbs (Forall_skipn _ _ _ Hbytes)) as [Hblocks Hbb].
  rewrite (read_blocks_fold fdat _ _ state0 bs Hbs).
  unfold subtitles_of in Hsubs.
  rewrite (fold_groups fdat bs None state0 subs Hsubs eq_refl).
  (* every subtitle is made of bytes and its time codes are converted as specified *)
  assert (Hok : Forall (sub_ok fdat r) subs).
  { set (P := fun b : block => is_stl23 (gsi_dfc g) && (beyond_first_minute (b_tci b) || beyond_first_minute (b_tco b)) = false).
    assert (HP : Forall (fun b => P b /\ Forall is_byte (b_tf b)) (filter carries_text bs)).
    { apply Forall_forall. intros b Hb. apply filter_In in Hb as [Hin Hct]. split; [|rewrite Forall_forall in Hbb; apply Hbb, Hin].
      unfold P. destruct (is_stl23 (gsi_dfc g)); [|reflexivity]. cbn [andb] in *. apply orb_false_iff in Htrig' as [He _].
      unfold tti_blocks in He. rewrite Hblocks in He.
      destruct (beyond_first_minute (b_tci b) || beyond_first_minute (b_tco b)) eqn:Eb; [|reflexivity].
      assert (Hex : existsb (fun t => text_block t && (beyond_first_minute (t_tci t) || beyond_first_minute (t_tco t))) (map tti_of bs) = true).
      { apply existsb_exists. exists (tti_of b). split; [apply in_map, Hin|]. rewrite <- carries_text_block, Hct. exact Eb. }
      congruence. }
    pose proof (subs_facts P _ None subs Hsubs HP I) as Hall.
    eapply Forall_impl; [|exact Hall]. intros x [HPx Hbx]. unfold P in HPx. split; [exact Hbx|].
    split; apply Hrate; destruct (is_stl23 (gsi_dfc g)); try reflexivity; cbn [andb] in *; apply orb_false_iff in HPx; tauto. }
  assert (Hrows1 : 1 <= rows') by (eapply max_rows_pos, Hrows).
  assert (HI : Inv rows' state0 (-1) [] None []).
  { split; [apply shape_nil; reflexivity|]. split; [constructor|]. split; [exact I | discriminate]. }
  destruct (fold_paragraphs fdat r start (gsi_cct g) (teletext_dsc (gsi_dsc g)) rows' Hfs Hfc Hft Hfr Hrows1
                            subs state0 (-1) [] None [] ps HI Hok Hps) as (s' & L' & Hfold & Hshape & HR).
  rewrite Hfold. eexists. split; [reflexivity|].
  unfold doc_matches, finish. cbn [d_divs d_regions]. rewrite (commit_shape _ _ Hshape).
  apply divisions_match. exact HR.
Qed.

(* the reader never fails for want of a paragraph, and - since DataFile.__init__ replaces a row count below 1 by the
   default - never divides by zero: whatever the file and the configuration, the only failures are a short GSI or TTI
   block and an unparsable configured start time code *)
Lemma region_none rows vp tf dh : region_for rows vp tf dh = None -> rows = 0.
Proof.
  unfold region_for. cbv zeta. destruct (_ <? _); [discriminate|]. destruct (rows =? 0) eqn:E; [lia | discriminate].
Qed.
(* one block, any data file parameters: the only failure is the division, and it needs a row count of zero *)
Lemma complete_errors f s t tf e : complete_subtitle f s t tf = inr e -> e = EZeroDiv /\ f_max_rows f = 0.
Proof.
  unfold complete_subtitle. destruct (q_neg _); [discriminate|]. destruct (q_lt _ _); [discriminate|].
  unfold no_paragraph. destruct (st_cur s) as [[sgn p]|] eqn:Hc.
  - rewrite orb_false_r. destruct (sn_differs _ _ && _).
    + destruct (region_for _ _ _ _) eqn:Er; [|intros H; injection H as <-; split; [reflexivity | eapply region_none, Er]].
      destruct (get_region _ _). cbn [st_cur]. discriminate.
    + cbn [st_cur]. rewrite ?Hc. discriminate.
  - rewrite orb_true_r. destruct (region_for _ _ _ _) eqn:Er; [|intros H; injection H as <-; split; [reflexivity | eapply region_none, Er]].
    destruct (get_region _ _). cbn [st_cur]. discriminate.
Qed.
Lemma process_errors f s t e : process_tti f s t = inr e -> e = EZeroDiv /\ f_max_rows f = 0.
Proof.
  unfold process_tti. destruct (_ && _); [discriminate|]. destruct (t_cf t =? 1); [discriminate|].
  destruct (negb _); [discriminate | apply complete_errors].
Qed.
(* with at least one row no block fails *)
Lemma process_total f s t : 1 <= f_max_rows f -> exists s', process_tti f s t = inl s'.
Proof.
  intros Hr. destruct (process_tti f s t) as [s'|e] eqn:Hp; [eexists; reflexivity|].
  apply process_errors in Hp. lia.
Qed.
Lemma read_blocks_errors f : 1 <= f_max_rows f -> forall fuel bs s e, read_blocks fuel f s bs = inr e -> e = EStruct.
Proof.
  intros Hr. induction fuel as [|k IH]; intros bs s e H; [discriminate|].
  destruct bs as [|b0 bs']; [discriminate|]. rewrite read_blocks_S in H by discriminate.
  destruct (negb _); [injection H as <-; reflexivity|].
  destruct (process_total f s (unpack_tti (firstn 128 (b0 :: bs'))) Hr) as [s' Hp]. rewrite Hp in H. eapply IH, H.
Qed.
Lemma init_errors g cfg e : init g cfg = inr e -> e = EValue.
Proof.
  unfold init. cbv zeta. destruct (cf_start cfg) as [| |t].
  - discriminate.
  - destruct (py_int _); [destruct (py_int _); [destruct (py_int _); [destruct (py_int _)|]|]|]; discriminate.
  - destruct (parse_tc _ _) as [[l r]|]; [discriminate|]. intros H. injection H as <-. reflexivity.
Qed.
(* DataFile.__init__ leaves at least one row, whatever the GSI block and the configuration *)
Lemma init_rows g cfg f : init g cfg = inl f -> 1 <= f_max_rows f.
Proof.
  unfold init. cbv zeta. destruct (cf_start cfg) as [| |t].
  - intros H. injection H as <-. cbn [f_max_rows]. apply rows_guard_pos.
  - destruct (py_int _); [destruct (py_int _); [destruct (py_int _); [destruct (py_int _)|]|]|];
      intros H; injection H as <-; cbn [f_max_rows]; apply rows_guard_pos.
  - destruct (parse_tc _ _) as [[l r]|]; [|discriminate]. intros H. injection H as <-. cbn [f_max_rows]. apply rows_guard_pos.
Qed.
Theorem reader_errors file cfg e : reader_model file cfg = Err e -> e = EStruct \/ e = EValue.
Proof.
  unfold reader_model. cbv zeta. destruct (negb _); [intros H; injection H as <-; auto|].
  destruct (init _ cfg) as [f|e'] eqn:Hi; [|intros H; injection H as <-; right; eapply init_errors, Hi].
  destruct (read_blocks _ f state0 _) as [s|e'] eqn:Hr; [discriminate|].
  intros H; injection H as <-. left. eapply read_blocks_errors; [eapply init_rows, Hi | exact Hr].
Qed.
(* ... in particular a division by zero never happens (formerly C18's stl-zero-row-count: MNR 00 / max_row_count 0) *)
Theorem reader_no_zero_div file cfg : reader_model file cfg <> Err EZeroDiv.
Proof. intros H. apply reader_errors in H as [H|H]; discriminate. Qed.
(* with the GSI block and the TTI blocks complete and a decoded configuration (C09_config_start_parses) the reader
   returns a document: every file whose length is 1024 + 128 k bytes, every configuration without a start time code
   that SmpteTimeCode.parse rejects *)
Lemma read_blocks_total f : 1 <= f_max_rows f -> forall fuel bs s,
  (exists k, length bs = (128 * k)%nat) -> exists s', read_blocks fuel f s bs = inl s'.
Proof.
  intros Hr. induction fuel as [|n IH]; intros bs s [k Hk]; [eexists; reflexivity|].
  destruct bs as [|b0 bs']; [eexists; reflexivity|]. rewrite read_blocks_S by discriminate.
  destruct k as [|k]; [cbn [length] in Hk; lia|].
  assert (Hl : length (firstn 128 (b0 :: bs')) = 128%nat) by (rewrite firstn_length; lia).
  rewrite Hl. cbn [Nat.eqb negb].
  destruct (process_total f s (unpack_tti (firstn 128 (b0 :: bs'))) Hr) as [s' Hp]. rewrite Hp.
  apply IH. exists k. rewrite skipn_length. lia.
Qed.
Theorem reader_total file cfg k : length file = (1024 + 128 * k)%nat ->
  (forall t, cf_start cfg = StStr t -> forall fps, parse_tc t fps <> None) ->
  exists d, reader_model file cfg = Ok d.
Proof.
  intros Hlen Hcfg. unfold reader_model. cbv zeta.
  assert (Hg : length (firstn 1024 file) = 1024%nat) by (rewrite firstn_length; lia).
  rewrite Hg. cbn [Nat.eqb negb].
  destruct (init _ cfg) as [f|e] eqn:Hi.
  - destruct (read_blocks_total f (init_rows _ _ _ Hi) (S (length file)) (skipn 1024 file) state0) as [s Hs].
    + exists k. rewrite skipn_length. lia.
    + rewrite Hs. eexists. reflexivity.
  - exfalso. revert Hi. unfold init. cbv zeta. destruct (cf_start cfg) as [| |t] eqn:Hc.
    + discriminate.
    + destruct (py_int _); [destruct (py_int _); [destruct (py_int _); [destruct (py_int _)|]|]|]; discriminate.
    + destruct (parse_tc t _) as [[l r]|] eqn:Hp; [discriminate|]. exfalso. eapply Hcfg; [reflexivity | exact Hp].
Qed.
(* the region of every subtitle whose rows fit the grid lies inside the safe area, for EVERY GSI block and every
   configuration (no hypothesis on the row count is left) *)
Theorem reader_region_inside g cfg f vp tf r : init g cfg = inl f ->
  region_for (f_max_rows f) vp tf (has_double_height_char tf) = Some r ->
  first_row vp + rows_occupied tf - 1 <= f_max_rows f -> inside_safe_area (rect_of r).
Proof. intros Hi. apply region_inside. pose proof (init_rows _ _ _ Hi). lia. Qed.
(* ... and the region of a subtitle always exists *)
Theorem reader_region_exists g cfg f vp tf dh : init g cfg = inl f -> exists r, region_for (f_max_rows f) vp tf dh = Some r.
Proof. intros Hi. apply region_exists. pose proof (init_rows _ _ _ Hi). lia. Qed.

(* every region of the document that is returned - whatever the file and the configuration - is the region the reader
   computes for some subtitle on a grid of at least one row, hence (region_choice) the specification's top-anchored
   region of a first row or bottom-anchored region of a last row on that grid *)
Definition anchored (rows : Z) (r : region) : Prop :=
  exists vp tf, region_for rows vp tf (has_double_height_char tf) = Some r.
Lemma get_region_forall (P : region -> Prop) rs r : Forall P rs -> P r -> Forall P (snd (get_region rs r)).
Proof.
  intros H Hr. unfold get_region. destruct (find_region rs r 0); cbn [snd]; [exact H|].
  apply Forall_app. split; [exact H | constructor; [exact Hr | constructor]].
Qed.
Lemma complete_regions f s t tf s' : complete_subtitle f s t tf = inl s' ->
  Forall (anchored (f_max_rows f)) (st_regions s) -> Forall (anchored (f_max_rows f)) (st_regions s').
Proof.
  intros H Hs. unfold complete_subtitle in H.
  destruct (q_neg _); [injection H as <-; exact Hs|]. destruct (q_lt _ _); [injection H as <-; exact Hs|].
  destruct (_ || _).
  - destruct (region_for _ _ _ _) as [r|] eqn:Er; [|discriminate].
    pose proof (get_region_forall _ _ r Hs (ex_intro _ _ (ex_intro _ _ Er))) as Hg.
    destruct (get_region _ _) as [ri rs]. cbn [st_cur st_regions st_in_ext st_tf st_last_sn st_divs snd] in *.
    injection H as <-. exact Hg.
  - cbn [st_cur st_regions st_in_ext st_tf st_last_sn st_divs] in H. destruct (st_cur s) as [[sgn p]|]; [|discriminate].
    injection H as <-. exact Hs.
Qed.
Lemma process_regions f s t s' : process_tti f s t = inl s' ->
  Forall (anchored (f_max_rows f)) (st_regions s) -> Forall (anchored (f_max_rows f)) (st_regions s').
Proof.
  unfold process_tti. destruct (_ && _); [intros H; injection H as <-; auto|].
  destruct (t_cf t =? 1); [intros H; injection H as <-; auto|].
  destruct (negb _); [intros H; injection H as <-; auto | apply complete_regions].
Qed.
Lemma read_blocks_regions f : forall fuel bs s s', read_blocks fuel f s bs = inl s' ->
  Forall (anchored (f_max_rows f)) (st_regions s) -> Forall (anchored (f_max_rows f)) (st_regions s').
Proof.
  induction fuel as [|k IH]; intros bs s s' H Hs; [injection H as <-; exact Hs|].
  destruct bs as [|b0 bs']; [injection H as <-; exact Hs|]. rewrite read_blocks_S in H by discriminate.
  destruct (negb _); [discriminate|].
  destruct (process_tti f s _) as [s1|e] eqn:Hp; [|discriminate].
  eapply IH; [exact H | eapply process_regions; [exact Hp | exact Hs]].
Qed.
Theorem reader_regions file cfg d : reader_model file cfg = Ok d ->
  exists rows, 1 <= rows /\ Forall (anchored rows) (d_regions d).
Proof.
  unfold reader_model. cbv zeta. destruct (negb _); [discriminate|].
  destruct (init _ cfg) as [f|e] eqn:Hi; [|discriminate].
  destruct (read_blocks _ f state0 _) as [s|e] eqn:Hr; [|discriminate].
  intros H. injection H as <-. exists (f_max_rows f). split; [eapply init_rows, Hi|].
  unfold finish. cbn [d_regions]. eapply read_blocks_regions; [exact Hr | constructor].
Qed.
Theorem reader_regions_spec file cfg d : reader_model file cfg = Ok d ->
  exists rows, 1 <= rows /\
    Forall (fun r => exists vp tf,
              (first_row vp < rows / 2 /\ rect_equiv (rect_of r) (top_anchored rows (first_row vp))) \/
              (rows / 2 <= first_row vp /\ rect_equiv (rect_of r) (bottom_anchored rows (first_row vp + rows_occupied tf - 1))))
           (d_regions d).
Proof.
  intros H. destruct (reader_regions _ _ _ H) as (rows & Hr & Ha). exists rows. split; [exact Hr|].
  eapply Forall_impl; [|exact Ha]. intros r (vp & tf & E). exists vp, tf. eapply region_choice, E.
Qed.

(* the same at the level of blocks: EVERY list of TTI blocks in the specification's domain, any data file parameters
   that convert the time codes of the text-carrying blocks as the specification does *)
Theorem blocks_presentation f r start cct tele rows bl subs ps :
  f_start f = start -> f_cct f = cct -> f_teletext f = tele -> f_max_rows f = rows -> 1 <= rows ->
  Forall (fun b => carries_text b = true ->
                   Forall is_byte (b_tf b) /\ offset_q (f_fps f) (b_tci b) = time_of r (b_tci b) /\
                   offset_q (f_fps f) (b_tco b) = time_of r (b_tco b)) bl ->
  subtitles_of bl = Some subs ->
  paragraphs_go r start (decoder_spec cct) tele subs (-1) [] None = Some ps ->
  exists s, fold_blocks f state0 (map tti_of bl) = inl s /\
            Forall2 (Forall2 (para_matches rows (st_regions s))) (map snd (commit s)) (by_group ps).
Proof.
  intros Hfs Hfc Hft Hfr Hrows Hbl Hsubs Hps. unfold subtitles_of in Hsubs.
  rewrite (fold_groups f bl None state0 subs Hsubs eq_refl).
  set (P := fun b : block => offset_q (f_fps f) (b_tci b) = time_of r (b_tci b) /\ offset_q (f_fps f) (b_tco b) = time_of r (b_tco b)).
  assert (HP : Forall (fun b => P b /\ Forall is_byte (b_tf b)) (filter carries_text bl)).
  { apply Forall_forall. intros b Hb. apply filter_In in Hb as [Hin Hct]. rewrite Forall_forall in Hbl.
    destruct (Hbl b Hin Hct) as (H1 & H2 & H3). split; [split|]; assumption. }
  pose proof (subs_facts P _ None subs Hsubs HP I) as Hall.
  assert (Hok : Forall (sub_ok f r) subs).
  { eapply Forall_impl; [|exact Hall]. intros x [[H1 H2] H3]. split; [exact H3 | split; assumption]. }
  assert (HI : Inv rows state0 (-1) [] None []).
  { split; [apply shape_nil; reflexivity|]. split; [constructor|]. split; [exact I | discriminate]. }
  destruct (fold_paragraphs f r start cct tele rows Hfs Hfc Hft Hfr Hrows subs state0 (-1) [] None [] ps HI Hok Hps)
    as (s' & L' & Hfold & Hshape & HR).
  exists s'. split; [exact Hfold|]. rewrite (commit_shape _ _ Hshape). apply divisions_match. exact HR.
Qed.

(* ---- a file in the domain (non-vacuity of file_presentation) ---- *)
Definition example_file : list Z :=
  witness_gsi ++ witness_tti 1 1 2 20 1 0 [65] ++ witness_tti 2 2 3 20 3 0 [66] ++ witness_tti 3 4 5 0 0 0 [3; 67; 138; 68] ++
  witness_tti 4 6 7 20 0 1 [88].
Lemma example_file_bytes : Forall is_byte example_file.
Proof.
  apply Forall_forall. intros b Hb.
  assert (H : forallb (fun b => (0 <=? b) && (b <? 256)) example_file = true) by (vm_compute; reflexivity).
  rewrite forallb_forall in H. specialize (H b Hb). unfold is_byte. lia.
Qed.

(* the configuration decoders of stl/config.py in front of DataFile.__init__: Proofs/C09/Config.v *)
