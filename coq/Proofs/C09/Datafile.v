(* C09, data-file level: the text of a block (cut at the first unused-space byte), rows and region geometry (VP/JC ->
   region inside the safe area, over Q), subtitle numbers, grouping and the per-block steps.  The whole-file composition
   is Proofs/C09/File.v. *)
From Coq Require Import QArith Lia.
From TT Require Import Base.Prelude Gen.StlTables Model.TimeCode Model.Iso6937 Model.StlTf Model.StlDatafile Model.StlTriggers Spec.Ebu3264Spec.
Open Scope Z_scope.

(* ---- bytes.partition(b'\x8f')[0] is "up to the first unused-space byte" ---------------------------------- *)
Definition clean (t : list Z) : bool := forallb (fun b => negb (b =? 143)) t.

(* the text of a block: the implementation's cut is the standard's (tf-strip-not-cut was repaired: every field) *)
Lemma cut_is_cut tf : before_8f tf = text_of_field tf.
Proof. induction tf as [|b r IH]; [reflexivity|]. cbn [before_8f text_of_field]. change filler with 143. rewrite IH. reflexivity. Qed.
Lemma cut_clean tf : clean (before_8f tf) = true.
Proof.
  induction tf as [|b r IH]; [reflexivity|]. cbn [before_8f]. destruct (b =? 143) eqn:E; [reflexivity|].
  cbn [clean forallb]. rewrite E. exact IH.
Qed.
Lemma text_of_clean_id t : clean t = true -> text_of_field t = t.
Proof.
  induction t as [|b t IH]; [reflexivity|]. cbn [clean forallb text_of_field]. change filler with 143. intros H.
  apply andb_true_iff in H as [Hb Ht]. destruct (b =? 143); [discriminate|]. f_equal. apply IH, Ht.
Qed.

(* ---- rows --------------------------------------------------------------------------------------------------- *)
Lemma line_count_breaks dh : forall bs count was, line_count_go dh bs count was = count + count_breaks dh bs was + 1.
Proof.
  induction bs as [|c r IH]; intros count was; cbn [line_count_go count_breaks]; [lia|].
  unfold is_newline_code. change newline_code with 138.
  destruct (c =? 138); [|rewrite IH; lia].
  destruct dh; cbn [andb]; [destruct was|]; rewrite IH; lia.
Qed.

(* rows needed by a field without unused-space bytes: line_count x row height = the specification's rows_occupied *)
Lemma rows_agree tf : line_count tf (has_double_height_char tf) * (if has_double_height_char tf then 2 else 1) = rows_occupied tf.
Proof.
  unfold line_count, rows_occupied. rewrite line_count_breaks. change (double_height tf) with (has_double_height_char tf). lia.
Qed.

(* ---- region --------------------------------------------------------------------------------------------------- *)
Lemma max_first_row vp : Z.max vp 1 = first_row vp.
Proof. unfold first_row. destruct (vp <? 1) eqn:E; lia. Qed.

(* the region of a new subtitle is the specification's top-anchored region of its first row (VP, or row 1 for VP = 0)
   or the bottom-anchored region of its last row; the anchor is chosen by first row < max_rows // 2 *)
Lemma region_choice max_rows vp tf r : region_for max_rows vp tf (has_double_height_char tf) = Some r ->
  (first_row vp < max_rows / 2 /\ rect_equiv (rect_of r) (top_anchored max_rows (first_row vp))) \/
  (max_rows / 2 <= first_row vp /\ rect_equiv (rect_of r) (bottom_anchored max_rows (first_row vp + rows_occupied tf - 1))).
Proof.
  unfold region_for. cbv zeta. rewrite max_first_row. generalize (first_row vp) as v. intros v.
  destruct (v <? max_rows / 2) eqn:E.
  - intros H. injection H as <-. left. split; [lia|]. unfold rect_equiv, rect_of, top_anchored, row_top.
    cbn [r_x r_y r_w r_h r_after x0 y0 width height align_after]. repeat split; try reflexivity;
    unfold qz, safe_top, safe_height; change default_vertical_safe_margin_pct with 10; change safe_area_height with 80;
    change (inject_Z (100 - 10)) with 90%Q; change (inject_Z 10) with 10%Q; change (inject_Z 80) with 80%Q; ring.
  - destruct (max_rows =? 0); [discriminate|]. intros H. injection H as <-. right. split; [lia|].
    rewrite <- rows_agree. unfold rect_equiv, rect_of, bottom_anchored, row_bottom.
    cbn [r_x r_y r_w r_h r_after x0 y0 width height align_after]. repeat split; try reflexivity;
    unfold qz, safe_top, safe_height; change safe_area_height with 80; change (inject_Z 80) with 80%Q; ring.
Qed.
(* with at least one row the region always exists (the division by max_row_count is the only partial step) *)
Lemma region_exists max_rows vp tf dh : max_rows <> 0 -> exists r, region_for max_rows vp tf dh = Some r.
Proof.
  intros H. unfold region_for. cbv zeta. destruct (Z.max vp 1 <? max_rows / 2); [eexists; reflexivity|].
  destruct (max_rows =? 0) eqn:E; [lia | eexists; reflexivity].
Qed.

(* both regions lie inside the safe area when the subtitle's rows lie inside the row grid *)
Lemma ratio_bounds a b : 0 <= a <= b -> 0 < b -> (0 <= inject_Z a / inject_Z b /\ inject_Z a / inject_Z b <= 1)%Q.
Proof.
  intros Ha Hb. destruct b as [|p|p]; try lia.
  unfold Qdiv, Qinv, Qmult, Qle, inject_Z. cbn [Qnum Qden]. split; lia.
Qed.

Lemma top_inside rows vp : 0 < rows -> 1 <= vp <= rows + 1 -> inside_safe_area (top_anchored rows vp).
Proof.
  intros Hr Hv. destruct (ratio_bounds (vp - 1) rows ltac:(lia) Hr) as [H0 H1].
  unfold inside_safe_area, top_anchored, row_top, safe_left, safe_top, safe_width, safe_height.
  cbn [x0 y0 width height]. set (q := (inject_Z (vp - 1) / inject_Z rows)%Q) in *.
  repeat split.
  - apply Qle_refl.
  - apply Qle_refl.
  - setoid_replace (10 + q * 80)%Q with (10 + 80 * q)%Q by ring.
    rewrite <- (Qplus_0_r 10) at 1. apply Qplus_le_r. apply Qmult_le_0_compat; [discriminate | exact H0].
  - setoid_replace (10 + q * 80 + (10 + 80 - (10 + q * 80)))%Q with (10 + 80)%Q by ring. apply Qle_refl.
  - setoid_replace (10 + 80 - (10 + q * 80))%Q with (80 * (1 - q))%Q by ring.
    apply Qmult_le_0_compat; [discriminate|]. rewrite <- (Qplus_opp_r q). apply Qplus_le_l. exact H1.
Qed.

Lemma bottom_inside rows last : 0 < rows -> 0 <= last <= rows -> inside_safe_area (bottom_anchored rows last).
Proof.
  intros Hr Hv. destruct (ratio_bounds last rows ltac:(lia) Hr) as [H0 H1].
  unfold inside_safe_area, bottom_anchored, row_bottom, safe_left, safe_top, safe_width, safe_height.
  cbn [x0 y0 width height]. set (q := (inject_Z last / inject_Z rows)%Q) in *.
  repeat split.
  - apply Qle_refl.
  - apply Qle_refl.
  - apply Qle_refl.
  - setoid_replace (10 + (10 + q * 80 - 10))%Q with (10 + 80 * q)%Q by ring.
    apply Qplus_le_r. rewrite <- (Qmult_1_r 80) at 2. apply Qmult_le_l; [reflexivity | exact H1].
  - setoid_replace (10 + q * 80 - 10)%Q with (80 * q)%Q by ring. apply Qmult_le_0_compat; [discriminate | exact H0].
Qed.

(* being inside the safe area is a property of the rectangle up to == *)
Lemma inside_equiv a b : rect_equiv a b -> inside_safe_area b -> inside_safe_area a.
Proof.
  intros ((Hx & Hy & Hw & Hh) & _) (H1 & H2 & H3 & H4 & H5). unfold inside_safe_area.
  rewrite Hx, Hy, Hw, Hh. repeat split; assumption.
Qed.

Lemma count_breaks_nonneg dh : forall t was, 0 <= count_breaks dh t was.
Proof.
  induction t as [|c r IH]; intros was; cbn [count_breaks]; [lia|].
  destruct (c =? newline_code); [destruct (dh && was); [apply IH | specialize (IH true); lia] | apply IH].
Qed.
Lemma rows_occupied_pos tf : 1 <= rows_occupied tf.
Proof. unfold rows_occupied. pose proof (count_breaks_nonneg (double_height tf) tf false). destruct (double_height tf); lia. Qed.

(* the region of every subtitle whose rows fit the grid lies inside the safe area - for every VP, 0 included
   (vp-zero-above-safe-area was repaired) *)
Lemma region_inside rows vp tf r : 0 < rows -> region_for rows vp tf (has_double_height_char tf) = Some r ->
  first_row vp + rows_occupied tf - 1 <= rows -> inside_safe_area (rect_of r).
Proof.
  intros Hr H Hfit. pose proof (rows_occupied_pos tf) as Hk.
  assert (Hv : 1 <= first_row vp) by (unfold first_row; destruct (vp <? 1) eqn:E; lia).
  destruct (region_choice rows vp tf r H) as [[Hlt He]|[Hge He]]; eapply inside_equiv; try exact He.
  - apply top_inside; [exact Hr|]. assert (rows / 2 <= rows) by (apply Z.div_le_upper_bound; lia). lia.
  - apply bottom_inside; [exact Hr | lia].
Qed.

(* ---- witness files (used by Findings/C09.v and the examples of Properties/C09.v) ----------------------------------- *)
Definition put (off : nat) (v : list Z) (l : list Z) : list Z := firstn off l ++ v ++ skipn (off + length v) l.
Definition witness_gsi : list Z :=
  put 3 [83; 84; 76; 50; 53; 46; 48; 49] (put 11 [49; 48; 48; 48; 57] (put 238 [48; 48; 48; 48; 50] (put 253 [50; 51] (repeat 32 1024%nat)))).
Definition witness_tti (sn : Z) (s0 s1 vp cs cf : Z) (tf : list Z) : list Z :=
  [0; sn mod 256; sn / 256; 255; cs; 0; 0; s0; 0; 0; 0; s1; 0; vp; 2; cf] ++ firstn 112 (tf ++ repeat 143 112%nat).
Definition cfg0 : config := mkConfig StNone MrNone false false None.
Definition paragraphs_of (o : outcome) : Z :=
  match o with Ok d => Z.of_nat (length (concat (d_divs d))) | Err _ => -1 end.

(* subtitle numbers are compared by value: a block opens a paragraph iff its number differs from the last one's *)
Lemma sn_value sn last : sn_differs sn last = true <-> last <> Some sn.
Proof.
  unfold sn_differs. destruct last as [l|]; [|split; [discriminate | reflexivity]].
  destruct (sn =? l) eqn:E; cbn [negb]; split; intros H; try reflexivity; try discriminate.
  - apply Z.eqb_eq in E. subst. contradiction.
  - intros Heq. injection Heq as ->. rewrite Z.eqb_refl in E. discriminate.
Qed.

(* ---- grouping: extension blocks are concatenated, user-data/reserved and comment blocks are skipped ----------------- *)
Definition is_ext (t : tti) : bool := text_block t && negb (t_ebn t =? 255).
Definition ext_or_skip (t : tti) : Prop := is_ext t = true \/ text_block t = false.
Definition acc_tf (s : state) : list Z := if st_in_ext s then st_tf s else [].

Fixpoint fold_blocks (f : datafile) (s : state) (ts : list tti) : state + error :=
  match ts with
  | [] => inl s
  | t :: r => match process_tti f s t with inl s' => fold_blocks f s' r | inr e => inr e end
  end.

Lemma process_skip f s t : text_block t = false -> process_tti f s t = inl s.
Proof.
  unfold text_block, process_tti. intros H. destruct ((239 <? t_ebn t) && (t_ebn t <? 255)); [reflexivity|].
  destruct (t_cf t =? 1); [reflexivity | discriminate].
Qed.
Lemma process_ext f s t : is_ext t = true ->
  process_tti f s t = inl (mkState true (acc_tf s ++ before_8f (t_tf t)) (st_last_sn s) (st_divs s) (st_cur s) (st_regions s)).
Proof.
  unfold is_ext, text_block, process_tti, acc_tf. intros H. apply andb_true_iff in H as [H1 H2].
  destruct ((239 <? t_ebn t) && (t_ebn t <? 255)); [discriminate|].
  destruct (t_cf t =? 1); [discriminate|]. rewrite H2. reflexivity.
Qed.
(* the terminal block of a subtitle: the rest of process_tti_block runs on the accumulated field *)
Lemma process_terminal f s t : text_block t = true -> t_ebn t = 255 ->
  process_tti f s t = complete_subtitle f s t (acc_tf s ++ before_8f (t_tf t)).
Proof.
  unfold text_block, process_tti, acc_tf. intros H He.
  destruct ((239 <? t_ebn t) && (t_ebn t <? 255)); [discriminate|].
  destruct (t_cf t =? 1); [discriminate|]. rewrite He. reflexivity.
Qed.

Lemma ext_chain f : forall ts s, Forall ext_or_skip ts ->
  exists s', fold_blocks f s ts = inl s' /\
             acc_tf s' = acc_tf s ++ concat (map (fun x => before_8f (t_tf x)) (filter text_block ts)) /\
             st_last_sn s' = st_last_sn s /\ st_divs s' = st_divs s /\ st_cur s' = st_cur s /\ st_regions s' = st_regions s.
Proof.
  induction ts as [|t r IH]; intros s H.
  - exists s. cbn. rewrite app_nil_r. repeat split.
  - inversion H as [|? ? Ht Hr]; subst. cbn [fold_blocks filter]. destruct Ht as [Ht|Ht].
    + rewrite (process_ext f s t Ht).
      assert (Htb : text_block t = true) by (unfold is_ext in Ht; apply andb_true_iff in Ht; tauto). rewrite Htb.
      destruct (IH (mkState true (acc_tf s ++ before_8f (t_tf t)) (st_last_sn s) (st_divs s) (st_cur s) (st_regions s)) Hr)
        as (s' & Hf & Ha & H1 & H2 & H3 & H4).
      exists s'. split; [exact Hf|]. cbn [map concat]. unfold acc_tf in *. cbn [st_in_ext st_tf] in Ha.
      rewrite Ha, <- app_assoc. repeat split; assumption.
    + rewrite (process_skip f s t Ht), Ht. apply IH, Hr.
Qed.

(* the text field that the terminal block of a subtitle is decoded from: the texts (Tech 3264: up to the first
   unused-space byte) of all its text-carrying blocks, in order - for every chain of blocks *)
Lemma grouping f ts s t : st_in_ext s = false -> Forall ext_or_skip ts -> text_block t = true -> t_ebn t = 255 ->
  exists s', fold_blocks f s ts = inl s' /\
             process_tti f s' t =
             complete_subtitle f s' t (concat (map (fun x => text_of_field (t_tf x)) (filter text_block (ts ++ [t])))).
Proof.
  intros Hs Hts Ht He. destruct (ext_chain f ts s Hts) as (s' & Hf & Ha & _).
  exists s'. split; [exact Hf|]. rewrite (process_terminal f s' t Ht He), Ha.
  unfold acc_tf at 1. rewrite Hs. cbn [app]. rewrite filter_app, map_app, concat_app. cbn [filter]. rewrite Ht.
  cbn [map concat]. rewrite app_nil_r, cut_is_cut.
  rewrite (map_ext (fun x => before_8f (t_tf x)) (fun x => text_of_field (t_tf x)) (fun x => cut_is_cut (t_tf x))). reflexivity.
Qed.

(* ---- one subtitle: the terminal block of a non-cumulative subtitle with a new number ------------------------------ *)
Definition text_align_of (jc : Z) : Z := if jc =? 1 then 0 else if jc =? 3 then 2 else 1.

(* it becomes a paragraph visible exactly from TCI to TCO (shifted by the programme start), holding the pieces of its
   accumulated text field, aligned by JC, in the region of its VP *)
Lemma new_subtitle f s t tf r :
  t_cs t = 0 -> st_last_sn s <> Some (t_sn t) ->
  let b := (offset_q (f_fps f) (t_tci t) - f_start f)%Q in
  let e := (offset_q (f_fps f) (t_tco t) - f_start f)%Q in
  q_neg b = false -> q_lt e b = false ->
  region_for (f_max_rows f) (t_vp t) tf (has_double_height_char tf) = Some r ->
  exists s', complete_subtitle f s t tf = inl s' /\
    st_cur s' = Some (t_sgn t,
                      mkPara (fst (get_region (st_regions s) r)) (text_align_of (t_jc t))
                             (if f_teletext f && negb (has_double_height_char tf) then default_single_height_font_size_pct
                              else default_double_height_font_size_pct)
                             default_line_height_pct (Some (b, e))
                             (map PLeaf (tf_model (decoder_of_cct (f_cct f)) (f_teletext f) tf))) /\
    st_regions s' = snd (get_region (st_regions s) r).
Proof.
  intros Hcs Hsn b e Hb He Hr. apply sn_value in Hsn.
  unfold complete_subtitle. fold b. rewrite Hb. fold e. rewrite He.
  rewrite Hsn, Hcs. cbn [Z.eqb orb andb]. rewrite Hr.
  destruct (get_region (st_regions s) r) as [ri rs] eqn:Hg. cbn [st_cur fst snd].
  eexists. split; [reflexivity|]. cbn [st_cur st_regions]. split; reflexivity.
Qed.

(* a subtitle that starts before the programme start is dropped: nothing but the extension bookkeeping changes *)
Lemma early_subtitle_dropped f s t tf :
  q_neg (offset_q (f_fps f) (t_tci t) - f_start f) = true ->
  exists s', complete_subtitle f s t tf = inl s' /\ st_divs s' = st_divs s /\ st_cur s' = st_cur s /\
             st_regions s' = st_regions s /\ st_last_sn s' = st_last_sn s /\ st_in_ext s' = false.
Proof.
  intros Hb. unfold complete_subtitle. rewrite Hb. eexists. split; [reflexivity|]. repeat split.
Qed.

(* an intermediate (CS 2) or last (CS 3) member of a cumulative set is added to the open paragraph as a span timed by
   its own TCI/TCO, followed by a line break unless it is the last *)
Lemma cumulative_member f s t tf sgn p :
  t_cs t = 2 \/ t_cs t = 3 -> st_cur s = Some (sgn, p) ->
  let b := (offset_q (f_fps f) (t_tci t) - f_start f)%Q in
  let e := (offset_q (f_fps f) (t_tco t) - f_start f)%Q in
  q_neg b = false -> q_lt e b = false ->
  exists s', complete_subtitle f s t tf = inl s' /\
    st_cur s' = Some (sgn, mkPara (p_region p) (p_align p) (p_font_size p) (p_line_height p) (p_time p)
                                  (p_items p ++ [PSub b e (tf_model (decoder_of_cct (f_cct f)) (f_teletext f) tf ++
                                                           (if t_cs t =? 2 then [LBr] else []))])) /\
    st_divs s' = st_divs s /\ st_regions s' = st_regions s.
Proof.
  intros Hcs Hcur b e Hb He.
  unfold complete_subtitle. fold b. rewrite Hb. fold e. rewrite He. unfold no_paragraph. rewrite Hcur.
  destruct Hcs as [Hcs|Hcs]; rewrite Hcs; cbn [Z.eqb Pos.eqb orb andb]; rewrite andb_false_r; cbn [orb st_cur]; rewrite ?Hcur;
    eexists; (split; [reflexivity|]); cbn [st_cur st_divs st_regions]; rewrite ?app_nil_r; repeat split.
Qed.

(* a member of a cumulative set that arrives while no paragraph exists (its first member was dropped, or the file starts
   in the middle of a set) starts a paragraph of its own (cumulative-before-first was repaired): no block makes the
   reader fail for want of a paragraph *)
Lemma no_attribute_error f s t tf : complete_subtitle f s t tf <> inr EAttribute.
Proof.
  unfold complete_subtitle.
  destruct (q_neg _); [discriminate|]. destruct (q_lt _ _); [discriminate|].
  unfold no_paragraph. destruct (st_cur s) as [[sgn p]|] eqn:Hcur.
  - rewrite orb_false_r. destruct (sn_differs _ _ && _).
    + destruct (region_for _ _ _ _); [|discriminate]. destruct (get_region _ _). cbn [st_cur]. discriminate.
    + cbn [st_cur]. rewrite ?Hcur. discriminate.
  - rewrite orb_true_r. destruct (region_for _ _ _ _); [|discriminate]. destruct (get_region _ _). cbn [st_cur]. discriminate.
Qed.
Lemma process_no_attribute_error f s t : process_tti f s t <> inr EAttribute.
Proof.
  unfold process_tti. destruct (_ && _); [discriminate|]. destruct (t_cf t =? 1); [discriminate|].
  destruct (negb _); [discriminate | apply no_attribute_error].
Qed.
