(* C09, data-file level: the text of a block (strip vs. cut at the first unused-space byte), rows and region
   geometry (VP/JC -> region inside the safe area, over Q), subtitle numbers, grouping and the per-block steps.  Each statement that is false of the faithful model has its refutation next to the partial lemma. *)
From Coq Require Import QArith Lia.
From TT Require Import Base.Prelude Gen.StlTables Model.TimeCode Model.Iso6937 Model.StlTf Model.StlDatafile Model.StlTriggers Spec.Ebu3264Spec.
Open Scope Z_scope.

(* ---- bytes.strip(b'\x8f') against "up to the first unused-space byte" ------------------------------------ *)
Definition clean (t : list Z) : bool := forallb (fun b => negb (b =? 143)) t.

Lemma after_filler_true r : after_filler r true = false -> r = repeat 143 (length r).
Proof.
  induction r as [|b r IH]; [reflexivity|]. cbn [after_filler]. destruct (b =? 143) eqn:E.
  - intros H. apply Z.eqb_eq in E; subst b. cbn [length repeat]. f_equal. apply IH, H.
  - cbn [orb]. discriminate.
Qed.

Lemma well_shaped tf : trigger_strip tf = false -> exists t k, tf = t ++ repeat 143 k /\ clean t = true.
Proof.
  unfold trigger_strip. induction tf as [|b r IH]; intros H.
  - exists [], O. split; reflexivity.
  - cbn [after_filler] in H. destruct (b =? 143) eqn:E.
    + apply Z.eqb_eq in E; subst b. apply after_filler_true in H. exists [], (S (length r)). split; [|reflexivity].
      cbn [app repeat]. f_equal. exact H.
    + cbn [orb] in H. destruct (IH H) as (t & k & Hr & Hc). exists (b :: t), k. split.
      * cbn [app]. f_equal. exact Hr.
      * cbn [clean forallb]. rewrite E. exact Hc.
Qed.

Lemma text_of_repeat k : text_of_field (repeat 143 k) = [].
Proof. destruct k; reflexivity. Qed.
Lemma text_of_clean t k : clean t = true -> text_of_field (t ++ repeat 143 k) = t.
Proof.
  induction t as [|b t IH]; intros H; [apply text_of_repeat|].
  cbn [clean forallb] in H. apply andb_true_iff in H as [Hb Ht]. cbn [app text_of_field]. change filler with 143.
  destruct (b =? 143); [discriminate|]. f_equal. apply IH, Ht.
Qed.

Lemma lstrip_repeat k l : lstrip_8f (repeat 143 k ++ l) = lstrip_8f l.
Proof. induction k as [|k IH]; [reflexivity|]. cbn [repeat app lstrip_8f]. rewrite Z.eqb_refl. exact IH. Qed.
Lemma lstrip_clean l : clean l = true -> lstrip_8f l = l.
Proof.
  destruct l as [|b l]; [reflexivity|]. cbn [clean forallb lstrip_8f]. intros H. apply andb_true_iff in H as [Hb _].
  destruct (b =? 143); [discriminate | reflexivity].
Qed.
Lemma clean_rev t : clean t = true -> clean (rev t) = true.
Proof.
  unfold clean. rewrite !forallb_forall. intros H x Hx. apply H, in_rev, Hx.
Qed.
Lemma rev_repeat_143 k : rev (repeat 143 k) = repeat 143 k.
Proof.
  induction k as [|k IH]; [reflexivity|]. cbn [repeat rev]. rewrite IH. symmetry. apply repeat_cons.
Qed.

Lemma strip_clean t k : clean t = true -> strip_8f (t ++ repeat 143 k) = t.
Proof.
  intros H. unfold strip_8f.
  destruct t as [|b t].
  - cbn [app]. rewrite <- (app_nil_r (repeat 143 k)), lstrip_repeat. reflexivity.
  - assert (Hl : lstrip_8f ((b :: t) ++ repeat 143 k) = (b :: t) ++ repeat 143 k).
    { cbn [app lstrip_8f]. cbn [clean forallb] in H. apply andb_true_iff in H as [Hb _]. destruct (b =? 143); [discriminate | reflexivity]. }
    rewrite Hl, rev_app_distr, rev_repeat_143, lstrip_repeat, (lstrip_clean _ (clean_rev _ H)). apply rev_involutive.
Qed.

(* the text of a block: the implementation's strip is the standard's cut, unless something follows an unused-space byte *)
Lemma strip_is_cut tf : trigger_strip tf = false -> strip_8f tf = text_of_field tf.
Proof.
  intros H. destruct (well_shaped tf H) as (t & k & -> & Hc). rewrite strip_clean, text_of_clean by exact Hc. reflexivity.
Qed.
Lemma strip_is_cut_refuted : exists tf, strip_8f tf <> text_of_field tf.
Proof. exists [143; 65; 66]. vm_compute. discriminate. Qed.
Lemma strip_clean_result tf : trigger_strip tf = false -> clean (strip_8f tf) = true.
Proof. intros H. destruct (well_shaped tf H) as (t & k & -> & Hc). rewrite strip_clean by exact Hc. exact Hc. Qed.

(* ---- rows --------------------------------------------------------------------------------------------------- *)
Lemma line_count_breaks dh : forall bs count was, line_count_go dh bs count was = count + count_breaks dh bs was + 1.
Proof.
  induction bs as [|c r IH]; intros count was; cbn [line_count_go count_breaks]; [lia|].
  unfold is_newline_code. change newline_code with 138.
  destruct (c =? 138); [|rewrite IH; lia].
  destruct dh; cbn [andb]; [destruct was|]; rewrite IH; lia.
Qed.
Lemma text_of_clean_id t : clean t = true -> text_of_field t = t.
Proof. intros H. rewrite <- (app_nil_r t) at 1. apply (text_of_clean t 0 H). Qed.

(* rows needed by a field without unused-space bytes: line_count x row height = the specification's rows_occupied *)
Lemma rows_agree tf : line_count tf (has_double_height_char tf) * (if has_double_height_char tf then 2 else 1) = rows_occupied tf.
Proof.
  unfold line_count, rows_occupied. rewrite line_count_breaks. change (double_height tf) with (has_double_height_char tf). lia.
Qed.

(* ---- region --------------------------------------------------------------------------------------------------- *)
Definition rect_of (r : region) : rect := mkRect (r_x r) (r_y r) (r_w r) (r_h r) (r_after r).

Definition rect_equiv (a b : rect) : Prop :=
  (x0 a == x0 b /\ y0 a == y0 b /\ width a == width b /\ height a == height b)%Q /\ align_after a = align_after b.

(* the region of a new subtitle is the specification's top-anchored region of row VP or bottom-anchored region of
   the subtitle's last row; the anchor is chosen by VP < max_rows // 2 *)
Lemma region_choice max_rows vp tf r : region_for max_rows vp tf (has_double_height_char tf) = Some r ->
  (vp < max_rows / 2 /\ rect_equiv (rect_of r) (top_anchored max_rows vp)) \/
  (max_rows / 2 <= vp /\ rect_equiv (rect_of r) (bottom_anchored max_rows (vp + rows_occupied tf - 1))).
Proof.
  unfold region_for. destruct (vp <? max_rows / 2) eqn:E.
  - intros H. injection H as <-. left. split; [lia|]. unfold rect_equiv, rect_of, top_anchored, row_top.
    cbn [r_x r_y r_w r_h r_after x0 y0 width height align_after]. repeat split; try reflexivity;
    unfold qz, safe_top, safe_height; change default_vertical_safe_margin_pct with 10; change safe_area_height with 80;
    change (inject_Z (100 - 10)) with 90%Q; change (inject_Z 10) with 10%Q; change (inject_Z 80) with 80%Q; ring.
  - destruct (max_rows =? 0); [discriminate|]. intros H. injection H as <-. right. split; [lia|].
    rewrite <- rows_agree. unfold rect_equiv, rect_of, bottom_anchored, row_bottom.
    cbn [r_x r_y r_w r_h r_after x0 y0 width height align_after]. repeat split; try reflexivity;
    unfold qz, safe_top, safe_height; change safe_area_height with 80; change (inject_Z 80) with 80%Q; ring.
Qed.

(* both regions lie inside the safe area when the subtitle's rows lie inside the row grid *)
Lemma ratio_bounds a b : 0 <= a <= b -> 0 < b -> (0 <= inject_Z a / inject_Z b /\ inject_Z a / inject_Z b <= 1)%Q.
Proof.
  intros Ha Hb. destruct b as [|p|p]; try lia.
  unfold Qdiv, Qinv, Qmult, Qle, inject_Z. cbn [Qnum Qden]. split; lia.
Qed.

Lemma top_inside rows vp : 0 < rows -> 1 <= vp <= rows + 1 -> inside_safe_area (top_anchored rows vp).
Proof.
  intros Hr Hv. destruct (ratio_bounds (vp - 1) rows ltac:(lia) Hr) as [H0 H1].
  unfold inside_safe_area, top_anchored, row_top, safe_left, safe_top, safe_width, safe_height.
  cbn [x0 y0 width height]. set (q := (inject_Z (vp - 1) / inject_Z rows)%Q) in *.
  repeat split.
  - apply Qle_refl.
  - apply Qle_refl.
  - setoid_replace (10 + q * 80)%Q with (10 + 80 * q)%Q by ring.
    rewrite <- (Qplus_0_r 10) at 1. apply Qplus_le_r. apply Qmult_le_0_compat; [discriminate | exact H0].
  - setoid_replace (10 + q * 80 + (10 + 80 - (10 + q * 80)))%Q with (10 + 80)%Q by ring. apply Qle_refl.
  - setoid_replace (10 + 80 - (10 + q * 80))%Q with (80 * (1 - q))%Q by ring.
    apply Qmult_le_0_compat; [discriminate|]. rewrite <- (Qplus_opp_r q). apply Qplus_le_l. exact H1.
Qed.

Lemma bottom_inside rows last : 0 < rows -> 0 <= last <= rows -> inside_safe_area (bottom_anchored rows last).
Proof.
  intros Hr Hv. destruct (ratio_bounds last rows ltac:(lia) Hr) as [H0 H1].
  unfold inside_safe_area, bottom_anchored, row_bottom, safe_left, safe_top, safe_width, safe_height.
  cbn [x0 y0 width height]. set (q := (inject_Z last / inject_Z rows)%Q) in *.
  repeat split.
  - apply Qle_refl.
  - apply Qle_refl.
  - apply Qle_refl.
  - setoid_replace (10 + (10 + q * 80 - 10))%Q with (10 + 80 * q)%Q by ring.
    apply Qplus_le_r. rewrite <- (Qmult_1_r 80) at 2. apply Qmult_le_l; [reflexivity | exact H1].
  - setoid_replace (10 + q * 80 - 10)%Q with (80 * q)%Q by ring. apply Qmult_le_0_compat; [discriminate | exact H0].
Qed.

(* VP = 0 (a legal value for open subtitles) in the upper half: the region starts above the safe area *)
Lemma region_vp_zero_refuted : exists rows tf r, region_for rows 0 tf false = Some r /\ ~ inside_safe_area (rect_of r).
Proof.
  exists 23, [65], (mkRegion (qz 5) (qz 10 + (qz (-1) / qz 23) * qz 80)%Q (qz 90) (qz 90 - (qz 10 + (qz (-1) / qz 23) * qz 80))%Q false).
  split; [reflexivity|]. unfold inside_safe_area. intros (_ & _ & H & _). vm_compute in H. apply H. reflexivity.
Qed.

(* ---- witness files (used by Findings/C09.v and the examples of Properties/C09.v) ----------------------------------- *)
Definition put (off : nat) (v : list Z) (l : list Z) : list Z := firstn off l ++ v ++ skipn (off + length v) l.
Definition witness_gsi : list Z :=
  put 3 [83; 84; 76; 50; 53; 46; 48; 49] (put 11 [49; 48; 48; 48; 57] (put 238 [48; 48; 48; 48; 50] (put 253 [50; 51] (repeat 32 1024%nat)))).
Definition witness_tti (sn : Z) (s0 s1 vp cs cf : Z) (tf : list Z) : list Z :=
  [0; sn mod 256; sn / 256; 255; cs; 0; 0; s0; 0; 0; 0; s1; 0; vp; 2; cf] ++ firstn 112 (tf ++ repeat 143 112%nat).
Definition cfg0 : config := mkConfig StNone MrNone false false None.
Definition paragraphs_of (o : outcome) : Z :=
  match o with Ok d => Z.of_nat (length (concat (d_divs d))) | Err _ => -1 end.

(* subtitle numbers are compared by value: a block opens a paragraph iff its number differs from the last one's *)
Lemma sn_value sn last : sn_differs sn last = true <-> last <> Some sn.
Proof.
  unfold sn_differs. destruct last as [l|]; [|split; [discriminate | reflexivity]].
  destruct (sn =? l) eqn:E; cbn [negb]; split; intros H; try reflexivity; try discriminate.
  - apply Z.eqb_eq in E. subst. contradiction.
  - intros Heq. injection Heq as ->. rewrite Z.eqb_refl in E. discriminate.
Qed.

(* ---- grouping: extension blocks are concatenated, user-data/reserved blocks are skipped --------------------------- *)
Definition is_ext (t : tti) : bool := text_block t && negb (t_ebn t =? 255).
Definition ext_or_skip (t : tti) : Prop := is_ext t = true \/ text_block t = false.
Definition acc_tf (s : state) : list Z := if st_in_ext s then st_tf s else [].

Fixpoint fold_blocks (f : datafile) (s : state) (ts : list tti) : state + error :=
  match ts with
  | [] => inl s
  | t :: r => match process_tti f s t with inl s' => fold_blocks f s' r | inr e => inr e end
  end.

Lemma process_skip f s t : text_block t = false -> process_tti f s t = inl s.
Proof.
  unfold text_block, process_tti. intros H. destruct ((239 <? t_ebn t) && (t_ebn t <? 255)); [reflexivity | discriminate].
Qed.
Lemma process_ext f s t : is_ext t = true ->
  process_tti f s t = inl (mkState true (acc_tf s ++ strip_8f (t_tf t)) (st_last_sn s) (st_divs s) (st_cur s) (st_regions s)).
Proof.
  unfold is_ext, text_block, process_tti, acc_tf. intros H. apply andb_true_iff in H as [H1 H2].
  destruct ((239 <? t_ebn t) && (t_ebn t <? 255)); [discriminate|]. rewrite H2. reflexivity.
Qed.

Lemma ext_chain f : forall ts s, Forall ext_or_skip ts ->
  exists s', fold_blocks f s ts = inl s' /\
             acc_tf s' = acc_tf s ++ concat (map (fun x => strip_8f (t_tf x)) (filter text_block ts)) /\
             st_last_sn s' = st_last_sn s /\ st_divs s' = st_divs s /\ st_cur s' = st_cur s /\ st_regions s' = st_regions s.
Proof.
  induction ts as [|t r IH]; intros s H.
  - exists s. cbn. rewrite app_nil_r. repeat split.
  - inversion H as [|? ? Ht Hr]; subst. cbn [fold_blocks filter]. destruct Ht as [Ht|Ht].
    + rewrite (process_ext f s t Ht).
      assert (Htb : text_block t = true) by (unfold is_ext in Ht; apply andb_true_iff in Ht; tauto). rewrite Htb.
      destruct (IH (mkState true (acc_tf s ++ strip_8f (t_tf t)) (st_last_sn s) (st_divs s) (st_cur s) (st_regions s)) Hr)
        as (s' & Hf & Ha & H1 & H2 & H3 & H4).
      exists s'. split; [exact Hf|]. cbn [map concat]. unfold acc_tf in *. cbn [st_in_ext st_tf] in Ha.
      rewrite Ha, <- app_assoc. repeat split; assumption.
    + rewrite (process_skip f s t Ht), Ht. apply IH, Hr.
Qed.

(* the text field that the terminal block of a subtitle is decoded from: the stripped text fields of all its
   text-carrying blocks, in order *)
Lemma grouping_tf f ts s t : st_in_ext s = false -> Forall ext_or_skip ts -> text_block t = true ->
  exists s', fold_blocks f s ts = inl s' /\
             fst (block_view f s' t) = concat (map (fun x => strip_8f (t_tf x)) (filter text_block (ts ++ [t]))).
Proof.
  intros Hs Hts Ht. destruct (ext_chain f ts s Hts) as (s' & Hf & Ha & _).
  exists s'. split; [exact Hf|]. unfold block_view. cbn [fst]. fold (acc_tf s'). rewrite Ha.
  unfold acc_tf at 1. rewrite Hs. cbn [app]. rewrite filter_app, map_app, concat_app. cbn [filter]. rewrite Ht.
  cbn [map concat]. rewrite app_nil_r. reflexivity.
Qed.

(* ... which, for well-shaped fields, is the concatenation of the blocks' texts as Tech 3264 defines them *)
Lemma grouping_tf_spec (ts : list tti) : Forall (fun x => trigger_strip (t_tf x) = false) ts ->
  concat (map (fun x => strip_8f (t_tf x)) ts) = concat (map (fun x => text_of_field (t_tf x)) ts).
Proof.
  induction 1 as [|t r Ht _ IH]; [reflexivity|]. cbn [map concat]. rewrite (strip_is_cut _ Ht), IH. reflexivity.
Qed.

(* ---- one subtitle: the terminal block of a non-cumulative subtitle with a new number ------------------------------ *)
Definition text_align_of (jc : Z) : Z := if jc =? 1 then 0 else if jc =? 3 then 2 else 1.

(* it becomes a paragraph visible exactly from TCI to TCO (shifted by the programme start), holding the pieces of its
   accumulated text field, aligned by JC, in the region of its VP *)
Lemma new_subtitle f s t r :
  text_block t = true -> t_ebn t = 255 -> t_cs t = 0 -> st_last_sn s <> Some (t_sn t) ->
  let tf := acc_tf s ++ strip_8f (t_tf t) in
  let b := (offset_q (f_fps f) (t_tci t) - f_start f)%Q in
  let e := (offset_q (f_fps f) (t_tco t) - f_start f)%Q in
  q_neg b = false -> q_lt e b = false ->
  region_for (f_max_rows f) (t_vp t) tf (has_double_height_char tf) = Some r ->
  exists s', process_tti f s t = inl s' /\
    st_cur s' = Some (t_sgn t,
                      mkPara (fst (get_region (st_regions s) r)) (text_align_of (t_jc t))
                             (if f_teletext f && negb (has_double_height_char tf) then default_single_height_font_size_pct
                              else default_double_height_font_size_pct)
                             default_line_height_pct (Some (b, e))
                             (map PLeaf (tf_model (decoder_of_cct (f_cct f)) (f_teletext f) tf))) /\
    st_regions s' = snd (get_region (st_regions s) r).
Proof.
  intros Htb Hebn Hcs Hsn tf b e Hb He Hr. apply sn_value in Hsn.
  unfold process_tti. unfold text_block in Htb.
  destruct ((239 <? t_ebn t) && (t_ebn t <? 255)); [discriminate|].
  rewrite Hebn. cbn [Z.eqb Pos.eqb negb].
  fold (acc_tf s). fold tf. fold b. rewrite Hb. fold e. rewrite He.
  rewrite Hsn, Hcs. cbn [Z.eqb orb andb]. rewrite Hr.
  destruct (get_region (st_regions s) r) as [ri rs] eqn:Hg. cbn [st_cur fst snd].
  eexists. split; [reflexivity|]. cbn [st_cur st_regions]. split; reflexivity.
Qed.

(* a subtitle that starts before the programme start is dropped: nothing but the extension bookkeeping changes *)
Lemma early_subtitle_dropped f s t :
  text_block t = true -> t_ebn t = 255 -> q_neg (offset_q (f_fps f) (t_tci t) - f_start f) = true ->
  exists s', process_tti f s t = inl s' /\ st_divs s' = st_divs s /\ st_cur s' = st_cur s /\
             st_regions s' = st_regions s /\ st_last_sn s' = st_last_sn s /\ st_in_ext s' = false.
Proof.
  intros Htb Hebn Hb. unfold process_tti. unfold text_block in Htb.
  destruct ((239 <? t_ebn t) && (t_ebn t <? 255)); [discriminate|].
  rewrite Hebn. cbn [Z.eqb Pos.eqb negb]. rewrite Hb. eexists. split; [reflexivity|]. repeat split.
Qed.

(* an intermediate (CS 2) or last (CS 3) member of a cumulative set is added to the open paragraph as a span timed by
   its own TCI/TCO, followed by a line break unless it is the last *)
Lemma cumulative_member f s t sgn p :
  text_block t = true -> t_ebn t = 255 -> t_cs t = 2 \/ t_cs t = 3 -> st_cur s = Some (sgn, p) ->
  let tf := acc_tf s ++ strip_8f (t_tf t) in
  let b := (offset_q (f_fps f) (t_tci t) - f_start f)%Q in
  let e := (offset_q (f_fps f) (t_tco t) - f_start f)%Q in
  q_neg b = false -> q_lt e b = false ->
  exists s', process_tti f s t = inl s' /\
    st_cur s' = Some (sgn, mkPara (p_region p) (p_align p) (p_font_size p) (p_line_height p) (p_time p)
                                  (p_items p ++ [PSub b e (tf_model (decoder_of_cct (f_cct f)) (f_teletext f) tf ++
                                                           (if t_cs t =? 2 then [LBr] else []))])) /\
    st_divs s' = st_divs s /\ st_regions s' = st_regions s.
Proof.
  intros Htb Hebn Hcs Hcur tf b e Hb He.
  unfold process_tti. unfold text_block in Htb.
  destruct ((239 <? t_ebn t) && (t_ebn t <? 255)); [discriminate|].
  rewrite Hebn. cbn [Z.eqb Pos.eqb negb].
  fold (acc_tf s). fold tf. fold b. rewrite Hb. fold e. rewrite He.
  destruct Hcs as [Hcs|Hcs]; rewrite Hcs; cbn [Z.eqb Pos.eqb orb andb]; rewrite andb_false_r; cbn [st_cur]; rewrite Hcur;
    eexists; (split; [reflexivity|]); cbn [st_cur st_divs st_regions]; rewrite ?app_nil_r; repeat split.
Qed.

Lemma grouping_partial f ts s t : st_in_ext s = false -> Forall ext_or_skip ts -> text_block t = true ->
  Forall (fun x => trigger_strip (t_tf x) = false) (filter text_block (ts ++ [t])) ->
  exists s', fold_blocks f s ts = inl s' /\
             fst (block_view f s' t) = concat (map (fun x => text_of_field (t_tf x)) (filter text_block (ts ++ [t]))).
Proof.
  intros Hs Hts Ht Hw. destruct (grouping_tf f ts s t Hs Hts Ht) as (s' & Hf & Hv).
  exists s'. split; [exact Hf|]. rewrite Hv. exact (grouping_tf_spec _ Hw).
Qed.
