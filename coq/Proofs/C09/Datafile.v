(* C09, data-file level lemmas (filled in below) *)
From Coq Require Import QArith.
From TT Require Import Base.Prelude Model.TimeCode Model.Iso6937 Model.StlTf Model.StlDatafile Model.StlTriggers Spec.Ebu3264Spec.
Open Scope Z_scope.
