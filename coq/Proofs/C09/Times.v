(* C09_times: TCI/TCO are converted with SmpteTimeCode.to_temporal_offset (Model/TimeCode.v).  From the C12 lemmas:
   the n-th address of the SMPTE 12M counting sequence at the DFC frame rate is presented exactly n frame periods
   after 00:00:00:00, and the conversion equals the specification's closed form on every label, valid or not.
   24000/1001 is the recorded finding df-23976. *)
From Coq Require Import QArith.
From TT Require Import Base.Prelude Model.TimeCode Model.StlDatafile Model.StlTriggers Spec.Smpte12M Spec.Ebu3264Spec.
From TT Require Import Proofs.C12.Integer Proofs.C12.DropFrame Proofs.C12.Derived.
Open Scope Z_scope.

(* closed forms: the frame count of the code = the SMPTE count of S, for every label *)
Lemma count24 l : to_frames r24 l = smpte_count 24 0 l.
Proof. destruct l as [[[h m] s] f]. unfold to_frames, smpte_count. change (is_df r24) with false. change (rn r24) with 24. change (rd r24) with 1. cbv iota. lia. Qed.
Lemma count25 l : to_frames r25 l = smpte_count 25 0 l.
Proof. destruct l as [[[h m] s] f]. unfold to_frames, smpte_count. change (is_df r25) with false. change (rn r25) with 25. change (rd r25) with 1. cbv iota. lia. Qed.
Lemma count50 l : to_frames r50 l = smpte_count 50 0 l.
Proof. destruct l as [[[h m] s] f]. unfold to_frames, smpte_count. change (is_df r50) with false. change (rn r50) with 50. change (rd r50) with 1. cbv iota. lia. Qed.
Lemma count2997 l : to_frames r2997 l = smpte_count 30 2 l.
Proof.
  destruct l as [[[h m] s] f]. unfold to_frames, smpte_count.
  change (is_df r2997) with true. change (drop_per_minute r2997) with 2. change (ndf r2997) with 30. cbv iota. lia.
Qed.

(* hence the rational offsets coincide with S's time_of *)
Definition fr24 := mkFR 24 1 24 0.   Definition fr25 := mkFR 25 1 25 0.   Definition fr50 := mkFR 50 1 50 0.
Definition fr2997 := mkFR 30000 1001 30 2.   Definition fr23976 := mkFR 24000 1001 24 0.

Lemma offset24 l : offset_q r24 l = time_of fr24 l.
Proof. unfold offset_q, to_temporal_offset, time_of. rewrite count24. reflexivity. Qed.
Lemma offset25 l : offset_q r25 l = time_of fr25 l.
Proof. unfold offset_q, to_temporal_offset, time_of. rewrite count25. reflexivity. Qed.
Lemma offset50 l : offset_q r50 l = time_of fr50 l.
Proof. unfold offset_q, to_temporal_offset, time_of. rewrite count50. reflexivity. Qed.
Lemma offset2997 l : offset_q r2997 l = time_of fr2997 l.
Proof. unfold offset_q, to_temporal_offset, time_of. rewrite count2997. reflexivity. Qed.

(* the DFC table of the code and of S name the same rates *)
Lemma dfc_rates_agree :
  map (fun kv => dfc_rate (fst kv)) Gen.StlTables.dfc_fraction_map =
  map (fun kv => let '(n, d) := snd kv in
                 Some (mkFR n d (ceil_div n d) (if (n =? 30000) && (d =? 1001) then 2 else 0))) Gen.StlTables.dfc_fraction_map.
Proof. vm_compute. reflexivity. Qed.

(* the n-th address of the SMPTE counting sequence is presented n frame periods after zero *)
Lemma seq_offset r F D (Hspec : forall n : nat, from_frames r (Z.of_nat n) = label_spec F D n)
      (Hrt : forall n, 0 <= n -> to_frames r (from_frames r n) = n) (n : nat) :
  offset_q r (label_spec F D n) = Qmake (Z.of_nat n * rd r) (Z.to_pos (rn r)).
Proof. unfold offset_q, to_temporal_offset. rewrite <- Hspec, Hrt by lia. reflexivity. Qed.

Lemma times24 (n : nat) : offset_q r24 (label_spec 24 0 n) = Qmake (Z.of_nat n) 24.
Proof. rewrite (seq_offset r24 24 0 spec24 rt24). cbn [rd rn r24 Z.to_pos]. rewrite Z.mul_1_r. reflexivity. Qed.
Lemma times25 (n : nat) : offset_q r25 (label_spec 25 0 n) = Qmake (Z.of_nat n) 25.
Proof. rewrite (seq_offset r25 25 0 spec25 rt25). cbn [rd rn r25 Z.to_pos]. rewrite Z.mul_1_r. reflexivity. Qed.
Lemma times50 (n : nat) : offset_q r50 (label_spec 50 0 n) = Qmake (Z.of_nat n) 50.
Proof. rewrite (seq_offset r50 50 0 spec50 rt50). cbn [rd rn r50 Z.to_pos]. rewrite Z.mul_1_r. reflexivity. Qed.
Lemma times2997 (n : nat) : offset_q r2997 (label_spec 30 2 n) = Qmake (Z.of_nat n * 1001) 30000.
Proof. rewrite (seq_offset r2997 30 2 spec2997 rt2997). reflexivity. Qed.

(* 24000/1001: the code applies a drop-frame compensation that SMPTE 12M does not define *)
Lemma count23976_partial l : beyond_first_minute l = false -> to_frames r23976 l = smpte_count 24 0 l.
Proof.
  destruct l as [[[h m] s] f]. unfold beyond_first_minute, to_frames, smpte_count. intros H.
  change (is_df r23976) with true. change (drop_per_minute r23976) with 1. change (ndf r23976) with 24. cbv iota.
  assert (h = 0 /\ m = 0) as [-> ->] by lia. lia.
Qed.
Lemma offset23976_partial l : beyond_first_minute l = false -> offset_q r23976 l = time_of fr23976 l.
Proof. intros H. unfold offset_q, to_temporal_offset, time_of. rewrite (count23976_partial l H). reflexivity. Qed.
Lemma offset23976_refuted : exists l, valid 24 0 l /\ ~ (offset_q r23976 l == time_of fr23976 l)%Q.
Proof.
  exists (0, 1, 0, 0). split.
  - unfold valid. repeat split; try lia.
  - vm_compute. discriminate.
Qed.
