(* C09, finite domains decided inside the kernel (vm_compute over every byte / every pair of bytes, the bound is
   part of each statement), and their lifting to byte strings of any length. *)
From TT Require Import Base.Prelude Gen.Iso6937Tables Gen.StlTables Gen.Iso6937Spec Model.Iso6937 Model.StlTf Model.StlTriggers Spec.Ebu3264Spec.

Fixpoint all_upto (k : nat) (i : Z) (p : Z -> bool) : bool :=
  match k with O => true | S k' => p i && all_upto k' (i + 1) p end.

Lemma all_upto_spec k : forall i p, all_upto k i p = true -> forall w, i <= w < i + Z.of_nat k -> p w = true.
Proof.
  induction k as [|k IH]; intros i p H w Hw; [lia|].
  cbn [all_upto] in H. apply andb_true_iff in H as [H1 H2].
  destruct (Z.eq_dec w i) as [->|Hne]; [assumption|].
  apply (IH (i + 1) p H2). lia.
Qed.
Lemma all_bytes p : all_upto 256 0 p = true -> forall b, 0 <= b < 256 -> p b = true.
Proof. intros H b Hb. apply (all_upto_spec 256 0 p H). lia. Qed.


(* ---- the classifiers of tf.py: the range tests of Model/StlTf.v are the source's functions on every byte,
        and the specification's classes coincide with them *)
Lemma classifiers_are_source : forall b, 0 <= b < 256 -> class_mask b = nth (Z.to_nat b) tf_class_table (-1).
Proof.
  intros b Hb. apply Z.eqb_eq. revert b Hb.
  apply (all_bytes (fun b => class_mask b =? nth (Z.to_nat b) tf_class_table (-1))). vm_compute. reflexivity.
Qed.

Lemma classes_agree : forall b, 0 <= b < 256 ->
  is_character_code b = graphic b /\ is_printable_code b = printable b /\ is_control_code b = attribute_code b.
Proof.
  intros b Hb.
  assert (H : (Bool.eqb (is_character_code b) (graphic b) && Bool.eqb (is_printable_code b) (printable b) &&
               Bool.eqb (is_control_code b) (attribute_code b)) = true).
  { revert b Hb. apply all_bytes. vm_compute. reflexivity. }
  apply andb_true_iff in H as [H H3]. apply andb_true_iff in H as [H1 H2].
  apply Bool.eqb_prop in H1, H2, H3. auto.
Qed.

(* the control-code effects: same colours (regenerated NamedColors vs the teletext palette), same switches *)
Definition style_attrs_eqb (s : style) (a : attrs) : bool :=
  (s_fg s =? a_fg a) && (s_bg s =? a_bg a) && Bool.eqb (s_italic s) (a_italic a) && Bool.eqb (s_underline s) (a_underline a).

(* ---- ISO 6937 ------------------------------------------------------------------------------------- *)
Lemma iso6937_single_b : forall b, 0 <= b < 256 -> text_eqb (decode6937 [b]) (decode_iso6937 [b]) = true.
Proof. apply all_bytes. vm_compute. reflexivity. Qed.

Lemma iso6937_single b : 0 <= b < 256 -> decode6937 [b] = decode_iso6937 [b].
Proof. intros Hb. apply text_eqb_eq, iso6937_single_b, Hb. Qed.

(* every pair of bytes *)
Definition pair_ok (b1 b2 : Z) : bool := text_eqb (decode6937 [b1; b2]) (decode_iso6937 [b1; b2]).
Lemma iso6937_pair_b : forall b1, 0 <= b1 < 256 -> all_upto 256 0 (pair_ok b1) = true.
Proof. apply all_bytes. vm_compute. reflexivity. Qed.

Lemma iso6937_pair b1 b2 : 0 <= b1 < 256 -> 0 <= b2 < 256 -> decode6937 [b1; b2] = decode_iso6937 [b1; b2].
Proof.
  intros H1 H2. pose proof (all_bytes _ (iso6937_pair_b b1 H1) b2 H2) as H. unfold pair_ok in H. apply text_eqb_eq, H.
Qed.

(* per coded character: what the two decoders do with one chunk *)
Definition single_char_ok (b : Z) : bool :=
  is_diacritic b || ((if (32 <=? b) && (b <=? 126) then b else cct0_lookup [b]) =? iso6937_char b).
Lemma single_char_b : forall b, 0 <= b < 256 -> single_char_ok b = true.
Proof. apply all_bytes. vm_compute. reflexivity. Qed.

Definition diacritic_ok (d : Z) : bool :=
  negb (is_diacritic d) ||
  ((cct0_lookup [d] =? replacement) &&
   all_upto 256 0 (fun l => cct0_lookup [d; l] =? or_replacement (assoc2 iso6937_pairs_spec d l))).
Lemma diacritic_b : forall d, 0 <= d < 256 -> diacritic_ok d = true.
Proof. apply all_bytes. vm_compute. reflexivity. Qed.

Lemma diacritic_range b : is_diacritic b = (193 <=? b) && (b <=? 207).
Proof. reflexivity. Qed.

Definition is_byte (b : Z) : Prop := 0 <= b < 256.

(* byte strings of any length: the decoders agree (iso6937-a4 was repaired: no byte is excepted) *)
Lemma iso6937_list_aux : forall n bs, (length bs <= n)%nat -> Forall is_byte bs -> decode6937 bs = decode_iso6937 bs.
Proof.
  induction n as [|n IH]; intros bs Hlen Hb.
  - destruct bs; [reflexivity | simpl in Hlen; lia].
  - destruct bs as [|b rest]; [reflexivity|].
    inversion Hb as [|? ? Hb1 Hrest]; subst.
    cbn [decode6937 decode_iso6937]. rewrite diacritic_range.
    pose proof (single_char_b b Hb1) as Hs. unfold single_char_ok in Hs. rewrite diacritic_range in Hs.
    pose proof (diacritic_b b Hb1) as Hd. unfold diacritic_ok in Hd. rewrite diacritic_range in Hd.
    destruct ((32 <=? b) && (b <=? 126)) eqn:Hascii.
    + assert (Hnd : (193 <=? b) && (b <=? 207) = false) by lia. rewrite Hnd in *. cbn [orb] in Hs.
      apply Z.eqb_eq in Hs. unfold iso6937_char in *.
      f_equal; [exact Hs|]. apply IH; [simpl in Hlen; lia | assumption].
    + destruct ((193 <=? b) && (b <=? 207)) eqn:Hdia.
      * cbn [negb orb] in Hd. apply andb_true_iff in Hd as [Hd1 Hd2]. apply Z.eqb_eq in Hd1.
        destruct rest as [|l rest'].
        -- rewrite Hd1. reflexivity.
        -- inversion Hrest as [|? ? Hl Hrest']; subst.
           pose proof (all_bytes _ Hd2 l Hl) as Hp. cbn beta in Hp. apply Z.eqb_eq in Hp. rewrite Hp.
           f_equal. apply IH; [simpl in Hlen; lia | assumption].
      * cbn [orb] in Hs. apply Z.eqb_eq in Hs. rewrite Hs. f_equal.
        apply IH; [simpl in Hlen; lia | assumption].
Qed.

Lemma iso6937_list bs : Forall is_byte bs -> decode6937 bs = decode_iso6937 bs.
Proof. apply (iso6937_list_aux (length bs)); lia. Qed.

(* ---- ISO 8859-5/6/7/8: CPython's codec tables are the standard's tables ------------------------------ *)
Definition t8859_ok (b : Z) : bool :=
  (nth (Z.to_nat b) iso8859_5_table fffd =? iso8859_5 b) && (nth (Z.to_nat b) iso8859_6_table fffd =? iso8859_6 b) &&
  (nth (Z.to_nat b) iso8859_7_table fffd =? iso8859_7 b) && (nth (Z.to_nat b) iso8859_8_table fffd =? iso8859_8 b).
Lemma iso8859_b : forall b, 0 <= b < 256 -> t8859_ok b = true.
Proof. apply all_bytes. vm_compute. reflexivity. Qed.

Lemma charmap_eq table f bs : (forall b, is_byte b -> nth (Z.to_nat b) table fffd = f b) -> Forall is_byte bs ->
  charmap_decode table bs = map f bs.
Proof.
  intros H Hb. unfold charmap_decode. induction Hb as [|b bs Hb1 _ IH]; [reflexivity|].
  cbn [map]. rewrite (H b Hb1), IH. reflexivity.
Qed.

Lemma iso8859_tables b : is_byte b ->
  nth (Z.to_nat b) iso8859_5_table fffd = iso8859_5 b /\ nth (Z.to_nat b) iso8859_6_table fffd = iso8859_6 b /\
  nth (Z.to_nat b) iso8859_7_table fffd = iso8859_7 b /\ nth (Z.to_nat b) iso8859_8_table fffd = iso8859_8 b.
Proof.
  intros Hb. pose proof (iso8859_b b Hb) as H. unfold t8859_ok in H.
  repeat (apply andb_true_iff in H as [H ?]).
  repeat match goal with Hx : (_ =? _) = true |- _ => apply Z.eqb_eq in Hx end. auto.
Qed.

(* the decoder chosen by the CCT field: implementation = standard on any byte string *)

Lemma bytes_eqb_eq a b : bytes_eqb a b = true -> a = b.
Proof.
  revert b; induction a as [|x a IH]; intros [|y b] H; simpl in H; try discriminate; [reflexivity|].
  apply andb_true_iff in H as [H1 H2]. apply Z.eqb_eq in H1. apply IH in H2. congruence.
Qed.

Lemma cct_is_eqb cct d : cct_is cct d = bytes_eqb cct [48; d].
Proof.
  destruct cct as [|a [|b [|c r]]]; cbn [cct_is bytes_eqb]; rewrite ?andb_true_r, ?andb_false_r; reflexivity.
Qed.

Lemma decoder_agrees cct bs : Forall is_byte bs -> decoder_of_cct cct bs = decoder_spec cct bs.
Proof.
  intros Hb. unfold decoder_of_cct, decoder_spec in *. rewrite !cct_is_eqb.
  change 0x31 with 49. change 0x32 with 50. change 0x33 with 51. change 0x34 with 52.
  destruct (bytes_eqb cct [48; 49]) eqn:E1.
  { destruct (bytes_eqb cct [48; 48]) eqn:E0; [apply bytes_eqb_eq in E0, E1; congruence|].
    apply charmap_eq; [|assumption]. intros b H; destruct (iso8859_tables b H) as (H5 & H6 & H7 & H8); exact H5. }
  destruct (bytes_eqb cct [48; 50]) eqn:E2.
  { destruct (bytes_eqb cct [48; 48]) eqn:E0; [apply bytes_eqb_eq in E0, E2; congruence|].
    apply charmap_eq; [|assumption]. intros b H; destruct (iso8859_tables b H) as (H5 & H6 & H7 & H8); exact H6. }
  destruct (bytes_eqb cct [48; 51]) eqn:E3.
  { destruct (bytes_eqb cct [48; 48]) eqn:E0; [apply bytes_eqb_eq in E0, E3; congruence|].
    apply charmap_eq; [|assumption]. intros b H; destruct (iso8859_tables b H) as (H5 & H6 & H7 & H8); exact H7. }
  destruct (bytes_eqb cct [48; 52]) eqn:E4.
  { destruct (bytes_eqb cct [48; 48]) eqn:E0; [apply bytes_eqb_eq in E0, E4; congruence|].
    apply charmap_eq; [|assumption]. intros b H; destruct (iso8859_tables b H) as (H5 & H6 & H7 & H8); exact H8. }
  destruct (bytes_eqb cct [48; 48]); apply iso6937_list; assumption.
Qed.
