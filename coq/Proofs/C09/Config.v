(* C09, the configuration in front of DataFile.__init__: STLReaderConfiguration.parse (stl/config.py _decode_start_tc,
   _decode_max_row_count; ttconv/config.py decode_bool, ModuleConfiguration.parse) as transcribed in
   Model/StlDatafile.v, after the repairs "program_start_tc accepted trailing text after the time code" (re.fullmatch),
   "max_row_count accepted true and false as integers" and "fields documented as true | false accepted any JSON value
   by truthiness".  What each decoder accepts is characterised exactly (iff) by the declarative predicates of
   Spec/Ebu3264Spec.v (any_case, complete_time_code), every value it lets through is one DataFile.__init__ can use, and
   a parsed configuration never makes the reader fail on a well-sized file. *)
From Coq Require Import QArith Lia.
From TT Require Import Base.Prelude Gen.StlTables Model.TimeCode Model.Iso6937 Model.StlTf Model.StlDatafile Model.StlTriggers.
From TT Require Import Spec.Smpte12M Spec.Ebu3264Spec.
From TT Require Import Proofs.C09.File.
Open Scope Z_scope.

Ltac forall_list := repeat (apply Forall_cons; [first [assumption | reflexivity] |]); apply Forall_nil.

(* ---- the two building blocks: value.upper() == keyword, pattern.fullmatch(value) ---- *)
Lemma upper_is_iff a b c t : upper_is a b c t = true <-> any_case [a; b; c] t.
Proof.
  unfold any_case. split.
  - destruct t as [|x [|y [|z [|w t]]]]; cbn [upper_is]; try discriminate. intros H.
    constructor; [lia|]. constructor; [lia|]. constructor; [lia|]. constructor.
  - intros H. inversion H as [|? x ? t1 Hx H1]; subst. inversion H1 as [|? y ? t2 Hy H2]; subst.
    inversion H2 as [|? z ? t3 Hz H3]; subst. inversion H3; subst. cbn [upper_is]. lia.
Qed.

Lemma any_case_length k t : any_case k t -> length t = length k.
Proof. unfold any_case. induction 1; cbn [length]; congruence. Qed.

Lemma two_digits_iff a b : (exists n, two_digits a b = Some n) <-> ascii_digit a /\ ascii_digit b.
Proof.
  unfold two_digits, is_digit, ascii_digit. split.
  - intros [n H]. destruct ((48 <=? a) && (a <=? 57) && ((48 <=? b) && (b <=? 57))) eqn:E; [lia | discriminate].
  - intros H. replace ((48 <=? a) && (a <=? 57) && ((48 <=? b) && (b <=? 57))) with true by lia. eexists; reflexivity.
Qed.

Lemma fullmatch_iff sep_ok t :
  is_some (fullmatch_tc sep_ok t) = true <-> complete_time_code (fun c => sep_ok c = true) t.
Proof.
  unfold complete_time_code, fullmatch_tc. split.
  - destruct t as [|h1 [|h2 [|s1 [|m1 [|m2 [|s2 [|c1 [|c2 [|s3 [|f1 [|f2 [|x t]]]]]]]]]]]]; cbn [length Nat.eqb is_some];
      try discriminate.
    cbn [match_tc]. destruct (sep_ok s1) eqn:E1; [|discriminate]. destruct (sep_ok s2) eqn:E2; [|discriminate].
    destruct (sep_ok s3) eqn:E3; [|discriminate]. cbn [andb].
    destruct (two_digits h1 h2) as [hh|] eqn:Eh; [|discriminate]. destruct (two_digits m1 m2) as [mm|] eqn:Em; [|discriminate].
    destruct (two_digits c1 c2) as [ss|] eqn:Es; [|discriminate]. destruct (two_digits f1 f2) as [ff|] eqn:Ef; [|discriminate].
    intros _. exists h1, h2, s1, m1, m2, s2, c1, c2, s3, f1, f2. split; [reflexivity|].
    destruct (proj1 (two_digits_iff h1 h2) (ex_intro _ _ Eh)). destruct (proj1 (two_digits_iff m1 m2) (ex_intro _ _ Em)).
    destruct (proj1 (two_digits_iff c1 c2) (ex_intro _ _ Es)). destruct (proj1 (two_digits_iff f1 f2) (ex_intro _ _ Ef)).
    split; forall_list.
  - intros (h1 & h2 & s1 & m1 & m2 & s2 & c1 & c2 & s3 & f1 & f2 & -> & Hd & Hs).
    cbn [length Nat.eqb match_tc].
    inversion Hs as [|? ? E1 Hs1]; subst. inversion Hs1 as [|? ? E2 Hs2]; subst. inversion Hs2 as [|? ? E3 Hs3]; subst.
    rewrite E1, E2, E3. cbn [andb].
    inversion Hd as [|? ? D1 Hd1]; subst. inversion Hd1 as [|? ? D2 Hd2]; subst. inversion Hd2 as [|? ? D3 Hd3]; subst.
    inversion Hd3 as [|? ? D4 Hd4]; subst. inversion Hd4 as [|? ? D5 Hd5]; subst. inversion Hd5 as [|? ? D6 Hd6]; subst.
    inversion Hd6 as [|? ? D7 Hd7]; subst. inversion Hd7 as [|? ? D8 Hd8]; subst.
    destruct (proj2 (two_digits_iff h1 h2) (conj D1 D2)) as [? ->]. destruct (proj2 (two_digits_iff m1 m2) (conj D3 D4)) as [? ->].
    destruct (proj2 (two_digits_iff c1 c2) (conj D5 D6)) as [? ->]. destruct (proj2 (two_digits_iff f1 f2) (conj D7 D8)) as [? ->].
    reflexivity.
Qed.

Lemma complete_time_code_impl (p q : Z -> Prop) t : (forall c, p c -> q c) -> complete_time_code p t -> complete_time_code q t.
Proof.
  intros Hpq (h1 & h2 & s1 & m1 & m2 & s2 & c1 & c2 & s3 & f1 & f2 & E & Hd & Hs).
  exists h1, h2, s1, m1, m2, s2, c1, c2, s3, f1, f2. repeat split; try assumption.
  eapply Forall_impl; [|exact Hs]. exact Hpq.
Qed.
Lemma complete_time_code_length p t : complete_time_code p t -> length t = 11%nat.
Proof. intros (h1 & h2 & s1 & m1 & m2 & s2 & c1 & c2 & s3 & f1 & f2 & -> & _). reflexivity. Qed.

(* the two patterns of _decode_start_tc as one: the NDF pattern (colons) is a special case of the DF pattern (any
   character but a new-line) *)
Definition not_newline (c : Z) : Prop := c <> 10.
Lemma start_patterns t :
  is_some (fullmatch_tc (fun c => negb (c =? newline)) t) || is_some (fullmatch_tc (fun c => c =? colon) t) = true
  <-> complete_time_code not_newline t.
Proof.
  assert (Hdf : is_some (fullmatch_tc (fun c => negb (c =? newline)) t) = true <-> complete_time_code not_newline t).
  { rewrite fullmatch_iff. split; apply complete_time_code_impl; unfold not_newline, newline; intros c; lia. }
  split.
  - intros H. apply Bool.orb_true_iff in H. destruct H as [H | H]; [apply Hdf; exact H|].
    apply fullmatch_iff in H. revert H. apply complete_time_code_impl. unfold not_newline, colon. intros c; lia.
  - intros H. apply Bool.orb_true_iff. left. apply Hdf. exact H.
Qed.

(* ---- program_start_tc ---- *)
(* _decode_start_tc lets through exactly: null (no start), "TCP" in any letter case, a complete time code - two
   digits, a character that is not a new-line, ... eleven characters, nothing before or after them - which is kept as
   it is.  Nothing else: no trailing text (the repaired defect), no shorter or longer form *)
Lemma decode_start_accepts v s :
  decode_start_tc v = inl s <->
  (v = VNull /\ s = StNone) \/
  (exists t, v = VStr t /\ any_case [84; 67; 80] t /\ s = StTCP) \/
  (exists t, v = VStr t /\ complete_time_code not_newline t /\ s = StStr t).
Proof.
  split.
  - destruct v as [|t|n|b|]; cbn [decode_start_tc]; try discriminate.
    + intros H. injection H as <-. left. split; reflexivity.
    + destruct (upper_is 84 67 80 t) eqn:U.
      * intros H. injection H as <-. right. left. exists t. split; [reflexivity|]. split; [apply upper_is_iff; exact U | reflexivity].
      * destruct (is_some _ || is_some _) eqn:P; [|discriminate]. intros H. injection H as <-.
        right. right. exists t. split; [reflexivity|]. split; [apply start_patterns; exact P | reflexivity].
  - intros [[-> ->] | [(t & -> & H & ->) | (t & -> & H & ->)]]; cbn [decode_start_tc]; [reflexivity | |].
    + apply upper_is_iff in H. rewrite H. reflexivity.
    + destruct (upper_is 84 67 80 t) eqn:U.
      * apply upper_is_iff in U. apply complete_time_code_length in H. apply any_case_length in U. cbn [length] in U. lia.
      * apply start_patterns in H. rewrite H. reflexivity.
Qed.
(* ... and everything else is rejected with ValueError: a string that is neither; a value that is not a string - a
   boolean, a number, a list (since the repair of start-tc-non-string; AttributeError from value.upper() before) *)
Lemma decode_start_rejects v e :
  decode_start_tc v = inr e <->
  e = EValue /\ v <> VNull /\ forall t, v = VStr t -> ~ any_case [84; 67; 80] t /\ ~ complete_time_code not_newline t.
Proof.
  split.
  - destruct v as [|t|n|b|]; cbn [decode_start_tc]; try discriminate;
      try (intros H; injection H as <-; split; [reflexivity|]; split; [discriminate | intros t; discriminate]).
    destruct (upper_is 84 67 80 t) eqn:U; [discriminate|]. destruct (is_some _ || is_some _) eqn:P; [discriminate|].
    intros H. injection H as <-. split; [reflexivity|]. split; [discriminate|]. intros t' E. injection E as <-. split.
    + intros A. apply upper_is_iff in A. congruence.
    + intros A. apply start_patterns in A. congruence.
  - intros (-> & Hn & Hs). destruct v as [|t|n|b|]; cbn [decode_start_tc]; try reflexivity; [contradiction|].
    destruct (Hs t eq_refl) as [Hk Hc].
    destruct (upper_is 84 67 80 t) eqn:U; [apply upper_is_iff in U; contradiction|].
    destruct (is_some _ || is_some _) eqn:P; [apply start_patterns in P; contradiction | reflexivity].
Qed.
Lemma decode_start_non_string v : v <> VNull -> (forall t, v <> VStr t) -> decode_start_tc v = inr EValue.
Proof.
  intros Hn Hs. apply decode_start_rejects. split; [reflexivity|]. split; [exact Hn|]. intros t E. exfalso. exact (Hs t E).
Qed.
Lemma decode_start_tcp v : decode_start_tc v = inl StTCP <-> exists t, v = VStr t /\ any_case [84; 67; 80] t.
Proof.
  rewrite decode_start_accepts. split.
  - intros [[_ H] | [(t & -> & H & _) | (t & _ & _ & H)]]; try discriminate. exists t. split; [reflexivity | exact H].
  - intros (t & -> & H). right. left. exists t. repeat split. exact H.
Qed.
(* trailing text is rejected, whatever it is: the defect that was repaired *)
Lemma decode_start_no_trailing t x u : complete_time_code not_newline t -> decode_start_tc (VStr (t ++ x :: u)) = inr EValue.
Proof.
  intros H. apply decode_start_rejects. split; [reflexivity|]. split; [discriminate|]. intros t' E. injection E as <-.
  apply complete_time_code_length in H. split.
  - intros A. apply any_case_length in A. rewrite app_length in A. cbn [length] in A. lia.
  - intros A. apply complete_time_code_length in A. rewrite app_length in A. cbn [length] in A. lia.
Qed.

(* whatever _decode_start_tc lets through, SmpteTimeCode.parse accepts: with a decoded configuration the reader never
   raises ValueError *)
Lemma decode_start_parses v t : decode_start_tc v = inl (StStr t) -> forall fps, parse_tc t fps <> None.
Proof.
  intros H fps. apply decode_start_accepts in H. destruct H as [[_ H] | [(t' & _ & _ & H) | (t' & _ & H & E)]]; try discriminate.
  injection E as <-. unfold not_newline in H.
  assert (Hm : is_some (fullmatch_tc (fun c => negb (c =? newline)) t) = true).
  { apply fullmatch_iff. revert H. apply complete_time_code_impl. unfold newline. intros c; lia. }
  unfold fullmatch_tc in Hm. destruct (Nat.eqb (length t) 11); [|discriminate].
  unfold parse_tc. destruct (match_tc (fun c => c =? colon) t); [discriminate|].
  destruct (match_tc (fun c => negb (c =? newline)) t); [discriminate | discriminate].
Qed.
(* the documented HH:MM:SS:FF form: accepted, kept, and it means what the specification reads; and a value with colons
   is accepted exactly when the specification can read it *)
Lemma two_digit_iff a b : (exists n, two_digit a b = Some n) <-> ascii_digit a /\ ascii_digit b.
Proof.
  unfold two_digit, digit_val, ascii_digit. split.
  - intros [n H]. destruct ((48 <=? a) && (a <=? 57)) eqn:Ea; [|discriminate].
    destruct ((48 <=? b) && (b <=? 57)) eqn:Eb; [lia | discriminate].
  - intros H. replace ((48 <=? a) && (a <=? 57)) with true by lia. replace ((48 <=? b) && (b <=? 57)) with true by lia.
    eexists; reflexivity.
Qed.
Lemma label_iff t : (exists l, label_of_text t = Some l) <-> complete_time_code (fun c => c = 58) t.
Proof.
  split.
  - intros [l H]. destruct (label_inv t l H) as (a & b & c & d & e & f & g & h & ->). cbn [label_of_text] in H.
    destruct (two_digit a b) as [hh|] eqn:E1; [|discriminate]. destruct (two_digit c d) as [mm|] eqn:E2; [|discriminate].
    destruct (two_digit e f) as [ss|] eqn:E3; [|discriminate]. destruct (two_digit g h) as [ff|] eqn:E4; [|discriminate].
    destruct (proj1 (two_digit_iff a b) (ex_intro _ _ E1)). destruct (proj1 (two_digit_iff c d) (ex_intro _ _ E2)).
    destruct (proj1 (two_digit_iff e f) (ex_intro _ _ E3)). destruct (proj1 (two_digit_iff g h) (ex_intro _ _ E4)).
    exists a, b, 58, c, d, 58, e, f, 58, g, h. split; [reflexivity|]. split; forall_list.
  - intros (h1 & h2 & s1 & m1 & m2 & s2 & c1 & c2 & s3 & f1 & f2 & -> & Hd & Hs).
    inversion Hs as [|? ? E1 Hs1]; subst. inversion Hs1 as [|? ? E2 Hs2]; subst. inversion Hs2 as [|? ? E3 Hs3]; subst.
    inversion Hd as [|? ? D1 Hd1]; subst. inversion Hd1 as [|? ? D2 Hd2]; subst. inversion Hd2 as [|? ? D3 Hd3]; subst.
    inversion Hd3 as [|? ? D4 Hd4]; subst. inversion Hd4 as [|? ? D5 Hd5]; subst. inversion Hd5 as [|? ? D6 Hd6]; subst.
    inversion Hd6 as [|? ? D7 Hd7]; subst. inversion Hd7 as [|? ? D8 Hd8]; subst.
    cbn [label_of_text].
    destruct (proj2 (two_digit_iff h1 h2) (conj D1 D2)) as [? ->]. destruct (proj2 (two_digit_iff m1 m2) (conj D3 D4)) as [? ->].
    destruct (proj2 (two_digit_iff c1 c2) (conj D5 D6)) as [? ->]. destruct (proj2 (two_digit_iff f1 f2) (conj D7 D8)) as [? ->].
    eexists; reflexivity.
Qed.
Lemma decode_start_label t l : label_of_text t = Some l ->
  decode_start_tc (VStr t) = inl (StStr t) /\ spec_start (StStr t) = Some (StartLabel l).
Proof.
  intros H. split; [|cbn [spec_start]; rewrite H; reflexivity].
  apply decode_start_accepts. right. right. exists t. split; [reflexivity|]. split; [|reflexivity].
  assert (Hc : complete_time_code (fun c => c = 58) t) by (apply label_iff; exists l; exact H).
  revert Hc. apply complete_time_code_impl. unfold not_newline. intros c; lia.
Qed.
(* every value that is let through and kept is one the specification reads as a start label when its separators are
   colons; with other separators (the drop-frame pattern's unescaped dot) S says nothing (spec_start = None) *)
Lemma decode_start_spec v t : decode_start_tc v = inl (StStr t) ->
  (exists l, spec_start (StStr t) = Some (StartLabel l)) <-> complete_time_code (fun c => c = 58) t.
Proof.
  intros _. rewrite <- label_iff. cbn [spec_start]. split.
  - intros [l H]. destruct (label_of_text t) as [l'|]; [exists l'; reflexivity | discriminate].
  - intros [l ->]. exists l. reflexivity.
Qed.

(* ---- max_row_count ---- *)
(* _decode_max_row_count lets through exactly: null, "MNR" in any letter case, an integer that is not a boolean *)
Lemma decode_rows_accepts v r :
  decode_max_row_count v = inl r <->
  (v = VNull /\ r = MrNone) \/ (exists t, v = VStr t /\ any_case [77; 78; 82] t /\ r = MrMNR) \/ (exists n, v = VInt n /\ r = MrInt n).
Proof.
  split.
  - destruct v as [|t|n|b|]; cbn [decode_max_row_count]; try discriminate.
    + intros H. injection H as <-. left. split; reflexivity.
    + destruct (upper_is 77 78 82 t) eqn:U; [|discriminate]. intros H. injection H as <-.
      right. left. exists t. split; [reflexivity|]. split; [apply upper_is_iff; exact U | reflexivity].
    + intros H. injection H as <-. right. right. exists n. split; reflexivity.
  - intros [[-> ->] | [(t & -> & H & ->) | (n & -> & ->)]]; cbn [decode_max_row_count]; try reflexivity.
    apply upper_is_iff in H. rewrite H. reflexivity.
Qed.
(* everything else - true and false (the repaired defect), a number written as a string, a float, a list - is a ValueError *)
Lemma decode_rows_rejects v e : decode_max_row_count v = inr e -> e = EValue.
Proof.
  destruct v as [|t|n|b|]; cbn [decode_max_row_count]; try discriminate; try (intros H; injection H as <-; reflexivity).
  destruct (upper_is 77 78 82 t); [discriminate|]. intros H; injection H as <-; reflexivity.
Qed.
Lemma decode_rows_bool b : decode_max_row_count (VBool b) = inr EValue.
Proof. reflexivity. Qed.
Lemma decode_rows_digits t : Forall ascii_digit t -> decode_max_row_count (VStr t) = inr EValue.
Proof.
  intros H. cbn [decode_max_row_count]. destruct (upper_is 77 78 82 t) eqn:U; [|reflexivity].
  apply upper_is_iff in U. inversion U as [|k c ? ? Hc _]; subst. inversion H as [|? ? D _]; subst.
  unfold ascii_digit in D. lia.
Qed.

(* ---- disable_fill_line_gap, disable_line_padding ---- *)
(* ttconv.config.decode_bool lets through exactly the two JSON booleans and returns them; null, 0, 1, "true", "false",
   "no" are ValueErrors *)
Lemma decode_bool_accepts v b : decode_bool v = inl b <-> v = VBool b.
Proof.
  split; [|intros ->; reflexivity]. destruct v; cbn [decode_bool]; try discriminate. intros H; injection H as <-; reflexivity.
Qed.
Lemma decode_bool_rejects v e : decode_bool v = inr e <-> e = EValue /\ forall b, v <> VBool b.
Proof.
  split.
  - destruct v; cbn [decode_bool]; try discriminate; intros H; injection H as <-; (split; [reflexivity | intros b'; discriminate]).
  - intros [-> H]. destruct v; cbn [decode_bool]; try reflexivity. exfalso. exact (H b eq_refl).
Qed.

(* ---- the whole dictionary ---- *)
(* STLReaderConfiguration.parse returns a configuration exactly when every key that is present holds a value its decoder
   accepts, and the configuration holds the decoded values (absent keys: False / None) *)
Lemma parse_config_accepts fill start pad rows cfg :
  parse_config fill start pad rows = inl cfg <->
  exists nofill st nopad r,
    decode_bool (dict_get fill (VBool false)) = inl nofill /\ decode_start_tc (dict_get start VNull) = inl st /\
    decode_bool (dict_get pad (VBool false)) = inl nopad /\ decode_max_row_count (dict_get rows VNull) = inl r /\
    cfg = mkConfig st r nofill nopad None.
Proof.
  unfold parse_config. split.
  - destruct (decode_bool (dict_get fill _)) as [nofill|]; [|discriminate].
    destruct (decode_start_tc _) as [st|]; [|discriminate]. destruct (decode_bool (dict_get pad _)) as [nopad|]; [|discriminate].
    destruct (decode_max_row_count _) as [r|]; [|discriminate]. intros H. injection H as <-.
    exists nofill, st, nopad, r. repeat split.
  - intros (nofill & st & nopad & r & -> & -> & -> & -> & ->). reflexivity.
Qed.
Lemma parse_config_empty : parse_config None None None None = inl (mkConfig StNone MrNone false false None).
Proof. reflexivity. Qed.
(* a rejected dictionary is rejected with ValueError, whatever the values are (no other exception class is left since the
   repair of start-tc-non-string) *)
Lemma parse_config_errors fill start pad rows e : parse_config fill start pad rows = inr e -> e = EValue.
Proof.
  unfold parse_config.
  destruct (decode_bool (dict_get fill _)) as [nofill|e1] eqn:E1.
  2:{ intros H. injection H as <-. apply decode_bool_rejects in E1. tauto. }
  destruct (decode_start_tc _) as [st|e2] eqn:E2.
  2:{ intros H. injection H as <-. apply decode_start_rejects in E2. tauto. }
  destruct (decode_bool (dict_get pad _)) as [nopad|e3] eqn:E3.
  2:{ intros H. injection H as <-. apply decode_bool_rejects in E3. tauto. }
  destruct (decode_max_row_count _) as [r|e4] eqn:E4; [discriminate|].
  intros H. injection H as <-. exact (decode_rows_rejects _ _ E4).
Qed.
(* a configuration that STLReaderConfiguration.parse returns never makes the reader fail on a file of 1024 + 128 k
   bytes: ValueError in DataFile.__init__ (SmpteTimeCode.parse of the configured start) cannot happen *)
Lemma parse_config_reader_total fill start pad rows cfg file k :
  parse_config fill start pad rows = inl cfg -> length file = (1024 + 128 * k)%nat -> exists d, reader_model file cfg = Ok d.
Proof.
  intros H Hl. apply parse_config_accepts in H. destruct H as (nofill & st & nopad & r & _ & Hs & _ & _ & ->).
  apply (reader_total file _ k Hl). cbn [cf_start]. intros t ->. exact (decode_start_parses _ t Hs).
Qed.
