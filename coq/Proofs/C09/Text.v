(* C09: text field + character decoding together: what tf.to_model appends for a text field under the CCT's decoder
   is what the specification prescribes with the standard's code table, outside the two recorded findings. *)
From TT Require Import Base.Prelude Model.Iso6937 Model.StlTf Model.StlTriggers Spec.Ebu3264Spec.
From TT Require Import Proofs.C09.Tables Proofs.C09.TextField.

Lemma existsb_a4_false l : Forall (fun b => b <> 164) l -> trigger_a4 l = false.
Proof.
  induction 1 as [|b l Hb _ IH]; [reflexivity|]. cbn [trigger_a4 existsb].
  destruct (b =? 164) eqn:E; [apply Z.eqb_eq in E; contradiction | exact IH].
Qed.
Lemma a4_false_forall l : trigger_a4 l = false -> Forall (fun b => b <> 164) l.
Proof.
  induction l as [|b l IH]; [constructor|]. cbn [trigger_a4 existsb]. intros H. apply orb_false_iff in H as [H1 H2].
  constructor; [intros ->; discriminate | apply IH, H2].
Qed.

Lemma text_partial cct tele bs : Forall is_byte bs -> trigger_blank_row bs = false -> trigger_a4_cct cct bs = false ->
  map piece_of_leaf (tf_model (decoder_of_cct cct) tele bs) = tf_spec (decoder_spec cct) tele bs.
Proof.
  intros Hb Hbr Ha. rewrite (tf_refines _ _ _ Hbr).
  apply (tf_spec_agree (fun b => is_byte b /\ (latin_cct cct = true -> b <> 164))).
  - intros l Hl. apply decoder_agrees.
    + eapply Forall_impl; [|exact Hl]. intros b [H _]; exact H.
    + unfold trigger_a4_cct. destruct (latin_cct cct) eqn:El; [|reflexivity]. cbn [andb].
      apply existsb_a4_false. eapply Forall_impl; [|exact Hl]. intros b [_ H]; exact (H eq_refl).
  - split; [unfold is_byte; lia | intros _; discriminate].
  - unfold trigger_a4_cct in Ha. destruct (latin_cct cct) eqn:El.
    + cbn [andb] in Ha. apply a4_false_forall in Ha.
      rewrite Forall_forall in *. intros b Hin. split; [apply Hb, Hin | intros _; apply Ha, Hin].
    + eapply Forall_impl; [|exact Hb]. intros b H. split; [exact H | discriminate].
Qed.
