(* C09: text field + character decoding together: what tf.to_model appends for a text field under the CCT's decoder
   is what the specification prescribes with the standard's code table, for every byte string (the two findings that
   used to qualify this, blank-row-dropped and iso6937-a4, were repaired). *)
From TT Require Import Base.Prelude Model.Iso6937 Model.StlTf Model.StlTriggers Spec.Ebu3264Spec.
From TT Require Import Proofs.C09.Tables Proofs.C09.TextField.

Lemma text_full cct tele bs : Forall is_byte bs ->
  map piece_of_leaf (tf_model (decoder_of_cct cct) tele bs) = tf_spec (decoder_spec cct) tele bs.
Proof.
  intros Hb. rewrite tf_refines.
  apply (tf_spec_agree is_byte).
  - intros l Hl. apply decoder_agrees, Hl.
  - unfold is_byte; lia.
  - exact Hb.
Qed.
