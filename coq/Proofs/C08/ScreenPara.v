(* C08, display simulation, part 3: the relation between a caption of the reader and a memory of the reference
   decoder (same cells on the same rows and columns, blank cells being transparent or spaces), and its preservation
   by the paragraph operations of the pop-on protocol. *)
From Coq Require Import QArith.
From TT Require Import Base.Prelude Base.SccTypes Base.SccDoc Gen.SccTables Model.SccWord Model.TimeCode Model.SccReader Spec.Cea608Screen.
From TT Require Import Proofs.C08.Text Proofs.C08.ScreenMem Proofs.C08.ScreenLine.
Open Scope Z_scope.

(* ---- cell lists ---- *)
Lemma Forall2_ceqv_nth A B k : Forall2 ceqv A B -> ceqv (nth k A blank) (nth k B blank).
Proof. intros H. revert k. induction H; intros [|k]; cbn; auto using ceqv_refl. Qed.
Lemma Forall2_ceqv_refl A : Forall2 ceqv A A.
Proof. induction A; constructor; auto using ceqv_refl. Qed.
Lemma Forall2_ceqv_app A B C D : Forall2 ceqv A B -> Forall2 ceqv C D -> Forall2 ceqv (A ++ C) (B ++ D).
Proof. intros H. induction H; cbn; auto. Qed.
Lemma Forall2_length {X Y} (R : X -> Y -> Prop) A B : Forall2 R A B -> length A = length B.
Proof. induction 1; cbn; congruence. Qed.
Lemma lcell_cells l c : lcell l c = if c <? l_indent l then blank else nth (Z.to_nat (c - l_indent l)) (lcells l) blank.
Proof. reflexivity. Qed.
(* a line whose cells are equivalent to those of another line at the same indent *)
Lemma lcell_eqv l l' c : l_indent l' = l_indent l -> Forall2 ceqv (lcells l) (lcells l') -> ceqv (lcell l c) (lcell l' c).
Proof. intros Hi H. unfold lcell. rewrite Hi. destruct (c <? l_indent l); [apply ceqv_refl|]. now apply Forall2_ceqv_nth. Qed.

(* ---- the relation ---- *)
Definition pristine (p : para) : Prop := p_lines p = [(0, line_new 0 0)] /\ p_cur p = Att 0.
Definition nobegin (l : cline) : Prop := Forall (fun t => t_begin t = None) (l_texts l).
(* st: the caption style of the paragraph (pop-on for the buffered / flipped captions, roll-up for a roll-up caption) *)
Section Style.
Context {st : Z}.
Record para_mem (p : para) (m : mem) (used : list Z) : Prop := {
  pm_cells : forall r c, in_rows r -> in_cols c -> ceqv (mcell m r c) (pcell p r c);
  pm_line : forall r l, dget r (p_lines p) = Some l -> l_row l = r /\ 0 <= l_indent l /\ l_indent l + line_length l <= 32 /\ nobegin l;
  pm_keys : pristine p \/ (forall r l, dget r (p_lines p) = Some l -> in_rows r /\ In r used);
  pm_nodup : NoDup (map fst (p_lines p));
  pm_cur : exists r l, p_cur p = Att r /\ dget r (p_lines p) = Some l;
  pm_style : p_style p = st }.

Lemma para_mem_new m u : (forall r c, is_blank (mcell m r c) = true) -> para_mem (para_new st) m u.
Proof.
  intros Hm. split.
  - intros r c Hr Hc. unfold pcell, para_new. cbn [p_lines dget]. unfold in_rows in Hr. destruct (r =? 0) eqn:E; [lia|].
    apply ceqv_blank; [apply Hm|reflexivity].
  - intros r l. unfold para_new. cbn [p_lines dget]. destruct (r =? 0) eqn:E; [|discriminate]. intros H; inversion H; subst.
    cbn. repeat split; try lia. repeat constructor.
  - left. split; reflexivity.
  - cbn. constructor; [intros []|constructor].
  - exists 0, (line_new 0 0). split; reflexivity.
  - reflexivity.
Qed.
(* the memory may be replaced by one showing the same cells; the set of used rows may grow *)
Lemma para_mem_ext p m m' u u' : para_mem p m u -> (forall r c, in_rows r -> in_cols c -> mcell m' r c = mcell m r c) -> incl u u' -> para_mem p m' u'.
Proof.
  intros [A B C D E F] Hm Hu. split; try assumption.
  - intros r c Hr Hc. rewrite Hm by assumption. now apply A.
  - destruct C as [C|C]; [now left|right]. intros r l H. destruct (C r l H). split; [assumption|now apply Hu].
Qed.

(* one row of the caption is replaced; the memory changes on that row only *)
Lemma para_mem_update p m u r l l' m' : para_mem p m u -> dget r (p_lines p) = Some l -> in_rows r -> In r u ->
  l_row l' = r -> 0 <= l_indent l' -> l_indent l' + line_length l' <= 32 -> nobegin l' ->
  (forall r' c', in_rows r' -> in_cols c' -> r' <> r -> mcell m' r' c' = mcell m r' c') ->
  (forall c', in_cols c' -> ceqv (mcell m' r c') (lcell l' c')) ->
  para_mem (put_line p r l') m' u.
Proof.
  intros [A B C D E F] Hg Hr Hu Hrow Hi Hlen Hnb Hother Hrowcells. split.
  - intros r' c' Hr' Hc'. rewrite pcell_put_line. destruct (r' =? r) eqn:Er.
    + assert (r' = r) by lia. subst r'. now apply Hrowcells.
    + rewrite Hother by (try assumption; lia). now apply A.
  - intros r' l0. rewrite dget_put_line. destruct (r' =? r) eqn:Er.
    + intros H; inversion H; subst l0. assert (r' = r) by lia. subst r'. repeat split; assumption.
    + apply B.
  - right. intros r' l0. rewrite dget_put_line. destruct (r' =? r) eqn:Er.
    + intros _. assert (r' = r) by lia. subst r'. split; assumption.
    + destruct C as [[C1 C2]|C]; [|apply C].
      rewrite C1 in Hg. cbn in Hg. destruct (r =? 0) eqn:E0; [unfold in_rows in Hr; lia|discriminate].
  - rewrite (keys_put_line p r l' l Hg). exact D.
  - destruct E as (r0 & l0 & E1 & E2). exists r0. rewrite cur_put_line. 
    destruct (r0 =? r) eqn:Er.
    + exists l'. split; [exact E1|]. rewrite dget_put_line, Er. reflexivity.
    + exists l0. split; [exact E1|]. rewrite dget_put_line, Er. exact E2.
  - exact F.
Qed.
Lemma para_mem_set_cursor p m u x : para_mem p m u -> para_mem (set_cursor p x) m u.
Proof. intros [A B C D E F]. split; assumption. Qed.

(* ---- set_cursor_at(row, indent) for a row that holds no line (PAC to a fresh row) ---- *)
Definition fresh_lines (p : para) (r0 : Z) (l0 : cline) : list (Z * cline) :=
  if line_is_empty l0 then ddel r0 (p_lines p) else p_lines p.
Definition at_fresh (p : para) (r0 : Z) (l0 : cline) (row ind0 : Z) : para :=
  set_cur (set_plines (set_cursor p (row, ind0)) (dset row (line_new row ind0) (fresh_lines p r0 l0))) (Att row).
Lemma line_set_cursor_new r i : line_set_cursor (line_new r i) 0 = line_new r i.
Proof. exact (line_set_cursor_at (line_new r i) [] text_new (line_at_new r i)). Qed.
Lemma set_cursor_at_fresh p r0 l0 row ind' : p_cur p = Att r0 -> dget r0 (p_lines p) = Some l0 -> l_row l0 = r0 ->
  dget row (fresh_lines p r0 l0) = None ->
  set_cursor_at p row ind' = at_fresh p r0 l0 row (if ind' =? -1 then 0 else ind').
Proof.
  intros Hc Hg Hr Hnone. unfold set_cursor_at. rewrite (cur_line_at p r0 l0 Hc Hg), Hr, Hg.
  unfold at_fresh, fresh_lines in *. set (ind0 := if ind' =? -1 then 0 else ind').
  destruct (line_is_empty l0) eqn:Eemp.
  - cbn [p_lines set_cur set_plines set_cursor]. rewrite Hnone. unfold new_caption_line. cbn [p_cursor set_cursor set_cur set_plines p_lines].
    destruct (ind' =? -1) eqn:Ei.
    + destruct p; reflexivity.
    + unfold update_line_cursor.
      match goal with |- context [cur_line ?q] => set (q4 := q) end.
      assert (Hc4 : p_cur q4 = Att row) by reflexivity.
      assert (Hg4 : dget row (p_lines q4) = Some (line_new row ind0)) by (unfold q4; cbn [p_lines set_cur set_plines]; apply dget_dset_same).
      rewrite (cur_line_at q4 row _ Hc4 Hg4). change (snd (p_cursor q4)) with ind0. cbn [l_indent line_new].
      rewrite Z.sub_diag. change (0 <? 0) with false. cbv iota. rewrite (cur_line_at q4 row _ Hc4 Hg4).
      change (line_length (line_new row ind0)) with 0. change (0 <? 0 - 0) with false. cbv iota.
      rewrite (upd_cur_line_at q4 row _ _ Hc4 Hg4). rewrite line_set_cursor_new.
      unfold put_line, q4. cbn [p_lines set_cur set_plines set_cursor]. rewrite dset_dset. destruct p; reflexivity.
  - cbn [p_lines set_cur set_plines set_cursor]. rewrite Hnone. unfold new_caption_line. cbn [p_cursor set_cursor set_cur set_plines p_lines].
    destruct (ind' =? -1) eqn:Ei.
    + destruct p; reflexivity.
    + unfold update_line_cursor.
      match goal with |- context [cur_line ?q] => set (q4 := q) end.
      assert (Hc4 : p_cur q4 = Att row) by reflexivity.
      assert (Hg4 : dget row (p_lines q4) = Some (line_new row ind0)) by (unfold q4; cbn [p_lines set_cur set_plines]; apply dget_dset_same).
      rewrite (cur_line_at q4 row _ Hc4 Hg4). change (snd (p_cursor q4)) with ind0. cbn [l_indent line_new].
      rewrite Z.sub_diag. change (0 <? 0) with false. cbv iota. rewrite (cur_line_at q4 row _ Hc4 Hg4).
      change (line_length (line_new row ind0)) with 0. change (0 <? 0 - 0) with false. cbv iota.
      rewrite (upd_cur_line_at q4 row _ _ Hc4 Hg4). rewrite line_set_cursor_new.
      unfold put_line, q4. cbn [p_lines set_cur set_plines set_cursor]. rewrite dset_dset. destruct p; reflexivity.
Qed.
Lemma dget_fresh_lines p r0 l0 r : NoDup (map fst (p_lines p)) ->
  dget r (fresh_lines p r0 l0) = if line_is_empty l0 && (r =? r0) then None else dget r (p_lines p).
Proof.
  intros Hn. unfold fresh_lines. destruct (line_is_empty l0); [|reflexivity]. cbn [andb]. now apply dget_ddel.
Qed.
Lemma para_mem_at_fresh p m u row ind0 : para_mem p m u -> ~ In row u -> in_rows row -> 0 <= ind0 <= 32 ->
  exists r0 l0, p_cur p = Att r0 /\ dget r0 (p_lines p) = Some l0 /\ l_row l0 = r0 /\ dget row (fresh_lines p r0 l0) = None /\
    para_mem (at_fresh p r0 l0 row ind0) m (row :: u) /\ para_at (at_fresh p r0 l0 row ind0) row ind0 (line_new row ind0) [] text_new.
Proof.
  intros [A B C D E F] Hnu Hrow Hind. destruct E as (r0 & l0 & Hc & Hg). exists r0, l0.
  destruct (B r0 l0 Hg) as (Hr0 & _).
  assert (Hnone0 : dget row (p_lines p) = None \/ (line_is_empty l0 = true /\ row = r0)).
  { destruct C as [[C1 C2]|C].
    - rewrite C2 in Hc. injection Hc as Hc0. rewrite <- Hc0 in *. rewrite C1 in *. cbn in Hg. injection Hg as <-.
      left. cbn. unfold in_rows in Hrow. destruct (row =? 0) eqn:E; [lia|reflexivity].
    - left. destruct (dget row (p_lines p)) as [lx|] eqn:Ex; [|reflexivity]. destruct (C row lx Ex) as [_ Hin]. contradiction. }
  assert (Hnone : dget row (fresh_lines p r0 l0) = None).
  { rewrite dget_fresh_lines by exact D. destruct Hnone0 as [H|[H1 H2]].
    - rewrite H. destruct (_ && _); reflexivity.
    - subst row. rewrite H1, Z.eqb_refl. reflexivity. }
  split; [exact Hc|]. split; [exact Hg|]. split; [exact Hr0|]. split; [exact Hnone|].
  assert (Hget : forall r, dget r (p_lines (at_fresh p r0 l0 row ind0)) =
                           if r =? row then Some (line_new row ind0) else if line_is_empty l0 && (r =? r0) then None else dget r (p_lines p)).
  { intros r. unfold at_fresh. cbn [p_lines set_cur set_plines]. rewrite dget_dset. destruct (r =? row); [reflexivity|]. now apply dget_fresh_lines. }
  split.
  - split.
    + intros r c Hr Hc'. unfold pcell. rewrite Hget. destruct (r =? row) eqn:Er.
      * assert (r = row) by lia. subst r. rewrite lcell_empty by reflexivity.
        specialize (A row c Hr Hc'). unfold pcell in A. destruct Hnone0 as [H|[H1 H2]].
        -- rewrite H in A. exact A.
        -- subst row. rewrite Hg in A. rewrite lcell_empty in A; [exact A|]. unfold line_is_empty in H1. lia.
      * specialize (A r c Hr Hc'). unfold pcell in A. destruct (line_is_empty l0 && (r =? r0)) eqn:E2; [|exact A].
        apply andb_true_iff in E2 as [E3 E4]. assert (r = r0) by lia. subst r. rewrite Hg in A.
        rewrite lcell_empty in A; [exact A|]. unfold line_is_empty in E3. lia.
    + intros r l. rewrite Hget. destruct (r =? row) eqn:Er.
      * intros H; inversion H; subst l. assert (r = row) by lia. subst r. cbn. repeat split; try lia. repeat constructor.
      * destruct (_ && _); [discriminate|]. apply B.
    + right. intros r l. rewrite Hget. destruct (r =? row) eqn:Er.
      * intros _. assert (r = row) by lia. subst r. split; [exact Hrow|now left].
      * destruct (line_is_empty l0 && (r =? r0)) eqn:E2; [discriminate|]. intros H.
        destruct C as [[C1 C2]|C].
        -- rewrite C2 in Hc. injection Hc as Hc0. rewrite <- Hc0 in *. rewrite C1 in *. cbn in Hg. injection Hg as <-. cbn in H.
           assert (E0 : (r =? 0) = true) by (destruct (r =? 0); [reflexivity|discriminate H]).
           rewrite E0 in E2. cbn in E2. discriminate E2.
        -- destruct (C r l H). split; [assumption|now right].
    + unfold at_fresh. cbn [p_lines set_cur set_plines]. apply nodup_dset_new; [exact Hnone|].
      unfold fresh_lines. destruct (line_is_empty l0); [now apply nodup_ddel|exact D].
    + exists row, (line_new row ind0). split; [reflexivity|]. rewrite Hget, Z.eqb_refl. reflexivity.
    + exact F.
  - split; [reflexivity|]. split; [rewrite Hget, Z.eqb_refl; reflexivity|]. split; [apply line_at_new|].
    split; [reflexivity|]. split; [reflexivity|]. cbn. lia.
Qed.

(* ---- the cells of a line that extends another one ---- *)
Lemma lcell_prefix l l2 A B : l_indent l2 = l_indent l -> lcells l2 = A ++ B -> Forall2 ceqv (lcells l) A ->
  forall c, c < l_indent l + line_length l -> ceqv (lcell l c) (lcell l2 c).
Proof.
  intros Hi Hc HF c Hlt. unfold lcell. rewrite Hi. destruct (c <? l_indent l) eqn:E; [apply ceqv_refl|].
  rewrite Hc. pose proof (Forall2_length _ _ _ HF) as HL. pose proof (lcells_length l) as HL2. unfold zlen in HL2.
  rewrite app_nth1 by lia. now apply Forall2_ceqv_nth.
Qed.
Lemma lcell_suffix l l2 A B : l_indent l2 = l_indent l -> lcells l2 = A ++ B -> zlen A = line_length l ->
  forall c, l_indent l + line_length l <= c -> lcell l2 c = nth (Z.to_nat (c - (l_indent l + line_length l))) B blank.
Proof.
  intros Hi Hc HL c Hge. unfold lcell. rewrite Hi. pose proof (line_length_nonneg l).
  destruct (c <? l_indent l) eqn:E; [lia|]. rewrite Hc. unfold zlen in HL. rewrite app_nth2 by lia. f_equal. lia.
Qed.

(* ---- writing characters with the pen: the decoder's side ---- *)
Fixpoint write_cells (m : mem) (r c : Z) (f : Z -> cell) (chs : list Z) : mem :=
  match chs with [] => m | ch :: chs' => write_cells (cell_set m r c (f ch)) r (c + 1) f chs' end.
Lemma write_cells_wf chs : forall m r c f, mem_wf m -> mem_wf (write_cells m r c f chs).
Proof. induction chs as [|ch chs IH]; intros m r c f H; cbn; [exact H|]. apply IH. now apply mem_wf_cell_set. Qed.
Lemma mcell_write_cells chs : forall m r c f r' c', mem_wf m -> in_rows r -> 0 <= c -> c + zlen chs <= 32 -> 0 <= c' ->
  mcell (write_cells m r c f chs) r' c' =
  if (r' =? r) && (c <=? c') && (c' <? c + zlen chs) then f (nth (Z.to_nat (c' - c)) chs 0) else mcell m r' c'.
Proof.
  induction chs as [|ch chs IH]; intros m r c f r' c' Hw Hr Hc Hlen Hc'; cbn [write_cells].
  - unfold zlen. cbn. replace ((r' =? r) && (c <=? c') && (c' <? c + 0)) with false by lia. reflexivity.
  - assert (Hz : zlen (ch :: chs) = zlen chs + 1) by (unfold zlen; cbn [length]; lia). rewrite Hz in *.
    pose proof (zlen_nonneg chs).
    rewrite IH; [|now apply mem_wf_cell_set|exact Hr|lia|lia|exact Hc'].
    rewrite mcell_cell_set; [|exact Hw|exact Hr|unfold in_cols; lia|exact Hc'].
    destruct (r' =? r) eqn:Er; cbn [andb]; [|reflexivity].
    destruct (c' =? c) eqn:Ec.
    + assert (c' = c) by lia. subst c'. replace (c + 1 <=? c) with false by lia. cbn [andb].
      replace ((c <=? c) && (c <? c + (zlen chs + 1))) with true by lia. rewrite Z.sub_diag. reflexivity.
    + destruct ((c + 1 <=? c') && (c' <? c + 1 + zlen chs)) eqn:E1.
      * replace ((c <=? c') && (c' <? c + (zlen chs + 1))) with true by lia.
        replace (Z.to_nat (c' - c)) with (S (Z.to_nat (c' - (c + 1)))) by lia. reflexivity.
      * replace ((c <=? c') && (c' <? c + (zlen chs + 1))) with false by lia. reflexivity.
Qed.
Definition puts (s : scr) (chs : list Z) : scr := fold_left put chs s.
Definition pen_cell (s : scr) (ch : Z) : cell := mkCell ch (pcol s) (pita s) (pund s).
Lemma puts_pop chs : forall s, md s = PopOn -> ccol s + zlen chs <= 31 ->
  puts s chs = set_pos (set_nond s (write_cells (nond s) (crow s) (ccol s) (pen_cell s) chs)) (crow s) (ccol s + zlen chs).
Proof.
  induction chs as [|ch chs IH]; intros s Hm Hlen.
  - unfold puts, zlen. cbn. rewrite Z.add_0_r. destruct s; reflexivity.
  - assert (Hz : zlen (ch :: chs) = zlen chs + 1) by (unfold zlen; cbn [length]; lia). rewrite Hz in *.
    pose proof (zlen_nonneg chs).
    unfold puts. cbn [fold_left]. fold (puts (put s ch) chs). rewrite (put_pop s ch Hm).
    replace (Z.min 31 (ccol s + 1)) with (ccol s + 1) by lia.
    rewrite IH; [|exact Hm|cbn; lia]. cbn [write_cells]. destruct s; unfold set_pos, set_nond, pen_cell; cbn. f_equal. lia.
Qed.

(* ---- the row under the cursor is extended ---- *)
Lemma para_at_row p m u r col l ts t : para_mem p m u -> para_at p r col l ts t -> in_rows r ->
  In r u /\ 0 <= l_indent l /\ nobegin l /\ (forall c, in_cols c -> ceqv (mcell m r c) (lcell l c)).
Proof.
  intros [A B C D E F] (Hc & Hg & Hl & Hr & Hcur & Hcol) Hin.
  destruct (B r l Hg) as (_ & Hi & _ & Hnb). split; [|split; [exact Hi|split; [exact Hnb|]]].
  - destruct C as [[C1 C2]|C]; [|now destruct (C r l Hg)].
    rewrite C1 in Hg. cbn in Hg. unfold in_rows in Hin. destruct (r =? 0) eqn:E0; [lia|discriminate].
  - intros c Hcc. specialize (A r c Hin Hcc). unfold pcell in A. now rewrite Hg in A.
Qed.
Lemma nth_map_cell (f : Z -> cell) W k : (k < length W)%nat -> nth k (map f W) blank = f (nth k W 0).
Proof. intros H. rewrite (nth_indep _ blank (f 0)) by (rewrite map_length; exact H). apply map_nth. Qed.
(* characters W are written with f at the cursor; the new line shows the old cells followed by the written ones *)
Lemma para_extend p m u r col l ts t l2 f W A B : para_mem p m u -> para_at p r col l ts t -> in_rows r -> 0 <= col ->
  col + zlen W <= 31 -> mem_wf m -> l_row l2 = r -> l_indent l2 = l_indent l -> nobegin l2 ->
  lcells l2 = A ++ B -> Forall2 ceqv (lcells l) A -> Forall2 ceqv (map f W) B ->
  para_mem (put_line p r l2) (write_cells m r col f W) u.
Proof.
  intros Hpm Hat Hin Hcol Hlen Hwf Hrow Hind Hnb Hcells HA HB.
  destruct (para_at_row p m u r col l ts t Hpm Hat Hin) as (Hu & Hi & _ & Hold).
  destruct Hat as (Hc & Hg & Hl & Hr & Hcur & Hcoleq).
  pose proof (Forall2_length _ _ _ HA) as LA. pose proof (Forall2_length _ _ _ HB) as LB. rewrite map_length in LB.
  pose proof (lcells_length l) as Ll. pose proof (lcells_length l2) as Ll2. unfold zlen in Ll, Ll2.
  assert (Elen2 : line_length l2 = line_length l + zlen W).
  { rewrite <- Ll2, Hcells, app_length, <- LA, <- LB, Nat2Z.inj_add, Ll. unfold zlen. reflexivity. }
  pose proof (zlen_nonneg W). pose proof (line_length_nonneg l).
  apply (para_mem_update p m u r l l2); try assumption.
  - rewrite Hind. exact Hi.
  - rewrite Hind, Elen2. lia.
  - intros r' c' Hr' Hc' Hne. rewrite mcell_write_cells; try assumption; [|lia|unfold in_cols in Hc'; lia].
    replace (r' =? r) with false by lia. reflexivity.
  - intros c' Hc'. rewrite mcell_write_cells; try assumption; [|lia|unfold in_cols in Hc'; lia]. rewrite Z.eqb_refl. cbn [andb].
    destruct (c' <? col) eqn:E1.
    + replace ((col <=? c') && (c' <? col + zlen W)) with false by lia.
      eapply ceqv_trans; [apply (Hold c' Hc')|]. apply (lcell_prefix l l2 A B Hind Hcells HA). lia.
    + rewrite (lcell_suffix l l2 A B Hind Hcells) by (unfold zlen; lia). rewrite <- Hcoleq.
      destruct (c' <? col + zlen W) eqn:E2.
      * replace (col <=? c') with true by lia. cbn [andb].
        eapply ceqv_trans; [|apply (Forall2_ceqv_nth _ _ _ HB)]. rewrite nth_map_cell by (unfold zlen in *; lia). apply ceqv_refl.
      * replace ((col <=? c') && false) with false by lia. rewrite nth_overflow by (unfold zlen in *; lia).
        apply ceqv_blank; [|reflexivity]. apply (ceqv_blank_l _ (lcell l c')); [apply (Hold c' Hc')|].
        rewrite lcell_beyond by lia. reflexivity.
Qed.
(* the cursor moves right over cells that stay empty: the new line shows the old cells followed by blanks *)
Lemma para_extend_blank p m u r col l ts t l2 A B : para_mem p m u -> para_at p r col l ts t -> in_rows r ->
  l_row l2 = r -> l_indent l2 = l_indent l -> nobegin l2 -> l_indent l2 + line_length l2 <= 32 ->
  lcells l2 = A ++ B -> Forall2 ceqv (lcells l) A -> Forall (fun x => is_blank x = true) B ->
  para_mem (put_line p r l2) m u.
Proof.
  intros Hpm Hat Hin Hrow Hind Hnb Hlen Hcells HA HB.
  destruct (para_at_row p m u r col l ts t Hpm Hat Hin) as (Hu & Hi & _ & Hold).
  destruct Hat as (Hc & Hg & Hl & Hr & Hcur & Hcoleq).
  pose proof (Forall2_length _ _ _ HA) as LA. pose proof (lcells_length l) as Ll. unfold zlen in Ll.
  pose proof (line_length_nonneg l).
  apply (para_mem_update p m u r l l2); try assumption.
  - rewrite Hind. exact Hi.
  - intros; reflexivity.
  - intros c' Hc'. destruct (c' <? col) eqn:E1.
    + eapply ceqv_trans; [apply (Hold c' Hc')|]. apply (lcell_prefix l l2 A B Hind Hcells HA). lia.
    + rewrite (lcell_suffix l l2 A B Hind Hcells) by (unfold zlen; lia).
      apply ceqv_blank.
      * apply (ceqv_blank_l _ (lcell l c')); [apply (Hold c' Hc')|]. rewrite lcell_beyond by lia. reflexivity.
      * destruct (nth_in_or_default (Z.to_nat (c' - (l_indent l + line_length l))) B blank) as [Hn|Hn]; [|rewrite Hn; reflexivity].
        rewrite Forall_forall in HB. now apply HB.
Qed.

(* ---- process_text on a caption: append_text, then the pen's attributes on the current text ---- *)
Lemma put_line_over p r l1 x l2 : put_line (set_cursor (put_line p r l1) x) r l2 = set_cursor (put_line p r l2) x.
Proof. unfold put_line. cbn [p_lines set_cursor set_plines]. rewrite dset_dset. destruct p; reflexivity. Qed.
Lemma para_at_set_cursor_put p r col l ts t l2 ts2 t2 col2 : para_at p r col l ts t -> line_at l2 ts2 t2 -> l_row l2 = r ->
  col2 = l_indent l2 + line_length l2 -> para_at (set_cursor (put_line p r l2) (r, col2)) r col2 l2 ts2 t2.
Proof.
  intros (Hc & Hg & Hl & Hr & Hcur & Hcol) Hl2 Hr2 Hcol2. split; [exact Hc|]. split; [cbn [p_lines set_cursor]; rewrite dget_put_line, Z.eqb_refl; reflexivity|].
  split; [exact Hl2|]. split; [exact Hr2|]. split; [reflexivity|exact Hcol2].
Qed.
Definition all_spaces (t : ctext) : Prop := Forall (fun ch => ch = 32) (t_text t).
Lemma tcells_restyle t st' pen : (t_sty t = ts0 /\ all_spaces t) \/ sview (t_sty t) = pen -> sview st' = pen ->
  Forall2 ceqv (tcells t) (map (scell st') (t_text t)).
Proof.
  intros H Hst. unfold tcells. destruct H as [[_ Hsp]|Hv].
  - unfold all_spaces in Hsp. induction Hsp as [|ch tx Hch Htx IH]; cbn; constructor; [|exact IH]. subst ch. apply ceqv_blank; reflexivity.
  - assert (E : forall ch, scell (t_sty t) ch = scell st' ch) by (intros; apply scell_sview; congruence).
    induction (t_text t) as [|ch tx IH]; cbn; constructor; [rewrite E; apply ceqv_refl|exact IH].
Qed.
Lemma para_write p m u r col l ts t colr ita und pc pi pu word :
  para_mem p m u -> para_at p r col l ts t -> in_rows r -> 0 <= col -> col + zlen word <= 31 -> word <> [] -> mem_wf m ->
  (t_sty t = ts0 /\ all_spaces t) \/ sview (t_sty t) = penview colr ita und -> penview colr ita und = (pc, pi, pu) ->
  let t2 := text_set_sty (text_app t word) (pen_apply colr ita und (t_sty t)) in
  let l2 := line_map_last (line_app l ts t word) ts t2 in
  let p2 := set_cursor (put_line p r l2) (r, col + zlen word) in
  upd_cur_text (append_text p word) (fun x => text_set_sty x (pen_apply colr ita und (t_sty x))) = p2 /\
  para_mem p2 (write_cells m r col (fun ch => mkCell ch pc pi pu) word) u /\
  para_at p2 r (col + zlen word) l2 ts t2 /\ sview (t_sty t2) = (pc, pi, pu) /\ t_text t2 = t_text t ++ word.
Proof.
  intros Hpm Hat Hin Hcol Hlen Hw Hwf Helt Hpen. cbv zeta.
  set (st' := pen_apply colr ita und (t_sty t)).
  set (t2 := text_set_sty (text_app t word) st').
  set (l1 := line_app l ts t word). set (l2 := line_map_last l1 ts t2).
  assert (Hst' : sview st' = penview colr ita und).
  { apply pen_apply_view. destruct Helt as [[H _]|H]; [now left|now right]. }
  pose proof Hat as (Hc & Hg & Hl & Hr & Hcur & Hcoleq).
  pose proof (para_at_append p r col l ts t word Hat) as Hat1. fold l1 in Hat1.
  assert (Eq : upd_cur_text (append_text p word) (fun x => text_set_sty x (pen_apply colr ita und (t_sty x))) =
               set_cursor (put_line p r l2) (r, col + zlen word)).
  { rewrite (append_text_at p r col l ts t word Hat Hw). fold l1.
    rewrite (upd_cur_text_at _ r (col + zlen word) l1 ts (text_app t word) _ Hat1). apply put_line_over. }
  assert (Hl2 : line_at l2 ts t2).
  { assert (Et2 : text_len t2 = text_len t + zlen word) by (unfold t2, text_len; cbn [t_text text_set_sty]; apply (text_len_app t word)).
    split; [reflexivity|]. split; [reflexivity|]. split; [rewrite Et2; reflexivity|].
    rewrite line_length_sum. unfold l2, line_map_last, l1, line_app. cbn [l_texts l_cursor]. rewrite sum_len_app. cbn [sum_len].
    rewrite Et2, (line_at_length l ts t Hl). lia. }
  assert (Elen2 : line_length l2 = line_length l + zlen word).
  { rewrite (line_at_length l2 ts t2 Hl2), (line_at_length l ts t Hl). unfold t2, text_len. cbn [t_text text_set_sty text_app].
    unfold zlen. rewrite app_length. lia. }
  split; [exact Eq|]. split; [|split; [|split; [|reflexivity]]].
  - apply para_mem_set_cursor.
    destruct (para_at_row p m u r col l ts t Hpm Hat Hin) as (_ & _ & Hnb & _).
    apply (para_extend p m u r col l ts t l2 (fun ch => mkCell ch pc pi pu) word
             (flat_map tcells ts ++ map (scell st') (t_text t)) (map (scell st') word)); try assumption.
    + reflexivity.
    + unfold nobegin in *. unfold l2, line_map_last. cbn [l_texts]. destruct Hl as (E1 & _). rewrite E1 in Hnb.
      apply Forall_app in Hnb as [Hn1 Hn2]. apply Forall_app. split; [exact Hn1|]. inversion Hn2; subst. constructor; [assumption|constructor].
    + rewrite (lcells_at l2 ts t2) by reflexivity. unfold t2, tcells. cbn [t_text t_sty text_set_sty text_app].
      rewrite map_app, app_assoc. reflexivity.
    + rewrite (lcells_at l ts t) by apply Hl. apply Forall2_ceqv_app; [apply Forall2_ceqv_refl|].
      apply (tcells_restyle t st' (penview colr ita und)); assumption.
    + assert (E : forall ch, mkCell ch pc pi pu = scell st' ch).
      { intros ch. unfold scell. unfold sview in Hst'. rewrite Hpen in Hst'. injection Hst' as -> -> ->. reflexivity. }
      induction word as [|ch wd IH]; cbn; constructor; [rewrite E; apply ceqv_refl|].
      clear -E. induction wd as [|c2 wd IH]; cbn; constructor; [rewrite E; apply ceqv_refl|exact IH].
  - apply (para_at_set_cursor_put p r col l ts t l2 ts t2); try assumption. rewrite Elen2. change (l_indent l2) with (l_indent l). lia.
  - change (t_sty t2) with st'. congruence.
Qed.

(* ---- a space at the cursor (mid-row codes), a new text element ---- *)
Lemma nobegin_app_last l ts t t' l2 : l_texts l = ts ++ [t] -> nobegin l -> t_begin t' = None -> l_texts l2 = ts ++ [t'] -> nobegin l2.
Proof.
  intros E Hnb Hb E2. unfold nobegin in *. rewrite E in Hnb. rewrite E2. apply Forall_app in Hnb as [H1 _].
  apply Forall_app. split; [exact H1|]. constructor; [exact Hb|constructor].
Qed.
Lemma nobegin_last l ts t : l_texts l = ts ++ [t] -> nobegin l -> t_begin t = None.
Proof. intros E Hnb. unfold nobegin in Hnb. rewrite E in Hnb. apply Forall_app in Hnb as [_ H]. now inversion H. Qed.
Lemma para_space p m u r col l ts t f : para_mem p m u -> para_at p r col l ts t -> in_rows r -> 0 <= col -> col + 1 <= 31 ->
  mem_wf m -> is_blank (f 32) = true ->
  let l1 := line_app l ts t [32] in
  let p1 := set_cursor (put_line p r l1) (r, col + 1) in
  append_text p [32] = p1 /\ para_mem p1 (write_cells m r col f [32]) u /\ para_at p1 r (col + 1) l1 ts (text_app t [32]) /\
  is_blank (lcell l1 col) = true.
Proof.
  intros Hpm Hat Hin Hcol Hlen Hwf Hf. cbv zeta. set (l1 := line_app l ts t [32]).
  pose proof Hat as (Hc & Hg & Hl & Hr & Hcur & Hcoleq).
  destruct (para_at_row p m u r col l ts t Hpm Hat Hin) as (_ & _ & Hnb & _).
  assert (Ecells : lcells l1 = lcells l ++ [scell (t_sty t) 32]).
  { rewrite (lcells_at l1 ts (text_app t [32])) by reflexivity. rewrite (lcells_at l ts t) by apply Hl.
    unfold tcells. cbn [t_text t_sty text_app]. rewrite map_app, app_assoc. reflexivity. }
  split; [exact (append_text_at p r col l ts t [32] Hat ltac:(discriminate))|]. split; [|split].
  - apply para_mem_set_cursor.
    apply (para_extend p m u r col l ts t l1 f [32] (lcells l) [scell (t_sty t) 32]); try assumption; try reflexivity.
    + apply (nobegin_app_last l ts t (text_app t [32]) l1 (proj1 Hl) Hnb); [|reflexivity]. exact (nobegin_last l ts t (proj1 Hl) Hnb).
    + apply Forall2_ceqv_refl.
    + cbn. constructor; [|constructor]. apply ceqv_blank; [exact Hf|reflexivity].
  - exact (para_at_append p r col l ts t [32] Hat).
  - rewrite (lcell_suffix l l1 (lcells l) [scell (t_sty t) 32]); try reflexivity; [|exact Ecells|apply lcells_length|lia].
    rewrite <- Hcoleq, Z.sub_diag. reflexivity.
Qed.
Lemma para_newtext p m u r col l ts t : para_mem p m u -> para_at p r col l ts t -> in_rows r ->
  let l1 := line_new_text l ts t in
  let p1 := put_line p r l1 in
  new_caption_text p = p1 /\ para_mem p1 m u /\ para_at p1 r col l1 (ts ++ [t]) text_new /\
  (forall c, lcell l1 c = lcell l c) /\ line_length l1 = line_length l.
Proof.
  intros Hpm Hat Hin. cbv zeta. set (l1 := line_new_text l ts t).
  pose proof Hat as (Hc & Hg & Hl & Hr & Hcur & Hcoleq).
  destruct (para_at_row p m u r col l ts t Hpm Hat Hin) as (_ & _ & Hnb & _).
  assert (Ecells : lcells l1 = lcells l ++ []).
  { unfold lcells, l1, line_new_text. cbn [l_texts]. rewrite (proj1 Hl), !flat_map_app. cbn. now rewrite !app_nil_r. }
  assert (Elen : line_length l1 = line_length l).
  { rewrite !line_length_sum. unfold l1, line_new_text. cbn [l_texts]. rewrite (proj1 Hl), !sum_len_app. cbn. lia. }
  split; [exact (new_caption_text_at p r col l ts t Hat)|]. split; [|split; [|split]].
  - destruct Hpm as [A B C D E F]. destruct (B r l Hg) as (_ & Hi & Hle & _).
    apply (para_extend_blank p m u r col l ts t l1 (lcells l) []); try assumption; try reflexivity.
    + split; try assumption.
    + unfold nobegin in *. unfold l1, line_new_text. cbn [l_texts]. apply Forall_app. split; [rewrite <- (proj1 Hl); exact Hnb|repeat constructor].
    + change (l_indent l1) with (l_indent l). rewrite Elen. exact Hle.
    + apply Forall2_ceqv_refl.
    + constructor.
  - exact (para_at_new_text p r col l ts t Hat).
  - intros c. unfold lcell. change (l_indent l1) with (l_indent l). rewrite Ecells, app_nil_r. reflexivity.
  - exact Elen.
Qed.

(* the memory may be replaced by one that shows equivalent cells *)
Lemma para_mem_eqv p m m' u : para_mem p m u -> (forall r c, in_rows r -> in_cols c -> ceqv (mcell m' r c) (mcell m r c)) -> para_mem p m' u.
Proof.
  intros [A B C D E F] Hm. split; try assumption.
  intros r c Hr Hc. eapply ceqv_trans; [apply (Hm r c Hr Hc)|apply (A r c Hr Hc)].
Qed.
(* the caption's own data only *)
Lemma para_mem_meta p p' m u : para_mem p m u -> p_lines p' = p_lines p -> p_cur p' = p_cur p -> p_style p' = p_style p -> para_mem p' m u.
Proof.
  intros [A B C D E F] E1 E2 E3. split.
  - intros r c. unfold pcell. rewrite E1. apply A.
  - rewrite E1. exact B.
  - unfold pristine. rewrite E1, E2. exact C.
  - rewrite E1. exact D.
  - rewrite E1, E2. exact E.
  - rewrite E3. exact F.
Qed.
Lemma dset_same {A} k (v : A) d : dget k d = Some v -> dset k v d = d.
Proof.
  induction d as [|[k2 v2] d IH]; cbn; [discriminate|]. destruct (k =? k2) eqn:E.
  - intros H. injection H as <-. assert (k = k2) by lia. subst. reflexivity.
  - intros H. now rewrite IH.
Qed.
Lemma put_line_same p r l : dget r (p_lines p) = Some l -> put_line p r l = p.
Proof. intros H. unfold put_line. rewrite (dset_same r l _ H). destruct p; reflexivity. Qed.
(* Delete to End of Row at the end of the row *)
Lemma line_delete_to_end_at l ts t : line_at l ts t -> line_delete_to_end l = l.
Proof.
  intros (E1 & E2 & E3 & E4). unfold line_delete_to_end. rewrite E1, E2.
  replace (firstn (S (length ts)) (ts ++ [t])) with (ts ++ [t]).
  - rewrite upd_nth_last. assert (Et : text_truncate t = t).
    { assert (Epy : py_to (t_text t) (Z.max (t_cur t) 0) = t_text t).
      { rewrite E3. assert (0 <= text_len t) by (unfold text_len; apply zlen_nonneg).
        rewrite Z.max_l by lia. unfold py_to. replace (0 <=? text_len t) with true by lia. unfold text_len. apply firstn_zlen. }
      unfold text_truncate. rewrite Epy. destruct t; reflexivity. }
    rewrite Et, <- E1, <- E2. destruct l; reflexivity.
  - symmetry. replace (S (length ts)) with (length (ts ++ [t])) by (rewrite app_length; cbn; lia). apply firstn_all.
Qed.

(* ---- tab offsets: indent_cursor at the end of the row ---- *)
Definition gap_text (n : Z) : ctext := mkT None (spaces n) n ts0.
Definition line_gap (l : cline) (ts : list ctext) (t : ctext) (n : Z) : cline :=
  mkL (l_row l) (l_indent l) (line_length l + n) ((ts ++ [t]) ++ [gap_text n]) (length (ts ++ [t])).
Lemma zlen_spaces n : 0 <= n -> zlen (spaces n) = n.
Proof. intros H. unfold zlen, spaces. rewrite repeat_length. lia. Qed.
Lemma text_of_spaces n : 0 < n -> text_of (spaces n) = gap_text n.
Proof.
  intros H. unfold text_of. assert (Hn : is_nil (spaces n) = false).
  { unfold spaces. destruct (Z.to_nat n) eqn:E; [lia|reflexivity]. }
  rewrite Hn. unfold text_append, text_new. cbn [t_cur t_text t_begin t_sty]. change (0 <? 0) with false. cbv iota.
  unfold py_to, py_from. change (0 <=? 0) with true. rewrite zlen_spaces by lia. replace (0 <=? 0 + n) with true by lia.
  cbn [firstn]. replace (skipn (Z.to_nat (0 + n)) []) with (@nil Z) by (destruct (Z.to_nat (0 + n)); reflexivity).
  rewrite app_nil_r. unfold gap_text. f_equal.
Qed.
Lemma line_at_gap l ts t n : line_at l ts t -> 0 < n -> line_at (line_gap l ts t n) (ts ++ [t]) (gap_text n) /\ line_length (line_gap l ts t n) = line_length l + n.
Proof.
  intros (E1 & E2 & E3 & E4) Hn.
  assert (El : line_length (line_gap l ts t n) = line_length l + n).
  { rewrite !line_length_sum. unfold line_gap. cbn [l_texts]. rewrite E1, !sum_len_app. cbn [sum_len]. unfold text_len, gap_text. cbn [t_text].
    rewrite zlen_spaces by lia. lia. }
  split; [|exact El]. split; [reflexivity|]. split; [reflexivity|]. split; [unfold text_len, gap_text; cbn [t_cur t_text]; rewrite zlen_spaces by lia; reflexivity|].
  rewrite El. reflexivity.
Qed.
Lemma indent_cursor_at p r col l ts t n : para_at p r col l ts t -> 0 < n ->
  indent_cursor p n = set_cursor (put_line p r (if line_is_empty l then line_indent l n else line_gap l ts t n)) (r, col + n).
Proof.
  intros (Hc & Hg & Hl & Hr & Hcur & Hcoleq) Hn. unfold indent_cursor. rewrite Hcur. cbn [fst snd].
  set (p1 := set_cursor p (r, col + n)).
  assert (Hc1 : p_cur p1 = Att r) by exact Hc. assert (Hg1 : dget r (p_lines p1) = Some l) by exact Hg.
  rewrite (cur_line_at p1 r l Hc1 Hg1). destruct (line_is_empty l) eqn:Eemp.
  - rewrite (upd_cur_line_at p1 r l _ Hc1 Hg1). unfold p1, put_line. destruct p; reflexivity.
  - unfold update_line_cursor. rewrite (cur_line_at p1 r l Hc1 Hg1). change (snd (p_cursor p1)) with (col + n).
    pose proof (line_length_nonneg l). replace (col + n - l_indent l) with (line_length l + n) by lia.
    replace (line_length l + n <? 0) with false by lia. cbv iota. rewrite (cur_line_at p1 r l Hc1 Hg1).
    replace (line_length l + n - line_length l) with n by lia. replace (0 <? n) with true by lia. cbv iota.
    rewrite (upd_cur_line_at p1 r l _ Hc1 Hg1). rewrite (text_of_spaces n) by lia.
    assert (Eadd : line_add_obj l (gap_text n) = line_gap l ts t n).
    { unfold line_add_obj, line_gap. destruct Hl as (E1 & _). rewrite E1. f_equal.
      change (fold_right (fun t0 a => text_len t0 + a) 0 ((ts ++ [t]) ++ [gap_text n])) with (line_length (mkL 0 0 0 ((ts ++ [t]) ++ [gap_text n]) 0)).
      rewrite !line_length_sum, E1. cbn [l_texts]. rewrite !sum_len_app. cbn [sum_len]. unfold text_len, gap_text. cbn [t_text].
      rewrite zlen_spaces by lia. lia. }
    rewrite Eadd. destruct (line_at_gap l ts t n Hl Hn) as [Hlg Elg].
    set (q := put_line p1 r (line_gap l ts t n)).
    assert (Hcq : p_cur q = Att r) by exact Hc. assert (Hgq : dget r (p_lines q) = Some (line_gap l ts t n)) by (unfold q; rewrite dget_put_line, Z.eqb_refl; reflexivity).
    rewrite (upd_cur_line_at q r _ _ Hcq Hgq). rewrite <- Elg. rewrite (line_set_cursor_at _ _ _ Hlg).
    unfold q. rewrite put_line_twice. unfold p1, put_line. destruct p; reflexivity.
Qed.
Lemma para_tab p m u r col l ts t n pen : para_mem p m u -> para_at p r col l ts t -> in_rows r -> 0 < n -> col + n <= 31 ->
  (t_text t = [] -> t_sty t = ts0) ->
  ((t_sty t = ts0 /\ all_spaces t) \/ sview (t_sty t) = pen) ->
  (t_text t = [] -> line_length l = 0 \/ is_blank (lcell l (col - 1)) = true) ->
  para_mem (indent_cursor p n) m u /\ (forall r0, r0 <> r -> dget r0 (p_lines (indent_cursor p n)) = dget r0 (p_lines p)) /\
  exists l2 ts2 t2, para_at (indent_cursor p n) r (col + n) l2 ts2 t2 /\
    (t_text t2 = [] -> t_sty t2 = ts0) /\ ((t_sty t2 = ts0 /\ all_spaces t2) \/ sview (t_sty t2) = pen) /\
    (t_text t2 = [] -> line_length l2 = 0 \/ is_blank (lcell l2 (col + n - 1)) = true).
Proof.
  intros Hpm Hat Hin Hn Hlen He1 He2 He5. rewrite (indent_cursor_at p r col l ts t n Hat Hn).
  assert (Hrows : forall x r0, r0 <> r -> dget r0 (p_lines (set_cursor (put_line p r x) (r, col + n))) = dget r0 (p_lines p)).
  { intros x r0 Hne. cbn [p_lines set_cursor]. rewrite dget_put_line. replace (r0 =? r) with false by lia. reflexivity. }
  pose proof Hat as (Hc & Hg & Hl & Hr & Hcur & Hcoleq).
  destruct (para_at_row p m u r col l ts t Hpm Hat Hin) as (Hu & Hi & Hnb & Hold).
  destruct (line_is_empty l) eqn:Eemp.
  - unfold line_is_empty in Eemp. assert (El0 : line_length l = 0) by lia.
    assert (El1 : line_length (line_indent l n) = 0) by (rewrite <- El0; reflexivity).
    split.
    + apply para_mem_set_cursor. apply (para_mem_update p m u r l (line_indent l n)); try assumption; try reflexivity.
      * cbn. lia.
      * cbn [l_indent line_indent]. rewrite El1. lia.
      * intros c' Hc'. rewrite lcell_empty by exact El1. apply ceqv_blank; [|reflexivity].
        apply (ceqv_blank_l _ (lcell l c')); [apply Hold; exact Hc'|]. rewrite lcell_empty by exact El0. reflexivity.
    + split; [apply Hrows|]. exists (line_indent l n), ts, t. split; [|split; [exact He1|split; [exact He2|]]].
      * apply (para_at_set_cursor_put p r col l ts t); try assumption.
        cbn [l_indent line_indent]. rewrite El1. lia.
      * intros _. left. exact El1.
  - destruct (line_at_gap l ts t n Hl Hn) as [Hlg Elg].
    assert (Ecells : lcells (line_gap l ts t n) = lcells l ++ tcells (gap_text n)).
    { unfold lcells, line_gap. cbn [l_texts]. rewrite (proj1 Hl), !flat_map_app. cbn. now rewrite !app_nil_r. }
    split.
    + apply para_mem_set_cursor.
      apply (para_extend_blank p m u r col l ts t (line_gap l ts t n) (lcells l) (tcells (gap_text n))); try assumption; try reflexivity.
      * unfold nobegin in *. unfold line_gap. cbn [l_texts]. apply Forall_app. split; [rewrite <- (proj1 Hl); exact Hnb|repeat constructor].
      * cbn [l_indent line_gap]. rewrite Elg. lia.
      * apply Forall2_ceqv_refl.
      * unfold tcells, gap_text. cbn [t_text t_sty]. apply Forall_forall. intros x Hx. apply in_map_iff in Hx as (ch & <- & Hch).
        unfold spaces in Hch. apply repeat_spec in Hch. subst. reflexivity.
    + split; [apply Hrows|]. exists (line_gap l ts t n), (ts ++ [t]), (gap_text n). split; [|split; [|split; [left; split; [reflexivity|]|]]].
      * apply (para_at_set_cursor_put p r col l ts t); try assumption. cbn [l_indent line_gap]. rewrite Elg. lia.
      * intros H0. exfalso. unfold gap_text in H0. cbn in H0. unfold spaces in H0. destruct (Z.to_nat n) eqn:E; [lia|discriminate].
      * unfold all_spaces, gap_text. cbn [t_text]. apply Forall_forall. intros x Hx. unfold spaces in Hx. now apply repeat_spec in Hx.
      * intros H0. exfalso. unfold gap_text in H0. cbn in H0. unfold spaces in H0. destruct (Z.to_nat n) eqn:E; [lia|discriminate].
Qed.

(* ---- backspace at the end of the row ---- *)
Lemma line_set_cursor_total_eq l ts t : l_texts l = ts ++ [t] ->
  line_set_cursor l (line_length l) = mkL (l_row l) (l_indent l) (line_length l) (ts ++ [text_set_cur t (text_len t)]) (length ts).
Proof.
  intros Ets. unfold line_set_cursor. rewrite Z.ltb_irrefl.
  assert (Esel : sel_text (l_texts l) 0 (line_length l) = Some (length ts, text_len t)).
  { rewrite line_length_sum, Ets, sum_len_app. cbn [sum_len]. rewrite Z.add_0_r. apply sel_text_end. }
  rewrite Esel, Ets, upd_nth_last. reflexivity.
Qed.
(* set_cursor_at on the row of the current line, when that line is not empty *)
Lemma set_cursor_at_same_row p r l col' : p_cur p = Att r -> dget r (p_lines p) = Some l -> l_row l = r ->
  line_is_empty l = false -> (col' =? -1) = false -> set_cursor_at p r col' = update_line_cursor (set_cursor p (r, col')).
Proof.
  intros Hc Hg Hr Hne Hcol. unfold set_cursor_at. rewrite (cur_line_at p r l Hc Hg), Hr, Hg, Hne, Hcol.
  cbn [p_lines set_cur set_cursor]. rewrite Hg. f_equal. rewrite <- Hc. destruct p; reflexivity.
Qed.
(* the current (empty) line is dropped and created again at the cursor *)
Lemma para_mem_refresh p m u r l0 ind0 : para_mem p m u -> p_cur p = Att r -> dget r (p_lines p) = Some l0 ->
  line_is_empty l0 = true -> in_rows r -> 0 <= ind0 <= 32 ->
  dget r (fresh_lines p r l0) = None /\
  para_mem (at_fresh p r l0 r ind0) m u /\ para_at (at_fresh p r l0 r ind0) r ind0 (line_new r ind0) [] text_new.
Proof.
  intros [A B C D E F] Hc Hg Hemp Hrow Hind.
  assert (Hnone : dget r (fresh_lines p r l0) = None) by (rewrite dget_fresh_lines by exact D; rewrite Hemp, Z.eqb_refl; reflexivity).
  assert (Hget : forall r', dget r' (p_lines (at_fresh p r l0 r ind0)) = if r' =? r then Some (line_new r ind0) else dget r' (p_lines p)).
  { intros r'. unfold at_fresh. cbn [p_lines set_cur set_plines]. rewrite dget_dset. destruct (r' =? r) eqn:Er; [reflexivity|].
    rewrite dget_fresh_lines by exact D. rewrite Er, andb_false_r. reflexivity. }
  assert (Hu : In r u).
  { destruct C as [[C1 C2]|C]; [|now destruct (C r l0 Hg)].
    rewrite C1 in Hg. cbn in Hg. unfold in_rows in Hrow. destruct (r =? 0) eqn:E0; [lia|discriminate]. }
  split; [exact Hnone|]. split.
  - split.
    + intros r' c Hr' Hc'. unfold pcell. rewrite Hget. destruct (r' =? r) eqn:Er; [|apply (A r' c Hr' Hc')].
      assert (r' = r) by lia. subst r'. rewrite lcell_empty by reflexivity. specialize (A r c Hr' Hc'). unfold pcell in A. rewrite Hg in A.
      rewrite lcell_empty in A; [exact A|]. unfold line_is_empty in Hemp. lia.
    + intros r' l. rewrite Hget. destruct (r' =? r) eqn:Er; [|apply B].
      intros H; inversion H; subst l. assert (r' = r) by lia. subst r'. cbn. repeat split; try lia. repeat constructor.
    + right. intros r' l. rewrite Hget. destruct (r' =? r) eqn:Er.
      * intros _. assert (r' = r) by lia. subst r'. split; assumption.
      * intros H. destruct C as [[C1 C2]|C]; [|apply (C r' l H)].
        rewrite C1 in Hg, H. cbn in Hg, H. unfold in_rows in Hrow. destruct (r =? 0) eqn:E0; [lia|discriminate].
    + unfold at_fresh. cbn [p_lines set_cur set_plines]. apply nodup_dset_new; [exact Hnone|].
      unfold fresh_lines. destruct (line_is_empty l0); [now apply nodup_ddel|exact D].
    + exists r, (line_new r ind0). split; [reflexivity|]. rewrite Hget, Z.eqb_refl. reflexivity.
    + exact F.
  - split; [reflexivity|]. split; [rewrite Hget, Z.eqb_refl; reflexivity|]. split; [apply line_at_new|].
    split; [reflexivity|]. split; [reflexivity|]. cbn. lia.
Qed.
Lemma tcells_removelast t : tcells (text_backspace t) = removelast (tcells t).
Proof.
  unfold tcells, text_backspace. cbn [t_text t_sty]. induction (t_text t) as [|ch tx IH]; [reflexivity|].
  destruct tx as [|c2 tx]; [reflexivity|]. cbn [removelast map] in *. rewrite IH. reflexivity.
Qed.
Lemma para_back p m u r col l ts t : para_mem p m u -> para_at p r col l ts t -> in_rows r -> t_text t <> [] -> mem_wf m -> col <= 32 ->
  para_mem (para_backspace p) (cell_set m r (col - 1) blank) u /\
  (forall r0, r0 <> r -> dget r0 (p_lines (para_backspace p)) = dget r0 (p_lines p)) /\
  exists l2 ts2 t2, para_at (para_backspace p) r (col - 1) l2 ts2 t2 /\
    ((t_sty t2 = ts0 /\ t_text t2 = []) \/ (t_sty t2 = t_sty t /\ t_text t2 = removelast (t_text t))).
Proof.
  intros Hpm Hat Hin Hne Hwf Hcol32. pose proof Hat as (Hc & Hg & Hl & Hr & Hcur & Hcoleq). pose proof Hl as (Ets & Ecur & Etc & Elc).
  destruct (para_at_row p m u r col l ts t Hpm Hat Hin) as (Hu & Hi & Hnb & Hold).
  set (t' := text_backspace t).
  assert (Hpos : 1 <= text_len t) by (unfold text_len, zlen; destruct (t_text t); [contradiction|cbn [length]; lia]).
  assert (Elen' : text_len t' = text_len t - 1) by (unfold text_len, t', text_backspace; cbn [t_text]; now apply removelast_len).
  pose proof (sum_len_nonneg ts) as Hts. pose proof (line_at_length l ts t Hl) as ELl.
  set (l1 := line_map_last l ts t').
  assert (EL1 : line_length l1 = line_length l - 1).
  { rewrite line_length_sum. unfold l1, line_map_last. cbn [l_texts]. rewrite sum_len_app. cbn [sum_len]. lia. }
  assert (Ecol1 : 1 <= col) by lia.
  assert (Ep1 : upd_cur_text p text_backspace = put_line p r l1) by exact (upd_cur_text_at p r col l ts t _ Hat).
  unfold para_backspace. rewrite Ep1. rewrite cursor_put_line, Hcur. cbn [fst snd]. rewrite Z.max_l by lia.
  set (p1 := put_line p r l1).
  assert (Hc1 : p_cur p1 = Att r) by exact Hc.
  assert (Hg1 : dget r (p_lines p1) = Some l1) by (unfold p1; rewrite dget_put_line, Z.eqb_refl; reflexivity).
  assert (Ecells1 : lcells l = lcells l1 ++ [List.last (tcells t) blank]).
  { rewrite (lcells_at l ts t Ets), (lcells_at l1 ts t' eq_refl). unfold t'. rewrite tcells_removelast, <- app_assoc. f_equal.
    apply app_removelast_last. unfold tcells. destruct (t_text t); [contradiction|discriminate]. }
  set (m' := cell_set m r (col - 1) blank).
  assert (Hm' : forall r' c', in_rows r' -> in_cols c' -> mcell m' r' c' = if (r' =? r) && (c' =? col - 1) then blank else mcell m r' c').
  { intros r' c' Hr' Hc'. unfold m'. apply mcell_cell_set; try assumption; unfold in_cols in *; lia. }
  (* the caption after the character has been removed from the text element *)
  assert (Hpm1 : para_mem p1 m' u).
  { apply (para_mem_update p m u r l l1); try assumption; try reflexivity.
    - change (l_indent l1) with (l_indent l). rewrite EL1. lia.
    - apply (nobegin_app_last l ts t t' l1 Ets Hnb); [|reflexivity]. exact (nobegin_last l ts t Ets Hnb).
    - intros r' c' Hr' Hc' Hneq. rewrite Hm' by assumption. replace (r' =? r) with false by lia. reflexivity.
    - intros c' Hc'. rewrite Hm' by assumption. rewrite Z.eqb_refl. cbn [andb].
      destruct (c' =? col - 1) eqn:E1.
      + apply ceqv_blank; [reflexivity|]. rewrite lcell_beyond; [reflexivity|]. change (l_indent l1) with (l_indent l). lia.
      + destruct (c' <? col - 1) eqn:E2.
        * eapply ceqv_trans; [apply (Hold c' Hc')|]. apply ceqv_sym.
          apply (lcell_prefix l1 l (lcells l1) [List.last (tcells t) blank]); [reflexivity|exact Ecells1|apply Forall2_ceqv_refl|].
          change (l_indent l1) with (l_indent l). lia.
        * apply ceqv_blank.
          -- apply (ceqv_blank_l _ (lcell l c')); [apply (Hold c' Hc')|]. rewrite lcell_beyond by lia. reflexivity.
          -- rewrite lcell_beyond; [reflexivity|]. change (l_indent l1) with (l_indent l). lia. }
  destruct (line_is_empty l1) eqn:Hemp.
  - (* the row held one character: the line is dropped and created again *)
    destruct (para_mem_refresh p1 m' u r l1 (col - 1) Hpm1 Hc1 Hg1 Hemp Hin ltac:(lia)) as (R0 & R1 & R2).
    rewrite (set_cursor_at_fresh p1 r l1 r (col - 1) Hc1 Hg1 Hr R0). replace (col - 1 =? -1) with false by lia.
    split; [exact R1|]. split.
    { intros r0 Hne0. unfold at_fresh. cbn [p_lines set_cur set_plines]. rewrite dget_dset. replace (r0 =? r) with false by lia.
      rewrite dget_fresh_lines by (apply (pm_nodup _ _ _ Hpm1)). replace (r0 =? r) with false by lia. rewrite andb_false_r.
      unfold p1. rewrite dget_put_line. replace (r0 =? r) with false by lia. reflexivity. }
    exists (line_new r (col - 1)), [], text_new. split; [exact R2|]. left. split; reflexivity.
  - (* otherwise the cursor moves to the new end of the row *)
    rewrite (set_cursor_at_same_row p1 r l1 (col - 1) Hc1 Hg1 Hr Hemp) by lia.
    set (p2 := set_cursor p1 (r, col - 1)).
    assert (Hc2 : p_cur p2 = Att r) by exact Hc. assert (Hg2 : dget r (p_lines p2) = Some l1) by exact Hg1.
    unfold update_line_cursor. rewrite (cur_line_at p2 r l1 Hc2 Hg2). change (snd (p_cursor p2)) with (col - 1).
    change (l_indent l1) with (l_indent l). replace (col - 1 - l_indent l) with (line_length l1) by lia.
    pose proof (line_length_nonneg l1). replace (line_length l1 <? 0) with false by lia. cbv iota.
    rewrite (cur_line_at p2 r l1 Hc2 Hg2), Z.sub_diag. change (0 <? 0) with false. cbv iota.
    rewrite (upd_cur_line_at p2 r l1 _ Hc2 Hg2). rewrite (line_set_cursor_total_eq l1 ts t' eq_refl).
    set (t2 := text_set_cur t' (text_len t')).
    set (l2 := mkL (l_row l1) (l_indent l1) (line_length l1) (ts ++ [t2]) (length ts)).
    assert (EL2 : line_length l2 = line_length l1).
    { rewrite !line_length_sum. unfold l2, l1, line_map_last. cbn [l_texts]. rewrite !sum_len_app. reflexivity. }
    assert (Hl2 : line_at l2 ts t2).
    { split; [reflexivity|]. split; [reflexivity|]. split; [reflexivity|]. rewrite EL2. reflexivity. }
    assert (Eover : put_line p2 r l2 = set_cursor (put_line p r l2) (r, col - 1)) by (unfold p2, p1; apply put_line_over).
    rewrite Eover. split.
    + apply para_mem_set_cursor. 
      assert (Hpm2 : para_mem (put_line p1 r l2) m' u).
      { apply (para_mem_update p1 m' u r l1 l2); try assumption; try reflexivity.
        - change (l_indent l2) with (l_indent l). rewrite EL2, EL1. lia.
        - apply (nobegin_app_last l ts t t2 l2 Ets Hnb); [|reflexivity]. exact (nobegin_last l ts t Ets Hnb).
        - intros c' Hc'. destruct Hpm1 as [A1 _ _ _ _ _]. specialize (A1 r c' Hin Hc'). unfold pcell in A1. rewrite Hg1 in A1.
          eapply ceqv_trans; [exact A1|]. apply lcell_eqv; [reflexivity|].
          rewrite (lcells_at l1 ts t' eq_refl), (lcells_at l2 ts t2 eq_refl). apply Forall2_ceqv_refl. }
      unfold p1 in Hpm2. rewrite put_line_twice in Hpm2. exact Hpm2.
    + split; [intros r0 Hne0; cbn [p_lines set_cursor]; rewrite dget_put_line; replace (r0 =? r) with false by lia; reflexivity|].
      exists l2, ts, t2. split.
      * apply (para_at_set_cursor_put p r col l ts t); try assumption; try reflexivity.
        change (l_indent l2) with (l_indent l). rewrite EL2. lia.
      * right. split; reflexivity.
Qed.
End Style.
