(* C08, display simulation, part 10: the regions paragraphs are attached to (pop-on style: one region per origin). *)
From Coq Require Import QArith.
From TT Require Import Base.Prelude Base.SccTypes Base.SccDoc Gen.SccTables Model.SccWord Model.TimeCode Model.SccReader Spec.Cea608Screen.
From TT Require Import Proofs.C08.Text Proofs.C08.ScreenMem Proofs.C08.ScreenLine Proofs.C08.ScreenPara Proofs.C08.ScreenRows Proofs.C08.ScreenDoc.
Open Scope Z_scope.

(* region numbers are 1, 2, 3, ... in document order; every region is top-aligned (no roll-up region) *)
Fixpoint nums_from (k : Z) (rs : list region) : Prop := match rs with [] => True | r :: rs' => r_num r = k /\ nums_from (k + 1) rs' end.
Definition regs_ok (rs : list region) : Prop := nums_from 1 rs /\ Forall (fun r => r_after r = false) rs.
Definition rid (r : region) : Z * Z := (r_kind r, r_num r).
Definition id_is (id : Z * Z) (r : region) : bool := (r_kind r =? fst id) && (r_num r =? snd id).
Lemma find_reg_eq rs id : find_reg rs id = match rs with [] => None | r :: rs' => if id_is id r then Some r else find_reg rs' id end.
Proof. destruct rs; reflexivity. Qed.
Lemma nums_from_ge k rs r : nums_from k rs -> In r rs -> k <= r_num r.
Proof. revert k. induction rs as [|x rs IH]; cbn; intros k H Hin; [contradiction|]. destruct H as [H1 H2]. destruct Hin as [<-|Hin]; [lia|]. specialize (IH _ H2 Hin). lia. Qed.
Lemma nums_from_app k rs r : nums_from k rs -> r_num r = k + zlen rs -> nums_from k (rs ++ [r]).
Proof.
  revert k. induction rs as [|x rs IH]; cbn; intros k H Hr.
  - unfold zlen in Hr. cbn in Hr. split; [lia|exact I].
  - destruct H as [H1 H2]. split; [exact H1|]. apply IH; [exact H2|]. unfold zlen in *. cbn [length] in Hr. lia.
Qed.
Lemma find_reg_in k rs r : nums_from k rs -> In r rs -> find_reg rs (rid r) = Some r.
Proof.
  revert k. induction rs as [|x rs IH]; intros k H Hin; [contradiction|]. rewrite find_reg_eq. destruct H as [H1 H2].
  destruct Hin as [->|Hin].
  - unfold id_is, rid. cbn [fst snd]. now rewrite !Z.eqb_refl.
  - pose proof (nums_from_ge _ _ _ H2 Hin). unfold id_is, rid. cbn [fst snd]. replace (r_num x =? r_num r) with false by lia.
    rewrite andb_false_r. now apply (IH (k + 1)).
Qed.
(* replacing a region by one with the same identity *)
Lemma find_reg_replace r' rs id : find_reg (replace_region r' rs) id =
  match find_reg rs id with Some r => Some (if id_is id r' then r' else r) | None => None end.
Proof.
  unfold id_is. induction rs as [|x rs IH]; [reflexivity|]. cbn [replace_region].
  destruct ((r_kind x =? r_kind r') && (r_num x =? r_num r')) eqn:E; cbn [find_reg].
  - destruct ((r_kind x =? fst id) && (r_num x =? snd id)) eqn:E2.
    + replace ((r_kind r' =? fst id) && (r_num r' =? snd id)) with true by lia. reflexivity.
    + replace ((r_kind r' =? fst id) && (r_num r' =? snd id)) with false by lia. destruct (find_reg rs id); reflexivity.
  - destruct ((r_kind x =? fst id) && (r_num x =? snd id)) eqn:E2; [|exact IH].
    apply andb_true_iff in E2 as [E3 E4]. apply andb_false_iff in E.
    destruct (r_kind r' =? fst id) eqn:A1; destruct (r_num r' =? snd id) eqn:A2; cbn [andb]; try reflexivity.
    exfalso. destruct E as [E|E]; lia.
Qed.
Lemma find_reg_app rs r id : find_reg (rs ++ [r]) id = match find_reg rs id with Some x => Some x | None => if id_is id r then Some r else None end.
Proof. induction rs as [|x rs IH]; [reflexivity|]. cbn [app]. rewrite !(find_reg_eq (x :: _)). destruct (id_is id x); [reflexivity|exact IH]. Qed.
Lemma nums_from_replace k r' rs : nums_from k rs -> nums_from k (replace_region r' rs).
Proof.
  revert k. induction rs as [|x rs IH]; cbn; intros k H; [exact I|]. destruct H as [H1 H2].
  destruct ((r_kind x =? r_kind r') && (r_num x =? r_num r')) eqn:E; cbn; [split; [lia|exact H2]|split; [exact H1|now apply IH]].
Qed.
Lemma Forall_replace (P : region -> Prop) r' rs : P r' -> Forall P rs -> Forall P (replace_region r' rs).
Proof. intros Hr. induction 1 as [|x rs Hx H IH]; cbn; [constructor|]. destruct (_ && _); constructor; assumption. Qed.

(* what a rendering reads of a region *)
Definition reg_same (r r' : region) : Prop := r_oy r' = r_oy r /\ r_after r' = r_after r /\ r_eh r' = r_eh r.
Definition regs_ext (rs rs' : list region) : Prop := forall id r, find_reg rs id = Some r -> exists r', find_reg rs' id = Some r' /\ reg_same r r'.
Lemma regs_ext_refl rs : regs_ext rs rs.
Proof. intros id r H. exists r. split; [exact H|repeat split]. Qed.
Lemma regs_ext_trans a b c : regs_ext a b -> regs_ext b c -> regs_ext a c.
Proof.
  intros H1 H2 id r H. destruct (H1 id r H) as (r' & E1 & S1 & S2 & S3). destruct (H2 id r' E1) as (r'' & E2 & T1 & T2 & T3).
  exists r''. split; [exact E2|]. repeat split; congruence.
Qed.
Lemma find_region_spec p rs r : find_region p rs = Some r -> In r rs /\ has_same_origin p r = true /\ r_kind r = p_style p.
Proof.
  induction rs as [|x rs IH]; cbn; [discriminate|]. destruct (has_same_origin p x && (r_kind x =? p_style p)) eqn:E.
  - intros H; inversion H; subst. apply andb_true_iff in E as [E1 E2]. split; [now left|]. split; [exact E1|lia].
  - intros H. destruct (IH H) as (A & B & C). split; [now right|]. split; assumption.
Qed.
Lemma extend_region_same p r : reg_same r (extend_region p r) /\ rid (extend_region p r) = rid r.
Proof. unfold extend_region. destruct (_ <? _); repeat split. Qed.
Lemma id_is_rid id r : id_is id r = true -> id = rid r.
Proof. unfold id_is, rid. destruct id as [a b]. cbn [fst snd]. intros H. f_equal; lia. Qed.
(* attaching a paragraph keeps what earlier paragraphs read of their regions *)
Lemma get_region_ext k p rs : nums_from k rs -> regs_ext rs (fst (get_region p rs)).
Proof.
  intros Hn. unfold get_region. destruct (find_region p rs) as [r0|] eqn:E; cbn [fst].
  - intros id r H. rewrite find_reg_replace, H. destruct (extend_region_same p r0) as [S Eid].
    destruct (id_is id (extend_region p r0)) eqn:E2.
    + eexists. split; [reflexivity|].
      destruct (find_region_spec p rs r0 E) as (Hin & _).
      apply id_is_rid in E2. rewrite Eid in E2. subst id. rewrite (find_reg_in k rs r0 Hn Hin) in H. injection H as <-. exact S.
    + exists r. split; [reflexivity|repeat split].
  - intros id r H. rewrite find_reg_app, H. exists r. split; [reflexivity|repeat split].
Qed.
Lemma get_region_ok p rs : regs_ok rs -> p_style p = sPopOn -> regs_ok (fst (get_region p rs)).
Proof.
  intros [Hn Ha] Hs. unfold get_region. destruct (find_region p rs) as [r0|] eqn:E; cbn [fst].
  - destruct (find_region_spec p rs r0 E) as (Hin & _). split; [now apply nums_from_replace|].
    apply Forall_replace; [|exact Ha]. rewrite Forall_forall in Ha. specialize (Ha r0 Hin).
    destruct (extend_region_same p r0) as [(_ & S2 & _) _]. congruence.
  - split.
    + apply nums_from_app; [exact Hn|]. unfold create_region. destruct (para_origin p). cbn [r_num]. lia.
    + apply Forall_app. split; [exact Ha|]. constructor; [|constructor]. unfold create_region. destruct (para_origin p). cbn [r_after].
      rewrite Hs. reflexivity.
Qed.
(* the region a pop-on paragraph is attached to: top-aligned, at the paragraph's own origin row *)
Lemma get_region_found p rs : regs_ok rs -> p_style p = sPopOn ->
  exists r, find_reg (fst (get_region p rs)) (snd (get_region p rs)) = Some r /\ r_after r = false /\ r_oy r = pct_y (snd (para_origin p)).
Proof.
  intros [Hn Ha] Hs. unfold get_region. destruct (find_region p rs) as [r0|] eqn:E; cbn [fst snd].
  - destruct (find_region_spec p rs r0 E) as (Hin & Ho & Hk).
    destruct (extend_region_same p r0) as [(S1 & S2 & S3) Eid].
    exists (extend_region p r0). rewrite find_reg_replace. change (r_kind r0, r_num r0) with (rid r0).
    rewrite (find_reg_in 1 rs r0 Hn Hin). rewrite <- Eid. unfold id_is, rid. cbn [fst snd]. rewrite !Z.eqb_refl. cbn [andb].
    split; [reflexivity|]. rewrite Forall_forall in Ha. split; [rewrite S2; now apply Ha|].
    rewrite S1. unfold has_same_origin in Ho. destruct (para_origin p) as [px py]. rewrite Hs in Ho.
    change ((sPopOn =? sRollUp) || (sPopOn =? sPaintOn)) with false in Ho. cbv iota in Ho. cbn [snd]. lia.
  - exists (create_region p (zlen rs + 1)). rewrite find_reg_app.
    assert (Enone : find_reg rs (r_kind (create_region p (zlen rs + 1)), r_num (create_region p (zlen rs + 1))) = None).
    { destruct (find_reg rs _) as [x|] eqn:Ex; [|reflexivity]. exfalso.
      assert (G : forall k rs id x, nums_from k rs -> find_reg rs id = Some x -> In x rs /\ r_num x = snd id).
      { clear. intros k rs. revert k. induction rs as [|y rs IH]; intros k id x Hn H; [discriminate|]. rewrite find_reg_eq in H. destruct Hn as [H1 H2].
        destruct (id_is id y) eqn:E; [injection H as <-; split; [now left|unfold id_is in E; lia]|].
        destruct (IH _ _ _ H2 H) as [A B]. split; [now right|exact B]. }
      destruct (G 1 rs _ x Hn Ex) as [Hin Hnum]. cbn [snd] in Hnum.
      assert (Hlt : forall k rs x, nums_from k rs -> In x rs -> r_num x < k + zlen rs).
      { clear. intros k rs. revert k. induction rs as [|y rs IH]; intros k x Hn Hin; [contradiction|]. destruct Hn as [H1 H2]. unfold zlen in *. cbn [length].
        destruct Hin as [<-|Hin]; [lia|]. specialize (IH _ _ H2 Hin). lia. }
      specialize (Hlt 1 rs x Hn Hin). unfold create_region in Hnum. destruct (para_origin p). cbn [r_num] in Hnum. lia. }
    rewrite Enone. unfold id_is. cbn [fst snd]. rewrite !Z.eqb_refl. cbn [andb]. split; [reflexivity|].
    unfold create_region. destruct (para_origin p) as [px py]. rewrite Hs. cbn [r_after r_oy snd]. split; reflexivity.
Qed.
(* the origin row of a caption, read back from the percentage *)
Lemma row_of_pct_y r1 : 1 <= r1 <= 15 -> row_of_pct (pct_y (r1 + 1)) = r1.
Proof.
  intros H. assert (E : forallb (fun r => row_of_pct (pct_y (r + 1)) =? r) [1; 2; 3; 4; 5; 6; 7; 8; 9; 10; 11; 12; 13; 14; 15] = true) by (vm_compute; reflexivity).
  rewrite forallb_forall in E. assert (Hin : In r1 [1; 2; 3; 4; 5; 6; 7; 8; 9; 10; 11; 12; 13; 14; 15]) by (cbn; lia).
  specialize (E r1 Hin). lia.
Qed.
(* the smallest row of a caption *)
Lemma zmin_list_spec l : forall d, l <> [] -> In (zmin_list d l) l /\ forall x, In x l -> zmin_list d l <= x.
Proof.
  induction l as [|y l IH]; intros d Hne; [contradiction|]. cbn [zmin_list]. destruct l as [|z l].
  - cbn [zmin_list]. split; [left; lia|]. intros x [<-|[]]. lia.
  - destruct (IH y ltac:(discriminate)) as [H1 H2]. split.
    + destruct (Z.min_spec y (zmin_list y (z :: l))) as [[_ ->]|[_ ->]]; [now left|now right].
    + intros x [<-|Hx]; [lia|]. specialize (H2 x Hx). lia.
Qed.
Lemma para_origin_row {st} p m u r1 l1 d : @para_mem st p m u -> para_is_empty p = false -> ksort (p_lines p) = (r1, l1) :: d ->
  snd (para_origin p) = r1 + 1 /\ 1 <= r1 <= 15.
Proof.
  intros [A B C D E F] Hne Hs. unfold para_origin. rewrite Hne. cbn [snd]. unfold safe_y.
  assert (Hnp : ~ pristine p).
  { intros [P1 P2]. unfold para_is_empty, para_length in Hne. rewrite P1 in Hne. cbn in Hne. discriminate. }
  destruct C as [C|C]; [contradiction|].
  assert (Hin1 : In r1 (map fst (p_lines p))) by (apply ksort_keys; rewrite Hs; now left).
  assert (Hkeys : forall k, In k (map fst (p_lines p)) -> 1 <= k <= 15 /\ r1 <= k).
  { intros k Hk. destruct (dget k (p_lines p)) eqn:E1; [|apply dget_none_keys in E1; contradiction].
    destruct (C k c E1) as [Hr _]. split; [exact Hr|].
    assert (Hinc : kinc 0 (ksort (p_lines p))).
    { apply ksort_inc; [exact D|]. intros k' Hk'. destruct (dget k' (p_lines p)) eqn:E2; [destruct (C _ _ E2) as [H _]; unfold in_rows in H; lia|].
      apply dget_none_keys in E2. contradiction. }
    rewrite Hs in Hinc. cbn [kinc] in Hinc. destruct Hinc as [_ Hd]. apply ksort_keys in Hk. rewrite Hs in Hk. destruct Hk as [<-|Hk]; [cbn; lia|].
    pose proof (kinc_keys_above r1 d Hd k Hk). lia. }
  assert (Emap : map (fun kv : Z * cline => l_row (snd kv) - 1) (p_lines p) = map (fun k => k - 1) (map fst (p_lines p))).
  { rewrite map_map. apply map_ext_in. intros [k l] Hkl. cbn [fst snd]. assert (Hg : dget k (p_lines p) = Some l) by (apply (dget_in _ _ _ D); exact Hkl).
    destruct (B k l Hg) as (Hr & _). now rewrite Hr. }
  rewrite Emap. set (ks := map fst (p_lines p)) in *.
  assert (Hne2 : map (fun k => k - 1) ks <> []) by (destruct ks; [contradiction|discriminate]).
  unfold min_of. destruct (map (fun k => k - 1) ks) as [|x xs] eqn:Ex; [contradiction|].
  destruct (zmin_list_spec (x :: xs) x ltac:(discriminate)) as [M1 M2].
  assert (M1' : In (zmin_list x (x :: xs)) (map (fun k => k - 1) ks)) by (rewrite Ex; exact M1).
  apply in_map_iff in M1' as (k0 & Ek0 & Hk0). destruct (Hkeys k0 Hk0) as [_ Hge].
  assert (Hle : zmin_list x (x :: xs) <= r1 - 1) by (apply M2; rewrite <- Ex; apply in_map_iff; exists r1; split; [reflexivity|exact Hin1]).
  split; [lia|]. now destruct (Hkeys r1 Hin1).
Qed.
