(* C08: SccLine.process word by word — the channel filter and the handling of doubled control codes, for all
   states and all words. *)
From Coq Require Import QArith.
From TT Require Import Base.Prelude Base.SccTypes Base.SccDoc Gen.SccTables Model.SccWord Model.TimeCode Model.SccReader.
From TT Require Import Proofs.C08.Stamps.
Open Scope Z_scope.

(* ---- words and bytes ---- *)
Lemma byte2_range w : 0 <= byte2 w < 128.
Proof. unfold byte2. change parity_mask with (Z.ones 7). rewrite Z.land_ones by lia. apply Z.mod_pos_bound. reflexivity. Qed.
Lemma value_div w : value w / 256 = byte1 w.
Proof. unfold value. pose proof (byte2_range w). rewrite Z.div_add_l by lia. rewrite Z.div_small by lia. lia. Qed.
(* only words of the code range belong to a channel *)
Lemma chan1_is_code w : d_chan (decode w) = 1 -> is_code (byte1 w) = true.
Proof.
  unfold decode. destruct (is_code (byte1 w)); [reflexivity|].
  destruct (value w =? 0); [discriminate|]. destruct (byte1 w <? 32); discriminate.
Qed.

(* ---- words that the channel filter skips ---- *)
(* null padding; a word of the code range that decode does not attribute to channel 1; characters while another
   channel is addressed *)
Definition skipped (ch w : Z) : bool :=
  (value w =? 0) || (if byte1 w <? 32 then negb (d_chan (decode w) =? 1) else negb (ch =? 1)).
Definition chan_after (ch w : Z) : Z :=
  if value w =? 0 then ch else if byte1 w <? 32 then d_chan (decode w) else ch.
Lemma with_chan_tc_same c t : with_chan (with_tc c t) (c_chan c) = with_tc c t.
Proof. destruct c; reflexivity. Qed.
Lemma step_skipped c w : c_err c = false -> is_dup c w = false -> skipped (c_chan c) w = true ->
  step c w = with_chan (with_tc c (tc_next (c_tc c))) (chan_after (c_chan c) w).
Proof.
  intros He Hd Hs. unfold step, is_dup, skipped, chan_after in *. rewrite He.
  destruct (match c_prev c with Some pv => _ | None => false end); [discriminate|].
  destruct (value w =? 0); [now rewrite with_chan_tc_same|]. cbn [orb] in Hs.
  destruct (byte1 w <? 32).
  - rewrite Hs. reflexivity.
  - change (c_chan (with_tc c (tc_next (c_tc c)))) with (c_chan c). rewrite Hs. now rewrite with_chan_tc_same.
Qed.
Fixpoint block_ok (ch : Z) (b : list Z) : bool :=
  match b with [] => true | w :: b' => skipped ch w && block_ok (chan_after ch w) b' end.
Fixpoint chan_end (ch : Z) (b : list Z) : Z := match b with [] => ch | w :: b' => chan_end (chan_after ch w) b' end.
Lemma with_chan_tc_twice c t1 x t2 y : with_chan (with_tc (with_chan (with_tc c t1) x) t2) y = with_chan (with_tc c t2) y.
Proof. destruct c; reflexivity. Qed.
(* a block of skipped words changes nothing but the elapsed frames and the channel being addressed *)
Lemma channel_block b : forall c, c_err c = false -> (forall w, In w b -> is_dup c w = false) -> block_ok (c_chan c) b = true ->
  fold_left step b c = with_chan (with_tc c (iter_n (length b) tc_next (c_tc c))) (chan_end (c_chan c) b).
Proof.
  induction b as [|w b IH]; intros c He Hd Hb; cbn [fold_left length iter_n chan_end].
  - destruct c; reflexivity.
  - cbn [block_ok] in Hb. apply andb_true_iff in Hb as [Hs Hb].
    rewrite (step_skipped c w He (Hd w (or_introl eq_refl)) Hs).
    rewrite IH; [|exact He|intros x Hx; apply (Hd x); now right|exact Hb].
    cbn [c_tc c_chan with_chan with_tc]. rewrite iter_shift. cbn [iter_n]. apply with_chan_tc_twice.
Qed.
(* a control-range word of channel 1 *)
Definition ch1_code (w : Z) : bool := (byte1 w <? 32) && negb (value w =? 0) && (d_chan (decode w) =? 1).
Lemma with_chan_inner c x t y : with_chan (with_tc (with_chan c x) t) y = with_chan (with_tc c t) y.
Proof. destruct c; reflexivity. Qed.
Lemma step_ignores_chan c x w : c_err c = false -> is_dup c w = false -> ch1_code w = true -> step (with_chan c x) w = step c w.
Proof.
  unfold ch1_code, is_dup. intros He Hd H. apply andb_true_iff in H as [H H3]. apply andb_true_iff in H as [H1 H2].
  apply negb_true_iff in H2. unfold step. cbv zeta.
  change (c_err (with_chan c x)) with (c_err c). change (c_prev (with_chan c x)) with (c_prev c).
  change (c_tc (with_chan c x)) with (c_tc c).
  rewrite He, Hd, H1, H2, H3. cbn [negb]. rewrite with_chan_inner. reflexivity.
Qed.
(* interleaved words of another channel: the channel-1 code that follows (not itself a repetition of
   previous_word) is processed exactly as if only the frames had elapsed *)
Lemma channel_filter b w c : c_err c = false -> (forall x, In x b -> is_dup c x = false) -> block_ok (c_chan c) b = true ->
  ch1_code w = true -> is_dup c w = false ->
  fold_left step (b ++ [w]) c = step (with_tc c (iter_n (length b) tc_next (c_tc c))) w.
Proof.
  intros He Hd Hb Hw Hdw. rewrite fold_left_app. cbn [fold_left]. rewrite channel_block by assumption.
  now apply step_ignores_chan.
Qed.

(* ---- doubled control codes ---- *)
Lemma prev_after_code c w : c_err c = false -> is_dup c w = false -> ch1_code w = true -> c_prev (step c w) = Some (value w).
Proof.
  unfold ch1_code, is_dup. intros He Hd H. apply andb_true_iff in H as [H H3]. apply andb_true_iff in H as [H1 H2].
  apply negb_true_iff in H2. unfold step. rewrite He, Hd, H1, H2, H3. reflexivity.
Qed.
(* the second copy of a doubled channel-1 code changes nothing but previous_word, and consumes no frame *)
Lemma doubled_once c w : c_err c = false -> is_dup c w = false -> ch1_code w = true -> c_err (step c w) = false ->
  step (step c w) w = with_prev (step c w) None /\ c_tc (step (step c w) w) = c_tc (step c w).
Proof.
  intros He Hd Hw He2. pose proof (prev_after_code c w He Hd Hw) as Hp.
  assert (Hdup : is_dup (step c w) w = true).
  { unfold is_dup. rewrite Hp, Z.eqb_refl, value_div. cbn [andb]. apply chan1_is_code.
    unfold ch1_code in Hw. apply andb_true_iff in Hw as [_ Hw]. now apply Z.eqb_eq in Hw. }
  split.
  - unfold is_dup in Hdup. unfold step at 1. rewrite He2, Hdup. reflexivity.
  - rewrite tc_step, He2, Hdup. reflexivity.
Qed.
