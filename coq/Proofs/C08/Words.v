(* C08: SccLine.process word by word — the channel filter and the handling of doubled control codes, for all
   states and all words. *)
From Coq Require Import QArith.
From TT Require Import Base.Prelude Base.SccTypes Base.SccDoc Gen.SccTables Model.SccWord Model.TimeCode Model.SccReader.
From TT Require Import Proofs.C08.Stamps.
Open Scope Z_scope.

(* ---- words and bytes ---- *)
Lemma byte2_range w : 0 <= byte2 w < 128.
Proof. unfold byte2. change parity_mask with (Z.ones 7). rewrite Z.land_ones by lia. apply Z.mod_pos_bound. reflexivity. Qed.
Lemma value_div w : value w / 256 = byte1 w.
Proof. unfold value. pose proof (byte2_range w). rewrite Z.div_add_l by lia. rewrite Z.div_small by lia. lia. Qed.
(* only words of the code range belong to a channel *)
Lemma chan1_is_code w : d_chan (decode w) = 1 -> is_code (byte1 w) = true.
Proof.
  unfold decode. destruct (is_code (byte1 w)); [reflexivity|].
  destruct (value w =? 0); [discriminate|]. destruct (byte1 w <? 32); discriminate.
Qed.

(* ---- words that the channel filter skips ---- *)
(* null padding; a word of the code range that decode does not attribute to channel 1; characters while another
   channel is addressed *)
Definition skipped (ch w : Z) : bool :=
  (value w =? 0) || (if byte1 w <? 32 then negb (d_chan (decode w) =? 1) else negb (ch =? 1)).
Definition chan_after (ch w : Z) : Z :=
  if value w =? 0 then ch else if byte1 w <? 32 then d_chan (decode w) else ch.
(* what a skipped word leaves: one more frame, the channel being addressed, and previous_word reset *)
Definition skip_to (c : ctx) (t : tcv) (ch : Z) : ctx := with_prev (with_chan (with_tc c t) ch) None.
Lemma skip_to_same c t : with_prev (with_tc c t) None = skip_to c t (c_chan c).
Proof. destruct c; reflexivity. Qed.
Lemma step_skipped c w : c_err c = false -> is_dup c w = false -> skipped (c_chan c) w = true ->
  step c w = skip_to c (tc_next (c_tc c)) (chan_after (c_chan c) w).
Proof.
  intros He Hd Hs. unfold step, is_dup, skipped, chan_after in *. rewrite He.
  destruct (match c_prev c with Some pv => _ | None => false end); [discriminate|].
  destruct (value w =? 0); [apply skip_to_same|]. cbn [orb] in Hs.
  destruct (byte1 w <? 32).
  - rewrite Hs. reflexivity.
  - change (c_chan (with_tc c (tc_next (c_tc c)))) with (c_chan c). rewrite Hs. apply skip_to_same.
Qed.
(* a skipped word is never taken for the second copy of a doubled code once previous_word has been reset *)
Lemma is_dup_reset c t ch w : is_dup (skip_to c t ch) w = false.
Proof. reflexivity. Qed.
Fixpoint block_ok (ch : Z) (b : list Z) : bool :=
  match b with [] => true | w :: b' => skipped ch w && block_ok (chan_after ch w) b' end.
Fixpoint chan_end (ch : Z) (b : list Z) : Z := match b with [] => ch | w :: b' => chan_end (chan_after ch w) b' end.
Lemma skip_to_twice c t1 x t2 y : skip_to (skip_to c t1 x) t2 y = skip_to c t2 y.
Proof. destruct c; reflexivity. Qed.
(* a non-empty block of skipped words changes nothing but the elapsed frames and the channel being addressed, and
   resets previous_word (since the repair of previous-word-survives-padding); only its first word could be taken for
   the second copy of a doubled code *)
Lemma channel_block_from b : forall c t ch, c_err c = false -> block_ok ch b = true ->
  fold_left step b (skip_to c t ch) = skip_to c (iter_n (length b) tc_next t) (chan_end ch b).
Proof.
  induction b as [|w b IH]; intros c t ch He Hb; cbn [fold_left length iter_n chan_end]; [reflexivity|].
  cbn [block_ok] in Hb. apply andb_true_iff in Hb as [Hs Hb].
  rewrite (step_skipped (skip_to c t ch) w He (is_dup_reset c t ch w) Hs).
  change (c_chan (skip_to c t ch)) with ch. change (c_tc (skip_to c t ch)) with t. rewrite skip_to_twice.
  rewrite IH by assumption. rewrite iter_shift. reflexivity.
Qed.
Lemma channel_block w b c : c_err c = false -> is_dup c w = false -> block_ok (c_chan c) (w :: b) = true ->
  fold_left step (w :: b) c = skip_to c (iter_n (length (w :: b)) tc_next (c_tc c)) (chan_end (c_chan c) (w :: b)).
Proof.
  intros He Hd Hb. cbn [fold_left]. cbn [block_ok] in Hb. apply andb_true_iff in Hb as [Hs Hb].
  rewrite (step_skipped c w He Hd Hs). rewrite channel_block_from by assumption.
  cbn [length chan_end]. rewrite iter_shift. reflexivity.
Qed.
(* a control-range word of channel 1 *)
Definition ch1_code (w : Z) : bool := (byte1 w <? 32) && negb (value w =? 0) && (d_chan (decode w) =? 1).
Lemma with_chan_inner c x t y : with_chan (with_tc (with_chan c x) t) y = with_chan (with_tc c t) y.
Proof. destruct c; reflexivity. Qed.
Lemma step_ignores_chan c x w : c_err c = false -> is_dup c w = false -> ch1_code w = true -> step (with_chan c x) w = step c w.
Proof.
  unfold ch1_code, is_dup. intros He Hd H. apply andb_true_iff in H as [H H3]. apply andb_true_iff in H as [H1 H2].
  apply negb_true_iff in H2. unfold step. cbv zeta.
  change (c_err (with_chan c x)) with (c_err c). change (c_prev (with_chan c x)) with (c_prev c).
  change (c_tc (with_chan c x)) with (c_tc c).
  rewrite He, Hd, H1, H2, H3. cbn [negb]. rewrite with_chan_inner. reflexivity.
Qed.
(* interleaved words of another channel / null padding: the channel-1 code that follows is processed exactly as if
   only the frames had elapsed and previous_word had been forgotten - whatever that code is (full statement since the
   repair: a code repeated after the block is acted upon again) *)
Lemma channel_filter x b w c : c_err c = false -> is_dup c x = false -> block_ok (c_chan c) (x :: b) = true ->
  ch1_code w = true ->
  fold_left step ((x :: b) ++ [w]) c = step (with_prev (with_tc c (iter_n (length (x :: b)) tc_next (c_tc c))) None) w.
Proof.
  intros He Hd Hb Hw. rewrite fold_left_app. cbn [fold_left app]. 
  change (fold_left step b (step c x)) with (fold_left step (x :: b) c). rewrite channel_block by assumption.
  unfold skip_to.
  set (c' := with_tc c _).
  replace (with_prev (with_chan c' (chan_end (c_chan c) (x :: b))) None) with (with_chan (with_prev c' None) (chan_end (c_chan c) (x :: b)))
    by (destruct c; reflexivity).
  apply step_ignores_chan; [exact He|reflexivity|exact Hw].
Qed.

(* ---- doubled control codes ---- *)
Lemma prev_after_code c w : c_err c = false -> is_dup c w = false -> ch1_code w = true -> c_prev (step c w) = Some (value w).
Proof.
  unfold ch1_code, is_dup. intros He Hd H. apply andb_true_iff in H as [H H3]. apply andb_true_iff in H as [H1 H2].
  apply negb_true_iff in H2. unfold step. rewrite He, Hd, H1, H2, H3. reflexivity.
Qed.
(* the second copy of a doubled channel-1 code changes nothing but previous_word, and consumes no frame *)
Lemma doubled_once c w : c_err c = false -> is_dup c w = false -> ch1_code w = true ->
  step (step c w) w = with_prev (step c w) None /\ c_tc (step (step c w) w) = c_tc (step c w).
Proof.
  intros He Hd Hw. assert (He2 : c_err (step c w) = false) by (rewrite noerr_step; exact He). pose proof (prev_after_code c w He Hd Hw) as Hp.
  assert (Hdup : is_dup (step c w) w = true).
  { unfold is_dup. rewrite Hp, Z.eqb_refl, value_div. cbn [andb]. apply chan1_is_code.
    unfold ch1_code in Hw. apply andb_true_iff in Hw as [_ Hw]. now apply Z.eqb_eq in Hw. }
  split.
  - unfold is_dup in Hdup. unfold step at 1. rewrite He2, Hdup. reflexivity.
  - rewrite tc_step, He2, Hdup. reflexivity.
Qed.
