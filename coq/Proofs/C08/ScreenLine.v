(* C08, display simulation, part 2: a caption of the reader (SccCaptionParagraph: rows of text elements with styles)
   seen as a function row -> column -> cell, and what the paragraph operations used by the pop-on protocol do to
   it while the cursor is at the end of the row being written. *)
From Coq Require Import QArith.
From TT Require Import Base.Prelude Base.SccTypes Base.SccDoc Gen.SccTables Model.SccWord Model.TimeCode Model.SccReader Spec.Cea608Screen.
From TT Require Import Proofs.C08.Text Proofs.C08.ScreenMem.
Open Scope Z_scope.

(* ---- the cells of a text element, a line, a paragraph ---- *)
Definition vcol (st : tstyle) : Z := if ts_color st =? -1 then white else ts_color st.
Definition scell (st : tstyle) (ch : Z) : cell := mkCell ch (vcol st) (ts_italic st) (ts_under st).
Definition tcells (t : ctext) : list cell := map (scell (t_sty t)) (t_text t).
Definition lcells (l : cline) : list cell := flat_map tcells (l_texts l).
Definition lcell (l : cline) (c : Z) : cell :=
  if c <? l_indent l then blank else nth (Z.to_nat (c - l_indent l)) (lcells l) blank.
Definition pcell (p : para) (r c : Z) : cell := match dget r (p_lines p) with Some l => lcell l c | None => blank end.

Lemma tcells_length t : zlen (tcells t) = text_len t.
Proof. unfold tcells, text_len, zlen. now rewrite map_length. Qed.
Lemma flat_tcells_length ts : zlen (flat_map tcells ts) = sum_len ts.
Proof.
  induction ts as [|t ts IH]; cbn; [reflexivity|]. unfold zlen in *. rewrite app_length, Nat2Z.inj_add, IH.
  pose proof (tcells_length t) as H. unfold zlen in H. lia.
Qed.
Lemma lcells_length l : zlen (lcells l) = line_length l.
Proof. unfold lcells. rewrite line_length_sum. apply flat_tcells_length. Qed.
Lemma lcell_beyond l c : l_indent l + line_length l <= c -> lcell l c = blank.
Proof.
  intros H. unfold lcell. destruct (c <? l_indent l); [reflexivity|]. apply nth_overflow.
  pose proof (lcells_length l) as E. unfold zlen in E. pose proof (sum_len_nonneg (l_texts l)). rewrite line_length_sum in *. lia.
Qed.
Lemma lcell_empty l c : line_length l = 0 -> lcell l c = blank.
Proof.
  intros H. unfold lcell. destruct (c <? l_indent l); [reflexivity|].
  pose proof (lcells_length l) as E. rewrite H in E. unfold zlen in E. destruct (lcells l); [destruct (Z.to_nat _); reflexivity|cbn in E; lia].
Qed.
Lemma is_blank_scell st ch : is_blank (scell st ch) = (ch =? -1) || (ch =? 32).
Proof. reflexivity. Qed.

(* ---- dictionaries ---- *)
Lemma dget_dset {A} k k' (v : A) d : dget k (dset k' v d) = if k =? k' then Some v else dget k d.
Proof.
  destruct (k =? k') eqn:E.
  - assert (k = k') by lia. subst. apply dget_dset_same.
  - induction d as [|[k2 v2] d IH]; cbn.
    + now rewrite E.
    + destruct (k' =? k2) eqn:E2; cbn.
      * assert (k' = k2) by lia. subst. rewrite E. reflexivity.
      * destruct (k =? k2); [reflexivity|exact IH].
Qed.
Lemma dget_ddel_other {A} k k' (d : list (Z * A)) : k <> k' -> dget k (ddel k' d) = dget k d.
Proof.
  intros Hn. induction d as [|[k2 v2] d IH]; cbn; [reflexivity|].
  destruct (k' =? k2) eqn:E2; cbn.
  - assert (k' = k2) by lia. subst. destruct (k =? k2) eqn:E; [lia|reflexivity].
  - destruct (k =? k2); [reflexivity|exact IH].
Qed.
Lemma dget_ddel {A} k k' (d : list (Z * A)) : NoDup (map fst d) -> dget k (ddel k' d) = if k =? k' then None else dget k d.
Proof.
  intros Hn. destruct (k =? k') eqn:E.
  - assert (k = k') by lia. subst. now apply dget_ddel_nodup.
  - apply dget_ddel_other. lia.
Qed.
Lemma dget_in_keys {A} k (d : list (Z * A)) v : dget k d = Some v -> In k (map fst d).
Proof.
  induction d as [|[k2 v2] d IH]; cbn; [discriminate|]. destruct (k =? k2) eqn:E; [intros _; left; lia|intros H; right; auto].
Qed.
Lemma dget_none_keys {A} k (d : list (Z * A)) : dget k d = None -> ~ In k (map fst d).
Proof.
  induction d as [|[k2 v2] d IH]; cbn; [auto|]. destruct (k =? k2) eqn:E; [discriminate|]. intros H [H1|H1]; [lia|now apply IH].
Qed.
Lemma keys_dset_new {A} k (v : A) d : dget k d = None -> map fst (dset k v d) = map fst d ++ [k].
Proof.
  induction d as [|[k2 v2] d IH]; cbn; [reflexivity|]. destruct (k =? k2) eqn:E; [discriminate|]. intros H. cbn. now rewrite IH.
Qed.
Lemma keys_ddel_incl {A} k (d : list (Z * A)) : incl (map fst (ddel k d)) (map fst d).
Proof.
  induction d as [|[k2 v2] d IH]; cbn; [apply incl_refl|]. destruct (k =? k2); [apply incl_tl, incl_refl|].
  cbn. intros x [H|H]; [now left|right; now apply IH].
Qed.
Lemma nodup_ddel {A} k (d : list (Z * A)) : NoDup (map fst d) -> NoDup (map fst (ddel k d)).
Proof.
  induction d as [|[k2 v2] d IH]; cbn; [auto|]. intros H. inversion H; subst. destruct (k =? k2); [assumption|].
  cbn. constructor; [|auto]. intros Hin. apply H2. now apply (keys_ddel_incl k d).
Qed.
Lemma nodup_snoc {A} (l : list A) x : NoDup l -> ~ In x l -> NoDup (l ++ [x]).
Proof.
  induction l as [|y l IH]; cbn; intros Hn Hx; [constructor; [auto|constructor]|].
  inversion Hn; subst. constructor.
  - rewrite in_app_iff. intros [H|[H|[]]]; [contradiction|subst; apply Hx; now left].
  - apply IH; [assumption|]. intros H; apply Hx; now right.
Qed.
Lemma nodup_dset_new {A} k (v : A) d : dget k d = None -> NoDup (map fst d) -> NoDup (map fst (dset k v d)).
Proof. intros Hg Hn. rewrite keys_dset_new by exact Hg. apply nodup_snoc; [exact Hn|now apply dget_none_keys]. Qed.
Lemma dset_dset {A} k (v v' : A) d : dset k v (dset k v' d) = dset k v d.
Proof.
  induction d as [|[k2 v2] d IH]; cbn; [now rewrite Z.eqb_refl|].
  destruct (k =? k2) eqn:E; cbn; [now rewrite Z.eqb_refl|]. rewrite E. now rewrite IH.
Qed.

(* ---- text elements at their end ---- *)
Lemma text_append_end_eq t s : t_cur t = text_len t ->
  text_append t s = mkT (t_begin t) (t_text t ++ s) (text_len t + zlen s) (t_sty t).
Proof.
  intros H. destruct (text_append_end t s H) as [E1 E2]. unfold text_append in *.
  assert (H0 : 0 <= text_len t) by (unfold text_len, zlen; lia).
  rewrite H in *. destruct (text_len t <? 0) eqn:E; [lia|]. cbn [t_text] in E1. rewrite E1. reflexivity.
Qed.

(* the cursor of a line is at its end: the current text is the last one (texts = ts ++ [t]) and all cursors are at the end *)
Definition line_at (l : cline) (ts : list ctext) (t : ctext) : Prop :=
  l_texts l = ts ++ [t] /\ l_cur l = length ts /\ t_cur t = text_len t /\ l_cursor l = line_length l.
Lemma line_at_at_end l ts t : line_at l ts t -> at_end l.
Proof. intros (A & B & C & D). exists ts, t. repeat split; assumption. Qed.
Lemma line_at_length l ts t : line_at l ts t -> line_length l = sum_len ts + text_len t.
Proof. intros (A & _). rewrite line_length_sum, A, sum_len_app. cbn. lia. Qed.
Lemma line_at_new r i : line_at (line_new r i) [] text_new.
Proof. repeat split. Qed.
Lemma lcells_at l ts t : l_texts l = ts ++ [t] -> lcells l = flat_map tcells ts ++ tcells t.
Proof. intros A. unfold lcells. rewrite A, flat_map_app. cbn. now rewrite app_nil_r. Qed.

(* add_text(str) at the end of a line, as an equation *)
Lemma line_add_str_at l ts t s : line_at l ts t -> s <> [] ->
  line_add_str l s = mkL (l_row l) (l_indent l) (line_length l + zlen s)
                         (ts ++ [mkT (t_begin t) (t_text t ++ s) (text_len t + zlen s) (t_sty t)]) (length ts).
Proof.
  intros (Ets & Ecur & Etc & Elc) Hs.
  assert (Hlast : line_cur_is_last l = true).
  { unfold line_cur_is_last. rewrite Ets, Ecur, app_length. cbn [length]. rewrite Nat.add_1_r. apply Nat.eqb_refl. }
  unfold line_add_str. assert (Hloop : line_add_loop (2 * length s + 4) l s = (l, s)).
  { replace (2 * length s + 4)%nat with (S (2 * length s + 3)) by lia. cbn [line_add_loop]. rewrite Hlast. reflexivity. }
  rewrite Hloop. destruct s as [|ch s']; [contradiction|]. cbn [is_nil]. set (s := ch :: s') in *.
  unfold line_append_raw, line_upd_cur_text. cbn [l_row l_indent l_cursor l_texts l_cur].
  rewrite Ets, Ecur, upd_nth_last. rewrite (text_append_end_eq t s Etc).
  set (t' := mkT (t_begin t) (t_text t ++ s) (text_len t + zlen s) (t_sty t)).
  assert (Elen' : text_len t' = text_len t + zlen s) by (unfold t', text_len, zlen; cbn [t_text]; rewrite app_length; lia).
  assert (Hc : (if l_cursor l <? 0 then 0 else l_cursor l) = l_cursor l).
  { rewrite Elc, line_length_sum. pose proof (sum_len_nonneg (l_texts l)). destruct (_ <? 0) eqn:E; lia. }
  rewrite Hc. unfold line_set_cursor. cbn [l_row l_indent l_cursor l_texts l_cur].
  set (l2 := mkL (l_row l) (l_indent l) (l_cursor l) (ts ++ [t']) (length ts)).
  assert (Elen2 : line_length l2 = l_cursor l + zlen s).
  { rewrite line_length_sum. unfold l2. cbn [l_texts]. rewrite sum_len_app. cbn [sum_len]. rewrite Elen'.
    rewrite Elc, line_length_sum, Ets, sum_len_app. cbn [sum_len]. lia. }
  rewrite Elen2, Z.ltb_irrefl.
  assert (Esel : sel_text (ts ++ [t']) 0 (l_cursor l + zlen s) = Some (length ts, text_len t')).
  { replace (l_cursor l + zlen s) with (sum_len ts + text_len t').
    - rewrite sel_text_end. reflexivity.
    - rewrite Elen', Elc, line_length_sum, Ets, sum_len_app. cbn [sum_len]. lia. }
  rewrite Esel, upd_nth_last. rewrite Elc.
  assert (Eset : text_set_cur t' (text_len t') = t') by (rewrite Elen'; reflexivity).
  rewrite Eset. reflexivity.
Qed.
(* set_cursor at the end of a line that is already there changes nothing *)
Lemma line_set_cursor_at l ts t : line_at l ts t -> line_set_cursor l (line_length l) = l.
Proof.
  intros (Ets & Ecur & Etc & Elc). unfold line_set_cursor. rewrite Z.ltb_irrefl.
  assert (Esel : sel_text (l_texts l) 0 (line_length l) = Some (length ts, text_len t)).
  { rewrite line_length_sum, Ets, sum_len_app. cbn [sum_len]. rewrite Z.add_0_r. apply sel_text_end. }
  rewrite Esel, Ets, upd_nth_last.
  assert (Eset : text_set_cur t (text_len t) = t).
  { rewrite <- Etc. destruct t; reflexivity. }
  rewrite Eset, <- Ets, <- Ecur, <- Elc. destruct l; reflexivity.
Qed.

(* ---- styles: what is seen of a style, and the pen ---- *)
Definition sview (st : tstyle) : Z * bool * bool := (vcol st, ts_italic st, ts_under st).
Lemma scell_sview st st' ch : sview st = sview st' -> scell st ch = scell st' ch.
Proof. unfold sview, scell. intros H. inversion H. reflexivity. Qed.
(* add_style_property of the current colour, font style and text decoration (None is ignored) *)
Definition pen_apply (col : Z) (ita und : bool) (st : tstyle) : tstyle := sty_under (sty_italic (sty_color st col) ita) und.
Definition penview (col : Z) (ita und : bool) : Z * bool * bool := (if col =? -1 then white else col, ita, und).
Lemma pen_apply_view col ita und st : st = ts0 \/ sview st = penview col ita und -> sview (pen_apply col ita und st) = penview col ita und.
Proof.
  intros [->|H].
  - unfold pen_apply, sty_under, sty_italic, sty_color, penview, sview, vcol, ts0.
    destruct (col =? -1) eqn:E; destruct ita; destruct und; cbn; rewrite ?E; reflexivity.
  - destruct st as [c i u b]. unfold sview, penview, vcol in H. cbn in H. injection H as H1 H2 H3. subst i u.
    unfold pen_apply, sty_under, sty_italic, sty_color, penview, sview, vcol.
    destruct (col =? -1) eqn:E; destruct ita; destruct und; cbn; rewrite ?E; try rewrite H1; reflexivity.
Qed.
Lemma style_cur_text_eq c p : style_cur_text c p = upd_cur_text p (fun x => text_set_sty x (pen_apply (c_color c) (c_italic c) (c_under c) (t_sty x))).
Proof. reflexivity. Qed.

(* ---- a caption whose cursor is at the end of the row being written ---- *)
(* the cursor is on row r, column col, at the end of the line l (texts ts ++ [t]) stored under that row *)
Definition para_at (p : para) (r col : Z) (l : cline) (ts : list ctext) (t : ctext) : Prop :=
  p_cur p = Att r /\ dget r (p_lines p) = Some l /\ line_at l ts t /\ l_row l = r /\
  p_cursor p = (r, col) /\ col = l_indent l + line_length l.
Definition put_line (p : para) (r : Z) (l : cline) : para := set_plines p (dset r l (p_lines p)).
Lemma dget_put_line p r l r' : dget r' (p_lines (put_line p r l)) = if r' =? r then Some l else dget r' (p_lines p).
Proof. unfold put_line. cbn. apply dget_dset. Qed.
Lemma put_line_twice p r l l' : put_line (put_line p r l') r l = put_line p r l.
Proof. unfold put_line. cbn. now rewrite dset_dset. Qed.
Lemma pcell_put_line p r l r' c : pcell (put_line p r l) r' c = if r' =? r then lcell l c else pcell p r' c.
Proof. unfold pcell. rewrite dget_put_line. destruct (r' =? r); reflexivity. Qed.
Lemma pcell_set_cursor p x r c : pcell (set_cursor p x) r c = pcell p r c.
Proof. reflexivity. Qed.
Lemma keys_put_line p r l x : dget r (p_lines p) = Some x -> map fst (p_lines (put_line p r l)) = map fst (p_lines p).
Proof. intros H. unfold put_line. cbn. eapply dset_keys_present; eauto. Qed.
Lemma upd_cur_line_at p r l f : p_cur p = Att r -> dget r (p_lines p) = Some l -> upd_cur_line p f = put_line p r (f l).
Proof. intros Hc Hg. unfold upd_cur_line. rewrite Hc, Hg. reflexivity. Qed.
Lemma cur_line_at p r l : p_cur p = Att r -> dget r (p_lines p) = Some l -> cur_line p = l.
Proof. intros Hc Hg. unfold cur_line. now rewrite Hc, Hg. Qed.
Lemma cur_put_line p r l : p_cur (put_line p r l) = p_cur p.  Proof. reflexivity. Qed.
Lemma cursor_put_line p r l : p_cursor (put_line p r l) = p_cursor p.  Proof. reflexivity. Qed.

(* append_text at the end of the row *)
Definition text_app (t : ctext) (s : text) : ctext := mkT (t_begin t) (t_text t ++ s) (text_len t + zlen s) (t_sty t).
Definition line_app (l : cline) (ts : list ctext) (t : ctext) (s : text) : cline :=
  mkL (l_row l) (l_indent l) (line_length l + zlen s) (ts ++ [text_app t s]) (length ts).
Lemma text_len_app t s : text_len (text_app t s) = text_len t + zlen s.
Proof. unfold text_app, text_len, zlen. cbn. rewrite app_length. lia. Qed.
Lemma line_length_app l ts t s : line_at l ts t -> line_length (line_app l ts t s) = line_length l + zlen s.
Proof.
  intros H. rewrite (line_at_length l ts t H). rewrite line_length_sum. unfold line_app. cbn [l_texts].
  rewrite sum_len_app. cbn [sum_len]. rewrite text_len_app. lia.
Qed.
Lemma line_at_app l ts t s : line_at l ts t -> line_at (line_app l ts t s) ts (text_app t s).
Proof.
  intros H. repeat split; try reflexivity.
  - cbn. symmetry. apply text_len_app.
  - rewrite (line_length_app l ts t s H). reflexivity.
Qed.
Lemma zlen_pos {A} (s : list A) : s <> [] -> 0 < zlen s.
Proof. destruct s; [contradiction|]. intros _. unfold zlen. cbn [length]. lia. Qed.
Lemma zlen_nonneg {A} (s : list A) : 0 <= zlen s.
Proof. unfold zlen. lia. Qed.
Lemma line_length_nonneg l : 0 <= line_length l.
Proof. rewrite line_length_sum. apply sum_len_nonneg. Qed.

Lemma append_text_at p r col l ts t s : para_at p r col l ts t -> s <> [] ->
  append_text p s = set_cursor (put_line p r (line_app l ts t s)) (r, col + zlen s).
Proof.
  intros (Hc & Hg & Hl & Hr & Hcur & Hcol) Hs.
  unfold append_text. rewrite (upd_cur_line_at p r l _ Hc Hg). rewrite (line_add_str_at l ts t s Hl Hs).
  change (mkL (l_row l) (l_indent l) (line_length l + zlen s) (ts ++ [mkT (t_begin t) (t_text t ++ s) (text_len t + zlen s) (t_sty t)]) (length ts))
    with (line_app l ts t s).
  set (l1 := line_app l ts t s).
  assert (Hl1 : line_at l1 ts (text_app t s)) by now apply line_at_app.
  assert (Hlen1 : line_length l1 = line_length l + zlen s) by now apply line_length_app.
  unfold indent_cursor. rewrite cursor_put_line, Hcur. cbn [fst snd].
  set (q1 := set_cursor (put_line p r l1) (r, col + zlen s)).
  assert (Hc1 : p_cur q1 = Att r) by exact Hc.
  assert (Hg1 : dget r (p_lines q1) = Some l1) by (unfold q1; cbn [p_lines set_cursor]; rewrite dget_put_line, Z.eqb_refl; reflexivity).
  rewrite (cur_line_at q1 r l1 Hc1 Hg1).
  assert (Hne : line_is_empty l1 = false).
  { unfold line_is_empty. apply Z.eqb_neq. rewrite Hlen1. pose proof (line_length_nonneg l). pose proof (zlen_pos s Hs). lia. }
  rewrite Hne. unfold update_line_cursor. rewrite (cur_line_at q1 r l1 Hc1 Hg1). cbn [p_cursor q1 set_cursor snd].
  replace (col + zlen s - l_indent l1) with (line_length l1) by (rewrite Hlen1, Hcol; cbn; lia).
  assert (Hnn : (line_length l1 <? 0) = false) by (apply Z.ltb_ge; apply line_length_nonneg).
  rewrite Hnn. cbv iota. rewrite (cur_line_at q1 r l1 Hc1 Hg1), Z.sub_diag. change (0 <? 0) with false. cbv iota.
  rewrite (upd_cur_line_at q1 r l1 _ Hc1 Hg1). rewrite (line_set_cursor_at l1 ts _ Hl1).
  unfold q1. unfold put_line at 1. cbn [p_lines set_cursor set_plines]. unfold put_line. cbn [p_lines set_plines]. rewrite dset_dset. reflexivity.
Qed.
Lemma para_at_append p r col l ts t s : para_at p r col l ts t ->
  para_at (set_cursor (put_line p r (line_app l ts t s)) (r, col + zlen s)) r (col + zlen s) (line_app l ts t s) ts (text_app t s).
Proof.
  intros (Hc & Hg & Hl & Hr & Hcur & Hcol). split; [exact Hc|]. split; [cbn [p_lines set_cursor]; rewrite dget_put_line, Z.eqb_refl; reflexivity|].
  split; [now apply line_at_app|]. split; [exact Hr|]. split; [reflexivity|].
  rewrite (line_length_app l ts t s Hl). cbn [l_indent line_app]. lia.
Qed.
(* changes of the current text that keep its characters and cursor *)
Definition line_map_last (l : cline) (ts : list ctext) (t' : ctext) : cline := mkL (l_row l) (l_indent l) (l_cursor l) (ts ++ [t']) (l_cur l).
Lemma upd_cur_text_at p r col l ts t f : para_at p r col l ts t ->
  upd_cur_text p f = put_line p r (line_map_last l ts (f t)).
Proof.
  intros (Hc & Hg & (Ets & Ecur & Etc & Elc) & Hr & Hcur & Hcol). unfold upd_cur_text. rewrite (upd_cur_line_at p r l _ Hc Hg).
  unfold line_upd_cur_text, line_map_last. rewrite Ets, Ecur, upd_nth_last. reflexivity.
Qed.
Lemma para_at_map_last p r col l ts t t' : para_at p r col l ts t -> t_text t' = t_text t -> t_cur t' = t_cur t ->
  para_at (put_line p r (line_map_last l ts t')) r col (line_map_last l ts t') ts t'.
Proof.
  intros (Hc & Hg & (Ets & Ecur & Etc & Elc) & Hr & Hcur & Hcol) Ht Hcu.
  assert (Elen : line_length (line_map_last l ts t') = line_length l).
  { rewrite !line_length_sum. unfold line_map_last. cbn [l_texts]. rewrite Ets, !sum_len_app. cbn [sum_len]. unfold text_len. now rewrite Ht. }
  split; [exact Hc|]. split; [rewrite dget_put_line, Z.eqb_refl; reflexivity|]. split.
  - split; [reflexivity|]. split; [exact Ecur|]. split; [unfold text_len in *; rewrite Hcu, Ht; exact Etc|]. rewrite Elen. exact Elc.
  - split; [exact Hr|]. split; [exact Hcur|]. rewrite Elen. exact Hcol.
Qed.
(* new_caption_text: an empty text element at the end of the row *)
Definition line_new_text (l : cline) (ts : list ctext) (t : ctext) : cline :=
  mkL (l_row l) (l_indent l) (line_length l) ((ts ++ [t]) ++ [text_new]) (length (ts ++ [t])).
Lemma new_caption_text_at p r col l ts t : para_at p r col l ts t -> new_caption_text p = put_line p r (line_new_text l ts t).
Proof.
  intros (Hc & Hg & (Ets & Ecur & Etc & Elc) & Hr & Hcur & Hcol). unfold new_caption_text. rewrite (upd_cur_line_at p r l _ Hc Hg).
  unfold line_add_obj, line_new_text. rewrite Ets. f_equal. f_equal.
  change (fold_right (fun t0 a => text_len t0 + a) 0 ((ts ++ [t]) ++ [text_new])) with (line_length (mkL 0 0 0 ((ts ++ [t]) ++ [text_new]) 0)).
  rewrite !line_length_sum, Ets. cbn [l_texts]. rewrite !sum_len_app. cbn. lia.
Qed.
Lemma para_at_new_text p r col l ts t : para_at p r col l ts t ->
  para_at (put_line p r (line_new_text l ts t)) r col (line_new_text l ts t) (ts ++ [t]) text_new.
Proof.
  intros (Hc & Hg & (Ets & Ecur & Etc & Elc) & Hr & Hcur & Hcol).
  assert (Elen : line_length (line_new_text l ts t) = line_length l).
  { rewrite !line_length_sum. unfold line_new_text. cbn [l_texts]. rewrite Ets, !sum_len_app. cbn. lia. }
  split; [exact Hc|]. split; [rewrite dget_put_line, Z.eqb_refl; reflexivity|]. split.
  - split; [reflexivity|]. split; [reflexivity|]. split; [reflexivity|]. rewrite Elen. reflexivity.
  - split; [exact Hr|]. split; [exact Hcur|]. rewrite Elen. exact Hcol.
Qed.
