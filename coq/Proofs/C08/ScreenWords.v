(* C08, display simulation, part 4: how SccLine.process (M) and the reference decoder (S) classify a word; the
   equations of `step` and `feed` for each class. *)
From Coq Require Import QArith.
From TT Require Import Base.Prelude Base.SccTypes Base.SccDoc Gen.SccTables Model.SccWord Model.TimeCode Model.SccReader Spec.Cea608Screen.
From TT Require Import Proofs.C08.Stamps Proofs.C08.Words.
Open Scope Z_scope.

Lemma byte1_range w : 0 <= byte1 w < 128.
Proof. unfold byte1. change parity_mask with (Z.ones 7). rewrite Z.land_ones by lia. apply Z.mod_pos_bound. reflexivity. Qed.
Lemma value_mod w : value w mod 256 = byte2 w.
Proof. unfold value. pose proof (byte2_range w). rewrite Z.add_comm, Z.mod_add by lia. apply Z.mod_small. lia. Qed.
(* decode depends on the value only *)
Lemma decode_value w w' : value w = value w' -> decode w = decode w'.
Proof.
  intros H. assert (H1 : byte1 w = byte1 w') by (rewrite <- !value_div; now rewrite H).
  assert (H2 : byte2 w = byte2 w') by (rewrite <- !value_mod; now rewrite H).
  unfold decode. rewrite H, H1, H2. reflexivity.
Qed.
Lemma find_pac_cls b1 b2 d : find_pac b1 b2 = Some d -> d_cls d = cPac.
Proof.
  unfold find_pac. destruct (pac_row b1 b2); [|discriminate]. destruct (_ && _); [|discriminate].
  destruct (assoc pac_desc _) as [[[[col ind] it] un]|]; [|discriminate]. intros H; inversion H; reflexivity.
Qed.
(* null padding *)
Lemma decode_pad w : value w = 0 -> d_cls (decode w) = cPad.
Proof.
  intros H. assert (H1 : byte1 w = 0) by (rewrite <- value_div, H; reflexivity).
  unfold decode. rewrite H, H1. reflexivity.
Qed.
(* control-range words are neither padding nor characters *)
Lemma decode_code_cls w : value w <> 0 -> byte1 w < 32 -> d_cls (decode w) <> cPad /\ d_cls (decode w) <> cChars.
Proof.
  intros Hv Hb. unfold decode. destruct (is_code (byte1 w)).
  - destruct (find_control _ _) as [[id [[[a b] c'] d']]|]; [cbn; split; discriminate|].
    destruct (find2 attribute_codes _) as [[[a b] [[col bg] un]]|]; [cbn; split; discriminate|].
    destruct (find2 mid_row_codes _) as [[[a b] [[col it] un]]|]; [cbn; split; discriminate|].
    destruct (find_pac _ _) as [d|] eqn:E; [rewrite (find_pac_cls _ _ _ E); split; discriminate|].
    destruct (find2 special_chars _) as [[[a b] u]|]; [cbn; split; discriminate|].
    destruct (find2 extended_chars _) as [[[a b] u]|]; cbn; split; discriminate.
  - destruct (value w =? 0) eqn:E; [lia|]. destruct (byte1 w <? 32) eqn:E2; [cbn; split; discriminate|lia].
Qed.
(* characters *)
Lemma decode_chars w : 32 <= byte1 w ->
  decode w = mkDec cChars 0 (-1) (-1) (-1) (-1) false false false (char_of (byte1 w)) (char_of (byte2 w)).
Proof.
  intros H. unfold decode. replace (is_code (byte1 w)) with false by (unfold is_code; lia).
  assert (value w <> 0) by (unfold value; pose proof (byte2_range w); lia).
  destruct (value w =? 0) eqn:E; [lia|]. destruct (byte1 w <? 32) eqn:E2; [lia|reflexivity].
Qed.
Lemma char_of_first w : 32 <= byte1 w -> char_of (byte1 w) <> -1.
Proof.
  intros H. unfold char_of. destruct (byte1 w =? 0) eqn:E; [lia|].
  pose proof (byte1_range w). destruct (assoc std_chars (byte1 w)) eqn:E2; [|lia].
  (* every entry of the table maps to a code point *)
  assert (G : forall (l : list (Z * Z)) k v, assoc l k = Some v -> In (k, v) l).
  { induction l as [|[x r] l IH]; cbn; [discriminate|]. intros k v. destruct (k =? x) eqn:Ex; [intros Hh; inversion Hh; left; f_equal; lia|right; auto]. }
  apply G in E2. assert (F : forallb (fun kv => negb (snd kv =? -1)) std_chars = true) by reflexivity.
  rewrite forallb_forall in F. specialize (F _ E2). cbn in F. lia.
Qed.
Lemma to_text_chars w : 32 <= byte1 w ->
  to_text w = d_t1 (decode w) :: (if d_t2 (decode w) =? -1 then [] else [d_t2 (decode w)]).
Proof.
  intros H. rewrite (decode_chars w H). cbn [d_t1 d_t2]. unfold to_text. cbn [filter].
  pose proof (char_of_first w H). destruct (char_of (byte1 w) =? -1) eqn:E; [lia|]. cbn [negb].
  destruct (char_of (byte2 w) =? -1); reflexivity.
Qed.
(* a control-range word of data channel 1 *)
Lemma ch1_code_iff w : ch1_code w = true <-> d_chan (decode w) = 1.
Proof.
  unfold ch1_code. split.
  - intros H. lia.
  - intros H. pose proof (chan1_is_code w H) as Hc. unfold is_code in Hc.
    assert (value w <> 0) by (unfold value; pose proof (byte2_range w); lia). lia.
Qed.
Lemma ch1_bytes w : d_chan (decode w) = 1 -> (byte1 w <? 32) = true /\ (value w =? 0) = false.
Proof. intros H. apply ch1_code_iff in H. unfold ch1_code in H. lia. Qed.

(* ---- SccLine.process, by kind of word ---- *)
Lemma is_dup_pad c w : value w = 0 -> is_dup c w = false.
Proof. intros H. unfold is_dup. destruct (c_prev c) as [pv|]; [|reflexivity]. rewrite H. destruct (pv =? 0) eqn:E; [|reflexivity]. assert (pv = 0) by lia. subst. reflexivity. Qed.
Lemma is_dup_chars c w : 32 <= byte1 w -> is_dup c w = false.
Proof.
  intros H. unfold is_dup. destruct (c_prev c) as [pv|]; [|reflexivity]. destruct (pv =? value w) eqn:E; [|reflexivity].
  assert (pv = value w) by lia. subst. rewrite value_div. unfold is_code. lia.
Qed.
Lemma step_pad c w : c_err c = false -> value w = 0 -> step c w = with_prev (with_tc c (tc_next (c_tc c))) None.
Proof.
  intros He Hv. pose proof (is_dup_pad c w Hv) as Hd. unfold is_dup in Hd. unfold step. rewrite He, Hd, Hv. reflexivity.
Qed.
Lemma step_other c w : c_err c = false -> is_dup c w = false -> value w <> 0 -> byte1 w < 32 -> d_chan (decode w) <> 1 ->
  step c w = with_prev (with_chan (with_tc c (tc_next (c_tc c))) (d_chan (decode w))) None.
Proof.
  intros He Hd Hv Hb Hc. unfold is_dup in Hd. unfold step. rewrite He, Hd.
  replace (value w =? 0) with false by lia. replace (byte1 w <? 32) with true by lia.
  replace (d_chan (decode w) =? 1) with false by lia. reflexivity.
Qed.
Lemma step_dup c w : c_err c = false -> is_dup c w = true -> step c w = with_prev c None.
Proof. intros He Hd. unfold is_dup in Hd. unfold step. rewrite He, Hd. reflexivity. Qed.
Lemma step_chars c w : c_err c = false -> 32 <= byte1 w ->
  step c w = let c1 := with_tc c (tc_next (c_tc c)) in
             if negb (c_chan c =? 1) then with_prev c1 None
             else with_prev (with_prev_type (process_text c1 (to_text w)) cChars) (Some (value w)).
Proof.
  intros He Hb. pose proof (is_dup_chars c w Hb) as Hd. unfold is_dup in Hd. unfold step. rewrite He, Hd.
  assert (value w <> 0) by (unfold value; pose proof (byte2_range w); lia).
  replace (value w =? 0) with false by lia. replace (byte1 w <? 32) with false by lia. reflexivity.
Qed.
(* a channel-1 code that is acted upon *)
Definition code_ctx (c : ctx) : ctx := with_chan (with_tc c (tc_next (c_tc c))) 1.
Lemma step_code c w : c_err c = false -> is_dup c w = false -> d_chan (decode w) = 1 ->
  step c w =
  let d := decode w in let c := code_ctx c in
  with_prev
    (if d_cls d =? cPac then with_prev_type (process_pac c d) cPac
     else if d_cls d =? cAttr then with_prev_type (process_attribute c d) cAttr
     else if d_cls d =? cMidRow then with_prev_type (process_mid_row c d) cMidRow
     else if d_cls d =? cControl then with_prev_type (process_control c (d_code d)) cControl
     else if d_cls d =? cSpecial then with_prev_type (process_text c [d_t1 d]) cSpecial
     else if d_cls d =? cExtended then with_prev_type (process_text (backspace c) [d_t1 d]) cExtended
     else with_prev_type c (-1)) (Some (value w)).
Proof.
  intros He Hd Hc. destruct (ch1_bytes w Hc) as [H1 H2]. unfold is_dup in Hd. unfold step. rewrite He, Hd, H1, H2, Hc. reflexivity.
Qed.

(* ---- the reference decoder, by kind of word ---- *)
Lemma feed_pad v s w : value w = 0 -> feed v s w = set_last s None.
Proof. intros H. unfold feed. rewrite (decode_pad w H). reflexivity. Qed.
Lemma feed_chars v s w : 32 <= byte1 w ->
  feed v s w = let s0 := set_last s None in
               if chan s0 =? 1 then let s1 := put (set_pmid s0 false) (d_t1 (decode w)) in
                                    if d_t2 (decode w) =? -1 then s1 else put s1 (d_t2 (decode w))
               else s0.
Proof. intros H. unfold feed. rewrite (decode_chars w H). reflexivity. Qed.
Lemma feed_code_cls v s w : value w <> 0 -> byte1 w < 32 ->
  feed v s w = let d := decode w in let x := value w in
    if negb (d_chan d =? 1) then
      let s := set_last s (if is_second_copy s w then None else Some x) in
      if d_chan d =? 2 then set_chan s 2 else s
    else if is_second_copy s w then set_last s None
    else act v (set_chan (set_last s (Some x)) 1) d.
Proof.
  intros Hv Hb. destruct (decode_code_cls w Hv Hb) as [H1 H2]. unfold feed.
  replace (d_cls (decode w) =? cPad) with false by (symmetry; apply Z.eqb_neq; exact H1).
  replace (d_cls (decode w) =? cChars) with false by (symmetry; apply Z.eqb_neq; exact H2). reflexivity.
Qed.
