(* C08: characters accumulate in the order received, and a backspace / extended character replaces the preceding
   character — on the model, for every caption whose cursor is at the end of its current row (the situation of all
   three protocols while a row is being written). *)
From Coq Require Import QArith.
From TT Require Import Base.Prelude Base.SccTypes Base.SccDoc Gen.SccTables Model.SccWord Model.TimeCode Model.SccReader.
Open Scope Z_scope.

(* the characters of a row, in order *)
Definition line_text (l : cline) : text := flat_map t_text (l_texts l).
Fixpoint sum_len (ts : list ctext) : Z := match ts with [] => 0 | t :: ts' => text_len t + sum_len ts' end.
Lemma line_length_sum l : line_length l = sum_len (l_texts l).
Proof. unfold line_length. induction (l_texts l); cbn; [reflexivity|]. now rewrite IHl0. Qed.
Lemma sum_len_nonneg ts : 0 <= sum_len ts.
Proof. induction ts; cbn; [lia|]. unfold text_len, zlen. lia. Qed.
Lemma sum_len_flat ts : sum_len ts = zlen (flat_map t_text ts).
Proof. induction ts as [|t ts IH]; cbn; [reflexivity|]. unfold zlen in *. rewrite app_length, Nat2Z.inj_add, <- IH. reflexivity. Qed.

(* the cursor is at the end of the row: the current text is the last one, its cursor is at its end, and the line's
   cursor is the line's length *)
Definition at_end (l : cline) : Prop :=
  exists ts t, l_texts l = ts ++ [t] /\ l_cur l = length ts /\ t_cur t = text_len t /\ l_cursor l = line_length l.

Lemma sel_text_end ts : forall t idx, sel_text (ts ++ [t]) idx (sum_len ts + text_len t) = Some ((idx + length ts)%nat, text_len t).
Proof.
  induction ts as [|x ts IH]; intros t idx; cbn [app sel_text sum_len length is_nil].
  - rewrite Z.add_0_l, Z.ltb_irrefl, Z.eqb_refl. cbn. now rewrite Nat.add_0_r.
  - pose proof (sum_len_nonneg ts). assert (Ht : 0 <= text_len t) by (unfold text_len, zlen; lia).
    replace ((text_len x <? text_len x + sum_len ts + text_len t) || ((text_len x + sum_len ts + text_len t =? text_len x) && negb (is_nil (ts ++ [t]))))
      with true.
    + replace (text_len x + sum_len ts + text_len t - text_len x) with (sum_len ts + text_len t) by lia.
      rewrite IH. f_equal. f_equal. lia.
    + symmetry. destruct (text_len x <? text_len x + sum_len ts + text_len t) eqn:E; [reflexivity|].
      cbn [orb]. apply Z.ltb_ge in E. replace (text_len x + sum_len ts + text_len t =? text_len x) with true by (symmetry; apply Z.eqb_eq; lia).
      destruct ts; reflexivity.
Qed.
Lemma upd_nth_last {A} (f : A -> A) ts t : upd_nth (length ts) f (ts ++ [t]) = ts ++ [f t].
Proof. induction ts as [|x ts IH]; cbn; [reflexivity|]. now rewrite IH. Qed.
Lemma nth_last {A} ts (t d : A) : nth (length ts) (ts ++ [t]) d = t.
Proof. induction ts; cbn; auto. Qed.
Lemma sum_len_app ts us : sum_len (ts ++ us) = sum_len ts + sum_len us.
Proof. induction ts; cbn; [reflexivity|]. rewrite IHts. lia. Qed.
Lemma firstn_zlen {A} (l : list A) : firstn (Z.to_nat (zlen l)) l = l.
Proof. unfold zlen. rewrite Nat2Z.id. apply firstn_all. Qed.
Lemma skipn_beyond {A} (l : list A) k : zlen l <= k -> skipn (Z.to_nat k) l = [].
Proof. intros H. apply skipn_all2. unfold zlen in H. lia. Qed.
(* appending at the end of a text *)
Lemma text_append_end t s : t_cur t = text_len t ->
  t_text (text_append t s) = t_text t ++ s /\ t_cur (text_append t s) = text_len (text_append t s).
Proof.
  intros H. unfold text_append. assert (H0 : 0 <= text_len t) by (unfold text_len, zlen; lia).
  rewrite H. destruct (text_len t <? 0) eqn:E; [lia|]. cbn [t_text t_cur]. unfold py_to, py_from.
  destruct (0 <=? text_len t) eqn:E1; [|lia]. destruct (0 <=? text_len t + zlen s) eqn:E2; [|unfold zlen in *; lia].
  unfold text_len in *. rewrite firstn_zlen. rewrite skipn_beyond by (unfold zlen; lia). rewrite app_nil_r. split; [reflexivity|].
  cbn [t_text]. unfold zlen. rewrite app_length. lia.
Qed.
(* add_text(str) at the end of a row appends the characters and leaves the cursor at the end *)
Lemma line_add_str_end l s : at_end l -> s <> [] -> at_end (line_add_str l s) /\ line_text (line_add_str l s) = line_text l ++ s /\
  l_indent (line_add_str l s) = l_indent l /\ l_row (line_add_str l s) = l_row l.
Proof.
  intros (ts & t & Ets & Ecur & Etc & Elc) Hs.
  assert (Hlast : line_cur_is_last l = true).
  { unfold line_cur_is_last. rewrite Ets, Ecur, app_length. cbn [length]. rewrite Nat.add_1_r. apply Nat.eqb_refl. }
  unfold line_add_str. assert (Hloop : line_add_loop (2 * length s + 4) l s = (l, s)).
  { replace (2 * length s + 4)%nat with (S (2 * length s + 3)) by lia. cbn [line_add_loop]. rewrite Hlast. reflexivity. }
  rewrite Hloop. destruct s as [|ch s']; [contradiction|]. cbn [is_nil]. set (s := ch :: s') in *.
  unfold line_append_raw, line_upd_cur_text. cbn [l_row l_indent l_cursor l_texts l_cur].
  rewrite Ets, Ecur, upd_nth_last.
  destruct (text_append_end t s Etc) as [Ea Eb].
  assert (Hc : (if l_cursor l <? 0 then 0 else l_cursor l) = l_cursor l).
  { rewrite Elc, line_length_sum. pose proof (sum_len_nonneg (l_texts l)). destruct (_ <? 0) eqn:E; lia. }
  rewrite Hc. unfold line_set_cursor. cbn [l_row l_indent l_cursor l_texts l_cur].
  set (l2 := mkL (l_row l) (l_indent l) (l_cursor l) (ts ++ [text_append t s]) (length ts)).
  assert (Elen2 : line_length l2 = l_cursor l + zlen s).
  { rewrite line_length_sum. unfold l2. cbn [l_texts]. rewrite sum_len_app. cbn [sum_len]. unfold text_len at 1. rewrite Ea.
    rewrite Elc, line_length_sum, Ets, sum_len_app. cbn [sum_len]. unfold text_len, zlen. rewrite app_length. lia. }
  rewrite Elen2, Z.ltb_irrefl.
  assert (Esel : sel_text (ts ++ [text_append t s]) 0 (l_cursor l + zlen s) = Some (length ts, text_len (text_append t s))).
  { replace (l_cursor l + zlen s) with (sum_len ts + text_len (text_append t s)).
    - rewrite sel_text_end. reflexivity.
    - unfold text_len at 1. rewrite Ea, Elc, line_length_sum, Ets, sum_len_app. cbn [sum_len]. unfold text_len, zlen. rewrite app_length. lia. }
  rewrite Esel. rewrite upd_nth_last. repeat split.
  - exists ts, (text_set_cur (text_append t s) (text_len (text_append t s))). cbn [l_texts l_cur l_cursor]. repeat split.
    rewrite line_length_sum. cbn [l_texts]. rewrite sum_len_app. cbn [sum_len]. unfold text_len at 2 3. cbn [text_set_cur t_text].
    rewrite <- Elen2, line_length_sum. unfold l2. cbn [l_texts]. rewrite sum_len_app. cbn [sum_len]. unfold text_len. lia.
  - unfold line_text. cbn [l_texts]. rewrite Ets, !flat_map_app. cbn [flat_map text_set_cur t_text]. rewrite Ea, !app_nil_r, app_assoc. reflexivity.
Qed.
