(* C08: characters accumulate in the order received, and a backspace / extended character replaces the preceding
   character — on the model, for every caption whose cursor is at the end of its current row (the situation of all
   three protocols while a row is being written). *)
From Coq Require Import QArith.
From TT Require Import Base.Prelude Base.SccTypes Base.SccDoc Gen.SccTables Model.SccWord Model.TimeCode Model.SccReader.
Open Scope Z_scope.

(* the characters of a row, in order *)
Definition line_text (l : cline) : text := flat_map t_text (l_texts l).
Fixpoint sum_len (ts : list ctext) : Z := match ts with [] => 0 | t :: ts' => text_len t + sum_len ts' end.
Lemma line_length_sum l : line_length l = sum_len (l_texts l).
Proof. unfold line_length. induction (l_texts l); cbn; [reflexivity|]. now rewrite IHl0. Qed.
Lemma sum_len_nonneg ts : 0 <= sum_len ts.
Proof. induction ts; cbn; [lia|]. unfold text_len, zlen. lia. Qed.
Lemma sum_len_flat ts : sum_len ts = zlen (flat_map t_text ts).
Proof. induction ts as [|t ts IH]; cbn; [reflexivity|]. unfold zlen in *. rewrite app_length, Nat2Z.inj_add, <- IH. reflexivity. Qed.

(* the cursor is at the end of the row: the current text is the last one, its cursor is at its end, and the line's
   cursor is the line's length *)
Definition at_end (l : cline) : Prop :=
  exists ts t, l_texts l = ts ++ [t] /\ l_cur l = length ts /\ t_cur t = text_len t /\ l_cursor l = line_length l.

Lemma sel_text_end ts : forall t idx, sel_text (ts ++ [t]) idx (sum_len ts + text_len t) = Some ((idx + length ts)%nat, text_len t).
Proof.
  induction ts as [|x ts IH]; intros t idx; cbn [app sel_text sum_len length is_nil].
  - rewrite Z.add_0_l, Z.ltb_irrefl, Z.eqb_refl. cbn. now rewrite Nat.add_0_r.
  - pose proof (sum_len_nonneg ts). assert (Ht : 0 <= text_len t) by (unfold text_len, zlen; lia).
    replace ((text_len x <? text_len x + sum_len ts + text_len t) || ((text_len x + sum_len ts + text_len t =? text_len x) && negb (is_nil (ts ++ [t]))))
      with true.
    + replace (text_len x + sum_len ts + text_len t - text_len x) with (sum_len ts + text_len t) by lia.
      rewrite IH. f_equal. f_equal. lia.
    + symmetry. destruct (text_len x <? text_len x + sum_len ts + text_len t) eqn:E; [reflexivity|].
      cbn [orb]. apply Z.ltb_ge in E. replace (text_len x + sum_len ts + text_len t =? text_len x) with true by (symmetry; apply Z.eqb_eq; lia).
      destruct ts; reflexivity.
Qed.
Lemma upd_nth_last {A} (f : A -> A) ts t : upd_nth (length ts) f (ts ++ [t]) = ts ++ [f t].
Proof. induction ts as [|x ts IH]; cbn; [reflexivity|]. now rewrite IH. Qed.
Lemma nth_last {A} ts (t d : A) : nth (length ts) (ts ++ [t]) d = t.
Proof. induction ts; cbn; auto. Qed.
Lemma sum_len_app ts us : sum_len (ts ++ us) = sum_len ts + sum_len us.
Proof. induction ts; cbn; [reflexivity|]. rewrite IHts. lia. Qed.
Lemma firstn_zlen {A} (l : list A) : firstn (Z.to_nat (zlen l)) l = l.
Proof. unfold zlen. rewrite Nat2Z.id. apply firstn_all. Qed.
Lemma skipn_beyond {A} (l : list A) k : zlen l <= k -> skipn (Z.to_nat k) l = [].
Proof. intros H. apply skipn_all2. unfold zlen in H. lia. Qed.
(* appending at the end of a text *)
Lemma text_append_end t s : t_cur t = text_len t ->
  t_text (text_append t s) = t_text t ++ s /\ t_cur (text_append t s) = text_len (text_append t s).
Proof.
  intros H. unfold text_append. assert (H0 : 0 <= text_len t) by (unfold text_len, zlen; lia).
  rewrite H. destruct (text_len t <? 0) eqn:E; [lia|]. cbn [t_text t_cur]. unfold py_to, py_from.
  destruct (0 <=? text_len t) eqn:E1; [|lia]. destruct (0 <=? text_len t + zlen s) eqn:E2; [|unfold zlen in *; lia].
  unfold text_len in *. rewrite firstn_zlen. rewrite skipn_beyond by (unfold zlen; lia). rewrite app_nil_r. split; [reflexivity|].
  cbn [t_text]. unfold zlen. rewrite app_length. lia.
Qed.
(* add_text(str) at the end of a row appends the characters and leaves the cursor at the end *)
Lemma line_add_str_end l s : at_end l -> s <> [] -> at_end (line_add_str l s) /\ line_text (line_add_str l s) = line_text l ++ s /\
  l_indent (line_add_str l s) = l_indent l /\ l_row (line_add_str l s) = l_row l.
Proof.
  intros (ts & t & Ets & Ecur & Etc & Elc) Hs.
  assert (Hlast : line_cur_is_last l = true).
  { unfold line_cur_is_last. rewrite Ets, Ecur, app_length. cbn [length]. rewrite Nat.add_1_r. apply Nat.eqb_refl. }
  unfold line_add_str. assert (Hloop : line_add_loop (2 * length s + 4) l s = (l, s)).
  { replace (2 * length s + 4)%nat with (S (2 * length s + 3)) by lia. cbn [line_add_loop]. rewrite Hlast. reflexivity. }
  rewrite Hloop. destruct s as [|ch s']; [contradiction|]. cbn [is_nil]. set (s := ch :: s') in *.
  unfold line_append_raw, line_upd_cur_text. cbn [l_row l_indent l_cursor l_texts l_cur].
  rewrite Ets, Ecur, upd_nth_last.
  destruct (text_append_end t s Etc) as [Ea Eb].
  assert (Hc : (if l_cursor l <? 0 then 0 else l_cursor l) = l_cursor l).
  { rewrite Elc, line_length_sum. pose proof (sum_len_nonneg (l_texts l)). destruct (_ <? 0) eqn:E; lia. }
  rewrite Hc. unfold line_set_cursor. cbn [l_row l_indent l_cursor l_texts l_cur].
  set (l2 := mkL (l_row l) (l_indent l) (l_cursor l) (ts ++ [text_append t s]) (length ts)).
  assert (Elen2 : line_length l2 = l_cursor l + zlen s).
  { rewrite line_length_sum. unfold l2. cbn [l_texts]. rewrite sum_len_app. cbn [sum_len]. unfold text_len at 1. rewrite Ea.
    rewrite Elc, line_length_sum, Ets, sum_len_app. cbn [sum_len]. unfold text_len, zlen. rewrite app_length. lia. }
  rewrite Elen2, Z.ltb_irrefl.
  assert (Esel : sel_text (ts ++ [text_append t s]) 0 (l_cursor l + zlen s) = Some (length ts, text_len (text_append t s))).
  { replace (l_cursor l + zlen s) with (sum_len ts + text_len (text_append t s)).
    - rewrite sel_text_end. reflexivity.
    - unfold text_len at 1. rewrite Ea, Elc, line_length_sum, Ets, sum_len_app. cbn [sum_len]. unfold text_len, zlen. rewrite app_length. lia. }
  rewrite Esel. rewrite upd_nth_last. repeat split.
  - exists ts, (text_set_cur (text_append t s) (text_len (text_append t s))). cbn [l_texts l_cur l_cursor]. repeat split.
    rewrite <- Elen2, !line_length_sum. unfold l2. cbn [l_texts]. rewrite !sum_len_app. reflexivity.
  - unfold line_text. cbn [l_texts]. rewrite Ets, !flat_map_app. cbn [flat_map text_set_cur t_text]. rewrite Ea, !app_nil_r, app_assoc. reflexivity.
Qed.

Lemma dget_dset_same {A} k (v : A) d : dget k (dset k v d) = Some v.
Proof. induction d as [|[k' v'] d IH]; cbn; [now rewrite Z.eqb_refl|]. destruct (k =? k') eqn:E; cbn; [now rewrite Z.eqb_refl|now rewrite E]. Qed.
(* moving the line cursor to the end of a row whose cursor is already there changes nothing but cursors *)
Lemma line_set_cursor_end l : at_end l ->
  at_end (line_set_cursor l (line_length l)) /\ line_text (line_set_cursor l (line_length l)) = line_text l /\
  l_indent (line_set_cursor l (line_length l)) = l_indent l /\ l_row (line_set_cursor l (line_length l)) = l_row l /\
  line_length (line_set_cursor l (line_length l)) = line_length l.
Proof.
  intros (ts & t & Ets & Ecur & Etc & Elc). unfold line_set_cursor. rewrite Z.ltb_irrefl.
  assert (Esel : sel_text (l_texts l) 0 (line_length l) = Some (length ts, text_len t)).
  { rewrite line_length_sum, Ets, sum_len_app. cbn [sum_len]. rewrite Z.add_0_r. apply sel_text_end. }
  rewrite Esel, Ets, upd_nth_last. cbn [l_indent l_row]. repeat split.
  - exists ts, (text_set_cur t (text_len t)). cbn [l_texts l_cur l_cursor]. repeat split.
    rewrite !line_length_sum. cbn [l_texts]. rewrite Ets, !sum_len_app. reflexivity.
  - unfold line_text. cbn [l_texts]. rewrite Ets, !flat_map_app. reflexivity.
  - rewrite !line_length_sum. cbn [l_texts]. rewrite Ets, !sum_len_app. reflexivity.
Qed.

(* a caption whose cursor is at the end of the row it is writing *)
Definition row_ready (p : para) : Prop :=
  exists r l, p_cur p = Att r /\ dget r (p_lines p) = Some l /\ at_end l /\ l_row l = r /\
              p_cursor p = (r, l_indent l + line_length l).
Definition row_text (p : para) : text := line_text (cur_line p).

Lemma append_text_ready p s : row_ready p -> s <> [] -> row_ready (append_text p s) /\ row_text (append_text p s) = row_text p ++ s.
Proof.
  intros (r & l & Hc & Hg & He & Hr & Hcur) Hs.
  destruct (line_add_str_end l s He Hs) as (He1 & Ht1 & Hi1 & Hr1).
  set (l1 := line_add_str l s) in *.
  assert (Hlen1 : line_length l1 = line_length l + zlen s).
  { rewrite !line_length_sum, !sum_len_flat. fold (line_text l1). fold (line_text l). rewrite Ht1. unfold zlen. rewrite app_length. lia. }
  unfold append_text, upd_cur_line. rewrite Hc, Hg. fold l1.
  unfold indent_cursor. cbn [p_cursor set_cursor set_plines fst snd]. rewrite Hcur. cbn [fst snd].
  set (q1 := set_cursor (set_plines p (dset r l1 (p_lines p))) (r, l_indent l + line_length l + zlen s)).
  assert (Ecl : cur_line q1 = l1).
  { unfold cur_line. change (p_cur q1) with (p_cur p). change (p_lines q1) with (dset r l1 (p_lines p)). rewrite Hc, dget_dset_same. reflexivity. }
  rewrite Ecl. assert (Hne : line_is_empty l1 = false).
  { unfold line_is_empty. apply Z.eqb_neq. rewrite Hlen1. pose proof (sum_len_nonneg (l_texts l)). rewrite line_length_sum.
    destruct s; [contradiction|]. unfold zlen. cbn [length]. lia. }
  rewrite Hne. unfold update_line_cursor. rewrite Ecl. cbn [p_cursor q1 set_cursor snd].
  replace (l_indent l + line_length l + zlen s - l_indent l1) with (line_length l1) by (rewrite Hi1, Hlen1; lia).
  assert (Hnn : (line_length l1 <? 0) = false) by (apply Z.ltb_ge; rewrite line_length_sum; apply sum_len_nonneg).
  rewrite Hnn. cbv iota. rewrite Ecl, Z.sub_diag. change (0 <? 0) with false. cbv iota.
  unfold upd_cur_line. cbn [p_cur q1 set_cursor set_plines p_lines]. rewrite Hc, dget_dset_same.
  destruct (line_set_cursor_end l1 He1) as (He2 & Ht2 & Hi2 & Hr2 & Hl2).
  subst q1. cbn [p_cur p_lines p_cursor set_plines set_cursor].
  split.
  - exists r, (line_set_cursor l1 (line_length l1)). cbn [p_cur p_lines p_cursor set_plines set_cursor].
    split; [exact Hc|]. split; [apply dget_dset_same|]. split; [exact He2|]. split; [rewrite Hr2, Hr1; exact Hr|].
    rewrite Hi2, Hl2, Hi1, Hlen1. f_equal. lia.
  - unfold row_text, cur_line. cbn [p_cur p_lines set_plines set_cursor]. rewrite Hc, dget_dset_same, Hg, Ht2, Ht1. reflexivity.
Qed.
(* attributes and time stamps of the current text do not touch the characters *)
Lemma upd_cur_text_ready p f : (forall t, t_text (f t) = t_text t /\ t_cur (f t) = t_cur t) -> row_ready p ->
  row_ready (upd_cur_text p f) /\ row_text (upd_cur_text p f) = row_text p.
Proof.
  intros Hf (r & l & Hc & Hg & (ts & t & Ets & Ecur & Etc & Elc) & Hr & Hcur).
  unfold upd_cur_text, upd_cur_line. rewrite Hc, Hg.
  set (l1 := line_upd_cur_text l f).
  assert (E1 : l_texts l1 = ts ++ [f t]) by (unfold l1, line_upd_cur_text; cbn; rewrite Ets, Ecur; apply upd_nth_last).
  destruct (Hf t) as [Hft Hfc].
  assert (Elen : line_length l1 = line_length l).
  { rewrite !line_length_sum, E1, Ets, !sum_len_app. cbn [sum_len]. unfold text_len. rewrite Hft. reflexivity. }
  split.
  - exists r, l1. cbn [p_cur p_lines p_cursor set_plines]. split; [exact Hc|]. split; [apply dget_dset_same|]. split.
    + exists ts, (f t). split; [exact E1|]. split; [exact Ecur|]. split; [unfold text_len in *; rewrite Hfc, Hft; exact Etc|].
      rewrite Elen. exact Elc.
    + split; [exact Hr|]. rewrite Elen. exact Hcur.
  - unfold row_text, cur_line. cbn [p_cur p_lines set_plines]. rewrite Hc, dget_dset_same, Hg. unfold line_text. rewrite E1, Ets, !flat_map_app.
    cbn [flat_map]. rewrite Hft. reflexivity.
Qed.
(* a new (empty) text element at the end of the row *)
Lemma new_caption_text_ready p : row_ready p -> row_ready (new_caption_text p) /\ row_text (new_caption_text p) = row_text p.
Proof.
  intros (r & l & Hc & Hg & (ts & t & Ets & Ecur & Etc & Elc) & Hr & Hcur).
  unfold new_caption_text, upd_cur_line. rewrite Hc, Hg.
  set (l1 := line_add_obj l text_new).
  assert (Elen : line_length l1 = line_length l).
  { rewrite !line_length_sum. unfold l1, line_add_obj. cbn [l_texts]. rewrite sum_len_app. cbn. lia. }
  split.
  - exists r, l1. cbn [p_cur p_lines p_cursor set_plines]. split; [exact Hc|]. split; [apply dget_dset_same|]. split.
    + exists (l_texts l), text_new. unfold l1, line_add_obj. cbn [l_texts l_cur l_cursor]. repeat split.
    + split; [exact Hr|]. rewrite Elen. exact Hcur.
  - unfold row_text, cur_line. cbn [p_cur p_lines set_plines]. rewrite Hc, dget_dset_same, Hg. unfold line_text, l1, line_add_obj. cbn [l_texts].
    rewrite flat_map_app. cbn. now rewrite app_nil_r.
Qed.
Lemma style_cur_text_ready c p : row_ready p -> row_ready (style_cur_text c p) /\ row_text (style_cur_text c p) = row_text p.
Proof. intros H. unfold style_cur_text. apply upd_cur_text_ready; [intros; split; reflexivity|exact H]. Qed.
Lemma set_begin_cur_ready p t : row_ready p ->
  row_ready (upd_cur_text p (fun x => text_set_begin x t)) /\ row_text (upd_cur_text p (fun x => text_set_begin x t)) = row_text p.
Proof. intros H. apply upd_cur_text_ready; [intros; split; reflexivity|exact H]. Qed.

Lemma p_style_upd_cur_line p f : p_style (upd_cur_line p f) = p_style p.
Proof. unfold upd_cur_line. destruct (p_cur p); [destruct (dget _ _)|]; reflexivity. Qed.
Lemma p_style_update_line_cursor q : p_style (update_line_cursor q) = p_style q.
Proof.
  unfold update_line_cursor. rewrite p_style_upd_cur_line.
  set (q1 := if _ <? 0 then _ else q).
  assert (E1 : p_style q1 = p_style q) by (unfold q1; destruct (_ <? 0); [apply p_style_upd_cur_line|reflexivity]).
  clearbody q1. destruct (0 <? _); [rewrite p_style_upd_cur_line|]; exact E1.
Qed.
Lemma p_style_append a w : p_style (append_text a w) = p_style a.
Proof.
  unfold append_text, indent_cursor.
  set (q := upd_cur_line a _). assert (Eq : p_style q = p_style a) by apply p_style_upd_cur_line. clearbody q.
  set (q1 := set_cursor q _). assert (E1 : p_style q1 = p_style a) by exact Eq. clearbody q1.
  destruct (line_is_empty _); [now rewrite p_style_upd_cur_line|].
  now rewrite p_style_update_line_cursor.
Qed.
(* the caption characters are written to, by style *)
Definition target (c : ctx) : option para := if c_style c =? sPopOn then Some (c_buf c) else c_act c.
Definition target_ready (c : ctx) : Prop := match target c with Some p => row_ready p | None => False end.
Definition target_text (c : ctx) : text := match target c with Some p => row_text p | None => [] end.
Lemma target_sync_acur c : target (sync_acur c) = target c.
Proof. unfold sync_acur. destruct (c_act c) eqn:E; reflexivity. Qed.

(* text accumulates as received: in pop-on style (buffer), in roll-up style and in paint-on style (displayed caption,
   paint-on styled), a run of characters is appended to the row being written *)
Lemma text_accumulates c word :
  (c_style c = sPopOn \/ c_style c = sRollUp \/ (c_style c = sPaintOn /\ exists a, c_act c = Some a /\ p_style a = sPaintOn)) ->
  target_ready c -> word <> [] ->
  target_ready (process_text c word) /\ target_text (process_text c word) = target_text c ++ word.
Proof.
  intros Hst Hr Hw. unfold target_ready, target_text in *. unfold process_text. rewrite target_sync_acur.
  destruct Hst as [Hs|[Hs|(Hs & a & Ha & Hpa)]]; unfold target in *; rewrite Hs in *; cbn [Z.eqb sPopOn sRollUp sPaintOn Pos.eqb] in *.
  - cbn [c_style c_buf with_buf]. rewrite Hs. cbn [Z.eqb sPopOn Pos.eqb].
    destruct (append_text_ready (c_buf c) word Hr Hw) as [H1 H2].
    destruct (style_cur_text_ready c _ H1) as [H3 H4]. split; [exact H3|]. rewrite H4, H2. reflexivity.
  - destruct (c_act c) as [a|] eqn:Ea; [|contradiction].
    unfold upd_act. rewrite Ea. cbn [c_style c_act with_act]. rewrite Hs. cbn [Z.eqb sPopOn sRollUp Pos.eqb].
    destruct (append_text_ready a word Hr Hw) as [H1 H2].
    destruct (style_cur_text_ready c _ H1) as [H3 H4]. split; [exact H3|]. rewrite H4, H2. reflexivity.
  - rewrite Ha in Hr.
    assert (E0 : match c_act c with None => paint_on_active_caption c (c_tc c) | Some _ => c end = c) by now rewrite Ha.
    rewrite E0.
    assert (E1 : match c_act c with Some a0 => p_style a0 =? sPaintOn | None => false end = true) by (rewrite Ha, Hpa; reflexivity).
    assert (E2 : match c_act (upd_act c (fun a0 => style_cur_text c (append_text a0 word))) with Some a0 => p_style a0 =? sPaintOn | None => false end = true).
    { unfold upd_act. rewrite Ha. cbn [c_act with_act]. unfold style_cur_text, upd_cur_text. rewrite p_style_upd_cur_line, p_style_append, Hpa. reflexivity. }
    rewrite E1, E2. cbn [negb]. rewrite Ha.
    assert (Hfin : forall f : para -> para, (row_ready (f a) /\ row_text (f a) = row_text a ++ word) ->
              match (if c_style (upd_act (upd_act c f) (style_cur_text (upd_act c f))) =? sPopOn
                     then Some (c_buf (upd_act (upd_act c f) (style_cur_text (upd_act c f))))
                     else c_act (upd_act (upd_act c f) (style_cur_text (upd_act c f)))) with
              | Some p => row_ready p | None => False end /\
              match (if c_style (upd_act (upd_act c f) (style_cur_text (upd_act c f))) =? sPopOn
                     then Some (c_buf (upd_act (upd_act c f) (style_cur_text (upd_act c f))))
                     else c_act (upd_act (upd_act c f) (style_cur_text (upd_act c f)))) with
              | Some p => row_text p | None => [] end = row_text a ++ word).
    { intros f [H1 H2]. unfold upd_act. rewrite Ha. cbn [c_act with_act c_style]. rewrite Hs. cbn [Z.eqb sPopOn sPaintOn Pos.eqb].
      match goal with |- context [style_cur_text ?cc ?pp] => destruct (style_cur_text_ready cc pp H1) as [H7 H8] end.
      split; [exact H7|]. rewrite H8. exact H2. }
    destruct (starts_with_space word).
    + apply Hfin. destruct (new_caption_text_ready a Hr) as [H1 H2]. destruct (append_text_ready _ word H1 Hw) as [H3 H4].
      destruct (set_begin_cur_ready _ (c_tc c) H3) as [H5 H6]. split; [exact H5|]. rewrite H6, H4, H2. reflexivity.
    + destruct (ends_with_space word).
      * assert (Ecomp : upd_act (upd_act c (fun a0 => style_cur_text c (append_text a0 word)))
                               (fun a0 => upd_cur_text (new_caption_text a0) (fun x => text_set_begin x (c_tc c))) =
                        upd_act c (fun a0 => upd_cur_text (new_caption_text (style_cur_text c (append_text a0 word))) (fun x => text_set_begin x (c_tc c)))).
        { unfold upd_act. rewrite Ha. cbn [c_act with_act]. destruct c; reflexivity. }
        rewrite Ecomp. apply Hfin. destruct (append_text_ready a word Hr Hw) as [H1' H2'].
        destruct (style_cur_text_ready c _ H1') as [H1 H2s]. assert (H2 : row_text (style_cur_text c (append_text a word)) = row_text a ++ word) by (rewrite H2s; exact H2').
        destruct (new_caption_text_ready _ H1) as [H3 H4]. destruct (set_begin_cur_ready _ (c_tc c) H3) as [H5 H6].
        split; [exact H5|]. rewrite H6, H4, H2. reflexivity.
      * apply Hfin. apply append_text_ready; assumption.
Qed.

(* ---- backspace and extended characters ---- *)
(* moving the line cursor to the end of any row with at least one text element *)
Lemma line_set_cursor_total l ts t : l_texts l = ts ++ [t] ->
  at_end (line_set_cursor l (line_length l)) /\ line_text (line_set_cursor l (line_length l)) = line_text l /\
  l_indent (line_set_cursor l (line_length l)) = l_indent l /\ l_row (line_set_cursor l (line_length l)) = l_row l /\
  line_length (line_set_cursor l (line_length l)) = line_length l.
Proof.
  intros Ets. unfold line_set_cursor. rewrite Z.ltb_irrefl.
  assert (Esel : sel_text (l_texts l) 0 (line_length l) = Some (length ts, text_len t)).
  { rewrite line_length_sum, Ets, sum_len_app. cbn [sum_len]. rewrite Z.add_0_r. apply sel_text_end. }
  rewrite Esel, Ets, upd_nth_last. cbn [l_indent l_row]. repeat split.
  - exists ts, (text_set_cur t (text_len t)). cbn [l_texts l_cur l_cursor]. repeat split.
    rewrite !line_length_sum. cbn [l_texts]. rewrite Ets, !sum_len_app. reflexivity.
  - unfold line_text. cbn [l_texts]. rewrite Ets, !flat_map_app. reflexivity.
  - rewrite !line_length_sum. cbn [l_texts]. rewrite Ets, !sum_len_app. reflexivity.
Qed.
Lemma dget_ddel_nodup {A} k (d : list (Z * A)) : NoDup (map fst d) -> dget k (ddel k d) = None.
Proof.
  induction d as [|[k' v] d IH]; cbn; [reflexivity|]. intros H. inversion H; subst.
  destruct (k =? k') eqn:E.
  - apply Z.eqb_eq in E. subst k'. clear IH H. induction d as [|[k2 v2] d IH]; cbn; [reflexivity|].
    destruct (k =? k2) eqn:E2; [apply Z.eqb_eq in E2; subst; exfalso; apply H2; now left|].
    apply IH; [intros Hin; apply H2; now right|]. inversion H3; assumption.
  - cbn. rewrite E. now apply IH.
Qed.
Lemma dset_keys_present {A} k (v x : A) d : dget k d = Some x -> map fst (dset k v d) = map fst d.
Proof.
  induction d as [|[k' v'] d IH]; cbn; [discriminate|]. destruct (k =? k') eqn:E; cbn; [intros _; apply Z.eqb_eq in E; now subst|].
  intros H. now rewrite IH.
Qed.
(* the cursor is at the end of a row whose last text element holds at least one character *)
Definition row_ready_ne (p : para) : Prop :=
  exists r l ts t, p_cur p = Att r /\ dget r (p_lines p) = Some l /\ l_texts l = ts ++ [t] /\ l_cur l = length ts /\
    t_text t <> [] /\ t_cur t = text_len t /\ l_row l = r /\ p_cursor p = (r, l_indent l + line_length l) /\
    0 <= l_indent l /\ NoDup (map fst (p_lines p)).
(* the caption part of SccContext.backspace *)
Definition para_backspace (p : para) : para :=
  let p1 := upd_cur_text p text_backspace in
  set_cursor_at p1 (fst (p_cursor p1)) (Z.max (snd (p_cursor p1) - 1) 0).
Lemma removelast_len {A} (l : list A) : l <> [] -> zlen (removelast l) = zlen l - 1.
Proof.
  intros H. destruct (exists_last H) as (l' & x & ->). rewrite removelast_last. unfold zlen. rewrite app_length. cbn. lia.
Qed.
(* _update_current_line_cursor when the paragraph cursor points just behind the row's characters *)
Lemma update_line_cursor_end q r l ts t : p_cur q = Att r -> dget r (p_lines q) = Some l -> l_texts l = ts ++ [t] ->
  p_cursor q = (r, l_indent l + line_length l) -> l_row l = r ->
  row_ready (update_line_cursor q) /\ row_text (update_line_cursor q) = line_text l.
Proof.
  intros Hc Hg Ets Hcur Hr.
  assert (Ecl : cur_line q = l) by (unfold cur_line; now rewrite Hc, Hg).
  unfold update_line_cursor. rewrite Ecl, Hcur. cbn [snd].
  replace (l_indent l + line_length l - l_indent l) with (line_length l) by lia.
  assert (Hnn : (line_length l <? 0) = false) by (apply Z.ltb_ge; rewrite line_length_sum; apply sum_len_nonneg).
  rewrite Hnn. cbv iota. rewrite Ecl, Z.sub_diag. change (0 <? 0) with false. cbv iota.
  unfold upd_cur_line. rewrite Hc, Hg.
  destruct (line_set_cursor_total l ts t Ets) as (He2 & Ht2 & Hi2 & Hr2 & Hl2).
  split.
  - exists r, (line_set_cursor l (line_length l)). split; [exact Hc|]. split; [apply dget_dset_same|]. split; [exact He2|].
    split; [rewrite Hr2; exact Hr|]. change (p_cursor (set_plines q _)) with (p_cursor q). rewrite Hcur, Hi2, Hl2. reflexivity.
  - unfold row_text, cur_line. change (p_cur (set_plines q _)) with (p_cur q). rewrite Hc.
    change (p_lines (set_plines q ?d)) with d. rewrite dget_dset_same. exact Ht2.
Qed.
Lemma para_backspace_ready p : row_ready_ne p -> row_ready (para_backspace p) /\ row_text (para_backspace p) = removelast (row_text p).
Proof.
  intros (r & l & ts & t & Hc & Hg & Ets & Ecur & Hne & Etc & Hr & Hcur & Hind & Hnd).
  set (t' := text_backspace t).
  assert (Et' : t_text t' = removelast (t_text t)) by reflexivity.
  assert (Elen' : text_len t' = text_len t - 1) by (unfold text_len; rewrite Et'; now apply removelast_len).
  assert (Hpos : 1 <= text_len t).
  { unfold text_len, zlen. destruct (t_text t); [contradiction|]. cbn [length]. lia. }
  set (l1 := line_upd_cur_text l text_backspace).
  assert (E1 : l_texts l1 = ts ++ [t']) by (unfold l1, line_upd_cur_text; cbn; rewrite Ets, Ecur; apply upd_nth_last).
  assert (EL1 : line_length l1 = line_length l - 1).
  { rewrite !line_length_sum, E1, Ets, !sum_len_app. cbn [sum_len]. lia. }
  assert (Etext1 : line_text l1 = removelast (line_text l)).
  { unfold line_text. rewrite E1, Ets, !flat_map_app. cbn [flat_map]. rewrite !app_nil_r, Et'. symmetry. now apply removelast_app. }
  assert (Hrow : row_text p = line_text l) by (unfold row_text, cur_line; now rewrite Hc, Hg).
  assert (HL : 1 <= line_length l).
  { rewrite line_length_sum, Ets, sum_len_app. cbn [sum_len]. pose proof (sum_len_nonneg ts). lia. }
  unfold para_backspace, upd_cur_text, upd_cur_line. rewrite Hc, Hg. fold l1.
  set (p1 := set_plines p (dset r l1 (p_lines p))).
  change (p_cursor p1) with (p_cursor p). rewrite Hcur. cbn [fst snd].
  replace (Z.max (l_indent l + line_length l - 1) 0) with (l_indent l + line_length l - 1) by lia.
  set (c' := l_indent l + line_length l - 1).
  assert (Ecl : cur_line p1 = l1).
  { unfold cur_line. change (p_cur p1) with (p_cur p). change (p_lines p1) with (dset r l1 (p_lines p)). now rewrite Hc, dget_dset_same. }
  assert (Er1 : l_row l1 = r) by exact Hr.
  assert (Hg1 : dget r (p_lines p1) = Some l1) by apply dget_dset_same.
  assert (Hneq : (c' =? -1) = false) by (apply Z.eqb_neq; unfold c'; lia).
  unfold set_cursor_at. rewrite Ecl, Er1, Hg1, Hneq.
  destruct (line_is_empty l1) eqn:Hemp.
  - (* the row held one character: the line is removed and created again, empty *)
    unfold line_is_empty in Hemp. apply Z.eqb_eq in Hemp.
    assert (Hnodup : NoDup (map fst (p_lines p1))) by (unfold p1; cbn [p_lines set_plines]; rewrite (dset_keys_present r l1 l _ Hg); exact Hnd).
    set (p2 := set_cursor _ (r, c')).
    assert (Hg2 : dget r (p_lines p2) = None) by (unfold p2; cbn [p_lines set_cursor set_cur set_plines]; now apply dget_ddel_nodup).
    rewrite Hg2.
    set (l0 := line_new r c').
    destruct (update_line_cursor_end (set_cur (new_caption_line p2) (Att r)) r l0 [] text_new) as [H1 H2];
      try reflexivity.
    + unfold new_caption_line. change (p_cursor p2) with (r, c'). cbn [p_lines set_cur set_plines]. apply dget_dset_same.
    + unfold new_caption_line. change (p_cursor p2) with (r, c'). cbn. f_equal. lia.
    + split; [exact H1|]. rewrite H2, Hrow, <- Etext1. unfold line_text.
      assert (Hz : zlen (flat_map t_text (l_texts l1)) = 0) by (rewrite <- sum_len_flat, <- line_length_sum; exact Hemp).
      destruct (flat_map t_text (l_texts l1)); [reflexivity|discriminate].
  - (* otherwise the line cursor moves to the new end of the row *)
    set (p2 := set_cursor (set_cur p1 (Att r)) (r, c')).
    assert (Hg2 : dget r (p_lines p2) = Some l1) by exact Hg1.
    rewrite Hg2.
    destruct (update_line_cursor_end (set_cur p2 (Att r)) r l1 ts t') as [H1 H2]; try reflexivity; try assumption.
    + unfold p2. cbn [p_cursor set_cur set_cursor]. f_equal. unfold c'. change (l_indent l1) with (l_indent l). lia.
    + split; [exact H1|]. rewrite H2, Etext1, Hrow. reflexivity.
Qed.

Lemma p_style_set_cursor_at p row ind : p_style (set_cursor_at p row ind) = p_style p.
Proof.
  unfold set_cursor_at.
  set (p1 := match dget _ (p_lines p) with Some l => _ | None => p end).
  assert (E1 : p_style p1 = p_style p). { unfold p1. destruct (dget _ _); [|reflexivity]. destruct (line_is_empty _); reflexivity. }
  clearbody p1. set (p2 := set_cursor p1 _). assert (E2 : p_style p2 = p_style p) by exact E1. clearbody p2.
  set (p3 := match dget row (p_lines p2) with None => _ | Some _ => p2 end).
  assert (E3 : p_style p3 = p_style p). { unfold p3. destruct (dget row _); [exact E2|]. unfold new_caption_line. destruct (p_cursor p2). exact E2. }
  clearbody p3. destruct (ind =? -1); [exact E3|]. rewrite p_style_update_line_cursor. exact E3.
Qed.
Lemma p_style_para_backspace p : p_style (para_backspace p) = p_style p.
Proof. unfold para_backspace. rewrite p_style_set_cursor_at. unfold upd_cur_text. apply p_style_upd_cur_line. Qed.
Lemma backspace_is c p : target c = Some p -> backspace c = upd_cap c para_backspace.
Proof. intros H. unfold backspace. change (cap_to_process c) with (target c). rewrite H. reflexivity. Qed.
Lemma target_upd_cap c f p : target c = Some p -> target (upd_cap c f) = Some (f p) /\ c_style (upd_cap c f) = c_style c.
Proof.
  unfold target, upd_cap. destruct (c_style c =? sPopOn) eqn:E.
  - intros H; inversion H; subst. cbn [c_style c_buf with_buf]. rewrite E. split; reflexivity.
  - intros H. unfold upd_act. rewrite H. cbn [c_style c_act with_act]. rewrite E. split; reflexivity.
Qed.
(* backspace: the preceding character is removed and the cursor is at the end of the row again *)
Lemma backspace_removes_last c p : target c = Some p -> row_ready_ne p ->
  exists p', target (backspace c) = Some p' /\ row_ready p' /\ row_text p' = removelast (row_text p) /\
             c_style (backspace c) = c_style c /\ p_style p' = p_style p.
Proof.
  intros Ht Hr. rewrite (backspace_is c p Ht). destruct (target_upd_cap c para_backspace p Ht) as [E1 E2].
  destruct (para_backspace_ready p Hr) as [H1 H2].
  exists (para_backspace p). repeat split; try assumption. apply p_style_para_backspace.
Qed.
(* extended characters replace the preceding character: SccLine.process calls backspace() and then writes the character *)
Lemma extended_replaces c p ch : target c = Some p -> row_ready_ne p ->
  (c_style c = sPopOn \/ c_style c = sRollUp \/ (c_style c = sPaintOn /\ p_style p = sPaintOn)) ->
  target_ready (process_text (backspace c) [ch]) /\
  target_text (process_text (backspace c) [ch]) = removelast (row_text p) ++ [ch].
Proof.
  intros Ht Hr Hst. destruct (backspace_removes_last c p Ht Hr) as (p' & Ht' & Hr' & Htx & Hs' & Hps).
  assert (Hready : target_ready (backspace c)) by (unfold target_ready; now rewrite Ht').
  assert (Htext : target_text (backspace c) = removelast (row_text p)) by (unfold target_text; now rewrite Ht').
  rewrite <- Htext. apply text_accumulates; [|exact Hready|discriminate].
  rewrite Hs'. destruct Hst as [H|[H|[H1 H2]]]; [now left|right; now left|right; right].
  split; [exact H1|]. exists p'. split; [|now rewrite Hps].
  unfold target in Ht'. rewrite Hs', H1 in Ht'. exact Ht'.
Qed.
