(* C08, display simulation, part 12: the document as a function of time.  Writing a caption to the document
   (push_active_caption_to_model) does not change what the document shows before the caption begins, ending it later
   does not change what it shows before it ends, and once every earlier caption has ended the document shows the caption. *)
From Coq Require Import QArith.
From TT Require Import Base.Prelude Base.SccTypes Base.SccDoc Gen.SccTables Model.SccWord Model.TimeCode Model.SccReader Spec.Cea608Screen.
From TT Require Import Proofs.C08.Stamps Proofs.C08.Text Proofs.C08.ScreenMem Proofs.C08.ScreenLine Proofs.C08.ScreenPara Proofs.C08.ScreenRows
                       Proofs.C08.ScreenDoc Proofs.C08.ScreenRegion Proofs.C08.ScreenPush Proofs.C08.ScreenTime.
Open Scope Z_scope.

(* the paragraphs written so far (most recent first) and the regions *)
Definition dstate := (list outp * list region)%type.
Definition docs (st : dstate) : doc := Doc (snd st) (map finish_p (rev (fst st))).
Definition shown (df : bool) (st : dstate) (f : Z) : vrows := rows_of_doc (docs st) (time_of df f).
(* push_active_caption_to_model, on the two components it changes *)
Definition pushp (a : option para) (e : option tcv) (st : dstate) : dstate :=
  match a with
  | Some a => if para_is_empty a then st
              else (snd (to_paragraph (set_end a e) (snd st)) :: fst st, fst (to_paragraph (set_end a e) (snd st)))
  | None => st
  end.
Definition st_ok (df : bool) (st : dstate) : Prop :=
  regs_ok (snd st) /\ Forall (fun o => o_ok df o /\ exists r, find_reg (snd st) (o_region o) = Some r) (fst st).
Definition para_ok (df : bool) (a : para) : Prop := p_style a = sPopOn /\ forall b, p_begin a = Some b -> snd b = rate_of df.
Definition ot_ok (df : bool) (e : option tcv) : Prop := forall t, e = Some t -> snd t = rate_of df.

Lemma to_paragraph_fst a e rs : fst (to_paragraph (set_end a e) rs) = fst (get_region a rs).
Proof. unfold to_paragraph. rewrite get_region_set_end. destruct (get_region a rs). reflexivity. Qed.
Lemma to_paragraph_snd a e rs : snd (to_paragraph (set_end a e) rs) =
  mkO (p_id a) (p_begin a) e (snd (get_region a rs)) (p_align a) (p_style a =? sPaintOn) (para_children (ksort (p_lines a)) None) (para_origin a).
Proof. unfold to_paragraph. rewrite get_region_set_end. destruct (get_region a rs). reflexivity. Qed.
Lemma pushp_ok df a e st : st_ok df st -> (forall x, a = Some x -> para_ok df x) -> ot_ok df e -> st_ok df (pushp a e st) /\ regs_ext (snd st) (snd (pushp a e st)).
Proof.
  intros [Hr Ho] Ha He. unfold pushp. destruct a as [a|]; [|split; [split; assumption|apply regs_ext_refl]].
  destruct (para_is_empty a); [split; [split; assumption|apply regs_ext_refl]|].
  destruct (Ha a eq_refl) as [Hs Hb]. cbn [fst snd]. rewrite to_paragraph_fst, to_paragraph_snd.
  assert (Hext : regs_ext (snd st) (fst (get_region a (snd st)))) by (apply (get_region_ext 1); apply Hr).
  split; [|exact Hext]. split; [now apply get_region_ok|]. constructor.
  - split; [split; cbn [o_begin o_end]; [exact Hb|exact He]|]. cbn [o_region].
    destruct (get_region_found a (snd st) Hr Hs) as (r & Hf & _). exists r. exact Hf.
  - apply Forall_forall. intros o Hin. rewrite Forall_forall in Ho. destruct (Ho o Hin) as [H1 (r & H2)]. split; [exact H1|].
    destruct (Hext _ _ H2) as (r' & H3 & _). exists r'. exact H3.
Qed.
(* what a rendering reads of the regions *)
Lemma rows_of_p_ext rs rs' p t : (exists r, find_reg rs (q_region p) = Some r) -> regs_ext rs rs' -> rows_of_p rs' p t = rows_of_p rs p t.
Proof.
  intros (r & Hr) Hext. destruct (Hext _ _ Hr) as (r' & Hr' & S1 & S2 & S3). unfold rows_of_p. rewrite Hr, Hr', S1, S2, S3. reflexivity.
Qed.
Lemma vis_ext df rs rs' t (os : list outp) : Forall (fun o => o_ok df o /\ exists r, find_reg rs (o_region o) = Some r) os -> regs_ext rs rs' ->
  vis rs' t (map finish_p os) = vis rs t (map finish_p os).
Proof.
  intros H Hext. induction H as [|o os [_ Ho] H IH]; [reflexivity|]. unfold vis in *. cbn [map filter].
  destruct (active (finish_p o) t); cbn [map]; [|exact IH]. rewrite IH. f_equal. apply rows_of_p_ext; [exact Ho|exact Hext].
Qed.
Lemma Forall_rev {A} (P : A -> Prop) l : Forall P l -> Forall P (rev l).
Proof. intros H. apply Forall_forall. intros x Hx. apply in_rev in Hx. rewrite Forall_forall in H. now apply H. Qed.
Lemma shown_vis df st f : shown df st f = merge_rows [] (vis (snd st) (time_of df f) (map finish_p (rev (fst st)))).
Proof. unfold shown, docs. apply rows_of_doc_vis. Qed.

(* (B) a caption that begins later, or nothing, is written: the past is unchanged *)
Lemma shown_push_later df a st f : st_ok df st -> (forall x, a = Some x -> para_ok df x /\ exists b, p_begin x = Some b /\ f < tc_frames b) ->
  shown df (pushp a None st) f = shown df st f.
Proof.
  intros Hst Ha. unfold pushp. destruct a as [a|]; [|reflexivity]. destruct (para_is_empty a); [reflexivity|].
  destruct (Ha a eq_refl) as [[Hs Hbr] (b & Hb & Hlt)]. rewrite !shown_vis. cbn [fst snd]. rewrite to_paragraph_fst, to_paragraph_snd.
  cbn [rev]. rewrite map_app, vis_app. destruct Hst as [Hr Ho].
  rewrite (vis_ext df (snd st)); [|apply Forall_rev; exact Ho|apply (get_region_ext 1); apply Hr].
  assert (Einact : vis (fst (get_region a (snd st))) (time_of df f) (map finish_p [mkO (p_id a) (p_begin a) None (snd (get_region a (snd st))) (p_align a)
              (p_style a =? sPaintOn) (para_children (ksort (p_lines a)) None) (para_origin a)]) = []).
  { unfold vis. cbn [map filter]. rewrite (active_finish df); [|split; cbn [o_begin o_end]; [exact Hbr|discriminate]].
    unfold obegin_le. cbn [o_begin]. rewrite Hb. replace (tc_frames b <=? f) with false by lia. reflexivity. }
  rewrite Einact, app_nil_r. reflexivity.
Qed.
(* (A) the end of the caption being written lies in the future: it does not matter which *)
Lemma shown_push_end df a e1 e2 st f : st_ok df st -> (forall x, a = Some x -> para_ok df x) -> ot_ok df e1 -> ot_ok df e2 ->
  (forall t, e1 = Some t -> f < tc_frames t) -> (forall t, e2 = Some t -> f < tc_frames t) ->
  shown df (pushp a e1 st) f = shown df (pushp a e2 st) f.
Proof.
  intros Hst Ha H1 H2 L1 L2. unfold pushp. destruct a as [a|]; [|reflexivity]. destruct (para_is_empty a); [reflexivity|].
  destruct (Ha a eq_refl) as [Hs Hbr]. rewrite !shown_vis. cbn [fst snd]. rewrite !to_paragraph_fst, !to_paragraph_snd.
  cbn [rev]. rewrite !map_app, !vis_app. f_equal.
  unfold vis. cbn [map filter]. rewrite !(active_finish df); try (split; cbn [o_begin o_end]; assumption).
  unfold obegin_le, oend_gt. cbn [o_begin o_end].
  assert (E1 : match e1 with Some e => f <? tc_frames e | None => true end = true) by (destruct e1 as [t|]; [specialize (L1 t eq_refl); lia|reflexivity]).
  assert (E2 : match e2 with Some e => f <? tc_frames e | None => true end = true) by (destruct e2 as [t|]; [specialize (L2 t eq_refl); lia|reflexivity]).
  rewrite E1, E2. destruct (match p_begin a with Some b => tc_frames b <=? f | None => true end); reflexivity.
Qed.
(* every caption written so far has ended *)
Definition all_ended (st : dstate) (f : Z) : Prop := Forall (fun o => exists e, o_end o = Some e /\ tc_frames e <= f) (fst st).
Lemma vis_ended df rs t f os : t = time_of df f -> Forall (fun o => o_ok df o /\ exists e, o_end o = Some e /\ tc_frames e <= f) os ->
  vis rs t (map finish_p os) = [].
Proof.
  intros -> H. induction H as [|o os [Hok (e & He & Hle)] H IH]; [reflexivity|]. unfold vis in *. cbn [map filter].
  rewrite (active_finish df o f Hok). unfold oend_gt. rewrite He. replace (f <? tc_frames e) with false by lia. rewrite andb_false_r. exact IH.
Qed.
Lemma shown_ended df st f : st_ok df st -> all_ended st f -> shown df st f = [].
Proof.
  intros [Hr Ho] He. rewrite shown_vis. rewrite (vis_ended df _ _ f); [reflexivity|reflexivity|]. apply Forall_rev.
  unfold all_ended in He. rewrite Forall_forall in *. intros o Hin. destruct (Ho o Hin) as [H1 _]. split; [exact H1|now apply He].
Qed.
(* (C) ... and the caption displayed now has begun: the document shows it *)
Lemma shown_push_now df a m u st f : st_ok df st -> all_ended st f -> @para_mem sPopOn a m u -> mem_wf m -> para_ok df a ->
  (exists b, p_begin a = Some b /\ tc_frames b <= f) ->
  vrows_eqb (rows_of_mem m) (shown df (pushp (Some a) None st) f) = true.
Proof.
  intros Hst He Hpm Hw [Hs Hbr] (b & Hb & Hle). unfold pushp. destruct (para_is_empty a) eqn:Eemp.
  - rewrite (shown_ended df st f Hst He). rewrite (rows_of_mem_blank m Hw); [reflexivity|]. now apply (@para_empty_blank sPopOn a m u).
  - destruct Hst as [Hr Ho]. rewrite shown_vis. cbn [fst snd rev]. rewrite map_app, vis_app.
    rewrite (vis_ended df _ _ f); [|reflexivity|].
    2:{ apply Forall_rev. unfold all_ended in He. rewrite Forall_forall in *. intros o Hin. destruct (Ho o Hin) as [H1 _]. split; [exact H1|now apply He]. }
    cbn [app]. unfold vis. cbn [map filter].
    rewrite (active_finish df); [|rewrite to_paragraph_snd; split; cbn [o_begin o_end]; [exact Hbr|discriminate]].
    rewrite to_paragraph_snd at 1. rewrite to_paragraph_snd at 1. unfold obegin_le, oend_gt. cbn [o_begin o_end]. rewrite Hb.
    replace (tc_frames b <=? f) with true by lia. cbn [andb map].
    unfold merge_rows. cbn [fold_left].
    set (rws := rows_of_p _ _ _).
    assert (Hrws : vrows_eqb (rows_of_mem m) rws = true) by (unfold rws; apply (pushed_rows a m u); try assumption; apply regs_ext_refl).
    assert (Hinc : exists lo, rinc lo rws).
    { unfold rws, rows_of_p. destruct (find_reg _ _); [|exists (-2); cbn; split; [lia|exact I]]. eexists. apply number_rows_rinc. }
    destruct Hinc as (lo & Hinc). rewrite (merge_one rws lo []); [exact Hrws|exact Hinc|intros y []].
Qed.
