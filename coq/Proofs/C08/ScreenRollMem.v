(* C08, display simulation, roll-up, part 1: the decoder's side in roll-up mode - characters go to the displayed memory;
   the window operations (carriage return, base row) seen cell by cell. *)
From Coq Require Import QArith.
From TT Require Import Base.Prelude Base.SccTypes Base.SccDoc Gen.SccTables Model.SccWord Model.TimeCode Model.SccReader Spec.Cea608Screen.
From TT Require Import Proofs.C08.ScreenMem Proofs.C08.ScreenLine Proofs.C08.ScreenPara.
Open Scope Z_scope.

(* memories built row by row *)
Lemma rows_from_length k : forall r f, length (rows_from k r f) = k.
Proof. induction k as [|k IH]; intros r f; cbn; [reflexivity|]. now rewrite IH. Qed.
Lemma nth_rows_from k : forall r f i d, (i < k)%nat -> nth i (rows_from k r f) d = f (r + Z.of_nat i).
Proof.
  induction k as [|k IH]; intros r f i d Hi; [lia|]. destruct i as [|i]; cbn [rows_from nth]; [now rewrite Z.add_0_r|].
  rewrite IH by lia. f_equal. lia.
Qed.
Lemma row_get_mem_of f r : in_rows r -> row_get (mem_of f) r = f r.
Proof.
  intros Hr. unfold in_rows in Hr. unfold row_get, mem_of. replace ((1 <=? r) && (r <=? 15)) with true by lia.
  rewrite nth_rows_from by lia. f_equal. lia.
Qed.
Lemma mem_of_wf f : (forall r, in_rows r -> length (f r) = 32%nat) -> mem_wf (mem_of f).
Proof.
  intros H. split; [apply rows_from_length|]. unfold mem_of. apply Forall_forall. intros x Hx.
  apply In_nth with (d := blank_row) in Hx. destruct Hx as (i & Hi & <-). rewrite rows_from_length in Hi.
  rewrite nth_rows_from by exact Hi. apply H. unfold in_rows. lia.
Qed.
Lemma mcell_mem_of f r c : in_rows r -> mcell (mem_of f) r c = nth (Z.to_nat c) (f r) blank.
Proof. intros Hr. unfold mcell. now rewrite row_get_mem_of. Qed.
Lemma blank_row_length : length blank_row = 32%nat.
Proof. reflexivity. Qed.
Lemma nth_blank_row k : nth k blank_row blank = blank.
Proof. apply nth_repeat_any. Qed.
(* carriage return: the rows of the window move up, the base row is cleared *)
Lemma mcell_roll m b n r c : mem_wf m -> in_rows r ->
  mcell (roll m b n) r c = if in_window b n r then (if r =? b then blank else mcell m (r + 1) c) else mcell m r c.
Proof.
  intros Hw Hr. unfold roll. rewrite mcell_mem_of by exact Hr. destruct (in_window b n r); [|reflexivity].
  destruct (r =? b); [apply nth_blank_row|reflexivity].
Qed.
Lemma roll_wf m b n : mem_wf m -> mem_wf (roll m b n).
Proof.
  intros Hw. unfold roll. apply mem_of_wf. intros r Hr. destruct (in_window b n r); [|now apply row_get_length].
  destruct (r =? b); [reflexivity|now apply row_get_length].
Qed.
(* only the window is kept (RUx in roll-up mode; PAC for the base row the window is on) *)
Lemma mcell_trim m b n r c : in_rows r -> mcell (trim_window m b n) r c = if in_window b n r then mcell m r c else blank.
Proof. intros Hr. unfold trim_window. rewrite mcell_mem_of by exact Hr. destruct (in_window b n r); [reflexivity|apply nth_blank_row]. Qed.
Lemma trim_wf m b n : mem_wf m -> mem_wf (trim_window m b n).
Proof. intros Hw. apply mem_of_wf. intros r Hr. destruct (in_window b n r); [now apply row_get_length|reflexivity]. Qed.
Lemma mcell_move_same m b n r c : in_rows r -> mcell (move_window m b n b) r c = if in_window b n r then mcell m r c else blank.
Proof.
  intros Hr. unfold move_window. rewrite mcell_mem_of by exact Hr. destruct (in_window b n r); [|apply nth_blank_row].
  replace (r - b + b) with r by lia. reflexivity.
Qed.
Lemma move_same_wf m b n : mem_wf m -> mem_wf (move_window m b n b).
Proof. intros Hw. apply mem_of_wf. intros r Hr. destruct (in_window b n r); [now apply row_get_length|reflexivity]. Qed.

(* characters are stored in the displayed memory *)
Lemma put_ru s n ch : md s = RollUp n ->
  put s ch = set_pos (set_disp s (cell_set (disp s) (crow s) (ccol s) (mkCell ch (pcol s) (pita s) (pund s)))) (crow s) (Z.min 31 (ccol s + 1)).
Proof. intros H. unfold put, cur_mem, set_cur_mem. rewrite H. reflexivity. Qed.
Lemma back_ru s n : md s = RollUp n -> ccol s <> 0 ->
  back s = set_pos (set_disp s (cell_set (disp s) (crow s) (ccol s - 1) blank)) (crow s) (ccol s - 1).
Proof. intros H Hc. unfold back, cur_mem, set_cur_mem. rewrite H. destruct (ccol s =? 0) eqn:E; [lia|reflexivity]. Qed.
Lemma puts_ru chs : forall s n, md s = RollUp n -> ccol s + zlen chs <= 31 ->
  puts s chs = set_pos (set_disp s (write_cells (disp s) (crow s) (ccol s) (pen_cell s) chs)) (crow s) (ccol s + zlen chs).
Proof.
  induction chs as [|ch chs IH]; intros s n Hm Hlen.
  - unfold puts, zlen. cbn. rewrite Z.add_0_r. destruct s; reflexivity.
  - assert (Hz : zlen (ch :: chs) = zlen chs + 1) by (unfold zlen; cbn [length]; lia). rewrite Hz in *.
    pose proof (zlen_nonneg chs).
    unfold puts. cbn [fold_left]. fold (puts (put s ch) chs). rewrite (put_ru s n ch Hm).
    replace (Z.min 31 (ccol s + 1)) with (ccol s + 1) by lia.
    rewrite (IH _ n); [|exact Hm|cbn; lia]. cbn [write_cells]. destruct s; unfold set_pos, set_disp, pen_cell; cbn. f_equal. lia.
Qed.
Lemma puts_ru_proj s n word : md s = RollUp n -> ccol s + zlen word <= 31 ->
  md (puts s word) = RollUp n /\ pcol (puts s word) = pcol s /\ pita (puts s word) = pita s /\ pund (puts s word) = pund s /\
  nond (puts s word) = nond s /\ crow (puts s word) = crow s /\ ccol (puts s word) = ccol s + zlen word /\
  disp (puts s word) = write_cells (disp s) (crow s) (ccol s) (pen_cell s) word /\
  last (puts s word) = last s /\ chan (puts s word) = chan s /\ pmid (puts s word) = pmid s.
Proof. intros Hm Hl. rewrite (puts_ru word s n Hm Hl). repeat split; try reflexivity. exact Hm. Qed.
