(* C08, display simulation, part 1: the memories of the reference decoder (Spec/Cea608Screen.v) seen as functions
   row -> column -> cell, and what the elementary operations of the decoder do to them. *)
From Coq Require Import QArith.
From TT Require Import Base.Prelude Base.SccTypes Base.SccDoc Model.SccWord Spec.Cea608Screen.
Open Scope Z_scope.

(* ---- lists ---- *)
Lemma upd_length {A} (f : A -> A) i (l : list A) : length (upd i f l) = length l.
Proof. revert i. induction l as [|x l IH]; intros [|i]; cbn; auto. Qed.
Lemma nth_upd_same {A} (f : A -> A) i (l : list A) d : (i < length l)%nat -> nth i (upd i f l) d = f (nth i l d).
Proof. revert i. induction l as [|x l IH]; intros [|i] H; cbn in *; try lia; auto. apply IH. lia. Qed.
Lemma nth_upd_other {A} (f : A -> A) i j (l : list A) d : i <> j -> nth i (upd j f l) d = nth i l d.
Proof. revert i j. induction l as [|x l IH]; intros [|i] [|j] H; cbn; auto; try congruence. Qed.
Lemma nth_repeat_any {A} (x : A) n i : nth i (repeat x n) x = x.
Proof. revert i. induction n; intros [|i]; cbn; auto. Qed.

(* ---- well-formed memories: 15 rows of 32 cells ---- *)
Definition mem_wf (m : mem) : Prop := length m = 15%nat /\ Forall (fun row => length row = 32%nat) m.
Definition mcell (m : mem) (r c : Z) : cell := nth (Z.to_nat c) (row_get m r) blank.
Definition in_rows (r : Z) : Prop := 1 <= r <= 15.
Definition in_cols (c : Z) : Prop := 0 <= c <= 31.

Lemma mem_wf_mem0 : mem_wf mem0.
Proof. split; [reflexivity|]. unfold mem0. apply Forall_forall. intros x Hx. apply repeat_spec in Hx. subst. reflexivity. Qed.
Lemma row_get_length m r : mem_wf m -> length (row_get m r) = 32%nat.
Proof.
  intros [Hl Hr]. unfold row_get. destruct (_ && _) eqn:E; [|reflexivity].
  rewrite Forall_forall in Hr. destruct (nth_in_or_default (Z.to_nat (r - 1)) m blank_row) as [H|H]; [now apply Hr|rewrite H; reflexivity].
Qed.
Lemma mcell_mem0 r c : mcell mem0 r c = blank.
Proof.
  unfold mcell, row_get. destruct (_ && _).
  - unfold mem0. replace (nth (Z.to_nat (r - 1)) (repeat blank_row 15) blank_row) with blank_row by (symmetry; apply nth_repeat_any).
    apply nth_repeat_any.
  - apply nth_repeat_any.
Qed.
Lemma mcell_beyond m r c : mem_wf m -> 32 <= c -> mcell m r c = blank.
Proof. intros H Hc. unfold mcell. apply nth_overflow. rewrite row_get_length by exact H. lia. Qed.
Lemma mcell_outside m r c : ~ in_rows r -> mcell m r c = blank.
Proof.
  intros H. unfold mcell, row_get. destruct (_ && _) eqn:E; [exfalso; apply H; unfold in_rows; lia|]. apply nth_repeat_any.
Qed.

Lemma row_get_row_set m r x r' : mem_wf m -> in_rows r -> row_get (row_set m r x) r' = if r' =? r then x else row_get m r'.
Proof.
  intros [Hl _] Hr. unfold in_rows in Hr. unfold row_set. replace ((1 <=? r) && (r <=? 15)) with true by lia.
  unfold row_get. destruct ((1 <=? r') && (r' <=? 15)) eqn:E.
  - destruct (r' =? r) eqn:E2.
    + assert (r' = r) by lia. subst. apply nth_upd_same. lia.
    + apply nth_upd_other. lia.
  - destruct (r' =? r) eqn:E2; [lia|reflexivity].
Qed.
Lemma mem_wf_row_set m r x : mem_wf m -> length x = 32%nat -> mem_wf (row_set m r x).
Proof.
  intros [Hl Hr] Hx. unfold row_set. destruct (_ && _); [|split; assumption]. split; [now rewrite upd_length|].
  clear Hl. revert Hr. generalize (Z.to_nat (r - 1)). induction m as [|y m IH]; intros [|i] H; cbn; inversion H; subst; constructor; auto.
Qed.
Lemma mem_wf_cell_set m r c x : mem_wf m -> mem_wf (cell_set m r c x).
Proof.
  intros H. unfold cell_set. destruct (_ && _); [|exact H]. apply mem_wf_row_set; [exact H|].
  rewrite upd_length. now apply row_get_length.
Qed.
(* storing one cell *)
Lemma mcell_cell_set m r c x r' c' : mem_wf m -> in_rows r -> in_cols c -> 0 <= c' ->
  mcell (cell_set m r c x) r' c' = if (r' =? r) && (c' =? c) then x else mcell m r' c'.
Proof.
  intros Hw Hr Hc Hc'. unfold in_cols in Hc. unfold cell_set. replace ((0 <=? c) && (c <=? 31)) with true by lia.
  unfold mcell. rewrite row_get_row_set by assumption. destruct (r' =? r) eqn:E; [|reflexivity].
  assert (r' = r) by lia. subst r'. cbn [andb]. destruct (c' =? c) eqn:E2.
  - assert (c' = c) by lia. subst c'. rewrite nth_upd_same; [reflexivity|]. rewrite row_get_length by exact Hw. lia.
  - apply nth_upd_other. lia.
Qed.
(* erasing the cells of a row from a column on (Delete to End of Row) *)
Lemma nth_blank_from k l i : nth i (blank_from k l) blank = if Nat.ltb i k then nth i l blank else blank.
Proof.
  revert k i. induction l as [|x l IH]; intros k i.
  - cbn [blank_from]. destruct i as [|i]; cbn [nth]; [destruct (Nat.ltb 0 k)|destruct (Nat.ltb (S i) k)]; reflexivity.
  - destruct k as [|k]; destruct i as [|i]; cbn [blank_from nth]; try reflexivity.
    + rewrite IH. reflexivity.
    + rewrite IH. reflexivity.
Qed.
Lemma blank_from_length k l : length (blank_from k l) = length l.
Proof. revert k. induction l as [|x l IH]; intros [|k]; cbn; auto. Qed.

(* ---- the operations of the decoder on the memory it writes to ---- *)
Lemma cur_mem_set_cur_mem s m : cur_mem (set_cur_mem s m) = m.
Proof. unfold cur_mem, set_cur_mem. destruct (md s) eqn:E; cbn; rewrite E; reflexivity. Qed.
Definition scr_wf (s : scr) : Prop := mem_wf (disp s) /\ mem_wf (nond s).
Lemma cur_mem_wf s : scr_wf s -> mem_wf (cur_mem s).
Proof. intros [H1 H2]. unfold cur_mem. destruct (md s); assumption. Qed.
Lemma scr_wf_set_cur_mem s m : scr_wf s -> mem_wf m -> scr_wf (set_cur_mem s m).
Proof. intros [H1 H2] Hm. unfold set_cur_mem. destruct (md s); split; assumption. Qed.

(* pop-on mode: the memory written to is the non-displayed one *)
Lemma put_pop s ch : md s = PopOn ->
  put s ch = set_pos (set_nond s (cell_set (nond s) (crow s) (ccol s) (mkCell ch (pcol s) (pita s) (pund s)))) (crow s) (Z.min 31 (ccol s + 1)).
Proof. intros H. unfold put, cur_mem, set_cur_mem. rewrite H. reflexivity. Qed.
Lemma back_pop s : md s = PopOn -> ccol s <> 0 ->
  back s = set_pos (set_nond s (cell_set (nond s) (crow s) (ccol s - 1) blank)) (crow s) (ccol s - 1).
Proof. intros H Hc. unfold back, cur_mem, set_cur_mem. rewrite H. destruct (ccol s =? 0) eqn:E; [lia|reflexivity]. Qed.

(* ---- equality of what is seen, cell by cell ---- *)
(* a blank cell (transparent or a space) is seen as any other blank cell; other cells must be identical *)
Definition ceqv (a b : cell) : Prop := if is_blank a then is_blank b = true else a = b.
Lemma ceqv_refl a : ceqv a a.
Proof. unfold ceqv. destruct (is_blank a) eqn:E; reflexivity. Qed.
Lemma ceqv_sym a b : ceqv a b -> ceqv b a.
Proof.
  unfold ceqv. intros H. destruct (is_blank a) eqn:Ea.
  - rewrite H. reflexivity.
  - subst b. rewrite Ea. reflexivity.
Qed.
Lemma ceqv_trans a b c : ceqv a b -> ceqv b c -> ceqv a c.
Proof.
  unfold ceqv. intros H1 H2. destruct (is_blank a) eqn:Ea.
  - rewrite H1 in H2. exact H2.
  - subst b. rewrite Ea in H2. exact H2.
Qed.
Lemma ceqv_blank a b : is_blank a = true -> is_blank b = true -> ceqv a b.
Proof. intros Ha Hb. unfold ceqv. rewrite Ha. exact Hb. Qed.
Lemma ceqv_blank_l a b : ceqv a b -> is_blank b = true -> is_blank a = true.
Proof. unfold ceqv. intros H Hb. destruct (is_blank a) eqn:E; [reflexivity|]. subst b. congruence. Qed.
Lemma ceqv_blank_r a b : ceqv a b -> is_blank a = true -> is_blank b = true.
Proof. unfold ceqv. intros H Ha. rewrite Ha in H. exact H. Qed.
Lemma ceqv_nonblank a b : ceqv a b -> is_blank a = false -> a = b.
Proof. unfold ceqv. intros H Ha. rewrite Ha in H. exact H. Qed.
Lemma ceqv_cell_eqb a b : ceqv a b -> cell_eqb a b = true.
Proof.
  unfold ceqv, cell_eqb. intros H. destruct (is_blank a); [exact H|]. subst b.
  rewrite !Z.eqb_refl, !eqb_reflx. reflexivity.
Qed.
Lemma is_blank_blank : is_blank blank = true.
Proof. reflexivity. Qed.
