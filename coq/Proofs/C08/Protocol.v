(* C08: the timing skeleton of the pop-on protocol, and the roll-up depth, on the model, for all states:
   nothing loaded into the buffer is visible before the flip; EOC ends the displayed caption and starts the
   buffered one at the same stamp; EDM ends the displayed caption one frame later; after a carriage return a
   roll-up caption holds at most `depth` rows. *)
From Coq Require Import QArith.
From TT Require Import Base.Prelude Base.SccTypes Base.SccDoc Gen.SccTables Model.SccWord Model.TimeCode Model.SccReader.
From TT Require Import Proofs.C08.Stamps Proofs.C08.Words.
Open Scope Z_scope.

(* what is on screen and what has been written to the document *)
Definition visible (c : ctx) : option para * list outp * list region := (c_act c, c_out c, c_regions c).

Lemma vis_upd_cap_pop c f : c_style c = sPopOn -> visible (upd_cap c f) = visible c.
Proof. intros H. unfold upd_cap. rewrite H. reflexivity. Qed.
Lemma vis_sync_acur c : visible (sync_acur c) = visible c.
Proof. unfold sync_acur. destruct (c_act c); reflexivity. Qed.
Lemma vis_prev c x : visible (with_prev c x) = visible c.  Proof. reflexivity. Qed.
Lemma vis_prev_type c x : visible (with_prev_type c x) = visible c.  Proof. reflexivity. Qed.
Lemma style_with_attrs c a b d : c_style (with_attrs c a b d) = c_style c.  Proof. reflexivity. Qed.

(* words that only load the non-displayed memory: PAC, attribute, mid-row, characters (standard, special, extended),
   and the control codes RCL, ENM, TO1-3, BS and the ones the reader ignores *)
Definition loads_buffer (w : Z) : bool :=
  let d := decode w in
  if d_cls d =? cControl
  then negb ((d_code d =? kRDC) || (d_code d =? kRU2) || (d_code d =? kRU3) || (d_code d =? kRU4) ||
             (d_code d =? kEOC) || (d_code d =? kEDM) || (d_code d =? kCR))
  else true.

Lemma vis_backspace_pop c : c_style c = sPopOn -> visible (backspace c) = visible c.
Proof. intros H. unfold backspace, cap_to_process. rewrite H. cbn. now apply vis_upd_cap_pop. Qed.
Lemma style_backspace c : c_style (backspace c) = c_style c.
Proof.
  unfold backspace. destruct (cap_to_process c); [|reflexivity]. unfold upd_cap. destruct (_ =? _); [reflexivity|].
  unfold upd_act. destruct (c_act c); reflexivity.
Qed.
Lemma vis_process_text_pop c s : c_style c = sPopOn -> visible (process_text c s) = visible c.
Proof. intros H. unfold process_text. rewrite vis_sync_acur, H. reflexivity. Qed.
Lemma vis_process_pac_pop c d : c_style c = sPopOn -> visible (process_pac c d) = visible c.
Proof. intros H. unfold process_pac. rewrite H. cbn. rewrite vis_sync_acur. reflexivity. Qed.
Lemma vis_process_attribute_pop c d : c_style c = sPopOn -> visible (process_attribute c d) = visible c.
Proof. intros H. unfold process_attribute. destruct (cap_to_process c); [now apply vis_upd_cap_pop|reflexivity]. Qed.
Lemma style_upd_cap_pop c f : c_style c = sPopOn -> c_style (upd_cap c f) = sPopOn.
Proof. intros H. unfold upd_cap. rewrite H. exact H. Qed.
Lemma vis_process_mid_row_pop c d : c_style c = sPopOn -> visible (process_mid_row c d) = visible c.
Proof.
  intros H. unfold process_mid_row.
  set (c1 := if negb _ then _ else _).
  assert (E : visible c1 = visible c /\ c_style c1 = sPopOn).
  { unfold c1. destruct (negb _).
    - set (c' := match cap_to_process c with Some p => _ | None => c end).
      assert (E' : visible c' = visible c /\ c_style c' = sPopOn).
      { unfold c'. destruct (cap_to_process c); [|split; [reflexivity|exact H]].
        destruct (negb _); [|split; [now apply vis_upd_cap_pop|now apply style_upd_cap_pop]].
        destruct (_ && _); [split; [now apply vis_upd_cap_pop|now apply style_upd_cap_pop]|].
        destruct (negb _); (split; [now apply vis_upd_cap_pop|now apply style_upd_cap_pop]). }
      clearbody c'. exact E'.
    - split; [rewrite vis_upd_cap_pop by exact H; reflexivity|apply style_upd_cap_pop; exact H]. }
  destruct E as [E1 E2]. clearbody c1.
  destruct (cap_to_process c1); [|exact E1]. destruct (_ =? _); [|exact E1]. rewrite vis_upd_cap_pop by exact E2. exact E1.
Qed.
(* pop-on: whatever is loaded into the buffer, the displayed caption, the paragraphs written so far and the regions
   are unchanged — a caption is not visible before its EOC *)
Lemma popon_invisible c w : c_style c = sPopOn -> loads_buffer w = true -> visible (step c w) = visible c.
Proof.
  intros Hs Hl. unfold step. destruct (c_err c); [reflexivity|].
  destruct (match c_prev c with Some pv => _ | None => false end); [reflexivity|].
  destruct (value w =? 0); [reflexivity|].
  destruct (byte1 w <? 32).
  - destruct (negb (d_chan (decode w) =? 1)); [reflexivity|].
    set (c2 := with_chan _ 1). assert (H2 : c_style c2 = sPopOn) by exact Hs.
    assert (V2 : visible c2 = visible c) by reflexivity. clearbody c2.
    unfold loads_buffer in Hl. cbv zeta in Hl.
    destruct (d_cls (decode w) =? cPac); [rewrite vis_prev, vis_prev_type, <- V2; now apply vis_process_pac_pop|].
    destruct (d_cls (decode w) =? cAttr); [rewrite vis_prev, vis_prev_type, <- V2; now apply vis_process_attribute_pop|].
    destruct (d_cls (decode w) =? cMidRow); [rewrite vis_prev, vis_prev_type, <- V2; now apply vis_process_mid_row_pop|].
    destruct (d_cls (decode w) =? cControl) eqn:Ec.
    + try rewrite Ec in Hl. apply negb_true_iff in Hl. rename Hl into Hn.
      repeat (apply orb_false_iff in Hn; destruct Hn as [Hn ?]).
      rewrite vis_prev, vis_prev_type, <- V2. unfold process_control.
      destruct (d_code (decode w) =? kRCL); [reflexivity|]. rewrite Hn.
      replace ((d_code (decode w) =? kRU2) || (d_code (decode w) =? kRU3) || (d_code (decode w) =? kRU4)) with false
        by (symmetry; repeat (apply orb_false_iff; split); assumption).
      match goal with H : (d_code (decode w) =? kEOC) = false |- _ => rewrite H end.
      match goal with H : (d_code (decode w) =? kEDM) = false |- _ => rewrite H end.
      destruct (d_code (decode w) =? kENM); [reflexivity|].
      destruct (_ || _ || _).
      { unfold cap_to_process. rewrite H2. cbn. now apply vis_upd_cap_pop. }
      match goal with H : (d_code (decode w) =? kCR) = false |- _ => rewrite H end.
      destruct (d_code (decode w) =? kDER); [destruct (cap_to_process c2); [now apply vis_upd_cap_pop|reflexivity]|].
      destruct (d_code (decode w) =? kBS); [now apply vis_backspace_pop|reflexivity].
    + destruct (d_cls (decode w) =? cSpecial); [rewrite vis_prev, vis_prev_type, <- V2; now apply vis_process_text_pop|].
      destruct (d_cls (decode w) =? cExtended); [|exact V2].
      rewrite vis_prev, vis_prev_type, <- V2. rewrite vis_process_text_pop by (rewrite style_backspace; exact H2). now apply vis_backspace_pop.
  - destruct (negb _); [reflexivity|]. rewrite vis_prev, vis_prev_type. rewrite vis_process_text_pop by exact Hs. reflexivity.
Qed.

(* ---- a channel-1 miscellaneous control code that is acted upon ---- *)
Definition ctl (w code : Z) : Prop :=
  (byte1 w <? 32) = true /\ (value w =? 0) = false /\ (d_chan (decode w) =? 1) = true /\
  d_cls (decode w) = cControl /\ d_code (decode w) = code.
Lemma step_ctl c w code : c_err c = false -> is_dup c w = false -> ctl w code ->
  step c w = with_prev (with_prev_type (process_control (with_chan (with_tc c (tc_next (c_tc c))) 1) code) cControl) (Some (value w)).
Proof.
  intros He Hd (H1 & H2 & H3 & H4 & H5). unfold is_dup in Hd. unfold step. rewrite He, Hd, H1, H2, H3, H4, H5. reflexivity.
Qed.

Lemma buf_push_active c e cl : c_buf (push_active c e cl) = c_buf c.
Proof.
  unfold push_active. destruct (c_act c); [|reflexivity]. destruct (para_is_empty _); [reflexivity|].
  destruct (to_paragraph _ _). reflexivity.
Qed.
Lemma act_push_active_clear c e : c_act (push_active c e true) = None.
Proof.
  unfold push_active. destruct (c_act c) eqn:E; [|exact E]. destruct (para_is_empty _); [reflexivity|].
  destruct (to_paragraph _ _). reflexivity.
Qed.
(* what push_active writes: nothing for an empty caption, otherwise one paragraph with the caption's begin and the given end *)
Lemma out_push_active c e cl :
  match c_act c with
  | None => c_out (push_active c e cl) = c_out c
  | Some a => if para_is_empty a then c_out (push_active c e cl) = c_out c
              else exists o, c_out (push_active c e cl) = o :: c_out c /\ o_begin o = p_begin a /\ o_end o = e
  end.
Proof.
  unfold push_active. destruct (c_act c) as [a|]; [|reflexivity].
  change (para_is_empty (set_end a e)) with (para_is_empty a). destruct (para_is_empty a); [reflexivity|].
  unfold to_paragraph. destruct (get_region _ _) as [rs rid]. eexists. split; [reflexivity|]. split; reflexivity.
Qed.
Lemma flip_act c t : exists b, c_act (flip c t) = Some b /\ p_begin b = p_begin (c_buf c) /\ p_lines b = p_lines (c_buf c).
Proof.
  unfold flip. set (c1 := push_active c (Some t) true). assert (E : c_buf c1 = c_buf c) by apply buf_push_active. clearbody c1.
  destruct (p_id (c_buf c1)) eqn:Ei.
  - exists (c_buf c1). rewrite <- E. destruct (c_act c); (split; [reflexivity|split; reflexivity]).
  - eexists. destruct (c_act c); (split; [reflexivity|]); cbn; rewrite E; split; reflexivity.
Qed.
Lemma flip_out c t : c_out (flip c t) = c_out (push_active c (Some t) true).
Proof. unfold flip. destruct (p_id _); destruct (c_act c); reflexivity. Qed.
Lemma out_upd_act c f : c_out (upd_act c f) = c_out c.
Proof. unfold upd_act. destruct (c_act c); reflexivity. Qed.

(* EOC: the buffered caption becomes the displayed one and begins at the stamp of the EOC; the caption displayed
   until then is written to the document with that same stamp as its end ("vanishes when replaced") *)
Lemma popon_eoc c w : c_err c = false -> is_dup c w = false -> ctl w kEOC ->
  let t1 := tc_next (c_tc c) in
  (exists b, c_act (step c w) = Some b /\ p_begin b = Some t1 /\ p_lines b = p_lines (c_buf c)) /\
  match c_act c with
  | None => c_out (step c w) = c_out c
  | Some a => if para_is_empty a then c_out (step c w) = c_out c
              else exists o, c_out (step c w) = o :: c_out c /\ o_begin o = p_begin a /\ o_end o = Some t1
  end.
Proof.
  intros He Hd Hc. cbv zeta. rewrite (step_ctl c w kEOC He Hd Hc).
  set (t1 := tc_next (c_tc c)). set (c2 := with_chan (with_tc c t1) 1).
  assert (Hpc : process_control c2 kEOC =
                upd_act (flip (with_buf c2 (set_begin (c_buf c2) (Some t1))) t1)
                        (fun a => let al := if c_talign (flip (with_buf c2 (set_begin (c_buf c2) (Some t1))) t1) =? 0 then guess_text_alignment a
                                            else if c_talign (flip (with_buf c2 (set_begin (c_buf c2) (Some t1))) t1) =? 1 then aStart
                                            else if c_talign (flip (with_buf c2 (set_begin (c_buf c2) (Some t1))) t1) =? 2 then aCenter else aEnd in
                                  set_align a (Some al))) by reflexivity.
  split.
  - change (c_act (with_prev (with_prev_type (process_control c2 kEOC) cControl) (Some (value w)))) with (c_act (process_control c2 kEOC)).
    rewrite Hpc. destruct (flip_act (with_buf c2 (set_begin (c_buf c2) (Some t1))) t1) as (b & Eb & Bb & Lb).
    unfold upd_act. rewrite Eb. eexists. split; [reflexivity|]. cbn [p_begin p_lines set_align]. rewrite Bb, Lb. split; reflexivity.
  - change (c_out (with_prev (with_prev_type (process_control c2 kEOC) cControl) (Some (value w)))) with (c_out (process_control c2 kEOC)).
    rewrite Hpc, out_upd_act, flip_out.
    exact (out_push_active (with_buf c2 (set_begin (c_buf c2) (Some t1))) (Some t1) true).
Qed.
(* EDM: nothing is displayed any more; the caption that was displayed is written with the frame after the EDM's stamp
   as its (exclusive) end ("vanishes when erased") *)
Lemma edm_erases c w : c_err c = false -> is_dup c w = false -> ctl w kEDM ->
  let t1 := tc_next (c_tc c) in
  c_act (step c w) = None /\
  match c_act c with
  | None => c_out (step c w) = c_out c
  | Some a => if para_is_empty a then c_out (step c w) = c_out c
              else exists o, c_out (step c w) = o :: c_out c /\ o_begin o = p_begin a /\ o_end o = Some (tc_next t1)
  end.
Proof.
  intros He Hd Hc. cbv zeta. rewrite (step_ctl c w kEDM He Hd Hc).
  set (t1 := tc_next (c_tc c)). set (c2 := with_chan (with_tc c t1) 1).
  assert (Hpc : process_control c2 kEDM = match c_act c2 with Some _ => push_active c2 (Some (tc_next t1)) true | None => c2 end) by reflexivity.
  change (c_act (with_prev (with_prev_type (process_control c2 kEDM) cControl) (Some (value w)))) with (c_act (process_control c2 kEDM)).
  change (c_out (with_prev (with_prev_type (process_control c2 kEDM) cControl) (Some (value w)))) with (c_out (process_control c2 kEDM)).
  rewrite Hpc. change (c_act c2) with (c_act c). destruct (c_act c) as [a|] eqn:E.
  - split; [apply act_push_active_clear|].
    pose proof (out_push_active c2 (Some (tc_next t1)) true) as H. change (c_act c2) with (c_act c) in H. rewrite E in H. exact H.
  - split; [exact E|reflexivity].
Qed.

(* ---- roll-up: at most `depth` rows after a carriage return ---- *)
Lemma len_dset {A} k (v : A) d : (length (dset k v d) <= length d + 1)%nat.
Proof. induction d as [|[k' v'] d IH]; cbn; [lia|]. destruct (k =? k'); cbn; lia. Qed.
Lemma len_dset_present {A} k (v x : A) d : dget k d = Some x -> length (dset k v d) = length d.
Proof. induction d as [|[k' v'] d IH]; cbn; [discriminate|]. destruct (k =? k'); cbn; [reflexivity|]. intros H. now rewrite IH. Qed.
Lemma len_ddel {A} k (d : list (Z * A)) : (length (ddel k d) <= length d)%nat.
Proof. induction d as [|[k' v'] d IH]; cbn; [lia|]. destruct (k =? k'); cbn; lia. Qed.
Lemma len_ddel_present {A} k (x : A) d : dget k d = Some x -> S (length (ddel k d)) = length d.
Proof. induction d as [|[k' v'] d IH]; cbn; [discriminate|]. destruct (k =? k'); cbn; [reflexivity|]. intros H. now rewrite IH. Qed.
Lemma dget_dset_other {A} k k' (v : A) d : k <> k' -> dget k (dset k' v d) = dget k d.
Proof.
  intros Hn. induction d as [|[k2 v2] d IH]; cbn.
  - destruct (k =? k') eqn:E; [apply Z.eqb_eq in E; contradiction|reflexivity].
  - destruct (k' =? k2) eqn:E2; cbn.
    + apply Z.eqb_eq in E2. subst k2. destruct (k =? k') eqn:E; [apply Z.eqb_eq in E; contradiction|reflexivity].
    + destruct (k =? k2); [reflexivity|exact IH].
Qed.
Lemma len_skipn_le {A} n (l : list A) : (length (skipn n l) <= length l)%nat.
Proof. rewrite skipn_length. lia. Qed.
Lemma len_last_lines p n : zlen (last_lines p n) <= Z.max n 0.
Proof.
  unfold last_lines, zlen. destruct (n <=? 0) eqn:E; [cbn; lia|]. unfold py_from.
  destruct (0 <=? - n) eqn:E2; [lia|]. rewrite skipn_length. unfold zlen. lia.
Qed.
(* set_cursor_at adds at most one row ... *)
Lemma len_set_cursor_at p row ind : (length (p_lines (set_cursor_at p row ind)) <= length (p_lines p) + 1)%nat.
Proof.
  unfold set_cursor_at.
  set (p1 := match dget (l_row (cur_line p)) (p_lines p) with Some l => _ | None => p end).
  assert (H1 : (length (p_lines p1) <= length (p_lines p))%nat).
  { unfold p1. destruct (dget _ _); [|lia]. destruct (line_is_empty _); cbn; [apply len_ddel|lia]. }
  clearbody p1. set (p2 := set_cursor p1 _). assert (H2 : p_lines p2 = p_lines p1) by reflexivity. clearbody p2.
  set (p3 := match dget row (p_lines p2) with None => new_caption_line p2 | Some _ => p2 end).
  assert (H3 : (length (p_lines p3) <= length (p_lines p2) + 1)%nat).
  { unfold p3. destruct (dget row _); [lia|]. unfold new_caption_line. destruct (p_cursor p2). cbn. apply len_dset. }
  clearbody p3.
  assert (H4 : forall q, p_lines (update_line_cursor q) = p_lines q \/ length (p_lines (update_line_cursor q)) = length (p_lines q)).
  { intros q. right. unfold update_line_cursor, upd_cur_line.
    assert (G : forall q' f, length (p_lines (match p_cur q' with
                   | Att r => match dget r (p_lines q') with Some l => set_plines q' (dset r (f l) (p_lines q')) | None => q' end
                   | Det l => set_cur q' (Det (f l)) end)) = length (p_lines q')).
    { intros q' f. destruct (p_cur q'); [|reflexivity]. destruct (dget _ _) eqn:E; [|reflexivity]. cbn. eapply len_dset_present; eauto. }
    fold (upd_cur_line) in G. rewrite G.
    set (q1 := if _ <? 0 then _ else q).
    assert (E1 : length (p_lines q1) = length (p_lines q)) by (unfold q1; destruct (_ <? 0); [apply G|reflexivity]).
    clearbody q1. destruct (0 <? _); [rewrite G|]; exact E1. }
  rewrite H2 in H3. destruct (ind =? -1); [cbn; lia|]. destruct (H4 (set_cur p3 (Att row))) as [E|E]; [rewrite E|rewrite E]; cbn; lia.
Qed.
(* ... and none when the current line is the empty initial line of a new paragraph, which it removes *)
Lemma len_set_cursor_at_fresh p row : p_cur p = Att 0 -> dget 0 (p_lines p) = Some (line_new 0 0) ->
  (length (p_lines (set_cursor_at p row (-1))) <= length (p_lines p))%nat.
Proof.
  intros Hc Hg. unfold set_cursor_at.
  assert (Ecl : cur_line p = line_new 0 0) by (unfold cur_line; rewrite Hc, Hg; reflexivity).
  rewrite Ecl. cbn [l_row line_new]. rewrite Hg. change (line_is_empty (line_new 0 0)) with true. cbv iota.
  change (-1 =? -1) with true. cbv iota.
  set (p2 := set_cursor _ _).
  assert (H2 : S (length (p_lines p2)) = length (p_lines p)) by (unfold p2; cbn; eapply len_ddel_present; eauto).
  clearbody p2. destruct (dget row (p_lines p2)); cbn; [lia|].
  unfold new_caption_line. destruct (p_cursor p2). cbn. pose proof (len_dset z (line_new z z0) (p_lines p2)). lia.
Qed.
(* the lines handed over to the new paragraph *)
Definition fresh_or_full (k : nat) (q : para) : Prop :=
  ((length (p_lines q) <= k + 1)%nat /\ p_cur q = Att 0 /\ dget 0 (p_lines q) = Some (line_new 0 0)) \/ (length (p_lines q) <= k)%nat.
Lemma set_lines_list_len ls : forall k q, fresh_or_full k q -> fresh_or_full (k + length ls) (set_lines_list q ls).
Proof.
  unfold set_lines_list. induction ls as [|l ls IH]; intros k q H; cbn [fold_left length]; [now rewrite Nat.add_0_r|].
  replace (k + S (length ls))%nat with (S k + length ls)%nat by lia. apply IH.
  destruct H as [(Hl & Hc & Hg)|Hl].
  - rewrite Hc. destruct (0 =? l_row l) eqn:E.
    + right. apply Z.eqb_eq in E. cbn. rewrite <- E. rewrite (len_dset_present 0 l (line_new 0 0)) by exact Hg. lia.
    + left. cbn. split; [pose proof (len_dset (l_row l) l (p_lines q)); lia|]. split; [exact Hc|].
      rewrite dget_dset_other; [exact Hg|]. apply Z.eqb_neq in E. exact E.
  - right. set (q1 := match p_cur q with Att r => _ | Det _ => q end).
    assert (E1 : p_lines q1 = p_lines q). { unfold q1. destruct (p_cur q); [|reflexivity]. destruct (_ =? _); reflexivity. }
    cbn. rewrite E1. pose proof (len_dset (l_row l) l (p_lines q)). lia.
Qed.
Lemma rollup_depth c w a : c_err c = false -> is_dup c w = false -> ctl w kCR -> c_act c = Some a -> p_style a = sRollUp ->
  exists a', c_act (step c w) = Some a' /\ zlen (p_lines a') <= Z.max (c_depth c) 1.
Proof.
  intros He Hd Hc Ha Hs. rewrite (step_ctl c w kCR He Hd Hc).
  set (t1 := tc_next (c_tc c)). set (c2 := with_chan (with_tc c t1) 1).
  change (c_act (with_prev (with_prev_type (process_control c2 kCR) cControl) (Some (value w)))) with (c_act (process_control c2 kCR)).
  assert (Hpc : process_control c2 kCR =
    let '(c1, previous_lines) :=
      if para_is_empty a then (with_count c2 (c_count c2 - 1), [])
      else let c1 := upd_act (push_active c2 (Some t1) false) roll_up in
           (c1, match c_act c1 with Some a1 => last_lines a1 (c_depth c1 - 1) | None => [] end) in
    upd_act (new_active_caption c1 t1 sRollUp) (fun x => set_cursor_at (set_lines_list x previous_lines) roll_up_base_row (-1))).
  { unfold process_control. change (c_act c2) with (c_act c). rewrite Ha, Hs. reflexivity. }
  rewrite Hpc. clear Hpc.
  assert (Hmain : forall c1 ls, zlen ls <= Z.max (c_depth c - 1) 0 ->
            exists a', c_act (upd_act (new_active_caption c1 t1 sRollUp) (fun x => set_cursor_at (set_lines_list x ls) roll_up_base_row (-1))) = Some a' /\
                       zlen (p_lines a') <= Z.max (c_depth c) 1).
  { intros c1 ls Hls. unfold upd_act, new_active_caption. cbn [c_act with_act with_count]. eexists. split; [reflexivity|].
    set (p0 := set_begin _ _).
    assert (H0 : fresh_or_full 0 p0) by (left; unfold p0; cbn; repeat split; lia).
    pose proof (set_lines_list_len ls 0 p0 H0) as H1. cbn [Nat.add] in H1.
    unfold zlen in *. destruct H1 as [(Hl & Hcur & Hg)|Hl].
    - pose proof (len_set_cursor_at_fresh _ roll_up_base_row Hcur Hg). lia.
    - pose proof (len_set_cursor_at (set_lines_list p0 ls) roll_up_base_row (-1)). lia. }
  destruct (para_is_empty a).
  - apply Hmain. cbn. lia.
  - apply Hmain.
    assert (Ed : c_depth (upd_act (push_active c2 (Some t1) false) roll_up) = c_depth c).
    { unfold upd_act, push_active. change (c_act c2) with (c_act c). rewrite Ha. destruct (para_is_empty _); [reflexivity|].
      destruct (to_paragraph _ _). reflexivity. }
    rewrite Ed. destruct (c_act (upd_act (push_active c2 (Some t1) false) roll_up)); [apply len_last_lines|cbn; lia].
Qed.
