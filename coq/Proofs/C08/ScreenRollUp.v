(* C08, display simulation, roll-up, part 2: the relation between the reader's displayed roll-up caption and the decoder's
   displayed memory (base row 15, window of n rows), and its preservation by the words that write the base row. *)
From Coq Require Import QArith.
From TT Require Import Base.Prelude Base.SccTypes Base.SccDoc Gen.SccTables Model.SccWord Model.TimeCode Model.SccReader Spec.Cea608Screen.
From TT Require Import Proofs.C08.Stamps Proofs.C08.Words Proofs.C08.Protocol Proofs.C08.Text Proofs.C08.ScreenMem Proofs.C08.ScreenLine
                       Proofs.C08.ScreenPara Proofs.C08.ScreenWords Proofs.C08.ScreenPopOn Proofs.C08.ScreenRollMem.
Open Scope Z_scope.

Definition all_rows : list Z := [1; 2; 3; 4; 5; 6; 7; 8; 9; 10; 11; 12; 13; 14; 15].
Lemma in_all_rows r : in_rows r -> In r all_rows.
Proof. unfold in_rows, all_rows. intros H. cbn. lia. Qed.
(* bookkeeping of the scan: the cursor is positioned on the base row; nothing has been written on the base row since it was
   last cleared; a caption is being displayed (false after EDM until the next RUx) *)
Record gru := mkGR { gr_pos : bool ; gr_fresh : bool ; gr_live : bool }.
(* the rows of the displayed caption: lo .. 15 without a gap, inside the window; the cursor line is the base row *)
Definition contig (n : Z) (a : para) : Prop :=
  p_cur a = Att 15 /\ exists lo, 16 - n <= lo <= 15 /\ forall r, dget r (p_lines a) <> None <-> lo <= r <= 15.
Definition base_empty (a : para) : Prop := forall l, dget 15 (p_lines a) = Some l -> line_length l = 0.
Record Rub (n : Z) (c : ctx) (s : scr) (g : gru) : Prop := {
  u_err : c_err c = false;
  u_style : c_style c = sRollUp;
  u_depth : c_depth c = n;
  u_md : md s = RollUp n;
  u_n : 2 <= n <= 4;
  u_crow : crow s = 15;
  u_pen : pen_of c = (pcol s, pita s, pund s);
  u_wf : scr_wf s;
  u_act : match c_act c with
          | Some a => gr_live g = true /\ @para_mem sRollUp a (disp s) all_rows /\ contig n a /\ (gr_fresh g = true -> base_empty a)
          | None => gr_live g = false /\ forall r k, is_blank (mcell (disp s) r k) = true
          end }.
Definition Rupos (c : ctx) (s : scr) : Prop :=
  0 <= ccol s <= 31 /\ exists a l ts t, c_act c = Some a /\ para_at a 15 (ccol s) l ts t /\ elt_ok (pen_of c) l t (ccol s).
Definition Rupos_w (c : ctx) (s : scr) : Prop :=
  0 <= ccol s <= 31 /\ exists a l ts t, c_act c = Some a /\ para_at a 15 (ccol s) l ts t /\
    ((t_sty t = ts0 /\ all_spaces t) \/ sview (t_sty t) = pen_of c).
Definition Rru (n : Z) (c : ctx) (s : scr) (g : gru) : Prop := Rub n c s g /\ (gr_pos g = true -> Rupos c s) /\ Rlink c s.
Lemma Rupos_weaken c s : Rupos c s -> Rupos_w c s.
Proof. intros (A & a & l & ts & t & Ha & Hat & (_ & E2 & _)). split; [exact A|]. exists a, l, ts, t. split; [exact Ha|]. split; [exact Hat|exact E2]. Qed.

Lemma Rub_same n c s g c' s' : Rub n c s g ->
  c_err c' = c_err c -> c_style c' = c_style c -> c_depth c' = c_depth c -> c_color c' = c_color c -> c_italic c' = c_italic c ->
  c_under c' = c_under c -> c_act c' = c_act c ->
  md s' = md s -> crow s' = crow s -> pcol s' = pcol s -> pita s' = pita s -> pund s' = pund s -> disp s' = disp s -> nond s' = nond s ->
  Rub n c' s' g.
Proof.
  intros [A B C D E F G H I] E1 E2 E3 E4 E5 E6 E7 F1 F2 F3 F4 F5 F6 F7.
  assert (Ep : pen_of c' = pen_of c) by (unfold pen_of; now rewrite E4, E5, E6).
  split; try assumption.
  - now rewrite E1.
  - now rewrite E2.
  - now rewrite E3.
  - now rewrite F1.
  - now rewrite F2.
  - now rewrite Ep, F3, F4, F5.
  - unfold scr_wf in *. now rewrite F6, F7.
  - now rewrite E7, F6.
Qed.
Lemma Rupos_same c s c' s' : Rupos c s -> c_color c' = c_color c -> c_italic c' = c_italic c -> c_under c' = c_under c ->
  c_act c' = c_act c -> ccol s' = ccol s -> Rupos c' s'.
Proof.
  intros H E3 E4 E5 E6 F8. assert (Ep : pen_of c' = pen_of c) by (unfold pen_of; now rewrite E3, E4, E5).
  unfold Rupos. rewrite E6, Ep, F8. exact H.
Qed.
(* a channel-1 code that is acted upon (as wrap_code for the pop-on relation) *)
Lemma wrap_code_ru n c s g' w X s1 cls : Rlink c s -> d_chan (decode w) = 1 ->
  Rub n X s1 g' -> (gr_pos g' = true -> Rupos X s1) -> c_chan X = 1 -> last s1 = Some (value w) -> chan s1 = 1 ->
  Rru n (with_prev (with_prev_type X cls) (Some (value w))) (set_pmid s1 (cls =? cMidRow)) g'.
Proof.
  intros HL Hc HX HP Hch Hlast Hchan. split; [|split].
  - apply (Rub_same n X s1 g'); try reflexivity. exact HX.
  - intros Hg. apply (Rupos_same X s1); try reflexivity. exact (HP Hg).
  - split.
    + cbn [c_chan with_prev with_prev_type chan set_pmid]. rewrite Hch, Hchan. reflexivity.
    + intros w' Hw'. unfold is_dup, is_second_copy. cbn [c_prev with_prev last set_pmid]. rewrite Hlast.
      rewrite value_div. rewrite (chan1_is_code w Hc). apply andb_true_r.
    + intros pv H Hcode. cbn [c_prev with_prev] in H. injection H as <-. exists w. split; [reflexivity|exact Hc].
    + reflexivity.
Qed.
(* rows of a caption whose base row line is replaced *)
Lemma contig_put_line n a l : contig n a -> contig n (put_line a 15 l).
Proof.
  intros (Hc & lo & Hlo & Hk). split; [exact Hc|]. exists lo. split; [exact Hlo|]. intros r. rewrite dget_put_line.
  destruct (r =? 15) eqn:E; [|apply Hk]. assert (r = 15) by lia. subst r. split; [intros _; lia|discriminate].
Qed.
Lemma contig_set_cursor n a x : contig n a -> contig n (set_cursor a x).
Proof. exact (fun H => H). Qed.

(* ---- characters ---- *)
Lemma process_text_ru c a word : c_style c = sRollUp -> c_act c = Some a ->
  process_text c word = sync_acur (with_act c (Some (style_cur_text c (append_text a word)))).
Proof. intros H Ha. unfold process_text. rewrite H. change (sRollUp =? sPaintOn) with false. change (sRollUp =? sRollUp) with true. cbv iota. rewrite Ha. cbv iota. unfold upd_act. rewrite Ha. reflexivity. Qed.
Lemma contig_at_15 n a : contig n a -> exists l, dget 15 (p_lines a) = Some l.
Proof. intros (_ & lo & Hlo & Hk). destruct (dget 15 (p_lines a)) eqn:E; [eexists; reflexivity|]. exfalso. apply (proj2 (Hk 15)); [lia|exact E]. Qed.
Lemma core_write_ru n c s g word : Rub n c s g -> Rupos_w c s -> word <> [] -> ccol s + zlen word <= 31 ->
  Rub n (process_text c word) (puts s word) (mkGR true false (gr_live g)) /\ Rupos (process_text c word) (puts s word) /\
  c_chan (process_text c word) = c_chan c.
Proof.
  intros Hb (Hcol & a & l & ts & t & Ha & Hat & Helt) Hw Hlen.
  pose proof Hb as [A B C D E F G H I]. rewrite Ha in I. destruct I as (I1 & I2 & I3 & I4).
  destruct (puts_ru_proj s n word D Hlen) as (P1 & P2 & P3 & P4 & P5 & P6 & P7 & P8 & P9 & P10 & P11). rewrite F in P8.
  assert (Hrow : in_rows 15) by (unfold in_rows; lia).
  destruct (para_write a (disp s) all_rows 15 (ccol s) l ts t (c_color c) (c_italic c) (c_under c)
              (pcol s) (pita s) (pund s) word I2 Hat Hrow (proj1 Hcol) Hlen Hw (proj1 H) Helt G) as (Q1 & Q2 & Q3 & Q4 & Q5).
  rewrite (process_text_ru c a word B Ha), style_cur_text_eq, Q1.
  match goal with |- context [sync_acur ?x] => destruct (sync_acur_proj x) as (S1 & S2 & S3 & S4 & S5 & S6 & S7 & S8); set (c' := sync_acur x) in * end.
  cbn [c_err c_style c_color c_italic c_under c_buf c_act c_chan with_act] in S1, S2, S3, S4, S5, S6, S7, S8.
  assert (Sd : c_depth c' = c_depth c).
  { unfold c', sync_acur. cbn [c_act with_act]. reflexivity. }
  split; [|split].
  - split.
    + rewrite S1. exact A.
    + rewrite S2. exact B.
    + rewrite Sd. exact C.
    + exact P1.
    + exact E.
    + rewrite P6. exact F.
    + unfold pen_of. rewrite S3, S4, S5, P2, P3, P4. exact G.
    + destruct H as [H1 H2]. split; [rewrite P8; now apply write_cells_wf|rewrite P5; exact H2].
    + rewrite S7, P8. cbn [gr_live gr_fresh]. split; [exact I1|]. split; [exact Q2|]. split; [|discriminate].
      apply contig_set_cursor, contig_put_line. exact I3.
  - split; [rewrite P7; pose proof (zlen_nonneg word); lia|].
    eexists _, _, ts, _. rewrite S7, P7. split; [reflexivity|]. split; [exact Q3|].
    split; [|split].
    + intros H0. rewrite Q5 in H0. destruct (t_text t); [destruct word; [contradiction|discriminate]|discriminate].
    + right. unfold pen_of. rewrite S3, S4, S5, Q4. symmetry. exact G.
    + intros H0. rewrite Q5 in H0. destruct (t_text t); [destruct word; [contradiction|discriminate]|discriminate].
  - exact S8.
Qed.
Lemma Rlink_chars c s X s1 w : Rlink c s -> 32 <= byte1 w -> c_chan X = c_chan c -> chan s1 = chan s -> last s1 = None -> pmid s1 = false ->
  Rlink (with_prev (with_prev_type X cChars) (Some (value w))) s1.
Proof.
  intros [A B C D] Hby E1 E2 E3 E4. split.
  - cbn [c_chan with_prev with_prev_type]. rewrite E1, E2. exact A.
  - intros w' _. unfold is_dup, is_second_copy. cbn [c_prev with_prev]. rewrite E3.
    rewrite value_div. replace (is_code (byte1 w)) with false by (unfold is_code; lia). apply andb_false_r.
  - intros pv H Hcode. cbn [c_prev with_prev] in H. injection H as <-. rewrite value_div in Hcode. unfold is_code in Hcode. lia.
  - rewrite E4. reflexivity.
Qed.
Lemma step_ru_chars n c s g w : Rru n c s g -> 32 <= byte1 w -> (chan s =? 1) = true -> gr_pos g = true ->
  ccol s + zlen (to_text w) <= 31 -> Rru n (step c w) (feed dev0 s w) (mkGR true false (gr_live g)).
Proof.
  intros (Hb & Hp & HL) Hby Hch Hg Hlen.
  rewrite (step_chars c w (u_err _ _ _ _ Hb) Hby), (feed_chars_puts dev0 s w Hby Hch). cbv zeta.
  rewrite (r_chan _ _ HL), Hch. cbn [negb].
  set (c1 := with_tc c (tc_next (c_tc c))). set (s0 := set_pmid (set_last s None) false).
  assert (Hb1 : Rub n c1 s0 g) by (apply (Rub_same n c s g); try reflexivity; exact Hb).
  assert (Hp1 : Rupos c1 s0) by (apply (Rupos_same c s); try reflexivity; exact (Hp Hg)).
  assert (Hne : to_text w <> []) by (rewrite (to_text_chars w Hby); discriminate).
  destruct (core_write_ru n c1 s0 g (to_text w) Hb1 (Rupos_weaken _ _ Hp1) Hne Hlen) as (R1 & R2 & R3).
  destruct (puts_ru_proj s0 n (to_text w) (u_md _ _ _ _ Hb1) Hlen) as (P1 & P2 & P3 & P4 & P5 & P6 & P7 & P8 & P9 & P10 & P11).
  split; [|split].
  - apply (Rub_same n _ _ _ _ _ R1); reflexivity.
  - intros _. apply (Rupos_same _ _ _ _ R2); reflexivity.
  - apply (Rlink_chars c s _ _ w HL Hby); [exact R3|rewrite P10; reflexivity|rewrite P9; reflexivity|rewrite P11; reflexivity].
Qed.
Lemma step_ru_special n c s g w : Rru n c s g -> d_chan (decode w) = 1 -> is_second_copy s w = false ->
  d_cls (decode w) = cSpecial -> gr_pos g = true -> ccol s + 1 <= 31 -> Rru n (step c w) (feed dev0 s w) (mkGR true false (gr_live g)).
Proof.
  intros (Hb & Hp & HL) Hc Hd Hcls Hg Hlen.
  rewrite (step_code c w (u_err _ _ _ _ Hb) (not_dup_code c s w HL Hc Hd) Hc), (feed_act s w Hc Hd). cbv zeta.
  unfold act. rewrite Hcls. cbn [Z.eqb cSpecial cPac cAttr cMidRow cControl cExtended Pos.eqb].
  set (c1 := code_ctx c). set (s0 := set_chan (set_last s (Some (value w))) 1).
  assert (Hb1 : Rub n c1 s0 g) by (apply (Rub_same n c s g); try reflexivity; exact Hb).
  assert (Hp1 : Rupos c1 s0) by (apply (Rupos_same c s); try reflexivity; exact (Hp Hg)).
  assert (Hlen1 : ccol s0 + zlen [d_t1 (decode w)] <= 31) by (unfold zlen; cbn; exact Hlen).
  destruct (core_write_ru n c1 s0 g [d_t1 (decode w)] Hb1 (Rupos_weaken _ _ Hp1) ltac:(discriminate) Hlen1) as (R1 & R2 & R3).
  destruct (puts_ru_proj s0 n [d_t1 (decode w)] (u_md _ _ _ _ Hb1) Hlen1) as (P1 & P2 & P3 & P4 & P5 & P6 & P7 & P8 & P9 & P10 & P11).
  change (put s0 (d_t1 (decode w))) with (puts s0 [d_t1 (decode w)]).
  apply (wrap_code_ru n c s _ w _ _ cSpecial HL Hc).
  - exact R1.
  - intros _; exact R2.
  - rewrite R3. reflexivity.
  - rewrite P9. reflexivity.
  - rewrite P10. reflexivity.
Qed.

(* ---- preamble address code for the base row, nothing written on it yet ---- *)
Lemma outside_window_blank n a m u : @para_mem sRollUp a m u -> contig n a -> forall r c, in_rows r -> in_cols c ->
  in_window 15 n r = false -> is_blank (mcell m r c) = true.
Proof.
  intros Hpm (_ & lo & Hlo & Hk) r c Hr Hc Hw. pose proof (pm_cells _ _ _ Hpm r c Hr Hc) as Hq. apply (ceqv_blank_l _ _ Hq).
  unfold pcell. destruct (dget r (p_lines a)) eqn:E; [|reflexivity]. exfalso.
  assert (Hin : lo <= r <= 15) by (apply Hk; rewrite E; discriminate). unfold in_window in Hw. lia.
Qed.
Lemma trim_eqv n a m u : @para_mem sRollUp a m u -> contig n a ->
  forall r c, in_rows r -> in_cols c -> ceqv (if in_window 15 n r then mcell m r c else blank) (mcell m r c).
Proof.
  intros Hpm Hc r c Hr Hcc. destruct (in_window 15 n r) eqn:E; [apply ceqv_refl|].
  apply ceqv_blank; [reflexivity|]. now apply (outside_window_blank n a m u).
Qed.
Lemma contig_at_fresh n a l0 ind0 : contig n a -> NoDup (map fst (p_lines a)) -> contig n (at_fresh a 15 l0 15 ind0).
Proof.
  intros (Hc & lo & Hlo & Hk) Hn. split; [reflexivity|]. exists lo. split; [exact Hlo|]. intros r. unfold at_fresh. cbn [p_lines set_cur set_plines].
  rewrite dget_dset. destruct (r =? 15) eqn:E; [split; [intros _; lia|discriminate]|].
  rewrite dget_fresh_lines by exact Hn. replace (r =? 15) with false by lia. rewrite andb_false_r. apply Hk.
Qed.
Lemma process_pac_ru c a d : c_style c = sRollUp -> c_act c = Some a -> d_row d = 15 ->
  process_pac c d =
  sync_acur (with_attrs (with_act c (Some (new_caption_text (set_cursor_at (match p_begin a with None => set_begin a (Some (c_tc c)) | Some _ => a end) 15 (d_indent d)))))
                        (d_color d) (d_italic d) (d_under d)).
Proof.
  intros H Ha Hr. unfold process_pac. rewrite H, Hr. change (sRollUp =? sPaintOn) with false. change (sRollUp =? sRollUp) with true.
  change ((5 <=? 15) && (15 <? 12)) with false. cbv iota. rewrite Ha. unfold upd_act. rewrite Ha. cbn [c_act with_act]. reflexivity.
Qed.
Lemma step_ru_pac n c s g w : Rru n c s g -> d_chan (decode w) = 1 -> is_second_copy s w = false ->
  d_cls (decode w) = cPac -> d_row (decode w) = 15 -> (d_indent (decode w) = -1 \/ 0 <= d_indent (decode w) <= 28) ->
  gr_live g = true -> gr_fresh g = true -> Rru n (step c w) (feed dev0 s w) (mkGR true true true).
Proof.
  intros (Hb & Hp & HL) Hc Hd Hcls Hrow Hind Hlive Hfresh.
  rewrite (step_code c w (u_err _ _ _ _ Hb) (not_dup_code c s w HL Hc Hd) Hc), (feed_act s w Hc Hd). cbv zeta.
  unfold act. rewrite Hcls. cbn [Z.eqb cPac cMidRow Pos.eqb].
  set (d := decode w) in *. set (c1 := code_ctx c). set (s0 := set_chan (set_last s (Some (value w))) 1).
  assert (Hb1 : Rub n c1 s0 g) by (apply (Rub_same n c s g); try reflexivity; exact Hb).
  pose proof Hb1 as [A B C D E F G H I].
  destruct (c_act c1) as [a|] eqn:Ea; [|destruct I as [I _]; congruence]. destruct I as (I1 & I2 & I3 & I4).
  rewrite (process_pac_ru c1 a d B Ea Hrow). unfold pac. rewrite D. cbn [v_base15 dev0]. rewrite Hrow.
  replace (Z.max 15 n) with 15 by lia.
  set (a' := match p_begin a with None => set_begin a (Some (c_tc c1)) | Some _ => a end).
  assert (Hpm' : @para_mem sRollUp a' (disp s0) all_rows) by (apply (para_mem_meta a); [exact I2|unfold a'; destruct (p_begin a); reflexivity..]).
  assert (Hct' : contig n a') by (unfold a'; destruct (p_begin a); exact I3).
  destruct Hct' as (Hcur' & Hlo') eqn:Ect. destruct (contig_at_15 n a' (conj Hcur' Hlo')) as (l15 & Hl15).
  assert (Hemp : line_is_empty l15 = true).
  { unfold line_is_empty. apply Z.eqb_eq. apply (I4 Hfresh). unfold a' in Hl15. destruct (p_begin a); exact Hl15. }
  set (ind0 := if d_indent d =? -1 then 0 else d_indent d).
  assert (Hind0 : 0 <= ind0 <= 28) by (unfold ind0; destruct Hind as [->|Hi]; [cbn; lia|destruct (d_indent d =? -1); lia]).
  assert (Hr15 : in_rows 15) by (unfold in_rows; lia).
  destruct (para_mem_refresh a' (disp s0) all_rows 15 l15 ind0 Hpm' Hcur' Hl15 Hemp Hr15 ltac:(lia)) as (R0 & R1 & R2).
  destruct (pm_line _ _ _ Hpm' 15 l15 Hl15) as (Hrow15 & _).
  rewrite (set_cursor_at_fresh a' 15 l15 15 (d_indent d) Hcur' Hl15 Hrow15 R0). fold ind0.
  destruct (para_newtext _ _ all_rows 15 ind0 _ [] _ R1 R2 Hr15) as (N1 & N2 & N3 & N4 & N5). rewrite N1.
  match goal with |- context [sync_acur ?x] => destruct (sync_acur_proj x) as (S1 & S2 & S3 & S4 & S5 & S6 & S7 & S8); set (c' := sync_acur x) in * end.
  cbn [c_err c_style c_color c_italic c_under c_buf c_act c_chan with_act with_attrs] in S1, S2, S3, S4, S5, S6, S7, S8.
  assert (Sd : c_depth c' = c_depth c1) by reflexivity.
  set (m' := move_window (disp s0) (crow s0) n 15).
  assert (Hm' : forall r k, in_rows r -> in_cols k -> ceqv (mcell m' r k) (mcell (disp s0) r k)).
  { intros r k Hr Hk. unfold m'. rewrite F. rewrite mcell_move_same by exact Hr. apply (trim_eqv n a' _ all_rows Hpm' (conj Hcur' Hlo') r k Hr Hk). }
  apply (wrap_code_ru n c s _ w _ _ cPac HL Hc).
  - split.
    + rewrite S1. exact A.
    + rewrite S2. exact B.
    + rewrite Sd. exact C.
    + exact D.
    + exact E.
    + reflexivity.
    + unfold pen_of. rewrite S3, S4, S5. reflexivity.
    + destruct H as [H1 H2]. split; [cbn [disp crow set_pos set_disp set_pen]; try unfold m'; rewrite F; now apply move_same_wf|exact H2].
    + rewrite S7. cbn [disp crow set_pos set_disp set_pen gr_live gr_fresh]. fold m'. split; [reflexivity|]. split; [apply (para_mem_eqv _ _ _ _ N2 Hm')|].
      split; [apply contig_put_line, contig_at_fresh; [exact (conj Hcur' Hlo')|apply (pm_nodup _ _ _ Hpm')]|].
      intros _ l Hl. rewrite dget_put_line, Z.eqb_refl in Hl. injection Hl as <-. rewrite N5. reflexivity.
  - intros _. split; [cbn [ccol set_pos]; lia|]. eexists _, _, _, _. rewrite S7. split; [reflexivity|]. split; [exact N3|].
    split; [reflexivity|]. split; [left; split; [reflexivity|constructor]|]. intros _. left. rewrite N5. reflexivity.
  - rewrite S8. reflexivity.
  - reflexivity.
  - reflexivity.
Qed.

(* ---- mid-row codes ---- *)
Lemma process_mid_row_ru c a d : c_style c = sRollUp -> c_act c = Some a ->
  p_style (mid_para a (d_under d) (c_prev_type c =? cMidRow)) = sRollUp ->
  process_mid_row c d = with_attrs (with_act c (Some (mid_para a (d_under d) (c_prev_type c =? cMidRow))))
                                   (if d_color d =? -1 then c_color c else d_color d) (d_italic d) (d_under d).
Proof.
  intros Hs Ha Hst. unfold process_mid_row. unfold cap_to_process, upd_cap, upd_act. destruct (c_prev_type c =? cMidRow) eqn:Hp; cbn [negb].
  - cbn [c_style c_act with_attrs]. rewrite Hs. change (sRollUp =? sPopOn) with false. cbv iota. rewrite Ha. unfold mid_para in *.
    cbn [c_style c_act with_attrs with_act]. rewrite Hs. change (sRollUp =? sPopOn) with false. cbv iota.
    rewrite Hst. change (sRollUp =? sPaintOn) with false. cbv iota. destruct c; reflexivity.
  - rewrite Hs. change (sRollUp =? sPopOn) with false. change (sRollUp =? sPaintOn) with false. cbn [andb]. cbv iota. rewrite Ha.
    unfold mid_para in *.
    destruct (negb (is_nil (t_text (cur_text a)))); [destruct (negb (d_under d))|];
      rewrite ?Ha; cbn [c_style c_act with_attrs with_act]; rewrite ?Hs; change (sRollUp =? sPopOn) with false; cbv iota;
      rewrite ?Ha; cbn [c_style c_act with_attrs with_act]; rewrite ?Hst; change (sRollUp =? sPaintOn) with false; cbv iota; try reflexivity; destruct c; reflexivity.
Qed.
Lemma contig_keys_same n a a' : contig n a -> p_cur a' = Att 15 -> (forall r, dget r (p_lines a') <> None <-> dget r (p_lines a) <> None) -> contig n a'.
Proof.
  intros (Hc & lo & Hlo & Hk) Hc' Hd. split; [exact Hc'|]. exists lo. split; [exact Hlo|]. intros r. rewrite Hd. apply Hk.
Qed.
(* a caption positioned on the base row keeps its rows when only the base row line changes *)
Lemma contig_from_at n a a' col l ts t col' l' ts' t' : contig n a -> para_at a 15 col l ts t -> para_at a' 15 col' l' ts' t' ->
  (forall r, r <> 15 -> dget r (p_lines a') = dget r (p_lines a)) -> contig n a'.
Proof.
  intros Hct (_ & Hg & _) (Hc' & Hg' & _) Hd. apply (contig_keys_same n a a' Hct Hc'). intros r.
  destruct (r =? 15) eqn:E; [assert (r = 15) by lia; subst r; rewrite Hg, Hg'; split; discriminate|]. rewrite Hd by lia. tauto.
Qed.
Lemma step_ru_midrow n c s g w : Rru n c s g -> d_chan (decode w) = 1 -> is_second_copy s w = false ->
  d_cls (decode w) = cMidRow -> gr_pos g = true -> ccol s + 1 <= 31 ->
  (if d_italic (decode w) then d_color (decode w) =? -1 else negb (d_color (decode w) =? -1)) = true ->
  Rru n (step c w) (feed dev0 s w) (mkGR true false (gr_live g)).
Proof.
  intros (Hb & Hp & HL) Hc Hd Hcls Hg Hlen Htab.
  rewrite (step_code c w (u_err _ _ _ _ Hb) (not_dup_code c s w HL Hc Hd) Hc), (feed_act s w Hc Hd). cbv zeta.
  unfold act. rewrite Hcls. cbn [Z.eqb cPac cMidRow cAttr Pos.eqb].
  set (d := decode w) in *. set (c1 := code_ctx c). set (s0 := set_chan (set_last s (Some (value w))) 1).
  assert (Hb1 : Rub n c1 s0 g) by (apply (Rub_same n c s g); try reflexivity; exact Hb).
  assert (Hp1 : Rupos c1 s0) by (apply (Rupos_same c s); try reflexivity; exact (Hp Hg)).
  pose proof Hb1 as [A B C D E F G H I]. destruct Hp1 as (Hcol & a & l & ts & t & Ha & Hat & (He1 & He2 & He5)).
  rewrite Ha in I. destruct I as (I1 & I2 & I3 & I4).
  assert (Hlen1 : ccol s0 + zlen [32] <= 31) by (unfold zlen; cbn; exact Hlen).
  destruct (puts_ru_proj s0 n [32] D Hlen1) as (P1 & P2 & P3 & P4 & P5 & P6 & P7 & P8 & P9 & P10 & P11). rewrite F in P8.
  set (newpen := penview (if d_color d =? -1 then c_color c1 else d_color d) (d_italic d) (d_under d)).
  assert (Hr15 : in_rows 15) by (unfold in_rows; lia).
  destruct (para_mid a (disp s0) all_rows 15 (ccol s0) l ts t (d_under d) (c_prev_type c1 =? cMidRow) newpen (pen_cell s0)
              I2 Hat Hr15 (proj1 Hcol) Hlen (proj1 H) eq_refl He1) as (M1 & Mrows & l2 & ts2 & t2 & M2 & M3).
  rewrite (process_mid_row_ru c1 a d B Ha (pm_style _ _ _ M1)).
  unfold midrow. change (put s0 32) with (puts s0 [32]).
  assert (Hpen : newpen = (if d_italic d then pcol (puts s0 [32]) else d_color d, d_italic d, d_under d)).
  { unfold pen_of, penview in G. injection G as D1 D2 D3. rewrite P2. unfold newpen.
    destruct (d_italic d).
    - rewrite Htab. unfold penview. change (c_color c1) with (c_color c). rewrite D1. reflexivity.
    - destruct (d_color d =? -1) eqn:E1; [discriminate Htab|]. unfold penview. rewrite E1. reflexivity. }
  match goal with |- Rru _ _ (set_pmid ?s1 _) _ =>
    assert (Es1 : md s1 = RollUp n /\ (pcol s1, pita s1, pund s1) = newpen /\ nond s1 = nond s0 /\ disp s1 = disp (puts s0 [32]) /\
                  crow s1 = crow s0 /\ ccol s1 = ccol s0 + 1 /\ last s1 = last s0 /\ chan s1 = chan s0)
  end.
  { rewrite Hpen. destruct (d_italic d); repeat split; try assumption; try reflexivity. }
  destruct Es1 as (T1 & T2 & T3 & T4 & T5 & T6 & T7 & T8).
  apply (wrap_code_ru n c s _ w _ _ cMidRow HL Hc).
  - split; try assumption.
    + rewrite T5. exact F.
    + unfold pen_of. cbn [c_color c_italic c_under with_attrs]. rewrite T2. reflexivity.
    + unfold scr_wf. rewrite T3, T4, P8. destruct H as [H1 H2]. split; [now apply write_cells_wf|exact H2].
    + cbn [c_act with_attrs with_act gr_live gr_fresh]. rewrite T4, P8. split; [exact I1|]. split; [exact M1|]. split; [|discriminate].
      apply (contig_from_at n a _ _ _ _ _ _ _ _ _ I3 Hat M2). intros r Hr. apply Mrows. exact Hr.
  - assert (Hlen0 : ccol s0 + 1 <= 31) by exact Hlen.
    intros _. split; [rewrite T6; lia|].
    eexists _, l2, ts2, t2. cbn [c_act with_attrs with_act]. split; [reflexivity|]. rewrite T6. split; [exact M2|exact M3].
  - reflexivity.
  - rewrite T7. reflexivity.
  - rewrite T8. reflexivity.
Qed.

(* ---- tab offsets, DER, extended characters, EDM, RUx while a caption is displayed ---- *)
Lemma upd_cap_ru c a f : c_style c = sRollUp -> c_act c = Some a -> upd_cap c f = with_act c (Some (f a)).
Proof. intros H Ha. unfold upd_cap, upd_act. rewrite H, Ha. reflexivity. Qed.
Lemma cap_ru c a : c_style c = sRollUp -> c_act c = Some a -> cap_to_process c = Some a.
Proof. intros H Ha. unfold cap_to_process. rewrite H. exact Ha. Qed.
Lemma step_ru_to n c s g w : Rru n c s g -> d_chan (decode w) = 1 -> is_second_copy s w = false ->
  d_cls (decode w) = cControl -> kTO1 <= d_code (decode w) <= kTO1 + 2 -> gr_pos g = true ->
  ccol s + (d_code (decode w) - kTO1 + 1) <= 31 -> Rru n (step c w) (feed dev0 s w) (mkGR true false (gr_live g)).
Proof.
  intros (Hb & Hp & HL) Hc Hd Hcls Hk Hg Hlen.
  rewrite (step_control c w (u_err _ _ _ _ Hb) (not_dup_code c s w HL Hc Hd) Hc Hcls), (feed_control s w Hc Hd Hcls).
  set (k := d_code (decode w)) in *. set (m := k - kTO1 + 1) in *. unfold kTO1 in Hk, m.
  set (c1 := code_ctx c). set (s0 := set_chan (set_last s (Some (value w))) 1).
  assert (Hb1 : Rub n c1 s0 g) by (apply (Rub_same n c s g); try reflexivity; exact Hb).
  assert (Hp1 : Rupos c1 s0) by (apply (Rupos_same c s); try reflexivity; exact (Hp Hg)).
  pose proof Hb1 as [A B C D E F G H I]. destruct Hp1 as (Hcol & a & l & ts & t & Ha & Hat & (He1 & He2 & He5)).
  rewrite Ha in I. destruct I as (I1 & I2 & I3 & I4).
  assert (Em : process_control c1 k = with_act c1 (Some (indent_cursor a m))).
  { unfold process_control, Model.SccReader.kRCL, Model.SccReader.kRDC, Model.SccReader.kRU2, Model.SccReader.kRU3, Model.SccReader.kRU4,
      Model.SccReader.kEOC, Model.SccReader.kEDM, Model.SccReader.kENM, Model.SccReader.kTO1, Model.SccReader.kTO2, Model.SccReader.kTO3.
    replace (k =? 0) with false by lia. replace (k =? 9) with false by lia.
    replace ((k =? 5) || (k =? 6) || (k =? 7)) with false by lia. replace (k =? 15) with false by lia.
    replace (k =? 12) with false by lia. replace (k =? 14) with false by lia.
    replace ((k =? 16) || (k =? 17) || (k =? 18)) with true by lia.
    rewrite (cap_ru c1 a B Ha). exact (upd_cap_ru c1 a (fun p => indent_cursor p (k - 16 + 1)) B Ha). }
  assert (Es : control dev0 s0 k = set_pos s0 (crow s0) (ccol s0 + m)).
  { unfold control, kRCL, kRDC, kRU2, kRU4, kCR, kBS, kDER, kEDM, kENM, kEOC, kTO1.
    replace (k =? 0) with false by lia. replace (k =? 9) with false by lia.
    replace ((5 <=? k) && (k <=? 7)) with false by lia. replace (k =? 13) with false by lia.
    replace (k =? 1) with false by lia. replace (k =? 4) with false by lia. replace (k =? 12) with false by lia.
    replace (k =? 14) with false by lia. replace (k =? 15) with false by lia.
    replace ((16 <=? k) && (k <=? 16 + 2)) with true by lia. f_equal.
    change (ccol s0) with (ccol s). fold m. unfold m. lia. }
  rewrite Em, Es.
  assert (Hm : 0 < m) by (unfold m; lia). assert (Hlen0 : ccol s0 + m <= 31) by exact Hlen.
  assert (Hr15 : in_rows 15) by (unfold in_rows; lia).
  destruct (para_tab a (disp s0) all_rows 15 (ccol s0) l ts t m (pen_of c1) I2 Hat Hr15 Hm Hlen0 He1 He2 He5)
    as (T1 & Trows & l2 & ts2 & t2 & T2 & T3 & T4 & T5).
  apply (wrap_code_ru n c s _ w _ _ cControl HL Hc); try reflexivity.
  - split; try assumption. cbn [c_act with_act gr_live gr_fresh]. split; [exact I1|]. split; [exact T1|]. split; [|discriminate].
    apply (contig_from_at n a _ _ _ _ _ _ _ _ _ I3 Hat T2). exact Trows.
  - intros _. split; [cbn [ccol set_pos]; lia|].
    eexists _, l2, ts2, t2. cbn [c_act with_act]. split; [reflexivity|]. split; [exact T2|]. split; [exact T3|split; [exact T4|exact T5]].
Qed.
Lemma step_ru_der n c s g w : Rru n c s g -> d_chan (decode w) = 1 -> is_second_copy s w = false ->
  d_cls (decode w) = cControl -> d_code (decode w) = kDER -> gr_pos g = true -> Rru n (step c w) (feed dev0 s w) g.
Proof.
  intros (Hb & Hp & HL) Hc Hd Hcls Hk Hg.
  rewrite (step_control c w (u_err _ _ _ _ Hb) (not_dup_code c s w HL Hc Hd) Hc Hcls), (feed_control s w Hc Hd Hcls), Hk.
  set (c1 := code_ctx c). set (s0 := set_chan (set_last s (Some (value w))) 1).
  assert (Hb1 : Rub n c1 s0 g) by (apply (Rub_same n c s g); try reflexivity; exact Hb).
  assert (Hp1 : Rupos c1 s0) by (apply (Rupos_same c s); try reflexivity; exact (Hp Hg)).
  pose proof Hb1 as [A B C D E F G H I]. pose proof Hp1 as (Hcol & a & l & ts & t & Ha & Hat & Helt).
  rewrite Ha in I. destruct I as (I1 & I2 & I3 & I4).
  pose proof Hat as (Hcu & Hge & Hl & Hr & Hcur & Hcoleq).
  assert (Em : process_control c1 kDER = with_act c1 (Some a)).
  { change (process_control c1 kDER) with (match cap_to_process c1 with None => c1 | Some _ => upd_cap c1 (fun p => upd_cur_line p line_delete_to_end) end).
    rewrite (cap_ru c1 a B Ha), (upd_cap_ru c1 a _ B Ha).
    rewrite (upd_cur_line_at a _ l _ Hcu Hge), (line_delete_to_end_at l ts t Hl), (put_line_same _ _ _ Hge). reflexivity. }
  assert (Es : control dev0 s0 kDER = set_disp s0 (row_set (disp s0) (crow s0) (blank_from (Z.to_nat (ccol s0)) (row_get (disp s0) (crow s0))))).
  { change (control dev0 s0 kDER) with (set_cur_mem s0 (row_set (cur_mem s0) (crow s0) (blank_from (Z.to_nat (ccol s0)) (row_get (cur_mem s0) (crow s0))))).
    unfold set_cur_mem, cur_mem. rewrite D. reflexivity. }
  rewrite Em, Es. rewrite F.
  set (m' := row_set (disp s0) 15 _).
  assert (Hr15 : in_rows 15) by (unfold in_rows; lia).
  assert (Hm' : forall r' c', in_rows r' -> in_cols c' -> ceqv (mcell m' r' c') (mcell (disp s0) r' c')).
  { intros r' c' Hr' Hc'. unfold m'. rewrite mcell_der; [|exact (proj1 H)|exact Hr15|lia|unfold in_cols in Hc'; lia].
    destruct ((r' =? 15) && (ccol s0 <=? c')) eqn:E1; [|apply ceqv_refl].
    assert (r' = 15) by lia. subst r'. apply ceqv_blank; [reflexivity|].
    destruct (para_at_row _ _ _ _ _ _ _ _ I2 Hat Hr15) as (_ & _ & _ & Hold).
    apply (ceqv_blank_l _ (lcell l c')); [apply Hold; exact Hc'|]. rewrite lcell_beyond by lia. reflexivity. }
  apply (wrap_code_ru n c s g w _ _ cControl HL Hc); try reflexivity.
  - split; try assumption.
    + destruct H as [H1 H2]. split; [|exact H2]. cbn [disp set_disp]. unfold m'. apply mem_wf_row_set; [exact H1|].
      rewrite blank_from_length. now apply row_get_length.
    + cbn [c_act with_act disp set_disp]. split; [exact I1|]. split; [apply (para_mem_eqv _ _ _ _ I2 Hm')|]. split; [exact I3|exact I4].
  - intros _. split; [exact Hcol|]. exists a, l, ts, t. cbn [c_act with_act]. split; [reflexivity|]. split; [exact Hat|exact Helt].
Qed.

(* extended characters *)
Lemma backspace_ru c a : c_style c = sRollUp -> c_act c = Some a -> backspace c = with_act c (Some (para_backspace a)).
Proof. intros H Ha. unfold backspace. rewrite (cap_ru c a H Ha). apply (upd_cap_ru c a _ H Ha). Qed.
Lemma core_back_ru n c s g : Rub n c s g -> Rupos c s -> 1 <= ccol s -> is_blank (mcell (disp s) (crow s) (ccol s - 1)) = false ->
  Rub n (backspace c) (back s) (mkGR true false (gr_live g)) /\ Rupos_w (backspace c) (back s) /\ c_chan (backspace c) = c_chan c /\
  last (back s) = last s /\ chan (back s) = chan s /\ ccol (back s) = ccol s - 1.
Proof.
  intros Hb (Hcol & a & l & ts & t & Ha & Hat & (He1 & He2 & He5)) Hc1 Hnb.
  pose proof Hb as [A B C D E F G H I]. rewrite Ha in I. destruct I as (I1 & I2 & I3 & I4).
  rewrite (backspace_ru c a B Ha). rewrite (back_ru s n D) by lia. rewrite F in *.
  assert (Hr15 : in_rows 15) by (unfold in_rows; lia).
  destruct (para_at_row _ _ _ _ _ _ _ _ I2 Hat Hr15) as (_ & _ & _ & Hold).
  assert (Hne : t_text t <> []).
  { intros H0. assert (Hcc : in_cols (ccol s - 1)) by (unfold in_cols; lia).
    pose proof (Hold (ccol s - 1) Hcc) as Hq. destruct (He5 H0) as [H5|H5].
    - rewrite lcell_empty in Hq by exact H5. pose proof (ceqv_blank_l _ _ Hq eq_refl). congruence.
    - pose proof (ceqv_blank_l _ _ Hq H5). congruence. }
  destruct (para_back a (disp s) all_rows 15 (ccol s) l ts t I2 Hat Hr15 Hne (proj1 H) ltac:(lia)) as (Q1 & Qrows & l2 & ts2 & t2 & Q2 & Q3).
  split; [|split; [|repeat split]].
  - split; try assumption; try reflexivity.
    + destruct H as [H1 H2]. split; [|exact H2]. cbn [disp set_pos set_disp]. now apply mem_wf_cell_set.
    + cbn [c_act with_act disp set_pos set_disp gr_live gr_fresh]. split; [exact I1|]. split; [exact Q1|]. split; [|discriminate].
      apply (contig_from_at n a _ _ _ _ _ _ _ _ _ I3 Hat Q2). exact Qrows.
  - split; [cbn [ccol set_pos]; lia|]. exists (para_backspace a), l2, ts2, t2. cbn [c_act with_act ccol set_pos]. split; [reflexivity|]. split; [exact Q2|].
    destruct Q3 as [[S1 S2]|[S1 S2]].
    + left. split; [exact S1|]. unfold all_spaces. rewrite S2. constructor.
    + destruct He2 as [[H1 H2]|H2].
      * left. split; [congruence|]. unfold all_spaces in *. rewrite S2. now apply Forall_removelast.
      * right. unfold pen_of in *. cbn [c_color c_italic c_under with_act]. congruence.
Qed.
Lemma step_ru_extended n c s g w : Rru n c s g -> d_chan (decode w) = 1 -> is_second_copy s w = false ->
  d_cls (decode w) = cExtended -> gr_pos g = true -> 1 <= ccol s ->
  is_blank (mcell (disp s) (crow s) (ccol s - 1)) = false -> Rru n (step c w) (feed dev0 s w) (mkGR true false (gr_live g)).
Proof.
  intros (Hb & Hp & HL) Hc Hd Hcls Hg Hc1 Hnb.
  rewrite (step_code c w (u_err _ _ _ _ Hb) (not_dup_code c s w HL Hc Hd) Hc), (feed_act s w Hc Hd). cbv zeta.
  unfold act. rewrite Hcls. cbn [Z.eqb cSpecial cPac cAttr cMidRow cControl cExtended Pos.eqb].
  set (c1 := code_ctx c). set (s0 := set_chan (set_last s (Some (value w))) 1).
  assert (Hb1 : Rub n c1 s0 g) by (apply (Rub_same n c s g); try reflexivity; exact Hb).
  assert (Hp1 : Rupos c1 s0) by (apply (Rupos_same c s); try reflexivity; exact (Hp Hg)).
  destruct (core_back_ru n c1 s0 g Hb1 Hp1 Hc1 Hnb) as (B1 & B2 & B3 & B4 & B5 & B6).
  assert (Hlen1 : ccol (back s0) + zlen [d_t1 (decode w)] <= 31).
  { rewrite B6. unfold zlen. cbn [length]. destruct Hp1 as (Hcol & _). change (ccol s0) with (ccol s) in *. lia. }
  destruct (core_write_ru n (backspace c1) (back s0) _ [d_t1 (decode w)] B1 B2 ltac:(discriminate) Hlen1) as (R1 & R2 & R3).
  destruct (puts_ru_proj (back s0) n [d_t1 (decode w)] (u_md _ _ _ _ B1) Hlen1) as (P1 & P2 & P3 & P4 & P5 & P6 & P7 & P8 & P9 & P10 & P11).
  change (put (back s0) (d_t1 (decode w))) with (puts (back s0) [d_t1 (decode w)]).
  apply (wrap_code_ru n c s _ w _ _ cExtended HL Hc).
  - exact R1.
  - intros _; exact R2.
  - rewrite R3, B3. reflexivity.
  - rewrite P9, B4. reflexivity.
  - rewrite P10, B5. reflexivity.
Qed.

(* EDM *)
Lemma push_active_proj_ru c e cl : c_depth (push_active c e cl) = c_depth c.
Proof. unfold push_active. destruct (c_act c); [|reflexivity]. destruct (para_is_empty _); [reflexivity|]. destruct (to_paragraph _ _). reflexivity. Qed.
Lemma step_ru_edm n c s g w : Rru n c s g -> d_chan (decode w) = 1 -> is_second_copy s w = false ->
  d_cls (decode w) = cControl -> d_code (decode w) = kEDM -> Rru n (step c w) (feed dev0 s w) (mkGR false false false).
Proof.
  intros (Hb & Hp & HL) Hc Hd Hcls Hk.
  rewrite (step_control c w (u_err _ _ _ _ Hb) (not_dup_code c s w HL Hc Hd) Hc Hcls), (feed_control s w Hc Hd Hcls), Hk.
  set (c1 := code_ctx c). set (s0 := set_chan (set_last s (Some (value w))) 1).
  assert (Epc : process_control c1 kEDM = match c_act c1 with Some _ => push_active c1 (Some (tc_next (c_tc c1))) true | None => c1 end) by reflexivity.
  rewrite Epc. change (control dev0 s0 kEDM) with (set_disp s0 mem0).
  set (X := match c_act c1 with Some _ => _ | None => c1 end).
  assert (HX : c_err X = c_err c /\ c_style X = c_style c /\ c_color X = c_color c /\ c_italic X = c_italic c /\ c_under X = c_under c /\
               c_depth X = c_depth c /\ c_chan X = 1 /\ c_act X = None).
  { unfold X. destruct (c_act c1) eqn:Ea.
    - destruct (push_active_proj c1 (Some (tc_next (c_tc c1))) true) as (Q1 & Q2 & Q3 & Q4 & Q5 & Q6 & Q7).
      rewrite Q1, Q2, Q3, Q4, Q5, Q7, push_active_proj_ru. repeat split. apply act_push_active_clear.
    - repeat split. exact Ea. }
  destruct HX as (X1 & X2 & X3 & X4 & X5 & X6 & X7 & X8).
  destruct Hb as [A B C D E F G H I].
  apply (wrap_code_ru n c s _ w _ _ cControl HL Hc); try reflexivity; [| |exact X7].
  - split.
    + now rewrite X1.
    + now rewrite X2.
    + now rewrite X6.
    + exact D.
    + exact E.
    + exact F.
    + unfold pen_of. rewrite X3, X4, X5. exact G.
    + destruct H as [H1 H2]. split; [apply mem_wf_mem0|exact H2].
    + rewrite X8. split; [reflexivity|]. intros r k. cbn. rewrite mcell_mem0. reflexivity.
  - discriminate.
Qed.

(* RUx *)
Definition ru_depth (k : Z) : Z := k - kRU2 + 2.
Lemma process_control_ru c k : kRU2 <= k <= kRU4 ->
  process_control c k =
  let c1 := with_depth (with_style c sRollUp) (ru_depth k) in
  match c_act c1 with
  | Some _ => c1
  | None => sync_acur (upd_act (new_active_caption c1 (c_tc c) sRollUp) (fun a =>
              new_caption_text (new_caption_line (set_cursor_at (set_pstyle a sRollUp) roll_up_base_row 0))))
  end.
Proof.
  intros Hk. unfold kRU2, kRU4 in Hk. unfold process_control, Model.SccReader.kRCL, Model.SccReader.kRDC, Model.SccReader.kRU2, Model.SccReader.kRU3, Model.SccReader.kRU4.
  replace (k =? 0) with false by lia. replace (k =? 9) with false by lia.
  replace ((k =? 5) || (k =? 6) || (k =? 7)) with true by lia. cbv zeta.
  replace (if k =? 5 then 2 else if k =? 6 then 3 else 4) with (ru_depth k); [reflexivity|].
  unfold ru_depth, kRU2. destruct (k =? 5) eqn:E1; [lia|]. destruct (k =? 6) eqn:E2; lia.
Qed.
Lemma control_ru s n k : md s = RollUp n -> kRU2 <= k <= kRU4 ->
  control dev0 s k = set_md (set_disp s (trim_window (disp s) (crow s) (ru_depth k))) (RollUp (ru_depth k)).
Proof.
  intros Hm Hk. unfold kRU2, kRU4 in Hk. unfold control, kRCL, kRDC, kRU2, kRU4.
  replace (k =? 0) with false by lia. replace (k =? 9) with false by lia. replace ((5 <=? k) && (k <=? 7)) with true by lia.
  rewrite Hm. reflexivity.
Qed.
Lemma step_ru_ru_live n c s g w : Rru n c s g -> d_chan (decode w) = 1 -> is_second_copy s w = false ->
  d_cls (decode w) = cControl -> kRU2 <= d_code (decode w) <= kRU4 -> ru_depth (d_code (decode w)) = n -> gr_live g = true ->
  Rru n (step c w) (feed dev0 s w) g.
Proof.
  intros (Hb & Hp & HL) Hc Hd Hcls Hk Hn Hlive.
  rewrite (step_control c w (u_err _ _ _ _ Hb) (not_dup_code c s w HL Hc Hd) Hc Hcls), (feed_control s w Hc Hd Hcls).
  set (c1 := code_ctx c). set (s0 := set_chan (set_last s (Some (value w))) 1).
  assert (Hb1 : Rub n c1 s0 g) by (apply (Rub_same n c s g); try reflexivity; exact Hb).
  pose proof Hb1 as [A B C D E F G H I].
  destruct (c_act c1) as [a|] eqn:Ea; [|destruct I as [I _]; congruence]. destruct I as (I1 & I2 & I3 & I4).
  rewrite (process_control_ru c1 _ Hk), (control_ru s0 n _ D Hk), Hn. cbv zeta. cbn [c_act with_depth with_style]. rewrite Ea, F.
  apply (wrap_code_ru n c s g w _ _ cControl HL Hc); try reflexivity.
  - split; try assumption; try reflexivity.
    + destruct H as [H1 H2]. split; [cbn [disp set_md set_disp]; now apply trim_wf|exact H2].
    + cbn [c_act with_depth with_style disp set_md set_disp]. rewrite Ea. split; [exact I1|]. split; [|split; [exact I3|exact I4]].
      apply (para_mem_eqv _ _ _ _ I2). intros r k Hr Hkk. rewrite mcell_trim by exact Hr. apply (trim_eqv n a _ all_rows I2 I3 r k Hr Hkk).
  - intros Hg. apply (Rupos_same c s); try reflexivity. exact (Hp Hg).
Qed.

(* a new, empty roll-up caption on the base row *)
Lemma new_caption_line_same p r l : p_cursor p = (r, l_indent l) -> p_cur p = Att r -> dget r (p_lines p) = Some l -> l = line_new r (l_indent l) ->
  new_caption_line p = p.
Proof.
  intros Hcur Hc Hg Hl. unfold new_caption_line. rewrite Hcur. rewrite <- Hl. rewrite (dset_same r l _ Hg). rewrite <- Hc. destruct p; reflexivity.
Qed.
Lemma new_ru_caption x y m n pen : 2 <= n <= 4 -> (forall r c, is_blank (mcell m r c) = true) ->
  let r := new_caption_text (new_caption_line (set_cursor_at (set_pstyle (set_begin (set_id (para_new sRollUp) x) y) sRollUp) roll_up_base_row 0)) in
  @para_mem sRollUp r m all_rows /\ contig n r /\ base_empty r /\ exists l, para_at r 15 0 l [text_new] text_new /\ elt_ok pen l text_new 0.
Proof.
  intros Hn Hm. cbv zeta. set (a0 := set_pstyle (set_begin (set_id (para_new sRollUp) x) y) sRollUp).
  assert (Hpm0 : @para_mem sRollUp a0 m []) by (apply (para_mem_meta (para_new sRollUp)); [now apply para_mem_new|reflexivity..]).
  assert (Hr15 : in_rows 15) by (unfold in_rows; lia).
  destruct (para_mem_at_fresh a0 m [] 15 0 Hpm0 ltac:(intros []) Hr15 ltac:(lia)) as (r0 & l0 & Q1 & Q2 & Q3 & Q4 & Q5 & Q6).
  unfold roll_up_base_row. rewrite (set_cursor_at_fresh a0 r0 l0 15 0 Q1 Q2 Q3 Q4). change (if 0 =? -1 then 0 else 0) with 0.
  set (q := at_fresh a0 r0 l0 15 0) in *.
  destruct Q6 as (Qc & Qg & Ql & Qr & Qcur & Qcol).
  rewrite (new_caption_line_same q 15 (line_new 15 0) Qcur Qc Qg eq_refl).
  assert (Qat : para_at q 15 0 (line_new 15 0) [] text_new) by (repeat split; assumption).
  assert (Hpmq : @para_mem sRollUp q m all_rows).
  { apply (para_mem_ext q m m [15] all_rows Q5); [reflexivity|]. intros z [<-|[]]. now apply in_all_rows. }
  destruct (para_newtext q m all_rows 15 0 _ [] _ Hpmq Qat Hr15) as (N1 & N2 & N3 & N4 & N5). rewrite N1.
  assert (Hkeys : forall r, dget r (p_lines q) <> None <-> r = 15).
  { intros r. unfold q, at_fresh. cbn [p_lines set_cur set_plines]. rewrite dget_dset. destruct (r =? 15) eqn:E; [split; [lia|discriminate]|].
    rewrite dget_fresh_lines by (apply (pm_nodup _ _ _ Hpm0)).
    (* the only line of the new paragraph is its initial, empty line, which has been removed *)
    unfold a0. cbn [p_lines set_pstyle set_begin set_id para_new dget]. cbn [p_cur p_lines set_pstyle set_begin set_id para_new dget] in Q1, Q2.
    injection Q1 as <-. cbn in Q2. injection Q2 as <-. cbn [line_is_empty line_length line_new l_texts fold_right text_len text_new t_text zlen length Z.of_nat Z.add Z.eqb andb].
    destruct (r =? 0) eqn:E0; [split; [intros H; now contradiction H|lia]|split; [intros H; now contradiction H|lia]]. }
  split; [exact N2|]. split; [|split].
  - split; [reflexivity|]. exists 15. split; [lia|]. intros r. rewrite dget_put_line. destruct (r =? 15) eqn:E; [split; [lia|discriminate]|].
    rewrite Hkeys. lia.
  - intros l Hl. rewrite dget_put_line, Z.eqb_refl in Hl. injection Hl as <-. rewrite N5. reflexivity.
  - eexists. split; [exact N3|]. split; [reflexivity|]. split; [left; split; [reflexivity|constructor]|]. intros _. left. rewrite N5. reflexivity.
Qed.
