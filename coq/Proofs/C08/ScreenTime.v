(* C08, display simulation, part 9: times.  Frames and seconds; which paragraphs of the document are active at a frame;
   the regions paragraphs are attached to. *)
From Coq Require Import QArith.
From TT Require Import Base.Prelude Base.SccTypes Base.SccDoc Gen.SccTables Model.SccWord Model.TimeCode Model.SccReader Spec.Cea608Screen.
From TT Require Import Proofs.C12.Integer Proofs.C12.DropFrame.
From TT Require Import Proofs.C08.Stamps Proofs.C08.Words Proofs.C08.Protocol Proofs.C08.Text Proofs.C08.ScreenMem Proofs.C08.ScreenLine
                       Proofs.C08.ScreenPara Proofs.C08.ScreenRows Proofs.C08.ScreenDoc.
Open Scope Z_scope.

(* ---- frames and seconds ---- *)
Definition rate_of (df : bool) : rate := if df then r2997 else r30.
(* a time code of the stream: the rate of the stream, a label that counts a frame *)
Definition tc_ok (df : bool) (t : tcv) : Prop := snd t = rate_of df /\ 0 <= tc_frames t.
Lemma tc_next_ok df t : tc_ok df t -> tc_ok df (tc_next t) /\ tc_frames (tc_next t) = tc_frames t + 1.
Proof.
  intros [Hr H0]. destruct t as [l r]. cbn [snd] in Hr. subst r. unfold tc_frames in *. cbn [fst snd] in *.
  assert (Hr : rate_of df = r30 \/ rate_of df = r2997) by (destruct df; [now right|now left]).
  destruct (frames_iter (rate_of df) l Hr H0 1%nat) as [E1 E2]. cbn [iter_n] in E1, E2. unfold tc_frames in E1. cbn [fst snd] in E1.
  split; [split; [exact E2|]|].
  - unfold tc_frames. change (snd (tc_next (l, rate_of df))) with (rate_of df). change (Z.of_nat 1) with 1 in E1.
    change (tc_next (l, rate_of df)) with (add_frames (rate_of df) 1 l, rate_of df) in *. cbn [fst snd] in *. lia.
  - change (tc_next (l, rate_of df)) with (add_frames (rate_of df) 1 l, rate_of df) in *. cbn [fst snd] in *.
    change (Z.of_nat 1) with 1 in E1. exact E1.
Qed.
(* comparing a stamp with the instant a frame starts *)
Lemma Qle_frames df t n : snd t = rate_of df -> Qle_bool (tc_offset t) (time_of df n) = (tc_frames t <=? n).
Proof.
  intros Hr. unfold tc_offset, time_of, Qle_bool. rewrite Hr. destruct df; cbn [rate_of rn rd r30 r2997 Qnum Qden Z.to_pos].
  - destruct (tc_frames t <=? n) eqn:E; lia.
  - destruct (tc_frames t <=? n) eqn:E; lia.
Qed.

(* ---- which paragraphs are shown ---- *)
Definition obegin_le (o : outp) (n : Z) : bool := match o_begin o with Some b => tc_frames b <=? n | None => true end.
Definition oend_gt (o : outp) (n : Z) : bool := match o_end o with Some e => n <? tc_frames e | None => true end.
Definition o_ok (df : bool) (o : outp) : Prop :=
  (forall b, o_begin o = Some b -> snd b = rate_of df) /\ (forall e, o_end o = Some e -> snd e = rate_of df).
Lemma active_finish df o n : o_ok df o -> active (finish_p o) (time_of df n) = obegin_le o n && oend_gt o n.
Proof.
  intros [H1 H2]. unfold active, finish_p, obegin_le, oend_gt. cbn [q_begin q_end].
  destruct (o_begin o) as [b|]; destruct (o_end o) as [e|]; cbn [omap];
    rewrite ?(Qle_frames df b n (H1 b eq_refl)), ?(Qle_frames df e n (H2 e eq_refl)); try reflexivity.
  - f_equal. destruct (tc_frames e <=? n) eqn:E; cbn; lia.
  - destruct (tc_frames e <=? n) eqn:E; cbn; lia.
Qed.
(* the rows of the paragraphs shown at t, one list per paragraph, in document order *)
Definition vis (rs : list region) (t : Q) (ps : list pq) : list vrows :=
  map (fun p => rows_of_p rs p t) (filter (fun p => active p t) ps).
Definition merge_rows (acc : vrows) (rows : list vrows) : vrows := fold_left (fun a r => fold_left (fun a x => rinsert x a) r a) rows acc.
Lemma rows_of_doc_vis rs ps t : rows_of_doc (Doc rs ps) t = merge_rows [] (vis rs t ps).
Proof.
  unfold rows_of_doc, merge_rows, vis. generalize (@nil (Z * list cell)). induction ps as [|p ps IH]; intros acc; cbn [fold_left filter map]; [reflexivity|].
  destruct (active p t); cbn [map fold_left]; apply IH.
Qed.
Lemma vis_app rs t ps1 ps2 : vis rs t (ps1 ++ ps2) = vis rs t ps1 ++ vis rs t ps2.
Proof. unfold vis. now rewrite filter_app, map_app. Qed.
(* rows in increasing order are kept as they are *)
Fixpoint rinc (lo : Z) (v : vrows) : Prop := match v with [] => True | (r, _) :: v' => lo < r /\ rinc r v' end.
Lemma rinsert_end x acc : (forall y, In y acc -> fst y <= fst x) -> rinsert x acc = acc ++ [x].
Proof.
  induction acc as [|y acc IH]; intros H; cbn; [reflexivity|]. replace (fst y <=? fst x) with true by (symmetry; apply Z.leb_le; apply H; now left).
  rewrite IH; [reflexivity|]. intros z Hz. apply H. now right.
Qed.
Lemma merge_one v : forall lo acc, rinc lo v -> (forall y, In y acc -> fst y <= lo) -> fold_left (fun a x => rinsert x a) v acc = acc ++ v.
Proof.
  induction v as [|[r x] v IH]; intros lo acc Hv Hacc; cbn [fold_left]; [now rewrite app_nil_r|]. destruct Hv as [H1 H2].
  rewrite rinsert_end by (intros y Hy; specialize (Hacc y Hy); cbn; lia).
  rewrite (IH r); [now rewrite <- app_assoc|exact H2|]. intros y Hy. apply in_app_iff in Hy as [Hy|[<-|[]]]; [specialize (Hacc y Hy); lia|cbn; lia].
Qed.
Lemma rows_of_fun_rinc g n : forall lo, rinc (lo - 1) (rows_of_fun g lo n).
Proof.
  induction n as [|n IH]; intros lo; cbn [rows_of_fun]; [exact I|]. destruct (trim (g lo)).
  - specialize (IH (lo + 1)). replace (lo + 1 - 1) with lo in IH by lia.
    clear -IH. revert IH. generalize (rows_of_fun g (lo + 1) n). intros v. destruct v as [|[r x] v]; cbn; [auto|]. intros [H1 H2]. split; [lia|exact H2].
  - cbn. split; [lia|]. specialize (IH (lo + 1)). now replace (lo + 1 - 1) with lo in IH by lia.
Qed.
Lemma number_rows_rinc r ls : rinc (r - 1) (number_rows r ls).
Proof. rewrite number_rows_mem, rows_of_mem_from_fun. apply rows_of_fun_rinc. Qed.
