(* helpers evaluated by the generated C08 case files: is a judged stream in the class of the pop-on display theorem
   (Properties/C08.v C08_popon_display)?  0: no; 1: in the pop-on class with doubled control codes (C08_popon_memories
   applies: same memories, times shifted by the uncounted second copies); 2: in the class of the display theorem;
   3: in the class of the roll-up memory theorem. *)
From Coq Require Import QArith String.
From TT Require Import Base.Prelude Base.SccTypes Base.SccDoc Model.SccWord Model.TimeCode Model.SccReader Model.SccReaderCases Spec.Cea608Screen.
From TT Require Import Proofs.C08.ScreenPopOn Proofs.C08.ScreenFinal Proofs.C08.ScreenRollUp Proofs.C08.ScreenRollStep.
Open Scope Z_scope.
(* 3: in the class of the roll-up memory theorem (C08_rollup_memories) *)
Definition rollup_class (ls : list (tcv * list Z)) : bool :=
  match ls with
  | (_, w0 :: ws0) :: rest =>
      match ru_start w0 with
      | Some n => match ru_words n (feed dev0 scr0 w0) (mkGR true true true) ws0 with
                  | Some (s1, g1) => match ru_lines n s1 g1 rest with Some _ => true | None => false end
                  | None => false
                  end
      | None => false
      end
  | _ => false
  end.
Definition popon_class (k : scase) : Z :=
  let ls := lines_of_slines (s_df k) (s_lines k) in
  match pop_lines_nc scr0 g0 ls with
  | Some _ => 2
  | None => match pop_lines scr0 g0 ls with Some _ => 1 | None => if rollup_class ls then 3 else 0 end
  end.
Definition case_spec2 (k : scase) : list Z := case_spec k ++ [popon_class k].
