(* C08, display simulation, part 6: from the lines of the file to the words the simulation is stated on. *)
From Coq Require Import QArith.
From TT Require Import Base.Prelude Base.SccTypes Base.SccDoc Gen.SccTables Model.SccWord Model.TimeCode Model.SccReader Spec.Cea608Screen.
From TT Require Import Proofs.C08.Stamps Proofs.C08.ScreenPopOn.
Open Scope Z_scope.

(* the lines that SccLine.from_str accepts, in order *)
Definition parsed_lines (lines : list text) : list (tcv * list Z) :=
  flat_map (fun l => match from_str l with LOk t ws => [(t, ws)] | _ => [] end) lines.
Definition no_bad_word (lines : list text) : Prop := forall l, In l lines -> from_str l <> LErr.

(* an exception is absorbing on both sides *)
Definition same_or_err (c1 c2 : ctx) : Prop := c1 = c2 \/ (c_err c1 = true /\ c_err c2 = true).
Lemma step_err c w : c_err c = true -> c_err (step c w) = true.
Proof. intros H. unfold step. rewrite H. exact H. Qed.
Lemma steps_err ws : forall c, c_err c = true -> c_err (fold_left step ws c) = true.
Proof. induction ws as [|w ws IH]; intros c H; cbn; [exact H|]. apply IH. now apply step_err. Qed.
Lemma process_lines_words lines : forall c1 c2, no_bad_word lines -> same_or_err c1 c2 ->
  same_or_err (fold_left process_line lines c1) (run_words c2 (parsed_lines lines)).
Proof.
  induction lines as [|l lines IH]; intros c1 c2 Hn Hs; cbn [fold_left parsed_lines flat_map]; [exact Hs|].
  assert (Hn' : no_bad_word lines) by (intros x Hx; apply Hn; now right).
  unfold run_words. rewrite fold_left_app. fold (run_words (fold_left (fun c l0 => fold_left step (snd l0) (with_tc c (fst l0)))
      (match from_str l with LOk t ws => [(t, ws)] | _ => [] end) c2) (parsed_lines lines)).
  apply IH; [exact Hn'|]. unfold process_line.
  destruct (from_str l) as [| |t ws] eqn:E.
  - cbn. destruct (c_err c1); exact Hs.
  - exfalso. apply (Hn l); [now left|exact E].
  - cbn [fold_left fst snd]. destruct Hs as [->|[H1 H2]].
    + destruct (c_err c2) eqn:Ee; [|now left]. right. split; [exact Ee|]. apply steps_err. exact Ee.
    + rewrite H1. right. split; [exact H1|]. apply steps_err. exact H2.
Qed.
Lemma err_push_active c e cl : c_err (push_active c e cl) = c_err c.
Proof. destruct (push_active_proj c e cl) as (H & _). exact H. Qed.
(* the document of the file is the document of its words *)
Lemma to_model_words ta lines : no_bad_word lines ->
  to_model ta lines = finish (flush (run_words (ctx_init ta) (parsed_lines lines))).
Proof.
  intros Hn. unfold to_model, run_lines.
  destruct (process_lines_words lines (ctx_init ta) (ctx_init ta) Hn (or_introl eq_refl)) as [->|[H1 H2]]; [reflexivity|].
  unfold finish, flush. cbn [c_err new_buffered_caption with_buf]. rewrite !err_push_active, H1, H2. reflexivity.
Qed.
