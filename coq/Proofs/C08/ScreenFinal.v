(* C08, display simulation, part 13: the pop-on display theorem.  For every file of the pop-on class without doubled
   codes, at every frame that does not directly follow an EDM, the document shows the reference decoder's display. *)
From Coq Require Import QArith.
From TT Require Import Base.Prelude Base.SccTypes Base.SccDoc Gen.SccTables Model.SccWord Model.TimeCode Model.SccReader Spec.Cea608Screen.
From TT Require Import Proofs.C08.Stamps Proofs.C08.Words Proofs.C08.Protocol Proofs.C08.Text Proofs.C08.ScreenMem Proofs.C08.ScreenLine
                       Proofs.C08.ScreenPara Proofs.C08.ScreenWords Proofs.C08.ScreenPopOn Proofs.C08.ScreenFile Proofs.C08.ScreenRows
                       Proofs.C08.ScreenDoc Proofs.C08.ScreenRegion Proofs.C08.ScreenPush Proofs.C08.ScreenTime Proofs.C08.ScreenTimeline.
Open Scope Z_scope.

(* ---- words that change the display ---- *)
Definition is_ctl (w k : Z) : bool := (d_chan (decode w) =? 1) && (d_cls (decode w) =? cControl) && (d_code (decode w) =? k).
Definition is_show (w : Z) : bool := is_ctl w kEOC || is_ctl w kEDM.
(* the decoder's display is not touched by any other word in pop-on mode *)
Lemma disp_put_pop s ch : md s = PopOn -> disp (put s ch) = disp s /\ md (put s ch) = PopOn.
Proof. intros H. rewrite (put_pop s ch H). split; [reflexivity|exact H]. Qed.
Lemma disp_back_pop s : md s = PopOn -> disp (back s) = disp s /\ md (back s) = PopOn.
Proof. intros H. unfold back. destruct (ccol s =? 0); [split; [reflexivity|exact H]|]. unfold set_cur_mem, cur_mem. rewrite H. split; [reflexivity|exact H]. Qed.
Lemma disp_control_pop s k : md s = PopOn -> k <> kEOC -> k <> kEDM -> ~ (kRU2 <= k <= kRU4) -> disp (control dev0 s k) = disp s.
Proof.
  intros H H1 H2 H3. unfold control, kEOC, kEDM, kRU2, kRU4 in *.
  destruct (k =? kRCL); [reflexivity|]. destruct (k =? kRDC); [reflexivity|].
  replace ((5 <=? k) && (k <=? 7)) with false by lia.
  destruct (k =? kCR); [rewrite H; reflexivity|]. destruct (k =? kBS); [apply (disp_back_pop s H)|].
  destruct (k =? kDER); [unfold set_cur_mem; rewrite H; reflexivity|].
  replace (k =? 12) with false by lia. destruct (k =? kENM); [reflexivity|]. replace (k =? 15) with false by lia.
  destruct (_ && _); reflexivity.
Qed.
Lemma disp_act_pop s d : md s = PopOn ->
  ~ (d_cls d = cControl /\ (d_code d = kEOC \/ d_code d = kEDM \/ kRU2 <= d_code d <= kRU4)) -> disp (act dev0 s d) = disp s.
Proof.
  intros H Hn. unfold act. change (disp (set_pmid ?x ?b)) with (disp x).
  destruct (d_cls d =? cPac) eqn:E1; [unfold pac; rewrite H; reflexivity|].
  destruct (d_cls d =? cMidRow) eqn:E2.
  { unfold midrow. destruct (d_italic d); cbn [disp set_pen]; apply (disp_put_pop s 32 H). }
  destruct (d_cls d =? cControl) eqn:E3.
  { apply disp_control_pop; [exact H| | |]; intros Hk; apply Hn; (split; [lia|]); [now left|right; now left|right; now right]. }
  destruct (d_cls d =? cSpecial); [apply (disp_put_pop s _ H)|].
  destruct (d_cls d =? cExtended); [|reflexivity].
  destruct (disp_back_pop s H) as [B1 B2]. rewrite (proj1 (disp_put_pop (back s) _ B2)). exact B1.
Qed.
Lemma disp_feed_quiet s g w g' : md s = PopOn -> pop_word s g w = Some g' -> is_show w = false -> disp (feed dev0 s w) = disp s.
Proof.
  intros Hm Hw Hq. destruct (value w =? 0) eqn:Ev.
  { rewrite (feed_pad dev0 s w) by lia. reflexivity. }
  destruct (byte1 w <? 32) eqn:Eb.
  - rewrite (feed_code_cls dev0 s w) by lia. cbv zeta.
    destruct (d_chan (decode w) =? 1) eqn:Ec; cbn [negb].
    + destruct (is_second_copy s w) eqn:Ed; [reflexivity|].
      rewrite disp_act_pop; [reflexivity|exact Hm|]. intros [Hc Hk].
      unfold is_show, is_ctl in Hq. rewrite Ec in Hq. unfold pop_word in Hw. rewrite Ev, Eb in Hw. cbv zeta in Hw.
      assert (Ec2 : (d_chan (decode w) =? 2) = false) by lia. rewrite Ec2, Ec, Ed in Hw. cbn [negb] in Hw.
      replace (d_cls (decode w) =? cPac) with false in Hw by (unfold cPac, cControl in *; lia).
      replace (d_cls (decode w) =? cMidRow) with false in Hw by (unfold cMidRow, cControl in *; lia).
      replace (d_cls (decode w) =? cControl) with true in Hw by lia.
      unfold kEOC, kEDM, kRU2, kRU4, kRCL, kENM, kTO1, kDER, kBS, kCR, kRDC in *.
      destruct Hk as [Hk|[Hk|Hk]]; [lia|lia|].
      replace (d_code (decode w) =? 0) with false in Hw by lia. replace (d_code (decode w) =? 14) with false in Hw by lia.
      replace (d_code (decode w) =? 12) with false in Hw by lia. replace (d_code (decode w) =? 15) with false in Hw by lia.
      replace ((16 <=? d_code (decode w)) && (d_code (decode w) <=? 16 + 2)) with false in Hw by lia.
      replace (d_code (decode w) =? 4) with false in Hw by lia.
      replace ((d_code (decode w) =? 1) || (d_code (decode w) =? 13) || (d_code (decode w) =? 9) || ((5 <=? d_code (decode w)) && (d_code (decode w) <=? 7))) with true in Hw by lia.
      discriminate.
    + destruct (d_chan (decode w) =? 2); reflexivity.
  - pose proof (byte1_range w). rewrite (feed_chars dev0 s w) by lia. cbv zeta. change (chan (set_last s None)) with (chan s).
    destruct (chan s =? 1); [|reflexivity].
    assert (Hm0 : md (set_pmid (set_last s None) false) = PopOn) by exact Hm.
    destruct (disp_put_pop _ (d_t1 (decode w)) Hm0) as [P1 P2].
    destruct (d_t2 (decode w) =? -1); [exact P1|]. rewrite (proj1 (disp_put_pop _ _ P2)). exact P1.
Qed.

(* ---- the reader: words that are not a second copy consume one frame; quiet words leave the document alone ---- *)
Definition no_copy (s : scr) (w : Z) : bool := negb ((d_chan (decode w) =? 1) && is_second_copy s w).
Lemma no_copy_not_dup c s g w : Rpop c s g -> no_copy s w = true -> is_dup c w = false.
Proof.
  intros [_ HL] Hn. unfold no_copy in Hn. destruct (d_chan (decode w) =? 1) eqn:Ec.
  - rewrite (r_dup _ _ HL w) by lia. cbn [andb] in Hn. now apply negb_true_iff in Hn.
  - destruct (value w =? 0) eqn:Ev; [apply is_dup_pad; lia|].
    destruct (byte1 w <? 32) eqn:Eb; [apply (not_dup_other c s w HL); lia|]. apply is_dup_chars. lia.
Qed.
Lemma tc_step_nodup c s g w : Rpop c s g -> no_copy s w = true -> c_tc (step c w) = tc_next (c_tc c).
Proof.
  intros HR Hn. rewrite tc_step. rewrite (no_copy_not_dup c s g w HR Hn). destruct HR as [[Hb _] _]. rewrite (r_err _ _ _ Hb). reflexivity.
Qed.
Lemma quiet_visible c s g w g' : Rpop c s g -> pop_word s g w = Some g' -> is_show w = false -> visible (step c w) = visible c.
Proof.
  intros HR Hw Hq. pose proof HR as [[Hb _] HL]. destruct (value w =? 0) eqn:Ev.
  { rewrite (step_pad c w (r_err _ _ _ Hb)) by lia. reflexivity. }
  destruct (byte1 w <? 32) eqn:Eb.
  2:{ apply popon_invisible; [exact (r_style _ _ _ Hb)|]. pose proof (byte1_range w). unfold loads_buffer. rewrite (decode_chars w) by lia. reflexivity. }
  destruct (d_chan (decode w) =? 1) eqn:Ec.
  2:{ rewrite (step_other c w (r_err _ _ _ Hb)); [reflexivity|apply (not_dup_other c s w HL); lia|lia|lia|lia]. }
  destruct (is_second_copy s w) eqn:Ed.
  { rewrite (step_dup c w (r_err _ _ _ Hb)); [reflexivity|]. rewrite (r_dup _ _ HL w) by lia. exact Ed. }
  apply popon_invisible; [exact (r_style _ _ _ Hb)|]. unfold loads_buffer. cbv zeta.
  destruct (d_cls (decode w) =? cControl) eqn:Ecls; [|reflexivity].
  unfold is_show, is_ctl in Hq. rewrite Ec, Ecls in Hq. cbn [andb] in Hq.
  unfold pop_word in Hw. rewrite Ev, Eb in Hw. cbv zeta in Hw.
  assert (Ec2 : (d_chan (decode w) =? 2) = false) by lia. rewrite Ec2, Ec, Ed in Hw. cbn [negb] in Hw.
  replace (d_cls (decode w) =? cPac) with false in Hw by (unfold cPac, cControl in *; lia).
  replace (d_cls (decode w) =? cMidRow) with false in Hw by (unfold cMidRow, cControl in *; lia).
  rewrite Ecls in Hw. set (k := d_code (decode w)) in *.
  unfold kEOC, kEDM, kRU2, kRU4, kRCL, kENM, kTO1, kDER, kBS, kCR, kRDC in *.
  unfold Model.SccReader.kRDC, Model.SccReader.kRU2, Model.SccReader.kRU3, Model.SccReader.kRU4, Model.SccReader.kEOC, Model.SccReader.kEDM, Model.SccReader.kCR.
  destruct (k =? 0) eqn:K1; [lia|]. destruct (k =? 14) eqn:K2; [lia|]. destruct (k =? 12) eqn:K3; [lia|]. destruct (k =? 15) eqn:K4; [lia|].
  destruct ((16 <=? k) && (k <=? 16 + 2)) eqn:K5; [lia|]. destruct (k =? 4) eqn:K6; [lia|].
  destruct ((k =? 1) || (k =? 13) || (k =? 9) || ((5 <=? k) && (k <=? 7))) eqn:K7; [discriminate|]. lia.
Qed.

(* the two components of the state that push_active_caption_to_model changes *)
Definition cst (c : ctx) : dstate := (c_out c, c_regions c).
Lemma push_active_st c e cl : cst (push_active c e cl) = pushp (c_act c) e (cst c).
Proof.
  unfold push_active, pushp, cst. destruct (c_act c) as [a|]; [|reflexivity].
  change (para_is_empty (set_end a e)) with (para_is_empty a). destruct (para_is_empty a); [reflexivity|].
  cbn [c_regions with_act with_acur snd fst]. destruct (to_paragraph (set_end a e) (c_regions c)) as [rs o]. reflexivity.
Qed.
Lemma doc_of_flush c : c_err c = false -> finish (flush c) = docs (pushp (c_act c) None (cst c)).
Proof.
  intros He. unfold finish, flush. cbn [c_err new_buffered_caption with_buf]. rewrite err_push_active, He.
  rewrite <- (push_active_st c None true). reflexivity.
Qed.
Lemma visible_cst c c' : visible c' = visible c -> cst c' = cst c /\ c_act c' = c_act c.
Proof. unfold visible, cst. intros H. injection H as H1 H2 H3. rewrite H1, H2, H3. split; reflexivity. Qed.

(* EOC and EDM on the document *)
Lemma ctl_of_is_ctl w k : is_ctl w k = true -> ctl w k.
Proof.
  unfold is_ctl. intros H. apply andb_true_iff in H as [H H3]. apply andb_true_iff in H as [H1 H2].
  assert (Hc : d_chan (decode w) = 1) by lia. destruct (ch1_bytes w Hc) as [B1 B2]. repeat split; try assumption; lia.
Qed.
Lemma step_eoc_doc c w : c_err c = false -> is_dup c w = false -> is_ctl w kEOC = true ->
  cst (step c w) = pushp (c_act c) (Some (tc_next (c_tc c))) (cst c) /\
  exists a', c_act (step c w) = Some a' /\ p_begin a' = Some (tc_next (c_tc c)).
Proof.
  intros He Hd Hk. apply ctl_of_is_ctl in Hk. rewrite (step_ctl c w _ He Hd Hk).
  set (t1 := tc_next (c_tc c)). set (c2 := with_chan (with_tc c t1) 1).
  assert (Hpc : exists f, process_control c2 Model.SccReader.kEOC = upd_act (flip (with_buf c2 (set_begin (c_buf c2) (Some t1))) t1) f /\ forall a, p_begin (f a) = p_begin a).
  { eexists. split; [reflexivity|]. intros a. reflexivity. }
  destruct Hpc as (f & Hpc & Hf). change kEOC with Model.SccReader.kEOC. rewrite Hpc.
  set (c3 := with_buf c2 (set_begin (c_buf c2) (Some t1))).
  destruct (flip_act c3 t1) as (b & Eb & Bb & _).
  split.
  - unfold cst. cbn [c_out c_regions with_prev with_prev_type]. unfold upd_act. rewrite Eb. cbn [c_out c_regions with_act].
    assert (E : cst (flip c3 t1) = cst (push_active c3 (Some t1) true)).
    { unfold cst, flip. destruct (p_id (c_buf (push_active c3 (Some t1) true))); destruct (c_act c3); reflexivity. }
    unfold cst in E. rewrite E. fold (cst (push_active c3 (Some t1) true)). rewrite push_active_st. reflexivity.
  - exists (f b). split; [unfold upd_act; rewrite Eb; reflexivity|]. rewrite Hf, Bb. reflexivity.
Qed.
Lemma step_edm_doc c w : c_err c = false -> is_dup c w = false -> is_ctl w kEDM = true ->
  cst (step c w) = pushp (c_act c) (Some (tc_next (tc_next (c_tc c)))) (cst c) /\ c_act (step c w) = None.
Proof.
  intros He Hd Hk. apply ctl_of_is_ctl in Hk. rewrite (step_ctl c w _ He Hd Hk).
  set (t1 := tc_next (c_tc c)). set (c2 := with_chan (with_tc c t1) 1).
  assert (Hpc : process_control c2 Model.SccReader.kEDM = match c_act c2 with Some _ => push_active c2 (Some (tc_next t1)) true | None => c2 end) by reflexivity.
  change kEDM with Model.SccReader.kEDM. rewrite Hpc. change (c_act c2) with (c_act c). destruct (c_act c) as [a|] eqn:Ea.
  - split.
    + change (cst (with_prev (with_prev_type (push_active c2 (Some (tc_next t1)) true) cControl) (Some (value w)))) with (cst (push_active c2 (Some (tc_next t1)) true)).
      rewrite push_active_st. change (c_act c2) with (c_act c). rewrite Ea. reflexivity.
    + cbn [c_act with_prev with_prev_type]. apply act_push_active_clear.
  - split; [reflexivity|exact Ea].
Qed.

(* ---- the decoder's display as a function of time ---- *)
(* (frame during which the word is transmitted, word); a word is in effect from the next frame on *)
Definition tword := (Z * Z)%type.
Definition feed_at (f : Z) (s : scr) (fw : tword) : scr := if fst fw <? f then feed dev0 s (snd fw) else s.
Definition state_at (pre : list tword) (f : Z) : scr := fold_left (feed_at f) pre scr0.
Definition is_edm (w : Z) : bool := is_ctl w kEDM.
(* a frame at which the comparison is exact: not the frame right after an EDM (the reader keeps the erased caption one
   frame longer: its end is exclusive) *)
Definition stable (pre : list tword) (f : Z) : Prop := forall fw, In fw pre -> is_edm (snd fw) = true -> fst fw + 1 <> f.
Lemma state_at_app pre fw f : state_at (pre ++ [fw]) f = feed_at f (state_at pre f) fw.
Proof. unfold state_at. rewrite fold_left_app. reflexivity. Qed.
Lemma state_at_all pre f : (forall fw, In fw pre -> fst fw < f) -> state_at pre f = fold_left (feed dev0) (map snd pre) scr0.
Proof.
  unfold state_at. generalize scr0. induction pre as [|fw pre IH]; intros s H; cbn [fold_left map]; [reflexivity|].
  unfold feed_at at 2. replace (fst fw <? f) with true by (symmetry; apply Z.ltb_lt; apply H; now left). apply IH. intros x Hx. apply H. now right.
Qed.
Lemma stable_app pre fw f : stable (pre ++ [fw]) f -> stable pre f.
Proof. intros H x Hx. apply H. apply in_app_iff. now left. Qed.

(* ---- the invariant ---- *)
Record Inv (df : bool) (c : ctx) (s : scr) (g : gst) (pre : list tword) : Prop := {
  i_rel : Rpop c s g;
  i_tc : tc_ok df (c_tc c);
  i_st : st_ok df (cst c);
  i_ended : all_ended (cst c) (tc_frames (c_tc c) + 1);
  i_act : forall a, c_act c = Some a -> exists b, p_begin a = Some b /\ snd b = rate_of df /\ tc_frames b <= tc_frames (c_tc c);
  i_s : s = fold_left (feed dev0) (map snd pre) scr0;
  i_past : forall fw, In fw pre -> fst fw < tc_frames (c_tc c);
  i_shown : forall f, stable pre f -> vrows_eqb (rows_of_mem (disp (state_at pre f))) (shown df (pushp (c_act c) None (cst c)) f) = true }.

Lemma all_ended_mono st f f' : f <= f' -> all_ended st f -> all_ended st f'.
Proof. intros H He. unfold all_ended in *. rewrite Forall_forall in *. intros o Ho. destruct (He o Ho) as (e & E1 & E2). exists e. split; [exact E1|lia]. Qed.
Lemma act_para_ok df c s g : Rpop c s g ->
  (forall a, c_act c = Some a -> exists b, p_begin a = Some b /\ snd b = rate_of df /\ tc_frames b <= tc_frames (c_tc c)) ->
  forall x, c_act c = Some x -> para_ok df x.
Proof.
  intros [[Hb _] _] Ha x Hx. destruct (Ha x Hx) as (b & B1 & B2 & _). pose proof (r_act _ _ _ Hb) as G. rewrite Hx in G.
  split; [exact (pm_style _ _ _ G)|]. intros b' Hb'. rewrite B1 in Hb'. injection Hb' as <-. exact B2.
Qed.

(* one word of the class that is not a second copy, transmitted during the frame the line's time code has reached *)
Lemma inv_step df c s g pre w g' : Inv df c s g pre -> pop_word s g w = Some g' -> no_copy s w = true ->
  Inv df (step c w) (feed dev0 s w) g' (pre ++ [(tc_frames (c_tc c), w)]).
Proof.
  intros [HR Htc Hst Hend Hact Hs Hpast Hsh] Hw Hnc.
  set (F := tc_frames (c_tc c)) in *.
  pose proof (step_pop c s g w g' HR Hw) as HR'.
  pose proof (tc_step_nodup c s g w HR Hnc) as Etc.
  destruct (tc_next_ok df (c_tc c) Htc) as [Htc1 Ef1]. fold F in Ef1.
  pose proof (no_copy_not_dup c s g w HR Hnc) as Hnd.
  pose proof HR as [[Hb _] _]. pose proof (r_err _ _ _ Hb) as Herr.
  pose proof (act_para_ok df c s g HR Hact) as Hpok.
  assert (Hpast' : forall fw, In fw (pre ++ [(F, w)]) -> fst fw < F + 1).
  { intros fw Hin. apply in_app_iff in Hin as [Hin|[<-|[]]]; [specialize (Hpast fw Hin); lia|cbn; lia]. }
  assert (Hs' : feed dev0 s w = fold_left (feed dev0) (map snd (pre ++ [(F, w)])) scr0).
  { rewrite map_app, fold_left_app. cbn [map snd fold_left]. f_equal. exact Hs. }
  assert (Hall : forall f, F < f -> state_at (pre ++ [(F, w)]) f = feed dev0 s w).
  { intros f Hf. rewrite state_at_all; [symmetry; exact Hs'|]. intros fw Hin. specialize (Hpast' fw Hin). lia. }
  assert (Hold : forall f, f <= F -> state_at (pre ++ [(F, w)]) f = state_at pre f).
  { intros f Hf. rewrite state_at_app. unfold feed_at. cbn [fst snd]. replace (F <? f) with false by lia. reflexivity. }
  assert (Hcur : forall f, F < f -> state_at pre f = s).
  { intros f Hf. rewrite state_at_all; [symmetry; exact Hs|]. intros fw Hin. specialize (Hpast fw Hin). lia. }
  destruct (is_show w) eqn:Eshow.
  - (* EOC or EDM *)
    unfold is_show in Eshow. destruct (is_ctl w kEOC) eqn:Eeoc.
    + (* EOC: the displayed caption ends at the stamp, the buffered one begins there *)
      destruct (step_eoc_doc c w Herr Hnd Eeoc) as (Ecst & a' & Ea' & Eb').
      set (t1 := tc_next (c_tc c)) in *.
      assert (Hot : ot_ok df (Some t1)) by (intros t Ht; injection Ht as <-; apply Htc1).
      destruct (pushp_ok df (c_act c) (Some t1) (cst c) Hst Hpok Hot) as [Hst1 _].
      split; try assumption.
      * rewrite Etc. exact Htc1.
      * rewrite Ecst. exact Hst1.
      * rewrite Etc, Ecst, Ef1. unfold all_ended, pushp. destruct (c_act c) as [a|]; [destruct (para_is_empty a)|];
          try (apply (all_ended_mono (cst c) (F + 1)); [lia|exact Hend]).
        cbn [fst]. constructor; [|apply (all_ended_mono (cst c) (F + 1)); [lia|exact Hend]].
        rewrite to_paragraph_snd. cbn [o_end]. exists t1. split; [reflexivity|]. lia.
      * intros x Hx. rewrite Ea' in Hx. injection Hx as <-. exists t1. split; [exact Eb'|]. split; [apply Htc1|]. rewrite Etc. lia.
      * rewrite Etc, Ef1. exact Hpast'.
      * intros f Hstab. rewrite Ea', Ecst. destruct (f <=? F) eqn:Ef.
        -- rewrite Hold by lia.
           rewrite (shown_push_later df (Some a') _ f Hst1).
           2:{ intros x Hx. injection Hx as <-. split; [|exists t1; split; [exact Eb'|lia]].
               pose proof HR' as [[Hb' _] _]. pose proof (r_act _ _ _ Hb') as G. rewrite Ea' in G. split; [exact (pm_style _ _ _ G)|].
               intros b Hb0. rewrite Eb' in Hb0. injection Hb0 as <-. apply Htc1. }
           rewrite (shown_push_end df (c_act c) (Some t1) None (cst c) f Hst Hpok Hot ltac:(discriminate)); [|intros t Ht; injection Ht as <-; lia|discriminate].
           apply Hsh. apply (stable_app _ _ _ Hstab).
        -- rewrite Hall by lia. pose proof HR' as [[Hb' _] _]. pose proof (r_act _ _ _ Hb') as G. rewrite Ea' in G.
           apply (shown_push_now df a' (disp (feed dev0 s w)) (g_ud g') _ f Hst1); try assumption.
           ++ rewrite <- Ecst. apply (all_ended_mono _ (F + 1)); [lia|].
              (* all captions written before this word had ended at F + 1, and so has the one this word ends *)
              rewrite Ecst. unfold all_ended, pushp. destruct (c_act c) as [a|]; [destruct (para_is_empty a)|]; try exact Hend.
              cbn [fst]. constructor; [|exact Hend]. rewrite to_paragraph_snd. cbn [o_end]. exists t1. split; [reflexivity|]. lia.
           ++ apply (r_wf _ _ _ Hb').
           ++ split; [exact (pm_style _ _ _ G)|]. intros b Hb0. rewrite Eb' in Hb0. injection Hb0 as <-. apply Htc1.
           ++ exists t1. split; [exact Eb'|lia].
    + (* EDM: the displayed caption ends one frame after the stamp, nothing is displayed any more *)
      cbn [orb] in Eshow. destruct (step_edm_doc c w Herr Hnd Eshow) as (Ecst & Ea').
      set (t1 := tc_next (c_tc c)) in *. set (t2 := tc_next t1) in *.
      destruct (tc_next_ok df t1 Htc1) as [Htc2 Ef2]. fold t2 in Htc2, Ef2.
      assert (Hot : ot_ok df (Some t2)) by (intros t Ht; injection Ht as <-; apply Htc2).
      destruct (pushp_ok df (c_act c) (Some t2) (cst c) Hst Hpok Hot) as [Hst1 _].
      assert (Hend1 : all_ended (pushp (c_act c) (Some t2) (cst c)) (F + 2)).
      { unfold all_ended, pushp. destruct (c_act c) as [a|]; [destruct (para_is_empty a)|];
          try (apply (all_ended_mono (cst c) (F + 1)); [lia|exact Hend]).
        cbn [fst]. constructor; [|apply (all_ended_mono (cst c) (F + 1)); [lia|exact Hend]].
        rewrite to_paragraph_snd. cbn [o_end]. exists t2. split; [reflexivity|]. lia. }
      split; try assumption.
      * rewrite Etc. exact Htc1.
      * rewrite Ecst. exact Hst1.
      * rewrite Etc, Ecst, Ef1. replace (F + 1 + 1) with (F + 2) by lia. exact Hend1.
      * intros x Hx. rewrite Ea' in Hx. discriminate.
      * rewrite Etc, Ef1. exact Hpast'.
      * intros f Hstab. rewrite Ea', Ecst. change (pushp None None ?st) with st. destruct (f <=? F) eqn:Ef.
        -- rewrite Hold by lia.
           rewrite (shown_push_end df (c_act c) (Some t2) None (cst c) f Hst Hpok Hot ltac:(discriminate)); [|intros t Ht; injection Ht as <-; lia|discriminate].
           apply Hsh. apply (stable_app _ _ _ Hstab).
        -- assert (Hf : F + 2 <= f).
           { assert (Hne : F + 1 <> f) by (apply (Hstab (F, w)); [apply in_app_iff; right; now left|exact Eshow]). lia. }
           rewrite Hall by lia. rewrite (shown_ended df _ f Hst1 (all_ended_mono _ _ _ Hf Hend1)).
           pose proof HR' as [[Hb' _] _]. pose proof (r_act _ _ _ Hb') as G. rewrite Ea' in G.
           rewrite (rows_of_mem_blank _ (proj1 (r_wf _ _ _ Hb'))); [reflexivity|]. intros r k _ _. apply G.
  - (* any other word: the displayed caption, the document and the decoder's display are as before *)
    destruct (visible_cst c (step c w) (quiet_visible c s g w g' HR Hw Eshow)) as [Ecst Eact].
    pose proof (disp_feed_quiet s g w g' (r_md _ _ _ Hb) Hw Eshow) as Edisp.
    split; try assumption.
    + rewrite Etc. exact Htc1.
    + rewrite Ecst. exact Hst.
    + rewrite Etc, Ecst, Ef1. apply (all_ended_mono _ (F + 1)); [lia|exact Hend].
    + intros x Hx. rewrite Eact in Hx. destruct (Hact x Hx) as (b & B1 & B2 & B3). exists b. split; [exact B1|]. split; [exact B2|]. rewrite Etc. lia.
    + rewrite Etc, Ef1. exact Hpast'.
    + intros f Hstab. rewrite Eact, Ecst. destruct (f <=? F) eqn:Ef.
      * rewrite Hold by lia. apply Hsh. apply (stable_app _ _ _ Hstab).
      * rewrite Hall by lia. rewrite Edisp. rewrite <- (Hcur f) by lia. apply Hsh. apply (stable_app _ _ _ Hstab).
Qed.

(* ---- lines and files ---- *)
Fixpoint number_from (F : Z) (ws : list Z) : list tword := match ws with [] => [] | w :: ws' => (F, w) :: number_from (F + 1) ws' end.
Definition twords (ls : list (tcv * list Z)) : list tword := flat_map (fun l => number_from (tc_frames (fst l)) (snd l)) ls.
(* the pop-on class without second copies of doubled codes (they consume no frame in the reader: recorded finding
   doubled-code-no-frame, pinned by the repository's tests) *)
Fixpoint pop_words_nc (s : scr) (g : gst) (ws : list Z) : option (scr * gst) :=
  match ws with
  | [] => Some (s, g)
  | w :: ws' => if no_copy s w then match pop_word s g w with Some g' => pop_words_nc (feed dev0 s w) g' ws' | None => None end else None
  end.
Fixpoint pop_lines_nc (s : scr) (g : gst) (ls : list (tcv * list Z)) : option (scr * gst) :=
  match ls with
  | [] => Some (s, g)
  | l :: ls' => match pop_words_nc s g (snd l) with Some (s1, g1) => pop_lines_nc s1 g1 ls' | None => None end
  end.
(* lines at the rate of the stream, in order, each starting after the previous one has been transmitted *)
Fixpoint stream_ok (df : bool) (lo : Z) (ls : list (tcv * list Z)) : Prop :=
  match ls with
  | [] => True
  | l :: ls' => snd (fst l) = rate_of df /\ lo <= tc_frames (fst l) /\ stream_ok df (tc_frames (fst l) + zlen (snd l)) ls'
  end.

Lemma inv_words df ws : forall c s g pre s' g', Inv df c s g pre -> pop_words_nc s g ws = Some (s', g') ->
  Inv df (fold_left step ws c) s' g' (pre ++ number_from (tc_frames (c_tc c)) ws) /\
  tc_frames (c_tc (fold_left step ws c)) = tc_frames (c_tc c) + zlen ws.
Proof.
  induction ws as [|w ws IH]; intros c s g pre s' g' HI Hw; cbn [pop_words_nc fold_left number_from] in *.
  - injection Hw as <- <-. rewrite app_nil_r. split; [exact HI|unfold zlen; cbn; lia].
  - destruct (no_copy s w) eqn:Enc; [|discriminate]. destruct (pop_word s g w) as [g1|] eqn:Ew; [|discriminate].
    pose proof (inv_step df c s g pre w g1 HI Ew Enc) as HI1.
    assert (Etc : tc_frames (c_tc (step c w)) = tc_frames (c_tc c) + 1).
    { rewrite (tc_step_nodup c s g w (i_rel _ _ _ _ _ HI) Enc). apply (tc_next_ok df), (i_tc _ _ _ _ _ HI). }
    destruct (IH _ _ _ _ _ _ HI1 Hw) as [H1 H2]. rewrite Etc in H1, H2. rewrite <- app_assoc in H1. cbn [app] in H1.
    split; [exact H1|]. rewrite H2. unfold zlen. cbn [length]. lia.
Qed.
Lemma inv_line_start df c s g pre t : Inv df c s g pre -> snd t = rate_of df -> tc_frames (c_tc c) <= tc_frames t -> Inv df (with_tc c t) s g pre.
Proof.
  intros [HR Htc Hst Hend Hact Hs Hpast Hsh] Hr Hle. destruct Htc as [_ H0]. split; try assumption.
  - now apply Rpop_with_tc.
  - split; [exact Hr|]. cbn [c_tc with_tc]. lia.
  - cbn [c_tc with_tc]. apply (all_ended_mono _ (tc_frames (c_tc c) + 1)); [lia|exact Hend].
  - intros a Ha. destruct (Hact a Ha) as (b & B1 & B2 & B3). exists b. split; [exact B1|]. split; [exact B2|]. cbn [c_tc with_tc]. lia.
  - intros fw Hin. specialize (Hpast fw Hin). cbn [c_tc with_tc]. lia.
Qed.
Lemma inv_lines df ls : forall c s g pre s' g', Inv df c s g pre -> stream_ok df (tc_frames (c_tc c)) ls ->
  pop_lines_nc s g ls = Some (s', g') -> Inv df (run_words c ls) s' g' (pre ++ twords ls).
Proof.
  induction ls as [|l ls IH]; intros c s g pre s' g' HI Hok Hl; cbn [pop_lines_nc run_words fold_left twords flat_map] in *.
  - injection Hl as <- <-. now rewrite app_nil_r.
  - destruct Hok as (Hr & Hle & Hok). destruct (pop_words_nc s g (snd l)) as [[s1 g1]|] eqn:Ew; [|discriminate].
    pose proof (inv_line_start df c s g pre (fst l) HI Hr Hle) as HI0.
    destruct (inv_words df (snd l) _ _ _ _ _ _ HI0 Ew) as [HI1 Etc]. cbn [c_tc with_tc] in HI1, Etc.
    rewrite app_assoc. apply (IH _ _ _ _ _ _ HI1); [rewrite Etc; exact Hok|exact Hl].
Qed.
Lemma inv_init df ta t : snd t = rate_of df -> 0 <= tc_frames t -> Inv df (with_tc (ctx_init ta) t) scr0 g0 [].
Proof.
  intros Hr H0. split.
  - apply Rpop_with_tc, Rpop_init.
  - split; assumption.
  - split; [split; [exact I|constructor]|constructor].
  - constructor.
  - intros a Ha. discriminate Ha.
  - reflexivity.
  - intros fw [].
  - intros f _. reflexivity.
Qed.

(* ---- the theorem ---- *)
Theorem popon_display df ta ls s' g' : stream_ok df 0 ls -> pop_lines_nc scr0 g0 ls = Some (s', g') ->
  forall f, stable (twords ls) f ->
  vrows_eqb (rows_of_mem (disp (state_at (twords ls) f))) (rows_of_doc (finish (flush (run_words (ctx_init ta) ls))) (time_of df f)) = true.
Proof.
  intros Hok Hl f Hstab. destruct ls as [|l ls].
  - reflexivity.
  - cbn [stream_ok] in Hok. destruct Hok as (Hr & Hle & Hok). cbn [pop_lines_nc] in Hl.
    destruct (pop_words_nc scr0 g0 (snd l)) as [[s1 g1]|] eqn:Ew; [|discriminate].
    pose proof (inv_init df ta (fst l) Hr Hle) as HI0.
    destruct (inv_words df (snd l) _ _ _ _ _ _ HI0 Ew) as [HI1 Etc]. cbn [c_tc with_tc app] in HI1, Etc.
    assert (HI2 : Inv df (run_words (ctx_init ta) (l :: ls)) s' g' (twords (l :: ls))).
    { cbn [run_words fold_left twords flat_map]. apply (inv_lines df ls _ _ _ _ _ _ HI1); [rewrite Etc; exact Hok|exact Hl]. }
    destruct HI2 as [HR _ _ _ _ _ _ Hsh]. rewrite doc_of_flush; [apply (Hsh f Hstab)|].
    destruct HR as [[Hb _] _]. exact (r_err _ _ _ Hb).
Qed.

(* ---- in the terms of S: lines with SMPTE labels, `screen` ---- *)
Definition sline_tc (df : bool) (sl : sline) : tcv := ((sl_h sl, sl_m sl, sl_s sl, sl_f sl), rate_of df).
Definition lines_of_slines (df : bool) (sls : list sline) : list (tcv * list Z) := map (fun sl => (sline_tc df sl, sl_words sl)) sls.
(* S counts the frames of a label as the reader does (C12; checked for every line of every generated file by the harness) *)
Definition slines_frames_ok (df : bool) (sls : list sline) : Prop := Forall (fun sl => frame_of sl = tc_frames (sline_tc df sl)) sls.
Lemma feed_at_later f ws : forall F s, f <= F -> fold_left (feed_at f) (number_from F ws) s = s.
Proof.
  induction ws as [|w ws IH]; intros F s H; cbn [number_from fold_left]; [reflexivity|].
  unfold feed_at at 2. cbn [fst]. replace (F <? f) with false by lia. apply IH. lia.
Qed.
Lemma feed_until_number f ws : forall F s, feed_until dev0 s F f ws = fold_left (feed_at f) (number_from F ws) s.
Proof.
  induction ws as [|w ws IH]; intros F s; cbn [feed_until number_from fold_left]; [reflexivity|].
  unfold feed_at at 2. cbn [fst snd]. destruct (F <? f) eqn:E; [apply IH|]. symmetry. apply feed_at_later. lia.
Qed.
Lemma fold_left_flat_map {A B C} (h : A -> C -> A) (k : B -> list C) l : forall a,
  fold_left h (flat_map k l) a = fold_left (fun a x => fold_left h (k x) a) l a.
Proof. induction l as [|x l IH]; intros a; cbn [flat_map fold_left]; [reflexivity|]. rewrite fold_left_app. apply IH. Qed.
Lemma screen_state_at df sls f : slines_frames_ok df sls -> screen_state dev0 sls f = state_at (twords (lines_of_slines df sls)) f.
Proof.
  intros H. unfold screen_state, state_at, twords, lines_of_slines. rewrite fold_left_flat_map. generalize scr0.
  induction H as [|sl sls Hsl H IH]; intros s; cbn [map fold_left fst snd]; [reflexivity|].
  rewrite feed_until_number, Hsl. apply IH.
Qed.
Theorem popon_display_S df ta sls s' g' : slines_frames_ok df sls -> stream_ok df 0 (lines_of_slines df sls) ->
  pop_lines_nc scr0 g0 (lines_of_slines df sls) = Some (s', g') ->
  forall f, stable (twords (lines_of_slines df sls)) f ->
  vrows_eqb (screen sls f) (rows_of_doc (finish (flush (run_words (ctx_init ta) (lines_of_slines df sls)))) (time_of df f)) = true.
Proof.
  intros Hf Hok Hl f Hst. unfold screen. rewrite (screen_state_at df sls f Hf). now apply (popon_display df ta _ s' g').
Qed.
(* the executable form of `stable` *)
Definition stable_b (pre : list tword) (f : Z) : bool := forallb (fun fw => negb (is_edm (snd fw) && (fst fw + 1 =? f))) pre.
Lemma stable_b_ok pre f : stable_b pre f = true -> stable pre f.
Proof.
  unfold stable_b, stable. rewrite forallb_forall. intros H fw Hin He Heq. specialize (H fw Hin). rewrite He in H.
  replace (fst fw + 1 =? f) with true in H by lia. discriminate.
Qed.
