(* C08, display simulation, part 8: the paragraph written to the document (to_paragraph: rows in increasing order
   separated by line breaks) rendered back to rows by S's comparison function shows what the caption shows. *)
From Coq Require Import QArith.
From TT Require Import Base.Prelude Base.SccTypes Base.SccDoc Gen.SccTables Model.SccWord Model.TimeCode Model.SccReader Spec.Cea608Screen.
From TT Require Import Proofs.C08.Text Proofs.C08.ScreenMem Proofs.C08.ScreenLine Proofs.C08.ScreenPara Proofs.C08.ScreenRows.
Open Scope Z_scope.

(* ---- sorted(d.items()) ---- *)
(* keys strictly increasing and above lo *)
Fixpoint kinc {A} (lo : Z) (d : list (Z * A)) : Prop := match d with [] => True | (k, _) :: d' => lo < k /\ kinc k d' end.
Lemma kinc_weaken {A} lo lo' (d : list (Z * A)) : lo' <= lo -> kinc lo d -> kinc lo' d.
Proof. destruct d as [|[k v] d]; cbn; [auto|]. intros H [H1 H2]. split; [lia|exact H2]. Qed.
Lemma kinc_keys_above {A} lo (d : list (Z * A)) : kinc lo d -> forall k, In k (map fst d) -> lo < k.
Proof.
  revert lo. induction d as [|[k v] d IH]; cbn; intros lo H x Hx; [contradiction|]. destruct H as [H1 H2].
  destruct Hx as [<-|Hx]; [exact H1|]. specialize (IH k H2 x Hx). lia.
Qed.
Lemma kinc_dget_below {A} lo (d : list (Z * A)) r : kinc lo d -> r <= lo -> dget r d = None.
Proof.
  intros H Hr. destruct (dget r d) eqn:E; [|reflexivity]. apply dget_in_keys in E. pose proof (kinc_keys_above lo d H r E). lia.
Qed.
Lemma kinsert_keys {A} (kv : Z * A) l x : In x (map fst (kinsert kv l)) <-> x = fst kv \/ In x (map fst l).
Proof.
  induction l as [|y l IH]; cbn; [intuition|]. destruct (fst kv <=? fst y); cbn; [intuition|]. rewrite IH. intuition.
Qed.
Lemma kinsert_in {A} (kv : Z * A) l x : In x (kinsert kv l) <-> x = kv \/ In x l.
Proof.
  induction l as [|y l IH]; cbn; [intuition|]. destruct (fst kv <=? fst y); cbn; [intuition|]. rewrite IH. intuition.
Qed.
Lemma kinsert_inc {A} lo (kv : Z * A) l : kinc lo l -> lo < fst kv -> ~ In (fst kv) (map fst l) -> kinc lo (kinsert kv l).
Proof.
  revert lo. induction l as [|[k v] l IH]; intros lo H Hlo Hn; destruct kv as [k0 v0]; cbn in *; [auto|].
  destruct H as [H1 H2]. destruct (k0 <=? k) eqn:E; cbn.
  - split; [exact Hlo|]. split; [|exact H2]. assert (k0 <> k) by (intros ->; apply Hn; now left). lia.
  - split; [exact H1|]. apply (IH k); [exact H2|lia|]. intros Hin. apply Hn. now right.
Qed.
Lemma ksort_keys {A} (d : list (Z * A)) x : In x (map fst (ksort d)) <-> In x (map fst d).
Proof. induction d as [|kv d IH]; cbn; [tauto|]. rewrite kinsert_keys, IH. intuition. Qed.
Lemma ksort_in {A} (d : list (Z * A)) x : In x (ksort d) <-> In x d.
Proof. induction d as [|kv d IH]; cbn; [tauto|]. rewrite kinsert_in, IH. intuition. Qed.
Lemma ksort_inc {A} lo (d : list (Z * A)) : NoDup (map fst d) -> (forall k, In k (map fst d) -> lo < k) -> kinc lo (ksort d).
Proof.
  induction d as [|kv d IH]; cbn; intros Hn Hlo; [exact I|]. inversion Hn; subst.
  apply kinsert_inc; [apply IH; [assumption|intros k Hk; apply Hlo; now right]|apply Hlo; now left|].
  intros Hin. apply H1. apply (proj1 (ksort_keys d (fst kv))). exact Hin.
Qed.
Lemma nodup_kinc {A} lo (d : list (Z * A)) : kinc lo d -> NoDup (map fst d).
Proof.
  revert lo. induction d as [|[k v] d IH]; cbn; intros lo H; [constructor|]. destruct H as [H1 H2]. constructor; [|now apply (IH k)].
  intros Hin. pose proof (kinc_keys_above k d H2 k Hin). lia.
Qed.
Lemma dget_in {A} (d : list (Z * A)) k v : NoDup (map fst d) -> (dget k d = Some v <-> In (k, v) d).
Proof.
  induction d as [|[k2 v2] d IH]; cbn; intros Hn; [split; [discriminate|contradiction]|]. inversion Hn; subst.
  destruct (k =? k2) eqn:E.
  - assert (k = k2) by lia. subst k2. split.
    + intros H; inversion H; now left.
    + intros [H|H]; [inversion H; reflexivity|]. exfalso. apply H1. change k with (fst (k, v)). now apply in_map.
  - rewrite (IH H2). split; [now right|]. intros [H|H]; [inversion H; lia|exact H].
Qed.
Lemma dget_ksort {A} (d : list (Z * A)) k : NoDup (map fst d) -> dget k (ksort d) = dget k d.
Proof.
  intros Hn. assert (Hn2 : NoDup (map fst (ksort d))).
  { apply (nodup_kinc (-1 - Z.abs (fold_right Z.min 0 (map fst d)))). apply ksort_inc; [exact Hn|].
    intros x Hx. assert (G : forall l x, In x l -> fold_right Z.min 0 l <= x).
    { induction l as [|y l IH]; cbn; [contradiction|]. intros z [->|Hz]; [lia|]. specialize (IH z Hz). lia. }
    specialize (G _ _ Hx). lia. }
  destruct (dget k d) as [v|] eqn:E.
  - apply (dget_in _ _ _ Hn2). apply ksort_in. now apply (dget_in _ _ _ Hn).
  - destruct (dget k (ksort d)) as [v|] eqn:E2; [|reflexivity].
    apply (dget_in _ _ _ Hn2), ksort_in, (dget_in _ _ _ Hn) in E2. congruence.
Qed.

(* ---- the lines of the paragraph as S reads them back ---- *)
(* the rendering of the rows r0 (cells cur, already read) and the rows of d (sorted, all above r0) *)
Fixpoint doc_lines (d : list (Z * cline)) (r0 : Z) (cur : list cell) : list (list cell) :=
  match d with
  | [] => [cur]
  | (r, l) :: d' => cur :: repeat [] (Z.to_nat (r - r0 - 1)) ++ doc_lines d' r (lcells l)
  end.
Definition qchildren (paint : bool) (pb : option tcv) (cs : list child) : list childq := map (finish_child paint pb) cs.
Lemma cells_of_span_bg st tx : cells_of_span (if ts_bg st =? -1 then sty_bg st black else st) tx = map (scell st) tx.
Proof.
  unfold cells_of_span, scell, vcol. destruct (ts_bg st =? -1); [|reflexivity].
  unfold sty_bg. change (black =? -1) with false. cbv iota. reflexivity.
Qed.
Lemma lines_of_spans paint pbq pb t l rest cur : nobegin l ->
  lines_of pb t (qchildren paint pbq (line_spans l) ++ rest) cur = lines_of pb t rest (cur ++ lcells l).
Proof.
  unfold nobegin, line_spans, lcells. revert cur. induction (l_texts l) as [|x ts IH]; intros cur H; cbn [flat_map]; [now rewrite app_nil_r|].
  inversion H; subst. unfold qchildren in *. rewrite map_app, <- app_assoc.
  destruct (is_nil (t_text x)) eqn:E.
  - cbn [map app]. rewrite IH by assumption. unfold tcells. destruct (t_text x); [|discriminate]. reflexivity.
  - cbn [map app finish_child lines_of]. rewrite H2. cbn [lines_of]. rewrite IH by assumption.
    rewrite cells_of_span_bg. unfold tcells. now rewrite app_assoc.
Qed.
Lemma lines_of_brs pb t n rest cur paint pbq :
  lines_of pb t (qchildren paint pbq (brs (S n)) ++ rest) cur = cur :: repeat [] n ++ lines_of pb t rest [].
Proof.
  cbn [brs qchildren map app finish_child lines_of]. f_equal. induction n as [|n IH]; cbn [brs map app repeat finish_child lines_of]; [reflexivity|].
  f_equal. exact IH.
Qed.
Lemma lines_of_children paint pbq pb t d : forall r0 cur, kinc r0 d -> Forall (fun kv => nobegin (snd kv)) d ->
  lines_of pb t (qchildren paint pbq (para_children d (Some r0))) cur = doc_lines d r0 cur.
Proof.
  induction d as [|[r l] d IH]; intros r0 cur Hk Hn; cbn [para_children doc_lines]; [reflexivity|].
  destruct Hk as [H1 H2]. inversion Hn; subst. cbn [snd] in *.
  replace (Z.to_nat (Z.abs (r0 - r))) with (S (Z.to_nat (r - r0 - 1))) by lia.
  unfold qchildren. rewrite map_app. fold (qchildren paint pbq (brs (S (Z.to_nat (r - r0 - 1))))).
  rewrite lines_of_brs. f_equal. f_equal. rewrite map_app. fold (qchildren paint pbq (line_spans l)).
  rewrite lines_of_spans by assumption. cbn [app]. apply IH; assumption.
Qed.
(* the row of index r - r0 *)
Lemma nth_doc_lines d : forall r0 cur r, kinc r0 d -> r0 <= r ->
  nth (Z.to_nat (r - r0)) (doc_lines d r0 cur) [] = if r =? r0 then cur else match dget r d with Some l => lcells l | None => [] end.
Proof.
  induction d as [|[k l] d IH]; intros r0 cur r Hk Hr; cbn [doc_lines dget].
  - destruct (r =? r0) eqn:E; [replace (r - r0) with 0 by lia; reflexivity|].
    destruct (Z.to_nat (r - r0)) eqn:E2; [lia|]. destruct n; reflexivity.
  - destruct Hk as [H1 H2]. destruct (r =? r0) eqn:E; [replace (r - r0) with 0 by lia; reflexivity|].
    replace (Z.to_nat (r - r0)) with (S (Z.to_nat (r - r0 - 1))) by lia. cbn [nth].
    destruct (r <? k) eqn:E3.
    + rewrite app_nth1 by (rewrite repeat_length; lia).
      replace (r =? k) with false by lia. rewrite (kinc_dget_below k d r H2) by lia. apply nth_repeat_any.
    + rewrite app_nth2 by (rewrite repeat_length; lia). rewrite repeat_length.
      replace (Z.to_nat (r - r0 - 1) - Z.to_nat (k - r0 - 1))%nat with (Z.to_nat (r - k)) by lia.
      rewrite IH by (try assumption; lia). destruct (r =? k); reflexivity.
Qed.
Fixpoint last_key {A} (d : list (Z * A)) (r0 : Z) : Z := match d with [] => r0 | (k, _) :: d' => last_key d' k end.
Lemma last_key_ge {A} (d : list (Z * A)) : forall r0, kinc r0 d -> r0 <= last_key d r0.
Proof. induction d as [|[k v] d IH]; cbn; intros r0 H; [lia|]. destruct H as [H1 H2]. specialize (IH k H2). lia. Qed.
Lemma last_key_in {A} (d : list (Z * A)) : forall r0, last_key d r0 = r0 \/ In (last_key d r0) (map fst d).
Proof. induction d as [|[k v] d IH]; cbn; intros r0; [now left|]. destruct (IH k) as [H|H]; [right; left; now rewrite H|right; now right]. Qed.
Lemma doc_lines_length d : forall r0 cur, kinc r0 d -> Z.of_nat (length (doc_lines d r0 cur)) = last_key d r0 - r0 + 1.
Proof.
  induction d as [|[k l] d IH]; intros r0 cur Hk; cbn [doc_lines last_key length]; [lia|].
  destruct Hk as [H1 H2]. rewrite app_length, repeat_length. pose proof (IH k (lcells l) H2). pose proof (last_key_ge d k H2). lia.
Qed.
Lemma number_rows_mem r ls : number_rows r ls = rows_of_mem_from ls r.
Proof. revert r. induction ls as [|l ls IH]; intros r; cbn; [reflexivity|]. rewrite IH. reflexivity. Qed.

(* ---- one row: the memory and the line ---- *)
Lemma all_blank_nth X : (forall k, (k < length X)%nat -> is_blank (nth k X blank) = true) -> all_blank X.
Proof.
  induction X as [|x X IH]; intros H; [constructor|]. constructor; [apply (H 0%nat); cbn; lia|]. apply IH. intros k Hk. apply (H (S k)). cbn. lia.
Qed.
Lemma row_blank_trim m r : mem_wf m -> (forall c, in_cols c -> is_blank (mcell m r c) = true) -> trim (row_get m r) = [].
Proof.
  intros Hw H. apply trim_all_blank. apply all_blank_nth. rewrite row_get_length by exact Hw. intros k Hk.
  specialize (H (Z.of_nat k)). unfold mcell in H. rewrite Nat2Z.id in H. apply H. unfold in_cols. lia.
Qed.
Lemma row_same_line m r l : mem_wf m -> (forall c, in_cols c -> ceqv (mcell m r c) (lcell l c)) -> 0 <= l_indent l ->
  l_indent l + line_length l <= 32 -> row_same (row_get m r) (lcells l).
Proof.
  intros Hw H Hi Hlen. unfold row_same. pose proof (lcells_length l) as HL. unfold zlen in HL. pose proof (line_length_nonneg l).
  set (i := Z.to_nat (l_indent l)). set (n := length (lcells l)).
  set (Zl := repeat blank i ++ lcells l ++ repeat blank (32 - i - n)).
  assert (HF : Forall2 ceqv (row_get m r) Zl).
  { apply (Forall2_nth_ext ceqv blank).
    - rewrite row_get_length by exact Hw. unfold Zl. rewrite !app_length, !repeat_length. fold n. lia.
    - rewrite row_get_length by exact Hw. intros k Hk. specialize (H (Z.of_nat k)). unfold mcell in H. rewrite Nat2Z.id in H.
      assert (Hin : in_cols (Z.of_nat k)) by (unfold in_cols; lia). specialize (H Hin).
      assert (E : nth k Zl blank = lcell l (Z.of_nat k)).
      { unfold Zl, lcell. destruct (Z.of_nat k <? l_indent l) eqn:E1.
        - rewrite app_nth1 by (rewrite repeat_length; lia). apply nth_repeat_any.
        - rewrite app_nth2 by (rewrite repeat_length; lia). rewrite repeat_length.
          replace (Z.to_nat (Z.of_nat k - l_indent l)) with (k - i)%nat by lia.
          destruct (Nat.ltb (k - i) n) eqn:E2.
          + apply Nat.ltb_lt in E2. now rewrite app_nth1.
          + apply Nat.ltb_ge in E2. rewrite app_nth2 by exact E2. fold n. rewrite nth_repeat_any. symmetry. apply nth_overflow. exact E2. }
      rewrite E. exact H. }
  apply Forall2_ceqv_cells_eqb. replace (trim (lcells l)) with (trim Zl) by (unfold Zl; apply trim_pad; apply all_blank_repeat).
  now apply Forall2_ceqv_trim.
Qed.

(* ---- the whole caption ---- *)
(* the rows of the paragraph as written by to_paragraph and read back: first row = smallest key *)
Definition para_rows (p : para) : vrows :=
  match ksort (p_lines p) with
  | [] => []
  | (r1, l1) :: d => number_rows r1 (doc_lines d r1 (lcells l1))
  end.
Lemma para_rows_shows {st} p m u : @para_mem st p m u -> mem_wf m -> ~ pristine p -> vrows_eqb (rows_of_mem m) (para_rows p) = true.
Proof.
  intros [A B C D E F] Hw Hnp. destruct C as [C|C]; [contradiction|].
  unfold para_rows. destruct (ksort (p_lines p)) as [|[r1 l1] d] eqn:Es.
  - (* no line at all: cannot be (there is a current line) *)
    destruct E as (r0 & l0 & _ & E2). apply dget_in_keys in E2. apply ksort_keys in E2. rewrite Es in E2. contradiction.
  - assert (Hkeys : forall r l, dget r (p_lines p) = Some l -> 1 <= r <= 15) by (intros r l H; destruct (C r l H) as [H1 _]; exact H1).
    assert (Hinc : kinc 0 (ksort (p_lines p))).
    { apply ksort_inc; [exact D|]. intros k Hk. destruct (dget k (p_lines p)) eqn:E1; [specialize (Hkeys _ _ E1); lia|].
      apply dget_none_keys in E1. contradiction. }
    rewrite Es in Hinc. cbn [kinc] in Hinc. destruct Hinc as [Hr1 Hd].
    assert (Hg : forall r, dget r ((r1, l1) :: d) = dget r (p_lines p)) by (intros r; rewrite <- Es; now apply dget_ksort).
    assert (Hr1in : 1 <= r1 <= 15).
    { specialize (Hg r1). cbn in Hg. rewrite Z.eqb_refl in Hg. symmetry in Hg. exact (Hkeys _ _ Hg). }
    assert (Hlast : last_key d r1 <= 15).
    { destruct (last_key_in d r1) as [H|H]; [lia|]. assert (Hk : In (last_key d r1) (map fst ((r1, l1) :: d))) by now right.
      destruct (dget (last_key d r1) ((r1, l1) :: d)) eqn:E1.
      - rewrite Hg in E1. specialize (Hkeys _ _ E1). lia.
      - apply dget_none_keys in E1. contradiction. }
    set (L := doc_lines d r1 (lcells l1)). pose proof (doc_lines_length d r1 (lcells l1) Hd) as HLL. fold L in HLL.
    pose proof (last_key_ge d r1 Hd) as Hge.
    rewrite number_rows_mem, rows_of_mem_from_fun.
    set (gL := fun r' => nth (Z.to_nat (r' - r1)) L []).
    (* the rendering covers rows r1 .. last key; rows up to 15 add nothing *)
    assert (EgL : rows_of_fun gL r1 (length L) = rows_of_fun gL r1 (Z.to_nat (16 - r1))).
    { replace (Z.to_nat (16 - r1)) with (length L + Z.to_nat (15 - last_key d r1))%nat by lia.
      rewrite rows_of_fun_app. rewrite (rows_of_fun_blank gL (Z.to_nat (15 - last_key d r1))); [now rewrite app_nil_r|].
      intros r Hr. unfold gL. rewrite nth_overflow by lia. reflexivity. }
    rewrite EgL. rewrite (rows_of_mem_fun m Hw).
    replace 15%nat with (Z.to_nat (r1 - 1) + Z.to_nat (16 - r1))%nat by lia. rewrite rows_of_fun_app.
    assert (Hrow : forall r, 1 <= r <= 15 -> forall c, in_cols c ->
                   ceqv (mcell m r c) (match dget r (p_lines p) with Some l => lcell l c | None => blank end)).
    { intros r Hr c Hc. apply (A r c Hr Hc). }
    rewrite (rows_of_fun_blank (row_get m) (Z.to_nat (r1 - 1)) 1).
    + cbn [app]. replace (1 + Z.of_nat (Z.to_nat (r1 - 1))) with r1 by lia. apply rows_of_fun_same. intros r Hr.
      assert (Hr15 : 1 <= r <= 15) by lia. unfold gL, L. rewrite nth_doc_lines by (try assumption; lia).
      assert (EgLr : (if r =? r1 then lcells l1 else match dget r d with Some l => lcells l | None => [] end) =
                     match dget r (p_lines p) with Some l => lcells l | None => [] end).
      { rewrite <- Hg. cbn [dget]. destruct (r =? r1); reflexivity. }
      rewrite EgLr. destruct (dget r (p_lines p)) as [l|] eqn:El.
      * destruct (B r l El) as (_ & Hi & Hle & _). apply row_same_line; try assumption.
        intros c Hc. specialize (Hrow r Hr15 c Hc). now rewrite El in Hrow.
      * unfold row_same. rewrite (row_blank_trim m r Hw); [reflexivity|]. intros c Hc. specialize (Hrow r Hr15 c Hc). rewrite El in Hrow.
        apply (ceqv_blank_l _ _ Hrow). reflexivity.
    + intros r Hr. apply (row_blank_trim m r Hw). intros c Hc. assert (Hr15 : 1 <= r <= 15) by lia. specialize (Hrow r Hr15 c Hc).
      assert (En : dget r (p_lines p) = None).
      { rewrite <- Hg. cbn [dget]. replace (r =? r1) with false by lia. apply (kinc_dget_below r1 d r Hd). lia. }
      rewrite En in Hrow. apply (ceqv_blank_l _ _ Hrow). reflexivity.
Qed.
