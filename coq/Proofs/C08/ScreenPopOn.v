(* C08, display simulation, part 5: the pop-on protocol.  For every sequence of words accepted by `pop_words` (the
   words of the pop-on repertoire under the conditions listed at `pop_word`) the reader's buffered caption shows what the
   non-displayed memory of the reference decoder holds, and its displayed caption what the displayed memory holds:
   same characters, colour, italics and underline on the same rows and columns. *)
From Coq Require Import QArith.
From TT Require Import Base.Prelude Base.SccTypes Base.SccDoc Gen.SccTables Model.SccWord Model.TimeCode Model.SccReader Spec.Cea608Screen.
From TT Require Import Proofs.C08.Stamps Proofs.C08.Words Proofs.C08.Protocol Proofs.C08.Text Proofs.C08.ScreenMem Proofs.C08.ScreenLine Proofs.C08.ScreenPara Proofs.C08.ScreenWords.
Open Scope Z_scope.

(* ---- the stream class ---- *)
(* bookkeeping of the scan: is the cursor positioned (a PAC received since the last ENM / EOC); the rows addressed by a
   PAC in the non-displayed memory since it was last erased; the same for the displayed memory *)
Record gst := mkG { g_pos : bool ; g_un : list Z ; g_ud : list Z }.
Definition g0 : gst := mkG false [] [].
Definition inb (r : Z) (l : list Z) : bool := existsb (Z.eqb r) l.
Lemma inb_false r l : inb r l = false -> ~ In r l.
Proof.
  unfold inb. intros H Hin. assert (existsb (Z.eqb r) l = true); [|congruence].
  apply existsb_exists. exists r. split; [exact Hin|apply Z.eqb_refl].
Qed.
(* one word: None when it is outside the class, otherwise the bookkeeping after it.
   Accepted: null padding; words and characters of data channel 2; second copies of doubled codes; and on channel 1
   - RCL, ENM, EDM, EOC, and the miscellaneous codes both sides ignore (AOF, AON, FON, TR, RTD),
   - a PAC for a row that no PAC has addressed since the non-displayed memory was last erased,
   and, once a PAC has positioned the cursor,
   - characters, special characters, mid-row codes (the test on the colour is true of every mid-row code of the tables)
     and tab offsets that stay left of the last column,
   - an extended character when the cell before the cursor holds a character other than a space,
   - DER.
   Not in the class: RDC, RUx, CR (other protocols / recorded findings), BS, attribute (background) codes, control-range
   words of no data channel. *)
Definition pop_word (s : scr) (g : gst) (w : Z) : option gst :=
  if value w =? 0 then Some g
  else if byte1 w <? 32 then
    let d := decode w in
    if d_chan d =? 2 then Some g
    else if negb (d_chan d =? 1) then None
    else if is_second_copy s w then Some g
    else if d_cls d =? cPac then
      if (1 <=? d_row d) && (d_row d <=? 15) && ((d_indent d =? -1) || ((0 <=? d_indent d) && (d_indent d <=? 28))) &&
         negb (inb (d_row d) (g_un g))
      then Some (mkG true (d_row d :: g_un g) (g_ud g)) else None
    else if d_cls d =? cMidRow then
      if g_pos g && (ccol s + 1 <=? 31) && (if d_italic d then d_color d =? -1 else negb (d_color d =? -1))
      then Some g else None
    else if d_cls d =? cControl then
      let k := d_code d in
      if k =? kRCL then Some g
      else if k =? kENM then Some (mkG false [] (g_ud g))
      else if k =? kEDM then Some (mkG (g_pos g) (g_un g) [])
      else if k =? kEOC then Some (mkG false (g_ud g) (g_un g))
      else if (kTO1 <=? k) && (k <=? kTO1 + 2) then (if g_pos g && (ccol s + (k - kTO1 + 1) <=? 31) then Some g else None)
      else if k =? kDER then (if g_pos g then Some g else None)
      else if (k =? kBS) || (k =? kCR) || (k =? kRDC) || ((kRU2 <=? k) && (k <=? kRU4)) then None
      else Some g
    else if d_cls d =? cSpecial then (if g_pos g && (ccol s + 1 <=? 31) then Some g else None)
    else if d_cls d =? cExtended then
      (if g_pos g && (1 <=? ccol s) && negb (is_blank (mcell (nond s) (crow s) (ccol s - 1))) then Some g else None)
    else None
  else
    if chan s =? 1 then (if g_pos g && (ccol s + zlen (to_text w) <=? 31) then Some g else None) else Some g.
Fixpoint pop_words (s : scr) (g : gst) (ws : list Z) : option (scr * gst) :=
  match ws with
  | [] => Some (s, g)
  | w :: ws' => match pop_word s g w with Some g' => pop_words (feed dev0 s w) g' ws' | None => None end
  end.

(* ---- the simulation relation ---- *)
Definition pen_of (c : ctx) : Z * bool * bool := penview (c_color c) (c_italic c) (c_under c).
(* the text element under the cursor: an empty element has no style yet; its style is the pen's unless it holds only
   spaces and has never been styled; an empty element follows a space *)
Definition elt_ok (pen : Z * bool * bool) (l : cline) (t : ctext) (col : Z) : Prop :=
  (t_text t = [] -> t_sty t = ts0) /\
  ((t_sty t = ts0 /\ Forall (fun ch => ch = 32) (t_text t)) \/ sview (t_sty t) = pen) /\
  (t_text t = [] -> line_length l = 0 \/ is_blank (lcell l (col - 1)) = true).
Record Rbase (c : ctx) (s : scr) (g : gst) : Prop := {
  r_err : c_err c = false;
  r_style : c_style c = sPopOn;
  r_md : md s = PopOn;
  r_pen : pen_of c = (pcol s, pita s, pund s);
  r_wf : scr_wf s;
  r_buf : @para_mem sPopOn (c_buf c) (nond s) (g_un g);
  r_act : match c_act c with
          | Some a => @para_mem sPopOn a (disp s) (g_ud g)
          | None => forall r k, is_blank (mcell (disp s) r k) = true
          end }.
(* the cursor of the buffered caption is where the decoder's cursor is, at the end of its row *)
Definition Rposn (c : ctx) (s : scr) : Prop :=
  in_rows (crow s) /\ 0 <= ccol s <= 31 /\
  exists l ts t, para_at (c_buf c) (crow s) (ccol s) l ts t /\ elt_ok (pen_of c) l t (ccol s).
Definition Rcore (c : ctx) (s : scr) (g : gst) : Prop := Rbase c s g /\ (g_pos g = true -> Rposn c s).
Record Rlink (c : ctx) (s : scr) : Prop := {
  r_chan : (c_chan c =? 1) = (chan s =? 1);
  r_dup : forall w, d_chan (decode w) = 1 -> is_dup c w = is_second_copy s w;
  r_prev : forall pv, c_prev c = Some pv -> is_code (pv / 256) = true -> exists w0, value w0 = pv /\ d_chan (decode w0) = 1;
  r_pmid : pmid s = (c_prev_type c =? cMidRow) }.
Definition Rpop (c : ctx) (s : scr) (g : gst) : Prop := Rcore c s g /\ Rlink c s.

(* Rbase / Rposn read only these components of the two states *)
Lemma Rbase_same c s g c' s' : Rbase c s g ->
  c_err c' = c_err c -> c_style c' = c_style c -> c_color c' = c_color c -> c_italic c' = c_italic c -> c_under c' = c_under c ->
  c_buf c' = c_buf c -> c_act c' = c_act c ->
  md s' = md s -> pcol s' = pcol s -> pita s' = pita s -> pund s' = pund s -> disp s' = disp s -> nond s' = nond s ->
  Rbase c' s' g.
Proof.
  intros [A B C D E F G] E1 E2 E3 E4 E5 E6 E7 F1 F2 F3 F4 F5 F6.
  assert (Ep : pen_of c' = pen_of c) by (unfold pen_of; now rewrite E3, E4, E5).
  split.
  - now rewrite E1.
  - now rewrite E2.
  - now rewrite F1.
  - now rewrite Ep, F2, F3, F4.
  - unfold scr_wf in *. now rewrite F5, F6.
  - now rewrite E6, F6.
  - now rewrite E7, F5.
Qed.
Lemma Rposn_same c s c' s' : Rposn c s ->
  c_color c' = c_color c -> c_italic c' = c_italic c -> c_under c' = c_under c -> c_buf c' = c_buf c ->
  crow s' = crow s -> ccol s' = ccol s -> Rposn c' s'.
Proof.
  intros H E3 E4 E5 E6 F7 F8. assert (Ep : pen_of c' = pen_of c) by (unfold pen_of; now rewrite E3, E4, E5).
  unfold Rposn. rewrite E6, Ep, F7, F8. exact H.
Qed.
Lemma Rcore_same c s g c' s' : Rcore c s g ->
  c_err c' = c_err c -> c_style c' = c_style c -> c_color c' = c_color c -> c_italic c' = c_italic c -> c_under c' = c_under c ->
  c_buf c' = c_buf c -> c_act c' = c_act c ->
  md s' = md s -> pcol s' = pcol s -> pita s' = pita s -> pund s' = pund s -> disp s' = disp s -> nond s' = nond s ->
  crow s' = crow s -> ccol s' = ccol s -> Rcore c' s' g.
Proof.
  intros [Hb Hp] E1 E2 E3 E4 E5 E6 E7 F1 F2 F3 F4 F5 F6 F7 F8. split.
  - now apply (Rbase_same c s g).
  - intros Hg. now apply (Rposn_same c s c' s' (Hp Hg)).
Qed.

Lemma Rpop_init ta : Rpop (ctx_init ta) scr0 g0.
Proof.
  split; [split; [split; try reflexivity|discriminate]|split; try reflexivity].
  - split; apply mem_wf_mem0.
  - apply para_mem_new. intros r k. change (nond scr0) with mem0. rewrite mcell_mem0. reflexivity.
  - unfold ctx_init. cbn [c_act]. intros r k. change (disp scr0) with mem0. rewrite mcell_mem0. reflexivity.
  - intros pv H. discriminate H.
Qed.
(* the time code of the line plays no part *)
Lemma Rpop_with_tc c s g t : Rpop c s g -> Rpop (with_tc c t) s g.
Proof.
  intros [H1 [A B C D]]. split.
  - apply (Rcore_same c s g); try reflexivity. exact H1.
  - split; assumption.
Qed.

(* ---- words that change no caption: padding, the other channel, second copies ---- *)
Lemma step_pop_pad c s g w : Rpop c s g -> value w = 0 -> Rpop (step c w) (feed dev0 s w) g.
Proof.
  intros [H1 [A B C D]] Hv. rewrite (step_pad c w (r_err _ _ _ (proj1 H1)) Hv), (feed_pad dev0 s w Hv). split.
  - apply (Rcore_same c s g); try reflexivity. exact H1.
  - split; try assumption.
    + intros w' _. reflexivity.
    + intros pv H. discriminate H.
Qed.
Lemma not_dup_other c s w : Rlink c s -> d_chan (decode w) <> 1 -> is_dup c w = false.
Proof.
  intros [A B C D] Hc. unfold is_dup. destruct (c_prev c) as [pv|] eqn:E; [|reflexivity].
  destruct (pv =? value w) eqn:E1; [|reflexivity]. destruct (is_code (pv / 256)) eqn:E2; [|reflexivity].
  destruct (C pv eq_refl E2) as (w0 & Hv & Hch). assert (Hpv : pv = value w) by lia. rewrite Hpv in Hv.
  rewrite (decode_value w0 w Hv) in Hch. contradiction.
Qed.
Lemma step_pop_other c s g w : Rpop c s g -> value w <> 0 -> byte1 w < 32 -> d_chan (decode w) = 2 ->
  Rpop (step c w) (feed dev0 s w) g.
Proof.
  intros [H1 HL] Hv Hb Hc. assert (Hn : d_chan (decode w) <> 1) by lia.
  rewrite (step_other c w (r_err _ _ _ (proj1 H1)) (not_dup_other c s w HL Hn) Hv Hb Hn), (feed_code_cls dev0 s w Hv Hb).
  cbv zeta. rewrite Hc. change (negb (2 =? 1)) with true. change (2 =? 2) with true. cbv iota. split.
  - apply (Rcore_same c s g); try reflexivity. exact H1.
  - destruct HL as [A B C D]. split.
    + reflexivity.
    + intros w' Hw'. destruct (is_second_copy s w) eqn:Es; unfold is_dup; unfold is_second_copy at 1;
        cbn [c_prev with_prev last set_chan set_last]; [reflexivity|]. destruct (value w =? value w') eqn:E; [|reflexivity].
      assert (Hvv : value w = value w') by lia. rewrite (decode_value w w' Hvv) in Hc. lia.
    + intros pv H. discriminate H.
    + exact D.
Qed.
Lemma step_pop_dup c s g w : Rpop c s g -> d_chan (decode w) = 1 -> is_second_copy s w = true ->
  Rpop (step c w) (feed dev0 s w) g.
Proof.
  intros [H1 HL] Hc Hd. destruct (ch1_bytes w Hc) as [Hb Hv].
  assert (Hdup : is_dup c w = true) by (rewrite (r_dup _ _ HL w Hc); exact Hd).
  rewrite (step_dup c w (r_err _ _ _ (proj1 H1)) Hdup), (feed_code_cls dev0 s w) by lia.
  cbv zeta. rewrite Hc, Hd. change (negb (1 =? 1)) with false. cbv iota. split.
  - apply (Rcore_same c s g); try reflexivity. exact H1.
  - destruct HL as [A B C D]. split; try assumption.
    + intros w' _. reflexivity.
    + intros pv H. discriminate H.
Qed.
(* characters while data channel 2 is addressed *)
Lemma step_pop_chars_other c s g w : Rpop c s g -> 32 <= byte1 w -> (chan s =? 1) = false ->
  Rpop (step c w) (feed dev0 s w) g.
Proof.
  intros [H1 HL] Hb Hch. rewrite (step_chars c w (r_err _ _ _ (proj1 H1)) Hb), (feed_chars dev0 s w Hb). cbv zeta.
  rewrite (r_chan _ _ HL). change (chan (set_last s None)) with (chan s). rewrite Hch. cbn [negb]. split.
  - apply (Rcore_same c s g); try reflexivity. exact H1.
  - destruct HL as [A B C D]. split; try assumption.
    + intros w' _. reflexivity.
    + intros pv H. discriminate H.
Qed.

(* ---- a channel-1 code that is acted upon: what remains to be shown is the effect on the captions ---- *)
Lemma wrap_code c s g' w X s1 cls : Rlink c s -> d_chan (decode w) = 1 ->
  Rcore X s1 g' -> c_chan X = 1 -> last s1 = Some (value w) -> chan s1 = 1 ->
  Rpop (with_prev (with_prev_type X cls) (Some (value w))) (set_pmid s1 (cls =? cMidRow)) g'.
Proof.
  intros HL Hc HX Hch Hlast Hchan. split.
  - apply (Rcore_same X s1 g'); try reflexivity. exact HX.
  - split.
    + cbn [c_chan with_prev with_prev_type chan set_pmid]. rewrite Hch, Hchan. reflexivity.
    + intros w' Hw'. unfold is_dup, is_second_copy. cbn [c_prev with_prev last set_pmid]. rewrite Hlast.
      rewrite value_div. rewrite (chan1_is_code w Hc). apply andb_true_r.
    + intros pv H Hcode. cbn [c_prev with_prev] in H. injection H as <-. exists w. split; [reflexivity|exact Hc].
    + reflexivity.
Qed.
(* the states handed to the code-specific part *)
Lemma Rcore_code c s g x : Rcore c s g -> Rcore (code_ctx c) (set_chan (set_last s (Some x)) 1) g.
Proof. intros H. apply (Rcore_same c s g); try reflexivity. exact H. Qed.

(* ---- characters ---- *)
Lemma process_text_pop c word : c_style c = sPopOn ->
  process_text c word = sync_acur (with_buf c (style_cur_text c (append_text (c_buf c) word))).
Proof. intros H. unfold process_text. rewrite H. reflexivity. Qed.
Lemma sync_acur_proj c : c_err (sync_acur c) = c_err c /\ c_style (sync_acur c) = c_style c /\ c_color (sync_acur c) = c_color c /\
  c_italic (sync_acur c) = c_italic c /\ c_under (sync_acur c) = c_under c /\ c_buf (sync_acur c) = c_buf c /\
  c_act (sync_acur c) = c_act c /\ c_chan (sync_acur c) = c_chan c.
Proof. unfold sync_acur. destruct (c_act c) eqn:E; repeat split; try reflexivity; cbn; now rewrite E. Qed.
Lemma puts_proj s word : md s = PopOn -> ccol s + zlen word <= 31 ->
  md (puts s word) = PopOn /\ pcol (puts s word) = pcol s /\ pita (puts s word) = pita s /\ pund (puts s word) = pund s /\
  disp (puts s word) = disp s /\ crow (puts s word) = crow s /\ ccol (puts s word) = ccol s + zlen word /\
  nond (puts s word) = write_cells (nond s) (crow s) (ccol s) (pen_cell s) word /\
  last (puts s word) = last s /\ chan (puts s word) = chan s /\ pmid (puts s word) = pmid s.
Proof. intros Hm Hl. rewrite (puts_pop word s Hm Hl). repeat split; try reflexivity. exact Hm. Qed.
(* the position part of the relation is all that the write needs: the element under the cursor carries the pen's style
   or only unstyled spaces *)
Definition Rposn_w (c : ctx) (s : scr) : Prop :=
  in_rows (crow s) /\ 0 <= ccol s <= 31 /\
  exists l ts t, para_at (c_buf c) (crow s) (ccol s) l ts t /\ ((t_sty t = ts0 /\ all_spaces t) \/ sview (t_sty t) = pen_of c).
Lemma Rposn_weaken c s : Rposn c s -> Rposn_w c s.
Proof. intros (A & B & l & ts & t & Hat & (_ & E2 & _)). split; [exact A|]. split; [exact B|]. exists l, ts, t. split; assumption. Qed.
Lemma core_write c s g word : Rbase c s g -> Rposn_w c s -> word <> [] -> ccol s + zlen word <= 31 ->
  Rbase (process_text c word) (puts s word) g /\ Rposn (process_text c word) (puts s word) /\
  c_chan (process_text c word) = c_chan c.
Proof.
  intros Hb (Hrow & Hcol & l & ts & t & Hat & Helt) Hw Hlen.
  pose proof Hb as [A B C D E F G].
  destruct (puts_proj s word C Hlen) as (P1 & P2 & P3 & P4 & P5 & P6 & P7 & P8 & P9 & P10 & P11).
  destruct (para_write (c_buf c) (nond s) (g_un g) (crow s) (ccol s) l ts t (c_color c) (c_italic c) (c_under c)
              (pcol s) (pita s) (pund s) word F Hat Hrow (proj1 Hcol) Hlen Hw (proj2 E) Helt D) as (Q1 & Q2 & Q3 & Q4 & Q5).
  rewrite (process_text_pop c word B), style_cur_text_eq, Q1.
  match goal with |- context [sync_acur ?x] => destruct (sync_acur_proj x) as (S1 & S2 & S3 & S4 & S5 & S6 & S7 & S8); set (c' := sync_acur x) in * end.
  cbn [c_err c_style c_color c_italic c_under c_buf c_act c_chan with_buf] in S1, S2, S3, S4, S5, S6, S7, S8.
  split; [|split].
  - split.
    + rewrite S1. exact A.
    + rewrite S2. exact B.
    + exact P1.
    + unfold pen_of. rewrite S3, S4, S5, P2, P3, P4. exact D.
    + destruct E as [E1 E2]. split; [rewrite P5; exact E1|]. rewrite P8. now apply write_cells_wf.
    + rewrite S6, P8. exact Q2.
    + rewrite S7, P5. exact G.
  - split; [rewrite P6; exact Hrow|]. split; [rewrite P7; pose proof (zlen_nonneg word); lia|].
    eexists _, ts, _. rewrite S6, P6, P7. split; [exact Q3|].
    split; [|split].
    + intros H0. rewrite Q5 in H0. destruct (t_text t); [destruct word; [contradiction|discriminate]|discriminate].
    + right. unfold pen_of. rewrite S3, S4, S5, Q4. symmetry. exact D.
    + intros H0. rewrite Q5 in H0. destruct (t_text t); [destruct word; [contradiction|discriminate]|discriminate].
  - exact S8.
Qed.
Lemma feed_chars_puts v s w : 32 <= byte1 w -> (chan s =? 1) = true ->
  feed v s w = puts (set_pmid (set_last s None) false) (to_text w).
Proof.
  intros Hb Hc. rewrite (feed_chars v s w Hb). cbv zeta. change (chan (set_last s None)) with (chan s). rewrite Hc.
  rewrite (to_text_chars w Hb). destruct (d_t2 (decode w) =? -1); reflexivity.
Qed.
Lemma step_pop_chars c s g w : Rpop c s g -> 32 <= byte1 w -> (chan s =? 1) = true -> g_pos g = true ->
  ccol s + zlen (to_text w) <= 31 -> Rpop (step c w) (feed dev0 s w) g.
Proof.
  intros [[Hb Hp] HL] Hby Hch Hg Hlen.
  rewrite (step_chars c w (r_err _ _ _ Hb) Hby), (feed_chars_puts dev0 s w Hby Hch). cbv zeta.
  rewrite (r_chan _ _ HL), Hch. cbn [negb].
  set (c1 := with_tc c (tc_next (c_tc c))). set (s0 := set_pmid (set_last s None) false).
  assert (Hb1 : Rbase c1 s0 g) by (apply (Rbase_same c s g); try reflexivity; exact Hb).
  assert (Hp1 : Rposn c1 s0) by (apply (Rposn_same c s); try reflexivity; exact (Hp Hg)).
  assert (Hne : to_text w <> []) by (rewrite (to_text_chars w Hby); discriminate).
  destruct (core_write c1 s0 g (to_text w) Hb1 (Rposn_weaken _ _ Hp1) Hne Hlen) as (R1 & R2 & R3).
  destruct (puts_proj s0 (to_text w) (r_md _ _ _ Hb1) Hlen) as (P1 & P2 & P3 & P4 & P5 & P6 & P7 & P8 & P9 & P10 & P11).
  split; [split|].
  - apply (Rbase_same _ _ g _ _ R1); reflexivity.
  - intros _. apply (Rposn_same _ _ _ _ R2); reflexivity.
  - destruct HL as [A B C D]. split.
    + cbn [c_chan with_prev with_prev_type]. rewrite R3, P10. exact A.
    + intros w' _. unfold is_dup, is_second_copy. cbn [c_prev with_prev]. rewrite P9. cbn [last s0 set_pmid set_last].
      rewrite value_div. replace (is_code (byte1 w)) with false by (unfold is_code; lia). apply andb_false_r.
    + intros pv H Hcode. cbn [c_prev with_prev] in H. injection H as <-. rewrite value_div in Hcode. unfold is_code in Hcode. lia.
    + rewrite P11. reflexivity.
Qed.

(* ---- channel-1 codes, class by class ---- *)
Lemma feed_act s w : d_chan (decode w) = 1 -> is_second_copy s w = false ->
  feed dev0 s w = act dev0 (set_chan (set_last s (Some (value w))) 1) (decode w).
Proof.
  intros Hc Hd. destruct (ch1_bytes w Hc) as [Hb Hv]. rewrite (feed_code_cls dev0 s w) by lia. cbv zeta.
  rewrite Hc, Hd. reflexivity.
Qed.
Lemma not_dup_code c s w : Rlink c s -> d_chan (decode w) = 1 -> is_second_copy s w = false -> is_dup c w = false.
Proof. intros HL Hc Hd. rewrite (r_dup _ _ HL w Hc). exact Hd. Qed.

(* special characters *)
Lemma step_pop_special c s g w : Rpop c s g -> d_chan (decode w) = 1 -> is_second_copy s w = false ->
  d_cls (decode w) = cSpecial -> g_pos g = true -> ccol s + 1 <= 31 -> Rpop (step c w) (feed dev0 s w) g.
Proof.
  intros [[Hb Hp] HL] Hc Hd Hcls Hg Hlen.
  rewrite (step_code c w (r_err _ _ _ Hb) (not_dup_code c s w HL Hc Hd) Hc), (feed_act s w Hc Hd). cbv zeta.
  unfold act. rewrite Hcls. cbn [Z.eqb cSpecial cPac cAttr cMidRow cControl cExtended Pos.eqb].
  set (c1 := code_ctx c). set (s0 := set_chan (set_last s (Some (value w))) 1).
  assert (Hb1 : Rbase c1 s0 g) by (apply (Rbase_same c s g); try reflexivity; exact Hb).
  assert (Hp1 : Rposn c1 s0) by (apply (Rposn_same c s); try reflexivity; exact (Hp Hg)).
  assert (Hlen1 : ccol s0 + zlen [d_t1 (decode w)] <= 31) by (unfold zlen; cbn; exact Hlen).
  destruct (core_write c1 s0 g [d_t1 (decode w)] Hb1 (Rposn_weaken _ _ Hp1) ltac:(discriminate) Hlen1) as (R1 & R2 & R3).
  destruct (puts_proj s0 [d_t1 (decode w)] (r_md _ _ _ Hb1) Hlen1) as (P1 & P2 & P3 & P4 & P5 & P6 & P7 & P8 & P9 & P10 & P11).
  change (put s0 (d_t1 (decode w))) with (puts s0 [d_t1 (decode w)]).
  apply (wrap_code c s g w _ _ cSpecial HL Hc).
  - split; [exact R1|intros _; exact R2].
  - rewrite R3. reflexivity.
  - rewrite P9. reflexivity.
  - rewrite P10. reflexivity.
Qed.

(* preamble address codes: the row is fresh *)
Lemma process_pac_pop c d : c_style c = sPopOn ->
  process_pac c d = sync_acur (with_attrs (with_buf c (set_cursor_at (c_buf c) (d_row d) (d_indent d))) (d_color d) (d_italic d) (d_under d)).
Proof. intros H. unfold process_pac. rewrite H. reflexivity. Qed.
Lemma elt_ok_new pen r i col : elt_ok pen (line_new r i) text_new col.
Proof. split; [reflexivity|]. split; [left; split; [reflexivity|constructor]|]. intros _. left. reflexivity. Qed.
Lemma step_pop_pac c s g w : Rpop c s g -> d_chan (decode w) = 1 -> is_second_copy s w = false ->
  d_cls (decode w) = cPac -> in_rows (d_row (decode w)) -> (d_indent (decode w) = -1 \/ 0 <= d_indent (decode w) <= 28) ->
  ~ In (d_row (decode w)) (g_un g) ->
  Rpop (step c w) (feed dev0 s w) (mkG true (d_row (decode w) :: g_un g) (g_ud g)).
Proof.
  intros [[Hb Hp] HL] Hc Hd Hcls Hrow Hind Hfresh.
  rewrite (step_code c w (r_err _ _ _ Hb) (not_dup_code c s w HL Hc Hd) Hc), (feed_act s w Hc Hd). cbv zeta.
  unfold act. rewrite Hcls. cbn [Z.eqb cPac cMidRow Pos.eqb].
  set (d := decode w) in *. set (c1 := code_ctx c). set (s0 := set_chan (set_last s (Some (value w))) 1).
  assert (Hb1 : Rbase c1 s0 g) by (apply (Rbase_same c s g); try reflexivity; exact Hb).
  pose proof Hb1 as [A B C D E F G].
  rewrite (process_pac_pop c1 d B). unfold pac. rewrite C.
  set (ind0 := if d_indent d =? -1 then 0 else d_indent d).
  assert (Hind0 : 0 <= ind0 <= 28) by (unfold ind0; destruct Hind as [->|H]; [cbn; lia|destruct (d_indent d =? -1); lia]).
  destruct (para_mem_at_fresh (c_buf c1) (nond s0) (g_un g) (d_row d) ind0 F Hfresh Hrow ltac:(lia))
    as (r0 & l0 & Q1 & Q2 & Q3 & Q4 & Q5 & Q6).
  rewrite (set_cursor_at_fresh (c_buf c1) r0 l0 (d_row d) (d_indent d) Q1 Q2 Q3 Q4). fold ind0.
  match goal with |- context [sync_acur ?x] => destruct (sync_acur_proj x) as (S1 & S2 & S3 & S4 & S5 & S6 & S7 & S8); set (c' := sync_acur x) in * end.
  cbn [c_err c_style c_color c_italic c_under c_buf c_act c_chan with_buf with_attrs] in S1, S2, S3, S4, S5, S6, S7, S8.
  apply (wrap_code c s _ w _ _ cPac HL Hc).
  - split.
    + split.
      * rewrite S1. exact A.
      * rewrite S2. exact B.
      * exact C.
      * unfold pen_of. rewrite S3, S4, S5. reflexivity.
      * exact E.
      * rewrite S6. exact Q5.
      * rewrite S7. exact G.
    + intros _. split; [exact Hrow|]. split; [cbn [ccol set_pos]; lia|].
      exists (line_new (d_row d) ind0), [], text_new. rewrite S6. split; [exact Q6|apply elt_ok_new].
  - rewrite S8. reflexivity.
  - reflexivity.
  - reflexivity.
Qed.

(* mid-row codes *)
Definition mid_para (p : para) (und prev : bool) : para :=
  if prev then new_caption_text (append_text p [32])
  else if negb (is_nil (t_text (cur_text p)))
  then (if negb und then append_text (new_caption_text p) [32] else new_caption_text (append_text p [32]))
  else append_text p [32].
Lemma process_mid_row_pop c d : c_style c = sPopOn -> p_style (mid_para (c_buf c) (d_under d) (c_prev_type c =? cMidRow)) = sPopOn ->
  process_mid_row c d = with_attrs (with_buf c (mid_para (c_buf c) (d_under d) (c_prev_type c =? cMidRow)))
                                   (if d_color d =? -1 then c_color c else d_color d) (d_italic d) (d_under d).
Proof.
  intros Hs Hst. unfold process_mid_row. unfold cap_to_process, upd_cap. destruct (c_prev_type c =? cMidRow) eqn:Hp; cbn [negb].
  - cbn [c_style with_attrs]. rewrite Hs. change (sPopOn =? sPopOn) with true. cbv iota. unfold mid_para in *.
    cbn [c_style with_attrs with_buf c_buf]. rewrite Hs. change (sPopOn =? sPopOn) with true. cbv iota.
    cbn [c_buf with_buf with_attrs] in *. rewrite Hst. change (sPopOn =? sPaintOn) with false. cbv iota. destruct c; reflexivity.
  - rewrite Hs. change (sPopOn =? sPopOn) with true. change (sPopOn =? sPaintOn) with false. cbn [andb]. cbv iota.
    unfold mid_para in *.
    destruct (negb (is_nil (t_text (cur_text (c_buf c))))); [destruct (negb (d_under d))|];
      cbn [c_style with_attrs with_buf c_buf]; rewrite Hs; change (sPopOn =? sPopOn) with true; cbv iota;
      cbn [c_buf with_buf] in *; rewrite Hst; reflexivity.
Qed.
Lemma cur_text_at p r col l ts t : para_at p r col l ts t -> cur_text p = t.
Proof.
  intros (Hc & Hg & (E1 & E2 & _) & _). unfold cur_text. rewrite (cur_line_at p r l Hc Hg). unfold line_cur_text. rewrite E1, E2. apply nth_last.
Qed.
(* what the mid-row code does to the caption under the cursor *)
Lemma para_mid {st} p m u r col l ts t und prev pen f : @para_mem st p m u -> para_at p r col l ts t -> in_rows r -> 0 <= col -> col + 1 <= 31 ->
  mem_wf m -> is_blank (f 32) = true -> (t_text t = [] -> t_sty t = ts0) ->
  @para_mem st (mid_para p und prev) (write_cells m r col f [32]) u /\
  (forall r0, r0 <> r -> dget r0 (p_lines (mid_para p und prev)) = dget r0 (p_lines p)) /\
  exists l2 ts2 t2, para_at (mid_para p und prev) r (col + 1) l2 ts2 t2 /\ elt_ok pen l2 t2 (col + 1).
Proof.
  intros Hpm Hat Hin Hcol Hlen Hwf Hf He1. unfold mid_para. rewrite (cur_text_at p r col l ts t Hat).
  assert (Hrow1 : forall q x y r0, r0 <> r -> dget r0 (p_lines (set_cursor (put_line q r x) y)) = dget r0 (p_lines q)).
  { intros q x y r0 Hne. cbn [p_lines set_cursor]. rewrite dget_put_line. replace (r0 =? r) with false by lia. reflexivity. }
  assert (Hrow2 : forall q x r0, r0 <> r -> dget r0 (p_lines (put_line q r x)) = dget r0 (p_lines q)).
  { intros q x r0 Hne. rewrite dget_put_line. replace (r0 =? r) with false by lia. reflexivity. }
  destruct prev.
  { (* directly after another mid-row code: the space goes into the current text element, a new one follows *)
    destruct (para_space p m u r col l ts t f Hpm Hat Hin Hcol Hlen Hwf Hf) as (Q1 & Q2 & Q3 & Q4). rewrite Q1.
    destruct (para_newtext _ _ u r (col + 1) _ ts _ Q2 Q3 Hin) as (N1 & N2 & N3 & N4 & N5). rewrite N1.
    split; [exact N2|]. split; [intros r0 Hne; rewrite Hrow2, Hrow1 by exact Hne; reflexivity|].
    eexists _, _, _. split; [exact N3|]. split; [reflexivity|]. split; [left; split; [reflexivity|constructor]|].
    intros _. right. rewrite N4. replace (col + 1 - 1) with col by lia. exact Q4. }
  destruct (t_text t) as [|ch tx] eqn:Et; cbn [is_nil negb].
  - (* the current text is empty: the space goes into it *)
    destruct (para_space p m u r col l ts t f Hpm Hat Hin Hcol Hlen Hwf Hf) as (Q1 & Q2 & Q3 & Q4). rewrite Q1.
    split; [exact Q2|]. split; [intros r0 Hne; now apply Hrow1|]. eexists _, ts, _. split; [exact Q3|]. split; [|split].
    + cbn. rewrite Et. discriminate.
    + left. cbn [t_sty t_text text_app]. split; [now apply He1|]. rewrite Et. repeat constructor.
    + cbn. rewrite Et. discriminate.
  - destruct und; cbn [negb].
    + (* underlined: the space stays in the old text element, a new one follows *)
      destruct (para_space p m u r col l ts t f Hpm Hat Hin Hcol Hlen Hwf Hf) as (Q1 & Q2 & Q3 & Q4). rewrite Q1.
      destruct (para_newtext _ _ u r (col + 1) _ ts _ Q2 Q3 Hin) as (N1 & N2 & N3 & N4 & N5). rewrite N1.
      split; [exact N2|]. split; [intros r0 Hne; rewrite Hrow2, Hrow1 by exact Hne; reflexivity|].
      eexists _, _, _. split; [exact N3|]. split; [reflexivity|]. split; [left; split; [reflexivity|constructor]|].
      intros _. right. rewrite N4. replace (col + 1 - 1) with col by lia. exact Q4.
    + (* otherwise the space opens the new text element *)
      destruct (para_newtext p m u r col l ts t Hpm Hat Hin) as (N1 & N2 & N3 & N4 & N5). rewrite N1.
      destruct (para_space _ m u r col _ (ts ++ [t]) text_new f N2 N3 Hin Hcol Hlen Hwf Hf) as (Q1 & Q2 & Q3 & Q4). rewrite Q1.
      split; [exact Q2|]. split; [intros r0 Hne; rewrite Hrow1, Hrow2 by exact Hne; reflexivity|].
      eexists _, _, _. split; [exact Q3|]. split; [discriminate|]. split; [left; split; [reflexivity|repeat constructor]|discriminate].
Qed.
Lemma step_pop_midrow c s g w : Rpop c s g -> d_chan (decode w) = 1 -> is_second_copy s w = false ->
  d_cls (decode w) = cMidRow -> g_pos g = true -> ccol s + 1 <= 31 ->
  (if d_italic (decode w) then d_color (decode w) =? -1 else negb (d_color (decode w) =? -1)) = true ->
  Rpop (step c w) (feed dev0 s w) g.
Proof.
  intros [[Hb Hp] HL] Hc Hd Hcls Hg Hlen Htab.
  rewrite (step_code c w (r_err _ _ _ Hb) (not_dup_code c s w HL Hc Hd) Hc), (feed_act s w Hc Hd). cbv zeta.
  unfold act. rewrite Hcls. cbn [Z.eqb cPac cMidRow cAttr Pos.eqb].
  set (d := decode w) in *. set (c1 := code_ctx c). set (s0 := set_chan (set_last s (Some (value w))) 1).
  assert (Hb1 : Rbase c1 s0 g) by (apply (Rbase_same c s g); try reflexivity; exact Hb).
  assert (Hp1 : Rposn c1 s0) by (apply (Rposn_same c s); try reflexivity; exact (Hp Hg)).
  pose proof Hb1 as [A B C D E F G]. destruct Hp1 as (Hrow & Hcol & l & ts & t & Hat & (He1 & He2 & He5)).
  assert (Hlen1 : ccol s0 + zlen [32] <= 31) by (unfold zlen; cbn; exact Hlen).
  destruct (puts_proj s0 [32] C Hlen1) as (P1 & P2 & P3 & P4 & P5 & P6 & P7 & P8 & P9 & P10 & P11).
  set (newpen := penview (if d_color d =? -1 then c_color c1 else d_color d) (d_italic d) (d_under d)).
  destruct (para_mid (c_buf c1) (nond s0) (g_un g) (crow s0) (ccol s0) l ts t (d_under d) (c_prev_type c1 =? cMidRow) newpen (pen_cell s0)
              F Hat Hrow (proj1 Hcol) Hlen (proj2 E) eq_refl He1) as (M1 & _ & l2 & ts2 & t2 & M2 & M3).
  rewrite (process_mid_row_pop c1 d B (pm_style _ _ _ M1)).
  unfold midrow. change (put s0 32) with (puts s0 [32]).
  assert (Hpen : newpen = (if d_italic d then pcol (puts s0 [32]) else d_color d, d_italic d, d_under d)).
  { unfold pen_of, penview in D. injection D as D1 D2 D3. rewrite P2. unfold newpen.
    destruct (d_italic d).
    - rewrite Htab. unfold penview. change (c_color c1) with (c_color c). rewrite D1. reflexivity.
    - destruct (d_color d =? -1) eqn:E1; [discriminate Htab|]. unfold penview. rewrite E1. reflexivity. }
  match goal with |- Rpop _ (set_pmid ?s1 _) _ =>
    assert (Es1 : md s1 = PopOn /\ (pcol s1, pita s1, pund s1) = newpen /\ disp s1 = disp s0 /\ nond s1 = nond (puts s0 [32]) /\
                  crow s1 = crow s0 /\ ccol s1 = ccol s0 + 1 /\ last s1 = last s0 /\ chan s1 = chan s0)
  end.
  { rewrite Hpen. destruct (d_italic d); repeat split; try assumption; try reflexivity. }
  destruct Es1 as (T1 & T2 & T3 & T4 & T5 & T6 & T7 & T8).
  apply (wrap_code c s g w _ _ cMidRow HL Hc).
  - split.
    + split; try assumption.
      * unfold pen_of. cbn [c_color c_italic c_under with_attrs]. rewrite T2. reflexivity.
      * unfold scr_wf. rewrite T3, T4, P8. destruct E as [E1 E2]. split; [exact E1|now apply write_cells_wf].
      * cbn [c_buf with_attrs with_buf]. rewrite T4, P8. exact M1.
      * cbn [c_act with_attrs with_buf]. rewrite T3. exact G.
    + assert (Hlen0 : ccol s0 + 1 <= 31) by exact Hlen.
      intros _. split; [rewrite T5; exact Hrow|]. split; [rewrite T6; lia|].
      exists l2, ts2, t2. cbn [c_buf with_attrs with_buf]. rewrite T5, T6. split; [exact M2|exact M3].
  - reflexivity.
  - rewrite T7. reflexivity.
  - rewrite T8. reflexivity.
Qed.

(* ---- miscellaneous control codes ---- *)
Lemma step_control c w : c_err c = false -> is_dup c w = false -> d_chan (decode w) = 1 -> d_cls (decode w) = cControl ->
  step c w = with_prev (with_prev_type (process_control (code_ctx c) (d_code (decode w))) cControl) (Some (value w)).
Proof. intros He Hd Hc Hcls. rewrite (step_code c w He Hd Hc). cbv zeta. rewrite Hcls. reflexivity. Qed.
Lemma feed_control s w : d_chan (decode w) = 1 -> is_second_copy s w = false -> d_cls (decode w) = cControl ->
  feed dev0 s w = set_pmid (control dev0 (set_chan (set_last s (Some (value w))) 1) (d_code (decode w))) (cControl =? cMidRow).
Proof. intros Hc Hd Hcls. rewrite (feed_act s w Hc Hd). unfold act. rewrite Hcls. reflexivity. Qed.

(* RCL, and the codes neither side acts upon *)
Lemma step_pop_rcl c s g w : Rpop c s g -> d_chan (decode w) = 1 -> is_second_copy s w = false ->
  d_cls (decode w) = cControl -> d_code (decode w) = kRCL -> Rpop (step c w) (feed dev0 s w) g.
Proof.
  intros [[Hb Hp] HL] Hc Hd Hcls Hk.
  rewrite (step_control c w (r_err _ _ _ Hb) (not_dup_code c s w HL Hc Hd) Hc Hcls), (feed_control s w Hc Hd Hcls), Hk.
  apply (wrap_code c s g w _ _ cControl HL Hc); try reflexivity.
  apply (Rcore_same c s g); try reflexivity; [split; assumption| |].
  - cbn. symmetry. exact (r_style _ _ _ Hb).
  - cbn. symmetry. exact (r_md _ _ _ Hb).
Qed.
Definition ignored_code (k : Z) : bool :=
  negb ((k =? kRCL) || (k =? kENM) || (k =? kEDM) || (k =? kEOC) || ((kTO1 <=? k) && (k <=? kTO1 + 2)) || (k =? kDER) ||
        (k =? kBS) || (k =? kCR) || (k =? kRDC) || ((kRU2 <=? k) && (k <=? kRU4))).
Lemma step_pop_ignored c s g w : Rpop c s g -> d_chan (decode w) = 1 -> is_second_copy s w = false ->
  d_cls (decode w) = cControl -> ignored_code (d_code (decode w)) = true -> Rpop (step c w) (feed dev0 s w) g.
Proof.
  intros [[Hb Hp] HL] Hc Hd Hcls Hk.
  rewrite (step_control c w (r_err _ _ _ Hb) (not_dup_code c s w HL Hc Hd) Hc Hcls), (feed_control s w Hc Hd Hcls).
  set (k := d_code (decode w)) in *. unfold ignored_code in Hk.
  unfold kRCL, kENM, kEDM, kEOC, kTO1, kDER, kBS, kCR, kRDC, kRU2, kRU4 in Hk.
  assert (Em : process_control (code_ctx c) k = code_ctx c).
  { unfold process_control, Model.SccReader.kRCL, Model.SccReader.kRDC, Model.SccReader.kRU2, Model.SccReader.kRU3, Model.SccReader.kRU4,
      Model.SccReader.kEOC, Model.SccReader.kEDM, Model.SccReader.kENM, Model.SccReader.kTO1, Model.SccReader.kTO2, Model.SccReader.kTO3,
      Model.SccReader.kCR, Model.SccReader.kDER, Model.SccReader.kBS.
    replace (k =? 0) with false by lia. replace (k =? 9) with false by lia.
    replace ((k =? 5) || (k =? 6) || (k =? 7)) with false by lia. replace (k =? 15) with false by lia.
    replace (k =? 12) with false by lia. replace (k =? 14) with false by lia.
    replace ((k =? 16) || (k =? 17) || (k =? 18)) with false by lia. replace (k =? 13) with false by lia.
    replace (k =? 4) with false by lia. replace (k =? 1) with false by lia. reflexivity. }
  assert (Es : forall s0, control dev0 s0 k = s0).
  { intros s0. unfold control, kRCL, kRDC, kRU2, kRU4, kCR, kBS, kDER, kEDM, kENM, kEOC, kTO1.
    replace (k =? 0) with false by lia. replace (k =? 9) with false by lia.
    replace ((5 <=? k) && (k <=? 7)) with false by lia. replace (k =? 13) with false by lia.
    replace (k =? 1) with false by lia. replace (k =? 4) with false by lia. replace (k =? 12) with false by lia.
    replace (k =? 14) with false by lia. replace (k =? 15) with false by lia.
    replace ((16 <=? k) && (k <=? 16 + 2)) with false by lia. reflexivity. }
  rewrite Em, Es.
  apply (wrap_code c s g w _ _ cControl HL Hc); try reflexivity.
  apply (Rcore_same c s g); try reflexivity. split; assumption.
Qed.

(* ENM: the buffered caption / non-displayed memory is erased *)
Lemma step_pop_enm c s g w : Rpop c s g -> d_chan (decode w) = 1 -> is_second_copy s w = false ->
  d_cls (decode w) = cControl -> d_code (decode w) = kENM -> Rpop (step c w) (feed dev0 s w) (mkG false [] (g_ud g)).
Proof.
  intros [[Hb Hp] HL] Hc Hd Hcls Hk.
  rewrite (step_control c w (r_err _ _ _ Hb) (not_dup_code c s w HL Hc Hd) Hc Hcls), (feed_control s w Hc Hd Hcls), Hk.
  apply (wrap_code c s _ w _ _ cControl HL Hc); try reflexivity.
  destruct Hb as [A B C D E F G]. split; [|discriminate]. split; try assumption.
  - destruct E as [E1 E2]. split; [exact E1|apply mem_wf_mem0].
  - apply para_mem_new. intros r k. cbn. rewrite mcell_mem0. reflexivity.
Qed.

(* EDM: the displayed caption is ended and nothing is displayed any more *)
Lemma push_active_proj c e cl : c_err (push_active c e cl) = c_err c /\ c_style (push_active c e cl) = c_style c /\
  c_color (push_active c e cl) = c_color c /\ c_italic (push_active c e cl) = c_italic c /\ c_under (push_active c e cl) = c_under c /\
  c_buf (push_active c e cl) = c_buf c /\ c_chan (push_active c e cl) = c_chan c.
Proof.
  unfold push_active. destruct (c_act c); [|repeat split]. destruct (para_is_empty _); [repeat split|].
  destruct (to_paragraph _ _). repeat split.
Qed.
Lemma step_pop_edm c s g w : Rpop c s g -> d_chan (decode w) = 1 -> is_second_copy s w = false ->
  d_cls (decode w) = cControl -> d_code (decode w) = kEDM -> Rpop (step c w) (feed dev0 s w) (mkG (g_pos g) (g_un g) []).
Proof.
  intros [[Hb Hp] HL] Hc Hd Hcls Hk.
  rewrite (step_control c w (r_err _ _ _ Hb) (not_dup_code c s w HL Hc Hd) Hc Hcls), (feed_control s w Hc Hd Hcls), Hk.
  set (c1 := code_ctx c). set (s0 := set_chan (set_last s (Some (value w))) 1).
  assert (Epc : process_control c1 kEDM = match c_act c1 with Some _ => push_active c1 (Some (tc_next (c_tc c1))) true | None => c1 end) by reflexivity.
  rewrite Epc. change (control dev0 s0 kEDM) with (set_disp s0 mem0).
  set (X := match c_act c1 with Some _ => _ | None => c1 end).
  assert (HX : c_err X = c_err c /\ c_style X = c_style c /\ c_color X = c_color c /\ c_italic X = c_italic c /\ c_under X = c_under c /\
               c_buf X = c_buf c /\ c_chan X = 1 /\ c_act X = None).
  { unfold X. destruct (c_act c1) eqn:Ea.
    - destruct (push_active_proj c1 (Some (tc_next (c_tc c1))) true) as (Q1 & Q2 & Q3 & Q4 & Q5 & Q6 & Q7).
      rewrite Q1, Q2, Q3, Q4, Q5, Q6, Q7. repeat split. apply act_push_active_clear.
    - repeat split. exact Ea. }
  destruct HX as (X1 & X2 & X3 & X4 & X5 & X6 & X7 & X8).
  apply (wrap_code c s _ w _ _ cControl HL Hc); try reflexivity; [|exact X7].
  destruct Hb as [A B C D E F G]. split.
  - split.
    + now rewrite X1.
    + now rewrite X2.
    + exact C.
    + unfold pen_of. rewrite X3, X4, X5. exact D.
    + destruct E as [E1 E2]. split; [apply mem_wf_mem0|exact E2].
    + rewrite X6. exact F.
    + rewrite X8. intros r k. cbn. rewrite mcell_mem0. reflexivity.
  - intros Hg. apply (Rposn_same c s); try assumption; try reflexivity. exact (Hp Hg).
Qed.

(* EOC: the two captions / memories are exchanged *)
Lemma flip_proj c t :
  (exists b, c_act (flip c t) = Some b /\ p_lines b = p_lines (c_buf c) /\ p_cur b = p_cur (c_buf c) /\ p_style b = p_style (c_buf c)) /\
  c_buf (flip c t) = match c_act c with Some a => set_end a (Some t) | None => para_new sPopOn end /\
  c_err (flip c t) = c_err c /\ c_style (flip c t) = c_style c /\ c_color (flip c t) = c_color c /\
  c_italic (flip c t) = c_italic c /\ c_under (flip c t) = c_under c /\ c_chan (flip c t) = c_chan c.
Proof.
  unfold flip. destruct (push_active_proj c (Some t) true) as (Q1 & Q2 & Q3 & Q4 & Q5 & Q6 & Q7).
  set (c1 := push_active c (Some t) true) in *. clearbody c1.
  destruct (p_id (c_buf c1)) eqn:Ei; destruct (c_act c) eqn:Ea; cbn; rewrite ?Q1, ?Q2, ?Q3, ?Q4, ?Q5, ?Q6, ?Q7;
    (split; [eexists; split; [reflexivity|]; cbn; rewrite ?Q6; repeat split|repeat split]).
Qed.
Lemma step_pop_eoc c s g w : Rpop c s g -> d_chan (decode w) = 1 -> is_second_copy s w = false ->
  d_cls (decode w) = cControl -> d_code (decode w) = kEOC -> Rpop (step c w) (feed dev0 s w) (mkG false (g_ud g) (g_un g)).
Proof.
  intros [[Hb Hp] HL] Hc Hd Hcls Hk.
  rewrite (step_control c w (r_err _ _ _ Hb) (not_dup_code c s w HL Hc Hd) Hc Hcls), (feed_control s w Hc Hd Hcls), Hk.
  set (c1 := code_ctx c). set (s0 := set_chan (set_last s (Some (value w))) 1).
  set (t := c_tc c1). set (c2 := with_buf c1 (set_begin (c_buf c1) (Some t))).
  assert (Epc : exists f, process_control c1 kEOC = upd_act (flip c2 t) f /\ forall a, p_lines (f a) = p_lines a /\ p_cur (f a) = p_cur a /\ p_style (f a) = p_style a).
  { eexists. split; [reflexivity|]. intros a. repeat split. }
  destruct Epc as (f & Epc & Hf). rewrite Epc.
  change (control dev0 s0 kEOC) with (set_md (set_nond (set_disp s0 (nond s0)) (disp s0)) PopOn).
  destruct (flip_proj c2 t) as ((b & F1 & F2 & F3 & F4) & F5 & F6 & F7 & F8 & F9 & F10 & F11).
  assert (HX : c_act (upd_act (flip c2 t) f) = Some (f b) /\ c_buf (upd_act (flip c2 t) f) = c_buf (flip c2 t) /\
               c_err (upd_act (flip c2 t) f) = c_err (flip c2 t) /\ c_style (upd_act (flip c2 t) f) = c_style (flip c2 t) /\
               c_color (upd_act (flip c2 t) f) = c_color (flip c2 t) /\ c_italic (upd_act (flip c2 t) f) = c_italic (flip c2 t) /\
               c_under (upd_act (flip c2 t) f) = c_under (flip c2 t) /\ c_chan (upd_act (flip c2 t) f) = c_chan (flip c2 t)).
  { unfold upd_act. rewrite F1. repeat split. }
  destruct HX as (X1 & X2 & X3 & X4 & X5 & X6 & X7 & X8).
  apply (wrap_code c s _ w _ _ cControl HL Hc); try reflexivity; [|rewrite X8, F11; reflexivity].
  destruct Hb as [A B C D E F G]. split; [|discriminate]. split.
  - rewrite X3, F6. exact A.
  - rewrite X4, F7. exact B.
  - reflexivity.
  - unfold pen_of. rewrite X5, X6, X7, F8, F9, F10. exact D.
  - destruct E as [E1 E2]. split; assumption.
  - rewrite X2, F5. cbn [nond set_md set_nond g_un]. change (c_act c2) with (c_act c). change (disp s0) with (disp s).
    destruct (c_act c) as [a|] eqn:Ea.
    + apply (para_mem_meta a); try reflexivity. exact G.
    + apply para_mem_new. exact G.
  - rewrite X1. cbn [disp set_md set_nond set_disp g_ud]. change (nond s0) with (nond s).
    destruct (Hf b) as (G1 & G2 & G3).
    apply (para_mem_meta (c_buf c)); [exact F|rewrite G1, F2; reflexivity|rewrite G2, F3; reflexivity|rewrite G3, F4; reflexivity].
Qed.

(* tab offsets *)
Lemma step_pop_to c s g w : Rpop c s g -> d_chan (decode w) = 1 -> is_second_copy s w = false ->
  d_cls (decode w) = cControl -> kTO1 <= d_code (decode w) <= kTO1 + 2 -> g_pos g = true ->
  ccol s + (d_code (decode w) - kTO1 + 1) <= 31 -> Rpop (step c w) (feed dev0 s w) g.
Proof.
  intros [[Hb Hp] HL] Hc Hd Hcls Hk Hg Hlen.
  rewrite (step_control c w (r_err _ _ _ Hb) (not_dup_code c s w HL Hc Hd) Hc Hcls), (feed_control s w Hc Hd Hcls).
  set (k := d_code (decode w)) in *. set (n := k - kTO1 + 1) in *. unfold kTO1 in Hk, n.
  set (c1 := code_ctx c). set (s0 := set_chan (set_last s (Some (value w))) 1).
  assert (Hb1 : Rbase c1 s0 g) by (apply (Rbase_same c s g); try reflexivity; exact Hb).
  assert (Hp1 : Rposn c1 s0) by (apply (Rposn_same c s); try reflexivity; exact (Hp Hg)).
  pose proof Hb1 as [A B C D E F G]. destruct Hp1 as (Hrow & Hcol & l & ts & t & Hat & (He1 & He2 & He5)).
  assert (Em : process_control c1 k = with_buf c1 (indent_cursor (c_buf c1) n)).
  { unfold process_control, Model.SccReader.kRCL, Model.SccReader.kRDC, Model.SccReader.kRU2, Model.SccReader.kRU3, Model.SccReader.kRU4,
      Model.SccReader.kEOC, Model.SccReader.kEDM, Model.SccReader.kENM, Model.SccReader.kTO1, Model.SccReader.kTO2, Model.SccReader.kTO3.
    replace (k =? 0) with false by lia. replace (k =? 9) with false by lia.
    replace ((k =? 5) || (k =? 6) || (k =? 7)) with false by lia. replace (k =? 15) with false by lia.
    replace (k =? 12) with false by lia. replace (k =? 14) with false by lia.
    replace ((k =? 16) || (k =? 17) || (k =? 18)) with true by lia.
    unfold cap_to_process, upd_cap. rewrite B. reflexivity. }
  assert (Es : control dev0 s0 k = set_pos s0 (crow s0) (ccol s0 + n)).
  { unfold control, kRCL, kRDC, kRU2, kRU4, kCR, kBS, kDER, kEDM, kENM, kEOC, kTO1.
    replace (k =? 0) with false by lia. replace (k =? 9) with false by lia.
    replace ((5 <=? k) && (k <=? 7)) with false by lia. replace (k =? 13) with false by lia.
    replace (k =? 1) with false by lia. replace (k =? 4) with false by lia. replace (k =? 12) with false by lia.
    replace (k =? 14) with false by lia. replace (k =? 15) with false by lia.
    replace ((16 <=? k) && (k <=? 16 + 2)) with true by lia. f_equal.
    change (ccol s0) with (ccol s). fold n. unfold n. lia. }
  rewrite Em, Es.
  assert (Hn : 0 < n) by (unfold n; lia). assert (Hlen0 : ccol s0 + n <= 31) by exact Hlen.
  destruct (para_tab (c_buf c1) (nond s0) (g_un g) (crow s0) (ccol s0) l ts t n (pen_of c1) F Hat Hrow Hn Hlen0 He1 He2 He5)
    as (T1 & _ & l2 & ts2 & t2 & T2 & T3 & T4 & T5).
  apply (wrap_code c s g w _ _ cControl HL Hc); try reflexivity.
  split.
  - split; try assumption.
  - intros _. split; [exact Hrow|]. split; [cbn [ccol set_pos]; lia|].
    exists l2, ts2, t2. split; [exact T2|]. split; [exact T3|split; [exact T4|exact T5]].
Qed.

(* Delete to End of Row: nothing is displayed to the right of the cursor *)
Lemma mcell_der m r k r' c' : mem_wf m -> in_rows r -> 0 <= k -> 0 <= c' ->
  mcell (row_set m r (blank_from (Z.to_nat k) (row_get m r))) r' c' = if (r' =? r) && (k <=? c') then blank else mcell m r' c'.
Proof.
  intros Hw Hr Hk Hc. unfold mcell. rewrite row_get_row_set by assumption. destruct (r' =? r) eqn:E; [|reflexivity].
  assert (r' = r) by lia. subst r'. cbn [andb]. rewrite nth_blank_from.
  destruct (Nat.ltb (Z.to_nat c') (Z.to_nat k)) eqn:E2.
  - apply Nat.ltb_lt in E2. replace (k <=? c') with false by lia. reflexivity.
  - apply Nat.ltb_ge in E2. replace (k <=? c') with true by lia. reflexivity.
Qed.
Lemma step_pop_der c s g w : Rpop c s g -> d_chan (decode w) = 1 -> is_second_copy s w = false ->
  d_cls (decode w) = cControl -> d_code (decode w) = kDER -> g_pos g = true -> Rpop (step c w) (feed dev0 s w) g.
Proof.
  intros [[Hb Hp] HL] Hc Hd Hcls Hk Hg.
  rewrite (step_control c w (r_err _ _ _ Hb) (not_dup_code c s w HL Hc Hd) Hc Hcls), (feed_control s w Hc Hd Hcls), Hk.
  set (c1 := code_ctx c). set (s0 := set_chan (set_last s (Some (value w))) 1).
  assert (Hb1 : Rbase c1 s0 g) by (apply (Rbase_same c s g); try reflexivity; exact Hb).
  assert (Hp1 : Rposn c1 s0) by (apply (Rposn_same c s); try reflexivity; exact (Hp Hg)).
  pose proof Hb1 as [A B C D E F G]. pose proof Hp1 as (Hrow & Hcol & l & ts & t & Hat & Helt).
  pose proof Hat as (Hcu & Hge & Hl & Hr & Hcur & Hcoleq).
  assert (Em : process_control c1 kDER = c1).
  { change (process_control c1 kDER) with (match cap_to_process c1 with None => c1 | Some _ => upd_cap c1 (fun p => upd_cur_line p line_delete_to_end) end).
    unfold cap_to_process, upd_cap. rewrite B. change (sPopOn =? sPopOn) with true. cbv iota.
    rewrite (upd_cur_line_at (c_buf c1) _ l _ Hcu Hge), (line_delete_to_end_at l ts t Hl), (put_line_same _ _ _ Hge).
    unfold c1, code_ctx. destruct c; reflexivity. }
  assert (Es : control dev0 s0 kDER = set_nond s0 (row_set (nond s0) (crow s0) (blank_from (Z.to_nat (ccol s0)) (row_get (nond s0) (crow s0))))).
  { change (control dev0 s0 kDER) with (set_cur_mem s0 (row_set (cur_mem s0) (crow s0) (blank_from (Z.to_nat (ccol s0)) (row_get (cur_mem s0) (crow s0))))).
    unfold set_cur_mem, cur_mem. rewrite C. reflexivity. }
  rewrite Em, Es.
  set (m' := row_set (nond s0) (crow s0) _).
  assert (Hm' : forall r' c', in_rows r' -> in_cols c' -> ceqv (mcell m' r' c') (mcell (nond s0) r' c')).
  { intros r' c' Hr' Hc'. unfold m'. rewrite mcell_der; [|exact (proj2 E)|exact Hrow|lia|unfold in_cols in Hc'; lia].
    destruct ((r' =? crow s0) && (ccol s0 <=? c')) eqn:E1; [|apply ceqv_refl].
    assert (r' = crow s0) by lia. subst r'. apply ceqv_blank; [reflexivity|].
    destruct (para_at_row _ _ _ _ _ _ _ _ F Hat Hrow) as (_ & _ & _ & Hold).
    apply (ceqv_blank_l _ (lcell l c')); [apply Hold; exact Hc'|]. rewrite lcell_beyond by lia. reflexivity. }
  apply (wrap_code c s g w _ _ cControl HL Hc); try reflexivity.
  split.
  - split; try assumption.
    + destruct E as [E1 E2]. split; [exact E1|]. cbn [nond set_nond]. unfold m'. apply mem_wf_row_set; [exact E2|].
      rewrite blank_from_length. now apply row_get_length.
    + cbn [nond set_nond]. apply (para_mem_eqv _ _ _ _ F Hm').
  - intros _. exact Hp1.
Qed.

(* ---- extended characters: backspace, then the character ---- *)
Lemma backspace_pop c : c_style c = sPopOn -> backspace c = with_buf c (para_backspace (c_buf c)).
Proof. intros H. unfold backspace, cap_to_process, upd_cap. rewrite H. reflexivity. Qed.
Lemma all_spaces_removelast t tx : all_spaces t -> Forall (fun ch => ch = 32) tx -> tx = removelast (t_text t) -> True.
Proof. trivial. Qed.
Lemma Forall_removelast {A} (P : A -> Prop) l : Forall P l -> Forall P (removelast l).
Proof. induction 1 as [|x l Hx Hl IH]; cbn; [constructor|]. destruct l; [constructor|]. constructor; assumption. Qed.
Lemma core_back c s g : Rbase c s g -> Rposn c s -> 1 <= ccol s -> is_blank (mcell (nond s) (crow s) (ccol s - 1)) = false ->
  Rbase (backspace c) (back s) g /\ Rposn_w (backspace c) (back s) /\ c_chan (backspace c) = c_chan c /\
  last (back s) = last s /\ chan (back s) = chan s /\ ccol (back s) = ccol s - 1.
Proof.
  intros Hb (Hrow & Hcol & l & ts & t & Hat & (He1 & He2 & He5)) Hc1 Hnb.
  pose proof Hb as [A B C D E F G].
  rewrite (backspace_pop c B). rewrite (back_pop s C) by lia.
  destruct (para_at_row _ _ _ _ _ _ _ _ F Hat Hrow) as (_ & _ & _ & Hold).
  assert (Hne : t_text t <> []).
  { intros H0. assert (Hcc : in_cols (ccol s - 1)) by (unfold in_cols; lia).
    pose proof (Hold (ccol s - 1) Hcc) as Hq. destruct (He5 H0) as [H5|H5].
    - rewrite lcell_empty in Hq by exact H5. pose proof (ceqv_blank_l _ _ Hq eq_refl). congruence.
    - pose proof (ceqv_blank_l _ _ Hq H5). congruence. }
  destruct (para_back (c_buf c) (nond s) (g_un g) (crow s) (ccol s) l ts t F Hat Hrow Hne (proj2 E) ltac:(lia)) as (Q1 & _ & l2 & ts2 & t2 & Q2 & Q3).
  split; [|split; [|repeat split]].
  - split; try assumption.
    + destruct E as [E1 E2]. split; [exact E1|]. cbn [nond set_pos set_nond]. now apply mem_wf_cell_set.
  - split; [exact Hrow|]. split; [cbn [ccol set_pos]; lia|]. exists l2, ts2, t2. split; [exact Q2|].
    destruct Q3 as [[S1 S2]|[S1 S2]].
    + left. split; [exact S1|]. unfold all_spaces. rewrite S2. constructor.
    + destruct He2 as [[H1 H2]|H2].
      * left. split; [congruence|]. unfold all_spaces in *. rewrite S2. now apply Forall_removelast.
      * right. cbn [c_color c_italic c_under with_buf pen_of] in *. unfold pen_of in *. cbn [c_color c_italic c_under with_buf]. congruence.
Qed.
Lemma step_pop_extended c s g w : Rpop c s g -> d_chan (decode w) = 1 -> is_second_copy s w = false ->
  d_cls (decode w) = cExtended -> g_pos g = true -> 1 <= ccol s ->
  is_blank (mcell (nond s) (crow s) (ccol s - 1)) = false -> Rpop (step c w) (feed dev0 s w) g.
Proof.
  intros [[Hb Hp] HL] Hc Hd Hcls Hg Hc1 Hnb.
  rewrite (step_code c w (r_err _ _ _ Hb) (not_dup_code c s w HL Hc Hd) Hc), (feed_act s w Hc Hd). cbv zeta.
  unfold act. rewrite Hcls. cbn [Z.eqb cSpecial cPac cAttr cMidRow cControl cExtended Pos.eqb].
  set (c1 := code_ctx c). set (s0 := set_chan (set_last s (Some (value w))) 1).
  assert (Hb1 : Rbase c1 s0 g) by (apply (Rbase_same c s g); try reflexivity; exact Hb).
  assert (Hp1 : Rposn c1 s0) by (apply (Rposn_same c s); try reflexivity; exact (Hp Hg)).
  destruct (core_back c1 s0 g Hb1 Hp1 Hc1 Hnb) as (B1 & B2 & B3 & B4 & B5 & B6).
  assert (Hlen1 : ccol (back s0) + zlen [d_t1 (decode w)] <= 31).
  { rewrite B6. unfold zlen. cbn [length]. destruct Hp1 as (_ & Hcol & _). change (ccol s0) with (ccol s) in *. lia. }
  destruct (core_write (backspace c1) (back s0) g [d_t1 (decode w)] B1 B2 ltac:(discriminate) Hlen1) as (R1 & R2 & R3).
  destruct (puts_proj (back s0) [d_t1 (decode w)] (r_md _ _ _ B1) Hlen1) as (P1 & P2 & P3 & P4 & P5 & P6 & P7 & P8 & P9 & P10 & P11).
  change (put (back s0) (d_t1 (decode w))) with (puts (back s0) [d_t1 (decode w)]).
  apply (wrap_code c s g w _ _ cExtended HL Hc).
  - split; [exact R1|intros _; exact R2].
  - rewrite R3, B3. reflexivity.
  - rewrite P9, B4. reflexivity.
  - rewrite P10, B5. reflexivity.
Qed.

(* ---- one word, any word of the class ---- *)
Lemma step_pop c s g w g' : Rpop c s g -> pop_word s g w = Some g' -> Rpop (step c w) (feed dev0 s w) g'.
Proof.
  intros HR Hw. unfold pop_word in Hw.
  destruct (value w =? 0) eqn:Ev.
  { injection Hw as <-. apply step_pop_pad; [exact HR|lia]. }
  destruct (byte1 w <? 32) eqn:Eb.
  2:{ pose proof (byte1_range w). destruct (chan s =? 1) eqn:Ech.
      - destruct (g_pos g && (ccol s + zlen (to_text w) <=? 31)) eqn:E1; [|discriminate]. injection Hw as <-.
        apply andb_true_iff in E1 as [E1 E2]. apply step_pop_chars; try assumption; lia.
      - injection Hw as <-. apply step_pop_chars_other; try assumption; lia. }
  cbv zeta in Hw.
  destruct (d_chan (decode w) =? 2) eqn:Ec2.
  { injection Hw as <-. apply step_pop_other; try assumption; lia. }
  destruct (d_chan (decode w) =? 1) eqn:Ec1; [|discriminate]. cbn [negb] in Hw.
  assert (Hc : d_chan (decode w) = 1) by lia.
  destruct (is_second_copy s w) eqn:Ed.
  { injection Hw as <-. now apply step_pop_dup. }
  destruct (d_cls (decode w) =? cPac) eqn:Epac.
  { destruct (_ && _) eqn:E1 in Hw; [|discriminate]. injection Hw as <-.
    apply andb_true_iff in E1 as [E1 E4]. apply andb_true_iff in E1 as [E1 E3]. apply andb_true_iff in E1 as [E1 E2].
    apply step_pop_pac; try assumption; try lia.
    - unfold in_rows. lia.
    - apply inb_false. now apply negb_true_iff in E4. }
  destruct (d_cls (decode w) =? cMidRow) eqn:Emid.
  { destruct (_ && _) eqn:E1 in Hw; [|discriminate]. injection Hw as <-.
    apply andb_true_iff in E1 as [E1 E4]. apply andb_true_iff in E1 as [E1 E2].
    apply step_pop_midrow; try assumption; try lia. }
  destruct (d_cls (decode w) =? cControl) eqn:Ectl.
  { assert (Hcls : d_cls (decode w) = cControl) by lia.
    set (k := d_code (decode w)) in *.
    destruct (k =? kRCL) eqn:K1. { injection Hw as <-. apply step_pop_rcl; try assumption. fold k. lia. }
    destruct (k =? kENM) eqn:K2. { injection Hw as <-. apply step_pop_enm; try assumption. fold k. lia. }
    destruct (k =? kEDM) eqn:K3. { injection Hw as <-. apply step_pop_edm; try assumption. fold k. lia. }
    destruct (k =? kEOC) eqn:K4. { injection Hw as <-. apply step_pop_eoc; try assumption. fold k. lia. }
    destruct ((kTO1 <=? k) && (k <=? kTO1 + 2)) eqn:K5.
    { destruct (g_pos g && (ccol s + (k - kTO1 + 1) <=? 31)) eqn:E1; [|discriminate]. injection Hw as <-.
      apply andb_true_iff in E1 as [E1 E2]. apply step_pop_to; try assumption; fold k; lia. }
    destruct (k =? kDER) eqn:K6.
    { destruct (g_pos g) eqn:E1; [|discriminate]. injection Hw as <-. apply step_pop_der; try assumption. fold k. lia. }
    destruct ((k =? kBS) || (k =? kCR) || (k =? kRDC) || ((kRU2 <=? k) && (k <=? kRU4))) eqn:K7; [discriminate|].
    injection Hw as <-. apply step_pop_ignored; try assumption. fold k. unfold ignored_code.
    rewrite K1, K2, K3, K4, K5, K6. cbn [orb]. apply orb_false_iff in K7 as [K7 K10]. apply orb_false_iff in K7 as [K7 K9].
    apply orb_false_iff in K7 as [K7 K8]. rewrite K7, K8, K9, K10. reflexivity. }
  destruct (d_cls (decode w) =? cSpecial) eqn:Esp.
  { destruct (g_pos g && (ccol s + 1 <=? 31)) eqn:E1; [|discriminate]. injection Hw as <-.
    apply andb_true_iff in E1 as [E1 E2]. apply step_pop_special; try assumption; lia. }
  destruct (d_cls (decode w) =? cExtended) eqn:Eext; [|discriminate].
  destruct (_ && _) eqn:E1 in Hw; [|discriminate]. injection Hw as <-.
  apply andb_true_iff in E1 as [E1 E3]. apply andb_true_iff in E1 as [E1 E2].
  apply step_pop_extended; try assumption; try lia. now apply negb_true_iff in E3.
Qed.

(* ---- sequences of words, lines ---- *)
Lemma steps_pop ws : forall c s g s' g', Rpop c s g -> pop_words s g ws = Some (s', g') ->
  Rpop (fold_left step ws c) s' g' /\ s' = fold_left (feed dev0) ws s.
Proof.
  induction ws as [|w ws IH]; intros c s g s' g' HR Hw; cbn [pop_words fold_left] in *.
  - injection Hw as <- <-. split; [exact HR|reflexivity].
  - destruct (pop_word s g w) as [g1|] eqn:E; [|discriminate]. apply (IH _ _ _ _ _ (step_pop c s g w g1 HR E) Hw).
Qed.
(* a file: lines of (time code, words); the reader starts every line at its time code *)
Definition run_words (c : ctx) (ls : list (tcv * list Z)) : ctx := fold_left (fun c l => fold_left step (snd l) (with_tc c (fst l))) ls c.
Fixpoint pop_lines (s : scr) (g : gst) (ls : list (tcv * list Z)) : option (scr * gst) :=
  match ls with
  | [] => Some (s, g)
  | l :: ls' => match pop_words s g (snd l) with Some (s1, g1) => pop_lines s1 g1 ls' | None => None end
  end.
Lemma lines_pop ls : forall c s g s' g', Rpop c s g -> pop_lines s g ls = Some (s', g') ->
  Rpop (run_words c ls) s' g' /\ s' = fold_left (fun s l => fold_left (feed dev0) (snd l) s) ls s.
Proof.
  induction ls as [|l ls IH]; intros c s g s' g' HR Hl; cbn [pop_lines run_words fold_left] in *.
  - injection Hl as <- <-. split; [exact HR|reflexivity].
  - destruct (pop_words s g (snd l)) as [[s1 g1]|] eqn:E; [|discriminate].
    destruct (steps_pop (snd l) (with_tc c (fst l)) s g s1 g1 (Rpop_with_tc c s g (fst l) HR) E) as [H1 H2].
    subst s1. apply (IH _ _ _ _ _ H1 Hl).
Qed.

(* the statement about the memories: after any stream of the class, from the start of the file, the reader's two
   captions show, cell by cell, what the decoder's two memories hold *)
Definition shows (p : para) (m : mem) : Prop := forall r k, in_rows r -> in_cols k -> ceqv (mcell m r k) (pcell p r k).
Theorem popon_memories ta ls s' g' : pop_lines scr0 g0 ls = Some (s', g') ->
  let c := run_words (ctx_init ta) ls in
  s' = fold_left (fun s l => fold_left (feed dev0) (snd l) s) ls scr0 /\
  c_err c = false /\ shows (c_buf c) (nond s') /\
  match c_act c with Some a => shows a (disp s') | None => forall r k, is_blank (mcell (disp s') r k) = true end.
Proof.
  intros Hl. cbv zeta. destruct (lines_pop ls (ctx_init ta) scr0 g0 s' g' (Rpop_init ta) Hl) as [[[Hb _] _] Hs].
  split; [exact Hs|]. destruct Hb as [A B C D E F G]. split; [exact A|]. split; [exact (pm_cells _ _ _ F)|].
  destruct (c_act _); [exact (pm_cells _ _ _ G)|exact G].
Qed.
