(* C08: every time code stored by the reader (paragraph begin / end, span begin) is one of the stamps
   T+1 .. T+len+1 of the line being processed, whatever the words are.  The invariant is parametric in a
   predicate P on time codes: all stamps reachable in the state satisfy P provided the two values a step can
   introduce (the line's time code after add_frames, and one frame later for EDM) do. *)
From Coq Require Import QArith.
From TT Require Import Base.Prelude Base.SccTypes Base.SccDoc Gen.SccTables Model.SccWord Model.TimeCode Model.SccReader.
Open Scope Z_scope.

Section Inv.
Variable P : tcv -> Prop.

Definition ot (o : option tcv) : Prop := match o with Some t => P t | None => True end.
Definition T_ok (t : ctext) : Prop := ot (t_begin t).
Definition L_ok (l : cline) : Prop := Forall T_ok (l_texts l).
Definition D_ok (d : list (Z * cline)) : Prop := Forall (fun kv => L_ok (snd kv)) d.
Definition K_ok (k : curline) : Prop := match k with Att _ => True | Det l => L_ok l end.
Definition P_ok (p : para) : Prop := ot (p_begin p) /\ ot (p_end p) /\ K_ok (p_cur p) /\ D_ok (p_lines p).
Definition Ch_ok (c : child) : Prop := match c with CBr => True | CSpan b _ _ => ot b end.
Definition O_ok (o : outp) : Prop := ot (o_begin o) /\ ot (o_end o) /\ Forall Ch_ok (o_children o).
Definition A_ok (a : option para) : Prop := match a with Some p => P_ok p | None => True end.
Definition C_ok (c : ctx) : Prop := P_ok (c_buf c) /\ A_ok (c_act c) /\ Forall O_ok (c_out c).

(* ---- lists *)
Lemma Forall_upd_nth {A} (Q : A -> Prop) f i (l : list A) : (forall x, Q x -> Q (f x)) -> Forall Q l -> Forall Q (upd_nth i f l).
Proof.
  intros Hf. revert i. induction l as [|x l IH]; intros i H; [destruct i; constructor|].
  inversion H; subst. destruct i; cbn; constructor; auto.
Qed.
Lemma Forall_nth_d {A} (Q : A -> Prop) (l : list A) i d : Q d -> Forall Q l -> Q (nth i l d).
Proof. intros Hd H. revert i. induction H; intros [|i]; cbn; auto. Qed.
Lemma Forall_firstn {A} (Q : A -> Prop) n (l : list A) : Forall Q l -> Forall Q (firstn n l).
Proof. intros H. revert n. induction H; intros [|n]; cbn; constructor; auto. Qed.
Lemma Forall_skipn {A} (Q : A -> Prop) n (l : list A) : Forall Q l -> Forall Q (skipn n l).
Proof. intros H. revert n. induction H; intros [|n]; cbn; auto. Qed.

(* ---- texts *)
Lemma T_ok_new : T_ok text_new.  Proof. exact I. Qed.
Lemma T_ok_append t s : T_ok t -> T_ok (text_append t s).  Proof. exact (fun H => H). Qed.
Lemma T_ok_backspace t : T_ok t -> T_ok (text_backspace t).  Proof. exact (fun H => H). Qed.
Lemma T_ok_set_cur t c : T_ok t -> T_ok (text_set_cur t c).  Proof. exact (fun H => H). Qed.
Lemma T_ok_set_sty t s : T_ok t -> T_ok (text_set_sty t s).  Proof. exact (fun H => H). Qed.
Lemma T_ok_set_begin t b : P b -> T_ok (text_set_begin t b).  Proof. exact (fun H => H). Qed.
Lemma T_ok_of s : T_ok (text_of s).  Proof. unfold text_of. destruct (is_nil s); exact I. Qed.

(* ---- lines *)
Lemma L_ok_new r i : L_ok (line_new r i).  Proof. repeat constructor. Qed.
Lemma L_ok_upd_cur_text l f : (forall t, T_ok t -> T_ok (f t)) -> L_ok l -> L_ok (line_upd_cur_text l f).
Proof. intros Hf H. unfold L_ok, line_upd_cur_text; cbn. now apply Forall_upd_nth. Qed.
Lemma L_ok_cur_text l : L_ok l -> T_ok (line_cur_text l).
Proof. intros H. unfold line_cur_text. apply Forall_nth_d; [exact I|exact H]. Qed.
Lemma L_ok_set_cursor l c : L_ok l -> L_ok (line_set_cursor l c).
Proof.
  intros H. unfold line_set_cursor. destruct (sel_text _ _ _) as [[i d]|]; unfold L_ok; cbn; [|exact H].
  apply Forall_upd_nth; [intros; now apply T_ok_set_cur|exact H].
Qed.
Lemma L_ok_texts l r i c k : L_ok l -> L_ok (mkL r i c (l_texts l) k).  Proof. exact (fun H => H). Qed.
Lemma L_ok_append_raw l s : L_ok l -> L_ok (line_append_raw l s).
Proof.
  intros H. unfold line_append_raw. apply L_ok_set_cursor. apply L_ok_texts.
  apply L_ok_upd_cur_text; [intros; now apply T_ok_append|exact H].
Qed.
Lemma L_ok_add_loop fuel : forall l rem, L_ok l -> L_ok (fst (line_add_loop fuel l rem)).
Proof.
  induction fuel as [|k IH]; intros l rem H; cbn [line_add_loop]; [exact H|].
  destruct (line_cur_is_last l || is_nil rem); [exact H|]. apply IH. now apply L_ok_append_raw.
Qed.
Lemma L_ok_add_str l s : L_ok l -> L_ok (line_add_str l s).
Proof.
  intros H. unfold line_add_str. pose proof (L_ok_add_loop (2 * length s + 4) l s H) as H1.
  destruct (line_add_loop _ l s) as [l1 rem]. cbn in H1. destruct (is_nil rem); [exact H1|now apply L_ok_append_raw].
Qed.
Lemma L_ok_add_obj l t : L_ok l -> T_ok t -> L_ok (line_add_obj l t).
Proof. intros H Ht. unfold L_ok, line_add_obj; cbn. apply Forall_app; split; [exact H|now constructor]. Qed.
Lemma L_ok_indent l n : L_ok l -> L_ok (line_indent l n).  Proof. exact (fun H => H). Qed.
Lemma L_ok_set_row l r : L_ok l -> L_ok (line_set_row l r).  Proof. exact (fun H => H). Qed.
Lemma L_ok_clear l : L_ok (line_clear l).
Proof. unfold line_clear. apply L_ok_set_cursor. repeat constructor. Qed.
Lemma L_ok_delete_to_end l : L_ok l -> L_ok (line_delete_to_end l).
Proof.
  intros H. unfold L_ok, line_delete_to_end; cbn [l_texts]. apply Forall_upd_nth; [intros t Ht; exact Ht|]. now apply Forall_firstn.
Qed.
Lemma L_ok_copy_fold ts : forall acc, L_ok acc ->
  L_ok (fold_left (fun nl t => line_add_obj nl (text_set_sty (text_of (t_text t)) (t_sty t))) ts acc).
Proof.
  induction ts as [|t ts IH]; intros acc H; cbn; [exact H|].
  apply IH. apply L_ok_add_obj; [exact H|]. apply T_ok_set_sty, T_ok_of.
Qed.
Lemma L_ok_copy l : L_ok (copy_line l).
Proof. unfold copy_line. apply L_ok_copy_fold, L_ok_new. Qed.

(* ---- dictionaries *)
Lemma D_ok_get k d l : D_ok d -> dget k d = Some l -> L_ok l.
Proof.
  intros H. induction H as [|[k' v] d Hv Hd IH]; cbn; [discriminate|].
  destruct (k =? k'); [intros E; inversion E; subst; exact Hv|exact IH].
Qed.
Lemma D_ok_set k l d : D_ok d -> L_ok l -> D_ok (dset k l d).
Proof.
  intros H Hl. induction H as [|[k' v] d Hv Hd IH]; cbn; [repeat constructor; exact Hl|].
  destruct (k =? k'); constructor; auto.
Qed.
Lemma D_ok_del k d : D_ok d -> D_ok (ddel k d).
Proof.
  intros H. induction H as [|[k' v] d Hv Hd IH]; cbn; [constructor|].
  destruct (k =? k'); [exact Hd|constructor; auto].
Qed.
Lemma D_ok_kinsert kv d : L_ok (snd kv) -> D_ok d -> D_ok (kinsert kv d).
Proof.
  intros Hk H. induction H as [|x d Hx Hd IH]; cbn; [repeat constructor; exact Hk|].
  destruct (fst kv <=? fst x); [constructor; [exact Hk|constructor; assumption]|constructor; assumption].
Qed.
Lemma D_ok_ksort d : D_ok d -> D_ok (ksort d).
Proof. intros H. unfold ksort. induction H; cbn; [constructor|]. now apply D_ok_kinsert. Qed.
Lemma D_ok_values d : D_ok d -> Forall L_ok (map snd d).
Proof. intros H. induction H; cbn; constructor; auto. Qed.

(* ---- paragraphs *)
Lemma P_ok_new s : P_ok (para_new s).
Proof. unfold P_ok, para_new; cbn. repeat split; auto. repeat constructor. Qed.
Lemma P_ok_set_id p x : P_ok p -> P_ok (set_id p x).  Proof. exact (fun H => H). Qed.
Lemma P_ok_set_cursor p x : P_ok p -> P_ok (set_cursor p x).  Proof. exact (fun H => H). Qed.
Lemma P_ok_set_pstyle p x : P_ok p -> P_ok (set_pstyle p x).  Proof. exact (fun H => H). Qed.
Lemma P_ok_set_align p x : P_ok p -> P_ok (set_align p x).  Proof. exact (fun H => H). Qed.
Lemma P_ok_set_begin p x : ot x -> P_ok p -> P_ok (set_begin p x).
Proof. intros Hx (A & B & C & D). repeat split; assumption. Qed.
Lemma P_ok_set_end p x : ot x -> P_ok p -> P_ok (set_end p x).
Proof. intros Hx (A & B & C & D). repeat split; assumption. Qed.
Lemma P_ok_set_cur p k : K_ok k -> P_ok p -> P_ok (set_cur p k).
Proof. intros Hx (A & B & C & D). repeat split; assumption. Qed.
Lemma P_ok_set_plines p d : D_ok d -> P_ok p -> P_ok (set_plines p d).
Proof. intros Hx (A & B & C & D). repeat split; assumption. Qed.
Lemma P_ok_cur_line p : P_ok p -> L_ok (cur_line p).
Proof.
  intros (A & B & C & D). unfold cur_line. destruct (p_cur p) as [r|l]; [|exact C].
  destruct (dget r (p_lines p)) eqn:E; [eapply D_ok_get; eauto|apply L_ok_new].
Qed.
Lemma P_ok_cur_text p : P_ok p -> T_ok (cur_text p).
Proof. intros H. apply L_ok_cur_text, P_ok_cur_line, H. Qed.
Lemma P_ok_upd_cur_line p f : (forall l, L_ok l -> L_ok (f l)) -> P_ok p -> P_ok (upd_cur_line p f).
Proof.
  intros Hf H. pose proof H as (A & B & C & D). unfold upd_cur_line. destruct (p_cur p) as [r|l] eqn:E.
  - destruct (dget r (p_lines p)) eqn:E2; [|exact H]. apply P_ok_set_plines; [|exact H].
    apply D_ok_set; [exact D|]. apply Hf. eapply D_ok_get; eauto.
  - apply P_ok_set_cur; [|exact H]. cbn. apply Hf. exact C.
Qed.
Lemma P_ok_upd_cur_text p f : (forall t, T_ok t -> T_ok (f t)) -> P_ok p -> P_ok (upd_cur_text p f).
Proof. intros Hf H. unfold upd_cur_text. apply P_ok_upd_cur_line; [|exact H]. intros l Hl. now apply L_ok_upd_cur_text. Qed.
Lemma P_ok_new_caption_line p : P_ok p -> P_ok (new_caption_line p).
Proof.
  intros H. unfold new_caption_line. destruct (p_cursor p) as [r i].
  apply P_ok_set_cur; [exact I|]. apply P_ok_set_plines; [|exact H]. apply D_ok_set; [apply H|apply L_ok_new].
Qed.
Lemma P_ok_new_caption_text p : P_ok p -> P_ok (new_caption_text p).
Proof. intros H. unfold new_caption_text. apply P_ok_upd_cur_line; [|exact H]. intros l Hl. apply L_ok_add_obj; [exact Hl|exact I]. Qed.
Lemma P_ok_update_line_cursor p : P_ok p -> P_ok (update_line_cursor p).
Proof.
  intros H. unfold update_line_cursor. apply P_ok_upd_cur_line; [intros; now apply L_ok_set_cursor|].
  set (p1 := if _ <? 0 then _ else p).
  assert (H1 : P_ok p1). { unfold p1. destruct (_ <? 0); [|exact H]. apply P_ok_upd_cur_line; [intros; now apply L_ok_indent|exact H]. }
  clearbody p1. destruct (0 <? _); [|exact H1].
  apply P_ok_upd_cur_line; [|exact H1]. intros l Hl. apply L_ok_add_obj; [exact Hl|apply T_ok_of].
Qed.
Lemma P_ok_indent_cursor p n : P_ok p -> P_ok (indent_cursor p n).
Proof.
  intros H. unfold indent_cursor. destruct (line_is_empty _).
  - apply P_ok_upd_cur_line; [intros; now apply L_ok_indent|]. now apply P_ok_set_cursor.
  - apply P_ok_update_line_cursor. now apply P_ok_set_cursor.
Qed.
Lemma P_ok_append_text p s : P_ok p -> P_ok (append_text p s).
Proof.
  intros H. unfold append_text. apply P_ok_indent_cursor. apply P_ok_upd_cur_line; [intros; now apply L_ok_add_str|exact H].
Qed.
Lemma P_ok_set_cursor_at p row indent : P_ok p -> P_ok (set_cursor_at p row indent).
Proof.
  intros H. unfold set_cursor_at.
  set (p1 := match dget (l_row (cur_line p)) (p_lines p) with Some l => _ | None => p end).
  assert (H1 : P_ok p1).
  { unfold p1. destruct (dget _ _) as [l|] eqn:E; [|exact H].
    destruct (line_is_empty l).
    - apply P_ok_set_cur; [cbn; eapply D_ok_get; [apply H|exact E]|].
      apply P_ok_set_plines; [apply D_ok_del; apply H|]. apply P_ok_set_cur; [exact I|exact H].
    - apply P_ok_set_cur; [exact I|exact H]. }
  clearbody p1.
  set (p2 := set_cursor p1 _). assert (H2 : P_ok p2) by now apply P_ok_set_cursor. clearbody p2.
  set (p3 := match dget row (p_lines p2) with None => new_caption_line p2 | Some _ => p2 end).
  assert (H3 : P_ok p3). { unfold p3. destruct (dget row _); [exact H2|now apply P_ok_new_caption_line]. }
  clearbody p3.
  destruct (indent =? -1); [|apply P_ok_update_line_cursor]; apply P_ok_set_cur; try exact I; exact H3.
Qed.
Lemma D_ok_copy_lines p : D_ok (copy_lines p).
Proof. unfold copy_lines, D_ok. apply Forall_map. apply Forall_forall. intros kv _. cbn. apply L_ok_copy. Qed.
Lemma P_ok_detach p : P_ok p -> P_ok (detach p).
Proof. intros H. unfold detach. apply P_ok_set_cur; [cbn; now apply P_ok_cur_line|exact H]. Qed.
Lemma P_ok_set_lines_dict p d : D_ok d -> P_ok p -> P_ok (set_lines_dict p d).
Proof. intros Hd H. unfold set_lines_dict. apply P_ok_set_plines; [exact Hd|now apply P_ok_detach]. Qed.
Lemma P_ok_set_lines_list ls : forall p, Forall L_ok ls -> P_ok p -> P_ok (set_lines_list p ls).
Proof.
  unfold set_lines_list. induction ls as [|l ls IH]; intros p Hl H; cbn; [exact H|].
  inversion Hl; subst. apply IH; [assumption|].
  set (q1 := match p_cur p with Att r => _ | Det _ => p end).
  assert (H1 : P_ok q1). { unfold q1. destruct (p_cur p); [|exact H]. destruct (_ =? _); [now apply P_ok_detach|exact H]. }
  apply P_ok_set_plines; [|exact H1]. apply D_ok_set; [apply H1|assumption].
Qed.
Lemma D_ok_roll_fold l : forall d, D_ok l -> D_ok d ->
  D_ok (fold_left (fun d kv => let d1 := ddel (fst kv) d in
                               if fst kv =? 0 then d1 else dset (fst kv - 1) (line_set_row (snd kv) (fst kv - 1)) d1) l d).
Proof.
  induction l as [|kv l IH]; intros d Hl Hd; cbn; [exact Hd|]. inversion Hl; subst. apply IH; [assumption|].
  destruct (fst kv =? 0); [now apply D_ok_del|]. apply D_ok_set; [now apply D_ok_del|now apply L_ok_set_row].
Qed.
Lemma P_ok_roll_up p : P_ok p -> P_ok (roll_up p).
Proof.
  intros H. unfold roll_up. pose proof (P_ok_detach p H) as H0. apply P_ok_set_plines; [|exact H0].
  apply D_ok_roll_fold; [apply D_ok_ksort|]; apply H0.
Qed.
Lemma L_ok_last_lines p n : P_ok p -> Forall L_ok (last_lines p n).
Proof.
  intros H. unfold last_lines. destruct (n <=? 0); [constructor|]. unfold py_from.
  destruct (0 <=? - n); apply Forall_skipn; apply D_ok_values, D_ok_ksort, H.
Qed.

(* ---- to_paragraph *)
Lemma Ch_ok_brs n : Forall Ch_ok (brs n).  Proof. induction n; cbn; constructor; auto. exact I. Qed.
Lemma Ch_ok_spans l : L_ok l -> Forall Ch_ok (line_spans l).
Proof.
  intros H. unfold line_spans. induction H as [|t ts Ht Hts IH]; cbn; [constructor|].
  apply Forall_app; split; [|exact IH]. destruct (is_nil (t_text t)); [constructor|]. constructor; [exact Ht|constructor].
Qed.
Lemma Ch_ok_children d : forall last, D_ok d -> Forall Ch_ok (para_children d last).
Proof.
  induction d as [|[row l] d IH]; intros last H; cbn; [constructor|]. inversion H; subst.
  apply Forall_app; split; [destruct last; [apply Ch_ok_brs|constructor]|].
  apply Forall_app; split; [now apply Ch_ok_spans|now apply IH].
Qed.
Lemma O_ok_to_paragraph p rs : P_ok p -> O_ok (snd (to_paragraph p rs)).
Proof.
  intros H. unfold to_paragraph. destruct (get_region p rs) as [rs' rid]. cbn.
  repeat split; try apply H. apply Ch_ok_children, D_ok_ksort, H.
Qed.

(* ---- the context *)
Lemma C_ok_buf c x : P_ok x -> C_ok c -> C_ok (with_buf c x).
Proof. intros Hx (A & B & D). split; [exact Hx|split; [exact B|exact D]]. Qed.
Lemma C_ok_act c x : A_ok x -> C_ok c -> C_ok (with_act c x).
Proof. intros Hx (A & B & D). split; [exact A|split; [exact Hx|exact D]]. Qed.
Lemma C_ok_out c o rs : Forall O_ok o -> C_ok c -> C_ok (with_out c o rs).
Proof. intros Hx (A & B & D). split; [exact A|split; [exact B|exact Hx]]. Qed.
Lemma C_ok_count c x : C_ok c -> C_ok (with_count c x).  Proof. exact (fun H => H). Qed.
Lemma C_ok_prev c x : C_ok c -> C_ok (with_prev c x).  Proof. exact (fun H => H). Qed.
Lemma C_ok_prev_type c x : C_ok c -> C_ok (with_prev_type c x).  Proof. exact (fun H => H). Qed.
Lemma C_ok_style c x : C_ok c -> C_ok (with_style c x).  Proof. exact (fun H => H). Qed.
Lemma C_ok_chan c x : C_ok c -> C_ok (with_chan c x).  Proof. exact (fun H => H). Qed.
Lemma C_ok_depth c x : C_ok c -> C_ok (with_depth c x).  Proof. exact (fun H => H). Qed.
Lemma C_ok_acur c x : C_ok c -> C_ok (with_acur c x).  Proof. exact (fun H => H). Qed.
Lemma C_ok_attrs c a b d : C_ok c -> C_ok (with_attrs c a b d).  Proof. exact (fun H => H). Qed.
Lemma C_ok_tc c x : C_ok c -> C_ok (with_tc c x).  Proof. exact (fun H => H). Qed.
Lemma C_ok_err c : C_ok c -> C_ok (with_err c).  Proof. exact (fun H => H). Qed.

Lemma C_ok_upd_act c f : (forall a, P_ok a -> P_ok (f a)) -> C_ok c -> C_ok (upd_act c f).
Proof.
  intros Hf H. unfold upd_act. destruct (c_act c) as [a|] eqn:E; [|exact H].
  apply C_ok_act; [|exact H]. cbn. apply Hf. destruct H as (_ & B & _). rewrite E in B. exact B.
Qed.
Lemma C_ok_upd_cap c f : (forall a, P_ok a -> P_ok (f a)) -> C_ok c -> C_ok (upd_cap c f).
Proof.
  intros Hf H. unfold upd_cap. destruct (c_style c =? sPopOn); [|now apply C_ok_upd_act].
  apply C_ok_buf; [|exact H]. apply Hf, H.
Qed.
Lemma C_ok_sync_acur c : C_ok c -> C_ok (sync_acur c).
Proof. intros H. unfold sync_acur. destruct (c_act c); [now apply C_ok_acur|exact H]. Qed.
Lemma C_ok_new_active c b s : P b -> C_ok c -> C_ok (new_active_caption c b s).
Proof.
  intros Hb H. unfold new_active_caption. apply C_ok_act; [|now apply C_ok_count].
  cbn. apply P_ok_set_begin; [exact Hb|]. apply P_ok_set_id, P_ok_new.
Qed.
Lemma C_ok_new_buffered c : C_ok c -> C_ok (new_buffered_caption c).
Proof. intros H. unfold new_buffered_caption. apply C_ok_buf; [apply P_ok_new|exact H]. Qed.
Lemma C_ok_push_active c e clear : ot e -> C_ok c -> C_ok (push_active c e clear).
Proof.
  intros He H. unfold push_active. destruct (c_act c) as [a|] eqn:E; [|exact H].
  assert (Ha : P_ok a). { destruct H as (_ & B & _). rewrite E in B. exact B. }
  assert (Hp : P_ok (set_end a e)) by now apply P_ok_set_end.
  set (c2 := with_act _ _).
  assert (H2 : C_ok c2). { unfold c2. apply C_ok_act; [destruct clear; [exact I|exact Hp]|]. now apply C_ok_acur. }
  clearbody c2. destruct (para_is_empty _); [exact H2|].
  pose proof (O_ok_to_paragraph (set_end a e) (c_regions c2) Hp) as Ho.
  destruct (to_paragraph _ _) as [rs o]. cbn in Ho. apply C_ok_out; [|exact H2]. constructor; [exact Ho|apply H2].
Qed.
Lemma C_ok_flip c t : P t -> C_ok c -> C_ok (flip c t).
Proof.
  intros Ht H. unfold flip.
  set (temp := match c_act c with Some a => Some (set_end a (Some t)) | None => None end).
  assert (Htemp : A_ok temp).
  { unfold temp. destruct (c_act c) as [a|] eqn:E; [|exact I]. cbn. apply P_ok_set_end; [exact Ht|].
    destruct H as (_ & B & _). rewrite E in B. exact B. }
  clearbody temp.
  pose proof (C_ok_push_active c (Some t) true Ht H) as H1. set (c1 := push_active c (Some t) true) in *. clearbody c1.
  set (c2 := match p_id (c_buf c1) with Some _ => c1 | None => _ end).
  assert (H2 : C_ok c2).
  { unfold c2. destruct (p_id (c_buf c1)); [exact H1|]. apply C_ok_buf; [apply P_ok_set_id, H1|now apply C_ok_count]. }
  clearbody c2.
  assert (H3 : C_ok (with_act c2 (Some (c_buf c2)))) by (apply C_ok_act; [apply H2|exact H2]).
  destruct temp as [tp|]; [apply C_ok_buf; [exact Htemp|exact H3]|now apply C_ok_new_buffered].
Qed.
Lemma C_ok_backspace c : C_ok c -> C_ok (backspace c).
Proof.
  intros H. unfold backspace. destruct (cap_to_process c); [|exact H].
  apply C_ok_upd_cap; [|exact H]. intros a Ha. apply P_ok_set_cursor_at.
  apply P_ok_upd_cur_text; [intros; now apply T_ok_backspace|exact Ha].
Qed.
Lemma C_ok_paint_on c t : P t -> C_ok c -> C_ok (paint_on_active_caption c t).
Proof.
  intros Ht H. unfold paint_on_active_caption.
  destruct (c_act c) as [a|] eqn:E.
  - pose proof (C_ok_push_active c (Some t) true Ht H) as H1.
    pose proof (C_ok_new_active _ t (p_style a) Ht H1) as H2.
    apply C_ok_upd_act; [intros; now apply P_ok_set_cursor_at|].
    destruct (is_nil (copy_lines a)); [exact H2|].
    apply C_ok_upd_act; [|exact H2]. intros x Hx. apply P_ok_set_lines_dict; [apply D_ok_copy_lines|exact Hx].
  - pose proof (C_ok_new_active _ t sPaintOn Ht H) as H2.
    apply C_ok_upd_act; [intros; now apply P_ok_set_cursor_at|]. cbn. exact H2.
Qed.
Lemma C_ok_process_pac c d : P (c_tc c) -> C_ok c -> C_ok (process_pac c d).
Proof.
  intros Ht H. unfold process_pac.
  assert (Hattrs : forall c', C_ok c' -> C_ok (sync_acur (with_attrs c' (d_color d) (d_italic d) (d_under d)))).
  { intros c' Hc. apply C_ok_sync_acur. now apply C_ok_attrs. }
  destruct (c_style c =? sPaintOn).
  { apply Hattrs. apply C_ok_upd_act; [intros; now apply P_ok_set_cursor_at|].
    apply C_ok_upd_act; [|now apply C_ok_paint_on].
    intros a Ha. destruct (p_style a =? sPaintOn); [|exact Ha]. destruct (dget _ _) eqn:E; [|exact Ha].
    apply P_ok_set_plines; [|exact Ha]. apply D_ok_set; [apply Ha|apply L_ok_clear]. }
  destruct (c_style c =? sRollUp).
  { set (c1 := match c_act c with None => _ | Some _ => c end).
    assert (H1 : C_ok c1). { unfold c1. destruct (c_act c); [exact H|now apply C_ok_new_active]. }
    assert (Htc : c_tc c1 = c_tc c \/ True) by now right.
    set (c2 := upd_act c1 _).
    assert (H2 : C_ok c2).
    { unfold c2. apply C_ok_upd_act; [|exact H1]. intros a Ha. destruct (p_begin a); [exact Ha|]. now apply P_ok_set_begin. }
    clearbody c2.
    destruct ((5 <=? d_row d) && (d_row d <? 12)); [|apply Hattrs];
      (apply C_ok_upd_act; [|exact H2]); intros a Ha; apply P_ok_new_caption_text, P_ok_set_cursor_at, Ha. }
  destruct (c_style c =? sPopOn); apply Hattrs; [|exact H].
  apply C_ok_buf; [|exact H]. apply P_ok_set_cursor_at, H.
Qed.
Lemma P_ok_style_cur_text c p : P_ok p -> P_ok (style_cur_text c p).
Proof. intros H. unfold style_cur_text. apply P_ok_upd_cur_text; [intros; now apply T_ok_set_sty|exact H]. Qed.
Lemma P_ok_set_begin_cur p t : P t -> P_ok p -> P_ok (upd_cur_text p (fun x => text_set_begin x t)).
Proof. intros Ht H. apply P_ok_upd_cur_text; [intros; now apply T_ok_set_begin|exact H]. Qed.

Lemma C_ok_process_mid_row c d : P (c_tc c) -> C_ok c -> C_ok (process_mid_row c d).
Proof.
  intros Ht H. unfold process_mid_row.
  set (c1 := if negb (c_prev_type c =? cMidRow) then _ else _).
  assert (H1 : C_ok c1).
  { unfold c1. destruct (negb (c_prev_type c =? cMidRow)).
    - apply C_ok_attrs. destruct (cap_to_process c) as [p|]; [|exact H].
      destruct (negb (is_nil (t_text (cur_text p)))); [|apply C_ok_upd_cap; [intros; now apply P_ok_append_text|exact H]].
      destruct ((c_style c =? sPaintOn) && _); [apply C_ok_upd_cap; [intros; now apply P_ok_append_text|exact H]|].
      destruct (negb (d_under d)); (apply C_ok_upd_cap; [|exact H]); intros a Ha.
      + now apply P_ok_append_text, P_ok_new_caption_text.
      + now apply P_ok_new_caption_text, P_ok_append_text.
    - apply C_ok_upd_cap; [|now apply C_ok_attrs]. intros a Ha. now apply P_ok_new_caption_text, P_ok_append_text. }
  clearbody c1.
  destruct (cap_to_process c1) as [p|]; [|exact H1]. destruct (p_style p =? sPaintOn); [|exact H1].
  apply C_ok_upd_cap; [|exact H1]. intros a Ha. now apply P_ok_set_begin_cur.
Qed.
Lemma C_ok_process_attribute c d : C_ok c -> C_ok (process_attribute c d).
Proof.
  intros H. unfold process_attribute. destruct (cap_to_process c); [|exact H].
  apply C_ok_upd_cap; [|exact H]. intros a Ha.
  apply P_ok_upd_cur_text; [intros; now apply T_ok_set_sty|].
  destruct (negb _); [now apply P_ok_new_caption_text|exact Ha].
Qed.
Lemma C_ok_process_text c word : P (c_tc c) -> C_ok c -> C_ok (process_text c word).
Proof.
  intros Ht H. unfold process_text. apply C_ok_sync_acur.
  destruct (c_style c =? sPaintOn).
  { set (c1 := match c_act c with None => _ | Some _ => c end).
    assert (H1 : C_ok c1). { unfold c1. destruct (c_act c); [exact H|now apply C_ok_paint_on]. }
    clearbody c1.
    set (c2 := if starts_with_space word then _ else _).
    assert (H2 : C_ok c2).
    { unfold c2. destruct (starts_with_space word).
      - destruct (negb _).
        + apply C_ok_upd_act; [intros; now apply P_ok_append_text|now apply C_ok_paint_on].
        + apply C_ok_upd_act; [|exact H1]. intros a Ha. now apply P_ok_set_begin_cur, P_ok_append_text, P_ok_new_caption_text.
      - destruct (ends_with_space word).
        + assert (H' : C_ok (upd_act c1 (fun a => style_cur_text c1 (append_text a word)))) by (apply C_ok_upd_act; [intros; now apply P_ok_style_cur_text, P_ok_append_text|exact H1]).
          destruct (negb _); [now apply C_ok_paint_on|].
          apply C_ok_upd_act; [|exact H']. intros a Ha. now apply P_ok_set_begin_cur, P_ok_new_caption_text.
        + apply C_ok_upd_act; [intros; now apply P_ok_append_text|exact H1]. }
    clearbody c2. apply C_ok_upd_act; [intros; now apply P_ok_style_cur_text|exact H2]. }
  destruct (c_style c =? sRollUp).
  { set (c1 := match c_act c with None => _ | Some _ => c end).
    assert (H1 : C_ok c1). { unfold c1. destruct (c_act c); [exact H|now apply C_ok_new_active]. }
    clearbody c1. apply C_ok_upd_act; [|exact H1]. intros a Ha. now apply P_ok_style_cur_text, P_ok_append_text. }
  destruct (c_style c =? sPopOn); [|exact H].
  apply C_ok_buf; [|exact H]. apply P_ok_style_cur_text, P_ok_append_text, H.
Qed.
Lemma C_ok_process_control c code : P (c_tc c) -> P (tc_next (c_tc c)) -> C_ok c -> C_ok (process_control c code).
Proof.
  intros Ht Ht2 H. unfold process_control.
  destruct (code =? kRCL); [now apply C_ok_style|].
  destruct (code =? kRDC); [now apply C_ok_style|].
  destruct ((code =? kRU2) || (code =? kRU3) || (code =? kRU4)).
  { set (c1 := with_depth _ _). assert (H1 : C_ok c1) by (unfold c1; now apply C_ok_depth, C_ok_style).
    assert (E : c_tc c1 = c_tc c) by reflexivity. clearbody c1.
    destruct (c_act c1); [exact H1|]. apply C_ok_sync_acur.
    apply C_ok_upd_act; [|now apply C_ok_new_active].
    intros a Ha. now apply P_ok_new_caption_text, P_ok_new_caption_line, P_ok_set_cursor_at, P_ok_set_pstyle. }
  destruct (code =? kEOC).
  { apply C_ok_upd_act; [intros; now apply P_ok_set_align|]. apply C_ok_flip; [exact Ht|].
    apply C_ok_buf; [|exact H]. apply P_ok_set_begin; [exact Ht|apply H]. }
  destruct (code =? kEDM). { destruct (c_act c); [now apply C_ok_push_active|exact H]. }
  destruct (code =? kENM); [now apply C_ok_new_buffered|].
  destruct ((code =? kTO1) || (code =? kTO2) || (code =? kTO3)).
  { destruct (cap_to_process c); [|exact H]. apply C_ok_upd_cap; [intros; now apply P_ok_indent_cursor|exact H]. }
  destruct (code =? kCR).
  { destruct (c_act c) as [a|] eqn:E; [|exact H].
    destruct (negb (p_style a =? sRollUp)); [now apply C_ok_push_active|].
    destruct (para_is_empty a).
    - apply C_ok_upd_act; [|apply C_ok_new_active; [exact Ht|now apply C_ok_count]].
      intros x Hx. apply P_ok_set_cursor_at. apply P_ok_set_lines_list; [constructor|exact Hx].
    - set (c1 := upd_act _ roll_up).
      assert (H1 : C_ok c1).
      { unfold c1. apply C_ok_upd_act; [intros; now apply P_ok_roll_up|]. now apply C_ok_push_active. }
      assert (Hl : Forall L_ok (match c_act c1 with Some a1 => last_lines a1 (c_depth c1 - 1) | None => [] end)).
      { destruct (c_act c1) as [a1|] eqn:E1; [|constructor]. apply L_ok_last_lines.
        destruct H1 as (_ & B & _). rewrite E1 in B. exact B. }
      assert (Etc : c_tc c1 = c_tc c).
      { unfold c1, upd_act, push_active. rewrite E. destruct (para_is_empty _); [reflexivity|].
        destruct (to_paragraph _ _). reflexivity. }
      clearbody c1.
      apply C_ok_upd_act; [|now apply C_ok_new_active].
      intros x Hx. apply P_ok_set_cursor_at. now apply P_ok_set_lines_list. }
  destruct (code =? kDER).
  { destruct (cap_to_process c); [|exact H]. apply C_ok_upd_cap; [|exact H]. intros a Ha.
    apply P_ok_upd_cur_line; [intros; now apply L_ok_delete_to_end|exact Ha]. }
  destruct (code =? kBS); [now apply C_ok_backspace|exact H].
Qed.

(* one word: the only new stamps are the line's time code after add_frames and (EDM) the frame after it *)
Lemma C_ok_step c w : P (tc_next (c_tc c)) -> P (tc_next (tc_next (c_tc c))) -> C_ok c -> C_ok (step c w).
Proof.
  intros Ht Ht2 H. unfold step.
  destruct (c_err c); [exact H|].
  destruct (match c_prev c with Some pv => _ | None => false end); [now apply C_ok_prev|].
  set (c1 := with_tc c _). assert (H1 : C_ok c1) by exact H.
  assert (E1 : c_tc c1 = tc_next (c_tc c)) by reflexivity. clearbody c1.
  destruct (value w =? 0); [exact H1|].
  destruct (byte1 w <? 32).
  - destruct (negb (d_chan (decode w) =? 1)); [now apply C_ok_prev, C_ok_chan|].
    apply C_ok_prev.
    set (c2 := with_chan c1 1). assert (H2 : C_ok c2) by exact H1.
    assert (E2 : c_tc c2 = tc_next (c_tc c)) by exact E1. clearbody c2.
    destruct (d_cls (decode w) =? cPac); [apply C_ok_prev_type, C_ok_process_pac; [rewrite E2|]; assumption|].
    destruct (d_cls (decode w) =? cAttr); [now apply C_ok_prev_type, C_ok_process_attribute|].
    destruct (d_cls (decode w) =? cMidRow); [apply C_ok_prev_type, C_ok_process_mid_row; [rewrite E2|]; assumption|].
    destruct (d_cls (decode w) =? cControl); [apply C_ok_prev_type, C_ok_process_control; [rewrite E2|rewrite E2|]; assumption|].
    destruct (d_cls (decode w) =? cSpecial); [apply C_ok_prev_type, C_ok_process_text; [rewrite E2|]; assumption|].
    destruct (d_cls (decode w) =? cExtended); [|now apply C_ok_prev_type].
    apply C_ok_prev_type, C_ok_process_text; [|now apply C_ok_backspace].
    replace (c_tc (backspace c2)) with (c_tc c2); [rewrite E2; exact Ht|].
    unfold backspace, upd_cap, upd_act. destruct (cap_to_process c2); [|reflexivity].
    destruct (c_style c2 =? sPopOn); [reflexivity|]. destruct (c_act c2); reflexivity.
  - destruct (negb (c_chan c1 =? 1)); [exact H1|].
    apply C_ok_prev, C_ok_prev_type, C_ok_process_text; [rewrite E1|]; assumption.
Qed.
End Inv.

(* ---- the line's time code is only changed by add_frames in SccLine.process ---- *)
Lemma tc_upd_act c f : c_tc (upd_act c f) = c_tc c.
Proof. unfold upd_act. destruct (c_act c); reflexivity. Qed.
Lemma tc_upd_cap c f : c_tc (upd_cap c f) = c_tc c.
Proof. unfold upd_cap. destruct (_ =? _); [reflexivity|apply tc_upd_act]. Qed.
Lemma tc_sync_acur c : c_tc (sync_acur c) = c_tc c.
Proof. unfold sync_acur. destruct (c_act c); reflexivity. Qed.
Lemma tc_new_active c b s : c_tc (new_active_caption c b s) = c_tc c.  Proof. reflexivity. Qed.
Lemma tc_new_buffered c : c_tc (new_buffered_caption c) = c_tc c.  Proof. reflexivity. Qed.
Lemma tc_push_active c e cl : c_tc (push_active c e cl) = c_tc c.
Proof.
  unfold push_active. destruct (c_act c); [|reflexivity]. destruct (para_is_empty _); [reflexivity|].
  destruct (to_paragraph _ _). reflexivity.
Qed.
Lemma tc_flip c t : c_tc (flip c t) = c_tc c.
Proof.
  unfold flip. set (c1 := push_active c (Some t) true). assert (E : c_tc c1 = c_tc c) by apply tc_push_active. clearbody c1.
  destruct (c_act c); destruct (p_id (c_buf c1)); cbn; exact E.
Qed.
Lemma tc_backspace c : c_tc (backspace c) = c_tc c.
Proof. unfold backspace. destruct (cap_to_process c); [apply tc_upd_cap|reflexivity]. Qed.
Lemma tc_paint_on c t : c_tc (paint_on_active_caption c t) = c_tc c.
Proof.
  unfold paint_on_active_caption. destruct (c_act c).
  - rewrite tc_upd_act. destruct (is_nil _); [|rewrite tc_upd_act]; cbn; apply tc_push_active.
  - rewrite tc_upd_act. reflexivity.
Qed.
Lemma tc_with_attrs c a b d : c_tc (with_attrs c a b d) = c_tc c.  Proof. reflexivity. Qed.
Lemma tc_process_pac c d : c_tc (process_pac c d) = c_tc c.
Proof.
  unfold process_pac. destruct (_ =? sPaintOn).
  { rewrite tc_sync_acur, tc_with_attrs, !tc_upd_act. apply tc_paint_on. }
  destruct (_ =? sRollUp).
  { destruct (_ && _); [|rewrite tc_sync_acur, tc_with_attrs]; rewrite !tc_upd_act; destruct (c_act c); reflexivity. }
  destruct (_ =? sPopOn); rewrite tc_sync_acur; reflexivity.
Qed.
Lemma tc_process_mid_row c d : c_tc (process_mid_row c d) = c_tc c.
Proof.
  unfold process_mid_row.
  set (c1 := if negb _ then _ else _).
  assert (E : c_tc c1 = c_tc c).
  { unfold c1. destruct (negb _).
    - rewrite tc_with_attrs. destruct (cap_to_process c); [|reflexivity].
      destruct (negb _); [|apply tc_upd_cap]. destruct (_ && _); [apply tc_upd_cap|]. destruct (negb _); apply tc_upd_cap.
    - rewrite tc_upd_cap. reflexivity. }
  clearbody c1. destruct (cap_to_process c1); [|exact E]. destruct (_ =? _); [rewrite tc_upd_cap|]; exact E.
Qed.
Lemma tc_process_attribute c d : c_tc (process_attribute c d) = c_tc c.
Proof. unfold process_attribute. destruct (cap_to_process c); [apply tc_upd_cap|reflexivity]. Qed.
Lemma tc_process_text c w : c_tc (process_text c w) = c_tc c.
Proof.
  unfold process_text. rewrite tc_sync_acur.
  destruct (_ =? sPaintOn).
  { rewrite tc_upd_act.
    set (c1 := match c_act c with None => _ | Some _ => c end).
    assert (E : c_tc c1 = c_tc c) by (unfold c1; destruct (c_act c); [reflexivity|apply tc_paint_on]). clearbody c1.
    destruct (starts_with_space w).
    - destruct (negb _); rewrite tc_upd_act; [rewrite tc_paint_on|]; exact E.
    - destruct (ends_with_space w); [|rewrite tc_upd_act; exact E].
      destruct (negb _); [rewrite tc_paint_on|rewrite tc_upd_act]; rewrite tc_upd_act; exact E. }
  destruct (_ =? sRollUp); [rewrite tc_upd_act; destruct (c_act c); reflexivity|].
  destruct (_ =? sPopOn); reflexivity.
Qed.
Lemma tc_process_control c code : c_tc (process_control c code) = c_tc c.
Proof.
  unfold process_control.
  destruct (code =? kRCL); [reflexivity|]. destruct (code =? kRDC); [reflexivity|].
  destruct (_ || _ || _).
  { set (c1 := with_depth _ _). assert (E : c_tc c1 = c_tc c) by reflexivity. clearbody c1.
    destruct (c_act c1); [exact E|]. rewrite tc_sync_acur, tc_upd_act. exact E. }
  destruct (code =? kEOC); [rewrite tc_upd_act, tc_flip; reflexivity|].
  destruct (code =? kEDM); [destruct (c_act c); [apply tc_push_active|reflexivity]|].
  destruct (code =? kENM); [reflexivity|].
  destruct (_ || _ || _); [destruct (cap_to_process c); [apply tc_upd_cap|reflexivity]|].
  destruct (code =? kCR).
  { destruct (c_act c) as [a|] eqn:E; [|reflexivity]. destruct (negb _); [apply tc_push_active|].
    destruct (para_is_empty _); rewrite tc_upd_act, tc_new_active; [reflexivity|]. rewrite tc_upd_act. apply tc_push_active. }
  destruct (code =? kDER); [destruct (cap_to_process c); [apply tc_upd_cap|reflexivity]|].
  destruct (code =? kBS); [apply tc_backspace|reflexivity].
Qed.
(* ---- no word raises: the exception flag is only set by a malformed word of a line (process_line), never by step
   (since the repair of backspace / tab offset without a caption being processed) ---- *)
Lemma noerr_upd_act c f : c_err (upd_act c f) = c_err c.
Proof. unfold upd_act. destruct (c_act c); reflexivity. Qed.
Lemma noerr_upd_cap c f : c_err (upd_cap c f) = c_err c.
Proof. unfold upd_cap. destruct (_ =? _); [reflexivity|apply noerr_upd_act]. Qed.
Lemma noerr_sync_acur c : c_err (sync_acur c) = c_err c.
Proof. unfold sync_acur. destruct (c_act c); reflexivity. Qed.
Lemma noerr_new_active c b s : c_err (new_active_caption c b s) = c_err c.  Proof. reflexivity. Qed.
Lemma noerr_new_buffered c : c_err (new_buffered_caption c) = c_err c.  Proof. reflexivity. Qed.
Lemma noerr_push_active c e cl : c_err (push_active c e cl) = c_err c.
Proof.
  unfold push_active. destruct (c_act c); [|reflexivity]. destruct (para_is_empty _); [reflexivity|].
  destruct (to_paragraph _ _). reflexivity.
Qed.
Lemma noerr_flip c t : c_err (flip c t) = c_err c.
Proof.
  unfold flip. set (c1 := push_active c (Some t) true). assert (E : c_err c1 = c_err c) by apply noerr_push_active. clearbody c1.
  destruct (c_act c); destruct (p_id (c_buf c1)); cbn; exact E.
Qed.
Lemma noerr_backspace c : c_err (backspace c) = c_err c.
Proof. unfold backspace. destruct (cap_to_process c); [apply noerr_upd_cap|reflexivity]. Qed.
Lemma noerr_paint_on c t : c_err (paint_on_active_caption c t) = c_err c.
Proof.
  unfold paint_on_active_caption. destruct (c_act c).
  - rewrite noerr_upd_act. destruct (is_nil _); [|rewrite noerr_upd_act]; cbn; apply noerr_push_active.
  - rewrite noerr_upd_act. reflexivity.
Qed.
Lemma noerr_with_attrs c a b d : c_err (with_attrs c a b d) = c_err c.  Proof. reflexivity. Qed.
Lemma noerr_process_pac c d : c_err (process_pac c d) = c_err c.
Proof.
  unfold process_pac. destruct (_ =? sPaintOn).
  { rewrite noerr_sync_acur, noerr_with_attrs, !noerr_upd_act. apply noerr_paint_on. }
  destruct (_ =? sRollUp).
  { destruct (_ && _); [|rewrite noerr_sync_acur, noerr_with_attrs]; rewrite !noerr_upd_act; destruct (c_act c); reflexivity. }
  destruct (_ =? sPopOn); rewrite noerr_sync_acur; reflexivity.
Qed.
Lemma noerr_process_mid_row c d : c_err (process_mid_row c d) = c_err c.
Proof.
  unfold process_mid_row.
  set (c1 := if negb _ then _ else _).
  assert (E : c_err c1 = c_err c).
  { unfold c1. destruct (negb _).
    - rewrite noerr_with_attrs. destruct (cap_to_process c); [|reflexivity].
      destruct (negb _); [|apply noerr_upd_cap]. destruct (_ && _); [apply noerr_upd_cap|]. destruct (negb _); apply noerr_upd_cap.
    - rewrite noerr_upd_cap. reflexivity. }
  clearbody c1. destruct (cap_to_process c1); [|exact E]. destruct (_ =? _); [rewrite noerr_upd_cap|]; exact E.
Qed.
Lemma noerr_process_attribute c d : c_err (process_attribute c d) = c_err c.
Proof. unfold process_attribute. destruct (cap_to_process c); [apply noerr_upd_cap|reflexivity]. Qed.
Lemma noerr_process_text c w : c_err (process_text c w) = c_err c.
Proof.
  unfold process_text. rewrite noerr_sync_acur.
  destruct (_ =? sPaintOn).
  { rewrite noerr_upd_act.
    set (c1 := match c_act c with None => _ | Some _ => c end).
    assert (E : c_err c1 = c_err c) by (unfold c1; destruct (c_act c); [reflexivity|apply noerr_paint_on]). clearbody c1.
    destruct (starts_with_space w).
    - destruct (negb _); rewrite noerr_upd_act; [rewrite noerr_paint_on|]; exact E.
    - destruct (ends_with_space w); [|rewrite noerr_upd_act; exact E].
      destruct (negb _); [rewrite noerr_paint_on|rewrite noerr_upd_act]; rewrite noerr_upd_act; exact E. }
  destruct (_ =? sRollUp); [rewrite noerr_upd_act; destruct (c_act c); reflexivity|].
  destruct (_ =? sPopOn); reflexivity.
Qed.
Lemma noerr_process_control c code : c_err (process_control c code) = c_err c.
Proof.
  unfold process_control.
  destruct (code =? kRCL); [reflexivity|]. destruct (code =? kRDC); [reflexivity|].
  destruct (_ || _ || _).
  { set (c1 := with_depth _ _). assert (E : c_err c1 = c_err c) by reflexivity. clearbody c1.
    destruct (c_act c1); [exact E|]. rewrite noerr_sync_acur, noerr_upd_act. exact E. }
  destruct (code =? kEOC); [rewrite noerr_upd_act, noerr_flip; reflexivity|].
  destruct (code =? kEDM); [destruct (c_act c); [apply noerr_push_active|reflexivity]|].
  destruct (code =? kENM); [reflexivity|].
  destruct (_ || _ || _); [destruct (cap_to_process c); [apply noerr_upd_cap|reflexivity]|].
  destruct (code =? kCR).
  { destruct (c_act c) as [a|] eqn:E; [|reflexivity]. destruct (negb _); [apply noerr_push_active|].
    destruct (para_is_empty _); rewrite noerr_upd_act, noerr_new_active; [reflexivity|]. rewrite noerr_upd_act. apply noerr_push_active. }
  destruct (code =? kDER); [destruct (cap_to_process c); [apply noerr_upd_cap|reflexivity]|].
  destruct (code =? kBS); [apply noerr_backspace|reflexivity].
Qed.
(* is the word dropped as the second copy of a doubled code? *)
Definition is_dup (c : ctx) (w : Z) : bool :=
  match c_prev c with Some pv => (pv =? value w) && is_code (pv / 256) | None => false end.
Lemma tc_step c w : c_tc (step c w) = if c_err c || is_dup c w then c_tc c else tc_next (c_tc c).
Proof.
  unfold step, is_dup. destruct (c_err c); [reflexivity|]. cbn [orb].
  destruct (match c_prev c with Some pv => _ | None => false end); [reflexivity|].
  destruct (value w =? 0); [reflexivity|].
  destruct (byte1 w <? 32).
  - destruct (negb _); [reflexivity|].
    destruct (_ =? cPac); [cbn; now rewrite tc_process_pac|].
    destruct (_ =? cAttr); [cbn; now rewrite tc_process_attribute|].
    destruct (_ =? cMidRow); [cbn; now rewrite tc_process_mid_row|].
    destruct (_ =? cControl); [cbn; now rewrite tc_process_control|].
    destruct (_ =? cSpecial); [cbn; now rewrite tc_process_text|].
    destruct (_ =? cExtended); [cbn; now rewrite tc_process_text, tc_backspace|reflexivity].
  - destruct (negb _); [reflexivity|]. cbn. now rewrite tc_process_text.
Qed.

Lemma noerr_step c w : c_err (step c w) = c_err c.
Proof.
  unfold step. destruct (c_err c) eqn:He; [exact He|].
  destruct (match c_prev c with Some pv => _ | None => false end); [exact He|].
  destruct (value w =? 0); [exact He|].
  destruct (byte1 w <? 32).
  - destruct (negb _); [exact He|].
    destruct (_ =? cPac); [cbn; now rewrite noerr_process_pac|].
    destruct (_ =? cAttr); [cbn; now rewrite noerr_process_attribute|].
    destruct (_ =? cMidRow); [cbn; now rewrite noerr_process_mid_row|].
    destruct (_ =? cControl); [cbn; now rewrite noerr_process_control|].
    destruct (_ =? cSpecial); [cbn; now rewrite noerr_process_text|].
    destruct (_ =? cExtended); [cbn; now rewrite noerr_process_text, noerr_backspace|exact He].
  - destruct (negb _); [exact He|]. cbn. now rewrite noerr_process_text.
Qed.
Lemma noerr_steps ws : forall c, c_err (fold_left step ws c) = c_err c.
Proof. induction ws as [|w ws IH]; intros c; cbn [fold_left]; [reflexivity|]. rewrite IH. apply noerr_step. Qed.

(* ================= lines and files ================= *)
Lemma iter_shift {A} (f : A -> A) k x : iter_n k f (f x) = iter_n (S k) f x.
Proof. induction k as [|k IH]; cbn; [reflexivity|]. rewrite IH. reflexivity. Qed.

Lemma C_ok_steps (P : tcv -> Prop) (ws : list Z) : forall c,
  (forall k, (1 <= k <= length ws + 1)%nat -> P (iter_n k tc_next (c_tc c))) -> C_ok P c -> C_ok P (fold_left step ws c).
Proof.
  induction ws as [|w ws IH]; intros c Hk H; cbn [fold_left]; [exact H|].
  apply IH.
  - intros k Hr. rewrite tc_step. destruct (c_err c || is_dup c w).
    + apply Hk. cbn [length]. lia.
    + rewrite iter_shift. apply Hk. cbn [length]. lia.
  - apply C_ok_step; [apply (Hk 1%nat)|apply (Hk 2%nat)|exact H]; cbn [length]; lia.
Qed.

(* a stamp of the file: the time code of one of its lines after k additions of one frame, 1 <= k <= len + 1 *)
Definition line_stamp (lines : list text) (x : tcv) : Prop :=
  exists line t ws k, In line lines /\ from_str line = LOk t ws /\ (1 <= k <= length ws + 1)%nat /\ x = iter_n k tc_next t.

Lemma C_ok_process_line lines c line : In line lines -> C_ok (line_stamp lines) c -> C_ok (line_stamp lines) (process_line c line).
Proof.
  intros Hin H. unfold process_line. destruct (c_err c); [exact H|].
  destruct (from_str line) as [| |t ws] eqn:E; [exact H|exact H|].
  apply C_ok_steps; [|exact H]. intros k Hk. exists line, t, ws, k. repeat split; try assumption; lia.
Qed.
Lemma C_ok_lines lines : forall ls c, incl ls lines -> C_ok (line_stamp lines) c -> C_ok (line_stamp lines) (fold_left process_line ls c).
Proof.
  induction ls as [|l ls IH]; intros c Hi H; cbn [fold_left]; [exact H|].
  apply IH; [intros x Hx; apply Hi; now right|]. apply C_ok_process_line; [apply Hi; now left|exact H].
Qed.
Lemma C_ok_init (P : tcv -> Prop) ta : C_ok P (ctx_init ta).
Proof. unfold C_ok, ctx_init; cbn. split; [apply P_ok_new|split; [exact I|constructor]]. Qed.
(* every stamp of every pushed paragraph is a stamp of the file, for all inputs *)
Lemma stamps_run talign lines : C_ok (line_stamp lines) (run_lines talign lines).
Proof.
  unfold run_lines, flush. apply C_ok_new_buffered. apply C_ok_push_active; [exact I|].
  apply C_ok_lines; [apply incl_refl|apply C_ok_init].
Qed.

(* ---- to_model raises exactly when a line holds a malformed word ---- *)
Definition bad_line (line : text) : bool := match from_str line with LErr => true | _ => false end.
Lemma err_process_line c line : c_err (process_line c line) = c_err c || bad_line line.
Proof.
  unfold process_line, bad_line. destruct (c_err c) eqn:He; [exact He|].
  destruct (from_str line) as [| |t ws]; [exact He|reflexivity|]. rewrite noerr_steps. exact He.
Qed.
Lemma err_process_lines lines : forall c, c_err (fold_left process_line lines c) = c_err c || existsb bad_line lines.
Proof.
  induction lines as [|l lines IH]; intros c; cbn [fold_left existsb]; [now rewrite orb_false_r|].
  rewrite IH, err_process_line, orb_assoc. reflexivity.
Qed.
Lemma err_run_lines ta lines : c_err (run_lines ta lines) = existsb bad_line lines.
Proof.
  unfold run_lines, flush. unfold new_buffered_caption. cbn [c_err with_buf]. rewrite noerr_push_active, err_process_lines. reflexivity.
Qed.
Lemma to_model_raises_iff ta lines : to_model ta lines = DocErr <-> exists l, In l lines /\ from_str l = LErr.
Proof.
  unfold to_model, finish. rewrite err_run_lines. split.
  - destruct (existsb bad_line lines) eqn:E; [|discriminate]. intros _.
    apply existsb_exists in E as (l & Hl & Hb). exists l. split; [exact Hl|]. unfold bad_line in Hb.
    destruct (from_str l); try discriminate. reflexivity.
  - intros (l & Hl & Hb). replace (existsb bad_line lines) with true; [reflexivity|].
    symmetry. apply existsb_exists. exists l. split; [exact Hl|]. unfold bad_line. now rewrite Hb.
Qed.
(* when no caption is being processed a backspace or a tab offset is ignored, and an extended character is the character alone *)
Lemma no_caption_ignored c : cap_to_process c = None ->
  backspace c = c /\ (forall k, k = kTO1 \/ k = kTO2 \/ k = kTO3 -> process_control c k = c) /\
  process_control c kBS = c.
Proof.
  intros H. assert (Hb : backspace c = c) by (unfold backspace; now rewrite H).
  split; [exact Hb|]. split.
  - intros k [-> | [-> | ->]]; unfold process_control; cbn; now rewrite H.
  - unfold process_control. cbn. exact Hb.
Qed.

(* ================= from time codes to seconds ================= *)
From TT Require Import Proofs.C12.Integer Proofs.C12.DropFrame.

Lemma two_digits_range a b x : two_digits a b = Some x -> 0 <= x <= 99.
Proof. unfold two_digits, is_digit. destruct (_ && _) eqn:E; [|discriminate]. intros H; inversion H; subst. lia. Qed.
Lemma match_tc_range sep t h m s f : match_tc sep t = Some (h, m, s, f) -> 0 <= h <= 99 /\ 0 <= m <= 99 /\ 0 <= s <= 99 /\ 0 <= f <= 99.
Proof.
  unfold match_tc.
  do 11 (destruct t as [|? t]; [discriminate|]).
  destruct (_ && _ && _); [|discriminate].
  destruct (two_digits z z0) eqn:E1; [|discriminate]. destruct (two_digits z2 z3) eqn:E2; [|discriminate].
  destruct (two_digits z5 z6) eqn:E3; [|discriminate]. destruct (two_digits z8 z9) eqn:E4; [|discriminate].
  intros H; inversion H; subst.
  apply two_digits_range in E1, E2, E3, E4. lia.
Qed.
Lemma parse_tc_30 t : parse_tc t r30 =
  match match_tc (fun c => c =? colon) t with
  | Some l => Some (l, r30)
  | None => match match_tc (fun c => negb (c =? newline)) t with Some l => Some (l, r2997) | None => None end
  end.
Proof. reflexivity. Qed.
(* the rate of an SCC line is 30 or 30000/1001 and its frame count is not negative *)
Lemma parse_tc_rate t l r : parse_tc t r30 = Some (l, r) -> (r = r30 \/ r = r2997) /\ 0 <= to_frames r l.
Proof.
  rewrite parse_tc_30. destruct (match_tc (fun c => c =? colon) t) as [[[[h m] s] f]|] eqn:E.
  - intros H; inversion H; subst. apply match_tc_range in E. split; [now left|].
    unfold to_frames. change (is_df r30) with false. cbn [rn rd r30]. rewrite Z.div_1_r. lia.
  - destruct (match_tc (fun c => negb (c =? newline)) t) as [[[[h m] s] f]|] eqn:E2; [|intros H; discriminate H].
    intros H; inversion H; subst. apply match_tc_range in E2. split; [now right|].
    unfold to_frames. change (is_df r2997) with true. cbv iota.
    change (drop_per_minute r2997) with 2. change (ndf r2997) with 30. lia.
Qed.
Lemma from_str_rate line l r ws : from_str line = LOk (l, r) ws -> (r = r30 \/ r = r2997) /\ 0 <= to_frames r l.
Proof.
  unfold from_str. destruct (is_nil line); [discriminate|].
  destruct (parse_tc line r30) as [[l' r']|] eqn:E; [|discriminate].
  destruct (negb _); [discriminate|]. destruct (words_of _); [|discriminate].
  intros H; inversion H; subst. now apply parse_tc_rate with (t := line).
Qed.
(* k additions of one frame give frame count + k at the same rate (C12 round trip) *)
Lemma frames_iter r l : (r = r30 \/ r = r2997) -> 0 <= to_frames r l ->
  forall k, tc_frames (iter_n k tc_next (l, r)) = to_frames r l + Z.of_nat k /\ snd (iter_n k tc_next (l, r)) = r.
Proof.
  intros Hr H0 k. induction k as [|k [IH1 IH2]]; [unfold tc_frames; cbn [iter_n fst snd Z.of_nat]; split; [lia|reflexivity]|].
  cbn [iter_n]. destruct (iter_n k tc_next (l, r)) as [l' r'] eqn:E. cbn in IH2. subst r'.
  unfold tc_next, tc_frames in *. cbn [fst snd] in *. split; [|reflexivity].
  unfold add_frames. rewrite IH1. destruct Hr; subst r; [rewrite rt30|rewrite rt2997]; lia.
Qed.

(* a time in seconds that is frame T+k of one of the lines, 1 <= k <= len+1, at the line's rate *)
Definition on_line_grid (lines : list text) (q : Q) : Prop :=
  exists line lab r ws k, In line lines /\ from_str line = LOk (lab, r) ws /\ (r = r30 \/ r = r2997) /\
    1 <= k <= zlen ws + 1 /\ q = Qmake ((to_frames r lab + k) * rd r) (Z.to_pos (rn r)).
Lemma stamp_on_grid lines x : line_stamp lines x -> on_line_grid lines (tc_offset x).
Proof.
  intros (line & [lab r] & ws & k & Hin & Hfs & Hk & ->).
  destruct (from_str_rate _ _ _ _ Hfs) as [Hr H0].
  destruct (frames_iter r lab Hr H0 k) as [E1 E2].
  exists line, lab, r, ws, (Z.of_nat k). repeat split; try assumption; [lia|unfold zlen; lia|].
  unfold tc_offset. rewrite E1, E2. reflexivity.
Qed.

(* the document: begin and end of every paragraph, and the absolute begin of every span; a paint-on span begin is written
   relative to the paragraph's begin and is never negative: max(g - b, 0) (since the repair of to_paragraph) *)
Definition span_ok (lines : list text) (pb : option Q) (paint : bool) (ch : childq) : Prop :=
  match ch with
  | QBr => True
  | QSpan None _ _ => True
  | QSpan (Some sb) _ _ =>
      exists g, on_line_grid lines g /\
                (sb = g \/ (paint = true /\ exists b, pb = Some b /\ sb = qmax0 (Qminus g b)))
  end.
Lemma doc_times talign lines rs ps : to_model talign lines = Doc rs ps ->
  forall p, In p ps ->
    (forall b, q_begin p = Some b -> on_line_grid lines b) /\
    (forall e, q_end p = Some e -> on_line_grid lines e) /\
    exists paint, Forall (span_ok lines (q_begin p) paint) (q_children p).
Proof.
  unfold to_model, finish. destruct (c_err _); [discriminate|]. intros H; inversion H; subst. clear H.
  intros p Hp. apply in_map_iff in Hp as (o & <- & Ho). apply in_rev in Ho.
  destruct (stamps_run talign lines) as (_ & _ & Hout).
  rewrite Forall_forall in Hout. destruct (Hout o Ho) as (Hb & He & Hc).
  unfold finish_p; cbn. split; [|split].
  - intros b Eb. destruct (o_begin o); [|discriminate]. inversion Eb; subst. now apply stamp_on_grid.
  - intros e Ee. destruct (o_end o); [|discriminate]. inversion Ee; subst. now apply stamp_on_grid.
  - exists (o_paint o). apply Forall_map. rewrite Forall_forall in *. intros ch Hch. specialize (Hc ch Hch).
    destruct ch as [|[bt|] st tx]; cbn; try exact I. cbn in Hc.
    exists (tc_offset bt). split; [now apply stamp_on_grid|].
    destruct (o_paint o); [|now left]. destruct (o_begin o) as [pbt|]; [|now left].
    right. split; [reflexivity|]. exists (tc_offset pbt). split; reflexivity.
Qed.

(* ---- what on_line_grid says, spelled out ---- *)
(* a whole number of frames at 30 fps or at 30000/1001 fps *)
Lemma grid_multiple lines q : on_line_grid lines q -> exists n : Z, q = Qmake n 30 \/ q = Qmake (n * 1001) 30000.
Proof.
  intros (line & lab & r & ws & k & _ & _ & Hr & _ & ->). exists (to_frames r lab + k).
  destruct Hr; subst r; cbn [rn rd r30 r2997 Z.to_pos]; [left; now rewrite Z.mul_1_r|right; reflexivity].
Qed.
(* later than the time code of the line whose word produced it, and no later than one frame after its last word *)
Lemma not_before_line lines q : on_line_grid lines q ->
  exists line lab r ws, In line lines /\ from_str line = LOk (lab, r) ws /\
    (tc_offset (lab, r) < q)%Q /\ (q <= Qmake ((to_frames r lab + zlen ws + 1) * rd r) (Z.to_pos (rn r)))%Q.
Proof.
  intros (line & lab & r & ws & k & Hin & Hfs & Hr & Hk & ->). exists line, lab, r, ws. repeat split; try assumption.
  - unfold tc_offset, tc_frames, Qlt. cbn [fst snd Qnum Qden]. destruct Hr; subst r; cbn [rn rd r30 r2997 Z.to_pos]; nia.
  - unfold Qle. cbn [Qnum Qden]. destruct Hr; subst r; cbn [rn rd r30 r2997 Z.to_pos]; nia.
Qed.

(* ---- no time of the document is negative (since the repair of the paint-on span begin) ---- *)
Lemma qmax0_nonneg x : (0 <= qmax0 x)%Q.
Proof. unfold qmax0. destruct (Qle_bool 0 x) eqn:E; [now apply Qle_bool_iff|apply Qle_refl]. Qed.
Lemma qmax0_pos x : (0 <= x)%Q -> qmax0 x = x.
Proof. intros H. unfold qmax0. apply Qle_bool_iff in H. now rewrite H. Qed.
Lemma qmax0_neg x : (x < 0)%Q -> qmax0 x = 0%Q.
Proof.
  intros H. unfold qmax0. destruct (Qle_bool 0 x) eqn:E; [|reflexivity].
  apply Qle_bool_iff in E. exfalso. exact (Qlt_not_le _ _ H E).
Qed.
Lemma grid_positive lines q : on_line_grid lines q -> (0 < q)%Q.
Proof.
  intros H. destruct (not_before_line lines q H) as (line & lab & r & ws & _ & Hfs & Hlt & _).
  apply Qle_lt_trans with (y := tc_offset (lab, r)); [|exact Hlt].
  destruct (from_str_rate _ _ _ _ Hfs) as [Hr H0].
  unfold tc_offset, tc_frames, Qle. cbn [fst snd Qnum Qden]. destruct Hr; subst r; cbn [rn rd r30 r2997 Z.to_pos]; lia.
Qed.
Definition span_nonneg (ch : childq) : Prop := match ch with QSpan (Some sb) _ _ => (0 <= sb)%Q | _ => True end.
Lemma span_ok_nonneg lines pb paint ch : span_ok lines pb paint ch -> span_nonneg ch.
Proof.
  destruct ch as [|[sb|] st tx]; cbn; try (intros; exact I).
  intros (g & Hg & [->|(_ & b & _ & ->)]); [apply Qlt_le_weak; eapply grid_positive; exact Hg|apply qmax0_nonneg].
Qed.
Lemma doc_times_nonneg talign lines rs ps : to_model talign lines = Doc rs ps ->
  forall p, In p ps ->
    (forall b, q_begin p = Some b -> (0 < b)%Q) /\ (forall e, q_end p = Some e -> (0 < e)%Q) /\
    Forall span_nonneg (q_children p).
Proof.
  intros H p Hp. destruct (doc_times talign lines rs ps H p Hp) as (Hb & He & paint & Hc).
  split; [intros b Eb; eapply grid_positive; eauto|]. split; [intros e Ee; eapply grid_positive; eauto|].
  rewrite Forall_forall in *. intros ch Hch. eapply span_ok_nonneg; eauto.
Qed.

(* ---- frames per word ---- *)
(* no word of the run is dropped as a second copy and no exception is pending *)
Fixpoint run_clean (c : ctx) (ws : list Z) : bool :=
  match ws with [] => true | w :: ws' => negb (c_err c || is_dup c w) && run_clean (step c w) ws' end.
Lemma frames_clean ws : forall c, run_clean c ws = true -> c_tc (fold_left step ws c) = iter_n (length ws) tc_next (c_tc c).
Proof.
  induction ws as [|w ws IH]; intros c H; cbn [fold_left length]; [reflexivity|].
  cbn [run_clean] in H. apply andb_true_iff in H as [H1 H2]. apply negb_true_iff in H1.
  rewrite IH by exact H2. rewrite tc_step, H1. apply iter_shift.
Qed.
(* in general the line's time code has advanced by at most one frame per word: stamps are never late *)
Lemma frames_at_most ws : forall c, exists k, (k <= length ws)%nat /\ c_tc (fold_left step ws c) = iter_n k tc_next (c_tc c).
Proof.
  induction ws as [|w ws IH]; intros c; cbn [fold_left length]; [exists 0%nat; split; [lia|reflexivity]|].
  destruct (IH (step c w)) as (k & Hk & E). rewrite E, tc_step. destruct (c_err c || is_dup c w).
  - exists k. split; [lia|reflexivity].
  - exists (S k). split; [lia|apply iter_shift].
Qed.
