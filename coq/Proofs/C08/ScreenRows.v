(* C08, display simulation, part 7: rows of cells as they are compared by S (blank cells trimmed at both ends, empty rows
   dropped); a memory and a rendering that show equivalent cells give equal rows. *)
From Coq Require Import QArith.
From TT Require Import Base.Prelude Base.SccTypes Base.SccDoc Model.SccWord Spec.Cea608Screen.
From TT Require Import Proofs.C08.ScreenMem.
Open Scope Z_scope.

(* ---- trimming ---- *)
Definition all_blank (l : list cell) : Prop := Forall (fun x => is_blank x = true) l.
Lemma drop_blank_app_blank B Y : all_blank B -> drop_blank (B ++ Y) = drop_blank Y.
Proof. induction 1 as [|x B Hx HB IH]; cbn; [reflexivity|]. now rewrite Hx. Qed.
Lemma drop_blank_all_blank B : all_blank B -> drop_blank B = [].
Proof. intros H. rewrite <- (app_nil_r B). now rewrite drop_blank_app_blank. Qed.
Lemma all_blank_rev B : all_blank B -> all_blank (rev B).
Proof. intros H. unfold all_blank in *. apply Forall_forall. intros x Hx. apply in_rev in Hx. rewrite Forall_forall in H. now apply H. Qed.
Lemma all_blank_repeat n : all_blank (repeat blank n).
Proof. apply Forall_forall. intros x Hx. apply repeat_spec in Hx. subst. reflexivity. Qed.
Lemma trim_all_blank B : all_blank B -> trim B = [].
Proof. intros H. unfold trim. now rewrite (drop_blank_all_blank B H). Qed.
Lemma drop_blank_app_nil Y B : drop_blank Y = [] -> all_blank B -> drop_blank (Y ++ B) = [].
Proof.
  intros HY HB. induction Y as [|x Y IH]; [now apply drop_blank_all_blank|].
  cbn [drop_blank app] in *. destruct (is_blank x); [now apply IH|discriminate].
Qed.
Lemma drop_blank_app_cons Y B y Y' : drop_blank Y = y :: Y' -> drop_blank (Y ++ B) = (y :: Y') ++ B.
Proof.
  intros HY. induction Y as [|x Y IH]; [discriminate|].
  cbn [drop_blank app] in *. destruct (is_blank x); [now apply IH|]. injection HY as -> ->. reflexivity.
Qed.
(* blank cells before and after do not count *)
Lemma trim_pad B1 Y B2 : all_blank B1 -> all_blank B2 -> trim (B1 ++ Y ++ B2) = trim Y.
Proof.
  intros H1 H2. unfold trim. rewrite (drop_blank_app_blank B1 _ H1).
  destruct (drop_blank Y) as [|y Y'] eqn:E.
  - rewrite (drop_blank_app_nil Y B2 E H2). reflexivity.
  - rewrite (drop_blank_app_cons Y B2 y Y' E), rev_app_distr.
    rewrite (drop_blank_app_blank (rev B2) _ (all_blank_rev B2 H2)). reflexivity.
Qed.
(* equivalent cells *)
Lemma Forall2_ceqv_drop X Z : Forall2 ceqv X Z -> Forall2 ceqv (drop_blank X) (drop_blank Z).
Proof.
  induction 1 as [|x z X Z Hxz H IH]; cbn; [constructor|].
  destruct (is_blank x) eqn:Ex.
  - rewrite (ceqv_blank_r _ _ Hxz Ex). exact IH.
  - pose proof (ceqv_nonblank _ _ Hxz Ex) as ->. rewrite Ex. constructor; [apply ceqv_refl|exact H].
Qed.
Lemma Forall2_rev {A B} (R : A -> B -> Prop) X Z : Forall2 R X Z -> Forall2 R (rev X) (rev Z).
Proof. induction 1; cbn; [constructor|]. apply Forall2_app; [assumption|]. constructor; [assumption|constructor]. Qed.
Lemma Forall2_ceqv_trim X Z : Forall2 ceqv X Z -> Forall2 ceqv (trim X) (trim Z).
Proof. intros H. unfold trim. apply Forall2_rev, Forall2_ceqv_drop, Forall2_rev, Forall2_ceqv_drop, H. Qed.
Lemma Forall2_ceqv_cells_eqb X Z : Forall2 ceqv X Z -> cells_eqb X Z = true.
Proof. induction 1 as [|x z X Z Hxz H IH]; cbn; [reflexivity|]. rewrite (ceqv_cell_eqb _ _ Hxz), IH. reflexivity. Qed.
Lemma Forall2_nth_ext {A} (R : A -> A -> Prop) d X Z : length X = length Z ->
  (forall k, (k < length X)%nat -> R (nth k X d) (nth k Z d)) -> Forall2 R X Z.
Proof.
  revert Z. induction X as [|x X IH]; intros [|z Z] HL H; cbn in *; try discriminate; [constructor|].
  constructor; [apply (H 0%nat); lia|]. apply IH; [lia|]. intros k Hk. apply (H (S k)). lia.
Qed.

(* ---- rows given by a function ---- *)
(* what two rows of cells must satisfy to be seen as the same row *)
Definition row_same (X Z : list cell) : Prop := cells_eqb (trim X) (trim Z) = true.
Fixpoint rows_of_fun (g : Z -> list cell) (lo : Z) (n : nat) : vrows :=
  match n with
  | O => []
  | S k => match trim (g lo) with [] => rows_of_fun g (lo + 1) k | t => (lo, t) :: rows_of_fun g (lo + 1) k end
  end.
Lemma rows_of_fun_same g g' n : forall lo, (forall r, lo <= r < lo + Z.of_nat n -> row_same (g r) (g' r)) ->
  vrows_eqb (rows_of_fun g lo n) (rows_of_fun g' lo n) = true.
Proof.
  induction n as [|n IH]; intros lo H; cbn [rows_of_fun]; [reflexivity|].
  assert (H0 : row_same (g lo) (g' lo)) by (apply H; lia). unfold row_same in H0.
  assert (IH' : vrows_eqb (rows_of_fun g (lo + 1) n) (rows_of_fun g' (lo + 1) n) = true) by (apply IH; intros r Hr; apply H; lia).
  destruct (trim (g lo)) as [|x X]; destruct (trim (g' lo)) as [|z Z']; cbn in H0; try discriminate; [exact IH'|].
  cbn [vrows_eqb]. rewrite Z.eqb_refl, IH'. cbn [cells_eqb]. rewrite H0. reflexivity.
Qed.
Lemma rows_of_fun_ext g g' n : forall lo, (forall r, lo <= r < lo + Z.of_nat n -> g r = g' r) -> rows_of_fun g lo n = rows_of_fun g' lo n.
Proof.
  induction n as [|n IH]; intros lo H; cbn [rows_of_fun]; [reflexivity|]. rewrite (H lo) by lia. rewrite (IH (lo + 1)); [reflexivity|].
  intros r Hr. apply H. lia.
Qed.
Lemma rows_of_fun_app g n1 n2 : forall lo, rows_of_fun g lo (n1 + n2) = rows_of_fun g lo n1 ++ rows_of_fun g (lo + Z.of_nat n1) n2.
Proof.
  induction n1 as [|n1 IH]; intros lo; cbn [rows_of_fun Nat.add app]; [now rewrite Z.add_0_r|].
  rewrite IH. replace (lo + 1 + Z.of_nat n1) with (lo + Z.of_nat (S n1)) by lia. destruct (trim (g lo)); reflexivity.
Qed.
Lemma rows_of_fun_blank g n : forall lo, (forall r, lo <= r < lo + Z.of_nat n -> trim (g r) = []) -> rows_of_fun g lo n = [].
Proof.
  induction n as [|n IH]; intros lo H; cbn [rows_of_fun]; [reflexivity|]. rewrite (H lo) by lia. apply IH. intros r Hr. apply H. lia.
Qed.
(* the rows of a memory *)
Lemma rows_of_mem_from_fun m : forall r, rows_of_mem_from m r = rows_of_fun (fun r' => nth (Z.to_nat (r' - r)) m []) r (length m).
Proof.
  induction m as [|x m IH]; intros r; cbn [rows_of_mem_from rows_of_fun length]; [reflexivity|].
  rewrite Z.sub_diag. cbn [Z.to_nat nth]. rewrite IH.
  assert (E : rows_of_fun (fun r' => nth (Z.to_nat (r' - (r + 1))) m []) (r + 1) (length m) =
              rows_of_fun (fun r' => nth (Z.to_nat (r' - r)) (x :: m) []) (r + 1) (length m)).
  { apply rows_of_fun_ext. intros r' Hr'. replace (Z.to_nat (r' - r)) with (S (Z.to_nat (r' - (r + 1)))) by lia. reflexivity. }
  rewrite E. reflexivity.
Qed.
Lemma rows_of_mem_fun m : mem_wf m -> rows_of_mem m = rows_of_fun (row_get m) 1 15.
Proof.
  intros [HL _]. unfold rows_of_mem. rewrite rows_of_mem_from_fun, HL. apply rows_of_fun_ext. intros r Hr.
  unfold row_get. replace ((1 <=? r) && (r <=? 15)) with true by lia.
  apply nth_indep. lia.
Qed.
