(* C08, display simulation, part 11: a caption written to the document (to_paragraph) and read back by S's comparison
   function shows what the decoder's memory held when it was written. *)
From Coq Require Import QArith.
From TT Require Import Base.Prelude Base.SccTypes Base.SccDoc Gen.SccTables Model.SccWord Model.TimeCode Model.SccReader Spec.Cea608Screen.
From TT Require Import Proofs.C08.Text Proofs.C08.ScreenMem Proofs.C08.ScreenLine Proofs.C08.ScreenPara Proofs.C08.ScreenRows
                       Proofs.C08.ScreenDoc Proofs.C08.ScreenRegion.
Open Scope Z_scope.

Lemma para_empty_blank {st} p m u : @para_mem st p m u -> para_is_empty p = true -> forall r c, in_rows r -> in_cols c -> is_blank (mcell m r c) = true.
Proof.
  intros [A B C D E F] He r c Hr Hc. specialize (A r c Hr Hc). apply (ceqv_blank_l _ _ A). unfold pcell.
  destruct (dget r (p_lines p)) as [l|] eqn:El; [|reflexivity]. rewrite lcell_empty; [reflexivity|].
  (* every line of an empty caption is empty *)
  unfold para_is_empty, para_length in He. apply (proj1 (dget_in _ _ _ D)) in El.
  assert (G : forall d : list (Z * cline), (forall kv, In kv d -> 0 <= line_length (snd kv)) -> fold_right (fun kv a => line_length (snd kv) + a) 0 d = 0 ->
              forall kv, In kv d -> line_length (snd kv) = 0).
  { induction d as [|x d IH]; intros Hnn H0 kv Hin; [contradiction|]. cbn [fold_right] in H0.
    assert (0 <= fold_right (fun kv a => line_length (snd kv) + a) 0 d).
    { clear -Hnn. induction d as [|y d IH]; cbn; [lia|]. assert (0 <= line_length (snd y)) by (apply Hnn; right; now left).
      assert (0 <= fold_right (fun kv a => line_length (snd kv) + a) 0 d) by (apply IH; intros kv H1; apply Hnn; destruct H1 as [->|H1]; [now left|right; now right]). lia. }
    pose proof (Hnn x (or_introl eq_refl)). destruct Hin as [<-|Hin]; [lia|]. apply IH; [intros; apply Hnn; now right|lia|exact Hin]. }
  apply (G (p_lines p) (fun kv _ => line_length_nonneg (snd kv)) ltac:(lia) (r, l) El).
Qed.
Lemma rows_of_mem_blank m : mem_wf m -> (forall r c, in_rows r -> in_cols c -> is_blank (mcell m r c) = true) -> rows_of_mem m = [].
Proof.
  intros Hw H. rewrite (rows_of_mem_fun m Hw). apply rows_of_fun_blank. intros r Hr. apply (row_blank_trim m r Hw). intros c Hc. apply H; [unfold in_rows; lia|exact Hc].
Qed.
Lemma para_nobegin_all {st} p m u : @para_mem st p m u -> Forall (fun kv => nobegin (snd kv)) (ksort (p_lines p)).
Proof.
  intros [A B C D E F]. apply Forall_forall. intros [k l] Hin. apply (proj1 (ksort_in _ _)) in Hin. apply (proj2 (dget_in _ _ _ D)) in Hin.
  destruct (B k l Hin) as (_ & _ & _ & H). exact H.
Qed.
Lemma find_region_set_end a e rs : find_region (set_end a e) rs = find_region a rs.
Proof. induction rs as [|r rs IH]; cbn [find_region]; [reflexivity|]. rewrite IH. reflexivity. Qed.
Lemma get_region_set_end a e rs : get_region (set_end a e) rs = get_region a rs.
Proof. unfold get_region. rewrite find_region_set_end. reflexivity. Qed.
(* the paragraph read back *)
Lemma pushed_rows a m u rs e t : @para_mem sPopOn a m u -> mem_wf m -> para_is_empty a = false -> regs_ok rs ->
  forall rs'', regs_ext (fst (to_paragraph (set_end a e) rs)) rs'' ->
  vrows_eqb (rows_of_mem m) (rows_of_p rs'' (finish_p (snd (to_paragraph (set_end a e) rs))) t) = true.
Proof.
  intros Hpm Hw Hne Hok rs'' Hext.
  assert (Hnp : ~ pristine a).
  { intros [P1 P2]. unfold para_is_empty, para_length in Hne. rewrite P1 in Hne. cbn in Hne. discriminate. }
  pose proof (para_rows_shows a m u Hpm Hw Hnp) as Hshow.
  unfold to_paragraph in *. 
  rewrite (get_region_set_end a e rs) in *.
  destruct (get_region_found a rs Hok (pm_style _ _ _ Hpm)) as (r & Hfind & Hafter & Hoy).
  destruct (get_region a rs) as [rs' id] eqn:Eg. cbn [fst snd] in *.
  destruct (Hext id r Hfind) as (r'' & Hfind'' & S1 & S2 & S3).
  unfold rows_of_p, finish_p. cbn [q_region q_begin q_children o_region o_paint o_begin o_children]. rewrite Hfind''.
  rewrite S2, Hafter, S1, Hoy.
  change (p_lines (set_end a e)) with (p_lines a).
  unfold para_rows in Hshow. destruct (ksort (p_lines a)) as [|[r1 l1] d] eqn:Es; [|].
  - (* a caption that is not empty has a line *)
    exfalso. unfold para_is_empty, para_length in Hne. assert (p_lines a = []).
    { destruct (p_lines a) as [|kv l]; [reflexivity|]. exfalso. assert (Hin : In kv (ksort (kv :: l))) by (apply ksort_in; now left). rewrite Es in Hin. contradiction. }
    rewrite H in Hne. cbn in Hne. discriminate.
  - destruct (para_origin_row a m u r1 l1 d Hpm Hne Es) as [Eo Hr1]. rewrite Eo, (row_of_pct_y r1 Hr1).
    assert (Hinc : kinc r1 d).
    { assert (Hk : kinc (r1 - 1) (ksort (p_lines a))).
      { apply ksort_inc; [apply (pm_nodup _ _ _ Hpm)|]. intros k Hk. apply (proj2 (ksort_keys _ _)) in Hk. rewrite Es in Hk.
        assert (Hk0 : kinc 0 (ksort (p_lines a))).
        { apply ksort_inc; [apply (pm_nodup _ _ _ Hpm)|]. intros k' Hk'. destruct (dget k' (p_lines a)) eqn:E2.
          - destruct (pm_keys _ _ _ Hpm) as [Hp|Hkk]; [contradiction|]. destruct (Hkk _ _ E2) as [Hr _]. unfold in_rows in Hr. lia.
          - apply dget_none_keys in E2. contradiction. }
        rewrite Es in Hk0. cbn [kinc] in Hk0. destruct Hk0 as [_ Hd]. destruct Hk as [<-|Hk]; [cbn; lia|].
        pose proof (kinc_keys_above r1 d Hd k Hk). lia. }
      rewrite Es in Hk. cbn [kinc] in Hk. exact (proj2 Hk). }
    pose proof (para_nobegin_all a m u Hpm) as Hnb. rewrite Es in Hnb. inversion Hnb as [|? ? Hnb1 Hnbd]; subst. cbn [snd] in Hnb1.
    cbn [para_children app].
    match goal with |- context [map (finish_child ?pt ?pb) _] => set (paint := pt); set (pbq := pb) end.
    rewrite map_app. change (map (finish_child paint pbq) (line_spans l1)) with (qchildren paint pbq (line_spans l1)).
    rewrite lines_of_spans by exact Hnb1. cbn [app].
    change (map (finish_child paint pbq) (para_children d (Some r1))) with (qchildren paint pbq (para_children d (Some r1))).
    rewrite lines_of_children by assumption. exact Hshow.
Qed.
