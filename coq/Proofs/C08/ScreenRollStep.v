(* C08, display simulation, roll-up, part 4: carriage return and RUx on the relation; the stream class; the theorem. *)
From Coq Require Import QArith.
From TT Require Import Base.Prelude Base.SccTypes Base.SccDoc Gen.SccTables Model.SccWord Model.TimeCode Model.SccReader Spec.Cea608Screen.
From TT Require Import Proofs.C08.Stamps Proofs.C08.Words Proofs.C08.Protocol Proofs.C08.Text Proofs.C08.ScreenMem Proofs.C08.ScreenLine
                       Proofs.C08.ScreenPara Proofs.C08.ScreenWords Proofs.C08.ScreenPopOn Proofs.C08.ScreenRows Proofs.C08.ScreenDoc
                       Proofs.C08.ScreenRegion Proofs.C08.ScreenPush Proofs.C08.ScreenRollMem Proofs.C08.ScreenRollUp Proofs.C08.ScreenRollCR.
Open Scope Z_scope.

Lemma all_rows_in r : In r all_rows -> in_rows r.
Proof. unfold all_rows, in_rows. cbn. lia. Qed.
Lemma contig_keys n a : contig n a <-> p_cur a = Att 15 /\ exists lo, 16 - n <= lo <= 15 /\ keys_between a lo.
Proof. reflexivity. Qed.
(* the caption after a carriage return on an empty caption *)
Lemma cr_empty_caption x y m n pen : 2 <= n <= 4 -> (forall r c, is_blank (mcell m r c) = true) ->
  let r := set_cursor_at (set_lines_list (set_begin (set_id (para_new sRollUp) x) y) []) roll_up_base_row (-1) in
  @para_mem sRollUp r m all_rows /\ contig n r /\ base_empty r /\ para_at r 15 0 (line_new 15 0) [] text_new /\ elt_ok pen (line_new 15 0) text_new 0.
Proof.
  intros Hn Hm. cbv zeta. change (set_lines_list ?q []) with q. set (a0 := set_begin (set_id (para_new sRollUp) x) y).
  assert (Hpm0 : @para_mem sRollUp a0 m []) by (apply (para_mem_meta (para_new sRollUp)); [now apply para_mem_new|reflexivity..]).
  assert (Hr15 : in_rows 15) by (unfold in_rows; lia).
  destruct (para_mem_at_fresh a0 m [] 15 0 Hpm0 ltac:(intros []) Hr15 ltac:(lia)) as (r0 & l0 & Q1 & Q2 & Q3 & Q4 & Q5 & Q6).
  unfold roll_up_base_row. rewrite (set_cursor_at_fresh a0 r0 l0 15 (-1) Q1 Q2 Q3 Q4). change (if -1 =? -1 then 0 else -1) with 0.
  set (q := at_fresh a0 r0 l0 15 0) in *.
  assert (Hkeys : forall r, dget r (p_lines q) <> None <-> r = 15).
  { intros r. unfold q, at_fresh. cbn [p_lines set_cur set_plines]. rewrite dget_dset. destruct (r =? 15) eqn:E; [split; [lia|discriminate]|].
    rewrite dget_fresh_lines by (apply (pm_nodup _ _ _ Hpm0)).
    unfold a0. cbn [p_lines set_begin set_id para_new dget]. cbn [p_cur p_lines set_begin set_id para_new dget] in Q1, Q2.
    injection Q1 as <-. cbn in Q2. injection Q2 as <-. cbn [line_is_empty line_length line_new l_texts fold_right text_len text_new t_text zlen length Z.of_nat Z.add Z.eqb andb].
    destruct (r =? 0) eqn:E0; [split; [intros H; now contradiction H|lia]|split; [intros H; now contradiction H|lia]]. }
  split; [|split; [|split; [|split; [exact Q6|apply elt_ok_new]]]].
  - apply (para_mem_ext q m m [15] all_rows Q5); [reflexivity|]. intros z [<-|[]]. now apply in_all_rows.
  - split; [reflexivity|]. exists 15. split; [lia|]. intros r. rewrite Hkeys. lia.
  - intros l Hl. destruct Q6 as (_ & Qg & _). rewrite Qg in Hl. injection Hl as <-. reflexivity.
Qed.

(* ---- carriage return ---- *)
Lemma new_active_proj c t st f :
  let X := upd_act (new_active_caption c t st) f in
  c_act X = Some (f (set_begin (set_id (para_new st) (Some (c_count c + 1))) (Some t))) /\
  c_err X = c_err c /\ c_style X = c_style c /\ c_depth X = c_depth c /\ c_color X = c_color c /\ c_italic X = c_italic c /\
  c_under X = c_under c /\ c_chan X = c_chan c.
Proof. cbv zeta. unfold upd_act, new_active_caption. cbn [c_act with_act with_count]. repeat split. Qed.
Lemma act_push_keep c a e : c_act c = Some a -> c_act (push_active c e false) = Some (set_end a e).
Proof.
  intros Ha. unfold push_active. rewrite Ha. destruct (para_is_empty _); [reflexivity|]. destruct (to_paragraph _ _). reflexivity.
Qed.
Lemma process_control_cr c a : c_act c = Some a -> p_style a = sRollUp ->
  process_control c kCR =
  let '(c1, previous_lines) :=
    if para_is_empty a then (with_count c (c_count c - 1), [])
    else let c1 := upd_act (push_active c (Some (c_tc c)) false) roll_up in
         (c1, match c_act c1 with Some a1 => last_lines a1 (c_depth c1 - 1) | None => [] end) in
  upd_act (new_active_caption c1 (c_tc c) sRollUp) (fun x => set_cursor_at (set_lines_list x previous_lines) roll_up_base_row (-1)).
Proof. intros Ha Hs. unfold process_control. change kCR with Model.SccReader.kCR. cbn [Z.eqb Model.SccReader.kCR Model.SccReader.kRCL Model.SccReader.kRDC Model.SccReader.kRU2 Model.SccReader.kRU3 Model.SccReader.kRU4 Model.SccReader.kEOC Model.SccReader.kEDM Model.SccReader.kENM Model.SccReader.kTO1 Model.SccReader.kTO2 Model.SccReader.kTO3 Pos.eqb orb]. rewrite Ha, Hs. reflexivity. Qed.
Lemma step_ru_cr n c s g w : Rru n c s g -> d_chan (decode w) = 1 -> is_second_copy s w = false ->
  d_cls (decode w) = cControl -> d_code (decode w) = kCR -> gr_live g = true ->
  Rru n (step c w) (feed dev0 s w) (mkGR true true true).
Proof.
  intros (Hb & Hp & HL) Hc Hd Hcls Hk Hlive.
  rewrite (step_control c w (u_err _ _ _ _ Hb) (not_dup_code c s w HL Hc Hd) Hc Hcls), (feed_control s w Hc Hd Hcls), Hk.
  set (c1 := code_ctx c). set (s0 := set_chan (set_last s (Some (value w))) 1).
  assert (Hb1 : Rub n c1 s0 g) by (apply (Rub_same n c s g); try reflexivity; exact Hb).
  pose proof Hb1 as [A B C D E F G H I].
  destruct (c_act c1) as [a|] eqn:Ea; [|destruct I as [I _]; congruence]. destruct I as (I1 & I2 & I3 & I4).
  rewrite (process_control_cr c1 a Ea (pm_style _ _ _ I2)).
  assert (Es : control dev0 s0 kCR = set_pos (set_disp s0 (roll (disp s0) 15 n)) 15 0).
  { unfold control. cbn [Z.eqb kCR kRCL kRDC kRU2 kRU4 Pos.eqb andb Z.leb Z.compare Pos.compare Pos.compare_cont]. rewrite D, F. reflexivity. }
  rewrite Es.
  assert (Hr15 : in_rows 15) by (unfold in_rows; lia).
  destruct (para_is_empty a) eqn:Eemp.
  - (* nothing is displayed: a new caption on the base row *)
    match goal with |- Rru _ (with_prev (with_prev_type ?X _) _) _ _ => destruct (new_active_proj (with_count c1 (c_count c1 - 1)) (c_tc c1) sRollUp
        (fun x => set_cursor_at (set_lines_list x []) roll_up_base_row (-1))) as (X1 & X2 & X3 & X4 & X5 & X6 & X7 & X8) end.
    assert (Hblank : forall r k, is_blank (mcell (roll (disp s0) 15 n) r k) = true).
    { intros r k. destruct (Z_le_dec 1 r); [destruct (Z_le_dec r 15)|].
      - assert (Hr : in_rows r) by (unfold in_rows; lia). rewrite mcell_roll by (try exact Hr; apply H).
        assert (Hb0 : forall r' k', is_blank (mcell (disp s0) r' k') = true).
        { intros r' k'. destruct (Z_le_dec 1 r'); [destruct (Z_le_dec r' 15)|]; [|rewrite mcell_outside by (unfold in_rows; lia); reflexivity..].
          destruct (Z_le_dec 0 k'); [destruct (Z_le_dec k' 31)|].
          + apply (para_empty_blank a _ _ I2 Eemp); [unfold in_rows; lia|unfold in_cols; lia].
          + rewrite mcell_beyond by (try apply H; lia). reflexivity.
          + unfold mcell. replace (Z.to_nat k') with 0%nat by lia. apply (para_empty_blank a _ _ I2 Eemp r' 0); [unfold in_rows; lia|unfold in_cols; lia]. }
        destruct (in_window 15 n r); [destruct (r =? 15); [reflexivity|apply Hb0]|apply Hb0].
      - rewrite mcell_outside by (unfold in_rows; lia). reflexivity.
      - rewrite mcell_outside by (unfold in_rows; lia). reflexivity. }
    destruct (cr_empty_caption (Some (c_count (with_count c1 (c_count c1 - 1)) + 1)) (Some (c_tc c1)) (roll (disp s0) 15 n) n
                (pen_of c1) E Hblank) as (N1 & N2 & N3 & N4 & N5).
    apply (wrap_code_ru n c s _ w _ _ cControl HL Hc); try reflexivity.
    + split.
      * rewrite X2. exact A.
      * rewrite X3. exact B.
      * rewrite X4. exact C.
      * exact D.
      * exact E.
      * reflexivity.
      * unfold pen_of. rewrite X5, X6, X7. exact G.
      * destruct H as [H1 H2]. split; [cbn [disp set_pos set_disp]; now apply roll_wf|exact H2].
      * rewrite X1. cbn [disp set_pos set_disp gr_live gr_fresh]. split; [reflexivity|]. split; [exact N1|]. split; [exact N2|]. intros _. exact N3.
    + intros _. split; [cbn [ccol set_pos]; lia|]. eexists _, _, _, _. rewrite X1. split; [reflexivity|]. cbn [ccol set_pos]. split; [exact N4|].
      unfold pen_of in *. rewrite X5, X6, X7. exact N5.
  - (* the displayed caption is written, rolled up, and its last n-1 rows are handed over to a new caption *)
    set (c2 := upd_act (push_active c1 (Some (c_tc c1)) false) roll_up).
    assert (Ea2 : c_act c2 = Some (roll_up (set_end a (Some (c_tc c1))))) by (unfold c2, upd_act; rewrite (act_push_keep c1 a _ Ea); reflexivity).
    assert (Hproj2 : c_err c2 = c_err c1 /\ c_style c2 = c_style c1 /\ c_depth c2 = c_depth c1 /\ c_color c2 = c_color c1 /\
                     c_italic c2 = c_italic c1 /\ c_under c2 = c_under c1 /\ c_chan c2 = c_chan c1).
    { unfold c2, upd_act. rewrite (act_push_keep c1 a _ Ea). cbn [c_err c_style c_depth c_color c_italic c_under c_chan with_act].
      destruct (push_active_proj c1 (Some (c_tc c1)) false) as (Q1 & Q2 & Q3 & Q4 & Q5 & Q6 & Q7). rewrite Q1, Q2, Q3, Q4, Q5, Q7, push_active_proj_ru. repeat split. }
    destruct Hproj2 as (J1 & J2 & J3 & J4 & J5 & J6 & J7).
    cbv zeta. rewrite Ea2, J3, C.
    change (last_lines (roll_up (set_end a (Some (c_tc c1)))) (n - 1)) with (last_lines (roll_up a) (n - 1)).
    destruct (new_active_proj c2 (c_tc c1) sRollUp (fun x => set_cursor_at (set_lines_list x (last_lines (roll_up a) (n - 1))) roll_up_base_row (-1)))
      as (X1 & X2 & X3 & X4 & X5 & X6 & X7 & X8).
    destruct I3 as (Hcur & lo & Hlo & Hkeys).
    destruct (cr_caption a n lo (Some (c_count c2 + 1)) (Some (c_tc c1)) (disp s0) all_rows E I2 Hlo Hkeys (proj1 H) all_rows_in in_all_rows)
      as (N1 & N2 & N3 & N4 & N5).
    fold (cr_para a n (Some (c_count c2 + 1)) (Some (c_tc c1))) in X1.
    apply (wrap_code_ru n c s _ w _ _ cControl HL Hc); try reflexivity.
    + split.
      * rewrite X2, J1. exact A.
      * rewrite X3, J2. exact B.
      * rewrite X4, J3. exact C.
      * exact D.
      * exact E.
      * reflexivity.
      * unfold pen_of. rewrite X5, X6, X7, J4, J5, J6. exact G.
      * destruct H as [H1 H2]. split; [cbn [disp set_pos set_disp]; now apply roll_wf|exact H2].
      * rewrite X1. cbn [disp set_pos set_disp gr_live gr_fresh]. split; [reflexivity|]. split; [exact N1|]. split.
        -- split; [exact N2|]. exists (Z.max (lo - 1) (16 - n)). split; [lia|exact N3].
        -- intros _ l Hl. rewrite N4 in Hl. injection Hl as <-. reflexivity.
    + intros _. split; [cbn [ccol set_pos]; lia|]. eexists _, _, _, _. rewrite X1. split; [reflexivity|]. cbn [ccol set_pos]. split; [exact N5|apply elt_ok_new].
    + rewrite X8, J7. reflexivity.
Qed.

(* ---- RUx when nothing is displayed ---- *)
Lemma ru_new_model c k : c_act c = None -> kRU2 <= k <= kRU4 ->
  let X := process_control c k in
  c_act X = Some (new_caption_text (new_caption_line (set_cursor_at (set_pstyle (set_begin (set_id (para_new sRollUp) (Some (c_count c + 1))) (Some (c_tc c))) sRollUp) roll_up_base_row 0))) /\
  c_err X = c_err c /\ c_style X = sRollUp /\ c_depth X = ru_depth k /\ c_color X = c_color c /\ c_italic X = c_italic c /\
  c_under X = c_under c /\ c_chan X = c_chan c.
Proof.
  intros Ha Hk. cbv zeta. rewrite (process_control_ru c k Hk). cbv zeta. cbn [c_act with_depth with_style]. rewrite Ha.
  match goal with |- context [sync_acur ?x] => destruct (sync_acur_proj x) as (S1 & S2 & S3 & S4 & S5 & S6 & S7 & S8) end.
  rewrite S1, S2, S3, S4, S5, S7, S8.
  assert (Sd : forall x, c_depth (sync_acur x) = c_depth x) by (intros x; unfold sync_acur; destruct (c_act x); reflexivity).
  rewrite Sd. unfold upd_act, new_active_caption. cbn [c_act c_err c_style c_depth c_color c_italic c_under c_chan with_act with_count with_depth with_style c_count c_tc].
  repeat split.
Qed.
Lemma step_ru_ru_new n c s g w : Rru n c s g -> d_chan (decode w) = 1 -> is_second_copy s w = false ->
  d_cls (decode w) = cControl -> kRU2 <= d_code (decode w) <= kRU4 -> ru_depth (d_code (decode w)) = n -> gr_live g = false ->
  Rru n (step c w) (feed dev0 s w) (mkGR false true true).
Proof.
  intros (Hb & Hp & HL) Hc Hd Hcls Hk Hn Hlive.
  rewrite (step_control c w (u_err _ _ _ _ Hb) (not_dup_code c s w HL Hc Hd) Hc Hcls), (feed_control s w Hc Hd Hcls).
  set (c1 := code_ctx c). set (s0 := set_chan (set_last s (Some (value w))) 1).
  assert (Hb1 : Rub n c1 s0 g) by (apply (Rub_same n c s g); try reflexivity; exact Hb).
  pose proof Hb1 as [A B C D E F G H I].
  destruct (c_act c1) as [a|] eqn:Ea; [destruct I as [I _]; congruence|]. destruct I as (_ & I2).
  destruct (ru_new_model c1 _ Ea Hk) as (X1 & X2 & X3 & X4 & X5 & X6 & X7 & X8).
  rewrite (control_ru s0 n _ D Hk), Hn, F.
  assert (Hblank : forall r k, is_blank (mcell (trim_window (disp s0) 15 n) r k) = true).
  { intros r k. destruct (Z_le_dec 1 r); [destruct (Z_le_dec r 15)|]; [|rewrite mcell_outside by (unfold in_rows; lia); reflexivity..].
    rewrite mcell_trim by (unfold in_rows; lia). destruct (in_window 15 n r); [apply I2|reflexivity]. }
  destruct (new_ru_caption (Some (c_count c1 + 1)) (Some (c_tc c1)) (trim_window (disp s0) 15 n) n (pen_of c1) E Hblank) as (N1 & N2 & N3 & _).
  apply (wrap_code_ru n c s _ w _ _ cControl HL Hc); try reflexivity.
  - split.
    + rewrite X2. exact A.
    + exact X3.
    + rewrite X4. exact Hn.
    + reflexivity.
    + exact E.
    + exact F.
    + unfold pen_of. rewrite X5, X6, X7. exact G.
    + destruct H as [H1 H2]. split; [cbn [disp set_md set_disp]; now apply trim_wf|exact H2].
    + rewrite X1. cbn [disp set_md set_disp gr_live gr_fresh]. split; [reflexivity|]. split; [exact N1|]. split; [exact N2|]. intros _. exact N3.
  - discriminate.
  - rewrite X8. reflexivity.
Qed.
(* the first RUx of a stream: both sides leave the pop-on mode they start in *)
Record Rpre (c : ctx) (s : scr) : Prop := {
  p_err : c_err c = false;
  p_act : c_act c = None;
  p_md : md s = PopOn;
  p_pen : pen_of c = (pcol s, pita s, pund s);
  p_wf : scr_wf s;
  p_link : Rlink c s }.
Lemma Rpre_init ta : Rpre (ctx_init ta) scr0.
Proof.
  split; try reflexivity.
  - split; apply mem_wf_mem0.
  - destruct (Rpop_init ta) as [_ HL]. exact HL.
Qed.
Lemma step_ru_init c s w : Rpre c s -> d_chan (decode w) = 1 -> is_second_copy s w = false ->
  d_cls (decode w) = cControl -> kRU2 <= d_code (decode w) <= kRU4 ->
  Rru (ru_depth (d_code (decode w))) (step c w) (feed dev0 s w) (mkGR true true true).
Proof.
  intros [A Hact Hmd G H HL] Hc Hd Hcls Hk. set (n := ru_depth (d_code (decode w))).
  assert (E : 2 <= n <= 4) by (unfold n, ru_depth, kRU2, kRU4 in *; lia).
  rewrite (step_control c w A (not_dup_code c s w HL Hc Hd) Hc Hcls), (feed_control s w Hc Hd Hcls).
  set (c1 := code_ctx c). set (s0 := set_chan (set_last s (Some (value w))) 1).
  assert (Ea : c_act c1 = None) by exact Hact.
  destruct (ru_new_model c1 _ Ea Hk) as (X1 & X2 & X3 & X4 & X5 & X6 & X7 & X8).
  assert (Es : control dev0 s0 (d_code (decode w)) = set_pos (set_md (set_nond (set_disp s0 mem0) mem0) (RollUp n)) 15 0).
  { unfold control. unfold kRU2, kRU4 in Hk. unfold kRCL, kRDC, kRU2, kRU4.
    replace (d_code (decode w) =? 0) with false by lia. replace (d_code (decode w) =? 9) with false by lia.
    replace ((5 <=? d_code (decode w)) && (d_code (decode w) <=? 7)) with true by lia. change (md s0) with (md s). rewrite Hmd. reflexivity. }
  rewrite Es.
  assert (Hblank : forall r k, is_blank (mcell mem0 r k) = true) by (intros r k; rewrite mcell_mem0; reflexivity).
  destruct (new_ru_caption (Some (c_count c1 + 1)) (Some (c_tc c1)) mem0 n (pen_of c1) E Hblank) as (N1 & N2 & N3 & l & N4 & N5).
  apply (wrap_code_ru n c s _ w _ _ cControl HL Hc); try reflexivity.
  - split.
    + rewrite X2. exact A.
    + exact X3.
    + exact X4.
    + reflexivity.
    + exact E.
    + reflexivity.
    + unfold pen_of. rewrite X5, X6, X7. exact G.
    + split; apply mem_wf_mem0.
    + rewrite X1. cbn [disp set_pos set_md set_nond set_disp gr_live gr_fresh]. split; [reflexivity|]. split; [exact N1|]. split; [exact N2|]. intros _. exact N3.
  - intros _. split; [cbn [ccol set_pos]; lia|]. eexists _, l, _, _. rewrite X1. split; [reflexivity|]. cbn [ccol set_pos]. split; [exact N4|].
    unfold pen_of in *. rewrite X5, X6, X7. exact N5.
  - rewrite X8. reflexivity.
Qed.

(* ---- words that change no caption ---- *)
Lemma Rru_quiet n c s g c' s' : Rru n c s g ->
  c_err c' = c_err c -> c_style c' = c_style c -> c_depth c' = c_depth c -> c_color c' = c_color c -> c_italic c' = c_italic c ->
  c_under c' = c_under c -> c_act c' = c_act c ->
  md s' = md s -> crow s' = crow s -> ccol s' = ccol s -> pcol s' = pcol s -> pita s' = pita s -> pund s' = pund s -> disp s' = disp s -> nond s' = nond s ->
  Rlink c' s' -> Rru n c' s' g.
Proof.
  intros (Hb & Hp & _) E1 E2 E3 E4 E5 E6 E7 F1 F2 F3 F4 F5 F6 F7 F8 HL. split; [|split; [|exact HL]].
  - now apply (Rub_same n c s g).
  - intros Hg. now apply (Rupos_same c s c' s' (Hp Hg)).
Qed.
Lemma step_ru_pad n c s g w : Rru n c s g -> value w = 0 -> Rru n (step c w) (feed dev0 s w) g.
Proof.
  intros HR Hv. pose proof HR as (Hb & _ & [A B C D]). rewrite (step_pad c w (u_err _ _ _ _ Hb) Hv), (feed_pad dev0 s w Hv).
  apply (Rru_quiet n c s g); try reflexivity; [exact HR|]. split; try assumption.
  - intros w' _. reflexivity.
  - intros pv H. discriminate H.
Qed.
Lemma step_ru_other n c s g w : Rru n c s g -> value w <> 0 -> byte1 w < 32 -> d_chan (decode w) = 2 -> Rru n (step c w) (feed dev0 s w) g.
Proof.
  intros HR Hv Hb Hc. pose proof HR as (Hbase & _ & HL). assert (Hn : d_chan (decode w) <> 1) by lia.
  rewrite (step_other c w (u_err _ _ _ _ Hbase) (not_dup_other c s w HL Hn) Hv Hb Hn), (feed_code_cls dev0 s w Hv Hb).
  cbv zeta. rewrite Hc. change (negb (2 =? 1)) with true. change (2 =? 2) with true. cbv iota.
  apply (Rru_quiet n c s g); try reflexivity; [exact HR|]. destruct HL as [A B C D]. split.
  - reflexivity.
  - intros w' Hw'. destruct (is_second_copy s w) eqn:Es; unfold is_dup; unfold is_second_copy at 1;
      cbn [c_prev with_prev last set_chan set_last]; [reflexivity|]. destruct (value w =? value w') eqn:E; [|reflexivity].
    assert (Hvv : value w = value w') by lia. rewrite (decode_value w w' Hvv) in Hc. lia.
  - intros pv H. discriminate H.
  - exact D.
Qed.
Lemma step_ru_dup n c s g w : Rru n c s g -> d_chan (decode w) = 1 -> is_second_copy s w = true -> Rru n (step c w) (feed dev0 s w) g.
Proof.
  intros HR Hc Hd. pose proof HR as (Hbase & _ & HL). destruct (ch1_bytes w Hc) as [Hb Hv].
  assert (Hdup : is_dup c w = true) by (rewrite (r_dup _ _ HL w Hc); exact Hd).
  rewrite (step_dup c w (u_err _ _ _ _ Hbase) Hdup), (feed_code_cls dev0 s w) by lia.
  cbv zeta. rewrite Hc, Hd. change (negb (1 =? 1)) with false. cbv iota.
  apply (Rru_quiet n c s g); try reflexivity; [exact HR|]. destruct HL as [A B C D]. split; try assumption.
  - intros w' _. reflexivity.
  - intros pv H. discriminate H.
Qed.
Lemma step_ru_chars_other n c s g w : Rru n c s g -> 32 <= byte1 w -> (chan s =? 1) = false -> Rru n (step c w) (feed dev0 s w) g.
Proof.
  intros HR Hb Hch. pose proof HR as (Hbase & _ & HL). rewrite (step_chars c w (u_err _ _ _ _ Hbase) Hb), (feed_chars dev0 s w Hb). cbv zeta.
  rewrite (r_chan _ _ HL). change (chan (set_last s None)) with (chan s). rewrite Hch. cbn [negb].
  apply (Rru_quiet n c s g); try reflexivity; [exact HR|]. destruct HL as [A B C D]. split; try assumption.
  - intros w' _. reflexivity.
  - intros pv H. discriminate H.
Qed.
(* a carriage return when nothing is displayed (after EDM) *)
Lemma step_ru_cr_dead n c s g w : Rru n c s g -> d_chan (decode w) = 1 -> is_second_copy s w = false ->
  d_cls (decode w) = cControl -> d_code (decode w) = kCR -> gr_live g = false ->
  Rru n (step c w) (feed dev0 s w) (mkGR false false false).
Proof.
  intros (Hb & Hp & HL) Hc Hd Hcls Hk Hlive.
  rewrite (step_control c w (u_err _ _ _ _ Hb) (not_dup_code c s w HL Hc Hd) Hc Hcls), (feed_control s w Hc Hd Hcls), Hk.
  set (c1 := code_ctx c). set (s0 := set_chan (set_last s (Some (value w))) 1).
  assert (Hb1 : Rub n c1 s0 g) by (apply (Rub_same n c s g); try reflexivity; exact Hb).
  pose proof Hb1 as [A B C D E F G H I].
  destruct (c_act c1) as [a|] eqn:Ea; [destruct I as [I _]; congruence|]. destruct I as (_ & I2).
  assert (Em : process_control c1 kCR = c1).
  { unfold process_control. change kCR with Model.SccReader.kCR. cbn [Z.eqb Model.SccReader.kCR Model.SccReader.kRCL Model.SccReader.kRDC Model.SccReader.kRU2 Model.SccReader.kRU3 Model.SccReader.kRU4 Model.SccReader.kEOC Model.SccReader.kEDM Model.SccReader.kENM Model.SccReader.kTO1 Model.SccReader.kTO2 Model.SccReader.kTO3 Pos.eqb orb]. rewrite Ea. reflexivity. }
  assert (Es : control dev0 s0 kCR = set_pos (set_disp s0 (roll (disp s0) 15 n)) 15 0).
  { unfold control. cbn [Z.eqb kCR kRCL kRDC kRU2 kRU4 Pos.eqb andb Z.leb Z.compare Pos.compare Pos.compare_cont]. rewrite D, F. reflexivity. }
  rewrite Em, Es.
  apply (wrap_code_ru n c s _ w _ _ cControl HL Hc); try reflexivity.
  - split; try assumption; try reflexivity.
    + destruct H as [H1 H2]. split; [cbn [disp set_pos set_disp]; now apply roll_wf|exact H2].
    + rewrite Ea. split; [reflexivity|]. intros r k. cbn [disp set_pos set_disp].
      destruct (Z_le_dec 1 r); [destruct (Z_le_dec r 15)|]; [|rewrite mcell_outside by (unfold in_rows; lia); reflexivity..].
      rewrite mcell_roll by (try apply H; unfold in_rows; lia). destruct (in_window 15 n r); [destruct (r =? 15); [reflexivity|apply I2]|apply I2].
  - discriminate.
Qed.

(* ---- the stream class ---- *)
(* one word of a roll-up stream of depth n with base row 15: None when it is outside the class.  Accepted: null padding; data
   channel 2; second copies; on channel 1 CR, EDM, RUx of the same depth, a PAC for row 15 while nothing has been written on the
   base row, and - once the cursor is positioned - characters, special and extended characters, mid-row codes, tab offsets, DER.
   Not in the class: a PAC for another row (recorded finding rollup-base-row-forced-15) or on a base row that holds text,
   RCL / RDC / EOC / ENM (other protocols), BS, attribute codes, a change of depth, text after EDM before a CR or PAC
   (recorded finding rollup-text-after-edm-row0). *)
Definition ru_word (n : Z) (s : scr) (g : gru) (w : Z) : option gru :=
  if value w =? 0 then Some g
  else if byte1 w <? 32 then
    let d := decode w in
    if d_chan d =? 2 then Some g
    else if negb (d_chan d =? 1) then None
    else if is_second_copy s w then Some g
    else if d_cls d =? cPac then
      if (d_row d =? 15) && ((d_indent d =? -1) || ((0 <=? d_indent d) && (d_indent d <=? 28))) && gr_live g && gr_fresh g
      then Some (mkGR true true true) else None
    else if d_cls d =? cMidRow then
      if gr_pos g && (ccol s + 1 <=? 31) && (if d_italic d then d_color d =? -1 else negb (d_color d =? -1))
      then Some (mkGR true false (gr_live g)) else None
    else if d_cls d =? cControl then
      let k := d_code d in
      if k =? kCR then Some (if gr_live g then mkGR true true true else mkGR false false false)
      else if k =? kEDM then Some (mkGR false false false)
      else if (kRU2 <=? k) && (k <=? kRU4) then (if ru_depth k =? n then Some (if gr_live g then g else mkGR false true true) else None)
      else if (kTO1 <=? k) && (k <=? kTO1 + 2) then (if gr_pos g && (ccol s + (k - kTO1 + 1) <=? 31) then Some (mkGR true false (gr_live g)) else None)
      else if k =? kDER then (if gr_pos g then Some g else None)
      else None
    else if d_cls d =? cSpecial then (if gr_pos g && (ccol s + 1 <=? 31) then Some (mkGR true false (gr_live g)) else None)
    else if d_cls d =? cExtended then
      (if gr_pos g && (1 <=? ccol s) && negb (is_blank (mcell (disp s) (crow s) (ccol s - 1))) then Some (mkGR true false (gr_live g)) else None)
    else None
  else
    if chan s =? 1 then (if gr_pos g && (ccol s + zlen (to_text w) <=? 31) then Some (mkGR true false (gr_live g)) else None) else Some g.
Lemma step_ru n c s g w g' : Rru n c s g -> ru_word n s g w = Some g' -> Rru n (step c w) (feed dev0 s w) g'.
Proof.
  intros HR Hw. unfold ru_word in Hw.
  destruct (value w =? 0) eqn:Ev.
  { injection Hw as <-. apply step_ru_pad; [exact HR|lia]. }
  destruct (byte1 w <? 32) eqn:Eb.
  2:{ pose proof (byte1_range w). destruct (chan s =? 1) eqn:Ech.
      - destruct (gr_pos g && (ccol s + zlen (to_text w) <=? 31)) eqn:E1; [|discriminate]. injection Hw as <-.
        apply andb_true_iff in E1 as [E1 E2]. apply step_ru_chars; try assumption; lia.
      - injection Hw as <-. apply step_ru_chars_other; try assumption; lia. }
  cbv zeta in Hw.
  destruct (d_chan (decode w) =? 2) eqn:Ec2.
  { injection Hw as <-. apply step_ru_other; try assumption; lia. }
  destruct (d_chan (decode w) =? 1) eqn:Ec1; [|discriminate]. cbn [negb] in Hw.
  assert (Hc : d_chan (decode w) = 1) by lia.
  destruct (is_second_copy s w) eqn:Ed.
  { injection Hw as <-. now apply step_ru_dup. }
  destruct (d_cls (decode w) =? cPac) eqn:Epac.
  { destruct (_ && _) eqn:E1 in Hw; [|discriminate]. injection Hw as <-.
    apply andb_true_iff in E1 as [E1 E4]. apply andb_true_iff in E1 as [E1 E3]. apply andb_true_iff in E1 as [E1 E2].
    apply (step_ru_pac n c s g w); try assumption; lia. }
  destruct (d_cls (decode w) =? cMidRow) eqn:Emid.
  { destruct (_ && _) eqn:E1 in Hw; [|discriminate]. injection Hw as <-.
    apply andb_true_iff in E1 as [E1 E4]. apply andb_true_iff in E1 as [E1 E2].
    apply step_ru_midrow; try assumption; lia. }
  destruct (d_cls (decode w) =? cControl) eqn:Ectl.
  { assert (Hcls : d_cls (decode w) = cControl) by lia.
    set (k := d_code (decode w)) in *.
    destruct (k =? kCR) eqn:K1.
    { injection Hw as <-. destruct (gr_live g) eqn:El; [apply (step_ru_cr n c s g w)|apply (step_ru_cr_dead n c s g w)]; try assumption; fold k; lia. }
    destruct (k =? kEDM) eqn:K2. { injection Hw as <-. apply (step_ru_edm n c s g w); try assumption. fold k. lia. }
    destruct ((kRU2 <=? k) && (k <=? kRU4)) eqn:K3.
    { destruct (ru_depth k =? n) eqn:E1; [|discriminate]. injection Hw as <-.
      destruct (gr_live g) eqn:El; [apply step_ru_ru_live|apply (step_ru_ru_new n c s g w)]; try assumption; fold k; lia. }
    destruct ((kTO1 <=? k) && (k <=? kTO1 + 2)) eqn:K5.
    { destruct (gr_pos g && (ccol s + (k - kTO1 + 1) <=? 31)) eqn:E1; [|discriminate]. injection Hw as <-.
      apply andb_true_iff in E1 as [E1 E2]. apply step_ru_to; try assumption; fold k; lia. }
    destruct (k =? kDER) eqn:K6; [|discriminate].
    destruct (gr_pos g) eqn:E1; [|discriminate]. injection Hw as <-. apply step_ru_der; try assumption. fold k. lia. }
  destruct (d_cls (decode w) =? cSpecial) eqn:Esp.
  { destruct (gr_pos g && (ccol s + 1 <=? 31)) eqn:E1; [|discriminate]. injection Hw as <-.
    apply andb_true_iff in E1 as [E1 E2]. apply step_ru_special; try assumption; lia. }
  destruct (d_cls (decode w) =? cExtended) eqn:Eext; [|discriminate].
  destruct (_ && _) eqn:E1 in Hw; [|discriminate]. injection Hw as <-.
  apply andb_true_iff in E1 as [E1 E3]. apply andb_true_iff in E1 as [E1 E2].
  apply step_ru_extended; try assumption; try lia. now apply negb_true_iff in E3.
Qed.

(* ---- sequences of words, lines, files ---- *)
Fixpoint ru_words (n : Z) (s : scr) (g : gru) (ws : list Z) : option (scr * gru) :=
  match ws with
  | [] => Some (s, g)
  | w :: ws' => match ru_word n s g w with Some g' => ru_words n (feed dev0 s w) g' ws' | None => None end
  end.
Fixpoint ru_lines (n : Z) (s : scr) (g : gru) (ls : list (tcv * list Z)) : option (scr * gru) :=
  match ls with
  | [] => Some (s, g)
  | l :: ls' => match ru_words n s g (snd l) with Some (s1, g1) => ru_lines n s1 g1 ls' | None => None end
  end.
Lemma Rru_with_tc n c s g t : Rru n c s g -> Rru n (with_tc c t) s g.
Proof. intros HR. apply (Rru_quiet n c s g); try reflexivity; [exact HR|]. destruct HR as (_ & _ & [A B C D]). split; assumption. Qed.
Lemma steps_ru n ws : forall c s g s' g', Rru n c s g -> ru_words n s g ws = Some (s', g') ->
  Rru n (fold_left step ws c) s' g' /\ s' = fold_left (feed dev0) ws s.
Proof.
  induction ws as [|w ws IH]; intros c s g s' g' HR Hw; cbn [ru_words fold_left] in *.
  - injection Hw as <- <-. split; [exact HR|reflexivity].
  - destruct (ru_word n s g w) as [g1|] eqn:E; [|discriminate]. apply (IH _ _ _ _ _ (step_ru n c s g w g1 HR E) Hw).
Qed.
Lemma lines_ru n ls : forall c s g s' g', Rru n c s g -> ru_lines n s g ls = Some (s', g') ->
  Rru n (run_words c ls) s' g' /\ s' = fold_left (fun s l => fold_left (feed dev0) (snd l) s) ls s.
Proof.
  induction ls as [|l ls IH]; intros c s g s' g' HR Hl; cbn [ru_lines run_words fold_left] in *.
  - injection Hl as <- <-. split; [exact HR|reflexivity].
  - destruct (ru_words n s g (snd l)) as [[s1 g1]|] eqn:E; [|discriminate].
    destruct (steps_ru n (snd l) (with_tc c (fst l)) s g s1 g1 (Rru_with_tc n c s g (fst l) HR) E) as [H1 H2].
    subst s1. apply (IH _ _ _ _ _ H1 Hl).
Qed.
(* the first word of the stream selects the roll-up mode *)
Definition ru_start (w : Z) : option Z :=
  let d := decode w in
  if (d_chan d =? 1) && (d_cls d =? cControl) && (kRU2 <=? d_code d) && (d_code d <=? kRU4) then Some (ru_depth (d_code d)) else None.
Theorem rollup_memories ta t0 w0 ws0 rest n s1 g1 s' g' : ru_start w0 = Some n ->
  ru_words n (feed dev0 scr0 w0) (mkGR true true true) ws0 = Some (s1, g1) -> ru_lines n s1 g1 rest = Some (s', g') ->
  let c := run_words (ctx_init ta) ((t0, w0 :: ws0) :: rest) in
  s' = fold_left (fun s l => fold_left (feed dev0) (snd l) s) ((t0, w0 :: ws0) :: rest) scr0 /\
  c_err c = false /\ md s' = RollUp n /\
  match c_act c with Some a => shows a (disp s') | None => forall r k, is_blank (mcell (disp s') r k) = true end.
Proof.
  intros Hst Hw Hl. cbv zeta. unfold ru_start in Hst. cbv zeta in Hst.
  destruct ((d_chan (decode w0) =? 1) && (d_cls (decode w0) =? cControl) && (kRU2 <=? d_code (decode w0)) && (d_code (decode w0) <=? kRU4)) eqn:E; [|discriminate].
  injection Hst as <-.
  apply andb_true_iff in E as [E E4]. apply andb_true_iff in E as [E E3]. apply andb_true_iff in E as [E1 E2].
  pose proof (Rpre_init ta) as Hpre.
  assert (Hpre0 : Rpre (with_tc (ctx_init ta) t0) scr0).
  { destruct Hpre as [A B C D F [L1 L2 L3 L4]]. split; try assumption. split; assumption. }
  assert (HR0 : Rru (ru_depth (d_code (decode w0))) (step (with_tc (ctx_init ta) t0) w0) (feed dev0 scr0 w0) (mkGR true true true)).
  { apply step_ru_init; [exact Hpre0|lia|reflexivity|lia|lia]. }
  destruct (steps_ru _ ws0 _ _ _ _ _ HR0 Hw) as [HR1 Es1].
  destruct (lines_ru _ rest _ _ _ _ _ HR1 Hl) as [HR2 Es2].
  cbn [run_words fold_left fst snd]. fold (run_words (fold_left step ws0 (step (with_tc (ctx_init ta) t0) w0)) rest).
  split; [rewrite Es2, Es1; reflexivity|].
  destruct HR2 as ([A B C D E5 F G H I] & _ & _). split; [exact A|]. split; [exact D|].
  destruct (c_act _); [destruct I as (_ & I2 & _); exact (pm_cells _ _ _ I2)|destruct I as (_ & I2); exact I2].
Qed.
