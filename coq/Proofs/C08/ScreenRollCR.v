(* C08, display simulation, roll-up, part 3: the carriage return - roll_up, get_last_caption_lines, set_lines on the new
   caption - row by row. *)
From Coq Require Import QArith.
From TT Require Import Base.Prelude Base.SccTypes Base.SccDoc Gen.SccTables Model.SccWord Model.TimeCode Model.SccReader Spec.Cea608Screen.
From TT Require Import Proofs.C08.Text Proofs.C08.ScreenMem Proofs.C08.ScreenLine Proofs.C08.ScreenPara Proofs.C08.ScreenRows Proofs.C08.ScreenDoc.
Open Scope Z_scope.

(* ---- roll_up: every line moves one row up ---- *)
Definition roll_step (d : list (Z * cline)) (kv : Z * cline) : list (Z * cline) :=
  let d1 := ddel (fst kv) d in if fst kv =? 0 then d1 else dset (fst kv - 1) (line_set_row (snd kv) (fst kv - 1)) d1.
Definition roll_fold (l d : list (Z * cline)) : list (Z * cline) := fold_left roll_step l d.
Lemma roll_up_lines p : p_lines (roll_up p) = roll_fold (ksort (p_lines p)) (p_lines p).
Proof. reflexivity. Qed.
(* the line that arrives on row r *)
Fixpoint shift_get (l : list (Z * cline)) (r : Z) : option cline :=
  match l with
  | [] => None
  | (k, v) :: l' => if (k - 1 =? r) && negb (k =? 0) then Some (line_set_row v r) else shift_get l' r
  end.
Fixpoint has_key {A} (l : list (Z * A)) (r : Z) : bool := match l with [] => false | (k, _) :: l' => (k =? r) || has_key l' r end.
Lemma shift_get_above lo l r : kinc lo l -> r < lo -> shift_get l r = None.
Proof.
  revert lo. induction l as [|[k v] l IH]; intros lo H Hr; cbn; [reflexivity|]. destruct H as [H1 H2].
  replace (k - 1 =? r) with false by lia. cbn [andb]. apply (IH k H2). lia.
Qed.
Lemma has_key_above {A} lo (l : list (Z * A)) r : kinc lo l -> r <= lo -> has_key l r = false.
Proof.
  revert lo. induction l as [|[k v] l IH]; intros lo H Hr; cbn; [reflexivity|]. destruct H as [H1 H2].
  replace (k =? r) with false by lia. cbn [orb]. apply (IH k H2). lia.
Qed.
Lemma nodup_dset {A} k (v : A) d : NoDup (map fst d) -> NoDup (map fst (dset k v d)).
Proof.
  intros H. destruct (dget k d) as [x|] eqn:E; [rewrite (dset_keys_present k v x d E); exact H|now apply nodup_dset_new].
Qed.
Lemma roll_fold_get l : forall lo d r, kinc lo l -> NoDup (map fst d) ->
  dget r (roll_fold l d) = match shift_get l r with Some x => Some x | None => if has_key l r then None else dget r d end.
Proof.
  induction l as [|[k v] l IH]; intros lo d r Hk Hn; cbn [roll_fold fold_left shift_get has_key]; [reflexivity|].
  destruct Hk as [H1 H2]. fold (roll_fold l (roll_step d (k, v))).
  assert (Hn' : NoDup (map fst (roll_step d (k, v)))).
  { unfold roll_step. cbn [fst snd]. destruct (k =? 0); [now apply nodup_ddel|]. apply nodup_dset. now apply nodup_ddel. }
  rewrite (IH k _ r H2 Hn'). destruct (shift_get l r) as [x|] eqn:Es.
  - (* r is reached from a later key: r >= k *)
    assert (Hr : k <= r). { destruct (r <? k) eqn:E; [|lia]. rewrite (shift_get_above k l r H2) in Es by lia. discriminate. }
    replace (k - 1 =? r) with false by lia. reflexivity.
  - destruct ((k - 1 =? r) && negb (k =? 0)) eqn:E1.
    + rewrite (has_key_above k l r H2) by lia. unfold roll_step. cbn [fst snd]. replace (k =? 0) with false by lia.
      rewrite dget_dset. replace (r =? k - 1) with true by lia. f_equal. f_equal. lia.
    + destruct (has_key l r) eqn:Eh; [rewrite orb_true_r; reflexivity|]. rewrite orb_false_r.
      unfold roll_step. cbn [fst snd]. destruct (k =? r) eqn:Ekr.
      * assert (k = r) by lia. subst r. destruct (k =? 0) eqn:E0.
        -- now apply dget_ddel_nodup.
        -- rewrite dget_dset. replace (k =? k - 1) with false by lia. now apply dget_ddel_nodup.
      * destruct (k =? 0) eqn:E0.
        -- apply dget_ddel_other. lia.
        -- rewrite dget_dset. replace (r =? k - 1) with false by lia. apply dget_ddel_other. lia.
Qed.
(* on the sorted items of the dictionary itself *)
Lemma shift_get_sorted l : forall lo r, kinc lo l -> 0 <= lo ->
  shift_get l r = match dget (r + 1) l with Some v => Some (line_set_row v r) | None => None end.
Proof.
  induction l as [|[k v] l IH]; intros lo r Hk H0; cbn [shift_get dget]; [reflexivity|]. destruct Hk as [H1 H2].
  replace (negb (k =? 0)) with true by lia. rewrite andb_true_r.
  destruct (k - 1 =? r) eqn:E; [replace (r + 1 =? k) with true by lia; reflexivity|].
  replace (r + 1 =? k) with false by lia. apply (IH k r H2). lia.
Qed.
Lemma has_key_dget {A} (l : list (Z * A)) r : has_key l r = match dget r l with Some _ => true | None => false end.
Proof. induction l as [|[k v] l IH]; cbn; [reflexivity|]. rewrite Z.eqb_sym. destruct (r =? k); [reflexivity|exact IH]. Qed.
Lemma roll_up_get p r : NoDup (map fst (p_lines p)) -> (forall k, In k (map fst (p_lines p)) -> 0 < k) ->
  dget r (p_lines (roll_up p)) = match dget (r + 1) (p_lines p) with Some v => Some (line_set_row v r) | None => None end.
Proof.
  intros Hn Hpos. rewrite roll_up_lines.
  assert (Hk : kinc 0 (ksort (p_lines p))) by (apply ksort_inc; assumption).
  rewrite (roll_fold_get _ 0 _ r Hk Hn). rewrite (shift_get_sorted _ 0 r Hk) by lia. rewrite (dget_ksort _ _ Hn).
  destruct (dget (r + 1) (p_lines p)); [reflexivity|]. rewrite has_key_dget, (dget_ksort _ _ Hn).
  destruct (dget r (p_lines p)); reflexivity.
Qed.
Lemma roll_up_nodup p : NoDup (map fst (p_lines p)) -> NoDup (map fst (p_lines (roll_up p))).
Proof.
  intros Hn. rewrite roll_up_lines. generalize (ksort (p_lines p)). intros l. revert Hn. generalize (p_lines p).
  induction l as [|kv l IH]; intros d Hn; cbn [roll_fold fold_left]; [exact Hn|]. apply IH.
  unfold roll_step. destruct (fst kv =? 0); [now apply nodup_ddel|]. apply nodup_dset. now apply nodup_ddel.
Qed.

(* ---- sorted items whose keys are exactly an interval ---- *)
Definition interval_keys {A} (S : list (Z * A)) (lo hi : Z) : Prop := forall r, In r (map fst S) <-> lo <= r <= hi.
Lemma interval_sorted {A} (S : list (Z * A)) : forall lo hi, kinc (lo - 1) S -> interval_keys S lo hi ->
  zlen S = Z.max 0 (hi - lo + 1) /\
  forall j, (0 <= j)%nat -> forall r v, In (r, v) (skipn j S) <-> In (r, v) S /\ lo + Z.of_nat j <= r.
Proof.
  induction S as [|[k v] S IH]; intros lo hi Hk Hi.
  - split.
    + unfold zlen. cbn. destruct (hi - lo + 1 <=? 0) eqn:E; [lia|]. exfalso. assert (In lo (map fst (@nil (Z * A)))) by (apply Hi; lia). contradiction.
    + intros j _ r v. rewrite skipn_nil. cbn. tauto.
  - cbn [kinc] in Hk. destruct Hk as [H1 H2].
    assert (Hklo : k = lo).
    { assert (Hin : In k (map fst ((k, v) :: S))) by now left. apply Hi in Hin.
      assert (Hlo : In lo (map fst ((k, v) :: S))) by (apply Hi; lia). destruct Hlo as [Hlo|Hlo]; [cbn in Hlo; lia|].
      pose proof (kinc_keys_above k S H2 lo Hlo). lia. }
    subst k.
    assert (Hi' : interval_keys S (lo + 1) hi).
    { intros r. split.
      - intros Hr. pose proof (kinc_keys_above lo S H2 r Hr). assert (In r (map fst ((lo, v) :: S))) by now right. apply Hi in H0. lia.
      - intros Hr. assert (Hin : In r (map fst ((lo, v) :: S))) by (apply Hi; lia). destruct Hin as [Hin|Hin]; [cbn in Hin; lia|exact Hin]. }
    assert (Hk' : kinc (lo + 1 - 1) S) by (replace (lo + 1 - 1) with lo by lia; exact H2).
    destruct (IH (lo + 1) hi Hk' Hi') as [L1 L2].
    assert (Hhi : lo <= hi) by (assert (In lo (map fst ((lo, v) :: S))) by (now left); apply Hi in H; lia).
    split.
    + unfold zlen in *. cbn [length]. lia.
    + intros j _ r v0. destruct j as [|j]; cbn [skipn].
      * split; [intros Hin; split; [exact Hin|]|tauto]. assert (In r (map fst ((lo, v) :: S))) by (change r with (fst (r, v0)); now apply in_map). apply Hi in H. lia.
      * rewrite (L2 j ltac:(lia) r v0). split.
        -- intros [Hin Hr]. split; [now right|lia].
        -- intros [[Heq|Hin] Hr]; [injection Heq as <- <-; lia|]. split; [exact Hin|lia].
Qed.

Lemma find_app_l {A} (f : A -> bool) l1 l2 : find f (l1 ++ l2) = match find f l1 with Some x => Some x | None => find f l2 end.
Proof. induction l1 as [|x l1 IH]; cbn; [reflexivity|]. destruct (f x); [reflexivity|exact IH]. Qed.
(* ---- set_lines(list) on a paragraph whose current line is its initial line ---- *)
Lemma set_lines_list_get ls : forall q, p_cur q = Att 0 -> (forall l, In l ls -> l_row l <> 0) -> NoDup (map fst (p_lines q)) ->
  p_cur (set_lines_list q ls) = Att 0 /\ p_cursor (set_lines_list q ls) = p_cursor q /\ p_style (set_lines_list q ls) = p_style q /\
  NoDup (map fst (p_lines (set_lines_list q ls))) /\
  forall r, dget r (p_lines (set_lines_list q ls)) =
            match find (fun l => l_row l =? r) (rev ls) with Some l => Some l | None => dget r (p_lines q) end.
Proof.
  unfold set_lines_list. induction ls as [|l ls IH]; intros q Hc Hrow Hn; cbn [fold_left].
  - repeat split; try assumption.
  - rewrite Hc. assert (Hl0 : (0 =? l_row l) = false) by (apply Z.eqb_neq; intros E; apply (Hrow l); [now left|lia]). rewrite Hl0.
    set (q1 := set_plines q (dset (l_row l) l (p_lines q))).
    assert (Hc1 : p_cur q1 = Att 0) by exact Hc.
    assert (Hn1 : NoDup (map fst (p_lines q1))) by (unfold q1; cbn [p_lines set_plines]; now apply nodup_dset).
    destruct (IH q1 Hc1 (fun x Hx => Hrow x (or_intror Hx)) Hn1) as (A & B & C & D & E).
    split; [exact A|]. split; [exact B|]. split; [exact C|]. split; [exact D|]. intros r. rewrite E. cbn [rev]. rewrite find_app_l.
    destruct (find (fun l0 => l_row l0 =? r) (rev ls)); [reflexivity|]. cbn [find]. unfold q1. cbn [p_lines set_plines]. rewrite dget_dset.
    rewrite (Z.eqb_sym r). destruct (l_row l =? r); reflexivity.
Qed.

(* ---- the caption after a carriage return ---- *)
Definition keys_between (a : para) (lo : Z) : Prop := forall r, dget r (p_lines a) <> None <-> lo <= r <= 15.
Definition cr_para (a : para) (n : Z) (x : option Z) (y : option tcv) : para :=
  set_cursor_at (set_lines_list (set_begin (set_id (para_new sRollUp) x) y) (last_lines (roll_up a) (n - 1))) roll_up_base_row (-1).
Lemma dget_some_in {A} (d : list (Z * A)) k v : dget k d = Some v -> In (k, v) d.
Proof. induction d as [|[k2 v2] d IH]; cbn; [discriminate|]. destruct (k =? k2) eqn:E; [intros H; injection H as <-; left; f_equal; lia|right; auto]. Qed.
Lemma skipn_map {A B} (f : A -> B) j l : skipn j (map f l) = map f (skipn j l).
Proof. revert l. induction j; intros [|x l]; cbn; auto. Qed.
Lemma cr_lines a n lo x y : 2 <= n <= 4 -> NoDup (map fst (p_lines a)) -> 16 - n <= lo <= 15 -> keys_between a lo ->
  let a2 := cr_para a n x y in
  p_cur a2 = Att 15 /\ p_cursor a2 = (15, 0) /\ p_style a2 = sRollUp /\ NoDup (map fst (p_lines a2)) /\
  forall r, dget r (p_lines a2) =
            if r =? 15 then Some (line_new 15 0)
            else if (Z.max (lo - 1) (16 - n) <=? r) && (r <=? 14)
                 then match dget (r + 1) (p_lines a) with Some v => Some (line_set_row v r) | None => None end
                 else None.
Proof.
  intros Hn Hnd Hlo Hkeys. cbv zeta. unfold cr_para.
  assert (Hpos : forall k, In k (map fst (p_lines a)) -> 0 < k).
  { intros k Hk. destruct (dget k (p_lines a)) eqn:E; [|apply dget_none_keys in E; contradiction].
    assert (lo <= k <= 15) by (apply Hkeys; rewrite E; discriminate). lia. }
  set (L1 := p_lines (roll_up a)).
  assert (HL1 : forall r, dget r L1 = match dget (r + 1) (p_lines a) with Some v => Some (line_set_row v r) | None => None end)
    by (intros r; apply roll_up_get; assumption).
  assert (Hnd1 : NoDup (map fst L1)) by now apply roll_up_nodup.
  assert (Hk1 : forall r, In r (map fst L1) <-> lo - 1 <= r <= 14).
  { intros r. split.
    - intros Hin. destruct (dget r L1) eqn:E; [|apply dget_none_keys in E; contradiction]. rewrite HL1 in E.
      destruct (dget (r + 1) (p_lines a)) eqn:E2; [|discriminate]. assert (lo <= r + 1 <= 15) by (apply Hkeys; rewrite E2; discriminate). lia.
    - intros Hr. assert (Hne : dget (r + 1) (p_lines a) <> None) by (apply Hkeys; lia).
      destruct (dget (r + 1) (p_lines a)) eqn:E2; [|contradiction]. apply (dget_in_keys r L1 (line_set_row c r)). rewrite HL1, E2. reflexivity. }
  set (S1 := ksort L1).
  assert (Hinc : kinc (lo - 1 - 1) S1) by (apply ksort_inc; [exact Hnd1|intros k Hk; apply Hk1 in Hk; lia]).
  assert (Hint : interval_keys S1 (lo - 1) 14) by (intros r; unfold S1; rewrite ksort_keys; apply Hk1).
  destruct (interval_sorted S1 (lo - 1) 14 Hinc Hint) as [Hlen Hskip].
  set (j := Z.to_nat (zlen S1 - (n - 1))).
  assert (Eprev : last_lines (roll_up a) (n - 1) = map snd (skipn j S1)).
  { unfold last_lines. replace (n - 1 <=? 0) with false by lia. unfold py_from. replace (0 <=? - (n - 1)) with false by lia.
    fold L1. fold S1. rewrite skipn_map. f_equal. f_equal. unfold j, zlen. rewrite map_length. f_equal; lia. }
  rewrite Eprev. set (prev := map snd (skipn j S1)).
  set (lo' := Z.max (lo - 1) (16 - n)).
  assert (Ej : lo - 1 + Z.of_nat j = lo') by (unfold j, lo'; rewrite Hlen; lia).
  (* the lines handed over *)
  assert (Hprev : forall l, In l prev <-> exists r, lo' <= r <= 14 /\ dget r L1 = Some l).
  { intros l. unfold prev. rewrite in_map_iff. split.
    - intros ([r l'] & <- & Hin). apply (Hskip j ltac:(lia)) in Hin. destruct Hin as [Hin Hr]. cbn [snd]. exists r.
      apply (proj1 (ksort_in L1 (r, l'))) in Hin. split; [|now apply (dget_in L1 r l' Hnd1)].
      assert (In r (map fst L1)) by (change r with (fst (r, l')); now apply in_map). apply Hk1 in H. lia.
    - intros (r & Hr & Hg). exists (r, l). split; [reflexivity|]. apply (Hskip j ltac:(lia)). split; [|lia].
      apply (proj2 (ksort_in L1 (r, l))). now apply dget_some_in. }
  assert (Hrowp : forall l r, dget r L1 = Some l -> l_row l = r).
  { intros l r Hg. rewrite HL1 in Hg. destruct (dget (r + 1) (p_lines a)); [injection Hg as <-; reflexivity|discriminate]. }
  set (a0 := set_begin (set_id (para_new sRollUp) x) y).
  assert (Hrows0 : forall l, In l prev -> l_row l <> 0).
  { intros l Hl. apply Hprev in Hl as (r & Hr & Hg). rewrite (Hrowp l r Hg). unfold lo' in Hr. lia. }
  destruct (set_lines_list_get prev a0 eq_refl Hrows0 ltac:(cbn; constructor; [intros []|constructor])) as (Q1 & Q2 & Q3 & Q4 & Q5).
  set (q := set_lines_list a0 prev) in *.
  (* the rows of the new paragraph before the cursor is set *)
  assert (Hq : forall r, dget r (p_lines q) = if r =? 0 then Some (line_new 0 0)
                         else if (lo' <=? r) && (r <=? 14) then dget r L1 else None).
  { intros r. rewrite Q5. destruct (find (fun l => l_row l =? r) (rev prev)) as [l|] eqn:Ef.
    - apply find_some in Ef as [Hin Hrow]. apply in_rev in Hin. apply Hprev in Hin as (r' & Hr' & Hg).
      rewrite (Hrowp l r' Hg) in Hrow. assert (r' = r) by lia. subst r'. replace (r =? 0) with false by (unfold lo' in Hr'; lia).
      replace ((lo' <=? r) && (r <=? 14)) with true by lia. now rewrite Hg.
    - unfold a0. cbn [p_lines set_begin set_id para_new dget]. destruct (r =? 0) eqn:E0; [reflexivity|].
      destruct ((lo' <=? r) && (r <=? 14)) eqn:E1; [|reflexivity].
      destruct (dget r L1) as [l|] eqn:Eg; [|reflexivity]. exfalso.
      assert (Hin : In l (rev prev)) by (apply in_rev; rewrite rev_involutive; apply Hprev; exists r; split; [lia|exact Eg]).
      pose proof (find_none _ _ Ef l Hin) as Hf. cbn in Hf. rewrite (Hrowp l r Eg) in Hf. lia. }
  assert (Hq0 : dget 0 (p_lines q) = Some (line_new 0 0)) by (rewrite Hq; reflexivity).
  assert (Hfresh : dget 15 (fresh_lines q 0 (line_new 0 0)) = None).
  { rewrite dget_fresh_lines by exact Q4. change (15 =? 0) with false. rewrite andb_false_r. rewrite Hq. change (15 =? 0) with false. change (15 <=? 14) with false. rewrite andb_false_r. reflexivity. }
  unfold roll_up_base_row. rewrite (set_cursor_at_fresh q 0 (line_new 0 0) 15 (-1) Q1 Hq0 eq_refl Hfresh). change (if -1 =? -1 then 0 else -1) with 0.
  split; [reflexivity|]. split; [reflexivity|]. split; [exact Q3|]. split.
  - unfold at_fresh. cbn [p_lines set_cur set_plines]. apply nodup_dset_new; [exact Hfresh|]. unfold fresh_lines. change (line_is_empty (line_new 0 0)) with true. cbv iota. now apply nodup_ddel.
  - intros r. unfold at_fresh. cbn [p_lines set_cur set_plines]. rewrite dget_dset. destruct (r =? 15) eqn:E15; [reflexivity|].
    rewrite dget_fresh_lines by exact Q4. change (line_is_empty (line_new 0 0)) with true. cbn [andb]. rewrite Hq.
    destruct (r =? 0) eqn:E0.
    + replace ((lo' <=? r) && (r <=? 14)) with false by (unfold lo'; lia). reflexivity.
    + fold lo'. destruct ((lo' <=? r) && (r <=? 14)); [apply HL1|reflexivity].
Qed.
From TT Require Import Proofs.C08.ScreenRollMem.
Lemma lcell_set_row l r c : lcell (line_set_row l r) c = lcell l c.
Proof. reflexivity. Qed.
Lemma cr_caption a n lo x y m u : 2 <= n <= 4 -> @para_mem sRollUp a m u -> 16 - n <= lo <= 15 -> keys_between a lo -> mem_wf m ->
  (forall r, In r u -> in_rows r) -> (forall r, in_rows r -> In r u) ->
  let a2 := cr_para a n x y in
  @para_mem sRollUp a2 (roll m 15 n) u /\ p_cur a2 = Att 15 /\ keys_between a2 (Z.max (lo - 1) (16 - n)) /\
  dget 15 (p_lines a2) = Some (line_new 15 0) /\ para_at a2 15 0 (line_new 15 0) [] text_new.
Proof.
  intros Hn Hpm Hlo Hkeys Hw Hu1 Hu2. cbv zeta.
  destruct (cr_lines a n lo x y Hn (pm_nodup _ _ _ Hpm) Hlo Hkeys) as (C1 & C2 & C3 & C4 & C5).
  set (a2 := cr_para a n x y) in *. set (lo' := Z.max (lo - 1) (16 - n)) in *.
  assert (H15 : dget 15 (p_lines a2) = Some (line_new 15 0)) by (rewrite C5; reflexivity).
  assert (Hk2 : keys_between a2 lo').
  { intros r. rewrite C5. destruct (r =? 15) eqn:E; [split; [lia|discriminate]|].
    destruct ((lo' <=? r) && (r <=? 14)) eqn:E1.
    - assert (Hne : dget (r + 1) (p_lines a) <> None) by (apply Hkeys; unfold lo' in E1; lia).
      destruct (dget (r + 1) (p_lines a)); [split; [lia|discriminate]|contradiction].
    - split; [intros H; now contradiction H|lia]. }
  split; [|split; [exact C1|split; [exact Hk2|split; [exact H15|]]]].
  - split.
    + intros r c Hr Hc. rewrite mcell_roll by assumption. unfold pcell. rewrite C5.
      pose proof (pm_cells _ _ _ Hpm) as Hcells.
      destruct (r =? 15) eqn:E15.
      * assert (r = 15) by lia. subst r. replace (in_window 15 n 15) with true by (unfold in_window; lia). rewrite lcell_empty by reflexivity. apply ceqv_refl.
      * destruct (in_window 15 n r) eqn:Ew.
        -- (* inside the window: the row below moves up *)
           assert (Hr1 : in_rows (r + 1)) by (unfold in_rows in *; unfold in_window in Ew; lia).
           specialize (Hcells (r + 1) c Hr1 Hc). unfold pcell in Hcells.
           destruct ((lo' <=? r) && (r <=? 14)) eqn:E1.
           ++ destruct (dget (r + 1) (p_lines a)); [rewrite lcell_set_row; exact Hcells|exact Hcells].
           ++ assert (Hn1 : dget (r + 1) (p_lines a) = None).
              { destruct (dget (r + 1) (p_lines a)) eqn:E2; [|reflexivity]. exfalso.
                assert (lo <= r + 1 <= 15) by (apply Hkeys; rewrite E2; discriminate). unfold in_window in Ew. unfold lo' in E1. lia. }
              rewrite Hn1 in Hcells. exact Hcells.
        -- (* outside: nothing was there, nothing is there *)
           specialize (Hcells r c Hr Hc). unfold pcell in Hcells.
           assert (Hn1 : dget r (p_lines a) = None).
           { destruct (dget r (p_lines a)) eqn:E2; [|reflexivity]. exfalso.
             assert (lo <= r <= 15) by (apply Hkeys; rewrite E2; discriminate). unfold in_window in Ew. lia. }
           rewrite Hn1 in Hcells. replace ((lo' <=? r) && (r <=? 14)) with false by (unfold in_window in Ew; unfold lo'; lia). exact Hcells.
    + intros r l. rewrite C5. destruct (r =? 15) eqn:E15.
      * intros H; injection H as <-. assert (r = 15) by lia. subst r. cbn. repeat split; try lia. repeat constructor.
      * destruct ((lo' <=? r) && (r <=? 14)); [|discriminate]. destruct (dget (r + 1) (p_lines a)) as [v|] eqn:E2; [|discriminate].
        intros H; injection H as <-. destruct (pm_line _ _ _ Hpm (r + 1) v E2) as (_ & Hi & Hle & Hnb). repeat split; assumption.
    + right. intros r l Hg. assert (Hne : dget r (p_lines a2) <> None) by (rewrite Hg; discriminate). apply Hk2 in Hne.
      assert (Hr : in_rows r) by (unfold in_rows, lo' in *; lia). split; [exact Hr|now apply Hu2].
    + exact C4.
    + exists 15, (line_new 15 0). split; assumption.
    + exact C3.
  - split; [exact C1|]. split; [exact H15|]. split; [apply line_at_new|]. split; [reflexivity|]. split; [exact C2|]. cbn. lia.
Qed.
