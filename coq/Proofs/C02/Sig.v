(* C02: the significant times contain every time a snapshot depends on; sortedness; the main theorems. *)
From Coq Require Import Sorting.Sorted.
From TT Require Import Model.Doc Gen.StyleTables Model.Isd Model.SigTimes Proofs.Common.ElemInd Proofs.C02.Stable.

(* ---- sorted(set(...)) -------------------------------------------------------------------------- *)
Lemma qinsert_in x l : forall y, In y (qinsert x l) -> Qeq y x \/ In y l.
Proof.
  induction l as [|z l IH]; intros y H; cbn [qinsert] in H.
  - destruct H as [<-|[]]. left. reflexivity.
  - destruct (Qcompare x z) eqn:E.
    + right. exact H.
    + destruct H as [<-|H]; [left; reflexivity | right; exact H].
    + destruct H as [<-|H]; [right; left; reflexivity|]. apply IH in H as [H|H]; [left; exact H | right; right; exact H].
Qed.
Lemma qinsert_has x l : exists y, In y (qinsert x l) /\ Qeq y x.
Proof.
  induction l as [|z l IH]; cbn [qinsert].
  - exists x. split; [left; reflexivity | reflexivity].
  - destruct (Qcompare x z) eqn:E.
    + exists z. split; [left; reflexivity|]. apply Qeq_alt in E. symmetry. exact E.
    + exists x. split; [left; reflexivity | reflexivity].
    + destruct IH as (y & Hy & Hq). exists y. split; [right; exact Hy | exact Hq].
Qed.
Lemma qinsert_keeps x l : forall y, In y l -> exists y', In y' (qinsert x l) /\ Qeq y' y.
Proof.
  induction l as [|z l IH]; intros y H; [destruct H|]. cbn [qinsert].
  destruct (Qcompare x z) eqn:E.
  - exists y. split; [exact H | reflexivity].
  - exists y. split; [right; exact H | reflexivity].
  - destruct H as [<-|H].
    + exists z. split; [left; reflexivity | reflexivity].
    + destruct (IH y H) as (y' & Hy & Hq). exists y'. split; [right; exact Hy | exact Hq].
Qed.
Lemma qsort_has l : forall x, In x l -> exists y, In y (qsort l) /\ Qeq y x.
Proof.
  induction l as [|z l IH]; intros x H; [destruct H|]. cbn [qsort fold_right]. fold (qsort l).
  destruct H as [<-|H].
  - apply qinsert_has.
  - destruct (IH x H) as (y & Hy & Hq). destruct (qinsert_keeps z (qsort l) y Hy) as (y' & Hy' & Hq').
    exists y'. split; [exact Hy'|]. rewrite Hq'. exact Hq.
Qed.
Lemma qsort_in l : forall y, In y (qsort l) -> exists x, In x l /\ Qeq y x.
Proof.
  induction l as [|z l IH]; intros y H; [destruct H|]. cbn [qsort fold_right] in H. fold (qsort l) in H.
  apply qinsert_in in H as [H|H].
  - exists z. split; [left; reflexivity | exact H].
  - destruct (IH y H) as (x & Hx & Hq). exists x. split; [right; exact Hx | exact Hq].
Qed.

Lemma qinsert_sorted x l : StronglySorted Qlt l -> StronglySorted Qlt (qinsert x l).
Proof.
  induction l as [|z l IH]; intros H; cbn [qinsert].
  - constructor; constructor.
  - inversion H as [|? ? Hs Hf]; subst. destruct (Qcompare x z) eqn:E.
    + exact H.
    + apply Qlt_alt in E. constructor; [exact H|]. constructor; [exact E|].
      rewrite Forall_forall in *. intros y Hy. apply Qlt_trans with z; [exact E | apply Hf, Hy].
    + apply Qgt_alt in E. constructor; [apply IH, Hs|].
      rewrite Forall_forall in *. intros y Hy. apply qinsert_in in Hy as [Hy|Hy]; [rewrite Hy; exact E | apply Hf, Hy].
Qed.
Lemma qsort_sorted l : StronglySorted Qlt (qsort l).
Proof. induction l as [|z l IH]; [constructor|]. cbn [qsort fold_right]. apply qinsert_sorted, IH. Qed.

Lemma same_side_qsort l t1 t2 : same_side (qsort l) t1 t2 -> same_side l t1 t2.
Proof.
  intros H s Hs. destruct (qsort_has l s Hs) as (y & Hy & Hq). specialize (H y Hy). rewrite Hq in H. exact H.
Qed.

(* ---- what a snapshot depends on is among the times of compute_sig_times (corrected variant) ---------- *)
Lemma times_sel_incl sel : forall e inh pb pe, incl (times_sel sel inh pb pe e) (sig_elem true pb pe e).
Proof.
  induction e as [a cs IH] using elem_ind2. intros inh pb pe. cbn [times_sel sig_elem].
  destruct (region_pruned sel inh a cs); [intros x []|].
  set (iv := make_absolute (e_begin a) (e_end a) pb pe).
  apply incl_app; [apply incl_appl, incl_refl|]. apply incl_appr.
  apply incl_app; [apply incl_appl; unfold anim_times; apply incl_refl|]. apply incl_appr.
  induction cs as [|c cs IHcs]; [apply incl_refl|].
  inversion IH as [|? ? Hc Hrest]; subst.
  apply incl_app; [apply incl_appl, Hc | apply incl_appr, IHcs, Hrest].
Qed.

(* ... and, when there are several regions, among the times of the clone made for the region *)
Lemma restrict_times rid : forall e inh pb pe,
  match restrict rid inh e with
  | Ok (Some e') => incl (times_sel (Some rid) inh pb pe e) (sig_elem true pb pe e')
  | Ok None => times_sel (Some rid) inh pb pe e = []
  | Err _ => True
  end.
Proof.
  induction e as [a cs IH] using elem_ind2. intros inh pb pe. cbn [restrict times_sel].
  unfold region_pruned.
  set (assoc := match e_region a with Some r => Some r | None => inh end).
  destruct (negb (oid_eqb assoc (Some rid)) && (negb (match cs with [] => false | _ => true end) || match assoc with Some _ => true | None => false end)); [reflexivity|].
  set (iv := make_absolute (e_begin a) (e_end a) pb pe).
  match goal with |- match bind ?g _ with _ => _ end => destruct g as [cs'|c] eqn:Eg end; [|exact I]. cbn [bind].
  destruct (is_nonempty_l cs' && negb (push_children_ok (e_kind a) cs')); [exact I|].
  cbn [sig_elem]. fold iv.
  apply incl_app; [apply incl_appl, incl_refl|]. apply incl_appr.
  apply incl_app; [apply incl_appl; unfold anim_times; apply incl_refl|]. apply incl_appr.
  revert cs' Eg. induction cs as [|c cs IHcs]; intros cs' Eg.
  - intros x [].
  - inversion IH as [|? ? Hc Hrest]; subst. specialize (Hc assoc (Some (fst iv)) (snd iv)).
    destruct (restrict rid assoc c) as [[c'|]|?] eqn:Ec; cbn [bind] in Eg; [| |discriminate].
    + match type of Eg with bind ?g _ = _ => destruct g as [rs|?] eqn:Er end; [|discriminate]. cbn [bind] in Eg.
      injection Eg as <-. apply incl_app; [apply incl_appl, Hc | apply incl_appr, (IHcs Hrest rs eq_refl)].
    + match type of Eg with bind ?g _ = _ => destruct g as [rs|?] eqn:Er end; [|discriminate]. cbn [bind] in Eg.
      injection Eg as <-. rewrite Hc. cbn [app]. apply (IHcs Hrest rs eq_refl).
Qed.

(* ---- one region ------------------------------------------------------------------------------------- *)
Definition region_times (r : elem) : list Q :=
  let a := eattrs r in let iv := make_absolute (e_begin a) (e_end a) None None in
  (fst iv :: opt_list (snd iv)) ++ anim_times iv (e_anims a).

Lemma proc_region_same d t1 t2 sel r :
  same_side (region_times r ++ match d_body d with Some b => times_sel sel None None None b | None => [] end) t1 t2 ->
  proc_region d t1 sel r = proc_region d t2 sel r.
Proof.
  intros H. apply same_side_app in H as [Hr Hb]. unfold region_times in Hr. apply same_side_app in Hr as [Hiv Han].
  unfold proc_region. set (a := eattrs r) in *. set (iv := make_absolute (e_begin a) (e_end a) None None) in *.
  rewrite (active_same t1 t2 iv Hiv). destruct (negb (active_at t2 iv)); [reflexivity|].
  rewrite (style_phase_same d t1 t2 a None iv Han).
  destruct (style_phase d t2 a None iv) as [st|c]; [|reflexivity]. cbn [bind].
  destruct (display_none st); [reflexivity|].
  destruct (d_body d) as [b|]; [|reflexivity].
  rewrite (proc_same d t1 t2 sel b None (Some (KRegion, st)) None None Hb). reflexivity.
Qed.

Lemma region_times_incl r : incl (region_times r) (sig_elem true None None r).
Proof.
  destruct r as [a cs]. unfold region_times. cbn [eattrs sig_elem].
  apply incl_app; [apply incl_appl, incl_refl|]. apply incl_appr, incl_appl. unfold anim_times. apply incl_refl.
Qed.

Lemma clones_forall d : forall rs ds, clones d rs = Ok ds -> Forall2 (fun r c => clone_one_region d r = Ok c) rs ds.
Proof.
  induction rs as [|r rs IH]; intros ds H; cbn [clones] in H.
  - injection H as <-. constructor.
  - destruct (clone_one_region d r) as [c|] eqn:Ec; [|discriminate]. cbn [bind] in H.
    destruct (clones d rs) as [cs|] eqn:Ecs; [|discriminate]. cbn [bind] in H. injection H as <-.
    constructor; [exact Ec | apply IH; reflexivity].
Qed.

Lemma in_flat_map_incl {A} (f : A -> list Q) x l : In x l -> incl (f x) (flat_map f l).
Proof. intros H y Hy. apply in_flat_map. exists x. split; assumption. Qed.

(* ---- the main theorem for the corrected transcription -------------------------------------------------- *)
Theorem stable_fixed d l t1 t2 :
  sig_fixed d = Ok l -> same_side l t1 t2 -> Qle 0 t1 -> Qle 0 t2 -> isd d t1 = isd d t2.
Proof.
  unfold sig_fixed, sig_gen. intros Hs Hside H1 H2.
  destruct (cached_docs d) as [ds|] eqn:Ec; [|discriminate]. cbn [bind] in Hs. injection Hs as <-.
  apply same_side_qsort in Hside.
  unfold isd. unfold cached_docs in Ec.
  destruct (d_regions d) as [|r1 [|r2 rs]] eqn:Er.
  - (* no region: the default region, always active for t >= 0 *)
    injection Ec as <-. cbn [flat_map] in Hside. rewrite app_nil_r in Hside. unfold doc_times in Hside. rewrite Er in Hside.
    cbn [flat_map app] in Hside.
    f_equal. f_equal. apply proc_region_same. apply same_side_app. split.
    + unfold region_times, default_region. cbn. intros s [<-|[]]. cbn.
      split; intros _; assumption.
    + destruct (d_body d) as [b|]; [|intros s []]. eapply same_side_incl; [apply times_sel_incl | exact Hside].
  - (* one region: the cache holds the document itself *)
    injection Ec as <-. cbn [flat_map] in Hside. rewrite app_nil_r in Hside. unfold doc_times in Hside. rewrite Er in Hside.
    cbn [flat_map] in Hside. rewrite app_nil_r in Hside. apply same_side_app in Hside as [Hr Hb].
    cbn [map]. f_equal. f_equal. apply proc_region_same. apply same_side_app. split.
    + eapply same_side_incl; [apply region_times_incl | exact Hr].
    + destruct (d_body d) as [b|]; [|intros s []]. eapply same_side_incl; [apply times_sel_incl | exact Hb].
  - (* several regions: one clone per region *)
    apply clones_forall in Ec. f_equal. apply map_ext_in. intros r Hr.
    destruct (Forall2_in_l _ _ _ r Ec Hr) as (c & Hc & Hclone)
      || (assert (exists c, In c ds /\ clone_one_region d r = Ok c) as (c & Hc & Hclone)
            by (clear - Ec Hr; induction Ec as [|x y xs ys Hxy Hrest IH]; [destruct Hr|];
                destruct Hr as [<-|Hr]; [exists y; split; [left; reflexivity|exact Hxy] |
                destruct (IH Hr) as (c & Hc & Hcl); exists c; split; [right; exact Hc|exact Hcl]])).
    assert (Hside' : same_side (doc_times true c) t1 t2) by (eapply same_side_incl; [apply (in_flat_map_incl (doc_times true) c ds Hc) | exact Hside]).
    unfold clone_one_region in Hclone. destruct (e_id (eattrs r)) as [rid|] eqn:Eid; [|discriminate].
    destruct (d_body d) as [b|] eqn:Eb.
    + pose proof (restrict_times rid b None None None) as Hres.
      destruct (restrict rid None b) as [[b'|]|?] eqn:Erb; cbn [bind] in Hclone; [| |discriminate]; injection Hclone as <-;
        unfold doc_times in Hside'; cbn [d_regions d_body flat_map] in Hside'; rewrite app_nil_r in Hside';
        apply proc_region_same; rewrite Eb; apply same_side_app in Hside' as [Hr' Hb']; apply same_side_app; split;
        try (eapply same_side_incl; [apply region_times_incl | exact Hr']).
      * eapply same_side_incl; [exact Hres | exact Hb'].
      * rewrite Hres. intros s [].
    + cbn [bind] in Hclone. injection Hclone as <-. unfold doc_times in Hside'. cbn [d_regions d_body flat_map] in Hside'.
      rewrite !app_nil_r in Hside'. apply proc_region_same. rewrite Eb. rewrite app_nil_r.
      eapply same_side_incl; [apply region_times_incl | exact Hside'].
Qed.
