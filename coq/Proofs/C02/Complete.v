(* C02: completeness (floor), the faithful transcription under its trigger, before-first, the sequence. *)
From Coq Require Import Sorting.Sorted.
From TT Require Import Model.Doc Gen.StyleTables Model.Isd Model.SigTimes Proofs.Common.ElemInd Proofs.C02.Stable Proofs.C02.Sig.

(* the greatest significant time not after t *)
Fixpoint floor_sig (l : list Q) (t : Q) : option Q :=
  match l with
  | [] => None
  | x :: l' =>
      match floor_sig l' t with
      | Some f => if Qle_bool x t && Qle_bool f x then Some x else Some f
      | None => if Qle_bool x t then Some x else None
      end
  end.

Lemma floor_sig_spec l t : forall f, floor_sig l t = Some f ->
  In f l /\ Qle f t /\ forall s, In s l -> Qle s t -> Qle s f.
Proof.
  induction l as [|x l IH]; intros f H; [discriminate|]. cbn [floor_sig] in H.
  destruct (floor_sig l t) as [g|] eqn:Eg.
  - destruct (IH g eq_refl) as (Hin & Hle & Hmax).
    destruct (Qle_bool x t && Qle_bool g x) eqn:E; injection H as <-.
    + apply andb_true_iff in E as [E1 E2]. apply Qle_bool_iff in E1. apply Qle_bool_iff in E2.
      split; [left; reflexivity|]. split; [exact E1|]. intros s [<-|Hs] Hst; [apply Qle_refl|].
      apply Qle_trans with g; [apply Hmax; assumption | exact E2].
    + split; [right; exact Hin|]. split; [exact Hle|]. intros s [<-|Hs] Hst; [|apply Hmax; assumption].
      apply andb_false_iff in E as [E|E].
      * exfalso. apply Qle_bool_iff in Hst. congruence.
      * destruct (Qlt_le_dec x g) as [Hlt|Hge]; [apply Qlt_le_weak, Hlt|]. apply Qle_bool_iff in Hge. congruence.
  - destruct (Qle_bool x t) eqn:E; [|discriminate]. injection H as <-. apply Qle_bool_iff in E.
    split; [left; reflexivity|]. split; [exact E|]. intros s [<-|Hs] Hst; [apply Qle_refl|].
    exfalso. clear - Eg Hs Hst. induction l as [|y l IH]; [destruct Hs|]. cbn [floor_sig] in Eg.
    destruct (floor_sig l t); [destruct (Qle_bool y t && Qle_bool q y); discriminate|].
    destruct (Qle_bool y t) eqn:E; [discriminate|]. destruct Hs as [<-|Hs]; [apply Qle_bool_iff in Hst; congruence | apply IH; auto].
Qed.

Lemma floor_same_side l t f : floor_sig l t = Some f -> same_side l f t.
Proof.
  intros H s Hs. destruct (floor_sig_spec l t f H) as (_ & Hle & Hmax). split.
  - intros Hsf. apply Qle_trans with f; assumption.
  - intros Hst. apply Hmax; assumption.
Qed.

Theorem complete_fixed d l t f :
  sig_fixed d = Ok l -> floor_sig l t = Some f -> Qle 0 f -> isd d t = isd d f.
Proof.
  intros Hs Hf H0. symmetry. apply (stable_fixed d l f t Hs (floor_same_side l t f Hf) H0).
  destruct (floor_sig_spec l t f Hf) as (_ & Hle & _). apply Qle_trans with f; assumption.
Qed.

(* ---- the code's own list (animation steps offset by the parent's interval) ---------------------------- *)
(* trigger of the recorded finding: some time of the corrected list is missing from the code's list *)
(* sig_misses is defined in Model/SigTimes.v *)

Theorem stable_partial d l t1 t2 :
  sig d = Ok l -> sig_misses d = false -> same_side l t1 t2 -> Qle 0 t1 -> Qle 0 t2 -> isd d t1 = isd d t2.
Proof.
  intros Hs Hm Hside H1 H2. unfold sig_misses in Hm. rewrite Hs in Hm.
  assert (exists l', sig_fixed d = Ok l') as [l' Hl'].
  { unfold sig, sig_fixed, sig_gen in *. destruct (cached_docs d); [|discriminate]. eexists. reflexivity. }
  rewrite Hl' in Hm. apply negb_false_iff in Hm. rewrite forallb_forall in Hm.
  apply (stable_fixed d l' t1 t2 Hl'); try assumption.
  intros s Hs'. specialize (Hm s Hs'). unfold qmem in Hm. apply existsb_exists in Hm as (y & Hy & Hq).
  apply Qeq_bool_iff in Hq. rewrite Hq. apply Hside, Hy.
Qed.

(* ---- strictly increasing ------------------------------------------------------------------------------ *)
Theorem sig_sorted fixed d l : sig_gen fixed d = Ok l -> StronglySorted Qlt l.
Proof.
  unfold sig_gen. destruct (cached_docs d); [|discriminate]. cbn [bind]. intros H. injection H as <-. apply qsort_sorted.
Qed.

(* ---- the generated sequence is the list of snapshots at the significant times, in order ---------------- *)
Lemma sequence_at d : forall ts s, isd_sequence_at d ts = Ok s ->
  map fst s = ts /\ Forall (fun p => isd_cached d (fst p) = Ok (snd p)) s.
Proof.
  induction ts as [|t ts IH]; intros s H; cbn [isd_sequence_at] in H.
  - injection H as <-. split; [reflexivity | constructor].
  - destruct (isd_cached d t) as [i|] eqn:Ei; [|discriminate]. cbn [bind] in H.
    destruct (isd_sequence_at d ts) as [rest|] eqn:Er; [|discriminate]. cbn [bind] in H. injection H as <-.
    destruct (IH rest eq_refl) as [Hm Hf]. split; [cbn [map fst]; f_equal; exact Hm|]. constructor; [exact Ei | exact Hf].
Qed.
Theorem sequence_spec d s : isd_sequence d = Ok s ->
  exists l, sig d = Ok l /\ map fst s = l /\ Forall (fun p => isd_cached d (fst p) = Ok (snd p)) s.
Proof.
  unfold isd_sequence. destruct (sig d) as [l|] eqn:El; [|discriminate]. cbn [bind]. intros H.
  exists l. split; [reflexivity|]. apply sequence_at, H.
Qed.
