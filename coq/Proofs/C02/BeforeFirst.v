(* C02: before the first significant time a snapshot has no content. *)
From TT Require Import Model.Doc Gen.StyleTables Model.Isd Model.SigTimes Proofs.Common.ElemInd Proofs.C02.Stable Proofs.C02.Sig.

Lemma inactive_before t (iv : Q * option Q) : Qlt t (fst iv) -> active_at t iv = false.
Proof.
  intros H. unfold active_at, Qltb. rewrite negb_involutive.
  destruct (Qle_bool (fst iv) t) eqn:E; [|reflexivity]. apply Qle_bool_iff in E. exfalso. apply (Qlt_not_le _ _ H E).
Qed.

Lemma before_all l t : (forall s, In s (qsort l) -> Qlt t s) -> forall x, In x l -> Qlt t x.
Proof. intros H x Hx. destruct (qsort_has l x Hx) as (y & Hy & Hq). rewrite <- Hq. apply H, Hy. Qed.

Lemma begin_in_sig fixed pb pe e : In (fst (make_absolute (e_begin (eattrs e)) (e_end (eattrs e)) pb pe)) (sig_elem fixed pb pe e).
Proof. destruct e as [a cs]. cbn [sig_elem eattrs]. left. reflexivity. Qed.

Lemma proc_region_inactive d t sel r :
  Qlt t (fst (make_absolute (e_begin (eattrs r)) (e_end (eattrs r)) None None)) -> proc_region d t sel r = Ok None.
Proof. intros H. unfold proc_region. rewrite (inactive_before _ _ H). reflexivity. Qed.

Lemma collect_all_none {A} (f : A -> res (option elem)) l :
  (forall x, In x l -> f x = Ok None) -> collect_regions (map f l) = Ok [].
Proof.
  induction l as [|x l IH]; intros H; [reflexivity|]. cbn [map collect_regions].
  rewrite (H x (or_introl eq_refl)). cbn [bind]. rewrite IH; [reflexivity|]. intros y Hy. apply H. right. exact Hy.
Qed.

Theorem before_first fixed d l t rs :
  sig_gen fixed d = Ok l -> (forall s, In s l -> Qlt t s) -> isd d t = Ok rs -> Forall (fun r => echildren r = []) rs.
Proof.
  unfold sig_gen. intros Hs Hlt Hi.
  destruct (cached_docs d) as [ds|] eqn:Ec; [|discriminate]. cbn [bind] in Hs. injection Hs as <-.
  pose proof (before_all _ t Hlt) as Hb. clear Hlt.
  unfold isd in Hi. unfold cached_docs in Ec.
  destruct (d_regions d) as [|r1 [|r2 rs']] eqn:Er.
  - injection Ec as <-. cbn [flat_map] in Hb. unfold doc_times in Hb. rewrite Er in Hb. cbn [flat_map app] in Hb.
    cbn [collect_regions] in Hi. unfold proc_region in Hi.
    destruct (negb (active_at t _)); [cbn [bind] in Hi; injection Hi as <-; constructor|].
    destruct (style_phase d t _ None _) as [st|]; [|discriminate]. cbn [bind] in Hi.
    destruct (display_none st); [cbn [bind] in Hi; injection Hi as <-; constructor|].
    assert (Hch : match d_body d with
                  | None => Ok []
                  | Some b => bind (proc d t None None (Some (KRegion, st)) None None b) (fun r => Ok (match r with Some x => [x] | None => [] end))
                  end = Ok []).
    { destruct (d_body d) as [b|]; [|reflexivity]. destruct b as [a cs]. cbn [proc].
      rewrite inactive_before; [reflexivity|]. apply Hb. rewrite app_nil_r. cbn [sig_elem]. left. reflexivity. }
    rewrite Hch in Hi. cbn [bind] in Hi. unfold finish_element in Hi. cbn in Hi.
    destruct (sget (strip_inapplicable KRegion st) p_ShowBackground) as [[x| | | | | | | | | | | | | |]|]; cbn [bind] in Hi;
      try (injection Hi as <-; constructor).
    destruct (x =? e_ShowBackgroundType_always); cbn [bind] in Hi; injection Hi as <-; repeat constructor.
  - injection Ec as <-. cbn [flat_map] in Hb. unfold doc_times in Hb. rewrite Er in Hb. cbn [flat_map] in Hb.
    cbn [map collect_regions] in Hi. rewrite proc_region_inactive in Hi.
    + cbn [bind] in Hi. injection Hi as <-. constructor.
    + apply Hb. apply in_or_app. left. apply in_or_app. left. apply in_or_app. left. apply begin_in_sig.
  - rewrite collect_all_none in Hi; [injection Hi as <-; constructor|].
    intros r Hr. apply proc_region_inactive. apply Hb.
    apply clones_forall in Ec.
    assert (exists c, In c ds /\ clone_one_region d r = Ok c) as (c & Hc & Hclone).
    { clear - Ec Hr. induction Ec as [|x y xs ys Hxy Hrest IH]; [destruct Hr|].
      destruct Hr as [<-|Hr]; [exists y; split; [left; reflexivity|exact Hxy]|].
      destruct (IH Hr) as (c & Hc & Hcl). exists c. split; [right; exact Hc|exact Hcl]. }
    apply in_flat_map. exists c. split; [exact Hc|].
    unfold clone_one_region in Hclone. destruct (e_id (eattrs r)); [|discriminate].
    destruct (match d_body d with Some b => restrict t0 None b | None => Ok None end); [|discriminate].
    cbn [bind] in Hclone. injection Hclone as <-. unfold doc_times. cbn [d_regions flat_map].
    apply in_or_app. left. apply in_or_app. left. apply begin_in_sig.
Qed.
