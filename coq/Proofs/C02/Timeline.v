(* C02: the generated sequence describes the whole timeline — the entry at the greatest significant time not after t
   renders like the snapshot at t.  Combines completeness (Proofs/C02/Complete.v) with the cached/uncached render
   equivalence of C14 (Proofs/C14/Sequence.v). *)
From TT Require Import Model.Doc Gen.StyleTables Model.Isd Model.SigTimes Model.CloneTrigger Spec.RenderSpec Spec.DocWf.
From TT Require Import Proofs.C02.Stable Proofs.C02.Sig Proofs.C02.Complete Proofs.C14.Sequence.

Theorem complete_partial d l t f :
  sig d = Ok l -> sig_misses d = false -> floor_sig l t = Some f -> Qle 0 f -> isd d t = isd d f.
Proof.
  intros Hs Hm Hf H0. symmetry. apply (stable_partial d l f t Hs Hm (floor_same_side l t f Hf) H0).
  destruct (floor_sig_spec l t f Hf) as (_ & Hle & _). apply Qle_trans with f; assumption.
Qed.

Theorem timeline d s t f rs :
  doc_wf d = true -> clone_empties_doc d = false -> sig_misses d = false ->
  isd_sequence d = Ok s -> floor_sig (map fst s) t = Some f -> Qle 0 f -> isd d t = Ok rs ->
  exists i, In (f, i) s /\ render i = render rs.
Proof.
  intros Hwf Htr Hm Hs Hf H0 Hi.
  destruct (sequence_render d s Hwf Htr Hs) as (l & Hl & Hmap & HF). subst l.
  destruct (floor_sig_spec _ t f Hf) as (Hin & _ & _). apply in_map_iff in Hin as ([f' i] & Hfst & Hp). cbn [fst] in Hfst. subst f'.
  rewrite Forall_forall in HF. destruct (HF (f, i) Hp) as [_ Hr]. cbn [fst snd] in Hr.
  rewrite (complete_partial d _ t f Hl Hm Hf H0) in Hi. destruct (Hr rs Hi) as [_ Heq].
  exists i. split; [exact Hp | exact Heq].
Qed.

(* before the first entry nothing has content (BeforeFirst.v), after it `timeline` applies: a document for which the
   hypotheses hold and the sequence has several entries *)
Lemma timeline_example :
  doc_wf ex_doc = true /\ clone_empties_doc ex_doc = false /\ sig_misses ex_doc = false /\
  exists s, isd_sequence ex_doc = Ok s /\ map fst s = [0%Q; Qmake 2 1; Qmake 4 1] /\ floor_sig (map fst s) (Qmake 3 1) = Some (Qmake 2 1).
Proof.
  split; [vm_compute; reflexivity|]. split; [vm_compute; reflexivity|]. split; [vm_compute; reflexivity|].
  eexists. split; [vm_compute; reflexivity|]. split; vm_compute; reflexivity.
Qed.
