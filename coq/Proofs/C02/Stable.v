(* C02: snapshots are constant between significant times.
   Key lemma: two query times on the same side of every absolute begin/end of the elements, regions and
   animation steps that a snapshot can reach give equal snapshots. *)
From TT Require Import Model.Doc Gen.StyleTables Model.Isd Model.SigTimes Proofs.Common.ElemInd.

Definition same_side (l : list Q) (t1 t2 : Q) : Prop := forall s, In s l -> (Qle s t1 <-> Qle s t2).

Lemma same_side_app l1 l2 t1 t2 : same_side (l1 ++ l2) t1 t2 <-> same_side l1 t1 t2 /\ same_side l2 t1 t2.
Proof.
  unfold same_side. split.
  - intros H. split; intros s Hs; apply H; apply in_or_app; auto.
  - intros [H1 H2] s Hs. apply in_app_or in Hs as [Hs|Hs]; auto.
Qed.
Lemma same_side_cons x l t1 t2 : same_side (x :: l) t1 t2 <-> (Qle x t1 <-> Qle x t2) /\ same_side l t1 t2.
Proof.
  unfold same_side. split.
  - intros H. split; [apply H; left; reflexivity | intros s Hs; apply H; right; assumption].
  - intros [H1 H2] s [<-|Hs]; auto.
Qed.
Lemma same_side_incl l l' t1 t2 : incl l l' -> same_side l' t1 t2 -> same_side l t1 t2.
Proof. intros Hi H s Hs. apply H, Hi, Hs. Qed.

Lemma Qle_bool_same x t1 t2 : (Qle x t1 <-> Qle x t2) -> Qle_bool x t1 = Qle_bool x t2.
Proof.
  intros H. destruct (Qle_bool x t1) eqn:E1, (Qle_bool x t2) eqn:E2; try reflexivity.
  - apply Qle_bool_iff in E1. apply H in E1. apply Qle_bool_iff in E1. congruence.
  - apply Qle_bool_iff in E2. apply H in E2. apply Qle_bool_iff in E2. congruence.
Qed.

(* activity at t only depends on which side of begin and end t lies *)
Lemma active_same t1 t2 (iv : Q * option Q) :
  same_side (fst iv :: opt_list (snd iv)) t1 t2 -> active_at t1 iv = active_at t2 iv.
Proof.
  intros H. apply same_side_cons in H as [Hb He].
  unfold active_at, Qltb. rewrite !negb_involutive. rewrite (Qle_bool_same _ _ _ Hb).
  destruct (snd iv) as [e|]; [|reflexivity].
  assert (Qle e t1 <-> Qle e t2) as Hx by (apply He; left; reflexivity).
  rewrite (Qle_bool_same _ _ _ Hx). reflexivity.
Qed.

(* the times of the animation steps of one element, offset by the element's own interval *)
Definition anim_times (iv : Q * option Q) (l : list anim) : list Q :=
  flat_map (fun s => let aiv := make_absolute (a_begin s) (a_end s) (Some (fst iv)) (snd iv) in
                     fst aiv :: opt_list (snd aiv)) l.

Lemma apply_anims_same t1 t2 iv l : same_side (anim_times iv l) t1 t2 ->
  forall st todo, apply_anims t1 iv l st todo = apply_anims t2 iv l st todo.
Proof.
  induction l as [|a l IH]; intros H st todo; [reflexivity|].
  unfold anim_times in H. cbn [flat_map] in H. apply same_side_app in H as [Ha Hl].
  cbn [apply_anims]. rewrite (active_same t1 t2 _ Ha).
  destruct (active_at t2 _); apply IH; exact Hl.
Qed.

Lemma style_phase_same d t1 t2 a par iv : same_side (anim_times iv (e_anims a)) t1 t2 ->
  style_phase d t1 a par iv = style_phase d t2 a par iv.
Proof. intros H. unfold style_phase. rewrite (apply_anims_same t1 t2 iv _ H). reflexivity. Qed.

(* the times a snapshot of region sel can depend on below an element: like compute_sig_times (with the
   element's own interval for its animation steps), but skipping subtrees that region selection prunes *)
Definition region_pruned (sel inh : option text) (a : attrs) (cs : list elem) : bool :=
  let assoc := match e_region a with Some r => Some r | None => inh end in
  negb (oid_eqb assoc sel) && (negb (match cs with [] => false | _ => true end) || match assoc with Some _ => true | None => false end).

Fixpoint times_sel (sel inh : option text) (pb pe : option Q) (e : elem) : list Q :=
  match e with
  | Elem a cs =>
      if region_pruned sel inh a cs then []
      else
        let iv := make_absolute (e_begin a) (e_end a) pb pe in
        let assoc := match e_region a with Some r => Some r | None => inh end in
        (fst iv :: opt_list (snd iv)) ++ anim_times iv (e_anims a) ++
        (fix go (l : list elem) : list Q :=
           match l with [] => [] | c :: l' => times_sel sel assoc (Some (fst iv)) (snd iv) c ++ go l' end) cs
  end.

Lemma proc_same d t1 t2 sel : forall e inh par pb pe,
  same_side (times_sel sel inh pb pe e) t1 t2 ->
  proc d t1 sel inh par pb pe e = proc d t2 sel inh par pb pe e.
Proof.
  induction e as [a cs IH] using elem_ind2. intros inh par pb pe H.
  cbn [proc times_sel] in *.
  set (iv := make_absolute (e_begin a) (e_end a) pb pe) in *.
  set (assoc := match e_region a with Some r => Some r | None => inh end) in *.
  unfold region_pruned in H. fold assoc in H.
  destruct (negb (oid_eqb assoc sel) && (negb (match cs with [] => false | _ => true end) || match assoc with Some _ => true | None => false end)) eqn:Epr.
  - (* pruned by region selection whatever the activity *)
    destruct (negb (active_at t1 iv)), (negb (active_at t2 iv)); reflexivity.
  - apply same_side_app in H as [Hiv H]. apply same_side_app in H as [Han Hcs].
    rewrite (active_same t1 t2 iv Hiv). destruct (negb (active_at t2 iv)); [reflexivity|].
    rewrite (style_phase_same d t1 t2 a par iv Han).
    destruct (style_phase d t2 a par iv) as [st|c]; [|reflexivity]. cbn [bind].
    destruct (display_none st); [reflexivity|].
    f_equal.
    clear Epr Hiv Han. induction cs as [|c cs IHcs]; [reflexivity|].
    inversion IH as [|? ? Hc Hrest]; subst.
    apply same_side_app in Hcs as [H1 H2].
    rewrite (Hc assoc (Some (e_kind a, st)) (Some (fst iv)) (snd iv) H1).
    rewrite (IHcs Hrest H2). reflexivity.
Qed.
