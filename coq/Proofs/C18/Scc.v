(* C18 — SccLine.from_str / SccWord.from_str: the only failure is ValueError, on every text.
   The word-level function alone can raise IndexError (Findings/C18.v); the reader cannot reach that, because the words it
   passes come out of splitlines / split('\t') / split(' ') and so contain none of the characters bytes.fromhex skips. *)
From TT Require Import Base.Prelude Model.Outcome Model.ReaderGuards Gen.GuardTables Proofs.C18.Srt.

(* ---------------------------------------------------------------------------------------------- split *)
Lemma split_aux_chars sep s : forall cur p,
  In p (split_aux sep cur s) -> forall c, In c p -> In c cur \/ (In c s /\ sep c = false).
Proof.
  induction s as [|x s IH]; intros cur p Hp c Hc; simpl in Hp.
  - destruct Hp as [E|[]]. subst. left. now apply in_rev.
  - destruct (sep x) eqn:Sx.
    + destruct Hp as [E|Hp].
      * subst. left. now apply in_rev.
      * destruct (IH [] p Hp c Hc) as [[]|[H1 H2]]. right. split; [now right|assumption].
    + destruct (IH (x :: cur) p Hp c Hc) as [[E|H]|[H1 H2]].
      * subst. right. split; [now left|assumption].
      * now left.
      * right. split; [now right|assumption].
Qed.

Lemma split_on_chars sep s p c : In p (split_on sep s) -> In c p -> In c s /\ sep c = false.
Proof. intros Hp Hc. destruct (split_aux_chars sep s [] p Hp c Hc) as [[]|H]. exact H. Qed.

Lemma split_aux_nonempty sep s : forall cur, split_aux sep cur s <> [].
Proof. induction s as [|x s IH]; intro cur; simpl; [discriminate|]. destruct (sep x); [discriminate|apply IH]. Qed.

Lemma split_aux_two sep s : forall cur, existsb sep s = true -> exists a b r, split_aux sep cur s = a :: b :: r.
Proof.
  induction s as [|x s IH]; intros cur H; simpl in H; [discriminate|]. simpl.
  destruct (sep x) eqn:Sx.
  - destruct (split_aux sep [] s) as [|b r] eqn:E; [exfalso; eapply split_aux_nonempty; eauto|]. eauto.
  - simpl in H. apply IH. exact H.
Qed.

(* ---------------------------------------------------------------------------------------------- words *)
Definition clean_char (c : Z) : Prop := (c =? 32) = false /\ (c =? 9) = false /\ line_break c = false.

(* depends on the generated tables: every character bytes.fromhex skips is a space, a tab or a line boundary *)
Lemma skip_not_clean c : mem_z c fromhex_skip_set = true -> clean_char c -> False.
Proof.
  unfold mem_z, fromhex_skip_set. simpl. intros H [C1 [C2 C3]].
  repeat (apply orb_prop in H; destruct H as [H|H]); try discriminate;
    apply Z.eqb_eq in H; subst; vm_compute in C1, C2, C3; discriminate.
Qed.

Lemma clean_no_skip c : clean_char c -> mem_z c fromhex_skip_set = false.
Proof. intro C. destruct (mem_z c fromhex_skip_set) eqn:E; [exfalso; eapply skip_not_clean; eauto|reflexivity]. Qed.

Lemma word_not_internal w : (forall c, In c w -> clean_char c) -> is_internal (scc_word_from_str w) = false.
Proof.
  intro H. unfold scc_word_from_str.
  destruct (Z.of_nat (length w) =? 4) eqn:L; simpl; [|reflexivity].
  destruct (int16_ok w); simpl; [|reflexivity].
  apply Z.eqb_eq in L.
  destruct w as [|a [|b [|c [|d [|e w]]]]]; simpl in L; try lia.
  assert (Sa : mem_z a fromhex_skip_set = false) by (apply clean_no_skip, H; simpl; auto).
  assert (Sc : mem_z c fromhex_skip_set = false) by (apply clean_no_skip, H; simpl; auto).
  unfold fromhex_len. rewrite Sa.
  destruct (ascii_hex a && ascii_hex b); [|reflexivity].
  rewrite Sc. destruct (ascii_hex c && ascii_hex d); reflexivity.
Qed.

Lemma scc_words_not_internal ws : forall n,
  (forall w, In w ws -> forall c, In c w -> clean_char c) ->
  match scc_words ws n with LineErr o => is_internal o = false | _ => True end.
Proof.
  induction ws as [|w r IH]; intros n H; simpl; [exact I|].
  pose proof (word_not_internal w (H w (or_introl eq_refl))) as W.
  destruct (scc_word_from_str w) eqn:E; try exact W; try (simpl; reflexivity).
  apply IH. intros w' Hw'. apply H. now right.
Qed.

Lemma matches_has_tab l : scc_line_matches l = true -> existsb (Z.eqb 9) l = true.
Proof.
  unfold scc_line_matches.
  destruct l as [|a [|b [|x [|c [|d [|y [|e [|f [|z [|g [|h [|t r]]]]]]]]]]]]; try discriminate.
  intro H. repeat (apply andb_prop in H; destruct H as [H ?]).
  simpl. match goal with T : (t =? 9) = true |- _ => apply Z.eqb_eq in T; subst end.
  repeat (rewrite ?orb_true_r; simpl). reflexivity.
Qed.

Lemma line_not_internal l :
  (forall c, In c l -> line_break c = false) ->
  match scc_line_from_str l with LineErr o => is_internal o = false | _ => True end.
Proof.
  intro H. unfold scc_line_from_str. destruct l as [|c0 l0] eqn:El; [exact I|]. rewrite <- El in *.
  destruct (scc_line_matches l) eqn:M; simpl; [|exact I].
  apply matches_has_tab in M.
  destruct (split_aux_two (Z.eqb 9) l [] M) as [a [p1 [r E]]]. unfold split_on. rewrite E.
  apply scc_words_not_internal. intros w Hw c Hc.
  apply filter_In in Hw as [Hw _].
  destruct (split_on_chars (Z.eqb 32) p1 w c Hw Hc) as [Hc1 N32].
  assert (Hp1 : In p1 (split_on (Z.eqb 9) l)) by (unfold split_on; rewrite E; simpl; auto).
  destruct (split_on_chars (Z.eqb 9) l p1 c Hp1 Hc1) as [Hcl N9].
  repeat split.
  - rewrite Z.eqb_sym. exact N32.
  - rewrite Z.eqb_sym. exact N9.
  - apply H. exact Hcl.
Qed.

Lemma scc_loop_internal ls : forall oracle k,
  (forall l, In l ls -> forall c, In c l -> line_break c = false) ->
  scc_loop oracle ls = Internal k -> In (SubInternal k) oracle.
Proof.
  induction ls as [|l rest IH]; intros oracle k H E; simpl in E; [discriminate|].
  pose proof (line_not_internal l (H l (or_introl eq_refl))) as L.
  destruct (scc_line_from_str l) eqn:F.
  - apply IH; auto. intros l' Hl'. apply H. now right.
  - subst. simpl in L. discriminate.
  - destruct (next_sub oracle) as [r o'] eqn:N. destruct (outcome_of_sub r) eqn:O.
    + subst. apply outcome_of_sub_internal in O. subst. eapply next_sub_internal; eauto.
    + eapply next_sub_incl; eauto. apply IH; auto. intros l' Hl'. apply H. now right.
Qed.

Lemma scc_run_internal oracle content k : scc_run oracle content = Internal k -> In (SubInternal k) oracle.
Proof.
  unfold scc_run, splitlines. apply scc_loop_internal.
  intros l Hl c Hc. apply filter_In in Hl as [Hl _].
  destruct (split_on_chars line_break content l c Hl Hc) as [_ N]. exact N.
Qed.

Lemma scc_total oracle content :
  (forall r, In r oracle -> sub_is_internal r = false) -> is_internal (scc_run oracle content) = false.
Proof.
  intro H. destruct (scc_run oracle content) eqn:E; try reflexivity.
  apply scc_run_internal in E. apply H in E. discriminate.
Qed.
