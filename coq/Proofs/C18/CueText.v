(* C18 — the predicate that decides finding vtt-ruby-structure (Model/GuardCueCases.v cue_class, evaluated by the check on every cue
   text of a run) takes three values only: the cue-text parser returns, raises TypeError, or raises RuntimeError.  This is C11's theorem
   C11_cue_text_exceptions (Proofs/C11/Outcome.v, used read-only) restated in C18's outcome codes: on the model of _parse_cue_text, tokenizer
   included, an AttributeError (ruby_rbc / ruby_rtc unset, the cursor above the paragraph), UnboundLocalError or ValueError is impossible for
   EVERY cue text, so the check is entitled to report any of them — and any TypeError / RuntimeError the model does not compute for the
   same text — as a violation. *)
From Coq Require Import QArith.
From TT Require Import Base.Prelude Model.VttTokenizer Model.VttReader Model.GuardCueCases Proofs.C11.Outcome.
Local Open Scope Z_scope.

Lemma cue_class_values txt : cue_class txt = 0 \/ cue_class txt = 21 \/ cue_class txt = 29.
Proof.
  unfold cue_class. destruct (parse_cue_text 0 txt) as [t|e] eqn:E; [left; reflexivity|].
  destruct (cue_text_exceptions _ _ _ E) as [H|H]; subst; simpl; auto.
Qed.

(* the two recorded classes are reached: <b><ruby> is a TypeError, <ruby><b> a RuntimeError; and the shape the parser must accept — a ruby
   whose annotation holds formatting nested two deep, followed by more base text and another annotation — returns:
   "<ruby>a<rt><c><i>x</i></c></rt>b<rt>y</rt></ruby>" *)
Lemma cue_class_examples :
  cue_class [60;98;62;60;114;117;98;121;62] = 21
  /\ cue_class [60;114;117;98;121;62;60;98;62] = 29
  /\ cue_class [60;114;117;98;121;62;97;60;114;116;62;60;99;62;60;105;62;120;60;47;105;62;60;47;99;62;60;47;114;116;62;98;60;114;116;62;121;60;47;114;116;62;60;47;114;117;98;121;62] = 0.
Proof. repeat split; vm_compute; reflexivity. Qed.
