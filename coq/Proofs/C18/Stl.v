(* C18 — the EBU STL reader's GSI / TTI guards: outside the three recorded triggers the only failures are struct.error and
   whatever tf.to_model (the oracle) raises *)
From TT Require Import Base.Prelude Model.Outcome Model.ReaderGuards Proofs.C18.Srt.

(* what DataFile.__init__ establishes when no trigger fires, and what every block preserves *)
Definition stl_inv (v : stl_vars) (bs : list (list Z)) : Prop :=
  t_count v <> 0 /\
  (exists rows, t_rows v = Some rows /\ rows <> 0) /\
  (t_have_p v = true \/
   (t_last_sn v = None /\
    match first_effective_cs (t_fps v) (t_offset v) bs with Some cs => cs_starts cs = true | None => True end)).

Lemma with_block_done_ok v last have_p oracle :
  t_count v <> 0 ->
  exists v', with_block_done v last have_p oracle = inl v' /\
             t_count v' = t_count v /\ t_rows v' = t_rows v /\ t_fps v' = t_fps v /\ t_offset v' = t_offset v /\
             t_last_sn v' = last /\ t_have_p v' = have_p /\ t_oracle v' = oracle.
Proof.
  intro C. unfold with_block_done. destruct (t_count v =? 0) eqn:E; [apply Z.eqb_eq in E; contradiction|].
  eexists. split; [reflexivity|]. simpl. repeat split; reflexivity.
Qed.

Lemma stl_block_step v b rest :
  stl_inv v (b :: rest) ->
  match stl_block v b with
  | inl v' => stl_inv v' rest /\ (forall x, In x (t_oracle v') -> In x (t_oracle v))
  | inr (Internal k) => In (SubInternal k) (t_oracle v)
  | inr _ => True
  end.
Proof.
  intros [C [[rows [R Rz]] P]]. unfold stl_block.
  destruct (Z.of_nat (length b) =? 128); cbn [negb]; [|exact I].
  destruct (block_effective (t_fps v) (t_offset v) b) eqn:Eff; cbn [negb].
  - (* the block reaches the paragraph code *)
    cbv zeta.
    set (sn := nth 1 b 0 + 256 * nth 2 b 0). set (cs := nth 4 b 0). set (vp := nth 13 b 0).
    set (same := match t_last_sn v with Some l => l =? sn | None => false end).
    assert (G : (if negb same && cs_starts cs
                 then match t_rows v with
                      | None => Some (Internal AttributeErr)
                      | Some rows0 => if vp <? rows0 / 2 then None else if rows0 =? 0 then Some (Internal ZeroDivisionErr) else None
                      end
                 else None) = None).
    { destruct (negb same && cs_starts cs); [|reflexivity]. rewrite R.
      destruct (vp <? rows / 2); [reflexivity|]. destruct (rows =? 0) eqn:Z0; [apply Z.eqb_eq in Z0; contradiction|reflexivity]. }
    rewrite G.
    assert (H : t_have_p v || (negb same && cs_starts cs) = true).
    { destruct P as [Hp|[Ls F]]; [rewrite Hp; reflexivity|].
      simpl in F. rewrite Eff in F. unfold same. rewrite Ls. simpl. fold cs in F. rewrite F. apply orb_true_r. }
    rewrite H. cbn [negb].
    destruct (next_sub (t_oracle v)) as [r o'] eqn:N.
    destruct (outcome_of_sub r) eqn:O.
    + destruct o; try exact I. apply outcome_of_sub_internal in O. subst. eapply next_sub_internal; eauto.
    + destruct (with_block_done_ok v (if negb same && cs_starts cs then Some sn else t_last_sn v) true o' C)
        as [v' [E [E1 [E2 [E3 [E4 [E5 [E6 E7]]]]]]]].
      rewrite E. split.
      * unfold stl_inv. rewrite E1, E2, E6. repeat split; eauto.
      * rewrite E7. eapply next_sub_incl; eauto.
  - (* the block returns early *)
    destruct (with_block_done_ok v (t_last_sn v) (t_have_p v) (t_oracle v) C) as [v' [E [E1 [E2 [E3 [E4 [E5 [E6 E7]]]]]]]].
    rewrite E. split.
    + unfold stl_inv. rewrite E1, E2, E3, E4, E5, E6. repeat split; eauto.
      destruct P as [Hp|[Ls F]]; [now left|right]. split; [assumption|]. simpl in F. rewrite Eff in F. exact F.
    + rewrite E7. auto.
Qed.

Lemma stl_loop_internal bs : forall v k,
  stl_inv v bs -> stl_loop v bs = Internal k -> In (SubInternal k) (t_oracle v).
Proof.
  induction bs as [|b rest IH]; intros v k J E; simpl in E; [discriminate|].
  pose proof (stl_block_step v b rest J) as S.
  destruct (stl_block v b) as [v'|o].
  - destruct S as [J' Inc]. apply Inc. eapply IH; eauto.
  - subst. exact S.
Qed.

Lemma stl_run_internal cfg oracle file k :
  trig_zero_rows cfg (firstn 1024 file) = false ->
  trig_zero_count (firstn 1024 file) = false -> trig_cum_first cfg file = false ->
  stl_run cfg oracle file = Internal k -> In (SubInternal k) oracle.
Proof.
  intros T2 T3 T4. unfold stl_run, stl_init. unfold trig_cum_first in T4.
  set (gsi := firstn 1024 file) in *.
  destruct (stl_header cfg gsi) as [h|o] eqn:Hd.
  - intro E. change oracle with (t_oracle (stl_vars_of h oracle)). eapply stl_loop_internal; eauto.
    unfold stl_inv. simpl.
    unfold stl_header in Hd. destruct (negb (Z.of_nat (length gsi) =? 1024)); [discriminate|].
    unfold trig_zero_rows in T2. unfold trig_zero_count in T3.
    assert (Cnt : (match bytes_int (slice 238 5 gsi) with Some n => n | None => maxsize end) <> 0).
    { destruct (bytes_int (slice 238 5 gsi)) as [n|]; [|unfold maxsize; lia]. apply Z.eqb_neq. exact T3. }
    match type of Hd with (match ?st with inl _ => _ | inr _ => _ end) = _ => destruct st as [off|o] eqn:St; [|discriminate] end.
    assert (Fin : forall fps off0,
              match first_effective_cs fps off0 (stl_blocks file) with Some cs => negb (cs_starts cs) | None => false end = false ->
              match first_effective_cs fps off0 (stl_blocks file) with Some cs => cs_starts cs = true | None => True end).
    { intros fps off0 F. destruct (first_effective_cs fps off0 (stl_blocks file)); [apply negb_false_iff in F; exact F|exact I]. }
    destruct (cfg_rows cfg) as [| |n] eqn:Rw.
    + inversion Hd; subst; simpl in *. repeat split; [exact Cnt|exists 23; split; [reflexivity|lia]|].
      right. split; [reflexivity|]. apply Fin. exact T4.
    + destruct (gsi_teletext gsi); simpl in T2.
      * inversion Hd; subst; simpl in *. repeat split; [exact Cnt|exists 23; split; [reflexivity|lia]|].
        right. split; [reflexivity|]. apply Fin. exact T4.
      * destruct (bytes_int (slice 253 2 gsi)) as [n|].
        -- inversion Hd; subst; simpl in *. repeat split; [exact Cnt|exists n; split; [reflexivity|apply Z.eqb_neq; exact T2]|].
           right. split; [reflexivity|]. apply Fin. exact T4.
        -- inversion Hd; subst; simpl in *. repeat split; [exact Cnt|exists 23; split; [reflexivity|lia]|].
           right. split; [reflexivity|]. apply Fin. exact T4.
    + destruct (gsi_teletext gsi); simpl in T2.
      * inversion Hd; subst; simpl in *. repeat split; [exact Cnt|exists 23; split; [reflexivity|lia]|].
        right. split; [reflexivity|]. apply Fin. exact T4.
      * inversion Hd; subst; simpl in *. repeat split; [exact Cnt|exists n; split; [reflexivity|apply Z.eqb_neq; exact T2]|].
        right. split; [reflexivity|]. apply Fin. exact T4.
  - (* DataFile.__init__ raises nothing but struct.error *)
    intro E. subst. exfalso.
    unfold stl_header in Hd. destruct (negb (Z.of_nat (length gsi) =? 1024)); [discriminate|].
    destruct (cfg_start cfg); [| destruct (gsi_tcp_ints gsi) as [[[[h0 m] s] f]|] |];
      (destruct (cfg_rows cfg) as [| |n]; [discriminate| |]; destruct (gsi_teletext gsi); try discriminate;
       destruct (bytes_int (slice 253 2 gsi)); discriminate).
Qed.

Lemma stl_partial cfg oracle file :
  trig_zero_rows cfg (firstn 1024 file) = false ->
  trig_zero_count (firstn 1024 file) = false -> trig_cum_first cfg file = false ->
  (forall r, In r oracle -> sub_is_internal r = false) ->
  is_internal (stl_run cfg oracle file) = false.
Proof.
  intros T2 T3 T4 H. destruct (stl_run cfg oracle file) eqn:E; try reflexivity.
  apply stl_run_internal in E; auto. apply H in E. discriminate.
Qed.
