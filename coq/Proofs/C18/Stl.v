(* C18 — the EBU STL reader's GSI / TTI guards: outside the three recorded triggers the only failures are struct.error and
   whatever tf.to_model (the oracle) raises *)
From TT Require Import Base.Prelude Model.Outcome Model.ReaderGuards Proofs.C18.Srt.

(* what DataFile.__init__ establishes when the trigger does not fire, and what every block preserves *)
Definition stl_inv (v : stl_vars) : Prop := exists rows, t_rows v = Some rows /\ rows <> 0.

Lemma stl_block_step v b :
  stl_inv v ->
  match stl_block v b with
  | inl v' => stl_inv v' /\ (forall x, In x (t_oracle v') -> In x (t_oracle v))
  | inr (Internal k) => In (SubInternal k) (t_oracle v)
  | inr _ => True
  end.
Proof.
  intros [rows [R Rz]]. unfold stl_block.
  destruct (Z.of_nat (length b) =? 128); cbn [negb]; [|exact I].
  destruct (block_effective (t_fps v) (t_offset v) b) eqn:Eff; cbn [negb].
  - (* the block reaches the paragraph code *)
    cbv zeta.
    set (sn := nth 1 b 0 + 256 * nth 2 b 0). set (cs := nth 4 b 0). set (vp := Z.max (nth 13 b 0) 1).
    set (same := match t_last_sn v with Some l => l =? sn | None => false end).
    set (fresh := negb same && cs_starts cs || negb (t_have_p v)).
    assert (G : (if fresh
                 then match t_rows v with
                      | None => Some (Internal AttributeErr)
                      | Some rows0 => if vp <? rows0 / 2 then None else if rows0 =? 0 then Some (Internal ZeroDivisionErr) else None
                      end
                 else None) = None).
    { destruct fresh; [|reflexivity]. rewrite R.
      destruct (vp <? rows / 2); [reflexivity|]. destruct (rows =? 0) eqn:Z0; [apply Z.eqb_eq in Z0; contradiction|reflexivity]. }
    rewrite G.
    assert (H : t_have_p v || fresh = true) by (unfold fresh; destruct (t_have_p v); [reflexivity|apply orb_true_r]).
    rewrite H. cbn [negb].
    destruct (next_sub (t_oracle v)) as [r o'] eqn:N.
    destruct (outcome_of_sub r) eqn:O.
    + destruct o; try exact I. apply outcome_of_sub_internal in O. subst. eapply next_sub_internal; eauto.
    + unfold with_block_done. split.
      * exists rows. split; [exact R|exact Rz].
      * cbn [t_oracle]. eapply next_sub_incl; eauto.
  - (* the block returns early *)
    unfold with_block_done. split; [exists rows; split; [exact R|exact Rz]|auto].
Qed.

Lemma stl_loop_internal bs : forall v k,
  stl_inv v -> stl_loop v bs = Internal k -> In (SubInternal k) (t_oracle v).
Proof.
  induction bs as [|b rest IH]; intros v k J E; simpl in E; [discriminate|].
  pose proof (stl_block_step v b J) as S.
  destruct (stl_block v b) as [v'|o].
  - destruct S as [J' Inc]. apply Inc. eapply IH; eauto.
  - subst. exact S.
Qed.

Lemma stl_run_internal cfg oracle file k :
  trig_zero_rows cfg (firstn 1024 file) = false ->
  stl_run cfg oracle file = Internal k -> In (SubInternal k) oracle.
Proof.
  intros T2. unfold stl_run, stl_init.
  set (gsi := firstn 1024 file) in *.
  destruct (stl_header cfg gsi) as [h|o] eqn:Hd.
  - intro E. change oracle with (t_oracle (stl_vars_of h oracle)). eapply stl_loop_internal; eauto.
    unfold stl_inv. simpl.
    unfold stl_header in Hd. destruct (negb (Z.of_nat (length gsi) =? 1024)); [discriminate|].
    unfold trig_zero_rows in T2.
    match type of Hd with (match ?st with inl _ => _ | inr _ => _ end) = _ => destruct st as [off|o] eqn:St; [|discriminate] end.
    destruct (cfg_rows cfg) as [| |n] eqn:Rw.
    + inversion Hd; subst; simpl in *. exists 23; split; [reflexivity|lia].
    + destruct (gsi_teletext gsi); simpl in T2.
      * inversion Hd; subst; simpl in *. exists 23; split; [reflexivity|lia].
      * destruct (bytes_int (slice 253 2 gsi)) as [n|].
        -- inversion Hd; subst; simpl in *. exists n; split; [reflexivity|apply Z.eqb_neq; exact T2].
        -- inversion Hd; subst; simpl in *. exists 23; split; [reflexivity|lia].
    + destruct (gsi_teletext gsi); simpl in T2.
      * inversion Hd; subst; simpl in *. exists 23; split; [reflexivity|lia].
      * inversion Hd; subst; simpl in *. exists n; split; [reflexivity|apply Z.eqb_neq; exact T2].
  - (* DataFile.__init__ raises nothing but struct.error *)
    intro E. subst. exfalso.
    unfold stl_header in Hd. destruct (negb (Z.of_nat (length gsi) =? 1024)); [discriminate|].
    destruct (cfg_start cfg); [| destruct (gsi_tcp_ints gsi) as [[[[h0 m] s] f]|] |];
      (destruct (cfg_rows cfg) as [| |n]; [discriminate| |]; destruct (gsi_teletext gsi); try discriminate;
       destruct (bytes_int (slice 253 2 gsi)); discriminate).
Qed.

Lemma stl_partial cfg oracle file :
  trig_zero_rows cfg (firstn 1024 file) = false ->
  (forall r, In r oracle -> sub_is_internal r = false) ->
  is_internal (stl_run cfg oracle file) = false.
Proof.
  intros T2 H. destruct (stl_run cfg oracle file) eqn:E; try reflexivity.
  apply stl_run_internal in E; auto. apply H in E. discriminate.
Qed.
