(* C18 — the EBU STL reader's GSI / TTI guards: on every byte list under every configuration the only failures are struct.error
   and whatever tf.to_model (the oracle) raises *)
From TT Require Import Base.Prelude Model.Outcome Model.ReaderGuards Proofs.C18.Srt.

(* what DataFile.__init__ establishes (lab commit 7e042d3: a row count below 1 is replaced by the default), and what every block preserves *)
Definition stl_inv (v : stl_vars) : Prop := exists rows, t_rows v = Some rows /\ rows <> 0.

Lemma stl_block_step v b :
  stl_inv v ->
  match stl_block v b with
  | inl v' => stl_inv v' /\ (forall x, In x (t_oracle v') -> In x (t_oracle v))
  | inr (Internal k) => In (SubInternal k) (t_oracle v)
  | inr _ => True
  end.
Proof.
  intros [rows [R Rz]]. unfold stl_block.
  destruct (Z.of_nat (length b) =? 128); cbn [negb]; [|exact I].
  destruct (block_effective (t_fps v) (t_offset v) b) eqn:Eff; cbn [negb].
  - (* the block reaches the paragraph code *)
    cbv zeta.
    set (sn := nth 1 b 0 + 256 * nth 2 b 0). set (cs := nth 4 b 0). set (vp := Z.max (nth 13 b 0) 1).
    set (same := match t_last_sn v with Some l => l =? sn | None => false end).
    set (fresh := negb same && cs_starts cs || negb (t_have_p v)).
    assert (G : (if fresh
                 then match t_rows v with
                      | None => Some (Internal AttributeErr)
                      | Some rows0 => if vp <? rows0 / 2 then None else if rows0 =? 0 then Some (Internal ZeroDivisionErr) else None
                      end
                 else None) = None).
    { destruct fresh; [|reflexivity]. rewrite R.
      destruct (vp <? rows / 2); [reflexivity|]. destruct (rows =? 0) eqn:Z0; [apply Z.eqb_eq in Z0; contradiction|reflexivity]. }
    rewrite G.
    assert (H : t_have_p v || fresh = true) by (unfold fresh; destruct (t_have_p v); [reflexivity|apply orb_true_r]).
    rewrite H. cbn [negb].
    destruct (next_sub (t_oracle v)) as [r o'] eqn:N.
    destruct (outcome_of_sub r) eqn:O.
    + destruct o; try exact I. apply outcome_of_sub_internal in O. subst. eapply next_sub_internal; eauto.
    + unfold with_block_done. split.
      * exists rows. split; [exact R|exact Rz].
      * cbn [t_oracle]. eapply next_sub_incl; eauto.
  - (* the block returns early *)
    unfold with_block_done. split; [exists rows; split; [exact R|exact Rz]|auto].
Qed.

Lemma stl_loop_internal bs : forall v k,
  stl_inv v -> stl_loop v bs = Internal k -> In (SubInternal k) (t_oracle v).
Proof.
  induction bs as [|b rest IH]; intros v k J E; simpl in E; [discriminate|].
  pose proof (stl_block_step v b J) as S.
  destruct (stl_block v b) as [v'|o].
  - destruct S as [J' Inc]. apply Inc. eapply IH; eauto.
  - subst. exact S.
Qed.

(* DataFile.__init__ leaves a row count of at least 1 whatever the GSI block and the configuration say *)
Lemma stl_header_rows cfg gsi h : stl_header cfg gsi = inl h -> exists rows, h_rows h = Some rows /\ rows <> 0.
Proof.
  unfold stl_header. destruct (negb (Z.of_nat (length gsi) =? 1024)); [discriminate|].
  match goal with |- (match ?st with inl _ => _ | inr _ => _ end) = _ -> _ => destruct st as [off|o]; [|discriminate] end.
  assert (Clamp : forall r : option Z, (exists n, r = Some n) ->
            exists rows, (match r with Some n => if n <? 1 then Some 23 else Some n | None => None end) = Some rows /\ rows <> 0).
  { intros r [n E]; subst. destruct (n <? 1) eqn:L; [exists 23; split; [reflexivity|lia]|exists n; split; [reflexivity|lia]]. }
  destruct (cfg_rows cfg) as [| |n].
  - intro E; inversion E; subst; cbn [h_rows]. exact (Clamp (Some 23) (ex_intro _ 23 eq_refl)).
  - destruct (gsi_teletext gsi).
    + intro E; inversion E; subst; cbn [h_rows]. exact (Clamp (Some 23) (ex_intro _ 23 eq_refl)).
    + destruct (bytes_int (slice 253 2 gsi)) as [n|]; intro E; inversion E; subst; cbn [h_rows];
        [exact (Clamp (Some n) (ex_intro _ n eq_refl))|exact (Clamp (Some 23) (ex_intro _ 23 eq_refl))].
  - destruct (gsi_teletext gsi); intro E; inversion E; subst; cbn [h_rows];
      [exact (Clamp (Some 23) (ex_intro _ 23 eq_refl))|exact (Clamp (Some n) (ex_intro _ n eq_refl))].
Qed.

(* DataFile.__init__ raises nothing but struct.error *)
Lemma stl_header_not_internal cfg gsi o : stl_header cfg gsi = inr o -> o = FormatError StructErr.
Proof.
  unfold stl_header. destruct (negb (Z.of_nat (length gsi) =? 1024)); [intro E; inversion E; reflexivity|].
  destruct (cfg_start cfg); [| destruct (gsi_tcp_ints gsi) as [[[[h0 m] s] f]|] |];
    (destruct (cfg_rows cfg) as [| |n]; [discriminate| |]; destruct (gsi_teletext gsi); try discriminate;
     destruct (bytes_int (slice 253 2 gsi)); discriminate).
Qed.

(* every byte list, every reader configuration *)
Lemma stl_run_internal cfg oracle file k :
  stl_run cfg oracle file = Internal k -> In (SubInternal k) oracle.
Proof.
  unfold stl_run, stl_init.
  destruct (stl_header cfg (firstn 1024 file)) as [h|o] eqn:Hd.
  - intro E. change oracle with (t_oracle (stl_vars_of h oracle)). eapply stl_loop_internal; eauto.
    unfold stl_inv. simpl. eapply stl_header_rows; eauto.
  - intro E. subst. apply stl_header_not_internal in Hd. discriminate.
Qed.

Lemma stl_total cfg oracle file :
  (forall r, In r oracle -> sub_is_internal r = false) ->
  is_internal (stl_run cfg oracle file) = false.
Proof.
  intros H. destruct (stl_run cfg oracle file) eqn:E; try reflexivity.
  apply stl_run_internal in E. apply H in E. discriminate.
Qed.

(* a file that is not 1024 + 128 n bytes long is a struct.error whatever else it holds, unless an earlier block already ended the
   read; a file of the right shape never is *)
Lemma stl_short_header cfg oracle file :
  (length file < 1024)%nat -> stl_run cfg oracle file = FormatError StructErr.
Proof.
  intro L. unfold stl_run, stl_init, stl_header.
  assert (E : Z.of_nat (length (firstn 1024 file)) =? 1024 = false).
  { apply Z.eqb_neq. rewrite firstn_length. lia. }
  rewrite E. reflexivity.
Qed.
