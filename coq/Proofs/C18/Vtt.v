(* C18 — the WebVTT reader's line machine and the _TextCueParser cursor: totality outside the recorded triggers *)
From TT Require Import Base.Prelude Model.Outcome Model.ReaderGuards Proofs.C18.Srt.

(* which variables are bound in which state (subtitle_text is assigned when a cue's paragraph is created) *)
Definition vtt_inv (v : vtt_vars) : Prop :=
  match v_state v with
  | V_TEXT => v_p v = Some false /\ v_text_bound v = true
  | V_TEXT_MORE => v_p v = Some true /\ v_text_bound v = true
  | _ => True
  end.

Lemma vtt_flush_ok v v' :
  vtt_flush v = inl v' -> v_state v' = V_LOOKING /\ (forall x, In x (v_oracle v') -> In x (v_oracle v)).
Proof.
  unfold vtt_flush. destruct (v_text_bound v); simpl; [|discriminate].
  destruct (v_p v); [|discriminate].
  destruct (next_sub (v_oracle v)) as [r o'] eqn:N. destruct (outcome_of_sub r); [discriminate|].
  intro E; inversion E; subst; simpl. split; [reflexivity|]. eapply next_sub_incl; eauto.
Qed.

Lemma vtt_flush_internal v k :
  v_text_bound v = true -> (exists a, v_p v = Some a) -> vtt_flush v = inr (Internal k) -> In (SubInternal k) (v_oracle v).
Proof.
  intros Hb [a Pa]. unfold vtt_flush. rewrite Hb, Pa. simpl.
  destruct (next_sub (v_oracle v)) as [r o'] eqn:N. destruct (outcome_of_sub r) eqn:O; [|discriminate].
  intro E; inversion E; subst. apply outcome_of_sub_internal in O. subst. eapply next_sub_internal; eauto.
Qed.

Lemma vtt_loop_internal items : forall v k,
  vtt_inv v -> vtt_loop v items = inr (Internal k) -> In (SubInternal k) (v_oracle v).
Proof.
  induction items as [|l rest IH]; intros v k I H.
  - simpl in H. unfold vtt_step in H. unfold vtt_inv in I.
    destruct (v_state v) eqn:St; try discriminate; destruct I as [Ip Ib]; apply vtt_flush_internal; eauto.
  - simpl in H.
    destruct (vtt_step v (Some l)) as [v'|o] eqn:E.
    + assert (G : vtt_inv v' /\ (forall x, In x (v_oracle v') -> In x (v_oracle v))).
      { unfold vtt_step in E. unfold vtt_inv in *.
        destruct (v_state v) eqn:St.
        - inversion E; subst; simpl; auto.
        - unfold vtt_looking in E.
          destruct (vv_blank l); [inversion E; subst; rewrite St; auto|].
          destruct (vv_note l); [inversion E; subst; simpl; auto|].
          destruct (vv_style l); [inversion E; subst; simpl; auto|].
          destruct (vv_arrow l); simpl in E; [|inversion E; subst; rewrite St; auto].
          destruct (vv_cue l); simpl in E; [|inversion E; subst; rewrite St; auto].
          inversion E; subst; simpl; auto.
        - destruct (vv_blank l); inversion E; subst; simpl; rewrite ?St; auto.
        - destruct (vv_blank l); inversion E; subst; simpl; rewrite ?St; auto.
        - destruct I as [Ip Ib]. destruct (vv_blank l).
          + apply vtt_flush_ok in E as [S1 S2]. rewrite S1. auto.
          + unfold vtt_text_line in E. rewrite Ip in E. inversion E; subst; simpl; auto.
        - destruct I as [Ip Ib]. destruct (vv_blank l).
          + apply vtt_flush_ok in E as [S1 S2]. rewrite S1. auto.
          + unfold vtt_text_line in E. rewrite Ib in E. simpl in E. inversion E; subst; simpl; rewrite ?St; auto. }
      destruct G as [I' Inc]. apply Inc. eapply IH; eauto.
    + inversion H; subst. unfold vtt_step in E. unfold vtt_inv in I.
      destruct (v_state v) eqn:St.
      * discriminate.
      * unfold vtt_looking in E.
        destruct (vv_blank l); [discriminate|]. destruct (vv_note l); [discriminate|]. destruct (vv_style l); [discriminate|].
        destruct (vv_arrow l); simpl in E; [|discriminate]. destruct (vv_cue l); simpl in E; discriminate.
      * destruct (vv_blank l); discriminate.
      * destruct (vv_blank l); discriminate.
      * destruct I as [Ip Ib]. destruct (vv_blank l); [apply vtt_flush_internal; eauto|]. unfold vtt_text_line in E. rewrite Ip in E. discriminate.
      * destruct I as [Ip Ib]. destruct (vv_blank l); [apply vtt_flush_internal; eauto|]. unfold vtt_text_line in E. rewrite Ib in E. discriminate.
Qed.

(* every sequence of classified lines — in particular every file, the empty one included, with any cue settings *)
Lemma vtt_views_internal oracle items k :
  vtt_views oracle items = Internal k -> In (SubInternal k) oracle.
Proof.
  unfold vtt_views.
  destruct (vtt_loop (vtt_init oracle) items) eqn:E; [discriminate|].
  intro; subst. change oracle with (v_oracle (vtt_init oracle)).
  eapply vtt_loop_internal; eauto. exact I.
Qed.

Lemma vtt_run_internal oracle content k :
  vtt_run oracle content = Internal k -> In (SubInternal k) oracle.
Proof. apply vtt_views_internal. Qed.

Lemma vtt_total oracle content :
  (forall r, In r oracle -> sub_is_internal r = false) ->
  is_internal (vtt_run oracle content) = false.
Proof.
  intros H. destruct (vtt_run oracle content) eqn:E; try reflexivity.
  apply vtt_run_internal in E. apply H in E. discriminate.
Qed.

(* ---------------------------------------------------------------------------------------------- the cursor, without ruby *)
(* a path whose innermost element accepts spans and line breaks: a span or the paragraph *)
Definition inline (p : list vkind) : Prop := exists r, p = KSpan :: r \/ p = KP :: r.

Lemma data_lines_inline path n : forall i, inline path -> data_lines path false i n = None.
Proof.
  induction n as [|n IH]; intros i [r [E|E]]; subst; simpl; auto.
  - destruct (Nat.eqb i 0); apply IH; unfold inline; eauto.
  - destruct (Nat.eqb i 0); apply IH; unfold inline; eauto.
Qed.

(* without a <ruby> tag: no ruby is open, the cursor and every element an end tag can return to is a span or the paragraph *)
Definition vcur_inv (c : vcur) : Prop :=
  c_ruby c = None /\ inline (c_path c) /\ Forall (fun p => inline (snd p)) (c_open c).

Lemma inline_push p : inline p -> push_result p ChSpan = None.
Proof. intros [r [E|E]]; subst; reflexivity. Qed.
Lemma inline_not_rt p : inline p -> is_rt_path p = false.
Proof. intros [r [E|E]]; subst; reflexivity. Qed.
Lemma inline_not_ruby p : inline p -> is_ruby_path p = false.
Proof. intros [r [E|E]]; subst; reflexivity. Qed.

Lemma vtt_cursor_step_inv c e :
  vcur_inv c -> (match e with TStartRuby _ => False | _ => True end) ->
  match vtt_cursor_step c e with
  | inl c' => vcur_inv c'
  | inr o => is_internal o = false
  end.
Proof.
  intros [R [P O]] He. destruct c as [path ruby open]; simpl in R, P, O; subst ruby.
  assert (Span : forall tag, vcur_inv {| c_path := KSpan :: path; c_ruby := None; c_open := (tag, path) :: open |}).
  { intro tag. repeat split; simpl; [unfold inline; eauto|constructor; [exact P|exact O]]. }
  destruct e as [tag|tag|tag| |tag|breaks]; try contradiction; unfold vtt_cursor_step; cbn [c_path c_ruby c_open].
  - rewrite (inline_push _ P). apply Span.
  - rewrite (inline_push _ P). apply Span.
  - repeat split; assumption.
  - destruct open as [|[top saved] rest]; [repeat split; assumption|].
    inversion O as [|x l Hs Hr]; subst. simpl in Hs.
    assert (Close : vcur_inv (vtt_close {| c_path := path; c_ruby := None; c_open := (top, saved) :: rest |})).
    { unfold vtt_close; cbn [c_path c_ruby c_open]. rewrite (inline_not_ruby _ P). repeat split; assumption. }
    destruct (top =? tag); [exact Close|].
    destruct rest as [|[second saved2] rest2]; [repeat split; assumption|].
    rewrite (inline_not_rt _ P), andb_false_r. cbn [andb]. repeat split; assumption.
  - pose proof (data_lines_inline path (S breaks) 0 P) as D. rewrite D. repeat split; assumption.
Qed.

Lemma vtt_cursor_no_ruby es : forall c,
  vcur_inv c -> vtt_has_ruby es = false -> is_internal (vtt_cursor_loop c es) = false.
Proof.
  induction es as [|e rest IH]; intros c I Hr; [reflexivity|].
  unfold vtt_has_ruby in Hr. simpl in Hr. apply orb_false_iff in Hr as [He Hrest].
  simpl. pose proof (vtt_cursor_step_inv c e I) as S.
  assert (Ok : match e with TStartRuby _ => False | _ => True end) by (destruct e; try exact I0; try discriminate; exact Logic.I).
  specialize (S Ok). destruct (vtt_cursor_step c e) as [c'|o]; [apply IH; assumption|exact S].
Qed.

(* every token sequence without a <ruby> start tag: unmatched, mismatched and surplus end tags, <rt> anywhere, timestamp tags *)
Lemma vtt_cursor_partial attached es :
  vtt_has_ruby es = false -> is_internal (vtt_cursor_run attached es) = false.
Proof.
  intros. apply vtt_cursor_no_ruby; [|assumption].
  repeat split; simpl; [unfold inline; eauto|constructor].
Qed.

(* with ruby: whatever the tokens, the cursor never leaves the paragraph — an end tag returns to an element that was the cursor
   before (the property whose failure was finding vtt-stray-end-tag) *)
Definition below_p (tail p : list vkind) : Prop := exists pre, p = pre ++ KP :: tail.
Definition vcur_below (tail : list vkind) (c : vcur) : Prop :=
  below_p tail (c_path c) /\ Forall (fun p => below_p tail (snd p)) (c_open c)
  /\ match c_ruby c with Some rp => below_p tail rp | None => True end.

Lemma below_cons tail k p : below_p tail p -> below_p tail (k :: p).
Proof. intros [pre E]; subst. exists (k :: pre). reflexivity. Qed.

Lemma vtt_close_below tail c : vcur_below tail c -> vcur_below tail (vtt_close c).
Proof.
  intros [P [O R]]. unfold vtt_close. destruct (c_open c) as [|[t saved] rest] eqn:E; [repeat split; auto; rewrite E; auto|].
  inversion O; subst. repeat split; cbn [c_path c_open c_ruby]; auto.
  destruct (is_ruby_path (c_path c)); [exact I|exact R].
Qed.

Lemma vtt_cursor_step_below tail c e c' :
  vcur_below tail c -> vtt_cursor_step c e = inl c' -> vcur_below tail c'.
Proof.
  intros B H. pose proof B as [P [O R]].
  assert (Opened : forall tag, Forall (fun p => below_p tail (snd p)) ((tag, c_path c) :: c_open c)) by (intro; constructor; assumption).
  destruct e as [tag|tag|tag| |tag|breaks]; unfold vtt_cursor_step in H.
  - destruct (c_ruby c); [discriminate|]. destruct (c_path c) as [|k p] eqn:Ep; [discriminate|].
    destruct (push_result (k :: p) ChRuby); [discriminate|]. inversion H; subst.
    split; [|split]; cbn [c_path c_open c_ruby]; try (apply below_cons; assumption). apply Opened.
  - destruct (c_ruby c) as [rp|] eqn:Er.
    + destruct (c_path c) eqn:Ep; [discriminate|]. inversion H; subst.
      split; [|split]; cbn [c_path c_open c_ruby]; [apply below_cons; exact R|apply Opened|exact R].
    + destruct (push_result (c_path c) ChSpan); [discriminate|]. inversion H; subst.
      split; [|split]; cbn [c_path c_open c_ruby]; [apply below_cons; assumption|apply Opened|exact I].
  - destruct (push_result (c_path c) ChSpan); [discriminate|]. inversion H; subst.
    split; [|split]; cbn [c_path c_open c_ruby]; [apply below_cons; assumption|apply Opened|exact R].
  - inversion H; subst. exact B.
  - destruct (c_open c) as [|[top saved] rest] eqn:Eo; [inversion H; subst; exact B|].
    destruct (top =? tag); [inversion H; subst; apply vtt_close_below; exact B|].
    destruct rest as [|[second s2] rest2]; [inversion H; subst; exact B|].
    destruct ((second =? tag) && is_rt_path (c_path c) && is_ruby_path saved); inversion H; subst;
      [apply vtt_close_below; apply vtt_close_below; exact B|exact B].
  - destruct (data_lines _ _ _ _); [discriminate|]. inversion H; subst. exact B.
Qed.

Fixpoint vtt_cursor_state (c : vcur) (es : list vtt_event) : option vcur :=
  match es with
  | [] => Some c
  | e :: rest => match vtt_cursor_step c e with inr _ => None | inl c' => vtt_cursor_state c' rest end
  end.

Lemma vtt_cursor_below tail es : forall c c',
  vcur_below tail c -> vtt_cursor_state c es = Some c' -> vcur_below tail c'.
Proof.
  induction es as [|e rest IH]; intros c c' B H; simpl in H; [inversion H; subst; exact B|].
  destruct (vtt_cursor_step c e) as [c1|o] eqn:E; [|discriminate].
  eapply IH; [eapply vtt_cursor_step_below; eauto|exact H].
Qed.

(* from the paragraph handed to the parser: after any tokens (ruby included) that do not end the parse the cursor is the
   paragraph or below it — in particular it is not None, the div or the body *)
Lemma vtt_cursor_never_above_p (attached : bool) es c' :
  let tail : list vkind := if attached then [KDiv; KBody] else [] in
  vtt_cursor_state {| c_path := KP :: tail; c_ruby := None; c_open := [] |} es = Some c' ->
  exists pre, c_path c' = pre ++ KP :: tail.
Proof.
  intros tail H.
  assert (B : vcur_below tail {| c_path := KP :: tail; c_ruby := None; c_open := [] |}).
  { split; [exists []; reflexivity|split; [constructor|exact I]]. }
  destruct (vtt_cursor_below tail es _ _ B H) as [P _]. exact P.
Qed.

(* ---------------------------------------------------------------------------------------------- line machine + cursor *)
Definition vtt_cue_oracle (cues : list (bool * list vtt_event)) : list sub_result :=
  map (fun c => sub_of_outcome (vtt_cursor_run (fst c) (snd c))) cues.

Lemma vtt_cue_oracle_clean cues r :
  (forall c, In c cues -> vtt_has_ruby (snd c) = false) -> In r (vtt_cue_oracle cues) -> sub_is_internal r = false.
Proof.
  unfold vtt_cue_oracle. intros Hc H. apply in_map_iff in H as [[a es] [E Hin]]. subst. simpl.
  pose proof (vtt_cursor_partial a es (Hc _ Hin)) as T. destruct (vtt_cursor_run a es); simpl in *; try reflexivity. discriminate.
Qed.

Lemma vtt_composed_partial cues content :
  (forall c, In c cues -> vtt_has_ruby (snd c) = false) ->
  is_internal (vtt_run (vtt_cue_oracle cues) content) = false.
Proof. intro Hc. apply vtt_total. intros r Hr. eapply vtt_cue_oracle_clean; eauto. Qed.
