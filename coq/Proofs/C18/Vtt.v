(* C18 — the WebVTT reader's line machine and the _TextCueParser cursor: totality outside the recorded triggers *)
From TT Require Import Base.Prelude Model.Outcome Model.ReaderGuards Proofs.C18.Srt.

(* which variables are bound in which state (subtitle_text is assigned when a cue's paragraph is created) *)
Definition vtt_inv (v : vtt_vars) : Prop :=
  match v_state v with
  | V_TEXT => v_p v = Some false /\ v_text_bound v = true
  | V_TEXT_MORE => v_p v = Some true /\ v_text_bound v = true
  | _ => True
  end.

Lemma vtt_flush_ok v v' :
  vtt_flush v = inl v' -> v_state v' = V_LOOKING /\ (forall x, In x (v_oracle v') -> In x (v_oracle v)).
Proof.
  unfold vtt_flush. destruct (v_text_bound v); simpl; [|discriminate].
  destruct (v_p v); [|discriminate].
  destruct (next_sub (v_oracle v)) as [r o'] eqn:N. destruct (outcome_of_sub r); [discriminate|].
  intro E; inversion E; subst; simpl. split; [reflexivity|]. eapply next_sub_incl; eauto.
Qed.

Lemma vtt_flush_internal v k :
  v_text_bound v = true -> (exists a, v_p v = Some a) -> vtt_flush v = inr (Internal k) -> In (SubInternal k) (v_oracle v).
Proof.
  intros Hb [a Pa]. unfold vtt_flush. rewrite Hb, Pa. simpl.
  destruct (next_sub (v_oracle v)) as [r o'] eqn:N. destruct (outcome_of_sub r) eqn:O; [|discriminate].
  intro E; inversion E; subst. apply outcome_of_sub_internal in O. subst. eapply next_sub_internal; eauto.
Qed.

Lemma vtt_loop_internal items : forall v k,
  vtt_inv v -> vtt_any_overflow items = false ->
  vtt_loop v items = inr (Internal k) -> In (SubInternal k) (v_oracle v).
Proof.
  induction items as [|l rest IH]; intros v k I O H.
  - simpl in H. unfold vtt_step in H. unfold vtt_inv in I.
    destruct (v_state v) eqn:St; try discriminate; destruct I as [Ip Ib]; apply vtt_flush_internal; eauto.
  - simpl in H. unfold vtt_any_overflow in O. simpl in O. apply orb_false_iff in O as [O1 O2].
    destruct (vtt_step v (Some l)) as [v'|o] eqn:E.
    + assert (G : vtt_inv v' /\ (forall x, In x (v_oracle v') -> In x (v_oracle v))).
      { unfold vtt_step in E. unfold vtt_inv in *.
        destruct (v_state v) eqn:St.
        - inversion E; subst; simpl; auto.
        - unfold vtt_looking in E.
          destruct (vv_blank l); [inversion E; subst; rewrite St; auto|].
          destruct (vv_note l); [inversion E; subst; simpl; auto|].
          destruct (vv_style l); [inversion E; subst; simpl; auto|].
          destruct (vv_arrow l); simpl in E; [|inversion E; subst; rewrite St; auto].
          destruct (vv_cue l); simpl in E; [|inversion E; subst; rewrite St; auto].
          rewrite O1 in E. inversion E; subst; simpl; auto.
        - destruct (vv_blank l); inversion E; subst; simpl; rewrite ?St; auto.
        - destruct (vv_blank l); inversion E; subst; simpl; rewrite ?St; auto.
        - destruct I as [Ip Ib]. destruct (vv_blank l).
          + apply vtt_flush_ok in E as [S1 S2]. rewrite S1. auto.
          + unfold vtt_text_line in E. rewrite Ip in E. inversion E; subst; simpl; auto.
        - destruct I as [Ip Ib]. destruct (vv_blank l).
          + apply vtt_flush_ok in E as [S1 S2]. rewrite S1. auto.
          + unfold vtt_text_line in E. rewrite Ib in E. simpl in E. inversion E; subst; simpl; rewrite ?St; auto. }
      destruct G as [I' Inc]. apply Inc. eapply IH; eauto.
    + inversion H; subst. unfold vtt_step in E. unfold vtt_inv in I.
      destruct (v_state v) eqn:St.
      * discriminate.
      * unfold vtt_looking in E.
        destruct (vv_blank l); [discriminate|]. destruct (vv_note l); [discriminate|]. destruct (vv_style l); [discriminate|].
        destruct (vv_arrow l); simpl in E; [|discriminate]. destruct (vv_cue l); simpl in E; [|discriminate].
        rewrite O1 in E. discriminate.
      * destruct (vv_blank l); discriminate.
      * destruct (vv_blank l); discriminate.
      * destruct I as [Ip Ib]. destruct (vv_blank l); [apply vtt_flush_internal; eauto|]. unfold vtt_text_line in E. rewrite Ip in E. discriminate.
      * destruct I as [Ip Ib]. destruct (vv_blank l); [apply vtt_flush_internal; eauto|]. unfold vtt_text_line in E. rewrite Ib in E. discriminate.
Qed.

(* every file, the empty one included, whose cue settings do not overflow a float *)
Lemma vtt_views_partial oracle items k :
  vtt_any_overflow items = false -> vtt_views oracle items = Internal k -> In (SubInternal k) oracle.
Proof.
  intros O. unfold vtt_views.
  destruct (vtt_loop (vtt_init oracle) items) eqn:E; [discriminate|].
  intro; subst. change oracle with (v_oracle (vtt_init oracle)).
  eapply vtt_loop_internal; eauto. exact I.
Qed.

Lemma vtt_partial oracle content :
  vtt_any_overflow (map vtt_classify (readlines content)) = false ->
  (forall r, In r oracle -> sub_is_internal r = false) ->
  is_internal (vtt_run oracle content) = false.
Proof.
  intros O H. destruct (vtt_run oracle content) eqn:E; try reflexivity.
  unfold vtt_run in E. apply vtt_views_partial in E; auto. apply H in E. discriminate.
Qed.

(* ---------------------------------------------------------------------------------------------- the cursor, without ruby *)
Fixpoint spans (n : nat) (tail : list vkind) : list vkind := match n with O => tail | S k => KSpan :: spans k tail end.

Lemma data_lines_inline path n : forall i,
  (exists r, path = KSpan :: r \/ path = KP :: r) -> data_lines path i n = None.
Proof.
  induction n as [|n IH]; intros i [r [E|E]]; subst; simpl; auto.
  - destruct (Nat.eqb i 0); apply IH; eauto.
  - destruct (Nat.eqb i 0); apply IH; eauto.
Qed.

Lemma vtt_cursor_no_ruby es : forall open tail,
  vtt_stray_from open es = false -> vtt_has_ruby es = false ->
  is_internal (vtt_cursor_loop {| c_path := spans open (KP :: tail); c_ruby := None |} es) = false.
Proof.
  induction es as [|e rest IH]; intros open tail Hs Hr; [reflexivity|].
  unfold vtt_has_ruby in Hr. simpl in Hr.
  assert (Inl : exists r, spans open (KP :: tail) = KSpan :: r \/ spans open (KP :: tail) = KP :: r) by (destruct open; simpl; eauto).
  destruct e; simpl in Hr; try discriminate; simpl in Hs; simpl.
  - (* <rt> without ruby: a span *)
    assert (P : push_result (spans open (KP :: tail)) ChSpan = None) by (destruct open; reflexivity).
    rewrite P. apply (IH (S open) tail); assumption.
  - (* span *)
    assert (P : push_result (spans open (KP :: tail)) ChSpan = None) by (destruct open; reflexivity).
    rewrite P. apply (IH (S open) tail); assumption.
  - (* timestamp *)
    apply (IH open tail); assumption.
  - (* end tag *)
    destruct open as [|d]; [discriminate|]. simpl. apply (IH d tail); assumption.
  - (* data *)
    assert (D : forall n, data_lines (spans open (KP :: tail)) 0 n = None) by (intro n; apply data_lines_inline; assumption).
    specialize (D (S breaks)). simpl in D. rewrite D. apply (IH open tail); assumption.
Qed.

Lemma vtt_cursor_partial attached es :
  vtt_stray_end es = false -> vtt_has_ruby es = false -> is_internal (vtt_cursor_run attached es) = false.
Proof. intros. apply (vtt_cursor_no_ruby es O); assumption. Qed.
