(* C18 — the statements of Properties/C18.v in the vocabulary of the specification (reader_ok of Spec/RobustSpec.v), derived
   from the is_internal lemmas of Srt.v / Vtt.v / Scc.v / Stl.v through SpecLink.v *)
From TT Require Import Base.Prelude Model.Outcome Model.ReaderGuards Spec.RobustSpec.
From TT Require Import Proofs.C18.SpecLink Proofs.C18.Srt Proofs.C18.Vtt Proofs.C18.Scc Proofs.C18.Stl.

Lemma srt_total_ok oracle content :
  (forall r, In r oracle -> sub_is_internal r = false) -> reader_ok (obs_of_outcome (srt_run oracle content)) = true.
Proof. intros. apply not_internal_ok. apply srt_total. assumption. Qed.

Lemma srt_cursor_total_ok attached events : reader_ok (obs_of_outcome (srt_cursor_run attached events)) = true.
Proof. apply not_internal_ok. apply srt_cursor_total. Qed.

Lemma srt_cursor_below_paragraph attached events c :
  srt_cursor_state attached {| sc_parent := CP; sc_open := [] |} events = Some c ->
  sc_parent c = match length (sc_open c) with O => CP | S d => CSpan d end.
Proof. intro H. assert (I : srt_cur_inv {| sc_parent := CP; sc_open := [] |}) by reflexivity. exact (srt_cursor_below_p attached events _ c I H). Qed.

Lemma srt_composed_total_ok cues content : reader_ok (obs_of_outcome (srt_run (srt_cue_oracle cues) content)) = true.
Proof. apply not_internal_ok. apply srt_composed_total. Qed.

Lemma vtt_total_ok oracle content :
  (forall r, In r oracle -> sub_is_internal r = false) -> reader_ok (obs_of_outcome (vtt_run oracle content)) = true.
Proof. intros. apply not_internal_ok. apply vtt_total; assumption. Qed.

Lemma vtt_cursor_partial_ok attached events :
  vtt_has_ruby events = false -> reader_ok (obs_of_outcome (vtt_cursor_run attached events)) = true.
Proof. intros. apply not_internal_ok. apply vtt_cursor_partial; assumption. Qed.

Lemma vtt_composed_partial_ok cues content :
  (forall c, In c cues -> vtt_has_ruby (snd c) = false) ->
  reader_ok (obs_of_outcome (vtt_run (vtt_cue_oracle cues) content)) = true.
Proof. intros. apply not_internal_ok. apply vtt_composed_partial; assumption. Qed.

Lemma scc_total_ok oracle content :
  (forall r, In r oracle -> sub_is_internal r = false) -> reader_ok (obs_of_outcome (scc_run oracle content)) = true.
Proof. intros. apply not_internal_ok. apply scc_total. assumption. Qed.

Lemma stl_total_ok cfg oracle file :
  (forall r, In r oracle -> sub_is_internal r = false) -> reader_ok (obs_of_outcome (stl_run cfg oracle file)) = true.
Proof. intros. apply not_internal_ok. apply stl_total; assumption. Qed.
