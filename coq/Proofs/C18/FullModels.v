(* C18 — what the FULL models of the readers and writers (built and proved for C04, C05, C07, C08, C09, C10, C11) say about the ways
   they can fail.  The guard models of Model/ReaderGuards.v treat the cue-text parsers, SccLine.process and tf.to_model as oracles; the
   statements below are about the complete transcriptions (each tied to the code by its own property's correspondence run), so they
   cover those parts too.  Nothing is proved here: every statement is the other property's theorem, restated under the name C18 uses. *)
From TT Require Proofs.C10.Outcomes Proofs.C11.Outcome Proofs.C09.File Proofs.C08.Stamps Proofs.C04.Total Proofs.C05.Values Proofs.C07.Order.
From TT Require Base.SrtTypes Model.SrtReader Model.VttReader Model.StlDatafile Model.SccReader Base.SccDoc Model.ImscTiming Model.ImscWrite.
From Coq Require Import List.

(* SRT reader: whatever the text, through either kind of stream, the only exception is ValueError (a documented input-format error) *)
Definition srt_reader_only_value_error := Proofs.C10.Outcomes.only_value_error.
(* WebVTT reader: for every file text the only exceptions are TypeError / RuntimeError — exactly the recorded finding vtt-ruby-structure *)
Definition vtt_reader_exceptions := Proofs.C11.Outcome.to_model_exceptions.
(* EBU STL reader: for every byte string and configuration the only errors are struct.error and ValueError; never ZeroDivisionError *)
Definition stl_reader_errors := Proofs.C09.File.reader_errors.
Definition stl_reader_no_zero_div := Proofs.C09.File.reader_no_zero_div.
Definition stl_reader_total := Proofs.C09.File.reader_total.
(* SCC reader: to_model raises iff some line holds a malformed word (ValueError); no word of any channel raises *)
Definition scc_reader_raises_iff := Proofs.C08.Stamps.to_model_raises_iff.
(* IMSC reader (from the ElementTree on): every tree, with any timing, styling and parameters, is read into a document *)
Definition imsc_reader_total := Proofs.C04.Total.read_tt_total.
(* IMSC writer, attribute level: no AttributeError on any value the model accepts *)
Definition imsc_writer_attribute_total := Proofs.C05.Values.print_attribute_error.
