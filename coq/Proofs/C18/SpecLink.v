(* C18 — the guard models' outcome type read as an observation of Spec/RobustSpec.v *)
From TT Require Import Base.Prelude Model.Outcome Spec.RobustSpec.

Definition obs_of_outcome (o : outcome) : reader_obs :=
  match o with
  | OkDoc => RDoc
  | OkNone => RNone
  | FormatError XmlParseErr => RRaised XXmlParse
  | FormatError ValueErr => RRaised XValue
  | FormatError StructErr => RRaised XStruct
  | FormatError UnicodeDecodeErr => RRaised XUnicodeDecode
  | Internal AttributeErr => RRaised XAttribute
  | Internal TypeErr => RRaised XType
  | Internal IndexErr => RRaised XIndex
  | Internal KeyErr => RRaised XKey
  | Internal UnboundLocalErr => RRaised XUnboundLocal
  | Internal AssertionErr => RRaised XAssertion
  | Internal RecursionErr => RRaised XRecursion
  | Internal _ => RRaised XOther
  end.

Lemma reader_ok_obs o : reader_ok (obs_of_outcome o) = negb (is_internal o).
Proof. destruct o as [| |[]|[]]; reflexivity. Qed.

Lemma not_internal_ok o : is_internal o = false -> reader_ok (obs_of_outcome o) = true.
Proof. intro H. rewrite reader_ok_obs, H. reflexivity. Qed.

Lemma internal_not_ok o k : o = Internal k -> reader_ok (obs_of_outcome o) = false.
Proof. intro; subst. destruct k; reflexivity. Qed.
