(* C18 — totality of the SRT reader's line machine and of the _TextParser cursor (guard models of Model/ReaderGuards.v) *)
From TT Require Import Base.Prelude Model.Outcome Model.ReaderGuards.

(* ---------------------------------------------------------------------------------------------- the line machine *)
(* which variables are bound in which state *)
Definition srt_inv (v : srt_vars) : Prop :=
  s_text_bound v = true /\
  match s_state v with
  | S_TEXT => s_p v = Some false
  | S_TEXT_MORE => s_p v = Some true
  | _ => True
  end.

Lemma srt_init_inv oracle : srt_inv (srt_init true oracle).
Proof. split; simpl; auto. Qed.

Lemma next_sub_incl (o : list sub_result) r o' : next_sub o = (r, o') -> forall x, In x o' -> In x o.
Proof. destruct o; simpl; intros H x Hx; inversion H; subst; simpl; auto. Qed.

Lemma next_sub_internal (o : list sub_result) k o' : next_sub o = (SubInternal k, o') -> In (SubInternal k) o.
Proof. destruct o; simpl; intro H; inversion H; subst. now left. Qed.

Lemma outcome_of_sub_internal r k : outcome_of_sub r = Some (Internal k) -> r = SubInternal k.
Proof. destruct r; simpl; intro H; inversion H; reflexivity. Qed.

Lemma srt_step_ok v item v' :
  srt_inv v -> srt_step v item = inl v' -> srt_inv v' /\ (forall x, In x (s_oracle v') -> In x (s_oracle v)).
Proof.
  intros [Hb Hs] H. unfold srt_step in H.
  destruct (s_state v) eqn:St.
  - destruct item as [l|]; [|discriminate].
    destruct (sv_blank l); [inversion H; subst; split; [split; [assumption| rewrite St; exact I]|auto]|].
    destruct (sv_counter l); simpl in H; [|discriminate]. inversion H; subst. split; [split; simpl; auto|auto].
  - destruct item as [l|]; [|discriminate].
    destruct (sv_tc l); simpl in H; [|discriminate]. inversion H; subst. split; [split; simpl; auto|auto].
  - assert (F : flush S_COUNTER v = inl v' -> srt_inv v' /\ (forall x, In x (s_oracle v') -> In x (s_oracle v))).
    { unfold flush. rewrite Hb. simpl. rewrite Hs. destruct (next_sub (s_oracle v)) as [r o'] eqn:N.
      destruct (outcome_of_sub r); [discriminate|]. intro E; inversion E; subst. split; [split; simpl; auto|].
      simpl. eapply next_sub_incl; eauto. }
    destruct item as [l|]; [|auto].
    destruct (sv_blank l); [auto|].
    unfold text_line in H. rewrite Hs in H. inversion H; subst. split; [split; simpl; auto|auto].
  - assert (F : flush S_COUNTER v = inl v' -> srt_inv v' /\ (forall x, In x (s_oracle v') -> In x (s_oracle v))).
    { unfold flush. rewrite Hb. simpl. rewrite Hs. destruct (next_sub (s_oracle v)) as [r o'] eqn:N.
      destruct (outcome_of_sub r); [discriminate|]. intro E; inversion E; subst. split; [split; simpl; auto|].
      simpl. eapply next_sub_incl; eauto. }
    destruct item as [l|]; [|auto].
    destruct (sv_blank l); [auto|].
    unfold text_line in H. rewrite Hb in H. simpl in H. inversion H; subst. split; [split; simpl; auto|auto].
Qed.

Lemma flush_internal v k :
  srt_inv v -> (s_state v = S_TEXT \/ s_state v = S_TEXT_MORE) -> flush S_COUNTER v = inr (Internal k) -> In (SubInternal k) (s_oracle v).
Proof.
  intros [Hb Hs] St. unfold flush. rewrite Hb. simpl.
  assert (P : exists a, s_p v = Some a) by (destruct St as [E|E]; rewrite E in Hs; eauto).
  destruct P as [a Pa]. rewrite Pa.
  destruct (next_sub (s_oracle v)) as [r o'] eqn:N.
  destruct (outcome_of_sub r) eqn:O; [|discriminate].
  intro E; inversion E; subst. apply outcome_of_sub_internal in O. subst. eapply next_sub_internal; eauto.
Qed.

Lemma srt_step_internal v item k :
  srt_inv v -> srt_step v item = inr (Internal k) -> In (SubInternal k) (s_oracle v).
Proof.
  intros I H. pose proof I as [Hb Hs]. unfold srt_step in H.
  destruct (s_state v) eqn:St.
  - destruct item as [l|]; [|discriminate]. destruct (sv_blank l); [discriminate|]. destruct (sv_counter l); discriminate.
  - destruct item as [l|]; [|discriminate]. destruct (sv_tc l); discriminate.
  - destruct item as [l|]; [destruct (sv_blank l)|]; try (apply flush_internal; auto; fail).
    unfold text_line in H. rewrite Hs in H. discriminate.
  - destruct item as [l|]; [destruct (sv_blank l)|]; try (apply flush_internal; auto; fail).
    unfold text_line in H. rewrite Hb in H. simpl in H. discriminate.
Qed.

Lemma srt_loop_internal items : forall v k,
  srt_inv v -> srt_loop v items = inr (Internal k) -> In (SubInternal k) (s_oracle v).
Proof.
  induction items as [|l rest IH]; intros v k I H; simpl in H.
  - destruct (srt_step v None) eqn:E; [discriminate|]. inversion H; subst. eapply srt_step_internal; eauto.
  - destruct (srt_step v (Some l)) eqn:E.
    + destruct (srt_step_ok _ _ _ I E) as [I' Inc]. apply Inc. eapply IH; eauto.
    + inversion H; subst. eapply srt_step_internal; eauto.
Qed.

(* over every sequence of classified lines — in particular over every text *)
Lemma srt_views_internal oracle items k :
  srt_views true oracle items = Internal k -> In (SubInternal k) oracle.
Proof.
  unfold srt_views. destruct (srt_loop (srt_init true oracle) items) eqn:E; [discriminate|].
  intro; subst. change oracle with (s_oracle (srt_init true oracle)). eapply srt_loop_internal; eauto. apply srt_init_inv.
Qed.

Lemma srt_run_internal oracle content k :
  srt_run oracle content = Internal k -> In (SubInternal k) oracle.
Proof. apply srt_views_internal. Qed.

Lemma srt_total oracle content :
  (forall r, In r oracle -> sub_is_internal r = false) -> is_internal (srt_run oracle content) = false.
Proof.
  intro H. destruct (srt_run oracle content) eqn:E; try reflexivity.
  apply srt_run_internal in E. apply H in E. discriminate.
Qed.

(* ---------------------------------------------------------------------------------------------- the cursor *)
(* since repository commit 818e997 an end tag moves the cursor only when it matches the innermost open tag: the cursor is
   always the paragraph or one of the spans below it, as many levels down as there are open tags *)
Definition cursor_of (open : nat) : srt_cursor := match open with O => CP | S d => CSpan d end.
Definition srt_cur_inv (c : srt_cur) : Prop := sc_parent c = cursor_of (length (sc_open c)).

Lemma srt_cursor_step_inv attached c e :
  srt_cur_inv c ->
  match srt_cursor_step attached c e with
  | inl c' => srt_cur_inv c'
  | inr o => is_internal o = false
  end.
Proof.
  unfold srt_cur_inv. intro I. destruct c as [p open]; simpl in I; subst p.
  destruct e as [tag f|tag|]; simpl.
  - assert (A : accepts_inline (cursor_of (length open)) = None) by (destruct open; reflexivity). rewrite A.
    assert (C : (match cursor_of (length open) with CSpan d => CSpan (S d) | _ => CSpan O end) = cursor_of (S (length open)))
      by (destruct open; reflexivity).
    rewrite C. destruct f as [[| | |]|]; simpl; auto.
  - destruct open as [|top rest]; [reflexivity|].
    destruct (top =? tag); [|reflexivity]. destruct rest; reflexivity.
  - assert (A : accepts_inline (cursor_of (length open)) = None) by (destruct open; reflexivity). rewrite A. reflexivity.
Qed.

Lemma srt_cursor_loop_total attached es : forall c,
  srt_cur_inv c -> is_internal (srt_cursor_loop attached c es) = false.
Proof.
  induction es as [|e rest IH]; intros c I; [reflexivity|].
  simpl. pose proof (srt_cursor_step_inv attached c e I) as S.
  destruct (srt_cursor_step attached c e) as [c'|o]; [apply IH; assumption|exact S].
Qed.

(* every callback sequence: unmatched, mismatched and surplus end tags, <font> with any kind of color attribute *)
Lemma srt_cursor_total attached es : is_internal (srt_cursor_run attached es) = false.
Proof. apply srt_cursor_loop_total. reflexivity. Qed.

(* the cursor is never above the paragraph: after any prefix of callbacks that does not end the parse it is the paragraph or a
   span below it, exactly as deep as there are open tags *)
Fixpoint srt_cursor_state (attached : bool) (c : srt_cur) (es : list srt_event) : option srt_cur :=
  match es with
  | [] => Some c
  | e :: rest => match srt_cursor_step attached c e with inr _ => None | inl c' => srt_cursor_state attached c' rest end
  end.

Lemma srt_cursor_below_p attached es : forall c c',
  srt_cur_inv c -> srt_cursor_state attached c es = Some c' -> srt_cur_inv c'.
Proof.
  induction es as [|e rest IH]; intros c c' I H; simpl in H; [inversion H; subst; assumption|].
  pose proof (srt_cursor_step_inv attached c e I) as S.
  destruct (srt_cursor_step attached c e) as [c1|o]; [eapply IH; eauto|discriminate].
Qed.

(* ---------------------------------------------------------------------------------------------- line machine + cursor *)
(* the oracle answer of one _TextParser invocation whose html.parser callbacks are [es] *)
Definition sub_of_outcome (o : outcome) : sub_result :=
  match o with Internal k => SubInternal k | FormatError k => SubFormat k | _ => SubOk end.
Definition srt_cue_oracle (cues : list (bool * list srt_event)) : list sub_result :=
  map (fun c => sub_of_outcome (srt_cursor_run (fst c) (snd c))) cues.

Lemma srt_cue_oracle_clean cues r : In r (srt_cue_oracle cues) -> sub_is_internal r = false.
Proof.
  unfold srt_cue_oracle. intro H. apply in_map_iff in H as [[a es] [E _]]. subst. simpl.
  pose proof (srt_cursor_total a es) as T. destruct (srt_cursor_run a es); simpl in *; try reflexivity. discriminate.
Qed.

Lemma srt_composed_total cues content : is_internal (srt_run (srt_cue_oracle cues) content) = false.
Proof. apply srt_total. apply srt_cue_oracle_clean. Qed.
