(* C18 — totality of the SRT reader's line machine and of the _TextParser cursor (guard models of Model/ReaderGuards.v) *)
From TT Require Import Base.Prelude Model.Outcome Gen.GuardTables Model.ReaderGuards.

(* ---------------------------------------------------------------------------------------------- the line machine *)
(* which variables are bound in which state *)
Definition srt_inv (v : srt_vars) : Prop :=
  s_text_bound v = true /\
  match s_state v with
  | S_TEXT => s_p v = Some false
  | S_TEXT_MORE => s_p v = Some true
  | _ => True
  end.

Lemma srt_init_inv oracle : srt_inv (srt_init true oracle).
Proof. split; simpl; auto. Qed.

Lemma next_sub_incl (o : list sub_result) r o' : next_sub o = (r, o') -> forall x, In x o' -> In x o.
Proof. destruct o; simpl; intros H x Hx; inversion H; subst; simpl; auto. Qed.

Lemma next_sub_internal (o : list sub_result) k o' : next_sub o = (SubInternal k, o') -> In (SubInternal k) o.
Proof. destruct o; simpl; intro H; inversion H; subst. now left. Qed.

Lemma outcome_of_sub_internal r k : outcome_of_sub r = Some (Internal k) -> r = SubInternal k.
Proof. destruct r; simpl; intro H; inversion H; reflexivity. Qed.

Lemma srt_step_ok v item v' :
  srt_inv v -> srt_step v item = inl v' -> srt_inv v' /\ (forall x, In x (s_oracle v') -> In x (s_oracle v)).
Proof.
  intros [Hb Hs] H. unfold srt_step in H.
  destruct (s_state v) eqn:St.
  - destruct item as [l|]; [|discriminate].
    destruct (sv_blank l); [inversion H; subst; split; [split; [assumption| rewrite St; exact I]|auto]|].
    destruct (sv_counter l); simpl in H; [|discriminate]. inversion H; subst. split; [split; simpl; auto|auto].
  - destruct item as [l|]; [|discriminate].
    destruct (sv_tc l); simpl in H; [|discriminate]. destruct (sv_tc_long l); [discriminate|].
    inversion H; subst. split; [split; simpl; auto|auto].
  - assert (F : flush S_COUNTER v = inl v' -> srt_inv v' /\ (forall x, In x (s_oracle v') -> In x (s_oracle v))).
    { unfold flush. rewrite Hb. simpl. rewrite Hs. destruct (next_sub (s_oracle v)) as [r o'] eqn:N.
      destruct (outcome_of_sub r); [discriminate|]. intro E; inversion E; subst. split; [split; simpl; auto|].
      simpl. eapply next_sub_incl; eauto. }
    destruct item as [l|]; [|auto].
    destruct (sv_blank l); [auto|].
    unfold text_line in H. rewrite Hs in H. inversion H; subst. split; [split; simpl; auto|auto].
  - assert (F : flush S_COUNTER v = inl v' -> srt_inv v' /\ (forall x, In x (s_oracle v') -> In x (s_oracle v))).
    { unfold flush. rewrite Hb. simpl. rewrite Hs. destruct (next_sub (s_oracle v)) as [r o'] eqn:N.
      destruct (outcome_of_sub r); [discriminate|]. intro E; inversion E; subst. split; [split; simpl; auto|].
      simpl. eapply next_sub_incl; eauto. }
    destruct item as [l|]; [|auto].
    destruct (sv_blank l); [auto|].
    unfold text_line in H. rewrite Hb in H. simpl in H. inversion H; subst. split; [split; simpl; auto|auto].
Qed.

Lemma flush_internal v k :
  srt_inv v -> (s_state v = S_TEXT \/ s_state v = S_TEXT_MORE) -> flush S_COUNTER v = inr (Internal k) -> In (SubInternal k) (s_oracle v).
Proof.
  intros [Hb Hs] St. unfold flush. rewrite Hb. simpl.
  assert (P : exists a, s_p v = Some a) by (destruct St as [E|E]; rewrite E in Hs; eauto).
  destruct P as [a Pa]. rewrite Pa.
  destruct (next_sub (s_oracle v)) as [r o'] eqn:N.
  destruct (outcome_of_sub r) eqn:O; [|discriminate].
  intro E; inversion E; subst. apply outcome_of_sub_internal in O. subst. eapply next_sub_internal; eauto.
Qed.

Lemma srt_step_internal v item k :
  srt_inv v -> srt_step v item = inr (Internal k) -> In (SubInternal k) (s_oracle v).
Proof.
  intros I H. pose proof I as [Hb Hs]. unfold srt_step in H.
  destruct (s_state v) eqn:St.
  - destruct item as [l|]; [|discriminate]. destruct (sv_blank l); [discriminate|]. destruct (sv_counter l); discriminate.
  - destruct item as [l|]; [|discriminate]. destruct (sv_tc l); [destruct (sv_tc_long l)|]; discriminate.
  - destruct item as [l|]; [destruct (sv_blank l)|]; try (apply flush_internal; auto; fail).
    unfold text_line in H. rewrite Hs in H. discriminate.
  - destruct item as [l|]; [destruct (sv_blank l)|]; try (apply flush_internal; auto; fail).
    unfold text_line in H. rewrite Hb in H. simpl in H. discriminate.
Qed.

Lemma srt_loop_internal items : forall v k,
  srt_inv v -> srt_loop v items = inr (Internal k) -> In (SubInternal k) (s_oracle v).
Proof.
  induction items as [|l rest IH]; intros v k I H; simpl in H.
  - destruct (srt_step v None) eqn:E; [discriminate|]. inversion H; subst. eapply srt_step_internal; eauto.
  - destruct (srt_step v (Some l)) eqn:E.
    + destruct (srt_step_ok _ _ _ I E) as [I' Inc]. apply Inc. eapply IH; eauto.
    + inversion H; subst. eapply srt_step_internal; eauto.
Qed.

(* over every sequence of classified lines — in particular over every text *)
Lemma srt_views_internal oracle items k :
  srt_views true oracle items = Internal k -> In (SubInternal k) oracle.
Proof.
  unfold srt_views. destruct (srt_loop (srt_init true oracle) items) eqn:E; [discriminate|].
  intro; subst. change oracle with (s_oracle (srt_init true oracle)). eapply srt_loop_internal; eauto. apply srt_init_inv.
Qed.

Lemma srt_run_internal oracle content k :
  srt_run oracle content = Internal k -> In (SubInternal k) oracle.
Proof. apply srt_views_internal. Qed.

Lemma srt_total oracle content :
  (forall r, In r oracle -> sub_is_internal r = false) -> is_internal (srt_run oracle content) = false.
Proof.
  intro H. destruct (srt_run oracle content) eqn:E; try reflexivity.
  apply srt_run_internal in E. apply H in E. discriminate.
Qed.

(* ---- where a format error of the line machine comes from: the cue-text parser (a colour parse_color rejects), or int() of an
   hour field with more digits than the interpreter converts (repository commit 4d63802 made such fields match) ------------- *)
Lemma next_sub_format (o : list sub_result) k o' : next_sub o = (SubFormat k, o') -> In (SubFormat k) o.
Proof. destruct o; simpl; intro H; inversion H; subst. now left. Qed.

Lemma outcome_of_sub_format r k : outcome_of_sub r = Some (FormatError k) -> r = SubFormat k.
Proof. destruct r; simpl; intro H; inversion H; reflexivity. Qed.

Lemma flush_format v k : flush S_COUNTER v = inr (FormatError k) -> In (SubFormat k) (s_oracle v).
Proof.
  unfold flush. destruct (negb (s_text_bound v)); [discriminate|]. destruct (s_p v); [|discriminate].
  destruct (next_sub (s_oracle v)) as [r o'] eqn:N. destruct (outcome_of_sub r) eqn:O; [|discriminate].
  intro E; inversion E; subst. apply outcome_of_sub_format in O. subst. eapply next_sub_format; eauto.
Qed.

Lemma text_line_format st v k : text_line st v <> inr (FormatError k).
Proof.
  unfold text_line. destruct st; try (destruct (negb (s_text_bound v)); discriminate).
  destruct (s_p v) as [[|]|]; discriminate.
Qed.

Lemma srt_step_format v item k :
  srt_step v item = inr (FormatError k) ->
  In (SubFormat k) (s_oracle v) \/ (k = ValueErr /\ exists l, item = Some l /\ sv_tc_long l = true).
Proof.
  unfold srt_step. intro H. destruct (s_state v) eqn:St.
  - destruct item as [l|]; [|discriminate]. destruct (sv_blank l); [discriminate|]. destruct (sv_counter l); discriminate.
  - destruct item as [l|]; [|discriminate]. destruct (sv_tc l); [|discriminate]. destruct (sv_tc_long l) eqn:L; [|discriminate].
    inversion H; subst. right. split; [reflexivity|]. exists l. auto.
  - left. destruct item as [l|]; [destruct (sv_blank l)|]; try (apply flush_format; assumption).
    exfalso. eapply text_line_format; eauto.
  - left. destruct item as [l|]; [destruct (sv_blank l)|]; try (apply flush_format; assumption).
    exfalso. eapply text_line_format; eauto.
Qed.

Lemma srt_step_oracle_incl v item v' : srt_step v item = inl v' -> forall x, In x (s_oracle v') -> In x (s_oracle v).
Proof.
  unfold srt_step. intro H.
  assert (F : flush S_COUNTER v = inl v' -> forall x, In x (s_oracle v') -> In x (s_oracle v)).
  { unfold flush. destruct (negb (s_text_bound v)); [discriminate|]. destruct (s_p v); [|discriminate].
    destruct (next_sub (s_oracle v)) as [r o'] eqn:N. destruct (outcome_of_sub r); [discriminate|].
    intro E; inversion E; subst. simpl. eapply next_sub_incl; eauto. }
  assert (T : forall st, text_line st v = inl v' -> forall x, In x (s_oracle v') -> In x (s_oracle v)).
  { intro st. unfold text_line. destruct st; try (destruct (negb (s_text_bound v)); [discriminate|]; intro E; inversion E; subst; auto).
    destruct (s_p v) as [[|]|]; try discriminate. intro E; inversion E; subst; auto. }
  destruct (s_state v).
  - destruct item as [l|]; [|discriminate]. destruct (sv_blank l); [inversion H; subst; auto|].
    destruct (sv_counter l); simpl in H; [|discriminate]. inversion H; subst; auto.
  - destruct item as [l|]; [|discriminate]. destruct (sv_tc l); simpl in H; [|discriminate]. destruct (sv_tc_long l); [discriminate|].
    inversion H; subst; auto.
  - destruct item as [l|]; [destruct (sv_blank l)|]; eauto.
  - destruct item as [l|]; [destruct (sv_blank l)|]; eauto.
Qed.

Lemma srt_loop_format items : forall v k,
  srt_loop v items = inr (FormatError k) ->
  In (SubFormat k) (s_oracle v) \/ (k = ValueErr /\ existsb sv_tc_long items = true).
Proof.
  induction items as [|l rest IH]; intros v k H; simpl in H.
  - destruct (srt_step v None) eqn:E; [discriminate|]. inversion H; subst.
    destruct (srt_step_format _ _ _ E) as [A|[_ [l [B _]]]]; [left; assumption|discriminate].
  - destruct (srt_step v (Some l)) eqn:E.
    + destruct (IH _ _ H) as [A|[A B]].
      * left. eapply srt_step_oracle_incl; eauto.
      * right. split; [assumption|]. simpl. rewrite B. apply orb_true_r.
    + inversion H; subst. destruct (srt_step_format _ _ _ E) as [A|[A [l' [B L]]]]; [left; assumption|].
      right. split; [assumption|]. inversion B; subst. simpl. rewrite L. reflexivity.
Qed.

Lemma existsb_map_c {A B} (f : A -> B) (p : B -> bool) l : existsb p (map f l) = existsb (fun x => p (f x)) l.
Proof. induction l as [|x r IH]; simpl; [reflexivity|rewrite IH; reflexivity]. Qed.

Lemma srt_run_format oracle content k :
  srt_run oracle content = FormatError k ->
  In (SubFormat k) oracle \/ (k = ValueErr /\ existsb (fun l => sv_tc_long (srt_classify l)) (readlines content) = true).
Proof.
  unfold srt_run, srt_views. destruct (srt_loop (srt_init true oracle) (map srt_classify (readlines content))) eqn:E; [discriminate|].
  intro; subst. apply srt_loop_format in E. destruct E as [A|[A B]]; [left; exact A|].
  right. split; [assumption|]. rewrite existsb_map_c in B. exact B.
Qed.

(* a time-code line can only be "too long for int()" when it is longer than the digit limit: the hour fields are part of it *)
Lemma span_digits_bound s : forall n, fst (span_digits n s) <= n + Z.of_nat (length s).
Proof.
  induction s as [|c r IH]; intro n; simpl; [lia|].
  destruct (ascii_digit c); [specialize (IH (n + 1)); lia|simpl; lia].
Qed.
Lemma span_digits_rest s : forall n, (length (snd (span_digits n s)) <= length s)%nat.
Proof.
  induction s as [|c r IH]; intro n; simpl; [lia|].
  destruct (ascii_digit c); [specialize (IH (n + 1)); lia|simpl; lia].
Qed.

Lemma eat_len c s r : eat c s = Some r -> (length r <= length s)%nat.
Proof. destruct s as [|x s']; simpl; [discriminate|]. destruct (x =? c); [|discriminate]. intro E; inversion E; subst. lia. Qed.
Lemma eat_d2_len s r : eat_d2 s = Some r -> (length r <= length s)%nat.
Proof. destruct s as [|a [|b s']]; simpl; try discriminate. destruct (ascii_digit a && ascii_digit b); [|discriminate]. intro E; inversion E; subst. lia. Qed.
Lemma eat_d3_len s r : eat_d3 s = Some r -> (length r <= length s)%nat.
Proof.
  destruct s as [|a [|b [|c s']]]; simpl; try discriminate. destruct (ascii_digit a && ascii_digit b && ascii_digit c); [|discriminate].
  intro E; inversion E; subst. lia.
Qed.
Lemma drop_while_len f s : (length (drop_while f s) <= length s)%nat.
Proof. induction s as [|c r IH]; simpl; [lia|]. destruct (f c); simpl; lia. Qed.
Lemma eat_spaces1_len s r : eat_spaces1 s = Some r -> (length r <= length s)%nat.
Proof.
  destruct s as [|c s']; simpl; [discriminate|]. destruct (re_space c); [|discriminate]. intro E; inversion E; subst.
  pose proof (drop_while_len re_space s'). lia.
Qed.
Lemma obind_len (f : text -> option text) (n : nat) :
  (forall s r, f s = Some r -> (length r <= length s)%nat) ->
  forall o r, (forall s, o = Some s -> (length s <= n)%nat) -> o >>= f = Some r -> (length r <= n)%nat.
Proof. intros F o r Ho H. destruct o as [s|]; simpl in H; [|discriminate]. specialize (Ho s eq_refl). apply F in H. lia. Qed.

Lemma srt_ts_len s n r : srt_ts s = Some (n, r) -> n <= Z.of_nat (length s) /\ (length r <= length s)%nat.
Proof.
  unfold srt_ts, eat_d2p. pose proof (span_digits_bound s 0) as B. pose proof (span_digits_rest s 0) as R.
  destruct (span_digits 0 s) as [m r0]; simpl in B, R. destruct (2 <=? m); [|discriminate].
  destruct (eat 58 r0 >>= eat_d2 >>= eat 58 >>= eat_d2 >>= eat 44 >>= eat_d3) as [r'|] eqn:E; [|discriminate].
  intro H; inversion H; subst. split; [lia|].
  assert (L : (length r <= length r0)%nat); [|lia].
  revert E. apply obind_len; [apply eat_d3_len|]. intros s5. apply obind_len; [apply eat_len|]. intros s4.
  apply obind_len; [apply eat_d2_len|]. intros s3. apply obind_len; [apply eat_len|]. intros s2.
  apply obind_len; [apply eat_d2_len|]. intros s1. apply eat_len.
Qed.

Lemma srt_tc_at_len s nb ne : srt_tc_at s = Some (nb, ne) -> nb <= Z.of_nat (length s) /\ ne <= Z.of_nat (length s).
Proof.
  unfold srt_tc_at. destruct (srt_ts s) as [[n r]|] eqn:T; [|discriminate]. apply srt_ts_len in T as [Tn Tr].
  destruct (eat_spaces1 r >>= eat_arrow >>= eat_spaces1) as [r'|] eqn:E; [|discriminate].
  assert (L : (length r' <= length r)%nat).
  { revert E. apply obind_len; [apply eat_spaces1_len|]. intros s2. apply obind_len.
    - intros x y. unfold eat_arrow. apply obind_len; [apply eat_len|]. intros s4. apply obind_len; [apply eat_len|]. intros s3. apply eat_len.
    - intros s1. apply eat_spaces1_len. }
  destruct (srt_ts r') as [[n' r'']|] eqn:T'; [|discriminate]. apply srt_ts_len in T' as [Tn' _].
  intro H; inversion H; subst. lia.
Qed.

Lemma srt_tc_search_len s : forall nb ne, srt_tc_search s = Some (nb, ne) -> nb <= Z.of_nat (length s) /\ ne <= Z.of_nat (length s).
Proof.
  induction s as [|c r IH]; intros nb ne H.
  - vm_compute in H. discriminate.
  - cbn [srt_tc_search] in H. destruct (srt_tc_at (c :: r)) as [[a b]|] eqn:E.
    + inversion H; subst. apply srt_tc_at_len in E. exact E.
    + apply IH in H. simpl length. lia.
Qed.

(* a line of at most int_max_str_digits characters never makes int() refuse an hour field *)
Lemma srt_short_line_not_long l : Z.of_nat (length l) <= int_max_str_digits -> sv_tc_long (srt_classify l) = false.
Proof.
  intro H. unfold srt_classify. cbn [sv_tc_long]. destruct (srt_tc_search l) as [[nb ne]|] eqn:E; [|reflexivity].
  apply srt_tc_search_len in E. unfold srt_hours_too_long. cbn [fst snd]. lia.
Qed.

(* hence: on a file all of whose lines are that short, a format error of the SRT guard is one the cue-text parser raised *)
Lemma srt_run_format_short oracle content k :
  (forall l, In l (readlines content) -> Z.of_nat (length l) <= int_max_str_digits) ->
  srt_run oracle content = FormatError k -> In (SubFormat k) oracle.
Proof.
  intros Hs H. apply srt_run_format in H as [A|[_ B]]; [exact A|].
  apply existsb_exists in B as [l [Hl Bl]]. rewrite (srt_short_line_not_long l (Hs l Hl)) in Bl. discriminate.
Qed.

(* every hour field of two or more ASCII digits is accepted (the writer prints as many as the hours need): "H..H:MM:SS,mmm" *)
Lemma span_digits_all ds : forall n rest,
  forallb ascii_digit ds = true -> (match rest with c :: _ => ascii_digit c = false | [] => True end) ->
  span_digits n (ds ++ rest) = (n + Z.of_nat (length ds), rest).
Proof.
  induction ds as [|d r IH]; intros n rest Hd Hr.
  - simpl. replace (n + 0) with n by lia. destruct rest as [|c rest']; [reflexivity|]. simpl. rewrite Hr. reflexivity.
  - simpl in Hd. apply andb_true_iff in Hd as [Hd1 Hd2]. simpl app. cbn [span_digits]. rewrite Hd1. rewrite IH; auto.
    f_equal. simpl length. lia.
Qed.
Lemma srt_ts_any_hours hh m1 m2 s1 s2 f1 f2 f3 rest :
  forallb ascii_digit hh = true -> (2 <= length hh)%nat -> forallb ascii_digit [m1; m2; s1; s2; f1; f2; f3] = true ->
  srt_ts (hh ++ 58 :: m1 :: m2 :: 58 :: s1 :: s2 :: 44 :: f1 :: f2 :: f3 :: rest) = Some (Z.of_nat (length hh), rest).
Proof.
  intros Hh Hl Hd. unfold srt_ts, eat_d2p. rewrite span_digits_all; [|assumption|reflexivity].
  replace (2 <=? 0 + Z.of_nat (length hh)) with true by lia.
  simpl in Hd. apply andb_true_iff in Hd as [A1 Hd]. apply andb_true_iff in Hd as [A2 Hd]. apply andb_true_iff in Hd as [A3 Hd].
  apply andb_true_iff in Hd as [A4 Hd]. apply andb_true_iff in Hd as [A5 Hd]. apply andb_true_iff in Hd as [A6 Hd].
  apply andb_true_iff in Hd as [A7 _].
  cbn [eat eat_d2 eat_d3 obind]. rewrite Z.eqb_refl. cbn [obind eat_d2]. rewrite A1, A2. cbn [andb obind eat]. rewrite Z.eqb_refl.
  cbn [obind eat_d2]. rewrite A3, A4. cbn [andb obind eat]. rewrite Z.eqb_refl. cbn [obind eat_d3]. rewrite A5, A6, A7. reflexivity.
Qed.

(* ---------------------------------------------------------------------------------------------- the cursor *)
(* since repository commit 818e997 an end tag moves the cursor only when it matches the innermost open tag: the cursor is
   always the paragraph or one of the spans below it, as many levels down as there are open tags *)
Definition cursor_of (open : nat) : srt_cursor := match open with O => CP | S d => CSpan d end.
Definition srt_cur_inv (c : srt_cur) : Prop := sc_parent c = cursor_of (length (sc_open c)).

Lemma srt_cursor_step_inv attached c e :
  srt_cur_inv c ->
  match srt_cursor_step attached c e with
  | inl c' => srt_cur_inv c'
  | inr o => is_internal o = false
  end.
Proof.
  unfold srt_cur_inv. intro I. destruct c as [p open]; simpl in I; subst p.
  destruct e as [tag f|tag|]; simpl.
  - assert (A : accepts_inline (cursor_of (length open)) = None) by (destruct open; reflexivity). rewrite A.
    assert (C : (match cursor_of (length open) with CSpan d => CSpan (S d) | _ => CSpan O end) = cursor_of (S (length open)))
      by (destruct open; reflexivity).
    rewrite C. destruct f as [[| | |]|]; simpl; auto.
  - destruct open as [|top rest]; [reflexivity|].
    destruct (top =? tag); [|reflexivity]. destruct rest; reflexivity.
  - assert (A : accepts_inline (cursor_of (length open)) = None) by (destruct open; reflexivity). rewrite A. reflexivity.
Qed.

Lemma srt_cursor_loop_total attached es : forall c,
  srt_cur_inv c -> is_internal (srt_cursor_loop attached c es) = false.
Proof.
  induction es as [|e rest IH]; intros c I; [reflexivity|].
  simpl. pose proof (srt_cursor_step_inv attached c e I) as S.
  destruct (srt_cursor_step attached c e) as [c'|o]; [apply IH; assumption|exact S].
Qed.

(* every callback sequence: unmatched, mismatched and surplus end tags, <font> with any kind of color attribute *)
Lemma srt_cursor_total attached es : is_internal (srt_cursor_run attached es) = false.
Proof. apply srt_cursor_loop_total. reflexivity. Qed.

(* the cursor is never above the paragraph: after any prefix of callbacks that does not end the parse it is the paragraph or a
   span below it, exactly as deep as there are open tags *)
Fixpoint srt_cursor_state (attached : bool) (c : srt_cur) (es : list srt_event) : option srt_cur :=
  match es with
  | [] => Some c
  | e :: rest => match srt_cursor_step attached c e with inr _ => None | inl c' => srt_cursor_state attached c' rest end
  end.

Lemma srt_cursor_below_p attached es : forall c c',
  srt_cur_inv c -> srt_cursor_state attached c es = Some c' -> srt_cur_inv c'.
Proof.
  induction es as [|e rest IH]; intros c c' I H; simpl in H; [inversion H; subst; assumption|].
  pose proof (srt_cursor_step_inv attached c e I) as S.
  destruct (srt_cursor_step attached c e) as [c1|o]; [eapply IH; eauto|discriminate].
Qed.

(* ---------------------------------------------------------------------------------------------- line machine + cursor *)
(* the oracle answer of one _TextParser invocation whose html.parser callbacks are [es] *)
Definition sub_of_outcome (o : outcome) : sub_result :=
  match o with Internal k => SubInternal k | FormatError k => SubFormat k | _ => SubOk end.
Definition srt_cue_oracle (cues : list (bool * list srt_event)) : list sub_result :=
  map (fun c => sub_of_outcome (srt_cursor_run (fst c) (snd c))) cues.

Lemma srt_cue_oracle_clean cues r : In r (srt_cue_oracle cues) -> sub_is_internal r = false.
Proof.
  unfold srt_cue_oracle. intro H. apply in_map_iff in H as [[a es] [E _]]. subst. simpl.
  pose proof (srt_cursor_total a es) as T. destruct (srt_cursor_run a es); simpl in *; try reflexivity. discriminate.
Qed.

Lemma srt_composed_total cues content : is_internal (srt_run (srt_cue_oracle cues) content) = false.
Proof. apply srt_total. apply srt_cue_oracle_clean. Qed.
