(* Frame lemmas for the style phase of _process_element: which keys of the style map each pass can touch.
   Used by C01 (display), C13 (shape) and C03 (values). *)
From TT Require Import Model.Doc Gen.StyleTables Model.Isd.

Lemma sget_sset_same m p v : sget (sset m p v) p = Some v.
Proof.
  induction m as [|[k w] m IH]; cbn [sset sget].
  - rewrite Z.eqb_refl. reflexivity.
  - destruct (k =? p) eqn:E; cbn [sget]; rewrite E; [reflexivity | exact IH].
Qed.
Lemma sget_sset_other m p v q : q <> p -> sget (sset m p v) q = sget m q.
Proof.
  intros Hne. induction m as [|[k w] m IH]; cbn [sset sget].
  - destruct (p =? q) eqn:E; [apply Z.eqb_eq in E; congruence | reflexivity].
  - destruct (k =? p) eqn:E; cbn [sget].
    + apply Z.eqb_eq in E. subst k. destruct (p =? q) eqn:E2; [apply Z.eqb_eq in E2; congruence | reflexivity].
    + destruct (k =? q); [reflexivity | exact IH].
Qed.
Lemma shas_sget m p : shas m p = match sget m p with Some _ => true | None => false end.
Proof. reflexivity. Qed.

(* animation steps: the value of key q afterwards is that of the last active step on q, else the old one *)
Fixpoint last_active (t : Q) (iv : Q * option Q) (q : Z) (l : list anim) (acc : option value) : option value :=
  match l with
  | [] => acc
  | s :: l' =>
      if (a_prop s =? q) && active_at t (make_absolute (a_begin s) (a_end s) (Some (fst iv)) (snd iv))
      then last_active t iv q l' (Some (a_val s)) else last_active t iv q l' acc
  end.
Lemma apply_anims_get t iv q : forall l st todo,
  sget (fst (apply_anims t iv l st todo)) q = last_active t iv q l (sget st q).
Proof.
  induction l as [|s l IH]; intros st todo; [reflexivity|]. cbn [apply_anims last_active].
  destruct (active_at t _) eqn:Ea.
  - rewrite IH. destruct (a_prop s =? q) eqn:E; cbn [andb].
    + apply Z.eqb_eq in E. subst q. rewrite sget_sset_same. reflexivity.
    + rewrite sget_sset_other; [reflexivity|]. intros ->. rewrite Z.eqb_refl in E. discriminate.
  - rewrite andb_false_r. apply IH.
Qed.

Lemma apply_specified_get q : forall l st todo,
  sget (fst (apply_specified l st todo)) q = match sget st q with Some v => Some v | None => sget l q end.
Proof.
  induction l as [|[p v] l IH]; intros st todo; cbn [apply_specified].
  - cbn [fst]. destruct (sget st q); reflexivity.
  - unfold shas. destruct (sget st p) eqn:Ep.
    + rewrite IH. destruct (sget st q) eqn:Eq; [reflexivity|]. cbn [sget].
      destruct (p =? q) eqn:E; [apply Z.eqb_eq in E; congruence | reflexivity].
    + rewrite IH. cbn [sget]. destruct (p =? q) eqn:E.
      * apply Z.eqb_eq in E. subst q. rewrite sget_sset_same, Ep. reflexivity.
      * rewrite sget_sset_other; [reflexivity|]. intros ->. rewrite Z.eqb_refl in E. discriminate.
Qed.

(* inheritance of property p only touches key p *)
Lemma inherit_prop_other k pk pst st p q : q <> p -> sget (inherit_prop k pk pst st p) q = sget st q.
Proof.
  intros Hne. unfold inherit_prop.
  repeat match goal with
         | |- context [if ?c then _ else _] => destruct c
         | |- context [match ?x with _ => _ end] => destruct x
         end; try reflexivity; apply sget_sset_other; exact Hne.
Qed.
Lemma inherit_prop_noninherited k pk pst st p :
  p <> p_WritingMode -> p <> p_FontSize -> p <> p_TextDecoration -> is_inherited p = false -> inherit_prop k pk pst st p = st.
Proof.
  intros H0 H1 H2 H3. unfold inherit_prop.
  destruct (p =? p_FontSize) eqn:E1; [apply Z.eqb_eq in E1; congruence|].
  destruct (p =? p_TextDecoration) eqn:E2; [apply Z.eqb_eq in E2; congruence|].
  destruct (p =? p_WritingMode) eqn:E3; [apply Z.eqb_eq in E3; congruence|].
  rewrite H3. reflexivity.
Qed.
(* (tts:writingMode is carried down although it is not inherited: StyleProcessors.WritingMode.inherit) *)
Lemma apply_inherit_get k pk pst q :
  q <> p_WritingMode -> q <> p_FontSize -> q <> p_TextDecoration -> is_inherited q = false ->
  forall keys st, sget (apply_inherit k pk pst keys st) q = sget st q.
Proof.
  intros H0 H1 H2 H3. induction keys as [|p keys IH]; intros st; [reflexivity|]. cbn [apply_inherit]. rewrite IH.
  destruct (Z.eq_dec p q) as [->|Hne]; [rewrite inherit_prop_noninherited by assumption; reflexivity|].
  apply inherit_prop_other. congruence.
Qed.

(* initial values: a key that is present is kept; an absent one gets the document's initial value, else the
   default (nothing for Position) *)
Lemma apply_initial_get d q : forall props st todo, NoDup props ->
  sget (fst (apply_initial d props st todo)) q =
  match sget st q with
  | Some v => Some v
  | None => if existsb (Z.eqb q) props
            then match sget (d_initials d) q with
                 | Some v => Some v
                 | None => if q =? p_Position then None else sget initial_values q
                 end
            else None
  end.
Proof.
  induction props as [|p props IH]; intros st todo Hnd; cbn [apply_initial existsb].
  - cbn [fst]. destruct (sget st q); reflexivity.
  - inversion Hnd as [|? ? Hnotin Hnd']; subst. unfold shas.
    destruct (sget st p) eqn:Ep.
    + rewrite (IH st todo Hnd'). destruct (sget st q) eqn:Eq; [reflexivity|].
      destruct (q =? p) eqn:E; [apply Z.eqb_eq in E; congruence | reflexivity].
    + destruct (sget (d_initials d) p) eqn:Ei.
      * rewrite (IH _ _ Hnd'). destruct (q =? p) eqn:E.
        -- apply Z.eqb_eq in E. subst q. rewrite sget_sset_same, Ep, Ei. reflexivity.
        -- rewrite sget_sset_other by (intros ->; rewrite Z.eqb_refl in E; discriminate). reflexivity.
      * destruct (p =? p_Position) eqn:Epos.
        -- rewrite (IH _ _ Hnd'). destruct (q =? p) eqn:E; [|reflexivity].
           apply Z.eqb_eq in E. subst q. rewrite Ep, Ei, Epos.
           destruct (existsb (Z.eqb p) props) eqn:Ex; [|reflexivity].
           apply existsb_exists in Ex as (y & Hy & Hq). apply Z.eqb_eq in Hq. subst y. contradiction.
        -- destruct (sget initial_values p) eqn:Eiv.
           ++ rewrite (IH _ _ Hnd'). destruct (q =? p) eqn:E.
              ** apply Z.eqb_eq in E. subst q. rewrite sget_sset_same, Ep, Ei, Epos, Eiv. reflexivity.
              ** rewrite sget_sset_other by (intros ->; rewrite Z.eqb_refl in E; discriminate). reflexivity.
           ++ rewrite (IH _ _ Hnd'). destruct (q =? p) eqn:E; [|reflexivity].
              apply Z.eqb_eq in E. subst q. rewrite Ep, Ei, Epos, Eiv.
              destruct (existsb (Z.eqb p) props) eqn:Ex; [|reflexivity].
              apply existsb_exists in Ex as (y & Hy & Hq). apply Z.eqb_eq in Hq. subst y. contradiction.
Qed.

(* computing property p only touches key p (and Origin when p is Position) *)
Lemma compute_prop_other d par st p st' q :
  compute_prop d par st p = Ok st' -> q <> p -> q <> p_Origin -> sget st' q = sget st q.
Proof.
  intros H Hp Ho. unfold compute_prop in H.
  repeat match type of H with
         | (if ?c then _ else _) = _ => destruct c
         | match ?x with _ => _ end = _ => destruct x eqn:?
         | bind ?x _ = _ => destruct x eqn:?; cbn [bind] in H
         | Err _ = Ok _ => discriminate
         | Ok _ = Ok _ => injection H as <-
         end;
  rewrite ?sget_sset_other by assumption; reflexivity.
Qed.
Lemma compute_styles_other d par todo q : forall order st st',
  compute_styles d par todo order st = Ok st' -> ~ In q order -> q <> p_Origin -> sget st' q = sget st q.
Proof.
  induction order as [|p order IH]; intros st st' H Hin Ho; cbn [compute_styles] in H.
  - injection H as <-. reflexivity.
  - destruct (existsb (Z.eqb p) todo).
    + destruct (compute_prop d par st p) as [st1|] eqn:E; [|discriminate]. cbn [bind] in H.
      rewrite (IH st1 st' H) by (try assumption; intros Hx; apply Hin; right; exact Hx).
      apply (compute_prop_other d par st p st1 q E); [|exact Ho]. intros ->. apply Hin. left. reflexivity.
    + apply (IH st st' H); [|exact Ho]. intros Hx. apply Hin. right. exact Hx.
Qed.
