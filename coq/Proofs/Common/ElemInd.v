(* Induction principle for the rose tree of elements, and small list facts. *)
From TT Require Import Model.Doc.

Section ElemInd.
  Variable P : elem -> Prop.
  Hypothesis H : forall a cs, Forall P cs -> P (Elem a cs).
  Fixpoint elem_ind2 (e : elem) : P e :=
    match e with
    | Elem a cs =>
        H a cs ((fix go (l : list elem) : Forall P l :=
                   match l with
                   | [] => Forall_nil P
                   | c :: l' => Forall_cons c (elem_ind2 c) (go l')
                   end) cs)
    end.
End ElemInd.
