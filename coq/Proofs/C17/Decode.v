(* C17: finite-domain theorems (all 65 536 words) decided inside the kernel by vm_compute and lifted to
   universally quantified statements with the bound in the statement. *)
From TT Require Import Base.Prelude Base.SccTypes Gen.SccTables Model.SccWord Spec.Cea608Words.

Lemma all_from_spec k : forall i p, all_from k i p = true -> forall w, i <= w < i + Z.of_nat k -> p w = true.
Proof.
  induction k as [|k IH]; intros i p H w Hw; [lia|].
  cbn [all_from] in H. apply andb_true_iff in H as [H1 H2].
  destruct (Z.eq_dec w i) as [->|Hne]; [assumption|].
  apply (IH (i + 1) p H2). lia.
Qed.

Lemma all_below_spec n p : 0 <= n -> all_from (Z.to_nat n) 0 p = true -> forall w, 0 <= w < n -> p w = true.
Proof.
  intros Hn H w Hw. apply (all_from_spec (Z.to_nat n) 0 p H). rewrite Z2Nat.id by assumption. lia.
Qed.

(* one pass over the 65 536 words decides the conjunction of all per-word predicates *)
Definition word_ok (w : Z) : bool :=
  let d := decode w in
  (trigger_caret w || spec_ok w d) &&
  dec_eqb d (decode (Z.land w 32639)) &&
  ((match_count w <=? 1) && (entries_matching w <=? 1)) &&
  ((0 <=? d_cls d) && (d_cls d <=? 8)) &&
  (negb (d_chan d =? 1) || ((Z.land (sb1 w) 8 =? 0) && negb ((Z.land (sb1 w) 247 =? 21) && (sb2 w <? 64)))) &&
  (negb (d_cls d =? cPac) ||
   ((1 <=? d_row d) && (d_row d <=? 15) &&
    ((d_indent d =? -1) || ((0 <=? d_indent d) && (d_indent d <=? 28) && (d_indent d mod 4 =? 0))))).
Lemma all_words_ok : forall w, 0 <= w < 65536 -> word_ok w = true.
Proof. apply (all_below_spec 65536); [lia | vm_cast_no_check (eq_refl true)]. Qed.
Ltac all_words :=
  let w := fresh "w" in let Hw := fresh "Hw" in let H := fresh "H" in
  intros w Hw; pose proof (all_words_ok w Hw) as H; unfold word_ok in H; cbv zeta in H;
  repeat (apply andb_true_iff in H; destruct H as [H ?]); assumption.

Lemma dec_eqb_true a b : dec_eqb a b = true -> a = b.
Proof.
  destruct a, b. unfold dec_eqb. simpl.
  intros H. repeat (apply andb_true_iff in H as [H ?]).
  repeat match goal with
         | H : (_ =? _) = true |- _ => apply Z.eqb_eq in H
         | H : Bool.eqb _ _ = true |- _ => apply Bool.eqb_prop in H
         end. subst. reflexivity.
Qed.

(* M agrees with the standard on every word outside the recorded finding *)
Lemma decode_spec_b : forall w, 0 <= w < 65536 -> (trigger_caret w || spec_ok w (decode w)) = true.
Proof. all_words. Qed.
Lemma decode_spec w : 0 <= w < 65536 -> trigger_caret w = false -> spec_ok w (decode w) = true.
Proof. intros Hw Ht. pose proof (decode_spec_b w Hw) as H. rewrite Ht in H. exact H. Qed.

(* the classification ignores the parity bits *)
Lemma parity_b : forall w, 0 <= w < 65536 -> dec_eqb (decode w) (decode (Z.land w 32639)) = true.
Proof. all_words. Qed.
Lemma parity_irrelevant w : 0 <= w < 65536 -> decode w = decode (Z.land w 32639).
Proof. intros Hw. apply dec_eqb_true, parity_b, Hw. Qed.

(* no value is matched by two code tables or by two entries of one table: lookup order is immaterial *)
Lemma overlap_b : forall w, 0 <= w < 65536 -> ((match_count w <=? 1) && (entries_matching w <=? 1)) = true.
Proof. all_words. Qed.
Lemma overlap_free w : 0 <= w < 65536 -> match_count w <= 1 /\ entries_matching w <= 1.
Proof. intros Hw. pose proof (overlap_b w Hw) as H. apply andb_true_iff in H as [H1 H2]. lia. Qed.

(* exactly one class, always *)
Lemma class_total_b : forall w, 0 <= w < 65536 -> ((0 <=? d_cls (decode w)) && (d_cls (decode w) <=? 8)) = true.
Proof. all_words. Qed.
Lemma class_exactly_one w : 0 <= w < 65536 -> exists! c, 0 <= c <= 8 /\ d_cls (decode w) = c.
Proof.
  intros Hw. pose proof (class_total_b w Hw) as H. apply andb_true_iff in H as [H1 H2].
  exists (d_cls (decode w)). split; [split; [lia|reflexivity]|]. intros c [_ Hc]. exact Hc.
Qed.

(* only channel-1 field-1 data is attributed to channel 1: a code decoded on channel 1 has the channel bit
   clear and is not a field-2 control code (first byte 0x15 with a second byte below 0x40) *)
Lemma channel1_b : forall w, 0 <= w < 65536 ->
  (negb (d_chan (decode w) =? 1) || ((Z.land (sb1 w) 8 =? 0) && negb ((Z.land (sb1 w) 247 =? 21) && (sb2 w <? 64)))) = true.
Proof. all_words. Qed.
Lemma channel1_only w : 0 <= w < 65536 -> d_chan (decode w) = 1 -> Z.land (sb1 w) 8 = 0 /\ ~ (Z.land (sb1 w) 247 = 21 /\ sb2 w < 64).
Proof.
  intros Hw Hc. pose proof (channel1_b w Hw) as H. rewrite Hc in H. cbn [Z.eqb negb orb] in H.
  change (1 =? 1) with true in H. cbn [negb orb] in H.
  apply andb_true_iff in H as [H1 H2]. split; [lia|]. apply negb_true_iff in H2. apply andb_false_iff in H2. lia.
Qed.

(* PAC attributes are in range *)
Lemma pac_range_b : forall w, 0 <= w < 65536 ->
  (negb (d_cls (decode w) =? cPac) ||
   ((1 <=? d_row (decode w)) && (d_row (decode w) <=? 15) &&
    ((d_indent (decode w) =? -1) || ((0 <=? d_indent (decode w)) && (d_indent (decode w) <=? 28) && (d_indent (decode w) mod 4 =? 0))))) = true.
Proof. all_words. Qed.
