(* C17: the model regenerated from ttconv/scc/word.py (Gen/SccWordSrc.v, harness/pytrans_scc.py) refines to the
   hand-written model Model/SccWord.v.  The domain is finite (65 536 values): the agreement of the two models on
   every value is decided inside the kernel (bound in the statement); the range checks, the parity mask and
   is_code are also proved for unbounded integers by the reduction lemmas of Base/PyNum.v.
   The calls of word.py into ttconv/scc/codes/*.py are the externs of Model/SccWordExt.v (hand-written). *)
From TT Require Import Base.Prelude Base.PyNum Base.SccTypes Gen.SccTables Model.SccWord Model.SccWordExt Gen.SccWordSrc.
From TT Require Import Proofs.C17.Decode.

(* the decoded view of a word object of the generated model: what harness/c17.py (impl_row) reads off the
   Python object through get_code / get_channel / to_text / is_code / value / byte_1 *)
Definition chan_z (c : option num) : Z := match c with Some x => floor_z x | None => 0 end.
Definition src_view (wd : SccWord) : dec :=
  let ch := chan_z (src_get_channel wd) in
  match SccWord_code wd with
  | Some (KControl (id, _)) => mkDec cControl ch id (-1) (-1) (-1) false false false (-1) (-1)
  | Some (KAttr (a, _, (col, bg, un))) => mkDec cAttr ch a (-1) (-1) col false un bg (-1) (-1)
  | Some (KMidRow (a, _, (col, it, un))) => mkDec cMidRow ch a (-1) (-1) col it un false (-1) (-1)
  | Some (KPac d) => mkDec cPac ch (-1) (d_row d) (d_indent d) (d_color d) (d_italic d) (d_under d) false (-1) (-1)
  | Some (KSpecial (a, _, u)) => mkDec cSpecial ch a (-1) (-1) (-1) false false false u (-1)
  | Some (KExtended (a, _, u)) => mkDec cExtended ch a (-1) (-1) (-1) false false false u (-1)
  | None =>
      if src_is_code wd then mkDec cUnknown 0 (-1) (-1) (-1) (-1) false false false (-1) (-1)
      else if floor_z (SccWord_value wd) =? 0 then mkDec cPad 0 (-1) (-1) (-1) (-1) false false false (-1) (-1)
      else if floor_z (SccWord_byte_1 wd) <? 32 then mkDec cUnknown 0 (-1) (-1) (-1) (-1) false false false (-1) (-1)
      else mkDec cChars 0 (-1) (-1) (-1) (-1) false false false (nth 0 (src_to_text wd) (-1)) (nth 1 (src_to_text wd) (-1))
  end.

(* SccWord.from_value(w) in the generated model agrees with the hand-written model on every observable *)
Definition src_agrees (w : Z) : bool :=
  match src_from_value (inj w) with
  | Ok wd =>
      dec_eqb (src_view wd) (decode w) &&
      py_eq (SccWord_byte_1 wd) (inj (byte1 w)) && py_eq (SccWord_byte_2 wd) (inj (byte2 w)) &&
      py_eq (SccWord_value wd) (inj (value w)) &&
      Bool.eqb (src_is_code wd) (is_code (byte1 w)) && text_eqb (src_to_text wd) (to_text w)
  | _ => false
  end.

Lemma src_agrees_all : forall w, 0 <= w < 65536 -> src_agrees w = true.
Proof. apply (all_below_spec 65536); [lia | vm_cast_no_check (eq_refl true)]. Qed.

Lemma py_eq_true x y : py_eq x y = true -> x = y.
Proof. unfold py_eq. intros H. apply num_eq. apply QArith_base.Qeq_bool_iff. exact H. Qed.

Definition src_word (w : Z) (wd : SccWord) : Prop := src_from_value (inj w) = Ok wd.

Lemma src_refines w : 0 <= w < 65536 ->
  exists wd, src_word w wd /\ src_view wd = decode w /\
    SccWord_byte_1 wd = inj (byte1 w) /\ SccWord_byte_2 wd = inj (byte2 w) /\ SccWord_value wd = inj (value w) /\
    src_is_code wd = is_code (byte1 w) /\ src_to_text wd = to_text w.
Proof.
  intros Hw. pose proof (src_agrees_all w Hw) as H. unfold src_agrees, src_word in *.
  destruct (src_from_value (inj w)) as [wd| |]; try discriminate. exists wd.
  do 5 (apply andb_true_iff in H; destruct H as [H ?]).
  split; [reflexivity|]. split; [apply dec_eqb_true; assumption|].
  repeat split; try (apply py_eq_true; assumption); [apply Bool.eqb_prop; assumption|apply text_eqb_eq; assumption].
Qed.

(* ---- for unbounded integers: range checks, parity mask, is_code ------------------------------------------------- *)
Lemma src_from_value_range w : 65535 < w -> src_from_value (inj w) = Raise ValueError.
Proof. intros H. unfold src_from_value, py_gt. rewrite py_lt_int. replace (65535 <? w) with true by lia. reflexivity. Qed.
Lemma src_from_bytes_range a b : 255 < a \/ 255 < b -> src_from_bytes (inj a) (inj b) = Raise ValueError.
Proof.
  intros H. unfold src_from_bytes, py_gt. rewrite !py_lt_int.
  replace ((255 <? a) || (255 <? b)) with true by lia. reflexivity.
Qed.
Lemma src_decipher_parity_bit_refines b : src_decipher_parity_bit (inj b) = inj (Z.land b parity_mask).
Proof. unfold src_decipher_parity_bit. apply py_and_int. Qed.
Lemma src_from_bytes_fields a b : a <= 255 -> b <= 255 ->
  exists wd, src_from_bytes (inj a) (inj b) = Ok wd /\ SccWord_byte_1 wd = inj (Z.land a 127) /\
    SccWord_byte_2 wd = inj (Z.land b 127) /\ SccWord_value wd = inj (Z.land a 127 * 256 + Z.land b 127) /\
    src_is_code wd = is_code (Z.land a 127).
Proof.
  intros Ha Hb. unfold src_from_bytes, py_gt. rewrite !py_lt_int.
  replace ((255 <? a) || (255 <? b)) with false by lia. cbv zeta. eexists. split; [reflexivity|].
  unfold src_is_code, is_code, SccWord_new, src_SccWord_init. cbv zeta.
  cbn [SccWord_byte_1 SccWord_byte_2 SccWord_value SccWord_setbyte_1 SccWord_setbyte_2 SccWord_setvalue SccWord_setcode SccWord_blank].
  unfold src_decipher_parity_bit. rewrite !py_and_int, py_mul_int, py_add_int, !py_le_int.
  repeat split.
Qed.

(* ---- the headline theorems of Properties/C17.v restated about the regenerated model --------------------------------- *)
Lemma src_parity_irrelevant w : 0 <= w < 65536 ->
  exists wd wd', src_word w wd /\ src_word (Z.land w 32639) wd' /\ src_view wd = src_view wd'.
Proof.
  intros Hw. assert (Hl : 0 <= Z.land w 32639 < 65536).
  { split; [apply Z.land_nonneg; lia|].
    apply Z.ltb_lt. apply (all_below_spec 65536 (fun w => Z.land w 32639 <? 65536)); [lia|vm_cast_no_check (eq_refl true)|assumption]. }
  destruct (src_refines w Hw) as (wd & H1 & H2 & _). destruct (src_refines _ Hl) as (wd' & H1' & H2' & _).
  exists wd, wd'. split; [assumption|]. split; [assumption|]. rewrite H2, H2'. apply parity_irrelevant. assumption.
Qed.
Lemma src_decode_spec w : 0 <= w < 65536 -> Spec.Cea608Words.trigger_caret w = false ->
  exists wd, src_word w wd /\ Spec.Cea608Words.spec_ok w (src_view wd) = true.
Proof.
  intros Hw Ht. destruct (src_refines w Hw) as (wd & H1 & H2 & _). exists wd. split; [assumption|].
  rewrite H2. apply decode_spec; assumption.
Qed.
