(* C12: consequences of the per-rate lemmas and rate-independent facts. *)
From TT Require Import Base.Prelude Model.TimeCode Spec.Smpte12M.
From TT Require Import Proofs.C12.Integer Proofs.C12.DropFrame.

(* ---- the counting sequence is strictly increasing on valid labels (any F, D) ---- *)
Lemma succ_lt F D l : 0 <= D < F -> valid F D l -> lt_label l (succ F D l).
Proof.
  destruct l as [[[h m] s] f]. unfold valid, succ, lt_label. intros HD (Hh & Hm & Hs & Hf & Hd).
  destruct (f + 1 <? F) eqn:E1; [lia|]. destruct (s + 1 <? 60) eqn:E2; [lia|].
  destruct (m + 1 <? 60) eqn:E3; lia.
Qed.

(* ---- from_frames enumerates exactly the SMPTE counting sequence ---- *)
Section Enumerates.
  Variable r : rate.  Variables F D : Z.
  Hypothesis Hsucc : forall n, 0 <= n -> from_frames r (n + 1) = succ F D (from_frames r n).
  Hypothesis Hzero : from_frames r 0 = (0, 0, 0, 0).
  Lemma enumerates_gen (n : nat) : from_frames r (Z.of_nat n) = label_spec F D n.
  Proof.
    induction n as [|n IH]; [exact Hzero|].
    rewrite Nat2Z.inj_succ. unfold Z.succ. rewrite Hsucc by lia. rewrite IH. reflexivity.
  Qed.
End Enumerates.

Lemma spec24 n : from_frames r24 (Z.of_nat n) = label_spec 24 0 n.  Proof. apply enumerates_gen; [apply succ24|reflexivity]. Qed.
Lemma spec25 n : from_frames r25 (Z.of_nat n) = label_spec 25 0 n.  Proof. apply enumerates_gen; [apply succ25|reflexivity]. Qed.
Lemma spec30 n : from_frames r30 (Z.of_nat n) = label_spec 30 0 n.  Proof. apply enumerates_gen; [apply succ30|reflexivity]. Qed.
Lemma spec50 n : from_frames r50 (Z.of_nat n) = label_spec 50 0 n.  Proof. apply enumerates_gen; [apply succ50|reflexivity]. Qed.
Lemma spec60 n : from_frames r60 (Z.of_nat n) = label_spec 60 0 n.  Proof. apply enumerates_gen; [apply succ60|reflexivity]. Qed.
Lemma spec2997 n : from_frames r2997 (Z.of_nat n) = label_spec 30 2 n.  Proof. apply enumerates_gen; [apply succ2997|reflexivity]. Qed.
Lemma spec5994 n : from_frames r5994 (Z.of_nat n) = label_spec 60 4 n.  Proof. apply enumerates_gen; [apply succ5994|reflexivity]. Qed.

(* ---- add_frames k = k single additions; offsets ---- *)
Section Add.
  Variable r : rate.
  Hypothesis Hrt : forall n, 0 <= n -> to_frames r (from_frames r n) = n.
  Lemma add_frames_iter_gen (k : nat) l : 0 <= to_frames r l ->
    iter_n k (add_frames r 1) l = (if (k =? 0)%nat then l else add_frames r (Z.of_nat k) l).
  Proof.
    intros H0. induction k as [|k IH]; [reflexivity|].
    cbn [iter_n]. rewrite IH. destruct k as [|k]; [reflexivity|].
    cbn [Nat.eqb]. unfold add_frames. rewrite Hrt by lia. f_equal. lia.
  Qed.
  Lemma offset_gen n : 0 <= n -> to_temporal_offset r (from_frames r n) = (n * rd r, rn r).
  Proof. intros H. unfold to_temporal_offset. rewrite Hrt by assumption. reflexivity. Qed.
End Add.

(* ---- a rational lying exactly on a frame boundary converts to that frame (any rate) ---- *)
Lemma boundary_gen r k : 0 < rn r -> 0 < rd r -> from_seconds r (k * rd r) (rn r) = from_frames r k.
Proof.
  intros Hn Hd. unfold from_seconds. f_equal.
  replace (k * rd r * rn r) with (k * (rn r * rd r)) by ring.
  apply Z.div_mul. lia.
Qed.
(* more generally from_seconds is floor(seconds * fps) *)
Lemma from_seconds_floor r sn sd k : 0 < rn r -> 0 < rd r -> 0 < sd ->
  k * (sd * rd r) <= sn * rn r < (k + 1) * (sd * rd r) -> from_seconds r sn sd = from_frames r k.
Proof.
  intros Hn Hd Hs H. unfold from_seconds. f_equal.
  symmetry. apply Z.div_unique with (r := sn * rn r - k * (sd * rd r)); nia.
Qed.

(* ---- printing and parsing ---- *)
Lemma pad2_two n : 0 <= n < 100 -> pad2 n = [digit (n / 10); digit (n mod 10)].
Proof.
  intros H. unfold pad2. destruct (n <? 10) eqn:E.
  - replace (n / 10) with 0 by lia. replace (n mod 10) with n by lia. reflexivity.
  - cbn [digits_fuel]. rewrite E. replace (n / 10 <? 10) with true by lia. reflexivity.
Qed.
Lemma two_digits_digit a b : 0 <= a <= 9 -> 0 <= b <= 9 -> two_digits (digit a) (digit b) = Some (a * 10 + b).
Proof.
  intros Ha Hb. unfold two_digits, is_digit, digit.
  replace ((48 <=? 48 + a) && (48 + a <=? 57) && ((48 <=? 48 + b) && (48 + b <=? 57))) with true by lia.
  f_equal. lia.
Qed.
Lemma two_digits_pad n : 0 <= n < 100 -> two_digits (digit (n / 10)) (digit (n mod 10)) = Some n.
Proof. intros H. rewrite two_digits_digit by lia. f_equal. lia. Qed.

Lemma parse_print_gen r F D l :
  0 < rn r -> 0 < rd r -> valid F D l -> F <= 100 -> (let '(h, _, _, _) := l in h < 100) ->
  parse_tc (print_tc r l) r = Some (l, r).
Proof.
  destruct l as [[[h m] s] f]. intros Hn Hd (Hh & Hm & Hs & Hf & _) HF Hh'.
  unfold print_tc. rewrite !pad2_two by lia. cbn [app]. unfold parse_tc.
  destruct (is_df r) eqn:Edf.
  - (* ';' before the frames: the NDF pattern fails, the DF pattern matches, rate unchanged *)
    unfold match_tc at 1. change (colon =? colon) with true. change (semicolon =? colon) with false. cbn [andb].
    unfold is_df in Edf. rewrite Edf.
    unfold match_tc. change (negb (colon =? newline)) with true. change (negb (semicolon =? newline)) with true. cbn [andb].
    rewrite !two_digits_pad by lia. reflexivity.
  - unfold match_tc. change (colon =? colon) with true. cbn [andb].
    rewrite !two_digits_pad by lia. reflexivity.
Qed.

(* ---- ClockTime ---- *)
Lemma round_he_cases n d : 0 < d ->
  let m := round_he n d in
  (m = n / d \/ m = n / d + 1) /\ 2 * Z.abs (m * d - n) <= d /\ (2 * Z.abs (m * d - n) = d -> Z.even m = true).
Proof.
  intros Hd. cbv zeta. unfold round_he.
  pose proof (Z.div_mod n d ltac:(lia)) as E. pose proof (Z.mod_pos_bound n d Hd) as B.
  set (q := n / d) in *. set (r := n mod d) in *. clearbody q r.
  assert (E' : forall k, (q + k) * d - n = k * d - r) by (intros; rewrite E; ring).
  destruct (2 * r <? d) eqn:E1.
  - pose proof (E' 0) as H. rewrite Z.add_0_r in H. rewrite H, Z.mul_0_l. split; [auto|]. split; lia.
  - destruct (d <? 2 * r) eqn:E2.
    + rewrite (E' 1). rewrite Z.mul_1_l. split; [auto|]. split; lia.
    + destruct (Z.even q) eqn:E3.
      * pose proof (E' 0) as H. rewrite Z.add_0_r in H. rewrite H, Z.mul_0_l. split; [auto|]. split; [lia|auto].
      * rewrite (E' 1). rewrite Z.mul_1_l. split; [auto|]. split; [lia|].
        intros _. rewrite Z.even_add. rewrite E3. reflexivity.
Qed.

(* error at most half a millisecond:  |ms - 1000 * n/d| <= 1/2 *)
Lemma clock_nearest n d : 0 < d -> 2 * Z.abs (clock_ms n d * d - 1000 * n) <= d.
Proof. intros Hd. unfold clock_ms. apply (round_he_cases (1000 * n) d Hd). Qed.

Lemma clock_fields_range ms : 0 <= ms ->
  let '(h, m, s, f) := clock_fields ms in
  0 <= h /\ 0 <= m < 60 /\ 0 <= s < 60 /\ 0 <= f < 1000 /\ ((h * 60 + m) * 60 + s) * 1000 + f = ms.
Proof. intros H. unfold clock_fields. lia. Qed.

Lemma clock_ms_nonneg n d : 0 < d -> 0 <= n -> 0 <= clock_ms n d.
Proof.
  intros Hd Hn. unfold clock_ms. destruct (round_he_cases (1000 * n) d Hd) as [[H|H] _]; rewrite H.
  - apply Z.div_pos; lia.
  - assert (0 <= 1000 * n / d) by (apply Z.div_pos; lia). lia.
Qed.

(* exactness on millisecond multiples *)
Lemma clock_ms_exact k : clock_ms k 1000 = k.
Proof. unfold clock_ms, round_he. replace (1000 * k / 1000) with k by lia. replace ((1000 * k) mod 1000) with 0 by lia. reflexivity. Qed.

(* half-even rounding is monotone in the rational argument *)
Lemma round_he_mono n1 d1 n2 d2 : 0 < d1 -> 0 < d2 -> n1 * d2 <= n2 * d1 -> round_he n1 d1 <= round_he n2 d2.
Proof.
  intros H1 H2 Hle.
  destruct (round_he_cases n1 d1 H1) as (_ & A1 & T1). destruct (round_he_cases n2 d2 H2) as (_ & A2 & T2).
  set (m1 := round_he n1 d1) in *. set (m2 := round_he n2 d2) in *. clearbody m1 m2.
  destruct (Z_le_gt_dec m1 m2) as [|Hgt]; [assumption|exfalso].
  assert (U1 : 2 * (m1 * d1 - n1) <= d1) by lia.
  assert (U2 : 2 * (n2 - m2 * d2) <= d2) by lia.
  assert (P : 0 < d1 * d2) by nia.
  assert (V1 : 2 * m1 * (d1 * d2) <= d1 * d2 + 2 * (n1 * d2)) by nia.
  assert (V2 : 2 * (n2 * d1) <= d1 * d2 + 2 * m2 * (d1 * d2)) by nia.
  assert (W : 2 * m1 * (d1 * d2) <= 2 * (m2 + 1) * (d1 * d2)) by nia.
  assert (Em : m1 = m2 + 1) by nia.
  subst m1.
  assert (X1 : 2 * ((m2 + 1) * d1 - n1) = d1) by nia.
  assert (X2 : 2 * (n2 - m2 * d2) = d2) by nia.
  assert (Ev1 : Z.even (m2 + 1) = true) by (apply T1; lia).
  assert (Ev2 : Z.even m2 = true) by (apply T2; lia).
  rewrite Z.even_add in Ev1. rewrite Ev2 in Ev1. discriminate.
Qed.

Lemma clock_monotone n1 d1 n2 d2 : 0 < d1 -> 0 < d2 -> n1 * d2 <= n2 * d1 -> clock_ms n1 d1 <= clock_ms n2 d2.
Proof. intros. unfold clock_ms. apply round_he_mono; try assumption. nia. Qed.
