(* C12: integer-rate and drop-frame theorems, for unbounded n. *)
From TT Require Import Base.Prelude Model.TimeCode Spec.Smpte12M.

Ltac label_eq := f_equal; [f_equal; [f_equal|]|]; lia.

(* ================= non-drop rates ================= *)
Ltac ndf_setup r :=
  unfold add_frames, from_frames, to_frames, adjust, label_of;
  change (is_df r) with false; cbv iota;
  let v := eval vm_compute in (ndf r) in change (ndf r) with v;
  cbn [rn rd r].

Ltac ndf_roundtrip r := intros; ndf_setup r; lia.
Ltac ndf_valid r := intros; ndf_setup r; unfold valid; repeat split; lia.
Ltac ndf_succ r F :=
  intros; ndf_setup r; unfold succ;
  match goal with |- context [ (?a mod F + 1 <? F) ] => destruct (a mod F + 1 <? F) eqn:?F1 end; [label_eq|];
  match goal with |- context [ ((?a / F) mod 60 + 1 <? 60) ] => destruct ((a / F) mod 60 + 1 <? 60) eqn:?F2 end; [label_eq|];
  match goal with |- context [ ((?a / (60 * F)) mod 60 + 1 <? 60) ] => destruct ((a / (60 * F)) mod 60 + 1 <? 60) eqn:?F3 end;
  [ match goal with |- context [ if ?c then 0 else 0 ] => destruct c end; label_eq | label_eq ].

Lemma rt24 n : 0 <= n -> to_frames r24 (from_frames r24 n) = n.  Proof. ndf_roundtrip r24. Qed.
Lemma rt25 n : 0 <= n -> to_frames r25 (from_frames r25 n) = n.  Proof. ndf_roundtrip r25. Qed.
Lemma rt30 n : 0 <= n -> to_frames r30 (from_frames r30 n) = n.  Proof. ndf_roundtrip r30. Qed.
Lemma rt50 n : 0 <= n -> to_frames r50 (from_frames r50 n) = n.  Proof. ndf_roundtrip r50. Qed.
Lemma rt60 n : 0 <= n -> to_frames r60 (from_frames r60 n) = n.  Proof. ndf_roundtrip r60. Qed.

Lemma valid24 n : 0 <= n -> valid 24 0 (from_frames r24 n).  Proof. ndf_valid r24. Qed.
Lemma valid25 n : 0 <= n -> valid 25 0 (from_frames r25 n).  Proof. ndf_valid r25. Qed.
Lemma valid30 n : 0 <= n -> valid 30 0 (from_frames r30 n).  Proof. ndf_valid r30. Qed.
Lemma valid50 n : 0 <= n -> valid 50 0 (from_frames r50 n).  Proof. ndf_valid r50. Qed.
Lemma valid60 n : 0 <= n -> valid 60 0 (from_frames r60 n).  Proof. ndf_valid r60. Qed.

Lemma succ24 n : 0 <= n -> from_frames r24 (n + 1) = succ 24 0 (from_frames r24 n).  Proof. ndf_succ r24 24. Qed.
Lemma succ25 n : 0 <= n -> from_frames r25 (n + 1) = succ 25 0 (from_frames r25 n).  Proof. ndf_succ r25 25. Qed.
Lemma succ30 n : 0 <= n -> from_frames r30 (n + 1) = succ 30 0 (from_frames r30 n).  Proof. ndf_succ r30 30. Qed.
Lemma succ50 n : 0 <= n -> from_frames r50 (n + 1) = succ 50 0 (from_frames r50 n).  Proof. ndf_succ r50 50. Qed.
Lemma succ60 n : 0 <= n -> from_frames r60 (n + 1) = succ 60 0 (from_frames r60 n).  Proof. ndf_succ r60 60. Qed.
