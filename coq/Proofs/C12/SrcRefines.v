(* C12: the model regenerated from the source (Gen/TimeCodeSrc.v, harness/pytrans.py) refines to the
   hand-written model Model/TimeCode.v: on the injection of the hand model's inputs each src_* function
   returns the injection of the hand model's result.  For every frame rate in lowest terms with positive
   numerator and denominator (hence the 8 rates of the property), every frame count / label / rational;
   proved by the reduction lemmas of Base/PyNum.v and lia, not by evaluation.
   The corollaries restate the headline theorems of Properties/C12.v about the src_* functions. *)
From TT Require Import Base.Prelude Base.PyNum Model.TimeCode Spec.Smpte12M Gen.TimeCodeSrc.
From TT Require Import Proofs.C12.Integer Proofs.C12.DropFrame Proofs.C12.Derived.

(* ---- injections of the hand model's data ------------------------------------------------------ *)
Definition inj_rate (r : rate) : num := inj_frac (rn r) (rd r).
Definition inj_tc (r : rate) (l : TimeCode.label) : SmpteTimeCode :=
  let '(h, m, s, f) := l in SmpteTimeCode_new (inj h) (inj m) (inj s) (inj f) (inj_rate r).
Definition inj_clock (l : TimeCode.label) : ClockTime :=
  let '(h, m, s, ms) := l in ClockTime_new (inj h) (inj m) (inj s) (inj ms).
(* a frame rate as fractions.Fraction holds it: positive, in lowest terms *)
Definition rate_ok (r : rate) : Prop := 0 < rn r /\ 0 < rd r /\ Z.gcd (rn r) (rd r) = 1.
Definition label_nonneg (l : TimeCode.label) : Prop := let '(h, m, s, f) := l in 0 <= h /\ 0 <= m /\ 0 <= s /\ 0 <= f.

Lemma rate_ok_8 : rate_ok r24 /\ rate_ok r25 /\ rate_ok r30 /\ rate_ok r50 /\ rate_ok r60 /\
                  rate_ok r2997 /\ rate_ok r5994 /\ rate_ok r23976.
Proof. unfold rate_ok; cbn [rn rd r24 r25 r30 r50 r60 r2997 r5994 r23976]. repeat split; try lia; reflexivity. Qed.

(* ---- normalisation: rewrite PyNum operations on inj / inj_frac arguments bottom-up ------------------- *)
Lemma ceil_div_pos n d : 0 < n -> 0 < d -> 0 < ceil_div n d.
Proof.
  intros. unfold ceil_div. assert ((- n) / d < 0) by (apply Z.div_lt_upper_bound; lia). lia.
Qed.
Lemma round_he_nonneg n d : 0 <= n -> 0 < d -> 0 <= round_he n d.
Proof. intros. unfold round_he. assert (0 <= n / d) by (apply Z.div_pos; lia). destruct (2 * (n mod d) <? d); [lia|]. destruct (d <? 2 * (n mod d)); [lia|]. destruct (Z.even (n / d)); lia. Qed.

Ltac pn_side :=
  first [ assumption | lia | apply ceil_div_pos; pn_side | apply Z.lt_le_incl; apply ceil_div_pos; pn_side
        | apply round_he_nonneg; pn_side
        | apply Z.mul_pos_pos; pn_side | apply Z.mul_nonneg_nonneg; pn_side | nia ].
Ltac pn_step := first
  [ rewrite py_add_int | rewrite py_sub_int | rewrite py_mul_int | rewrite py_neg_int
  | rewrite py_floor_int | rewrite py_ceil_int | rewrite py_round_int | rewrite py_int_int
  | rewrite py_lt_int | rewrite py_le_int | rewrite py_eq_int | rewrite inj_if
  | rewrite py_floor_truediv_int by pn_side | rewrite py_mod_int by pn_side
  | rewrite py_mul_int_frac by pn_side | rewrite py_mul_frac_int by pn_side
  | rewrite py_add_int_frac by pn_side | rewrite py_add_frac_int by pn_side
  | rewrite py_sub_int_frac by pn_side | rewrite py_sub_frac_int by pn_side
  | rewrite py_truediv_frac_int by pn_side | rewrite py_truediv_int_frac by pn_side | rewrite py_truediv_int by pn_side
  | rewrite py_mod_frac_int by pn_side | rewrite py_lt_frac_int by pn_side
  | rewrite py_floor_frac by pn_side | rewrite py_ceil_frac by pn_side | rewrite py_round_frac by pn_side
  | rewrite py_int_frac_nonneg by pn_side | rewrite py_round_nd_frac by pn_side
  | rewrite py_add_frac by pn_side | rewrite py_sub_frac by pn_side | rewrite py_mul_frac by pn_side ].
Ltac pynum := unfold py_float, py_fraction2, py_gt, py_ge, py_ne; repeat pn_step.
Ltac tc_proj := cbn [inj_tc inj_clock SmpteTimeCode_new SmpteTimeCode__hours SmpteTimeCode__minutes SmpteTimeCode__seconds
                     SmpteTimeCode__frames SmpteTimeCode__frame_rate ClockTime_new ClockTime__hours ClockTime__minutes
                     ClockTime__seconds ClockTime__milliseconds ClockTime__ms_separator].

(* ---- is_drop_frame, to_seconds (integer part) ---------------------------------------------------------- *)
Lemma src_is_drop_frame_refines r l : rate_ok r -> src_is_drop_frame (inj_tc r l) = is_df r.
Proof.
  intros (Hn & Hd & Hg). destruct l as [[[h m] s] f]. unfold src_is_drop_frame, inj_rate, is_df. tc_proj.
  unfold inj_rate. rewrite py_denominator_frac by assumption. apply py_eq_int.
Qed.

Lemma src_hhmmss_to_seconds_refines r h m s f :
  src_hhmmss_to_seconds (inj_tc r (h, m, s, f)) = inj (h * 3600 + m * 60 + s).
Proof. unfold src_hhmmss_to_seconds. tc_proj. pynum. reflexivity. Qed.

(* ---- to_frames ------------------------------------------------------------------------------------------ *)
Lemma src_to_frames_refines r l : rate_ok r -> label_nonneg l ->
  src_to_frames (inj_tc r l) = inj (to_frames r l).
Proof.
  intros Hr Hl. pose proof Hr as (Hn & Hd & Hg). destruct l as [[[h m] s] f]. destruct Hl as (Hh & Hm & Hs & Hf).
  unfold src_to_frames. cbv zeta. rewrite !src_is_drop_frame_refines, src_hhmmss_to_seconds_refines by assumption.
  unfold to_frames. destruct (is_df r) eqn:E; cbn [negb]; tc_proj; unfold inj_rate, drop_per_minute, ndf; pynum.
  - first [reflexivity | f_equal; lia].
  - first [reflexivity | f_equal; lia].
Qed.

Lemma src_to_temporal_offset_refines r l : rate_ok r -> label_nonneg l ->
  src_to_temporal_offset (inj_tc r l) = inj_frac (fst (to_temporal_offset r l)) (snd (to_temporal_offset r l)).
Proof.
  intros Hr Hl. pose proof Hr as (Hn & Hd & Hg). unfold src_to_temporal_offset. cbv zeta.
  rewrite src_to_frames_refines by assumption. destruct l as [[[h m] s] f]. tc_proj. unfold inj_rate, to_temporal_offset. pynum.
  cbn [fst snd]. reflexivity.
Qed.

(* ---- from_frames ---------------------------------------------------------------------------------------- *)
Lemma src_from_frames_refines r n : rate_ok r ->
  src_from_frames (inj n) (Some (inj_rate r)) = Ok (inj_tc r (from_frames r n)).
Proof.
  intros (Hn & Hd & Hg). unfold src_from_frames, inj_rate. cbv zeta.
  rewrite py_denominator_frac by assumption. pynum.
  unfold from_frames, label_of, adjust, adjust_c, is_df, ten_minutes, one_minute, drop_per_minute, ndf, inj_tc, inj_rate.
  replace (10 * (60 * rn r)) with (600 * rn r) by lia.
  set (F := ceil_div (rn r) (rd r)). set (D := round_he (60 * (F * rd r - rn r)) (rd r)).
  set (T := round_he (600 * rn r) (rd r)). set (O := round_he (60 * rn r) (rd r)).
  (* the two adjusted counts differ only by the association of the sum *)
  match goal with
  | |- Ok (SmpteTimeCode_new (inj (?a / _)) _ _ _ _) = Ok (SmpteTimeCode_new (inj (?b / _)) _ _ _ _) =>
      replace a with b by (destruct (rd r =? 1001); lia)
  end.
  reflexivity.
Qed.

Lemma src_from_frames_none x : src_from_frames x None = Raise ValueError.
Proof. reflexivity. Qed.

(* ---- add_frames, from_seconds --------------------------------------------------------------------------- *)
Lemma src_add_frames_refines r k l : rate_ok r -> label_nonneg l ->
  src_add_frames (inj_tc r l) (inj k) = Ok (inj_tc r (add_frames r k l)).
Proof.
  intros Hr Hl. unfold src_add_frames. cbv zeta. rewrite src_to_frames_refines by assumption. pynum.
  replace (SmpteTimeCode__frame_rate (inj_tc r l)) with (inj_rate r) by (destruct l as [[[h m] s] f]; reflexivity).
  rewrite src_from_frames_refines by assumption. unfold add_frames.
  destruct (from_frames r (to_frames r l + k)) as [[[h' m'] s'] f']. destruct l as [[[h m] s] f]. reflexivity.
Qed.

Lemma src_from_seconds_refines r sn sd : rate_ok r -> 0 <= sn -> 0 < sd ->
  src_from_seconds (Exact (inj_frac sn sd)) (Some (inj_rate r)) = Ok (inj_tc r (from_seconds r sn sd)).
Proof.
  intros Hr Hs Hsd. pose proof Hr as (Hn & Hd & Hg). unfold src_from_seconds. cbv zeta. unfold inj_rate at 1. pynum.
  fold (inj_rate r). rewrite src_from_frames_refines by assumption. reflexivity.
Qed.
Lemma src_from_seconds_float r : exists why, src_from_seconds Inexact (Some (inj_rate r)) = Unsupported why.
Proof. eexists. reflexivity. Qed.

(* ---- ClockTime.from_seconds on a Fraction ------------------------------------------------------------------ *)
Lemma src_clock_from_seconds_refines n d : 0 < d ->
  src_clock_from_seconds (inj_frac n d) =
  match clock_from_seconds n d with Some l => Ok (inj_clock l) | None => Raise ValueError end.
Proof.
  intros Hd. unfold src_clock_from_seconds, clock_from_seconds. cbv zeta. pynum.
  change (10 ^ 3) with 1000. replace (n <? 0 * d) with (n <? 0) by lia. destruct (n <? 0) eqn:E; [reflexivity|].
  unfold clock_ms, clock_fields, inj_clock. replace (n * 1000) with (1000 * n) by lia.
  set (ms := round_he (1000 * n) d). clearbody ms. rewrite round_he_int by lia.
  f_equal. f_equal; f_equal; lia.
Qed.

(* ---- __str__: f'{x:02}' / f'{x:03}' and join are the text functions of the hand model --------------------------- *)
Lemma dec_digits_fuel f : forall n acc, dec_fuel f n acc = digits_fuel f n acc.
Proof. induction f as [|f IH]; intros; cbn [dec_fuel digits_fuel]; [reflexivity|]. unfold digit. destruct (n <? 10); [reflexivity|apply IH]. Qed.
Lemma digits_len_ge f : forall n acc, (length acc <= length (digits_fuel f n acc))%nat.
Proof.
  induction f as [|f IH]; intros; cbn [digits_fuel]; [lia|]. destruct (n <? 10); cbn [length]; [lia|].
  specialize (IH (n / 10) (digit (n mod 10) :: acc)). cbn [length] in IH. lia.
Qed.
Lemma digits_len_S f n acc : (S (length acc) <= length (digits_fuel (S f) n acc))%nat.
Proof.
  cbn [digits_fuel]. destruct (n <? 10); cbn [length]; [lia|].
  pose proof (digits_len_ge f (n / 10) (digit (n mod 10) :: acc)) as H. cbn [length] in H. lia.
Qed.
Definition fmt_bound : Z := 10 ^ 20.      (* digits_fuel 20 of the hand model prints every n below 10^20 *)
Lemma dec_nat_20 n : 0 <= n < fmt_bound -> dec_nat n = digits_fuel 20 n [].
Proof. intros H. rewrite (dec_nat_fuel n 19) by exact H. apply dec_digits_fuel. Qed.
Lemma zero_pad_long w t : w <= Z.of_nat (length t) -> zero_pad w t = t.
Proof. intros. unfold zero_pad. replace (Z.to_nat (w - Z.of_nat (length t))) with 0%nat by lia. reflexivity. Qed.

Lemma py_fmt0_2 n : 0 <= n < fmt_bound -> py_fmt0 2 (inj n) = pad2 n.
Proof.
  intros H. unfold py_fmt0. rewrite floor_z_int. cbv zeta. replace (n <? 0) with false by lia.
  rewrite dec_nat_20 by assumption. unfold pad2. change 20%nat with (S (S 18)). destruct (n <? 10) eqn:E.
  - cbn [digits_fuel]. rewrite E. reflexivity.
  - apply zero_pad_long. cbn [digits_fuel]. rewrite E.
    pose proof (digits_len_S 18 (n / 10) [digit (n mod 10)]) as L. cbn [length] in L. cbn [digits_fuel] in L. clear - L. set (len := length _) in *. clearbody len. lia.
Qed.
Lemma py_fmt0_3 n : 0 <= n < fmt_bound -> py_fmt0 3 (inj n) = pad3 n.
Proof.
  intros H. unfold py_fmt0. rewrite floor_z_int. cbv zeta. replace (n <? 0) with false by lia.
  rewrite dec_nat_20 by assumption. unfold pad3. change 20%nat with (S (S (S 17))). destruct (n <? 10) eqn:E.
  - cbn [digits_fuel]. rewrite E. reflexivity.
  - destruct (n <? 100) eqn:E2.
    + cbn [digits_fuel]. rewrite E. replace (n / 10 <? 10) with true by lia. reflexivity.
    + apply zero_pad_long. cbn [digits_fuel]. rewrite E. replace (n / 10 <? 10) with false by lia.
      pose proof (digits_len_S 17 (n / 10 / 10) [digit (n / 10 mod 10); digit (n mod 10)]) as L.
      cbn [length] in L. cbn [digits_fuel] in L. clear - L. set (len := length _) in *. clearbody len. lia.
Qed.

Definition label_printable (l : TimeCode.label) : Prop :=
  let '(h, m, s, f) := l in 0 <= h < fmt_bound /\ 0 <= m < fmt_bound /\ 0 <= s < fmt_bound /\ 0 <= f < fmt_bound.

Lemma src_tc_str_refines r l : rate_ok r -> label_printable l -> src_tc_str (inj_tc r l) = print_tc r l.
Proof.
  intros Hr Hl. destruct l as [[[h m] s] f]. destruct Hl as (Hh & Hm & Hs & Hf).
  unfold src_tc_str. rewrite src_is_drop_frame_refines by assumption. unfold print_tc. tc_proj.
  cbn [map py_join]. rewrite !py_fmt0_2 by assumption. unfold colon, semicolon.
  destruct (is_df r); rewrite <- ?app_assoc; reflexivity.
Qed.

(* ClockTime.__str__ after set_separator(sep) (sep = "." from the constructor) *)
Lemma src_clock_str_refines sep l : label_printable l ->
  src_clock_str (ClockTime_set_ms_separator (inj_clock l) [sep]) = print_clock sep l.
Proof.
  intros Hl. destruct l as [[[h m] s] ms]. destruct Hl as (Hh & Hm & Hs & Hf).
  unfold src_clock_str, print_clock, ClockTime_set_ms_separator. tc_proj.
  cbn [map py_join]. rewrite !py_fmt0_2, py_fmt0_3 by assumption. unfold colon.
  rewrite <- ?app_assoc. reflexivity.
Qed.
Lemma src_clock_str_default l : label_printable l -> src_clock_str (inj_clock l) = print_clock 46 l.
Proof. intros. rewrite <- src_clock_str_refines by assumption. destruct l as [[[h m] s] ms]. reflexivity. Qed.

(* ================= corollaries: the headline theorems, stated about the regenerated model ================= *)
(* the rates with an SMPTE ST 12-1 counting scheme, with nominal rate F and dropped numbers per minute D *)
Definition smpte_rates : list (rate * Z * Z) :=
  [(r24, 24, 0); (r25, 25, 0); (r30, 30, 0); (r50, 50, 0); (r60, 60, 0); (r2997, 30, 2); (r5994, 60, 4)].
Definition src_frames_label (r : rate) (n : Z) (l : TimeCode.label) : Prop :=
  src_from_frames (inj n) (Some (inj_rate r)) = Ok (inj_tc r l).

Lemma smpte_rates_facts r F D : In (r, F, D) smpte_rates ->
  rate_ok r /\ 0 <= D < F /\
  (forall n, 0 <= n -> to_frames r (from_frames r n) = n) /\
  (forall n, 0 <= n -> valid F D (from_frames r n)) /\
  (forall n, 0 <= n -> from_frames r (n + 1) = succ F D (from_frames r n)).
Proof.
  pose proof rate_ok_8 as (K1 & K2 & K3 & K4 & K5 & K6 & K7 & _).
  cbn [In smpte_rates]. intros [H|[H|[H|[H|[H|[H|[H|[]]]]]]]]; injection H as <- <- <-.
  - split; [assumption|]. split; [lia|]. split; [apply rt24|]. split; [apply valid24|apply succ24].
  - split; [assumption|]. split; [lia|]. split; [apply rt25|]. split; [apply valid25|apply succ25].
  - split; [assumption|]. split; [lia|]. split; [apply rt30|]. split; [apply valid30|apply succ30].
  - split; [assumption|]. split; [lia|]. split; [apply rt50|]. split; [apply valid50|apply succ50].
  - split; [assumption|]. split; [lia|]. split; [apply rt60|]. split; [apply valid60|apply succ60].
  - split; [assumption|]. split; [lia|]. split; [apply rt2997|]. split; [apply valid2997|apply succ2997].
  - split; [assumption|]. split; [lia|]. split; [apply rt5994|]. split; [apply valid5994|apply succ5994].
Qed.

Lemma valid_nonneg F D l : valid F D l -> label_nonneg l.
Proof. destruct l as [[[h m] s] f]. unfold valid, label_nonneg. lia. Qed.

Lemma src_roundtrip r F D n : In (r, F, D) smpte_rates -> 0 <= n ->
  exists tc, src_from_frames (inj n) (Some (inj_rate r)) = Ok tc /\ src_to_frames tc = inj n.
Proof.
  intros Hin Hn. destruct (smpte_rates_facts r F D Hin) as (Hr & HD & Hrt & Hv & Hs).
  exists (inj_tc r (from_frames r n)). split; [apply src_from_frames_refines; assumption|].
  rewrite src_to_frames_refines; [f_equal; apply Hrt; assumption|assumption|].
  apply valid_nonneg with F D. apply Hv. assumption.
Qed.

Lemma src_valid r F D n : In (r, F, D) smpte_rates -> 0 <= n -> exists l, src_frames_label r n l /\ valid F D l.
Proof.
  intros Hin Hn. destruct (smpte_rates_facts r F D Hin) as (Hr & HD & Hrt & Hv & Hs).
  exists (from_frames r n). split; [apply src_from_frames_refines; assumption|apply Hv; assumption].
Qed.

Lemma src_succ r F D n : In (r, F, D) smpte_rates -> 0 <= n ->
  exists l, src_frames_label r n l /\ src_frames_label r (n + 1) (succ F D l).
Proof.
  intros Hin Hn. destruct (smpte_rates_facts r F D Hin) as (Hr & HD & Hrt & Hv & Hs).
  exists (from_frames r n). split; [apply src_from_frames_refines; assumption|].
  unfold src_frames_label. rewrite <- Hs by assumption. apply src_from_frames_refines; assumption.
Qed.

Lemma lt_label_trans a b c : lt_label a b -> lt_label b c -> lt_label a c.
Proof. destruct a as [[[h1 m1] s1] f1], b as [[[h2 m2] s2] f2], c as [[[h3 m3] s3] f3]. unfold lt_label. lia. Qed.

(* strictly increasing in display order, for any two frame counts *)
Lemma from_frames_monotone r F D : In (r, F, D) smpte_rates ->
  forall n m, 0 <= n < m -> lt_label (from_frames r n) (from_frames r m).
Proof.
  intros Hin. destruct (smpte_rates_facts r F D Hin) as (Hr & HD & Hrt & Hv & Hs).
  assert (Step : forall n, 0 <= n -> lt_label (from_frames r n) (from_frames r (n + 1))).
  { intros n Hn. rewrite Hs by assumption. apply succ_lt with (D := D); [assumption|apply Hv; assumption]. }
  intros n m Hnm. replace m with (n + 1 + Z.of_nat (Z.to_nat (m - n - 1))) by lia.
  induction (Z.to_nat (m - n - 1)) as [|k IH]; [rewrite Z.add_0_r; apply Step; lia|].
  rewrite Nat2Z.inj_succ. replace (n + 1 + Z.succ (Z.of_nat k)) with (n + 1 + Z.of_nat k + 1) by lia.
  eapply lt_label_trans; [exact IH|apply Step; lia].
Qed.
Lemma src_monotone r F D n m : In (r, F, D) smpte_rates -> 0 <= n < m ->
  exists l l', src_frames_label r n l /\ src_frames_label r m l' /\ lt_label l l'.
Proof.
  intros Hin Hnm. destruct (smpte_rates_facts r F D Hin) as (Hr & _).
  exists (from_frames r n), (from_frames r m).
  split; [apply src_from_frames_refines; assumption|]. split; [apply src_from_frames_refines; assumption|].
  apply from_frames_monotone with F D; assumption.
Qed.

(* a rational on a frame boundary k/fps converts to frame k: the exact branch of from_seconds, any rate *)
Lemma src_boundary r k : rate_ok r -> 0 <= k ->
  src_from_seconds (Exact (inj_frac (k * rd r) (rn r))) (Some (inj_rate r)) = src_from_frames (inj k) (Some (inj_rate r)).
Proof.
  intros Hr Hk. pose proof Hr as (Hn & Hd & _).
  rewrite src_from_seconds_refines, src_from_frames_refines by (try assumption; nia).
  rewrite boundary_gen by assumption. reflexivity.
Qed.

(* ClockTime.from_seconds on a Fraction n/d >= 0 returns the nearest millisecond, fields in range *)
Lemma src_clock_nearest n d : 0 <= n -> 0 < d ->
  exists h m s ms, src_clock_from_seconds (inj_frac n d) = Ok (ClockTime_new (inj h) (inj m) (inj s) (inj ms)) /\
    0 <= h /\ 0 <= m < 60 /\ 0 <= s < 60 /\ 0 <= ms < 1000 /\
    2 * Z.abs ((((h * 60 + m) * 60 + s) * 1000 + ms) * d - 1000 * n) <= d.
Proof.
  intros Hn Hd. rewrite src_clock_from_seconds_refines by assumption. unfold clock_from_seconds.
  replace (n <? 0) with false by lia.
  pose proof (clock_fields_range (clock_ms n d) (clock_ms_nonneg n d Hd Hn)) as R.
  pose proof (clock_nearest n d Hd) as N.
  destruct (clock_fields (clock_ms n d)) as [[[h m] s] ms]. exists h, m, s, ms.
  split; [reflexivity|]. destruct R as (R1 & R2 & R3 & R4 & R5). rewrite R5. repeat split; try lia; exact N.
Qed.

(* non-vacuity *)
Example src_example_skip :
  src_frames_label r2997 1800 (0, 1, 0, 2) /\ src_frames_label r2997 17982 (0, 10, 0, 0) /\ In (r5994, 60, 4) smpte_rates.
Proof.
  split; [|split]; [| |cbn; tauto]; unfold src_frames_label; rewrite src_from_frames_refines by apply rate_ok_8; reflexivity.
Qed.
