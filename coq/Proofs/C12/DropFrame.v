(* C12: drop-frame theorems for 30000/1001 and 60000/1001, for unbounded n, through normal-form
   lemmas on the adjusted count (lia cannot find the witnesses for a mod of a div directly). *)
From TT Require Import Base.Prelude Model.TimeCode Spec.Smpte12M.

Ltac label_eq := f_equal; [f_equal; [f_equal|]|]; lia.

Lemma adjust_2997 n : adjust r2997 n = adjust_c 17982 1798 2 n.  Proof. reflexivity. Qed.
Lemma adjust_5994 n : adjust r5994 n = adjust_c 35964 3596 4 n.  Proof. reflexivity. Qed.

Ltac df_setup r lem :=
  unfold add_frames, from_frames, to_frames, label_of; rewrite ?lem;
  change (is_df r) with true; cbv iota;
  let v := eval vm_compute in (ndf r) in change (ndf r) with v;
  let d := eval vm_compute in (drop_per_minute r) in change (drop_per_minute r) with d.

(* ---------------- 30000/1001 ---------------- *)
Lemma rt2997 n : 0 <= n -> to_frames r2997 (from_frames r2997 n) = n.
Proof.
  intros Hn. df_setup r2997 adjust_2997. unfold adjust_c.
  destruct ((n mod 17982 - 2) / 1798 <? 0) eqn:E; cbv zeta; lia.
Qed.

Lemma adjust_char_2997 n : 0 <= n ->
  exists t r k, 0 <= t /\ 0 <= k <= 9 /\ adjust_c 17982 1798 2 n = 18000 * t + 1800 * k + r /\
                ((k = 0 /\ 0 <= r < 1800) \/ (1 <= k /\ 2 <= r < 1800)).
Proof.
  intros Hn. unfold adjust_c.
  set (t := n / 17982). set (rem := n mod 17982).
  assert (Ht : 0 <= t) by (unfold t; lia). assert (Hr : 0 <= rem < 17982) by (unfold rem; lia).
  destruct ((rem - 2) / 1798 <? 0) eqn:E; cbv zeta.
  - exists t, rem, 0. lia.
  - set (k := (rem - 2) / 1798) in *. assert (0 <= k <= 9) by (unfold k; lia).
    exists t, (rem + 2 * k - 1800 * k), k. unfold k in *. lia.
Qed.

Lemma valid2997 n : 0 <= n -> valid 30 2 (from_frames r2997 n).
Proof.
  intros Hn. destruct (adjust_char_2997 n Hn) as (t & r & k & Ht & Hk & Ha & Hc).
  df_setup r2997 adjust_2997. unfold valid. rewrite Ha. clear Ha.
  assert (E1 : (18000 * t + 1800 * k + r) / (60 * 30) = 10 * t + k) by lia.
  rewrite E1. repeat split; lia.
Qed.

Lemma adjust_step_2997 n : 0 <= n ->
  let a := adjust_c 17982 1798 2 n in let a' := adjust_c 17982 1798 2 (n + 1) in
  0 <= a /\
  ((a' = a + 1 /\ (a mod 1800 = 1799 -> ((a + 1) / 1800) mod 10 = 0)) \/
   (a' = a + 3 /\ a mod 1800 = 1799 /\ ((a + 1) / 1800) mod 10 <> 0)).
Proof.
  intros Hn. cbv zeta. unfold adjust_c.
  set (t := n / 17982). set (r := n mod 17982).
  assert (Hr : 0 <= r < 17982) by (unfold r; lia). assert (Ht : 0 <= t) by (unfold t; lia).
  assert (En : n = 17982 * t + r) by (unfold t, r; lia).
  destruct (Z.eq_dec r 17981) as [E|E].
  - assert (E1 : (n + 1) / 17982 = t + 1) by lia. assert (E2 : (n + 1) mod 17982 = 0) by lia.
    rewrite E1, E2. rewrite E.
    change ((17981 - 2) / 1798 <? 0) with false. change ((0 - 2) / 1798 <? 0) with true. cbv zeta iota beta.
    change ((17981 - 2) / 1798) with 9. lia.
  - assert (E1 : (n + 1) / 17982 = t) by lia. assert (E2 : (n + 1) mod 17982 = r + 1) by lia.
    rewrite E1, E2.
    set (k := (r - 2) / 1798). set (k' := (r + 1 - 2) / 1798).
    assert (Hk : -1 <= k <= 9) by (unfold k; lia).
    assert (Hk' : k' = k \/ (k' = k + 1 /\ r + 1 - 2 = 1798 * k')) by (unfold k, k'; lia).
    destruct (k <? 0) eqn:F1; destruct (k' <? 0) eqn:F2; cbv zeta; unfold k, k' in *; lia.
Qed.

Lemma succ2997 n : 0 <= n -> from_frames r2997 (n + 1) = succ 30 2 (from_frames r2997 n).
Proof.
  intros Hn. df_setup r2997 adjust_2997. pose proof (adjust_step_2997 n Hn) as H. cbv zeta in H.
  set (a := adjust_c 17982 1798 2 n) in *. set (a' := adjust_c 17982 1798 2 (n + 1)) in *. clearbody a a'.
  change (60 * 60 * 30) with 108000. change (60 * 30) with 1800.
  destruct H as [Ha [[E Hm]|[E [H1 H2]]]]; subst a'; unfold succ.
  - destruct (a mod 30 + 1 <? 30) eqn:F1; [label_eq|].
    destruct ((a / 30) mod 60 + 1 <? 60) eqn:F2; [label_eq|].
    assert (H : a mod 1800 = 1799) by lia. specialize (Hm H).
    destruct ((a / 1800) mod 60 + 1 <? 60) eqn:F3.
    + replace (((a / 1800) mod 60 + 1) mod 10 =? 0) with true by lia. label_eq.
    + label_eq.
  - replace (a mod 30 + 1 <? 30) with false by lia.
    replace ((a / 30) mod 60 + 1 <? 60) with false by lia.
    assert (F3 : (a / 1800) mod 60 + 1 <? 60 = true) by lia. rewrite F3.
    replace (((a / 1800) mod 60 + 1) mod 10 =? 0) with false by lia. label_eq.
Qed.

(* ---------------- 60000/1001 ---------------- *)
Lemma rt5994 n : 0 <= n -> to_frames r5994 (from_frames r5994 n) = n.
Proof.
  intros Hn. df_setup r5994 adjust_5994. unfold adjust_c.
  destruct ((n mod 35964 - 4) / 3596 <? 0) eqn:E; cbv zeta; lia.
Qed.

Lemma adjust_char_5994 n : 0 <= n ->
  exists t r k, 0 <= t /\ 0 <= k <= 9 /\ adjust_c 35964 3596 4 n = 36000 * t + 3600 * k + r /\
                ((k = 0 /\ 0 <= r < 3600) \/ (1 <= k /\ 4 <= r < 3600)).
Proof.
  intros Hn. unfold adjust_c.
  set (t := n / 35964). set (rem := n mod 35964).
  assert (Ht : 0 <= t) by (unfold t; lia). assert (Hr : 0 <= rem < 35964) by (unfold rem; lia).
  destruct ((rem - 4) / 3596 <? 0) eqn:E; cbv zeta.
  - exists t, rem, 0. lia.
  - set (k := (rem - 4) / 3596) in *. assert (0 <= k <= 9) by (unfold k; lia).
    exists t, (rem + 4 * k - 3600 * k), k. unfold k in *. lia.
Qed.

Lemma valid5994 n : 0 <= n -> valid 60 4 (from_frames r5994 n).
Proof.
  intros Hn. destruct (adjust_char_5994 n Hn) as (t & r & k & Ht & Hk & Ha & Hc).
  df_setup r5994 adjust_5994. unfold valid. rewrite Ha. clear Ha.
  assert (E1 : (36000 * t + 3600 * k + r) / (60 * 60) = 10 * t + k) by lia.
  rewrite E1. repeat split; lia.
Qed.

Lemma adjust_step_5994 n : 0 <= n ->
  let a := adjust_c 35964 3596 4 n in let a' := adjust_c 35964 3596 4 (n + 1) in
  0 <= a /\
  ((a' = a + 1 /\ (a mod 3600 = 3599 -> ((a + 1) / 3600) mod 10 = 0)) \/
   (a' = a + 5 /\ a mod 3600 = 3599 /\ ((a + 1) / 3600) mod 10 <> 0)).
Proof.
  intros Hn. cbv zeta. unfold adjust_c.
  set (t := n / 35964). set (r := n mod 35964).
  assert (Hr : 0 <= r < 35964) by (unfold r; lia). assert (Ht : 0 <= t) by (unfold t; lia).
  assert (En : n = 35964 * t + r) by (unfold t, r; lia).
  destruct (Z.eq_dec r 35963) as [E|E].
  - assert (E1 : (n + 1) / 35964 = t + 1) by lia. assert (E2 : (n + 1) mod 35964 = 0) by lia.
    rewrite E1, E2. rewrite E.
    change ((35963 - 4) / 3596 <? 0) with false. change ((0 - 4) / 3596 <? 0) with true. cbv zeta iota beta.
    change ((35963 - 4) / 3596) with 9. lia.
  - assert (E1 : (n + 1) / 35964 = t) by lia. assert (E2 : (n + 1) mod 35964 = r + 1) by lia.
    rewrite E1, E2.
    set (k := (r - 4) / 3596). set (k' := (r + 1 - 4) / 3596).
    assert (Hk : -1 <= k <= 9) by (unfold k; lia).
    assert (Hk' : k' = k \/ (k' = k + 1 /\ r + 1 - 4 = 3596 * k')) by (unfold k, k'; lia).
    destruct (k <? 0) eqn:F1; destruct (k' <? 0) eqn:F2; cbv zeta; unfold k, k' in *; lia.
Qed.

Lemma succ5994 n : 0 <= n -> from_frames r5994 (n + 1) = succ 60 4 (from_frames r5994 n).
Proof.
  intros Hn. df_setup r5994 adjust_5994. pose proof (adjust_step_5994 n Hn) as H. cbv zeta in H.
  set (a := adjust_c 35964 3596 4 n) in *. set (a' := adjust_c 35964 3596 4 (n + 1)) in *. clearbody a a'.
  change (60 * 60 * 60) with 216000. change (60 * 60) with 3600.
  destruct H as [Ha [[E Hm]|[E [H1 H2]]]]; subst a'; unfold succ.
  - destruct (a mod 60 + 1 <? 60) eqn:F1; [label_eq|].
    destruct ((a / 60) mod 60 + 1 <? 60) eqn:F2; [label_eq|].
    assert (H : a mod 3600 = 3599) by lia. specialize (Hm H).
    destruct ((a / 3600) mod 60 + 1 <? 60) eqn:F3.
    + replace (((a / 3600) mod 60 + 1) mod 10 =? 0) with true by lia. label_eq.
    + label_eq.
  - replace (a mod 60 + 1 <? 60) with false by lia.
    replace ((a / 60) mod 60 + 1 <? 60) with false by lia.
    assert (F3 : (a / 3600) mod 60 + 1 <? 60 = true) by lia. rewrite F3.
    replace (((a / 3600) mod 60 + 1) mod 10 =? 0) with false by lia. label_eq.
Qed.

(* ---------------- 24000/1001: the code's "drop-frame" treatment does not round-trip ---------------- *)
Lemma rt23976_refuted : exists n, 0 <= n /\ to_frames r23976 (from_frames r23976 n) <> n.
Proof. exists 15826. split; [lia|]. vm_compute. discriminate. Qed.
