(* C03: along the chain of ancestors (element first, region last) the style maps M computes agree with the
   by-property specification, for the 21 plain properties (plain_prop). *)
From TT Require Import Model.Doc Gen.StyleTables Model.Isd Spec.IsdSpec Spec.StyleSpec.
From TT Require Import Proofs.Common.StyleFrame Proofs.C01.Display Proofs.C13.Shape Proofs.C13.Styles Proofs.C03.Values Proofs.C03.Cascade.

(* the style maps _process_element builds going down from the region: each element is resolved against the
   complete style map of its snapshot parent *)
Fixpoint styles_along (d : doc) (t : Q) (chain : list link) : res smap :=
  match chain with
  | [] => Err 0
  | x :: up =>
      match up with
      | [] => style_phase d t (fst x) None (snd x)
      | y :: _ => bind (styles_along d t up) (fun pst => style_phase d t (fst x) (Some (e_kind (fst y), pst)) (snd x))
      end
  end.

(* a chain of non-leaf elements whose last link, and only the last, is a region *)
Fixpoint chain_ok (chain : list link) : bool :=
  match chain with
  | [] => false
  | x :: up =>
      negb (is_leaf_kind (e_kind (fst x))) &&
      match up with
      | [] => kind_eqb (e_kind (fst x)) KRegion
      | _ => negb (kind_eqb (e_kind (fst x)) KRegion) && chain_ok up
      end
  end.

Lemma styles_along_cons d t x y up :
  styles_along d t (x :: y :: up) = bind (styles_along d t (y :: up)) (fun pst => style_phase d t (fst x) (Some (e_kind (fst y), pst)) (snd x)).
Proof. reflexivity. Qed.

Lemma plain_cons d t p x up :
  plain d t p (x :: up) =
  match specified t x p with
  | Some v => Some v
  | None => if inheritable p && negb (is_region x) && match up with [] => false | _ => true end then plain d t p up else default_of d p
  end.
Proof. reflexivity. Qed.

Lemma surj_link (x : link) : (fst x, snd x) = x.
Proof. destruct x; reflexivity. Qed.

Theorem styles_along_plain d t p : plain_prop p = true -> In p all_props ->
  forall chain st, chain_ok chain = true -> styles_along d t chain = Ok st -> sget st p = plain d t p chain.
Proof.
  intros Hplain Hin. induction chain as [|x up IH]; intros st Hok H; [discriminate|].
  cbn [chain_ok] in Hok. apply andb_true_iff in Hok as [Hleaf Hrest]. apply negb_true_iff in Hleaf.
  destruct up as [|y up'].
  - cbn [styles_along] in H.
    rewrite (style_phase_plain d t (fst x) None (snd x) st p Hleaf Hplain Hin) by (first [exact H | intros ? ? E; discriminate E]).
    rewrite plain_cons, surj_link. destruct (specified t x p); [reflexivity|]. rewrite andb_false_r. reflexivity.
  - apply andb_true_iff in Hrest as [Hnr Hup]. rewrite styles_along_cons in H.
    destruct (styles_along d t (y :: up')) as [pst|] eqn:Ep; cbn [bind] in H; [|discriminate H].
    assert (Hyleaf : is_leaf_kind (e_kind (fst y)) = false).
    { cbn [chain_ok] in Hup. apply andb_true_iff in Hup as [Hy _]. apply negb_true_iff in Hy. exact Hy. }
    assert (Hcomplete : shas pst p = true).
    { destruct up' as [|z up''].
      - cbn [styles_along] in Ep. apply (style_phase_complete d t (fst y) None (snd y) pst Hyleaf Ep p Hin).
      - rewrite styles_along_cons in Ep. destruct (styles_along d t (z :: up'')) as [ppst|]; cbn [bind] in Ep; [|discriminate Ep].
        apply (style_phase_complete d t (fst y) _ (snd y) pst Hyleaf Ep p Hin). }
    rewrite (style_phase_plain d t (fst x) (Some (e_kind (fst y), pst)) (snd x) st p Hleaf Hplain Hin)
      by (first [exact H | intros pk pst' E; injection E as _ <-; exact Hcomplete]).
    rewrite plain_cons, surj_link. destruct (specified t x p); [reflexivity|].
    unfold is_region. rewrite Hnr, andb_true_r.
    destruct (inheritable p); cbn [andb]; [|reflexivity].
    apply (IH pst Hup eq_refl).
Qed.

(* the style map of a snapshot element is the style phase's result restricted to the applicable properties *)
Theorem proc_styles d t sel inh par pb pe a cs a' cs' :
  proc d t sel inh par pb pe (Elem a cs) = Ok (Some (Elem a' cs')) ->
  exists st, style_phase d t a par (make_absolute (e_begin a) (e_end a) pb pe) = Ok st /\
             e_styles a' = strip_inapplicable (e_kind a) st.
Proof.
  cbn [proc]. intros H. destruct (negb (active_at t _)); [discriminate|].
  match type of H with (if ?b then _ else _) = _ => destruct b end; [discriminate|].
  destruct (style_phase d t a par _) as [st|]; [|discriminate]. cbn [bind] in H. exists st. split; [reflexivity|].
  destruct (display_none st); [discriminate|].
  match type of H with bind ?g _ = _ => destruct g as [children|] end; [|discriminate]. cbn [bind] in H.
  unfold finish_element in H.
  destruct (negb (push_children_ok (e_kind a) children) && is_nonempty_l children); [discriminate|].
  match type of H with context [Elem (isd_attrs a (strip_inapplicable (e_kind a) st)) ?c] => set (children' := c) in H end.
  destruct (keep_always (e_kind a)); [injection H as <- _; reflexivity|].
  destruct children'; [|injection H as <- _; reflexivity].
  destruct (e_kind a); try discriminate.
  destruct (sget (strip_inapplicable KRegion st) p_ShowBackground) as [v|]; [|discriminate].
  destruct v; try discriminate. destruct (tag =? e_ShowBackgroundType_always); [injection H as <- _; reflexivity | discriminate].
Qed.

(* for a plain property the specification's computed value is the cascade *)
Lemma plain_is_spec d t chain p : plain_prop p = true -> computed_spec d t chain p = plain d t p chain.
Proof.
  intros H. destruct (plain_facts p H) as (F1 & F2 & F3 & F4 & F5 & F6 & F7).
  unfold computed_spec.
  repeat match goal with
         | |- (if ?c then _ else _) = _ =>
             let E := fresh in destruct c eqn:E;
             [ exfalso; repeat (apply orb_true_iff in E as [E|E]); apply Z.eqb_eq in E; subst p;
               first [congruence | apply F1; cbn; tauto] | ]
         end.
  reflexivity.
Qed.

