(* C03: proofs relating M's style resolution to the by-property specification. *)
From TT Require Import Model.Doc Gen.StyleTables Model.Isd Spec.IsdSpec Spec.StyleSpec Proofs.Common.StyleFrame.

(* _compute_length is the specification's resolution of a relative length *)
Lemma compute_length_rel l pct em c px :
  compute_length l pct em c px = match rel l pct em c px with Some r => Ok r | None => Err errCompute end.
Proof.
  unfold compute_length, rel. destruct (lu l); try reflexivity;
    match goal with |- match ?o with _ => _ end = _ => destruct o end; reflexivity.
Qed.
