(* C03: M's pass-by-pass style resolution equals the by-property specification.
   Part 1: the cascade for the properties whose computed value is the cascaded value (25 of the 36). *)
From TT Require Import Model.Doc Gen.StyleTables Model.Isd Spec.IsdSpec Spec.StyleSpec.
From TT Require Import Proofs.Common.StyleFrame Proofs.C01.Leaves Proofs.C01.Display Proofs.C13.Shape Proofs.C13.Styles Proofs.C03.Values.

(* plain properties: not computed (not in _ORDERED_STYLE_PROPS), and none of Origin (overridden by Position),
   TextDecoration (merged), Direction (follows writing mode on regions) and WritingMode (the region's value is
   carried down to content elements) *)
Definition plain_prop (p : Z) : bool :=
  negb (existsb (Z.eqb p) ordered_style_props) && negb (p =? p_Origin) && negb (p =? p_TextDecoration) && negb (p =? p_Direction) &&
  negb (p =? p_WritingMode).

Lemma plain_facts p : plain_prop p = true ->
  ~ In p ordered_style_props /\ p <> p_Origin /\ p <> p_TextDecoration /\ p <> p_Direction /\ p <> p_FontSize /\ p <> p_Position /\
  p <> p_WritingMode.
Proof.
  unfold plain_prop. intros H. repeat (apply andb_true_iff in H as [H ?]).
  apply negb_true_iff in H.
  assert (Hn : ~ In p ordered_style_props).
  { intros Hin. assert (existsb (Z.eqb p) ordered_style_props = true) by (apply existsb_exists; exists p; split; [exact Hin | apply Z.eqb_refl]). congruence. }
  repeat split; try exact Hn; try (intros ->; discriminate).
Qed.

(* the specified value of S is what the first two passes of M leave in the map *)
Lemma last_step_eq t iv p : forall l acc, last_active t iv p l acc = last_step t iv p l acc.
Proof.
  destruct iv as [b e]. induction l as [|s l IH]; intros acc; [reflexivity|]. cbn [last_active last_step fst snd].
  rewrite make_absolute_resolve, active_at_is_active. destruct ((a_prop s =? p) && is_active t _); apply IH.
Qed.

(* generic inheritance of one inherited property *)
Lemma apply_inherit_inherited k pk pst p :
  p <> p_WritingMode -> p <> p_FontSize -> p <> p_TextDecoration -> is_inherited p = true ->
  forall keys st, sget (apply_inherit k pk pst keys st) p =
                  match sget st p with Some v => Some v | None => if existsb (Z.eqb p) keys then sget pst p else None end.
Proof.
  intros H0 H1 H2 H3. induction keys as [|q keys IH]; intros st; cbn [apply_inherit existsb]; [destruct (sget st p); reflexivity|].
  rewrite IH. destruct (Z.eq_dec q p) as [->|Hne].
  - rewrite Z.eqb_refl. cbn [orb]. unfold inherit_prop.
    destruct (p =? p_FontSize) eqn:E1; [apply Z.eqb_eq in E1; congruence|].
    destruct (p =? p_TextDecoration) eqn:E2; [apply Z.eqb_eq in E2; congruence|].
    destruct (p =? p_WritingMode) eqn:E3; [apply Z.eqb_eq in E3; congruence|].
    rewrite H3. unfold shas. destruct (sget st p) eqn:Es; cbn [negb andb]; [rewrite Es; reflexivity|].
    destruct (sget pst p) eqn:Ep.
    + rewrite sget_sset_same. reflexivity.
    + rewrite Es. destruct (existsb (Z.eqb p) keys); reflexivity.
  - rewrite inherit_prop_other by congruence.
    destruct (p =? q) eqn:E; [apply Z.eqb_eq in E; congruence|]. reflexivity.
Qed.

Lemma existsb_skeys m p : existsb (Z.eqb p) (skeys m) = shas m p.
Proof.
  unfold skeys, shas. induction m as [|[k v] m IH]; [reflexivity|]. cbn [map fst existsb sget].
  rewrite (Z.eqb_sym p k). destruct (k =? p); [reflexivity | exact IH].
Qed.

(* one element: the value of a plain property after the whole style phase *)
Theorem style_phase_plain d t a par iv st p :
  is_leaf_kind (e_kind a) = false -> plain_prop p = true -> In p all_props ->
  (forall pk pst, par = Some (pk, pst) -> shas pst p = true) ->
  style_phase d t a par iv = Ok st ->
  sget st p =
  match specified t (a, iv) p with
  | Some v => Some v
  | None =>
      match par with
      | Some (pk, pst) => if inheritable p && negb (kind_eqb (e_kind a) KRegion) then sget pst p else default_of d p
      | None => default_of d p
      end
  end.
Proof.
  intros Hleaf Hplain Hin Hpar H.
  destruct (plain_facts p Hplain) as (F1 & F2 & F3 & F4 & F5 & F6 & F7).
  unfold style_phase in H.
  destruct (apply_anims t iv (e_anims a) [] []) as [st0 todo0] eqn:E0.
  destruct (apply_specified (e_styles a) st0 todo0) as [st1 todo1] eqn:E1.
  assert (G1 : sget st1 p = specified t (a, iv) p).
  { pose proof (apply_specified_get p (e_styles a) st0 todo0) as G. rewrite E1 in G. cbn [fst] in G. rewrite G.
    pose proof (apply_anims_get t iv p (e_anims a) [] []) as G0. rewrite E0 in G0. cbn [fst] in G0. rewrite G0.
    unfold specified. cbn [fst snd]. rewrite last_step_eq. cbn [sget]. destruct (last_step t iv p (e_anims a) None); reflexivity. }
  match type of H with (let '(st, todo) := ?X in _) = _ => destruct X as [st2 todo2] eqn:E2 end.
  assert (G2 : sget st2 p = sget st1 p).
  { destruct (e_kind a); try (injection E2 as <- <-; reflexivity).
    destruct (negb (shas (e_styles a) p_Direction)); [|injection E2 as <- <-; reflexivity].
    destruct (sget (e_styles a) p_WritingMode) as [[w| | | | | | | | | | | | | |]|]; try (injection E2 as <- <-; reflexivity).
    destruct (w =? e_WritingModeType_lrtb); [injection E2 as <- <-; apply sget_sset_other; exact F4|].
    destruct (w =? e_WritingModeType_rltb); [injection E2 as <- <-; apply sget_sset_other; exact F4|].
    injection E2 as <- <-. reflexivity. }
  set (st3 := match e_kind a, par with
              | KBr, _ | KText, _ | KRegion, _ => st2
              | _, Some (pk, pst) => apply_inherit (e_kind a) pk pst (skeys pst) st2
              | _, None => st2
              end) in H.
  rewrite Hleaf in H.
  match type of H with (let '(st, todo) := ?X in _) = _ => destruct X as [st4 todo4] eqn:E4 end.
  assert (G4 : sget st4 p = match sget st3 p with Some v => Some v | None => default_of d p end).
  { pose proof (apply_initial_get d p all_props st3 todo2 all_props_nodup) as G. rewrite E4 in G. cbn [fst] in G. rewrite G.
    destruct (sget st3 p); [reflexivity|].
    assert (Hex : existsb (Z.eqb p) all_props = true) by (apply existsb_exists; exists p; split; [exact Hin | apply Z.eqb_refl]).
    rewrite Hex. unfold default_of. destruct (sget (d_initials d) p); [reflexivity|].
    destruct (p =? p_Position) eqn:E; [apply Z.eqb_eq in E; congruence | reflexivity]. }
  assert (G5 : sget st p = sget st4 p) by (apply (compute_styles_other d par todo4 p _ _ _ H F1 F2)).
  rewrite G5, G4. clear G5 G4 E4 H.
  assert (G3 : sget st3 p = match sget st2 p with
                            | Some v => Some v
                            | None => match par with
                                      | Some (pk, pst) => if inheritable p && negb (kind_eqb (e_kind a) KRegion) then sget pst p else None
                                      | None => None
                                      end
                            end).
  { unfold st3. change (inheritable p) with (is_inherited p).
    destruct (is_inherited p) eqn:Einh.
    - destruct (e_kind a) eqn:Ek; cbn [is_leaf_kind] in Hleaf; try discriminate; cbn [kind_eqb negb andb];
        try (destruct (sget st2 p); [reflexivity|]; destruct par as [[pk pst]|]; reflexivity);
        (destruct par as [[pk pst]|]; [|destruct (sget st2 p); reflexivity];
         rewrite (apply_inherit_inherited _ pk pst p F7 F5 F3 Einh), existsb_skeys, (Hpar pk pst eq_refl); reflexivity).
    - cbn [andb]. destruct (e_kind a), par as [[pk pst]|]; try (destruct (sget st2 p); reflexivity);
        (rewrite apply_inherit_get by assumption; destruct (sget st2 p); reflexivity). }
  rewrite G3, G2, G1.
  destruct (specified t (a, iv) p); [reflexivity|].
  destruct par as [[pk pst]|]; [|reflexivity].
  destruct (inheritable p && negb (kind_eqb (e_kind a) KRegion)); [|reflexivity].
  pose proof (Hpar pk pst eq_refl) as Hs. unfold shas in Hs. destruct (sget pst p); [reflexivity | discriminate].
Qed.
