(* C03, part 2: the computed font size (the reference of every other relative length). *)
From TT Require Import Model.Doc Gen.StyleTables Model.Isd Spec.IsdSpec Spec.StyleSpec.
From TT Require Import Proofs.Common.StyleFrame Proofs.C01.Display Proofs.C13.Shape Proofs.C13.Styles.
From TT Require Import Proofs.C03.Values Proofs.C03.Cascade Proofs.C03.Chain.

Definition is_some {A} (o : option A) : bool := match o with Some _ => true | None => false end.
Definition mem (q : Z) (l : list Z) : bool := existsb (Z.eqb q) l.

(* ---- which properties are scheduled for computation ------------------------------------------------------- *)
Lemma apply_anims_todo t iv q : forall l st todo,
  mem q (snd (apply_anims t iv l st todo)) = mem q todo || is_some (last_active t iv q l None).
Proof.
  assert (G : forall l acc, is_some (last_active t iv q l acc) = is_some acc || is_some (last_active t iv q l None)).
  { induction l as [|s l IH]; intros acc; cbn [last_active]; [destruct acc; reflexivity|].
    destruct ((a_prop s =? q) && active_at t _); [rewrite (IH (Some (a_val s))); cbn; rewrite orb_true_r; destruct (is_some acc); reflexivity | apply IH]. }
  induction l as [|s l IH]; intros st todo; cbn [apply_anims last_active snd]; [rewrite orb_false_r; reflexivity|].
  destruct (active_at t _) eqn:Ea.
  - rewrite IH. unfold mem at 1. cbn [existsb]. fold (mem q todo). destruct (a_prop s =? q) eqn:E; cbn [andb].
    + rewrite (Z.eqb_sym q), E. cbn [orb]. rewrite G. cbn [is_some orb]. rewrite orb_true_r. reflexivity.
    + rewrite (Z.eqb_sym q), E. reflexivity.
  - rewrite andb_false_r. apply IH.
Qed.

Lemma mem_cons q p l : mem q (p :: l) = (q =? p) || mem q l.
Proof. reflexivity. Qed.
Lemma shas_cons p v l q : shas ((p, v) :: l) q = (p =? q) || shas l q.
Proof. unfold shas. cbn [sget]. destruct (p =? q); reflexivity. Qed.
Lemma shas_sset_other m p v q : p <> q -> shas (sset m p v) q = shas m q.
Proof. intros H. unfold shas. rewrite sget_sset_other by congruence. reflexivity. Qed.

Lemma apply_specified_todo q : forall l st todo,
  mem q (snd (apply_specified l st todo)) = mem q todo || (negb (shas st q) && shas l q).
Proof.
  induction l as [|[p v] l IH]; intros st todo; cbn [apply_specified snd].
  - unfold shas at 2. cbn [sget]. rewrite andb_false_r, orb_false_r. reflexivity.
  - rewrite shas_cons. destruct (shas st p) eqn:Ep.
    + rewrite IH. destruct (Z.eq_dec p q) as [->|Hne].
      * rewrite Ep. cbn [negb andb]. reflexivity.
      * destruct (p =? q) eqn:E; [apply Z.eqb_eq in E; congruence|]. reflexivity.
    + rewrite IH, mem_cons. destruct (Z.eq_dec p q) as [->|Hne].
      * rewrite Z.eqb_refl, Ep. cbn [negb andb orb]. rewrite orb_true_r. reflexivity.
      * rewrite shas_sset_other by exact Hne.
        destruct (p =? q) eqn:E; [apply Z.eqb_eq in E; congruence|].
        destruct (q =? p) eqn:E'; [apply Z.eqb_eq in E'; congruence|]. reflexivity.
Qed.

Lemma apply_initial_todo_exact d q : forall props st todo, NoDup props ->
  mem q (snd (apply_initial d props st todo)) = mem q todo || (mem q props && negb (shas st q)).
Proof.
  induction props as [|p props IH]; intros st todo Hnd; cbn [apply_initial snd].
  - unfold mem at 3. cbn [existsb andb]. rewrite orb_false_r. reflexivity.
  - inversion Hnd as [|? ? Hnotin Hnd']; subst. rewrite (mem_cons q p props).
    assert (Hnot : p = q -> mem q props = false).
    { intros <-. destruct (mem p props) eqn:Em; [|reflexivity].
      apply existsb_exists in Em as (y & Hy & Hq). apply Z.eqb_eq in Hq. subst y. contradiction. }
    assert (Hadd : forall st', (p <> q -> shas st' q = shas st q) -> shas st p = false ->
                     mem q (p :: todo) || (mem q props && negb (shas st' q)) = mem q todo || (((q =? p) || mem q props) && negb (shas st q))).
    { intros st' Hst Hp. rewrite mem_cons. destruct (Z.eq_dec p q) as [<-|Hne].
      - rewrite Z.eqb_refl, Hp. cbn [orb negb andb]. rewrite orb_true_r. reflexivity.
      - rewrite (Hst Hne). destruct (q =? p) eqn:E; [apply Z.eqb_eq in E; congruence|]. reflexivity. }
    destruct (shas st p) eqn:Ep.
    + rewrite (IH st todo Hnd'). destruct (Z.eq_dec p q) as [<-|Hne].
      * rewrite (Hnot eq_refl), Ep, Z.eqb_refl. cbn. reflexivity.
      * destruct (q =? p) eqn:E; [apply Z.eqb_eq in E; congruence|]. reflexivity.
    + destruct (sget (d_initials d) p); [rewrite (IH _ _ Hnd'); apply Hadd; [intros Hne; apply shas_sset_other; exact Hne | reflexivity]|].
      destruct (p =? p_Position); [rewrite (IH _ _ Hnd'); apply Hadd; [reflexivity | reflexivity]|].
      destruct (sget initial_values p); rewrite (IH _ _ Hnd'); apply Hadd; try reflexivity. intros Hne. apply shas_sset_other. exact Hne.
Qed.

(* ---- the FontSize branch of compute_prop, and the order of computation ------------------------------------- *)
Lemma compute_prop_fontsize d par st :
  compute_prop d par st p_FontSize =
  match sget st p_FontSize with
  | Some (VLen v) =>
      let pv := match par with Some (_, pst) => get_len pst p_FontSize | None => None end in
      let ref := match pv with Some l => l | None => c_h d end in
      bind (compute_length v (Some ref) (Some ref) (Some (c_h d)) (Some (px_h d))) (fun l => Ok (sset st p_FontSize (VLen l)))
  | _ => Err errCompute
  end.
Proof. reflexivity. Qed.

Lemma ordered_head : exists rest, ordered_style_props = p_FontSize :: rest /\ ~ In p_FontSize rest.
Proof. eexists. split; [reflexivity|]. cbn. intros H. repeat (destruct H as [H|H]; [discriminate|]). exact H. Qed.

Lemma refs_spec d : c_h d = cell_h d /\ px_h d = pixel_h d /\ c_w d = cell_w d /\ px_w d = pixel_w d.
Proof. repeat split. Qed.

Lemma fs_facts :
  p_FontSize <> p_Direction /\ p_FontSize <> p_Origin /\ mem p_FontSize all_props = true /\ p_FontSize <> p_Position /\
  exists v, sget initial_values p_FontSize = Some (VLen v).
Proof. repeat split; try discriminate. eexists. reflexivity. Qed.

(* one element: M's computed font size against S's rule *)
Theorem style_phase_fontsize d t a par iv st :
  is_leaf_kind (e_kind a) = false ->
  (forall pk pst, par = Some (pk, pst) -> exists pl, sget pst p_FontSize = Some (VLen pl)) ->
  (e_kind a = KRegion -> par = None) ->
  style_phase d t a par iv = Ok st ->
  exists l, sget st p_FontSize = Some (VLen l) /\
    Some l =
    match specified t (a, iv) p_FontSize with
    | Some (VLen v) =>
        let ref := match par with Some (_, pst) => get_len pst p_FontSize | None => Some (cell_h d) end in
        rel v ref ref (Some (cell_h d)) (Some (pixel_h d))
    | Some _ => None
    | None =>
        match par with
        | Some (pk, pst) =>
            let halve := match e_kind a with KRtc => true | KRt => negb (kind_eqb pk KRtc) | _ => false end in
            match get_len pst p_FontSize with Some pl => Some (if halve then mkLen (Qdiv (lv pl) 2) (lu pl) else pl) | None => None end
        | None =>
            match default_of d p_FontSize with
            | Some (VLen v) => rel v (Some (cell_h d)) (Some (cell_h d)) (Some (cell_h d)) (Some (pixel_h d))
            | _ => None
            end
        end
    end.
Proof.
  intros Hleaf Hpar Hreg H.
  destruct fs_facts as (F1 & F2 & F3 & F4 & (v0 & F5)).
  destruct ordered_head as (rest & Hord & Hrest).
  unfold style_phase in H.
  destruct (apply_anims t iv (e_anims a) [] []) as [st0 todo0] eqn:E0.
  destruct (apply_specified (e_styles a) st0 todo0) as [st1 todo1] eqn:E1.
  set (FS := p_FontSize) in *.
  assert (G0 : sget st0 FS = last_step t iv FS (e_anims a) None /\ mem FS todo0 = is_some (last_step t iv FS (e_anims a) None)).
  { pose proof (apply_anims_get t iv FS (e_anims a) [] []) as G. pose proof (apply_anims_todo t iv FS (e_anims a) [] []) as T.
    rewrite E0 in G, T. cbn [fst snd] in G, T. rewrite last_step_eq in G, T. split; [exact G | exact T]. }
  destruct G0 as [G0 T0].
  assert (G1 : sget st1 FS = specified t (a, iv) FS /\ mem FS todo1 = is_some (specified t (a, iv) FS)).
  { pose proof (apply_specified_get FS (e_styles a) st0 todo0) as G. pose proof (apply_specified_todo FS (e_styles a) st0 todo0) as T.
    rewrite E1 in G, T. cbn [fst snd] in G, T. unfold specified. cbn [fst snd]. rewrite G, T, T0. unfold shas. rewrite G0.
    destruct (last_step t iv FS (e_anims a) None); [split; reflexivity|]. cbn. split; [reflexivity|]. destruct (sget (e_styles a) FS); reflexivity. }
  destruct G1 as [G1 T1].
  match type of H with (let '(st, todo) := ?X in _) = _ => destruct X as [st2 todo2] eqn:E2 end.
  assert (G2 : sget st2 FS = sget st1 FS /\ mem FS todo2 = mem FS todo1).
  { destruct (e_kind a); try (injection E2 as <- <-; split; reflexivity).
    destruct (negb (shas (e_styles a) p_Direction)); [|injection E2 as <- <-; split; reflexivity].
    destruct (sget (e_styles a) p_WritingMode) as [[w| | | | | | | | | | | | | |]|]; try (injection E2 as <- <-; split; reflexivity).
    destruct (w =? e_WritingModeType_lrtb); [injection E2 as <- <-; split; [apply sget_sset_other; exact F1 | reflexivity]|].
    destruct (w =? e_WritingModeType_rltb); [injection E2 as <- <-; split; [apply sget_sset_other; exact F1 | reflexivity]|].
    injection E2 as <- <-. split; reflexivity. }
  destruct G2 as [G2 T2].
  set (st3 := match e_kind a, par with
              | KBr, _ | KText, _ | KRegion, _ => st2
              | _, Some (pk, pst) => apply_inherit (e_kind a) pk pst (skeys pst) st2
              | _, None => st2
              end) in H.
  rewrite Hleaf in H.
  match type of H with (let '(st, todo) := ?X in _) = _ => destruct X as [st4 todo4] eqn:E4 end.
  pose proof (apply_initial_get d FS all_props st3 todo2 all_props_nodup) as G4.
  pose proof (apply_initial_todo_exact d FS all_props st3 todo2 all_props_nodup) as T4.
  rewrite E4 in G4, T4. cbn [fst snd] in G4, T4. fold (mem FS all_props) in G4. rewrite F3 in G4, T4. cbn [andb] in T4.
  rewrite Hord in H. cbn [compute_styles] in H. fold (mem FS todo4) in H.
  (* the value after inheritance *)
  assert (G3 : sget st3 FS =
               match sget st2 FS with
               | Some v => Some v
               | None => match par with
                         | Some (pk, pst) =>
                             match sget pst FS with
                             | Some (VLen pv) =>
                                 let halve := match e_kind a with KRtc => true | KRt => negb (kind_eqb pk KRtc) | _ => false end in
                                 Some (VLen (if halve then mkLen (Qdiv (lv pv) (qz 2)) (lu pv) else pv))
                             | _ => None
                             end
                         | None => None
                         end
               end).
  { unfold st3. destruct par as [[pk pst]|].
    2:{ destruct (e_kind a); destruct (sget st2 FS); reflexivity. }
    destruct (Hpar pk pst eq_refl) as (pl & Hpl).
    assert (Hin : forall keys, In FS keys -> forall s0,
              sget (apply_inherit (e_kind a) pk pst keys s0) FS =
              match sget s0 FS with
              | Some v => Some v
              | None => let halve := match e_kind a with KRtc => true | KRt => negb (kind_eqb pk KRtc) | _ => false end in
                        Some (VLen (if halve then mkLen (Qdiv (lv pl) (qz 2)) (lu pl) else pl))
              end).
    { assert (Hstep : forall s0, sget (inherit_prop (e_kind a) pk pst s0 FS) FS =
                match sget s0 FS with
                | Some v => Some v
                | None => let halve := match e_kind a with KRtc => true | KRt => negb (kind_eqb pk KRtc) | _ => false end in
                          Some (VLen (if halve then mkLen (Qdiv (lv pl) (qz 2)) (lu pl) else pl))
                end).
      { intros s0. unfold inherit_prop. unfold FS at 1. rewrite Z.eqb_refl. fold FS. unfold shas.
        destruct (sget s0 FS) eqn:Es; [exact Es|]. rewrite Hpl. rewrite sget_sset_same. reflexivity. }
      assert (Hkeep : forall keys s0 v, sget s0 FS = Some v -> sget (apply_inherit (e_kind a) pk pst keys s0) FS = Some v).
      { induction keys as [|k keys IHk]; intros s0 v Hs; [exact Hs|]. cbn [apply_inherit]. apply IHk.
        destruct (Z.eq_dec k FS) as [->|Hne]; [rewrite Hstep, Hs; reflexivity | rewrite inherit_prop_other by congruence; exact Hs]. }
      induction keys as [|k keys IHk]; intros Hk s0; [destruct Hk|]. cbn [apply_inherit].
      destruct (Z.eq_dec k FS) as [->|Hne].
      - pose proof (Hstep s0) as Hs. destruct (sget s0 FS) eqn:Es.
        + apply Hkeep. exact Hs.
        + apply Hkeep. exact Hs.
      - destruct Hk as [Hk|Hk]; [congruence|]. rewrite (IHk Hk). rewrite inherit_prop_other by congruence. reflexivity. }
    assert (HinK : In FS (skeys pst)) by (apply in_skeys; unfold shas; rewrite Hpl; reflexivity).
    rewrite Hpl.
    destruct (e_kind a) eqn:Ek; cbn [is_leaf_kind] in Hleaf; try discriminate;
      try (rewrite (Hin _ HinK); reflexivity).
    (* region with a parent: excluded *)
    specialize (Hreg eq_refl). discriminate. }
  destruct (specified t (a, iv) FS) as [sv|] eqn:Espec.
  - (* specified or animated on the element itself: computed against the parent's font size *)
    assert (S3 : sget st3 FS = Some sv) by (rewrite G3, G2, G1; reflexivity).
    assert (S4 : sget st4 FS = Some sv) by (rewrite G4, S3; reflexivity).
    assert (M4 : mem FS todo4 = true) by (rewrite T4, T2, T1; reflexivity).
    rewrite M4 in H. rewrite compute_prop_fontsize in H. fold FS in H. rewrite S4 in H.
    destruct sv as [| | | |v| | | | | | | | | |]; try discriminate.
    cbv zeta in H. rewrite compute_length_rel in H.
    set (ref := match match par with Some (_, pst) => get_len pst FS | None => None end with Some l => l | None => c_h d end) in H.
    destruct (rel v (Some ref) (Some ref) (Some (c_h d)) (Some (px_h d))) as [l|] eqn:Erel; [|discriminate]. cbn [bind] in H.
    exists l. split.
    + rewrite (compute_styles_other d par todo4 FS rest _ _ H Hrest F2). apply sget_sset_same.
    + cbv zeta. rewrite <- Erel. unfold ref. destruct par as [[pk pst]|]; [|reflexivity].
      destruct (Hpar pk pst eq_refl) as (pl & Hpl). unfold get_len. fold FS. rewrite Hpl. reflexivity.
  - destruct par as [[pk pst]|].
    + (* inherited from the snapshot parent: already computed there *)
      destruct (Hpar pk pst eq_refl) as (pl & Hpl).
      assert (S3 : sget st3 FS = Some (VLen (if match e_kind a with KRtc => true | KRt => negb (kind_eqb pk KRtc) | _ => false end
                                            then mkLen (Qdiv (lv pl) (qz 2)) (lu pl) else pl))).
      { rewrite G3, G2, G1. fold FS in Hpl. rewrite Hpl. reflexivity. }
      assert (S4 : sget st4 FS = sget st3 FS) by (rewrite G4, S3; reflexivity).
      assert (M4 : mem FS todo4 = false) by (rewrite T4, T2, T1; unfold shas; rewrite S3; reflexivity).
      rewrite M4 in H. eexists. split.
      * rewrite (compute_styles_other d (Some (pk, pst)) todo4 FS rest _ _ H Hrest F2), S4. exact S3.
      * unfold get_len. fold FS. rewrite Hpl. reflexivity.
    + (* a region: the initial value, computed against one cell *)
      assert (S3 : sget st3 FS = None) by (rewrite G3, G2, G1; reflexivity).
      assert (M4 : mem FS todo4 = true) by (rewrite T4, T2, T1; unfold shas; rewrite S3; cbn; reflexivity).
      rewrite S3 in G4.
      assert (S4 : sget st4 FS = default_of d FS).
      { rewrite G4. unfold default_of. destruct (sget (d_initials d) FS); [reflexivity|].
        destruct (FS =? p_Position) eqn:E; [apply Z.eqb_eq in E; congruence | reflexivity]. }
      rewrite M4 in H. rewrite compute_prop_fontsize in H. fold FS in H. rewrite S4 in H.
      destruct (default_of d FS) as [dv|]; [|discriminate]. destruct dv as [| | | |v| | | | | | | | | |]; try discriminate.
      cbv zeta in H. rewrite compute_length_rel in H.
      destruct (rel v (Some (c_h d)) (Some (c_h d)) (Some (c_h d)) (Some (px_h d))) as [l|] eqn:Erel; [|discriminate]. cbn [bind] in H.
      exists l. split.
      * rewrite (compute_styles_other d None todo4 FS rest _ _ H Hrest F2). apply sget_sset_same.
      * rewrite <- Erel. reflexivity.
Qed.

(* along the whole chain: the font size M computes is S's computed font size *)
Theorem styles_along_fontsize d t : forall chain st, chain_ok chain = true -> styles_along d t chain = Ok st ->
  exists l, sget st p_FontSize = Some (VLen l) /\ font_size d t chain = Some l.
Proof.
  induction chain as [|x up IH]; intros st Hok H; [discriminate|].
  cbn [chain_ok] in Hok. apply andb_true_iff in Hok as [Hleaf Hrest]. apply negb_true_iff in Hleaf.
  destruct up as [|y up'].
  - cbn [styles_along] in H.
    destruct (style_phase_fontsize d t (fst x) None (snd x) st Hleaf) as (l & Hl & Hs); try exact H; try (intros; discriminate); try reflexivity.
    exists l. split; [exact Hl|]. rewrite surj_link in Hs. cbn [font_size]. unfold slen.
    destruct (specified t x p_FontSize) as [[| | | |v| | | | | | | | | |]|]; try discriminate Hs; try (symmetry; exact Hs).
    unfold slen. destruct (default_of d p_FontSize) as [[| | | |v| | | | | | | | | |]|]; try discriminate Hs; symmetry; exact Hs.
  - apply andb_true_iff in Hrest as [Hnr Hup]. rewrite styles_along_cons in H.
    destruct (styles_along d t (y :: up')) as [pst|] eqn:Ep; cbn [bind] in H; [|discriminate H].
    destruct (IH pst Hup eq_refl) as (pl & Hpl & Hfs).
    destruct (style_phase_fontsize d t (fst x) (Some (e_kind (fst y), pst)) (snd x) st Hleaf) as (l & Hl & Hs); try exact H.
    + intros pk pst' E. injection E as _ <-. exists pl. exact Hpl.
    + intros Hk. rewrite Hk in Hnr. discriminate.
    + exists l. split; [exact Hl|]. rewrite surj_link in Hs.
      change (font_size d t (x :: y :: up')) with
        (let parent := font_size d t (y :: up') in
         match slen (specified t x p_FontSize) with
         | Some l0 => rel l0 parent parent (Some (cell_h d)) (Some (pixel_h d))
         | None => let halve := match e_kind (fst x) with KRtc => true | KRt => negb (kind_eqb (e_kind (fst y)) KRtc) | _ => false end in
                   match parent with Some pl0 => Some (if halve then mkLen (Qdiv (lv pl0) 2) (lu pl0) else pl0) | None => None end
         end).
      cbv zeta. rewrite Hfs. unfold get_len in Hs. rewrite Hpl in Hs. unfold slen.
      destruct (specified t x p_FontSize) as [[| | | |v| | | | | | | | | |]|]; try discriminate Hs; symmetry; exact Hs.
Qed.
