(* C03, part 3: the style phase of ONE element, key by key.  For every property p the passes before the ordered
   computation (animation, specified, direction, inheritance, initial values) leave in the style map the value
   `pre_value` and schedule p for computation exactly when `pre_todo` says; the ordered computation is a chain of
   twelve steps, each of which touches its own key only (tts:position also rewrites tts:origin). *)
From TT Require Import Model.Doc Gen.StyleTables Model.Isd Spec.IsdSpec Spec.StyleSpec.
From TT Require Import Proofs.Common.StyleFrame Proofs.C01.Display Proofs.C13.Shape Proofs.C13.Styles.
From TT Require Import Proofs.C03.Values Proofs.C03.Cascade Proofs.C03.Chain Proofs.C03.FontSize.

(* ---- inheritance, seen from one key ------------------------------------------------------------------------ *)
Definition halve_kind (k pk : kind) : bool := match k with KRtc => true | KRt => negb (kind_eqb pk KRtc) | _ => false end.

Definition inh_step (k pk : kind) (pst : smap) (p : Z) (own : option value) : option value :=
  if p =? p_FontSize then
    match own with
    | Some v => Some v
    | None => match sget pst p with
              | Some (VLen pv) => Some (VLen (if halve_kind k pk then mkLen (Qdiv (lv pv) (qz 2)) (lu pv) else pv))
              | _ => None
              end
    end
  else if p =? p_TextDecoration then
    match sget pst p with
    | Some (VTextDec pu pl po) =>
        match own with
        | None => Some (VTextDec pu pl po)
        | Some (VTextDec u l o) => Some (VTextDec (if u =? -1 then pu else u) (if l =? -1 then pl else l) (if o =? -1 then po else o))
        | Some v => Some v
        end
    | _ => own
    end
  else if p =? p_WritingMode then match sget pst p with Some v => Some v | None => own end
  else if is_inherited p then match own with Some v => Some v | None => sget pst p end
  else own.

Lemma inherit_prop_key k pk pst st p : sget (inherit_prop k pk pst st p) p = inh_step k pk pst p (sget st p).
Proof.
  unfold inherit_prop, inh_step, shas, halve_kind.
  destruct (p =? p_FontSize).
  { destruct (sget st p) eqn:E; [exact E|]. destruct (sget pst p) as [[]|]; rewrite ?sget_sset_same; try exact E; reflexivity. }
  destruct (p =? p_TextDecoration).
  { destruct (sget pst p) as [[]|]; try reflexivity.
    destruct (sget st p) as [[]|] eqn:E; rewrite ?sget_sset_same; try exact E; reflexivity. }
  destruct (p =? p_WritingMode).
  { destruct (sget pst p); rewrite ?sget_sset_same; reflexivity. }
  destruct (is_inherited p); cbn [andb]; [|reflexivity].
  destruct (sget st p) eqn:E; cbn [negb]; [exact E|].
  destruct (sget pst p); rewrite ?sget_sset_same; try exact E; reflexivity.
Qed.

Lemma merge_idem u pu : (if (if u =? -1 then pu else u) =? -1 then pu else (if u =? -1 then pu else u)) = (if u =? -1 then pu else u).
Proof. destruct (u =? -1) eqn:E; [destruct (pu =? -1); reflexivity | rewrite E; reflexivity]. Qed.

Lemma inh_step_idem k pk pst p o : inh_step k pk pst p (inh_step k pk pst p o) = inh_step k pk pst p o.
Proof.
  unfold inh_step.
  destruct (p =? p_FontSize); [destruct o; [reflexivity|]; destruct (sget pst p) as [[]|]; reflexivity|].
  destruct (p =? p_TextDecoration).
  { destruct (sget pst p) as [[]|]; try reflexivity. destruct o as [[]|]; try reflexivity.
    - rewrite !merge_idem. reflexivity.
    - repeat match goal with |- context [if ?c then ?x else ?x] => destruct c end; reflexivity. }
  destruct (p =? p_WritingMode); [destruct (sget pst p); reflexivity|].
  destruct (is_inherited p); [|reflexivity]. destruct o; [reflexivity|]. destruct (sget pst p); reflexivity.
Qed.

Lemma apply_inherit_key k pk pst p : forall keys st,
  sget (apply_inherit k pk pst keys st) p = if mem p keys then inh_step k pk pst p (sget st p) else sget st p.
Proof.
  induction keys as [|q keys IH]; intros st; cbn [apply_inherit]; [reflexivity|]. rewrite IH, mem_cons.
  destruct (Z.eq_dec q p) as [->|Hne].
  - rewrite Z.eqb_refl. cbn [orb]. rewrite inherit_prop_key. destruct (mem p keys); [apply inh_step_idem | reflexivity].
  - rewrite inherit_prop_other by congruence. destruct (p =? q) eqn:E; [apply Z.eqb_eq in E; congruence|]. reflexivity.
Qed.

(* ---- the direction special case ------------------------------------------------------------------------------ *)
Definition dir_special (a : attrs) : option value :=
  if negb (shas (e_styles a) p_Direction) then
    match sget (e_styles a) p_WritingMode with
    | Some (VEnum w) => if w =? e_WritingModeType_lrtb then Some (VEnum e_DirectionType_ltr)
                        else if w =? e_WritingModeType_rltb then Some (VEnum e_DirectionType_rtl) else None
    | _ => None
    end
  else None.
Definition fired (a : attrs) (p : Z) : bool := kind_eqb (e_kind a) KRegion && (p =? p_Direction) && is_some (dir_special a).

Definition dir_pass (a : attrs) (st : smap) (todo : list Z) : smap * list Z :=
  match e_kind a with
  | KRegion =>
      if negb (shas (e_styles a) p_Direction) then
        match sget (e_styles a) p_WritingMode with
        | Some (VEnum w) =>
            if w =? e_WritingModeType_lrtb then (sset st p_Direction (VEnum e_DirectionType_ltr), p_Direction :: todo)
            else if w =? e_WritingModeType_rltb then (sset st p_Direction (VEnum e_DirectionType_rtl), p_Direction :: todo)
            else (st, todo)
        | _ => (st, todo)
        end
      else (st, todo)
  | _ => (st, todo)
  end.

Lemma dir_pass_spec a st todo p :
  sget (fst (dir_pass a st todo)) p = (if fired a p then dir_special a else sget st p) /\
  mem p (snd (dir_pass a st todo)) = mem p todo || fired a p.
Proof.
  unfold dir_pass, fired, dir_special.
  destruct (e_kind a); cbn [kind_eqb andb fst snd]; try (rewrite orb_false_r; split; reflexivity).
  destruct (negb (shas (e_styles a) p_Direction)); cbn [fst snd is_some]; [|rewrite andb_false_r, orb_false_r; split; reflexivity].
  destruct (sget (e_styles a) p_WritingMode) as [[w| | | | | | | | | | | | | |]|]; cbn [fst snd is_some];
    try (rewrite andb_false_r, orb_false_r; split; reflexivity).
  assert (G : forall v, sget (sset st p_Direction v) p = (if (p =? p_Direction) && true then Some v else sget st p) /\
                        mem p (p_Direction :: todo) = mem p todo || ((p =? p_Direction) && true)).
  { intros v. rewrite mem_cons, andb_true_r. destruct (p =? p_Direction) eqn:E.
    - apply Z.eqb_eq in E. subst p. rewrite sget_sset_same, orb_true_r. split; reflexivity.
    - rewrite sget_sset_other by (intros ->; rewrite Z.eqb_refl in E; discriminate). rewrite orb_false_r. split; reflexivity. }
  destruct (w =? e_WritingModeType_lrtb); cbn [fst snd is_some]; [apply G|].
  destruct (w =? e_WritingModeType_rltb); cbn [fst snd is_some]; [apply G|].
  rewrite andb_false_r, orb_false_r. split; reflexivity.
Qed.

(* ---- the value and the scheduling of key p before the ordered computation ---------------------------------------- *)
Definition default_pre (d : doc) (p : Z) : option value :=
  match sget (d_initials d) p with Some v => Some v | None => if p =? p_Position then None else sget initial_values p end.

Definition pre_v2 (t : Q) (a : attrs) (iv : interval) (p : Z) : option value :=
  if fired a p then dir_special a else specified t (a, iv) p.
Definition pre_v3 (t : Q) (a : attrs) (par : option (kind * smap)) (iv : interval) (p : Z) : option value :=
  match par with
  | Some (pk, pst) => if kind_eqb (e_kind a) KRegion then pre_v2 t a iv p
                      else if shas pst p then inh_step (e_kind a) pk pst p (pre_v2 t a iv p) else pre_v2 t a iv p
  | None => pre_v2 t a iv p
  end.
Definition pre_value (d : doc) (t : Q) (a : attrs) (par : option (kind * smap)) (iv : interval) (p : Z) : option value :=
  match pre_v3 t a par iv p with Some v => Some v | None => default_pre d p end.
Definition pre_todo (t : Q) (a : attrs) (par : option (kind * smap)) (iv : interval) (p : Z) : bool :=
  is_some (specified t (a, iv) p) || fired a p || negb (is_some (pre_v3 t a par iv p)).

Lemma mem_all_props p : In p all_props -> mem p all_props = true.
Proof. intros H. apply existsb_exists. exists p. split; [exact H | apply Z.eqb_refl]. Qed.

Theorem style_phase_pre d t a par iv st :
  is_leaf_kind (e_kind a) = false -> style_phase d t a par iv = Ok st ->
  exists st4 todo4, compute_styles d par todo4 ordered_style_props st4 = Ok st /\
    forall p, In p all_props -> sget st4 p = pre_value d t a par iv p /\ mem p todo4 = pre_todo t a par iv p.
Proof.
  intros Hleaf H. unfold style_phase in H.
  destruct (apply_anims t iv (e_anims a) [] []) as [st0 todo0] eqn:E0.
  destruct (apply_specified (e_styles a) st0 todo0) as [st1 todo1] eqn:E1.
  assert (G1 : forall p, sget st1 p = specified t (a, iv) p /\ mem p todo1 = is_some (specified t (a, iv) p)).
  { intros p.
    pose proof (apply_anims_get t iv p (e_anims a) [] []) as G0. pose proof (apply_anims_todo t iv p (e_anims a) [] []) as T0.
    rewrite E0 in G0, T0. cbn [fst snd] in G0, T0. rewrite last_step_eq in G0, T0.
    pose proof (apply_specified_get p (e_styles a) st0 todo0) as G. pose proof (apply_specified_todo p (e_styles a) st0 todo0) as T.
    rewrite E1 in G, T. cbn [fst snd] in G, T. unfold specified. cbn [fst snd]. rewrite G, T, T0. unfold shas. rewrite G0. cbn [sget mem existsb orb].
    destruct (last_step t iv p (e_anims a) None); [split; reflexivity|]. cbn. split; [reflexivity|]. destruct (sget (e_styles a) p); reflexivity. }
  match type of H with (let '(st, todo) := ?X in _) = _ => change X with (dir_pass a st1 todo1) in H end.
  destruct (dir_pass a st1 todo1) as [st2 todo2] eqn:E2.
  assert (G2 : forall p, sget st2 p = pre_v2 t a iv p /\ mem p todo2 = is_some (specified t (a, iv) p) || fired a p).
  { intros p. pose proof (dir_pass_spec a st1 todo1 p) as [G T]. rewrite E2 in G, T. cbn [fst snd] in G, T.
    destruct (G1 p) as [G1p T1p]. unfold pre_v2. rewrite G, T, G1p, T1p. split; reflexivity. }
  set (st3 := match e_kind a, par with
              | KBr, _ | KText, _ | KRegion, _ => st2
              | _, Some (pk, pst) => apply_inherit (e_kind a) pk pst (skeys pst) st2
              | _, None => st2
              end) in H.
  assert (G3 : forall p, sget st3 p = pre_v3 t a par iv p).
  { intros p. unfold st3, pre_v3. destruct (G2 p) as [G2p _].
    destruct par as [[pk pst]|]; [|destruct (e_kind a); exact G2p].
    destruct (e_kind a) eqn:Ek; cbn [is_leaf_kind] in Hleaf; try discriminate; cbn [kind_eqb]; try exact G2p;
      rewrite apply_inherit_key; change (mem p (skeys pst)) with (existsb (Z.eqb p) (skeys pst)); rewrite existsb_skeys, G2p; reflexivity. }
  rewrite Hleaf in H.
  destruct (apply_initial d all_props st3 todo2) as [st4 todo4] eqn:E4.
  exists st4, todo4. split; [exact H|]. intros p Hin.
  pose proof (apply_initial_get d p all_props st3 todo2 all_props_nodup) as G4.
  pose proof (apply_initial_todo_exact d p all_props st3 todo2 all_props_nodup) as T4.
  rewrite E4 in G4, T4. cbn [fst snd] in G4, T4. fold (mem p all_props) in G4. rewrite (mem_all_props p Hin) in G4, T4. cbn [andb] in T4.
  destruct (G2 p) as [_ T2p]. unfold pre_value, pre_todo, default_pre. rewrite G4, T4, T2p. unfold shas. rewrite (G3 p).
  split; [reflexivity|]. destruct (pre_v3 t a par iv p); reflexivity.
Qed.

(* ---- the ordered computation as a chain of steps ------------------------------------------------------------------ *)
Definition step (d : doc) (par : option (kind * smap)) (todo : list Z) (p : Z) (st : smap) : res smap :=
  if mem p todo then compute_prop d par st p else Ok st.

Lemma compute_styles_cons_inv d par todo p order s st :
  compute_styles d par todo (p :: order) s = Ok st ->
  exists s', step d par todo p s = Ok s' /\ compute_styles d par todo order s' = Ok st.
Proof.
  cbn [compute_styles]. unfold step, mem. destruct (existsb (Z.eqb p) todo).
  - destruct (compute_prop d par s p) as [s'|]; [|discriminate]. cbn [bind]. intros H. exists s'. split; [reflexivity | exact H].
  - intros H. exists s. split; [reflexivity | exact H].
Qed.

(* a step touches its own key only; the tts:position step also rewrites tts:origin *)
Lemma compute_prop_frame d par st p st' q :
  compute_prop d par st p = Ok st' -> q <> p -> (p = p_Position -> q <> p_Origin) -> sget st' q = sget st q.
Proof.
  intros H Hq Ho. destruct (Z.eq_dec p p_Position) as [->|Hp].
  - apply (compute_prop_other _ _ _ _ _ _ H Hq (Ho eq_refl)).
  - unfold compute_prop in H.
    destruct (p =? p_FontSize); [|destruct (p =? p_Extent); [|destruct (p =? p_Origin); [|destruct (p =? p_Position) eqn:E; [apply Z.eqb_eq in E; congruence|]]]].
    all: repeat match type of H with
           | (if ?c then _ else _) = _ => destruct c
           | match ?x with _ => _ end = _ => destruct x eqn:?
           | bind ?x _ = _ => destruct x eqn:?; cbn [bind] in H
           | Err _ = Ok _ => discriminate
           | Ok _ = Ok _ => injection H as <-
           end; rewrite ?sget_sset_other by assumption; reflexivity.
Qed.
Lemma step_frame d par todo p s s' q :
  step d par todo p s = Ok s' -> q <> p -> (p = p_Position -> q <> p_Origin) -> sget s' q = sget s q.
Proof.
  unfold step. destruct (mem p todo); [apply compute_prop_frame|]. intros H _ _. injection H as <-. reflexivity.
Qed.

(* the ordered computation around the step of property p: the passes before it, its own step, the passes after it *)
Lemma compute_styles_frame d par todo q : forall order s s',
  compute_styles d par todo order s = Ok s' -> ~ In q order -> (In p_Position order -> q <> p_Origin) -> sget s' q = sget s q.
Proof.
  induction order as [|p order IH]; intros s s' H Hq Ho; [cbn [compute_styles] in H; injection H as <-; reflexivity|].
  apply compute_styles_cons_inv in H as (s1 & H1 & H).
  rewrite (IH s1 s' H) by (first [intros X; apply Hq; right; exact X | intros X; apply Ho; right; exact X]).
  apply (step_frame _ _ _ _ _ _ _ H1).
  - intros ->. apply Hq. left. reflexivity.
  - intros ->. apply Ho. left. reflexivity.
Qed.

Lemma compute_styles_at d par todo p : forall pre post s0 st,
  compute_styles d par todo (pre ++ p :: post) s0 = Ok st ->
  exists s s', compute_styles d par todo pre s0 = Ok s /\ step d par todo p s = Ok s' /\ compute_styles d par todo post s' = Ok st.
Proof.
  induction pre as [|x pre IH]; intros post s0 st H; cbn [app] in H.
  - apply compute_styles_cons_inv in H as (s' & H1 & H). exists s0, s'. repeat split; [exact H1 | exact H].
  - apply compute_styles_cons_inv in H as (s1 & H1 & H). destruct (IH post s1 st H) as (s & s' & Ha & Hb & Hc).
    exists s, s'. repeat split; [|exact Hb | exact Hc]. cbn [compute_styles]. unfold step, mem in H1.
    destruct (existsb (Z.eqb x) todo); [rewrite H1; exact Ha | injection H1 as <-; exact Ha].
Qed.

(* the style maps just before and just after the step of p, with what they share with the first and the last map *)
Lemma compute_styles_around d par todo p pre post s0 st :
  compute_styles d par todo (pre ++ p :: post) s0 = Ok st ->
  exists s s',
    (forall q, ~ In q pre -> (In p_Position pre -> q <> p_Origin) -> sget s q = sget s0 q) /\
    step d par todo p s = Ok s' /\
    (forall q, ~ In q post -> (In p_Position post -> q <> p_Origin) -> sget st q = sget s' q).
Proof.
  intros H. destruct (compute_styles_at _ _ _ _ _ _ _ _ H) as (s & s' & Ha & Hb & Hc). exists s, s'. repeat split.
  - intros q H1 H2. apply (compute_styles_frame _ _ _ _ _ _ _ Ha H1 H2).
  - exact Hb.
  - intros q H1 H2. apply (compute_styles_frame _ _ _ _ _ _ _ Hc H1 H2).
Qed.

(* the ordered properties before / after a given one (so that the proofs do not depend on the exact list) *)
Fixpoint before (p : Z) (l : list Z) : list Z := match l with [] => [] | x :: l' => if x =? p then [] else x :: before p l' end.
Fixpoint after (p : Z) (l : list Z) : list Z := match l with [] => [] | x :: l' => if x =? p then l' else after p l' end.

Ltac notin := cbn; let H_ := fresh in intros H_; repeat (destruct H_ as [H_|H_]; [discriminate H_|]); exact H_.

(* ---- the two situations of an element in a chain ------------------------------------------------------------------- *)
Definition complete (pst : smap) : Prop := forall q, In q all_props -> shas pst q = true.

Lemma kind_eqb_eq k k' : kind_eqb k k' = true -> k = k'.
Proof. destruct k, k'; try discriminate; reflexivity. Qed.

Lemma fired_other a p : p <> p_Direction -> fired a p = false.
Proof. intros H. unfold fired. destruct (p =? p_Direction) eqn:E; [apply Z.eqb_eq in E; congruence|]. rewrite andb_false_r. reflexivity. Qed.
Lemma fired_content a p : kind_eqb (e_kind a) KRegion = false -> fired a p = false.
Proof. intros H. unfold fired. rewrite H. reflexivity. Qed.
Lemma default_pre_of d p : p <> p_Position -> default_pre d p = default_of d p.
Proof. intros H. unfold default_pre, default_of. destruct (p =? p_Position) eqn:E; [apply Z.eqb_eq in E; congruence|]. reflexivity. Qed.

(* a region: every property is scheduled for computation *)
Lemma pre_region_todo t a iv p : pre_todo t a None iv p = true.
Proof.
  unfold pre_todo, pre_v3, pre_v2. destruct (fired a p); [rewrite orb_true_r; reflexivity|].
  destruct (specified t (a, iv) p); reflexivity.
Qed.
Lemma pre_region_value d t a iv p : p <> p_Direction ->
  pre_value d t a None iv p = match specified t (a, iv) p with Some v => Some v | None => default_pre d p end.
Proof. intros H. unfold pre_value, pre_v3, pre_v2. rewrite (fired_other a p H). reflexivity. Qed.

(* a content element below a parent whose style map is complete *)
Lemma pre_content_v3 t a pk pst iv p : kind_eqb (e_kind a) KRegion = false -> shas pst p = true ->
  pre_v3 t a (Some (pk, pst)) iv p = inh_step (e_kind a) pk pst p (specified t (a, iv) p).
Proof. intros Hk Hs. unfold pre_v3, pre_v2. rewrite Hk, Hs, (fired_content a p Hk). reflexivity. Qed.
Lemma pre_content_todo t a pk pst iv p : kind_eqb (e_kind a) KRegion = false -> shas pst p = true ->
  pre_todo t a (Some (pk, pst)) iv p =
  is_some (specified t (a, iv) p) || negb (is_some (inh_step (e_kind a) pk pst p (specified t (a, iv) p))).
Proof. intros Hk Hs. unfold pre_todo. rewrite (pre_content_v3 t a pk pst iv p Hk Hs), (fired_content a p Hk), orb_false_r. reflexivity. Qed.

(* induction along a chain: the region, then each content element against its parent's complete style map *)
Lemma chain_ind d t (P : list link -> smap -> Prop) :
  (forall x st, is_leaf_kind (e_kind (fst x)) = false -> e_kind (fst x) = KRegion -> chain_ok [x] = true ->
     styles_along d t [x] = Ok st -> style_phase d t (fst x) None (snd x) = Ok st -> P [x] st) ->
  (forall x y up pst st, is_leaf_kind (e_kind (fst x)) = false -> kind_eqb (e_kind (fst x)) KRegion = false ->
     chain_ok (y :: up) = true -> chain_ok (x :: y :: up) = true ->
     styles_along d t (y :: up) = Ok pst -> complete pst -> P (y :: up) pst ->
     styles_along d t (x :: y :: up) = Ok st ->
     style_phase d t (fst x) (Some (e_kind (fst y), pst)) (snd x) = Ok st -> P (x :: y :: up) st) ->
  forall chain st, chain_ok chain = true -> styles_along d t chain = Ok st -> P chain st.
Proof.
  intros HR HC. induction chain as [|x up IH]; intros st Hok H; [discriminate|].
  pose proof Hok as Hok0. cbn [chain_ok] in Hok. apply andb_true_iff in Hok as [Hleaf Hrest]. apply negb_true_iff in Hleaf.
  destruct up as [|y up'].
  - apply (HR x st Hleaf (kind_eqb_eq _ _ Hrest) Hok0 H). exact H.
  - apply andb_true_iff in Hrest as [Hnr Hup]. apply negb_true_iff in Hnr. pose proof H as H0. rewrite styles_along_cons in H.
    destruct (styles_along d t (y :: up')) as [pst|] eqn:Ep; cbn [bind] in H; [|discriminate H].
    assert (Hyleaf : is_leaf_kind (e_kind (fst y)) = false).
    { cbn [chain_ok] in Hup. apply andb_true_iff in Hup as [Hy _]. apply negb_true_iff in Hy. exact Hy. }
    assert (Hcomplete : complete pst).
    { intros q Hq. destruct up' as [|z up''].
      - cbn [styles_along] in Ep. apply (style_phase_complete d t (fst y) None (snd y) pst Hyleaf Ep q Hq).
      - rewrite styles_along_cons in Ep. destruct (styles_along d t (z :: up'')) as [ppst|]; cbn [bind] in Ep; [|discriminate Ep].
        apply (style_phase_complete d t (fst y) _ (snd y) pst Hyleaf Ep q Hq). }
    apply (HC x y up' pst st Hleaf Hnr Hup Hok0 Ep Hcomplete (IH pst Hup eq_refl) H0 H).
Qed.
