(* C03, part 5: region geometry — tts:extent, tts:disparity, tts:origin / tts:position, tts:padding.  None of them is inherited, so
   each is resolved on the element itself: against the root container, the cell and pixel resolutions, the element's
   own computed font size (em), its computed extent (position, padding percentages) and the writing mode. *)
From TT Require Import Model.Doc Gen.StyleTables Model.Isd Spec.IsdSpec Spec.StyleSpec.
From TT Require Import Proofs.Common.StyleFrame Proofs.C01.Display Proofs.C13.Shape Proofs.C13.Styles.
From TT Require Import Proofs.C03.Values Proofs.C03.Cascade Proofs.C03.Chain Proofs.C03.FontSize Proofs.C03.Phase Proofs.C03.Inherited.

(* the situation of an element of a chain: a region without parent, or a content element under a complete map *)
Definition ctx (a : attrs) (par : option (kind * smap)) : Prop :=
  match par with None => e_kind a = KRegion | Some (pk, pst) => kind_eqb (e_kind a) KRegion = false /\ complete pst end.

(* a property that is not inherited: the element's own value or the initial value, always scheduled *)
Lemma pre_own d t a par iv p : ctx a par -> In p all_props -> is_inherited p = false ->
  p <> p_FontSize -> p <> p_TextDecoration -> p <> p_WritingMode -> p <> p_Direction ->
  pre_value d t a par iv p = match specified t (a, iv) p with Some v => Some v | None => default_pre d p end /\
  pre_todo t a par iv p = true.
Proof.
  intros Hc Hin Hni H1 H2 H3 H4. destruct par as [[pk pst]|].
  - destruct Hc as [Hk Hcomp]. unfold pre_value.
    rewrite (pre_content_v3 t a pk pst iv p Hk (Hcomp p Hin)), (pre_content_todo t a pk pst iv p Hk (Hcomp p Hin)).
    rewrite (inh_step_generic _ _ _ _ _ H1 H2 H3), Hni. split; [reflexivity|]. destruct (specified t (a, iv) p); reflexivity.
  - split; [apply pre_region_value; exact H4 | apply pre_region_todo].
Qed.

(* the style maps around the computation of p *)
Lemma style_phase_at d t a par (iv : interval) st p pre post :
  is_leaf_kind (e_kind a) = false -> style_phase d t a par iv = Ok st -> ordered_style_props = pre ++ p :: post -> In p all_props ->
  exists s s',
    (forall q, In q all_props -> ~ In q pre -> (In p_Position pre -> q <> p_Origin) -> sget s q = pre_value d t a par iv q) /\
    (if pre_todo t a par iv p then compute_prop d par s p = Ok s' else s' = s) /\
    (forall q, q <> p -> (p = p_Position -> q <> p_Origin) -> sget s' q = sget s q) /\
    (forall q, ~ In q post -> (In p_Position post -> q <> p_Origin) -> sget st q = sget s' q).
Proof.
  intros Hleaf H Hord Hin. destruct (style_phase_pre d t a par iv st Hleaf H) as (st4 & todo4 & Hc & Hpre). rewrite Hord in Hc.
  destruct (compute_styles_around _ _ _ _ _ _ _ _ Hc) as (s & s' & Ha & Hb & Hz).
  exists s, s'. repeat split.
  - intros q Hq H1 H2. rewrite (Ha q H1 H2). apply (Hpre q Hq).
  - unfold step in Hb. rewrite (proj2 (Hpre p Hin)) in Hb. destruct (pre_todo t a par iv p); [exact Hb | injection Hb as <-; reflexivity].
  - intros q H1 H2. apply (step_frame _ _ _ _ _ _ _ Hb H1 H2).
  - exact Hz.
Qed.

(* two consecutive steps *)
Lemma style_phase_at2 d t a par (iv : interval) st p p2 pre post :
  is_leaf_kind (e_kind a) = false -> style_phase d t a par iv = Ok st -> ordered_style_props = pre ++ p :: p2 :: post ->
  In p all_props -> In p2 all_props ->
  exists s s' s'',
    (forall q, In q all_props -> ~ In q pre -> (In p_Position pre -> q <> p_Origin) -> sget s q = pre_value d t a par iv q) /\
    (if pre_todo t a par iv p then compute_prop d par s p = Ok s' else s' = s) /\
    (forall q, q <> p -> (p = p_Position -> q <> p_Origin) -> sget s' q = sget s q) /\
    (if pre_todo t a par iv p2 then compute_prop d par s' p2 = Ok s'' else s'' = s') /\
    (forall q, q <> p2 -> (p2 = p_Position -> q <> p_Origin) -> sget s'' q = sget s' q) /\
    (forall q, ~ In q post -> (In p_Position post -> q <> p_Origin) -> sget st q = sget s'' q).
Proof.
  intros Hleaf H Hord Hin Hin2. destruct (style_phase_pre d t a par iv st Hleaf H) as (st4 & todo4 & Hc & Hpre). rewrite Hord in Hc.
  destruct (compute_styles_at _ _ _ _ _ _ _ _ Hc) as (s & s' & Ha & Hb & Hrest).
  apply compute_styles_cons_inv in Hrest as (s'' & Hb2 & Hz).
  exists s, s', s''. repeat split.
  - intros q Hq H1 H2. rewrite (compute_styles_frame _ _ _ _ _ _ _ Ha H1 H2). apply (Hpre q Hq).
  - unfold step in Hb. rewrite (proj2 (Hpre p Hin)) in Hb. destruct (pre_todo t a par iv p); [exact Hb | injection Hb as <-; reflexivity].
  - intros q H1 H2. apply (step_frame _ _ _ _ _ _ _ Hb H1 H2).
  - unfold step in Hb2. rewrite (proj2 (Hpre p2 Hin2)) in Hb2. destruct (pre_todo t a par iv p2); [exact Hb2 | injection Hb2 as <-; reflexivity].
  - intros q H1 H2. apply (step_frame _ _ _ _ _ _ _ Hb2 H1 H2).
  - intros q H1 H2. apply (compute_styles_frame _ _ _ _ _ _ _ Hz H1 H2).
Qed.

Lemma own_or_default_pre d t x p : p <> p_Position ->
  match specified t x p with Some v => Some v | None => default_pre d p end = own_or_default d t p x.
Proof. intros H. unfold own_or_default. rewrite (default_pre_of d p H). reflexivity. Qed.

(* ---- tts:extent ------------------------------------------------------------------------------------------------------ *)
Definition extent1 (d : doc) (t : Q) (x : link) (fs : option len) : option (len * len) :=
  match own_or_default d t p_Extent x with
  | Some (VExtent h w) =>
      match rel h (Some (mkLen 100 Urh)) fs (Some (cell_h d)) (Some (pixel_h d)),
            rel w (Some (mkLen 100 Urw)) fs (Some (cell_w d)) (Some (pixel_w d)) with
      | Some h', Some w' => Some (h', w')
      | _, _ => None
      end
  | _ => None
  end.
Lemma extent_cons d t x up : extent d t (x :: up) = extent1 d t x (font_size d t (x :: up)).
Proof. reflexivity. Qed.

Lemma compute_prop_extent d par st :
  compute_prop d par st p_Extent =
  match sget st p_Extent with
  | Some (VExtent h w) =>
      bind (compute_length h (Some (rh (qz 100))) (get_len st p_FontSize) (Some (c_h d)) (Some (px_h d))) (fun h' =>
      bind (compute_length w (Some (rw (qz 100))) (get_len st p_FontSize) (Some (c_w d)) (Some (px_w d))) (fun w' =>
      Ok (sset st p_Extent (VExtent h' w'))))
  | _ => Err errCompute
  end.
Proof. reflexivity. Qed.

Lemma ext_facts : In p_Extent all_props /\ is_inherited p_Extent = false /\ p_Extent <> p_FontSize /\ p_Extent <> p_TextDecoration /\
  p_Extent <> p_WritingMode /\ p_Extent <> p_Direction /\ p_Extent <> p_Position /\
  exists pre post, ordered_style_props = pre ++ p_Extent :: post /\ ~ In p_Extent pre /\ ~ In p_Position pre /\ ~ In p_Extent post /\ ~ In p_FontSize post /\
               (In p_Position post -> p_Extent <> p_Origin) /\ (In p_Position post -> p_FontSize <> p_Origin).
Proof.
  repeat split; try discriminate; try (cbn; tauto). exists (before p_Extent ordered_style_props), (after p_Extent ordered_style_props).
  split; [reflexivity|]. repeat split; try notin; intros _; discriminate.
Qed.

Theorem style_phase_extent d t a par (iv : interval) st fs :
  is_leaf_kind (e_kind a) = false -> ctx a par -> style_phase d t a par iv = Ok st -> sget st p_FontSize = Some (VLen fs) ->
  exists h w, sget st p_Extent = Some (VExtent h w) /\ extent1 d t (a, iv) (Some fs) = Some (h, w).
Proof.
  intros Hleaf Hctx H Hfs.
  destruct ext_facts as (Fin & Fni & F1 & F2 & F3 & F4 & F5 & pre & post & Hord & Fq1 & Fq2 & Fp1 & Fp2 & Fp3 & Fp4).
  destruct (style_phase_at d t a par iv st _ _ _ Hleaf H Hord Fin) as (s & s' & Ha & Hb & Hf & Hz).
  destruct (pre_own d t a par iv _ Hctx Fin Fni F1 F2 F3 F4) as [Hv Ht]. rewrite Ht in Hb.
  assert (Hs : sget s p_Extent = own_or_default d t p_Extent (a, iv)).
  { rewrite (Ha _ Fin Fq1) by (intros X; contradiction (Fq2 X)). rewrite Hv. apply own_or_default_pre. exact F5. }
  assert (Hsfs : get_len s p_FontSize = Some fs).
  { unfold get_len. rewrite <- (Hf p_FontSize) by (first [congruence | intros X; discriminate X]).
    rewrite <- (Hz p_FontSize Fp2 Fp4), Hfs. reflexivity. }
  rewrite compute_prop_extent, Hs, Hsfs in Hb. unfold extent1.
  destruct (own_or_default d t p_Extent (a, iv)) as [[| | | | |h w| | | | | | | | |]|]; try discriminate Hb.
  rewrite !compute_length_rel in Hb.
  change (rh (qz 100)) with (mkLen 100 Urh) in Hb. change (rw (qz 100)) with (mkLen 100 Urw) in Hb.
  change (c_h d) with (cell_h d) in Hb. change (px_h d) with (pixel_h d) in Hb. change (c_w d) with (cell_w d) in Hb. change (px_w d) with (pixel_w d) in Hb.
  destruct (rel h _ _ _ _) as [h'|]; [|discriminate Hb]. cbn [bind] in Hb.
  destruct (rel w _ _ _ _) as [w'|]; [|discriminate Hb]. cbn [bind] in Hb. injection Hb as <-.
  exists h', w'. split; [|reflexivity]. rewrite (Hz p_Extent Fp1 Fp3). apply sget_sset_same.
Qed.

(* ---- tts:disparity ---------------------------------------------------------------------------------------------------- *)
(* computed right after tts:fontSize: % of the root container width, c / px of the cell / pixel width, em of the own font size *)
Definition disparity1 (d : doc) (t : Q) (x : link) (fs : option len) : option value :=
  match own_or_default d t p_Disparity x with
  | Some (VLen l) =>
      match rel l (Some (mkLen 100 Urw)) fs (Some (cell_w d)) (Some (pixel_w d)) with
      | Some l' => Some (VLen l')
      | None => None
      end
  | _ => None
  end.
Lemma disparity_cons d t x up : disparity d t (x :: up) = disparity1 d t x (font_size d t (x :: up)).
Proof. reflexivity. Qed.

Lemma compute_prop_disparity d par st :
  compute_prop d par st p_Disparity =
  match sget st p_Disparity with
  | Some (VLen l) =>
      bind (compute_length l (Some (rw (qz 100))) (get_len st p_FontSize) (Some (c_w d)) (Some (px_w d))) (fun l' =>
      Ok (sset st p_Disparity (VLen l')))
  | _ => Err errCompute
  end.
Proof. reflexivity. Qed.

Lemma disp_facts : In p_Disparity all_props /\ is_inherited p_Disparity = false /\ p_Disparity <> p_FontSize /\ p_Disparity <> p_TextDecoration /\
  p_Disparity <> p_WritingMode /\ p_Disparity <> p_Direction /\ p_Disparity <> p_Position /\
  exists pre post, ordered_style_props = pre ++ p_Disparity :: post /\ ~ In p_Disparity pre /\ ~ In p_Position pre /\ ~ In p_Disparity post /\
               ~ In p_FontSize post /\ (In p_Position post -> p_Disparity <> p_Origin) /\ (In p_Position post -> p_FontSize <> p_Origin).
Proof.
  repeat split; try discriminate; try (cbn; tauto). exists (before p_Disparity ordered_style_props), (after p_Disparity ordered_style_props).
  split; [reflexivity|]. repeat split; try notin; intros _; discriminate.
Qed.

Theorem style_phase_disparity d t a par (iv : interval) st fs :
  is_leaf_kind (e_kind a) = false -> ctx a par -> style_phase d t a par iv = Ok st -> sget st p_FontSize = Some (VLen fs) ->
  sget st p_Disparity = disparity1 d t (a, iv) (Some fs).
Proof.
  intros Hleaf Hctx H Hfs.
  destruct disp_facts as (Fin & Fni & F1 & F2 & F3 & F4 & F5 & pre & post & Hord & Fq1 & Fq2 & Fp1 & Fp2 & Fp3 & Fp4).
  destruct (style_phase_at d t a par iv st _ _ _ Hleaf H Hord Fin) as (s & s' & Ha & Hb & Hf & Hz).
  destruct (pre_own d t a par iv _ Hctx Fin Fni F1 F2 F3 F4) as [Hv Ht]. rewrite Ht in Hb.
  assert (Hs : sget s p_Disparity = own_or_default d t p_Disparity (a, iv)).
  { rewrite (Ha _ Fin Fq1) by (intros X; contradiction (Fq2 X)). rewrite Hv. apply own_or_default_pre. exact F5. }
  assert (Hsfs : get_len s p_FontSize = Some fs).
  { unfold get_len. rewrite <- (Hf p_FontSize) by (first [congruence | intros X; discriminate X]).
    rewrite <- (Hz p_FontSize Fp2 Fp4), Hfs. reflexivity. }
  rewrite compute_prop_disparity, Hs, Hsfs in Hb. unfold disparity1.
  destruct (own_or_default d t p_Disparity (a, iv)) as [[| | | |l| | | | | | | | | |]|]; try discriminate Hb.
  rewrite compute_length_rel in Hb.
  change (rw (qz 100)) with (mkLen 100 Urw) in Hb. change (c_w d) with (cell_w d) in Hb. change (px_w d) with (pixel_w d) in Hb.
  destruct (rel l _ _ _ _) as [l'|]; [|discriminate Hb]. cbn [bind] in Hb. injection Hb as <-.
  rewrite (Hz p_Disparity Fp1 Fp3). apply sget_sset_same.
Qed.

(* ---- tts:origin and tts:position --------------------------------------------------------------------------------------- *)
Definition origin1 (d : doc) (t : Q) (x : link) (ext : option (len * len)) : option (len * len) :=
  match (match specified t x p_Position with Some v => Some v | None => sget (d_initials d) p_Position end) with
  | Some (VPos ho he vo ve) =>
      match ext with
      | Some (eh, ew) =>
          match rel vo (Some (mkLen (Qminus 100 (lv eh)) Urh)) None (Some (cell_h d)) (Some (pixel_h d)),
                rel ho (Some (mkLen (Qminus 100 (lv ew)) Urw)) None (Some (cell_w d)) (Some (pixel_w d)) with
          | Some v1, Some h1 =>
              let v2 := if ve =? e_PositionType_VEdge_bottom then mkLen (Qminus (Qminus 100 (lv eh)) (lv v1)) (lu v1) else v1 in
              let h2 := if he =? e_PositionType_HEdge_right then mkLen (Qminus (Qminus 100 (lv ew)) (lv h1)) (lu h1) else h1 in
              Some (h2, v2)
          | _, _ => None
          end
      | None => None
      end
  | _ =>
      match own_or_default d t p_Origin x with
      | Some (VCoord ox oy) =>
          match rel ox (Some (mkLen 100 Urw)) None (Some (cell_w d)) (Some (pixel_w d)),
                rel oy (Some (mkLen 100 Urh)) None (Some (cell_h d)) (Some (pixel_h d)) with
          | Some x', Some y' => Some (x', y')
          | _, _ => None
          end
      | _ => None
      end
  end.
Lemma origin_cons d t x up : origin d t (x :: up) = origin1 d t x (extent d t (x :: up)).
Proof. reflexivity. Qed.

Lemma compute_prop_origin d par st :
  compute_prop d par st p_Origin =
  match sget st p_Origin with
  | Some (VCoord x y) =>
      bind (compute_length y (Some (rh (qz 100))) None (Some (c_h d)) (Some (px_h d))) (fun y' =>
      bind (compute_length x (Some (rw (qz 100))) None (Some (c_w d)) (Some (px_w d))) (fun x' =>
      Ok (sset st p_Origin (VCoord x' y'))))
  | _ => Err errCompute
  end.
Proof. reflexivity. Qed.
Lemma compute_prop_position_eq d par st :
  compute_prop d par st p_Position =
  match sget st p_Position with
  | None =>
      match sget st p_Origin with
      | Some (VCoord x y) => Ok (sset st p_Position (VPos x e_PositionType_HEdge_left y e_PositionType_VEdge_top))
      | _ => Err errCompute
      end
  | Some (VPos ho he vo ve) =>
      match sget st p_Extent with
      | Some (VExtent eh ew) =>
          if negb (unit_eqb (lu eh) Urh && unit_eqb (lu ew) Urw) then Err errCompute
          else
          bind (compute_length vo (Some (rh (Qminus (qz 100) (lv eh)))) None (Some (c_h d)) (Some (px_h d))) (fun v1 =>
          let v2 := if ve =? e_PositionType_VEdge_bottom
                    then mkLen (Qminus (Qminus (qz 100) (lv eh)) (lv v1)) (lu v1) else v1 in
          bind (compute_length ho (Some (rw (Qminus (qz 100) (lv ew)))) None (Some (c_w d)) (Some (px_w d))) (fun h1 =>
          let h2 := if he =? e_PositionType_HEdge_right
                    then mkLen (Qminus (Qminus (qz 100) (lv ew)) (lv h1)) (lu h1) else h1 in
          Ok (sset (sset st p_Origin (VCoord h2 v2)) p_Position (VPos h2 e_PositionType_HEdge_left v2 e_PositionType_VEdge_top))))
      | _ => Err errCompute
      end
  | Some _ => Err errCompute
  end.
Proof. reflexivity. Qed.

Lemma org_facts : In p_Origin all_props /\ In p_Position all_props /\
  is_inherited p_Origin = false /\ p_Origin <> p_FontSize /\ p_Origin <> p_TextDecoration /\ p_Origin <> p_WritingMode /\ p_Origin <> p_Direction /\
  is_inherited p_Position = false /\ p_Position <> p_FontSize /\ p_Position <> p_TextDecoration /\ p_Position <> p_WritingMode /\ p_Position <> p_Direction /\
  p_Origin <> p_Position /\ In p_Extent all_props /\ p_Extent <> p_Origin /\ p_Extent <> p_Position /\
  exists pre post, ordered_style_props = pre ++ p_Origin :: p_Position :: post /\
    ~ In p_Origin pre /\ ~ In p_Position pre /\ ~ In p_Origin post /\ ~ In p_Position post /\ ~ In p_Extent post.
Proof.
  repeat split; try discriminate; try (cbn; tauto). exists (before p_Origin ordered_style_props), (after p_Position ordered_style_props).
  split; [reflexivity|]. repeat split; notin.
Qed.

Theorem style_phase_origin d t a par (iv : interval) st eh ew :
  is_leaf_kind (e_kind a) = false -> ctx a par -> style_phase d t a par iv = Ok st -> sget st p_Extent = Some (VExtent eh ew) ->
  exists x y, sget st p_Origin = Some (VCoord x y) /\
              sget st p_Position = Some (VPos x e_PositionType_HEdge_left y e_PositionType_VEdge_top) /\
              origin1 d t (a, iv) (Some (eh, ew)) = Some (x, y).
Proof.
  intros Hleaf Hctx H Hext.
  destruct org_facts as (FinO & FinP & Fo0 & Fo1 & Fo2 & Fo3 & Fo4 & Fp0 & Fp1 & Fp2 & Fp3 & Fp4 & Fop & FinE & Feo & Fep &
                         pre & post & Hord & N1 & N2 & N3 & N4 & N5).
  destruct (style_phase_at2 d t a par iv st _ _ _ _ Hleaf H Hord FinO FinP) as (s & s' & s'' & Ha & Hb & Hf & Hb2 & Hf2 & Hz).
  destruct (pre_own d t a par iv _ Hctx FinO Fo0 Fo1 Fo2 Fo3 Fo4) as [HvO HtO]. rewrite HtO in Hb.
  destruct (pre_own d t a par iv _ Hctx FinP Fp0 Fp1 Fp2 Fp3 Fp4) as [HvP HtP]. rewrite HtP in Hb2.
  assert (HsO : sget s p_Origin = own_or_default d t p_Origin (a, iv)).
  { rewrite (Ha _ FinO N1) by (intros X; contradiction (N2 X)). rewrite HvO. apply own_or_default_pre. exact Fop. }
  assert (HsP : sget s' p_Position = match specified t (a, iv) p_Position with Some v => Some v | None => sget (d_initials d) p_Position end).
  { rewrite (Hf p_Position) by (first [congruence | intros X; discriminate X]).
    rewrite (Ha _ FinP N2) by (intros X; contradiction (N2 X)). rewrite HvP. unfold default_pre. rewrite Z.eqb_refl.
    destruct (specified t (a, iv) p_Position); [reflexivity|]. destruct (sget (d_initials d) p_Position); reflexivity. }
  assert (HsE : sget s' p_Extent = Some (VExtent eh ew)).
  { rewrite <- (Hf2 p_Extent Fep (fun _ => Feo)). rewrite <- (Hz p_Extent N5 (fun X => False_ind _ (N4 X))). exact Hext. }
  (* the origin step *)
  rewrite compute_prop_origin, HsO in Hb.
  destruct (own_or_default d t p_Origin (a, iv)) as [[| | | | | |ox oy| | | | | | | |]|] eqn:Eown; try discriminate Hb.
  rewrite !compute_length_rel in Hb.
  change (rh (qz 100)) with (mkLen 100 Urh) in Hb. change (rw (qz 100)) with (mkLen 100 Urw) in Hb.
  change (c_h d) with (cell_h d) in Hb. change (px_h d) with (pixel_h d) in Hb. change (c_w d) with (cell_w d) in Hb. change (px_w d) with (pixel_w d) in Hb.
  destruct (rel oy _ None _ _) as [y'|] eqn:Ey; [|discriminate Hb]. cbn [bind] in Hb.
  destruct (rel ox _ None _ _) as [x'|] eqn:Ex; [|discriminate Hb]. cbn [bind] in Hb. injection Hb as <-.
  (* the position step *)
  rewrite compute_prop_position_eq, HsP in Hb2. unfold origin1.
  assert (Hfin : forall q, q = p_Origin \/ q = p_Position -> sget st q = sget s'' q).
  { intros q [-> | ->]; apply Hz; first [exact N3 | exact N4 | intros X; contradiction (N4 X)]. }
  destruct (match specified t (a, iv) p_Position with Some v => Some v | None => sget (d_initials d) p_Position end) as [pv|].
  - destruct pv as [| | | | | | |ho he vo ve| | | | | | |]; try discriminate Hb2.
    rewrite HsE in Hb2.
    destruct (negb (unit_eqb (lu eh) Urh && unit_eqb (lu ew) Urw)); [discriminate Hb2|].
    rewrite !compute_length_rel in Hb2.
    change (rh (Qminus (qz 100) (lv eh))) with (mkLen (Qminus 100 (lv eh)) Urh) in Hb2.
    change (rw (Qminus (qz 100) (lv ew))) with (mkLen (Qminus 100 (lv ew)) Urw) in Hb2.
    change (c_h d) with (cell_h d) in Hb2. change (px_h d) with (pixel_h d) in Hb2. change (c_w d) with (cell_w d) in Hb2. change (px_w d) with (pixel_w d) in Hb2.
    destruct (rel vo _ None _ _) as [v1|]; [|discriminate Hb2]. cbn [bind] in Hb2. cbv zeta in Hb2.
    destruct (rel ho _ None _ _) as [h1|]; [|discriminate Hb2]. cbn [bind] in Hb2. injection Hb2 as <-.
    eexists. eexists. split; [|split].
    + rewrite (Hfin p_Origin (or_introl eq_refl)), sget_sset_other by exact Fop. apply sget_sset_same.
    + rewrite (Hfin p_Position (or_intror eq_refl)). apply sget_sset_same.
    + reflexivity.
  - rewrite sget_sset_same in Hb2. injection Hb2 as <-.
    exists x', y'. split; [|split].
    + rewrite (Hfin p_Origin (or_introl eq_refl)), sget_sset_other by exact Fop. apply sget_sset_same.
    + rewrite (Hfin p_Position (or_intror eq_refl)). apply sget_sset_same.
    + rewrite Eown, Ex, Ey. reflexivity.
Qed.

(* ---- tts:padding ------------------------------------------------------------------------------------------------------- *)
Definition padding1 (d : doc) (t : Q) (x : link) (ext : option (len * len)) (wm : option value) (fs : option len) : option value :=
  match own_or_default d t p_Padding x, ext with
  | Some (VPad b e a s), Some (eh, ew) =>
      let vert := vertical wm in
      let block := if vert then (ew, cell_w d, pixel_w d) else (eh, cell_h d, pixel_h d) in
      let inline := if vert then (eh, cell_h d, pixel_h d) else (ew, cell_w d, pixel_w d) in
      let r (l : len) (ax : len * len * len) := rel l (Some (fst (fst ax))) fs (Some (snd (fst ax))) (Some (snd ax)) in
      match r b block, r e inline, r a block, r s inline with
      | Some b', Some e', Some a', Some s' => Some (VPad b' e' a' s')
      | _, _, _, _ => None
      end
  | _, _ => None
  end.
Lemma padding_cons d t x up :
  padding d t (x :: up) = padding1 d t x (extent d t (x :: up)) (writing_mode d t (x :: up)) (font_size d t (x :: up)).
Proof. reflexivity. Qed.

Lemma compute_prop_padding d par st :
  compute_prop d par st p_Padding =
  match sget st p_Padding, sget st p_Extent with
  | Some (VPad b e a s), Some (VExtent eh ew) =>
      let vert := is_vertical (sget st p_WritingMode) in
      let fs := get_len st p_FontSize in
      let ba_pct := if vert then ew else eh in  let ba_c := if vert then c_w d else c_h d in
      let ba_px := if vert then px_w d else px_h d in
      let se_pct := if vert then eh else ew in  let se_c := if vert then c_h d else c_w d in
      let se_px := if vert then px_h d else px_w d in
      bind (compute_length b (Some ba_pct) fs (Some ba_c) (Some ba_px)) (fun b' =>
      bind (compute_length a (Some ba_pct) fs (Some ba_c) (Some ba_px)) (fun a' =>
      bind (compute_length s (Some se_pct) fs (Some se_c) (Some se_px)) (fun s' =>
      bind (compute_length e (Some se_pct) fs (Some se_c) (Some se_px)) (fun e' =>
      Ok (sset st p_Padding (VPad b' e' a' s'))))))
  | _, _ => Err errCompute
  end.
Proof. reflexivity. Qed.

Lemma pad_facts : In p_Padding all_props /\ is_inherited p_Padding = false /\ p_Padding <> p_FontSize /\ p_Padding <> p_TextDecoration /\
  p_Padding <> p_WritingMode /\ p_Padding <> p_Direction /\ p_Padding <> p_Position /\ p_Padding <> p_Extent /\ p_Padding <> p_Origin /\
  exists pre, ordered_style_props = pre ++ p_Padding :: [] /\ ~ In p_Padding pre.
Proof. repeat split; try discriminate; try (cbn; tauto). exists (removelast ordered_style_props). split; [reflexivity | notin]. Qed.

Lemma is_vertical_vertical v : is_vertical v = vertical v.
Proof. reflexivity. Qed.

Theorem style_phase_padding d t a par (iv : interval) st fs eh ew :
  is_leaf_kind (e_kind a) = false -> ctx a par -> style_phase d t a par iv = Ok st ->
  sget st p_FontSize = Some (VLen fs) -> sget st p_Extent = Some (VExtent eh ew) ->
  sget st p_Padding = padding1 d t (a, iv) (Some (eh, ew)) (sget st p_WritingMode) (Some fs).
Proof.
  intros Hleaf Hctx H Hfs Hext.
  destruct pad_facts as (Fin & Fni & F1 & F2 & F3 & F4 & F5 & F6 & F7 & pre & Hord & N1).
  destruct (style_phase_at d t a par iv st _ _ _ Hleaf H Hord Fin) as (s & s' & Ha & Hb & Hf & Hz).
  destruct (pre_own d t a par iv _ Hctx Fin Fni F1 F2 F3 F4) as [Hv Ht]. rewrite Ht in Hb.
  assert (Hfin : forall q, q <> p_Padding -> q <> p_Origin -> sget s q = sget st q).
  { intros q H1 H2. rewrite (Hz q) by (first [intros [] | intros []]). apply eq_sym, Hf; [exact H1 | intros X; discriminate X]. }
  assert (Hs : sget s p_Padding = own_or_default d t p_Padding (a, iv)).
  { rewrite (Ha _ Fin N1) by (intros _; exact F7). rewrite Hv. apply own_or_default_pre. exact F5. }
  rewrite compute_prop_padding, Hs in Hb. unfold get_len in Hb.
  rewrite (Hfin p_Extent) in Hb by (first [congruence | discriminate]). rewrite (Hfin p_WritingMode) in Hb by (first [congruence | discriminate]).
  rewrite (Hfin p_FontSize) in Hb by (first [congruence | discriminate]). rewrite Hext, Hfs in Hb.
  unfold padding1. rewrite <- is_vertical_vertical.
  destruct (own_or_default d t p_Padding (a, iv)) as [[| | | | | | | |pb pe pa ps| | | | | |]|]; try discriminate Hb.
  cbv zeta in Hb. rewrite !compute_length_rel in Hb.
  change (c_h d) with (cell_h d) in Hb. change (px_h d) with (pixel_h d) in Hb. change (c_w d) with (cell_w d) in Hb. change (px_w d) with (pixel_w d) in Hb.
  rewrite (Hz p_Padding) by (first [intros [] | intros []]).
  destruct (is_vertical (sget st p_WritingMode)); cbn [fst snd];
    (destruct (rel pb _ _ _ _) as [b'|]; [|discriminate Hb]; cbn [bind] in Hb;
     destruct (rel pa _ _ _ _) as [a'|]; [|discriminate Hb]; cbn [bind] in Hb;
     destruct (rel ps _ _ _ _) as [s1|]; [|destruct (rel pe _ _ _ _); discriminate Hb]; cbn [bind] in Hb;
     destruct (rel pe _ _ _ _) as [e'|]; [|discriminate Hb]; cbn [bind] in Hb;
     injection Hb as <-; apply sget_sset_same).
Qed.
