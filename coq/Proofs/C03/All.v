(* C03, part 7: region geometry and disparity along the chain, and all 36 properties together. *)
From TT Require Import Model.Doc Gen.StyleTables Model.Isd Spec.IsdSpec Spec.StyleSpec.
From TT Require Import Proofs.Common.StyleFrame Proofs.C01.Display Proofs.C13.Shape Proofs.C13.Styles.
From TT Require Import Proofs.C03.Values Proofs.C03.Cascade Proofs.C03.Chain Proofs.C03.FontSize Proofs.C03.Phase Proofs.C03.Inherited
  Proofs.C03.Geometry Proofs.C03.FontRelative.

(* the head of a chain is resolved in one of the two situations of Geometry.ctx *)
Lemma chain_ctx d t : forall chain st, chain_ok chain = true -> styles_along d t chain = Ok st ->
  exists x up par, chain = x :: up /\ is_leaf_kind (e_kind (fst x)) = false /\ ctx (fst x) par /\
                   style_phase d t (fst x) par (snd x) = Ok st.
Proof.
  apply (chain_ind d t (fun chain st => exists x up par, chain = x :: up /\ is_leaf_kind (e_kind (fst x)) = false /\ ctx (fst x) par /\
                                                        style_phase d t (fst x) par (snd x) = Ok st)).
  - intros x st Hleaf Hk _ _ H. exists x, [], None. repeat split; assumption.
  - intros x y up pst st Hleaf Hk _ _ _ Hcomplete _ _ H. exists x, (y :: up), (Some (e_kind (fst y), pst)). repeat split; assumption.
Qed.

Theorem styles_along_extent d t chain st : chain_ok chain = true -> styles_along d t chain = Ok st ->
  exists h w, sget st p_Extent = Some (VExtent h w) /\ extent d t chain = Some (h, w).
Proof.
  intros Hok Hst. destruct (chain_ctx d t chain st Hok Hst) as (x & up & par & -> & Hleaf & Hctx & H).
  destruct (styles_along_fontsize d t _ st Hok Hst) as (fs & Hfs & Hfs').
  destruct (style_phase_extent d t (fst x) par (snd x) st fs Hleaf Hctx H Hfs) as (h & w & He & He').
  exists h, w. split; [exact He|]. rewrite extent_cons, Hfs', <- He', surj_link. reflexivity.
Qed.

Theorem styles_along_origin d t chain st : chain_ok chain = true -> styles_along d t chain = Ok st ->
  exists x y, sget st p_Origin = Some (VCoord x y) /\
              sget st p_Position = Some (VPos x e_PositionType_HEdge_left y e_PositionType_VEdge_top) /\
              origin d t chain = Some (x, y).
Proof.
  intros Hok Hst. destruct (styles_along_extent d t chain st Hok Hst) as (h & w & He & He').
  destruct (chain_ctx d t chain st Hok Hst) as (x & up & par & -> & Hleaf & Hctx & H).
  destruct (style_phase_origin d t (fst x) par (snd x) st h w Hleaf Hctx H He) as (ox & oy & Ho & Hp & Ho').
  exists ox, oy. repeat split; [exact Ho | exact Hp|]. rewrite origin_cons, He', <- Ho', surj_link. reflexivity.
Qed.

Theorem styles_along_padding d t chain st : chain_ok chain = true -> styles_along d t chain = Ok st ->
  sget st p_Padding = padding d t chain.
Proof.
  intros Hok Hst. destruct (styles_along_extent d t chain st Hok Hst) as (h & w & He & He').
  destruct (styles_along_fontsize d t _ st Hok Hst) as (fs & Hfs & Hfs').
  pose proof (styles_along_writing_mode d t chain st Hok Hst) as Hwm.
  destruct (chain_ctx d t chain st Hok Hst) as (x & up & par & -> & Hleaf & Hctx & H).
  rewrite (style_phase_padding d t (fst x) par (snd x) st fs h w Hleaf Hctx H Hfs He), padding_cons, He', Hfs', Hwm, surj_link. reflexivity.
Qed.

Theorem styles_along_disparity d t chain st : chain_ok chain = true -> styles_along d t chain = Ok st ->
  sget st p_Disparity = disparity d t chain.
Proof.
  intros Hok Hst. destruct (styles_along_fontsize d t _ st Hok Hst) as (fs & Hfs & Hfs').
  destruct (chain_ctx d t chain st Hok Hst) as (x & up & par & -> & Hleaf & Hctx & H).
  rewrite (style_phase_disparity d t (fst x) par (snd x) st fs Hleaf Hctx H Hfs), disparity_cons, Hfs', surj_link. reflexivity.
Qed.

(* ---- every property ---------------------------------------------------------------------------------------------------- *)
Definition special_props : list Z :=
  [p_FontSize; p_Extent; p_Origin; p_Position; p_LineHeight; p_LinePadding; p_RubyReserve; p_TextOutline; p_TextShadow; p_TextEmphasis;
   p_Padding; p_TextDecoration; p_Direction; p_WritingMode; p_Disparity].

Lemma nonplain_cases p : In p all_props -> plain_prop p = false -> In p special_props.
Proof.
  intros Hin Ep. unfold all_props in Hin.
  repeat (destruct Hin as [<-|Hin]; [first [discriminate Ep | vm_compute; tauto] |]). destruct Hin.
Qed.

Theorem styles_along_all d t chain st p : In p all_props -> chain_ok chain = true ->
  (p = p_TextDecoration -> td_typed d t chain = true) ->
  styles_along d t chain = Ok st -> sget st p = computed_spec d t chain p.
Proof.
  intros Hin Hok Hty Hst. destruct (plain_prop p) eqn:Ep.
  - rewrite (plain_is_spec d t chain p Ep). apply (styles_along_plain d t p Ep Hin chain st Hok Hst).
  - pose proof (nonplain_cases p Hin Ep) as Hc. unfold special_props in Hc. cbn [In] in Hc.
    destruct Hc as [<-|[<-|[<-|[<-|[<-|[<-|[<-|[<-|[<-|[<-|[<-|[<-|[<-|[<-|[<-|[]]]]]]]]]]]]]]]].
    + destruct (styles_along_fontsize d t chain st Hok Hst) as (l & Hl & Hl').
      change (computed_spec d t chain p_FontSize) with (match font_size d t chain with Some l => Some (VLen l) | None => None end).
      rewrite Hl', Hl. reflexivity.
    + destruct (styles_along_extent d t chain st Hok Hst) as (h & w & He & He').
      change (computed_spec d t chain p_Extent) with (match extent d t chain with Some (h, w) => Some (VExtent h w) | None => None end).
      rewrite He', He. reflexivity.
    + destruct (styles_along_origin d t chain st Hok Hst) as (x & y & Ho & Hp & Ho').
      change (computed_spec d t chain p_Origin) with (match origin d t chain with Some (x, y) => Some (VCoord x y) | None => None end).
      rewrite Ho', Ho. reflexivity.
    + destruct (styles_along_origin d t chain st Hok Hst) as (x & y & Ho & Hp & Ho').
      change (computed_spec d t chain p_Position) with
        (match origin d t chain with Some (x, y) => Some (VPos x e_PositionType_HEdge_left y e_PositionType_VEdge_top) | None => None end).
      rewrite Ho', Hp. reflexivity.
    + apply (styles_along_font_relative d t p_LineHeight); [cbn; tauto | exact Hok | exact Hst].
    + apply (styles_along_font_relative d t p_LinePadding); [cbn; tauto | exact Hok | exact Hst].
    + apply (styles_along_font_relative d t p_RubyReserve); [cbn; tauto | exact Hok | exact Hst].
    + apply (styles_along_font_relative d t p_TextOutline); [cbn; tauto | exact Hok | exact Hst].
    + apply (styles_along_font_relative d t p_TextShadow); [cbn; tauto | exact Hok | exact Hst].
    + apply (styles_along_font_relative d t p_TextEmphasis); [cbn; tauto | exact Hok | exact Hst].
    + apply (styles_along_padding d t chain st Hok Hst).
    + apply (styles_along_text_decoration d t chain st Hok Hst (Hty eq_refl)).
    + apply (styles_along_direction d t chain st Hok Hst).
    + apply (styles_along_writing_mode d t chain st Hok Hst).
    + apply (styles_along_disparity d t chain st Hok Hst).
Qed.

(* the hypotheses are satisfiable: a body in the default region of an otherwise empty document *)
Definition ex_doc : doc := mkDoc [] None [] 15 32 1080 1920 None None [].
Definition ex_chain : list link :=
  [(mkAttrs KBody None None None None [(p_TextDecoration, VTextDec 1 (-1) (-1)); (p_LineHeight, VLen (mkLen 125 Upct))] [] false [] [], root_interval);
   (eattrs default_region, root_interval)].
Lemma ex_hypotheses : chain_ok ex_chain = true /\ td_typed ex_doc 0 ex_chain = true /\
  exists st, styles_along ex_doc 0 ex_chain = Ok st /\ sget st p_TextDecoration = Some (VTextDec 1 0 0).
Proof. split; [reflexivity|]. split; [reflexivity|]. eexists. split; vm_compute; reflexivity. Qed.
