(* C03, part 6: the inheritable properties resolved against the element's own computed font size —
   tts:lineHeight, tts:linePadding, tts:rubyReserve, tts:textOutline, tts:textShadow, tts:textEmphasis.
   Specified (or animated) on the element: %, em of its computed font size, c and px of the cell / pixel height,
   missing colours = its computed colour, emphasis `auto` by the region's writing mode.  Otherwise the parent's
   computed value (on a region: the initial value, computed). *)
From TT Require Import Model.Doc Gen.StyleTables Model.Isd Spec.IsdSpec Spec.StyleSpec.
From TT Require Import Proofs.Common.StyleFrame Proofs.C01.Display Proofs.C13.Shape Proofs.C13.Styles.
From TT Require Import Proofs.C03.Values Proofs.C03.Cascade Proofs.C03.Chain Proofs.C03.FontSize Proofs.C03.Phase Proofs.C03.Inherited
  Proofs.C03.Geometry.

Definition fr_props : list Z := [p_LineHeight; p_LinePadding; p_RubyReserve; p_TextOutline; p_TextShadow; p_TextEmphasis].

(* ---- the specification's computation with its three inputs made explicit -------------------------------------------- *)
Definition fs_rel1 (d : doc) (fs : option len) (l : len) : option len := rel l fs fs (Some (cell_h d)) (Some (pixel_h d)).
Definition ocolor1 (c col : option Z) : option Z := match c with Some x => Some x | None => col end.
Definition shadows1 (d : doc) (fs : option len) (col : option Z) :=
  fix f (l : list (len * len * option len * option Z)) : option (list (len * len * option len * option Z)) :=
    match l with
    | [] => Some []
    | (x, y, b, c) :: l' =>
        match fs_rel1 d fs x, fs_rel1 d fs y, f l' with
        | Some x', Some y', Some rest =>
            match b with
            | None => Some ((x', y', None, ocolor1 c col) :: rest)
            | Some bl => match fs_rel1 d fs bl with Some b' => Some ((x', y', Some b', ocolor1 c col) :: rest) | None => None end
            end
        | _, _, _ => None
        end
    end.
Definition cfr1 (d : doc) (fs : option len) (col : option Z) (wm : option value) (v : value) : option value :=
  match v with
  | VSpecial s => Some (VSpecial s)
  | VLen l => match fs_rel1 d fs l with Some l' => Some (VLen l') | None => None end
  | VReserve pos (Some l) => match fs_rel1 d fs l with Some l' => Some (VReserve pos (Some l')) | None => None end
  | VReserve pos None => match fs with Some f => Some (VReserve pos (Some (mkLen (Qdiv (lv f) 2) (lu f)))) | None => None end
  | VOutline c th => match fs_rel1 d fs th with Some l' => Some (VOutline (ocolor1 c col) l') | None => None end
  | VShadow ss => match shadows1 d fs col ss with Some ss' => Some (VShadow ss') | None => None end
  | VEmph style c pos =>
      let style' := if style =? e_TextEmphasisType_Style_auto
                    then (if vertical wm then e_TextEmphasisType_Style_filled_sesame else e_TextEmphasisType_Style_filled_circle)
                    else style in
      Some (VEmph style' (ocolor1 c col) pos)
  | other => Some other
  end.
Definition color_of (v : option value) : option Z := match v with Some (VColor k) => Some k | _ => None end.

Lemma cfr_spec d t p chain v :
  compute_font_relative d t p chain v = cfr1 d (font_size d t chain) (color_of (plain d t p_Color chain)) (writing_mode d t chain) v.
Proof. reflexivity. Qed.

Lemma frp_cons d t p x up :
  font_relative_prop d t p (x :: up) =
  match specified t x p with
  | Some v => compute_font_relative d t p (x :: up) v
  | None =>
      if negb (is_region x) && match up with [] => false | _ => true end then font_relative_prop d t p up
      else match default_of d p with Some v => compute_font_relative d t p (x :: up) v | None => None end
  end.
Proof. reflexivity. Qed.

(* ---- M's computation of one of the six properties ---------------------------------------------------------------------- *)
Lemma font_relative_rel d st l : font_relative d st l = match fs_rel1 d (get_len st p_FontSize) l with Some r => Ok r | None => Err errCompute end.
Proof. unfold font_relative, fs_rel1. rewrite compute_length_rel. reflexivity. Qed.

Lemma compute_shadows_spec d st : forall ss ss', compute_shadows d st ss = Ok ss' ->
  shadows1 d (get_len st p_FontSize) (get_color st p_Color) ss = Some ss'.
Proof.
  induction ss as [|[[[x y] b] c] ss IH]; intros ss' H; cbn [compute_shadows] in H; [injection H as <-; reflexivity|].
  rewrite !font_relative_rel in H. cbn [shadows1]. fold (shadows1 d (get_len st p_FontSize) (get_color st p_Color)).
  destruct (fs_rel1 d (get_len st p_FontSize) x) as [x'|]; [|discriminate H]. cbn [bind] in H.
  destruct (fs_rel1 d (get_len st p_FontSize) y) as [y'|]; [|discriminate H]. cbn [bind] in H.
  destruct b as [bl|].
  - rewrite font_relative_rel in H. destruct (fs_rel1 d (get_len st p_FontSize) bl) as [b'|]; [|discriminate H]. cbn [bind] in H.
    destruct (compute_shadows d st ss) as [rest|]; [|discriminate H]. cbn [bind] in H. injection H as <-.
    rewrite (IH rest eq_refl). reflexivity.
  - cbn [bind] in H. destruct (compute_shadows d st ss) as [rest|]; [|discriminate H]. cbn [bind] in H. injection H as <-.
    rewrite (IH rest eq_refl). reflexivity.
Qed.

Lemma compute_prop_lh d par st : compute_prop d par st p_LineHeight =
  match sget st p_LineHeight with
  | Some (VSpecial s) => Ok st
  | Some (VLen l) => bind (font_relative d st l) (fun l' => Ok (sset st p_LineHeight (VLen l')))
  | _ => Err errCompute
  end.
Proof. reflexivity. Qed.
Lemma compute_prop_lp d par st : compute_prop d par st p_LinePadding =
  match sget st p_LinePadding with
  | Some (VLen l) => bind (font_relative d st l) (fun l' => Ok (sset st p_LinePadding (VLen l')))
  | _ => Err errCompute
  end.
Proof. reflexivity. Qed.
Lemma compute_prop_rr d par st : compute_prop d par st p_RubyReserve =
  match sget st p_RubyReserve with
  | Some (VSpecial s) => Ok st
  | Some (VReserve pos (Some l)) => bind (font_relative d st l) (fun l' => Ok (sset st p_RubyReserve (VReserve pos (Some l'))))
  | Some (VReserve pos None) =>
      match get_len st p_FontSize with
      | Some fs => Ok (sset st p_RubyReserve (VReserve pos (Some (mkLen (Qdiv (lv fs) (qz 2)) (lu fs)))))
      | None => Err errCompute
      end
  | _ => Err errCompute
  end.
Proof. reflexivity. Qed.
Lemma compute_prop_to d par st : compute_prop d par st p_TextOutline =
  match sget st p_TextOutline with
  | Some (VSpecial s) => Ok st
  | Some (VOutline col t) =>
      bind (font_relative d st t) (fun t' =>
      Ok (sset st p_TextOutline (VOutline (match col with Some c => Some c | None => get_color st p_Color end) t')))
  | _ => Err errCompute
  end.
Proof. reflexivity. Qed.
Lemma compute_prop_ts d par st : compute_prop d par st p_TextShadow =
  match sget st p_TextShadow with
  | Some (VSpecial s) => Ok st
  | Some (VShadow ss) => bind (compute_shadows d st ss) (fun ss' => Ok (sset st p_TextShadow (VShadow ss')))
  | _ => Err errCompute
  end.
Proof. reflexivity. Qed.
Lemma compute_prop_te d par st : compute_prop d par st p_TextEmphasis =
  match sget st p_TextEmphasis with
  | Some (VSpecial s) => Ok st
  | Some (VEmph style col pos) =>
      let col' := match col with Some c => Some c | None => get_color st p_Color end in
      let wm := match par with Some (_, pst) => sget pst p_WritingMode | None => sget st p_WritingMode end in
      let style' := if style =? e_TextEmphasisType_Style_auto
                    then (if is_vertical wm then e_TextEmphasisType_Style_filled_sesame else e_TextEmphasisType_Style_filled_circle)
                    else style in
      Ok (sset st p_TextEmphasis (VEmph style' col' pos))
  | _ => Err errCompute
  end.
Proof. reflexivity. Qed.

Definition wm_read (par : option (kind * smap)) (st : smap) : option value :=
  match par with Some (_, pst) => sget pst p_WritingMode | None => sget st p_WritingMode end.

Lemma compute_prop_fr d par s s' p : In p fr_props -> compute_prop d par s p = Ok s' ->
  exists v, sget s p = Some v /\ sget s' p = cfr1 d (get_len s p_FontSize) (get_color s p_Color) (wm_read par s) v.
Proof.
  intros Hin H. unfold fr_props in Hin. cbn [In] in Hin.
  destruct Hin as [<-|[<-|[<-|[<-|[<-|[<-|[]]]]]]].
  - rewrite compute_prop_lh in H. destruct (sget s p_LineHeight) as [v|] eqn:E; [|discriminate H]. exists v. split; [reflexivity|].
    destruct v; try discriminate H.
    + injection H as <-. exact E.
    + rewrite font_relative_rel in H. cbn [cfr1]. destruct (fs_rel1 d _ l) as [l'|]; [|discriminate H]. cbn [bind] in H. injection H as <-. apply sget_sset_same.
  - rewrite compute_prop_lp in H. destruct (sget s p_LinePadding) as [v|] eqn:E; [|discriminate H]. exists v. split; [reflexivity|].
    destruct v; try discriminate H.
    rewrite font_relative_rel in H. cbn [cfr1]. destruct (fs_rel1 d _ l) as [l'|]; [|discriminate H]. cbn [bind] in H. injection H as <-. apply sget_sset_same.
  - rewrite compute_prop_rr in H. destruct (sget s p_RubyReserve) as [v|] eqn:E; [|discriminate H]. exists v. split; [reflexivity|].
    destruct v; try discriminate H.
    + injection H as <-. exact E.
    + destruct l as [l|].
      * rewrite font_relative_rel in H. cbn [cfr1]. destruct (fs_rel1 d _ l) as [l'|]; [|discriminate H]. cbn [bind] in H. injection H as <-. apply sget_sset_same.
      * cbn [cfr1]. destruct (get_len s p_FontSize) as [fs|]; [|discriminate H]. injection H as <-. apply sget_sset_same.
  - rewrite compute_prop_to in H. destruct (sget s p_TextOutline) as [v|] eqn:E; [|discriminate H]. exists v. split; [reflexivity|].
    destruct v; try discriminate H.
    + injection H as <-. exact E.
    + rewrite font_relative_rel in H. cbn [cfr1]. destruct (fs_rel1 d _ t) as [l'|]; [|discriminate H]. cbn [bind] in H. injection H as <-. apply sget_sset_same.
  - rewrite compute_prop_ts in H. destruct (sget s p_TextShadow) as [v|] eqn:E; [|discriminate H]. exists v. split; [reflexivity|].
    destruct v; try discriminate H.
    + injection H as <-. exact E.
    + destruct (compute_shadows d s ss) as [ss'|] eqn:Es; [|discriminate H]. cbn [bind] in H. injection H as <-.
      cbn [cfr1]. rewrite (compute_shadows_spec d s ss ss' Es). apply sget_sset_same.
  - rewrite compute_prop_te in H. destruct (sget s p_TextEmphasis) as [v|] eqn:E; [|discriminate H]. exists v. split; [reflexivity|].
    destruct v; try discriminate H.
    + injection H as <-. exact E.
    + cbv zeta in H. injection H as <-. apply sget_sset_same.
Qed.

(* ---- the six properties on one element --------------------------------------------------------------------------------- *)
Ltac fr_case q :=
  repeat split; try discriminate; try (cbn; tauto);
  exists (before q ordered_style_props), (after q ordered_style_props); split; [reflexivity|]; repeat split; notin.
Lemma fr_facts p : In p fr_props ->
  In p all_props /\ is_inherited p = true /\ p <> p_FontSize /\ p <> p_TextDecoration /\ p <> p_WritingMode /\ p <> p_Direction /\
  p <> p_Position /\ p <> p_Origin /\ p <> p_Color /\
  exists pre post, ordered_style_props = pre ++ p :: post /\ ~ In p pre /\ ~ In p post /\
                   ~ In p_FontSize post /\ ~ In p_Color post /\ ~ In p_WritingMode post.
Proof.
  intros Hin. unfold fr_props in Hin. cbn [In] in Hin.
  destruct Hin as [<-|[<-|[<-|[<-|[<-|[<-|[]]]]]]];
    [fr_case p_LineHeight | fr_case p_LinePadding | fr_case p_RubyReserve | fr_case p_TextOutline | fr_case p_TextShadow | fr_case p_TextEmphasis].
Qed.

Theorem style_phase_fr d t a par (iv : interval) st p :
  is_leaf_kind (e_kind a) = false -> style_phase d t a par iv = Ok st -> In p fr_props ->
  if pre_todo t a par iv p
  then exists v, pre_value d t a par iv p = Some v /\
                 sget st p = cfr1 d (get_len st p_FontSize) (get_color st p_Color) (wm_read par st) v
  else sget st p = pre_value d t a par iv p.
Proof.
  intros Hleaf H Hin.
  destruct (fr_facts p Hin) as (Fin & Finh & F1 & F2 & F3 & F4 & F5 & F6 & F7 & pre & post & Hord & N1 & N2 & N3 & N4 & N5).
  destruct (style_phase_at d t a par iv st _ _ _ Hleaf H Hord Fin) as (s & s' & Ha & Hb & Hf & Hz).
  assert (Hs : sget s p = pre_value d t a par iv p) by (apply (Ha p Fin N1); intros _; exact F6).
  assert (Hfin : sget st p = sget s' p) by (apply (Hz p N2); intros _; exact F6).
  destruct (pre_todo t a par iv p).
  - destruct (compute_prop_fr d par s s' p Hin Hb) as (v & Hv & Hv').
    exists v. split; [rewrite <- Hs; exact Hv|]. rewrite Hfin, Hv'.
    assert (Hdep : forall q, q <> p -> q <> p_Origin -> ~ In q post -> sget s q = sget st q).
    { intros q H1 H2 H3. rewrite (Hz q H3 (fun _ => H2)). apply eq_sym, Hf; [exact H1 | intros _; exact H2]. }
    unfold get_len, get_color, wm_read.
    rewrite (Hdep p_FontSize) by (first [congruence | discriminate | exact N3]).
    rewrite (Hdep p_Color) by (first [congruence | discriminate | exact N4]).
    destruct par as [[pk pst]|]; [reflexivity|].
    rewrite (Hdep p_WritingMode) by (first [congruence | discriminate | exact N5]). reflexivity.
  - subst s'. rewrite Hfin. exact Hs.
Qed.

(* ---- along the chain -------------------------------------------------------------------------------------------------- *)
Lemma color_plain : plain_prop p_Color = true /\ In p_Color all_props.
Proof. split; [reflexivity | cbn; tauto]. Qed.

Theorem styles_along_font_relative d t p : In p fr_props ->
  forall chain st, chain_ok chain = true -> styles_along d t chain = Ok st -> sget st p = font_relative_prop d t p chain.
Proof.
  intros Hin. destruct (fr_facts p Hin) as (Fin & Finh & F1 & F2 & F3 & F4 & F5 & F6 & F7 & _).
  destruct color_plain as [Cp Cin].
  assert (Own : forall chain st, chain_ok chain = true -> styles_along d t chain = Ok st ->
            get_len st p_FontSize = font_size d t chain /\ get_color st p_Color = color_of (plain d t p_Color chain) /\
            sget st p_WritingMode = writing_mode d t chain).
  { intros chain st Hok Hst. destruct (styles_along_fontsize d t chain st Hok Hst) as (fs & Hfs & Hfs').
    repeat split.
    - unfold get_len. rewrite Hfs, Hfs'. reflexivity.
    - unfold get_color, color_of. rewrite (styles_along_plain d t p_Color Cp Cin chain st Hok Hst). reflexivity.
    - apply (styles_along_writing_mode d t chain st Hok Hst). }
  apply (chain_ind d t (fun chain st => sget st p = font_relative_prop d t p chain)).
  - intros x st Hleaf Hk Hok Hst H. destruct (Own [x] st Hok Hst) as (O1 & O2 & O3).
    pose proof (style_phase_fr d t (fst x) None (snd x) st p Hleaf H Hin) as G.
    rewrite pre_region_todo, (pre_region_value d t _ _ _ F4), surj_link, (default_pre_of d _ F5) in G.
    destruct G as (v & Hv & G). rewrite G. unfold wm_read. rewrite O1, O2, O3, <- (cfr_spec d t p), frp_cons, andb_false_r.
    destruct (specified t x p); [injection Hv as ->; reflexivity|]. rewrite Hv. reflexivity.
  - intros x y up pst st Hleaf Hk Hupok Hok Hpst Hcomplete IH Hst H. destruct (Own _ st Hok Hst) as (O1 & O2 & O3).
    destruct (complete_get pst _ Hcomplete Fin) as (pv & Hpv).
    pose proof (style_phase_fr d t (fst x) _ (snd x) st p Hleaf H Hin) as G. unfold pre_value in G.
    rewrite (pre_content_todo t (fst x) _ pst (snd x) p Hk (Hcomplete p Fin)) in G.
    rewrite (pre_content_v3 t (fst x) _ pst (snd x) p Hk (Hcomplete p Fin)) in G.
    rewrite (inh_step_generic _ _ _ _ _ F1 F2 F3), Finh, surj_link in G.
    rewrite frp_cons. unfold is_region. rewrite Hk. cbn [negb andb].
    destruct (specified t x p) as [v0|]; cbn [is_some orb negb] in G.
    + destruct G as (v & Hv & G). injection Hv as <-. rewrite G. unfold wm_read.
      rewrite O1, O2, (styles_along_writing_mode d t _ pst Hupok Hpst), <- (writing_mode_cons d t x y up), <- (cfr_spec d t p). reflexivity.
    + rewrite Hpv in G. cbn [is_some negb] in G. rewrite G, <- IH. exact (eq_sym Hpv).
Qed.
