(* C03, part 4: the three properties with special inheritance rules and no length computation:
   tts:textDecoration (merged per component along the chain), tts:direction (follows tts:writingMode on a region),
   tts:writingMode (the region's computed value, carried down to content elements). *)
From TT Require Import Model.Doc Gen.StyleTables Model.Isd Spec.IsdSpec Spec.StyleSpec.
From TT Require Import Proofs.Common.StyleFrame Proofs.C01.Display Proofs.C13.Shape Proofs.C13.Styles.
From TT Require Import Proofs.C03.Values Proofs.C03.Cascade Proofs.C03.Chain Proofs.C03.FontSize Proofs.C03.Phase.

(* a property that is not computed keeps the value the earlier passes gave it *)
Lemma style_phase_uncomputed d t a par iv st p :
  is_leaf_kind (e_kind a) = false -> style_phase d t a par iv = Ok st -> In p all_props ->
  ~ In p ordered_style_props -> p <> p_Origin -> sget st p = pre_value d t a par iv p.
Proof.
  intros Hleaf H Hin Hno Ho. destruct (style_phase_pre d t a par iv st Hleaf H) as (st4 & todo4 & Hc & Hpre).
  rewrite (compute_styles_frame d par todo4 p _ _ _ Hc Hno (fun _ => Ho)). apply (Hpre p Hin).
Qed.

Lemma complete_get pst p : complete pst -> In p all_props -> exists v, sget pst p = Some v.
Proof. intros Hc Hin. specialize (Hc p Hin). unfold shas in Hc. destruct (sget pst p) as [v|]; [exists v; reflexivity | discriminate]. Qed.

(* ---- tts:textDecoration ---------------------------------------------------------------------------------------------- *)
Lemma td_facts : In p_TextDecoration all_props /\ ~ In p_TextDecoration ordered_style_props /\ p_TextDecoration <> p_Origin /\
  p_TextDecoration <> p_Direction /\ p_TextDecoration <> p_Position /\ sget initial_values p_TextDecoration = Some (VTextDec 0 0 0).
Proof. repeat split; try discriminate; try (cbn; tauto). notin. Qed.

Lemma text_decoration_cons d t x y up :
  text_decoration d t (x :: y :: up) =
  match text_decoration d t (y :: up), specified t x p_TextDecoration with
  | Some (VTextDec pu pl po), Some (VTextDec u l o) => Some (VTextDec (merge3 u pu) (merge3 l pl) (merge3 o po))
  | Some pv, None => Some pv
  | _, _ => None
  end.
Proof. reflexivity. Qed.

Lemma td_typed_cons d t x up : td_typed d t (x :: up) = true ->
  is_td_o (specified t x p_TextDecoration) = true /\ td_typed d t up = true.
Proof.
  unfold td_typed. cbn [forallb]. intros H. apply andb_true_iff in H as [H1 H2]. apply andb_true_iff in H2 as [H2 H3].
  split; [exact H2 | rewrite H1, H3; reflexivity].
Qed.

Lemma td_shape d t : forall chain, td_typed d t chain = true -> is_td_o (text_decoration d t chain) = true.
Proof.
  destruct td_facts as (_ & _ & _ & _ & _ & Finit).
  induction chain as [|x up IH]; intros H; [reflexivity|].
  pose proof H as H0. apply td_typed_cons in H as [Hx Hup]. destruct up as [|y up'].
  - cbn [text_decoration]. destruct (specified t x p_TextDecoration) as [v|]; [exact Hx|].
    unfold default_of. unfold td_typed in H0. apply andb_true_iff in H0 as [Hi _].
    destruct (sget (d_initials d) p_TextDecoration); [exact Hi | rewrite Finit; reflexivity].
  - rewrite text_decoration_cons. specialize (IH Hup).
    destruct (text_decoration d t (y :: up')) as [[]|]; try reflexivity; try discriminate IH.
    destruct (specified t x p_TextDecoration) as [[]|]; reflexivity.
Qed.

Theorem styles_along_text_decoration d t : forall chain st, chain_ok chain = true -> styles_along d t chain = Ok st ->
  td_typed d t chain = true -> sget st p_TextDecoration = text_decoration d t chain.
Proof.
  destruct td_facts as (Fin & Fno & Fo & Fd & Fp & Finit).
  apply (chain_ind d t (fun chain st => td_typed d t chain = true -> sget st p_TextDecoration = text_decoration d t chain)).
  - intros x st Hleaf Hk _ _ H _.
    rewrite (style_phase_uncomputed d t (fst x) None (snd x) st _ Hleaf H Fin Fno Fo), (pre_region_value d t _ _ _ Fd), surj_link, (default_pre_of d _ Fp).
    reflexivity.
  - intros x y up pst st Hleaf Hk _ _ _ Hcomplete IH _ H Hty. apply td_typed_cons in Hty as [Hx Hup]. specialize (IH Hup).
    pose proof (td_shape d t (y :: up) Hup) as Hshape. rewrite <- IH in Hshape.
    destruct (complete_get pst _ Hcomplete Fin) as (pv & Hpv). rewrite Hpv in Hshape, IH.
    rewrite (style_phase_uncomputed d t (fst x) _ (snd x) st _ Hleaf H Fin Fno Fo). unfold pre_value.
    rewrite (pre_content_v3 t (fst x) _ pst (snd x) _ Hk (Hcomplete _ Fin)), surj_link, text_decoration_cons, <- IH.
    unfold inh_step. change (p_TextDecoration =? p_FontSize) with false. rewrite Z.eqb_refl, Hpv. cbv iota.
    destruct pv; try discriminate Hshape. unfold merge3.
    destruct (specified t x p_TextDecoration) as [[]|]; try discriminate Hx; reflexivity.
Qed.

(* ---- tts:direction ------------------------------------------------------------------------------------------------- *)
Lemma dir_facts : In p_Direction all_props /\ ~ In p_Direction ordered_style_props /\ p_Direction <> p_Origin /\
  p_Direction <> p_Position /\ p_Direction <> p_FontSize /\ p_Direction <> p_TextDecoration /\ p_Direction <> p_WritingMode /\
  is_inherited p_Direction = true.
Proof. repeat split; try discriminate; try (cbn; tauto). notin. Qed.

Lemma direction_cons d t x y up :
  direction d t (x :: y :: up) =
  match specified t x p_Direction with
  | Some v => Some v
  | None => if is_region x then default_of d p_Direction else direction d t (y :: up)
  end.
Proof. reflexivity. Qed.

Lemma inh_step_generic k pk pst p o :
  p <> p_FontSize -> p <> p_TextDecoration -> p <> p_WritingMode ->
  inh_step k pk pst p o = if is_inherited p then match o with Some v => Some v | None => sget pst p end else o.
Proof.
  intros H1 H2 H3. unfold inh_step.
  destruct (p =? p_FontSize) eqn:E1; [apply Z.eqb_eq in E1; congruence|].
  destruct (p =? p_TextDecoration) eqn:E2; [apply Z.eqb_eq in E2; congruence|].
  destruct (p =? p_WritingMode) eqn:E3; [apply Z.eqb_eq in E3; congruence|]. reflexivity.
Qed.

Theorem styles_along_direction d t : forall chain st, chain_ok chain = true -> styles_along d t chain = Ok st ->
  sget st p_Direction = direction d t chain.
Proof.
  destruct dir_facts as (Fin & Fno & Fo & Fp & F1 & F2 & F3 & Finh).
  apply (chain_ind d t (fun chain st => sget st p_Direction = direction d t chain)).
  - intros x st Hleaf Hk _ _ H.
    rewrite (style_phase_uncomputed d t (fst x) None (snd x) st _ Hleaf H Fin Fno Fo).
    unfold pre_value, pre_v3, pre_v2, fired, dir_special. rewrite Hk, Z.eqb_refl. cbn [kind_eqb andb direction].
    rewrite plain_cons, andb_false_r, surj_link, (default_pre_of d _ Fp). unfold shas.
    destruct (sget (e_styles (fst x)) p_Direction); cbn [negb is_some]; [reflexivity|].
    destruct (sget (e_styles (fst x)) p_WritingMode) as [[w| | | | | | | | | | | | | |]|]; cbn [is_some]; try reflexivity.
    destruct (w =? e_WritingModeType_lrtb); cbn [is_some]; [reflexivity|].
    destruct (w =? e_WritingModeType_rltb); cbn [is_some]; reflexivity.
  - intros x y up pst st Hleaf Hk _ _ _ Hcomplete IH _ H.
    destruct (complete_get pst _ Hcomplete Fin) as (pv & Hpv).
    rewrite (style_phase_uncomputed d t (fst x) _ (snd x) st _ Hleaf H Fin Fno Fo). unfold pre_value.
    rewrite (pre_content_v3 t (fst x) _ pst (snd x) _ Hk (Hcomplete _ Fin)), surj_link, direction_cons, <- IH.
    rewrite (inh_step_generic _ _ _ _ _ F1 F2 F3), Finh. unfold is_region. rewrite Hk.
    destruct (specified t x p_Direction); [reflexivity|]. rewrite Hpv. reflexivity.
Qed.

(* ---- tts:writingMode ------------------------------------------------------------------------------------------------- *)
Lemma wm_facts : In p_WritingMode all_props /\ ~ In p_WritingMode ordered_style_props /\ p_WritingMode <> p_Origin /\
  p_WritingMode <> p_Position /\ p_WritingMode <> p_Direction /\ inheritable p_WritingMode = false.
Proof. repeat split; try discriminate; try (cbn; tauto). notin. Qed.

Lemma region_link_cons x y up : region_link (x :: y :: up) = region_link (y :: up).
Proof.
  unfold region_link. cbn [rev]. destruct (rev up ++ [y]) as [|r l] eqn:E; [|reflexivity].
  apply app_eq_nil in E as [_ E]. discriminate E.
Qed.
Lemma writing_mode_cons d t x y up : writing_mode d t (x :: y :: up) = writing_mode d t (y :: up).
Proof. unfold writing_mode. rewrite region_link_cons. reflexivity. Qed.

Theorem styles_along_writing_mode d t : forall chain st, chain_ok chain = true -> styles_along d t chain = Ok st ->
  sget st p_WritingMode = writing_mode d t chain.
Proof.
  destruct wm_facts as (Fin & Fno & Fo & Fp & Fd & Finh).
  apply (chain_ind d t (fun chain st => sget st p_WritingMode = writing_mode d t chain)).
  - intros x st Hleaf Hk _ _ H.
    rewrite (style_phase_uncomputed d t (fst x) None (snd x) st _ Hleaf H Fin Fno Fo), (pre_region_value d t _ _ _ Fd), surj_link, (default_pre_of d _ Fp).
    unfold writing_mode, region_link. cbn [rev app]. rewrite plain_cons, Finh. reflexivity.
  - intros x y up pst st Hleaf Hk _ _ _ Hcomplete IH _ H.
    destruct (complete_get pst _ Hcomplete Fin) as (pv & Hpv).
    rewrite (style_phase_uncomputed d t (fst x) _ (snd x) st _ Hleaf H Fin Fno Fo). unfold pre_value.
    rewrite (pre_content_v3 t (fst x) _ pst (snd x) _ Hk (Hcomplete _ Fin)), writing_mode_cons, <- IH.
    unfold inh_step. change (p_WritingMode =? p_FontSize) with false. change (p_WritingMode =? p_TextDecoration) with false.
    rewrite Z.eqb_refl, Hpv. reflexivity.
Qed.
