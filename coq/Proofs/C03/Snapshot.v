(* C03, part 8: whole snapshots.  Every element M puts into a snapshot (other than br and text nodes) carries, for every
   property applicable to its kind, the computed value the specification gives for the source element of its kind and
   xml:id along its ancestor chain in the document. *)
From TT Require Import Model.Doc Gen.StyleTables Model.Isd Spec.IsdSpec Spec.IsdShape Spec.StyleSpec.
From TT Require Import Proofs.Common.ElemInd Proofs.Common.StyleFrame Proofs.C01.Leaves Proofs.C01.Lwsp Proofs.C01.Display Proofs.C13.Shape Proofs.C13.Styles.
From TT Require Import Proofs.C03.Values Proofs.C03.Cascade Proofs.C03.Chain Proofs.C03.FontSize Proofs.C03.Phase Proofs.C03.Inherited
  Proofs.C03.Geometry Proofs.C03.FontRelative Proofs.C03.All.

(* ---- predicates on attributes (in Prop) that do not look at the text, over all elements of a tree -------------------------- *)
Section AttrProp.
  Variable Q : attrs -> Prop.
  Hypothesis Q_text : forall a t,
    Q a -> Q (mkAttrs (e_kind a) (e_id a) (e_begin a) (e_end a) (e_region a) (e_styles a) (e_anims a) (e_preserve a) (e_lang a) t).
  Definition allq (e : elem) : Prop := Forall (fun x => Q (eattrs x)) (all_elems e).

  Lemma allq_node a cs : allq (Elem a cs) <-> Q a /\ Forall allq cs.
  Proof.
    unfold allq. rewrite all_elems_node, Forall_cons_iff. cbn [eattrs].
    assert (G : Forall (fun x => Q (eattrs x)) (flat_map all_elems cs) <-> Forall (fun e => Forall (fun x => Q (eattrs x)) (all_elems e)) cs).
    { induction cs as [|c cs IH]; cbn [flat_map]; [split; constructor|]. rewrite Forall_app, Forall_cons_iff, IH. reflexivity. }
    rewrite G. reflexivity.
  Qed.

  Lemma assign_texts_allq : forall e ts, allq e -> allq (fst (assign_texts e ts)).
  Proof.
    induction e as [a cs IH] using elem_ind2. intros ts H. rewrite assign_node. apply allq_node in H as [Ha Hcs].
    assert (Hl : forall ts, Forall allq (fst (assign_list cs ts))).
    { clear ts. induction cs as [|c cs IHcs]; intros ts; [constructor|]. inversion IH as [|? ? Hc Hrest]; subst.
      inversion Hcs as [|? ? Hc1 Hcs1]; subst. cbn [assign_list]. specialize (Hc ts Hc1).
      destruct (assign_texts c ts) as [c' ts1]. cbn [fst] in Hc.
      specialize (IHcs Hrest Hcs1 ts1). destruct (assign_list cs ts1) as [l'' ts2]. cbn [fst] in *. constructor; assumption. }
    destruct (e_kind a) eqn:Ek; cbn [skips_text_list fst];
      try (apply allq_node; split; assumption);
      try (specialize (Hl ts); destruct (assign_list cs ts) as [cs' ts']; cbn [fst] in *; apply allq_node; split; assumption).
    destruct (is_nonempty (e_text a)); cbn [fst]; apply allq_node; split; try assumption. rewrite <- Ek. apply Q_text. exact Ha.
  Qed.

  Lemma prune_allq : forall e, allq e -> allq (prune_empty e).
  Proof.
    induction e as [a cs IH] using elem_ind2. rewrite prune_empty_node. intros H. apply allq_node in H as [Ha Hcs]. apply allq_node. split; [exact Ha|].
    induction cs as [|c cs IHcs]; [constructor|]. inversion IH as [|? ? Hc Hrest]; subst. inversion Hcs as [|? ? Hc1 Hcs1]; subst.
    rewrite prune_list_cons. cbv zeta.
    match goal with |- Forall allq (if ?b then _ else _) => destruct b end; [apply IHcs; assumption|].
    constructor; [apply Hc; exact Hc1 | apply IHcs; assumption].
  Qed.
  Lemma prune_list_allq cs : Forall allq cs -> Forall allq (prune_list cs).
  Proof.
    induction cs as [|c cs IHcs]; intros Hcs; [constructor|]. inversion Hcs as [|? ? Hc1 Hcs1]; subst.
    rewrite prune_list_cons. cbv zeta.
    match goal with |- Forall allq (if ?b then _ else _) => destruct b end; [apply IHcs; assumption|].
    constructor; [apply prune_allq; exact Hc1 | apply IHcs; assumption].
  Qed.

  Lemma lwsp_children_allq a cs : Forall allq cs -> Forall allq (lwsp_children a cs).
  Proof.
    intros H. unfold lwsp_children. rewrite prune_empty_node. cbn [echildren]. apply prune_list_allq.
    rewrite assign_children_list.
    generalize (process_lwsp (collect_children a cs)). induction cs as [|c cs IHcs]; intros ts; [constructor|].
    inversion H as [|? ? H1 H2]; subst. cbn [assign_list].
    pose proof (assign_texts_allq c ts H1) as Hc. destruct (assign_texts c ts) as [c' ts1]. cbn [fst] in Hc.
    specialize (IHcs H2 ts1). destruct (assign_list cs ts1) as [l'' ts2]. cbn [fst] in *. constructor; assumption.
  Qed.

  Lemma finish_element_allq a st children r :
    Q (isd_attrs a (strip_inapplicable (e_kind a) st)) -> Forall allq children -> finish_element a st children = Ok (Some r) -> allq r.
  Proof.
    unfold finish_element. intros Hpa Hc H.
    destruct (negb (push_children_ok (e_kind a) children) && is_nonempty_l children); [discriminate|].
    set (children' := match e_kind a with
                      | KP | KRt | KRp | KRtc => match children with [] => [] | _ => lwsp_children (isd_attrs a st) children end
                      | _ => children end) in H.
    assert (Hc' : Forall allq children').
    { unfold children'. destruct (e_kind a); try exact Hc; (destruct children; [constructor | apply lwsp_children_allq; exact Hc]). }
    assert (Hn : allq (Elem (isd_attrs a (strip_inapplicable (e_kind a) st)) children')) by (apply allq_node; split; assumption).
    destruct (keep_always (e_kind a)); [injection H as <-; exact Hn|].
    destruct children'; [|injection H as <-; exact Hn].
    destruct (e_kind a); try discriminate.
    destruct (sget (strip_inapplicable KRegion st) p_ShowBackground) as [v|]; [|discriminate].
    destruct v; try discriminate. destruct (tag =? e_ShowBackgroundType_always); [injection H as <-; exact Hn | discriminate].
  Qed.
End AttrProp.

(* ---- the chains of the document and the chains M walks ----------------------------------------------------------------------- *)
Lemma chains_of_node piv acc a cs :
  chains_of piv acc (Elem a cs) =
  ((a, resolve piv (e_begin a) (e_end a)) :: acc) ::
  flat_map (chains_of (resolve piv (e_begin a) (e_end a)) ((a, resolve piv (e_begin a) (e_end a)) :: acc)) cs.
Proof.
  reflexivity.
Qed.

Lemma content_wf_node a cs : content_wf (Elem a cs) = true ->
  kind_eqb (e_kind a) KRegion = false /\ (is_leaf_kind (e_kind a) = true -> cs = []) /\ Forall (fun c => content_wf c = true) cs.
Proof.
  cbn [content_wf]. intros H. apply andb_true_iff in H as [H H3]. apply andb_true_iff in H as [H1 H2]. apply negb_true_iff in H1.
  repeat split; [exact H1| |].
  - intros Hl. destruct (e_kind a); cbn [is_leaf_kind] in Hl; try discriminate; destruct cs; try discriminate; reflexivity.
  - clear H1 H2. induction cs as [|c cs IH]; [constructor|]. apply andb_true_iff in H3 as [Hc Hr]. constructor; [exact Hc | apply IH; exact Hr].
Qed.

Lemma applicable_props_spec k p : In p (applicable_props k) <-> applicable k p = true.
Proof. apply applicable_to_spec. Qed.
Lemma applicable_props_all k p : In p (applicable_props k) -> In p all_props.
Proof. apply applicable_in_all. Qed.

Section Snapshot.
  Variables (d : doc) (t : Q).
  Hypothesis Htyped : doc_td_typed d t.

  Lemma elem_resolved_text a txt : elem_resolved d t a ->
    elem_resolved d t (mkAttrs (e_kind a) (e_id a) (e_begin a) (e_end a) (e_region a) (e_styles a) (e_anims a) (e_preserve a) (e_lang a) txt).
  Proof. intros H. exact H. Qed.

  (* the attributes M builds from the style phase of the head of a chain of the document *)
  Lemma resolved_out r x up st :
    In r (source_regions d) -> In (x :: up) (doc_chains d r) -> chain_ok (x :: up) = true -> styles_along d t (x :: up) = Ok st ->
    elem_resolved d t (isd_attrs (fst x) (strip_inapplicable (e_kind (fst x)) st)).
  Proof.
    intros Hr Hin Hok Hst. unfold elem_resolved. cbn [isd_attrs e_kind e_id e_styles].
    assert (G : exists r0 x0 up0, In r0 (source_regions d) /\ In (x0 :: up0) (doc_chains d r0) /\ e_kind (fst x0) = e_kind (fst x) /\
                  e_id (fst x0) = e_id (fst x) /\
                  forall p, In p (applicable_props (e_kind (fst x))) ->
                            sget (strip_inapplicable (e_kind (fst x)) st) p = computed_spec d t (x0 :: up0) p).
    { exists r, x, up. repeat split; try assumption. intros p Hp. rewrite sget_strip.
      pose proof Hp as Hp'. apply applicable_props_spec in Hp'. rewrite Hp'.
      apply (styles_along_all d t (x :: up) st p (applicable_props_all _ p Hp) Hok (fun _ => Htyped r _ Hr Hin) Hst). }
    destruct (e_kind (fst x)); try exact I; exact G.
  Qed.

  (* content elements: processed below the head y of a chain of the document whose style map is pst *)
  Lemma proc_resolved sel r : In r (source_regions d) ->
    forall e inh y up pst pb pe piv res,
      content_wf e = true ->
      (forall b e', make_absolute b e' pb pe = resolve piv b e') ->
      chain_ok (y :: up) = true -> styles_along d t (y :: up) = Ok pst ->
      (forall c, In c (chains_of piv (y :: up) e) -> In c (doc_chains d r)) ->
      proc d t sel inh (Some (e_kind (fst y), pst)) pb pe e = Ok (Some res) -> allq (elem_resolved d t) res.
  Proof.
    intros Hr. induction e as [a cs IH] using elem_ind2. intros inh y up pst pb pe piv res Hwf Hiv Hok Hst Hsub H.
    apply content_wf_node in Hwf as (Hnr & Hleafcs & Hwfcs).
    cbn [proc] in H. rewrite Hiv in H. set (iv := resolve piv (e_begin a) (e_end a)) in *.
    destruct (negb (active_at t iv)); [discriminate|].
    match type of H with (if ?b then _ else _) = _ => destruct b end; [discriminate|].
    destruct (style_phase d t a (Some (e_kind (fst y), pst)) iv) as [st|] eqn:Est; [|discriminate]. cbn [bind] in H.
    destruct (display_none st); [discriminate|].
    match type of H with bind ?g _ = _ => destruct g as [children|] eqn:Eg end; [|discriminate]. cbn [bind] in H.
    rewrite chains_of_node in Hsub. fold iv in Hsub.
    assert (Hhead : In ((a, iv) :: y :: up) (doc_chains d r)) by (apply Hsub; left; reflexivity).
    destruct (is_leaf_kind (e_kind a)) eqn:Eleaf.
    - (* br / text: no children, nothing to show *)
      rewrite (Hleafcs eq_refl) in Eg. injection Eg as <-.
      apply (finish_element_allq (elem_resolved d t) elem_resolved_text a st [] res); [|constructor | exact H].
      unfold elem_resolved. cbn [isd_attrs e_kind]. destruct (e_kind a); cbn [is_leaf_kind] in Eleaf; try discriminate; exact I.
    - assert (Hok' : chain_ok ((a, iv) :: y :: up) = true).
      { change (chain_ok ((a, iv) :: y :: up)) with (negb (is_leaf_kind (e_kind a)) && (negb (kind_eqb (e_kind a) KRegion) && chain_ok (y :: up))).
        rewrite Eleaf, Hnr, Hok. reflexivity. }
      assert (Hst' : styles_along d t ((a, iv) :: y :: up) = Ok st) by (rewrite styles_along_cons, Hst; cbn [bind fst snd]; exact Est).
      apply (finish_element_allq (elem_resolved d t) elem_resolved_text a st children res); [|clear H | exact H].
      + apply (resolved_out r (a, iv) (y :: up) st Hr Hhead Hok' Hst').
      + assert (Hsubc : forall c0, In c0 (flat_map (chains_of iv ((a, iv) :: y :: up)) cs) -> In c0 (doc_chains d r))
          by (intros c0 Hc0; apply Hsub; right; exact Hc0).
        clear Hsub Hhead. revert children Eg. induction cs as [|c cs IHcs]; intros children Eg.
        * injection Eg as <-. constructor.
        * inversion IH as [|? ? Hc Hcs]; subst. inversion Hwfcs as [|? ? Hw1 Hw2]; subst.
          match type of Eg with bind ?g _ = _ => destruct g as [rc|] eqn:Ec end; [|discriminate]. cbn [bind] in Eg.
          match type of Eg with bind ?g _ = _ => destruct g as [rs|] eqn:Er end; [|discriminate]. cbn [bind] in Eg. injection Eg as <-.
          assert (Hrs : Forall (allq (elem_resolved d t)) rs).
          { apply (IHcs Hcs); [intros Hl; discriminate (Hleafcs Hl) | exact Hw2 | | reflexivity].
            intros c0 Hc0. apply Hsubc. cbn [flat_map]. apply in_or_app. right. exact Hc0. }
          destruct rc as [x0|]; [|exact Hrs]. constructor; [|exact Hrs].
          refine (Hc _ (a, iv) (y :: up) st (Some (fst iv)) (snd iv) iv x0 Hw1 _ Hok' Hst' _ Ec).
          -- intros b e'. rewrite make_absolute_resolve. destruct iv; reflexivity.
          -- intros c0 Hc0. apply Hsubc. cbn [flat_map]. apply in_or_app. left. exact Hc0.
  Qed.

  Lemma proc_region_resolved sel r res : styles_wf d = true -> In r (source_regions d) -> e_kind (eattrs r) = KRegion ->
    proc_region d t sel r = Ok (Some res) -> allq (elem_resolved d t) res.
  Proof.
    intros Hwf Hr Hk H. unfold proc_region in H. rewrite make_absolute_root in H.
    destruct (negb (active_at t _)); [discriminate|].
    destruct (style_phase d t (eattrs r) None _) as [st|] eqn:Est; [|discriminate]. cbn [bind] in H.
    destruct (display_none st); [discriminate|].
    match type of H with bind ?g _ = _ => destruct g as [children|] eqn:Eg end; [|discriminate]. cbn [bind] in H.
    assert (Hhead : In [region_link_of r] (doc_chains d r)) by (left; reflexivity).
    assert (Hok : chain_ok [region_link_of r] = true) by (cbn [chain_ok region_link_of fst]; rewrite Hk; reflexivity).
    assert (Hst : styles_along d t [region_link_of r] = Ok st) by exact Est.
    apply (finish_element_allq (elem_resolved d t) elem_resolved_text (eattrs r) st children res); [| | exact H].
    - apply (resolved_out r (region_link_of r) [] st Hr Hhead Hok Hst).
    - destruct (d_body d) as [b|] eqn:Eb; [|injection Eg as <-; constructor].
      destruct (proc d t sel None _ None None b) as [[x|]|] eqn:Ep; cbn [bind] in Eg; try discriminate; injection Eg as <-; [|constructor].
      constructor; [|constructor].
      assert (Hwb : content_wf b = true).
      { unfold styles_wf in Hwf. apply andb_true_iff in Hwf as [_ Hwf]. rewrite Eb in Hwf. exact Hwf. }
      rewrite <- Hk in Ep.
      apply (proc_resolved sel r Hr b None (region_link_of r) [] st None None root_interval x Hwb); try assumption.
      + intros b0 e'. apply make_absolute_root.
      + intros c Hc. unfold doc_chains. rewrite Eb. right. exact Hc.
  Qed.

  Theorem isd_resolved rs : styles_wf d = true -> isd d t = Ok rs -> Forall (allq (elem_resolved d t)) rs.
  Proof.
    intros Hwf H.
    assert (G : forall l, (forall x o, In x l -> x = Ok (Some o) -> allq (elem_resolved d t) o) ->
                          forall rs, collect_regions l = Ok rs -> Forall (allq (elem_resolved d t)) rs).
    { induction l as [|x l IH]; intros Hall rs' Hc; cbn [collect_regions] in Hc; [injection Hc as <-; constructor|].
      destruct x as [o|]; [|discriminate]. cbn [bind] in Hc. destruct (collect_regions l) as [xs|] eqn:E; [|discriminate].
      cbn [bind] in Hc. injection Hc as <-.
      assert (Hxs : Forall (allq (elem_resolved d t)) xs) by (apply IH; [intros y o' Hy; apply Hall; right; exact Hy | reflexivity]).
      destruct o as [e|]; [|exact Hxs]. constructor; [|exact Hxs]. apply (Hall (Ok (Some e)) e (or_introl eq_refl) eq_refl). }
    unfold isd in H. destruct (d_regions d) as [|r0 rest] eqn:Er.
    - apply (G _) in H; [exact H|]. intros x o [<-|[]] Hx.
      apply (proc_region_resolved None default_region o Hwf); [unfold source_regions; rewrite Er; left; reflexivity | reflexivity | exact Hx].
    - apply (G _) in H; [exact H|]. intros x o Hin Hx. apply in_map_iff in Hin as (r & <- & Hr).
      apply (proc_region_resolved (e_id (eattrs r)) r o Hwf); [unfold source_regions; rewrite Er; exact Hr | | exact Hx].
      unfold styles_wf in Hwf. apply andb_true_iff in Hwf as [Hwf _]. rewrite Er in Hwf. rewrite forallb_forall in Hwf.
      apply kind_eqb_eq. apply Hwf. exact Hr.
  Qed.
End Snapshot.

Theorem snapshot_values : forall d t rs, doc_td_typed d t -> styles_wf d = true -> isd d t = Ok rs ->
  Forall (fun r' => Forall (fun x => elem_resolved d t (eattrs x)) (all_elems r')) rs.
Proof. intros d t rs Hty Hwf H. exact (isd_resolved d t Hty rs Hwf H). Qed.

(* the hypotheses are satisfiable: a document with one vertical region and an emphasised span *)
Definition ex_snap_doc : doc :=
  mkDoc [Elem (mkAttrs KRegion (Some [114; 49]) None None None [(p_WritingMode, VEnum e_WritingModeType_tbrl)] [] false [] []) []]
        (Some (Elem (mkAttrs KBody (Some [98]) None None None [] [] false [] [])
           [Elem (mkAttrs KDiv (Some [100]) None None (Some [114; 49]) [] [] false [] [])
              [Elem (mkAttrs KP (Some [112]) None None None [] [] false [] [])
                 [Elem (mkAttrs KSpan (Some [115]) None None None
                          [(p_TextEmphasis, VEmph e_TextEmphasisType_Style_auto None e_TextEmphasisType_Position_outside)] [] false [] [])
                    [Elem (mkAttrs KText None None None None [] [] false [] [120]) []]]]]))
        [] 15 32 1080 1920 None None [].
Lemma ex_snap_typed : doc_td_typed ex_snap_doc 0.
Proof.
  intros r chain Hr Hc. cbn in Hr. destruct Hr as [<-|[]]. cbn in Hc.
  repeat (destruct Hc as [<-|Hc]; [reflexivity|]). destruct Hc.
Qed.
Lemma ex_snap_ok : styles_wf ex_snap_doc = true /\ exists rs, isd ex_snap_doc 0 = Ok rs /\ rs <> [].
Proof. split; [reflexivity|]. eexists. split; [vm_compute; reflexivity | discriminate]. Qed.
Lemma ex_snap_hypotheses : doc_td_typed ex_snap_doc 0 /\ styles_wf ex_snap_doc = true /\ exists rs, isd ex_snap_doc 0 = Ok rs /\ rs <> [].
Proof. exact (conj ex_snap_typed ex_snap_ok). Qed.
