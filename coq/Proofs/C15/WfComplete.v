(* C15: the executable checker is complete: WF h -> wf_b h = true, hence wf_b h = true <-> WF h; and the
   executable form of the representation invariant is equivalent to it. *)
From Coq Require Import List Arith Bool Lia.
From TT Require Import Base.HeapTypes Model.Heap Model.HeapRep Spec.ModelWF
  Proofs.C15.HeapLemmas Proofs.C15.Links Proofs.C15.Tree Proofs.C15.Frames Proofs.C15.LinkOps Proofs.C15.Values
  Proofs.C15.Dfs Proofs.C15.Users Proofs.C15.AttrCalls Proofs.C15.LinkCalls Proofs.C15.SetDoc Proofs.C15.Step Proofs.C15.Atomic
  Proofs.C15.Fuel Proofs.C15.WfSound.
Import ListNotations.

Lemma forallb_seq_intro (f : nat -> bool) n : (forall i, i < n -> f i = true) -> forallb f (seq 0 n) = true.
Proof. intro H. apply forallb_forall. intros i Hi. apply in_seq in Hi. apply H. lia. Qed.
Lemma oeq_refl a : oeq a a = true.
Proof. unfold oeq. destruct (onat_eq_dec a a); congruence. Qed.
Lemma oeq_of a b : a = b -> oeq a b = true.
Proof. intros ->. apply oeq_refl. Qed.
Lemma ref_ok_b_of h o : ref_ok h o -> ref_ok_b h o = true.
Proof. destruct o; simpl; [apply Nat.ltb_lt|auto]. Qed.
Lemma dref_ok_b_of h o : dref_ok h o -> dref_ok_b h o = true.
Proof. destruct o; simpl; [apply Nat.ltb_lt|auto]. Qed.

Lemma closed_b_complete h : Closed h -> closed_b h = true.
Proof.
  intros [C1 C2]. unfold closed_b. apply andb_true_iff. split; apply forallb_seq_intro.
  - intros i Hi. destruct (C1 i Hi) as (R1 & R2 & R3 & R4 & R5 & R6 & R7). cbv zeta.
    rewrite !(ref_ok_b_of _ _ R1), !(ref_ok_b_of _ _ R2), !(ref_ok_b_of _ _ R3), !(ref_ok_b_of _ _ R4), !(ref_ok_b_of _ _ R5),
      !(ref_ok_b_of _ _ R6), !(dref_ok_b_of _ _ R7); try reflexivity.
  - intros d Hd. destruct (C2 d Hd) as [B1 B2]. rewrite (ref_ok_b_of _ _ B1). simpl.
    apply forallb_forall. intros [id r] Hin. simpl. apply Nat.ltb_lt. eapply B2; eauto.
Qed.

(* the specification's own list walk is the model's *)
Lemma follow_walk h : forall fuel cur, follow h fuel cur = walk h fuel cur.
Proof.
  induction fuel as [|k IH]; intros [c|]; simpl; try reflexivity; try (rewrite IH; destruct (walk h k (n_next (nd h c))); reflexivity).
Qed.
Lemma chain_b_complete h p : forall cs pv, Chain h p pv cs -> chain_b h p pv cs = true.
Proof.
  induction cs as [|c t IH]; intros pv H; simpl in *; [reflexivity|].
  destruct H as (H1 & H2 & H3 & H4 & H5). rewrite (proj2 (Nat.ltb_lt _ _) H1), (oeq_of _ _ H2), (oeq_of _ _ H3), (oeq_of _ _ H4), (IH _ H5). reflexivity.
Qed.
Lemma nodup_b_complete l : NoDup l -> nodup_b l = true.
Proof.
  induction 1 as [|x t NI ND IH]; simpl; [reflexivity|]. rewrite IH, andb_true_r. apply negb_true_iff.
  destruct (mem x t) eqn:M; [|reflexivity]. apply mem_In in M. contradiction.
Qed.
Lemma children_b_complete h p cs : Children h p cs -> children_b h p = Some cs.
Proof.
  intro C. pose proof (Children_kids _ _ _ C) as K. destruct C as (H1 & H2 & H3 & H4 & H5).
  unfold children_b. rewrite follow_walk. unfold kids in K. rewrite K.
  rewrite (oeq_of _ _ H2), (chain_b_complete _ _ _ _ H3), (nodup_b_complete _ H4). simpl.
  assert (A : forallb (fun c => negb (oeq (n_parent (nd h c)) (Some p)) || mem c cs) (nodes_of h) = true).
  { apply forallb_seq_intro. intros c Hc. unfold oeq. destruct (onat_eq_dec (n_parent (nd h c)) (Some p)) as [E|]; [|reflexivity].
    simpl. apply mem_In. apply H5; assumption. }
  rewrite A. reflexivity.
Qed.

Lemma lookup_In_fst (l : list (nat * nat)) k v : In (k, v) l -> NoDup (map fst l) -> lookup l k = Some v.
Proof.
  induction l as [|[a b] t IH]; simpl; [intros []|]. intros [E|Hin] ND; inversion ND as [|? ? NI ND']; subst.
  - injection E as -> ->. rewrite Nat.eqb_refl. reflexivity.
  - destruct (Nat.eqb_spec k a) as [->|N]; [|apply IH; assumption].
    exfalso. apply NI. change a with (fst (a, v)). apply in_map. exact Hin.
Qed.
Lemma all_valid_b_complete l : all_valid l -> all_valid_b l = true.
Proof. intro A. unfold all_valid_b. apply forallb_forall. intros [p v] Hin. simpl. apply A. exact Hin. Qed.

Theorem wf_b_complete h : WF h -> wf_b h = true.
Proof.
  intros ((C & K & R) & A & D & Ct & (W1 & W2 & W3) & (V1 & V2)). unfold wf_b.
  assert (L : links_b h = true).
  { unfold links_b. rewrite (closed_b_complete h C). simpl. apply andb_true_iff. split; apply forallb_seq_intro.
    - intros p Hp. destruct (K p Hp) as [cs Cs]. rewrite (children_b_complete _ _ _ Cs). reflexivity.
    - intros c Hc. destruct (n_parent (nd h c)) eqn:E; [reflexivity|]. destruct (R c Hc E) as [-> ->]. reflexivity. }
  assert (AC : acyclic_b h = true).
  { unfold acyclic_b. apply forallb_seq_intro. intros i Hi. destruct (has_Path h C A i Hi) as (l & P & B).
    apply (climb_total h i l P). lia. }
  assert (DB : doc_b h = true).
  { unfold doc_b. apply forallb_seq_intro. intros c Hc. destruct (n_parent (nd h c)) as [p|] eqn:E; [|reflexivity].
    apply oeq_of. apply D; assumption. }
  assert (CB : content_b h = true).
  { unfold content_b. apply forallb_seq_intro. intros p Hp. destruct (K p Hp) as [cs Cs].
    rewrite (children_b_complete _ _ _ Cs). apply Ct; assumption. }
  assert (RB : regions_b h = true).
  { unfold regions_b. apply andb_true_iff. split; apply forallb_seq_intro.
    - intros i Hi. destruct (n_region (nd h i)) as [r|] eqn:E; [|reflexivity].
      destruct (W1 i r Hi E) as [Cp (d & id & E1 & E2 & E3)]. rewrite Cp, E1, E2, E3. simpl. apply oeq_refl.
    - intros d Hd. rewrite (nodup_b_complete _ (W3 d Hd)), andb_true_r. apply forallb_forall. intros [id r] Hin. simpl.
      pose proof (lookup_In_fst _ _ _ Hin (W3 d Hd)) as E. rewrite E. destruct (W2 d id r Hd E) as [Kr Ir].
      rewrite Kr, Ir. simpl. apply oeq_refl. }
  assert (VB : values_b h = true).
  { unfold values_b. apply andb_true_iff. split; apply forallb_seq_intro.
    - intros i Hi. destruct (V1 i Hi) as [S1 S2]. rewrite (all_valid_b_complete _ S1), (all_valid_b_complete _ S2). reflexivity.
    - intros d Hd. apply all_valid_b_complete. apply V2. exact Hd. }
  rewrite L, AC, DB, CB, RB, VB. reflexivity.
Qed.

Theorem wf_b_iff h : wf_b h = true <-> WF h.
Proof. split; [apply wf_b_sound|apply wf_b_complete]. Qed.

(* ---- the representation invariant ---- *)
Lemma users_b_iff h : users_b h = true <-> UsersOK h.
Proof.
  unfold users_b, UsersOK. split.
  - intros H r i Hr. pose proof (forallb_seq _ _ H r Hr) as Q. apply andb_true_iff in Q. destruct Q as [Q1 Q2]. split.
    + intro Hin. rewrite forallb_forall in Q1. specialize (Q1 i Hin). apply andb_true_iff in Q1. destruct Q1 as [A B].
      split; [apply Nat.ltb_lt; exact A|apply onat_eqb_true; exact B].
    + intros [Hi E]. pose proof (forallb_seq _ _ Q2 i Hi) as Q. simpl in Q. rewrite (proj2 (onat_eqb_true _ _) E) in Q. simpl in Q.
      apply existsb_eqb_In. exact Q.
  - intro H. apply forallb_seq_intro. intros r Hr. apply andb_true_iff. split.
    + apply forallb_forall. intros i Hin. apply (H r i Hr) in Hin. destruct Hin as [A B].
      rewrite (proj2 (Nat.ltb_lt _ _) A), (proj2 (onat_eqb_true _ _) B). reflexivity.
    + apply forallb_seq_intro. intros i Hi. destruct (onat_eqb (n_region (nd h i)) (Some r)) eqn:E; [|reflexivity]. simpl.
      apply existsb_eqb_In. apply (H r i Hr). split; [exact Hi|apply onat_eqb_true; exact E].
Qed.
Lemma region_ids_b_iff h : region_ids_b h = true <-> RegionIds h.
Proof.
  unfold region_ids_b, RegionIds. split.
  - intros H i Hi Ki. pose proof (forallb_seq _ _ H i Hi) as Q. simpl in Q. rewrite Ki, kind_eqb_refl in Q. simpl in Q.
    apply is_some_true. exact Q.
  - intro H. apply forallb_seq_intro. intros i Hi. destruct (kind_eqb (n_kind (nd h i)) KRegion) eqn:E; [|reflexivity]. simpl.
    apply is_some_true. apply H; [exact Hi|apply kind_eqb_true; exact E].
Qed.
Theorem rep_b_iff h : rep_b h = true <-> Rep h.
Proof. unfold rep_b, Rep. rewrite andb_true_iff, users_b_iff, region_ids_b_iff. reflexivity. Qed.
