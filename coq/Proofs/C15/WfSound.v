(* C15: the executable checker is sound: wf_b h = true -> WF h. *)
From Coq Require Import List Arith Bool Lia.
From TT Require Import Base.HeapTypes Spec.ModelWF Proofs.C15.HeapLemmas Proofs.C15.Links.
Import ListNotations.

Lemma forallb_seq (f : nat -> bool) n : forallb f (seq 0 n) = true -> forall i, i < n -> f i = true.
Proof. intros H i Hi. rewrite forallb_forall in H. apply H. apply in_seq. lia. Qed.

Lemma oeq_true a b : oeq a b = true -> a = b.
Proof. unfold oeq. destruct (onat_eq_dec a b); [auto|discriminate]. Qed.
Lemma ref_ok_b_true h o : ref_ok_b h o = true -> ref_ok h o.
Proof. destruct o; simpl; [apply Nat.ltb_lt|auto]. Qed.
Lemma dref_ok_b_true h o : dref_ok_b h o = true -> dref_ok h o.
Proof. destruct o; simpl; [apply Nat.ltb_lt|auto]. Qed.

Lemma closed_b_sound h : closed_b h = true -> Closed h.
Proof.
  unfold closed_b. intro H. apply andb_true_iff in H. destruct H as [H1 H2]. split.
  - intros i Hi. pose proof (forallb_seq _ _ H1 i Hi) as B. cbv zeta in B.
    repeat (apply andb_true_iff in B; destruct B as [B ?]).
    repeat split; first [apply ref_ok_b_true | apply dref_ok_b_true]; assumption.
  - intros d Hd. pose proof (forallb_seq _ _ H2 d Hd) as B. apply andb_true_iff in B. destruct B as [B1 B2].
    split; [apply ref_ok_b_true; exact B1|]. intros id r Hin. rewrite forallb_forall in B2.
    specialize (B2 (id, r) Hin). simpl in B2. apply Nat.ltb_lt. exact B2.
Qed.

Lemma follow_hd h : forall fuel cur cs, follow h fuel cur = Some cs -> cur = hd_error cs.
Proof.
  intros fuel cur cs. destruct cur as [c|]; [|destruct fuel; simpl; intros [= <-]; reflexivity].
  destruct fuel; simpl; [discriminate|]. destruct (follow h fuel (n_next (nd h c))); [|discriminate]. intros [= <-]. reflexivity.
Qed.
Lemma chain_b_sound h p : forall cs pv, chain_b h p pv cs = true -> Chain h p pv cs.
Proof.
  induction cs as [|c t IH]; intros pv H; simpl in *; [exact I|].
  repeat (apply andb_true_iff in H; destruct H as [H ?]).
  repeat split; try (apply oeq_true; assumption); [apply Nat.ltb_lt; assumption|apply IH; assumption].
Qed.
Lemma mem_In x l : mem x l = true <-> In x l.
Proof. apply existsb_eqb_In. Qed.
Lemma nodup_b_sound l : nodup_b l = true -> NoDup l.
Proof.
  induction l as [|x t IH]; simpl; intro H; [constructor|]. apply andb_true_iff in H. destruct H as [H1 H2].
  constructor; [|apply IH; exact H2]. intro Hin. apply mem_In in Hin. rewrite Hin in H1. discriminate.
Qed.
Lemma children_b_sound h p cs : children_b h p = Some cs -> Children h p cs.
Proof.
  unfold children_b. destruct (follow h (S (nnodes h)) (n_first (nd h p))) as [l|] eqn:F; [|discriminate].
  match goal with |- context [if ?c then _ else _] => destruct c eqn:B end; [|discriminate]. intros [= <-].
  repeat (apply andb_true_iff in B; destruct B as [B ?]).
  unfold Children. repeat split.
  - eapply follow_hd; eauto.
  - apply oeq_true. assumption.
  - apply chain_b_sound. assumption.
  - apply nodup_b_sound. assumption.
  - intros c Hc E. match goal with H : forallb _ (nodes_of h) = true |- _ => pose proof (forallb_seq _ _ H c Hc) as Q end.
    simpl in Q. apply orb_true_iff in Q. destruct Q as [Q|Q]; [|apply mem_In; exact Q].
    apply negb_true_iff in Q. unfold oeq in Q. destruct (onat_eq_dec _ _); [discriminate|contradiction].
Qed.

Lemma climb_sound h : forall fuel i, climb h fuel i = true -> Rooted h i.
Proof.
  induction fuel as [|k IH]; intros i H; simpl in H; destruct (n_parent (nd h i)) as [p|] eqn:E.
  - discriminate.
  - apply Rooted_root. exact E.
  - eapply Rooted_step; [exact E|apply IH; exact H].
  - apply Rooted_root. exact E.
Qed.

Lemma lookup_In l k v : lookup l k = Some v -> In (k, v) l.
Proof.
  induction l as [|[a b] t IH]; simpl; [discriminate|]. destruct (Nat.eqb_spec k a) as [->|N].
  - intros [= ->]. left; reflexivity.
  - intro H. right. apply IH. exact H.
Qed.
Lemma all_valid_b_sound l : all_valid_b l = true -> all_valid l.
Proof. unfold all_valid_b, all_valid. rewrite forallb_forall. intros H p v Hin. apply (H (p, v) Hin). Qed.

Theorem wf_b_sound h : wf_b h = true -> WF h.
Proof.
  unfold wf_b. intro H. repeat (apply andb_true_iff in H; destruct H as [H ?]).
  rename H into HL. rename H0 into HV. rename H1 into HR. rename H2 into HC. rename H3 into HD. rename H4 into HA.
  unfold links_b in HL. repeat (apply andb_true_iff in HL; destruct HL as [HL ?]).
  refine (conj (conj _ (conj _ _)) (conj _ (conj _ (conj _ (conj _ _))))).
  - apply closed_b_sound. unfold closed_b. apply andb_true_iff. split; assumption.
  - intros p Hp. match goal with H : forallb (fun p => match children_b h p with _ => _ end) _ = true |- _ => pose proof (forallb_seq _ _ H p Hp) as Q end.
    simpl in Q. destruct (children_b h p) as [cs|] eqn:E; [|discriminate]. exists cs. apply children_b_sound. exact E.
  - intros c Hc E. match goal with H : forallb (fun c => match n_parent (nd h c) with _ => _ end) _ = true |- _ => pose proof (forallb_seq _ _ H c Hc) as Q end.
    simpl in Q. rewrite E in Q. apply andb_true_iff in Q. destruct Q as [Q1 Q2]. split; apply oeq_true; assumption.
  - intros i Hi. unfold acyclic_b in HA. eapply climb_sound. apply (forallb_seq _ _ HA i Hi).
  - intros c p Hc E. unfold doc_b in HD. pose proof (forallb_seq _ _ HD c Hc) as Q. simpl in Q. rewrite E in Q. apply oeq_true. exact Q.
  - intros p cs Hp C. unfold content_b in HC. pose proof (forallb_seq _ _ HC p Hp) as Q. simpl in Q.
    destruct (children_b h p) as [cs0|] eqn:E; [|discriminate]. apply children_b_sound in E.
    rewrite (Children_unique _ _ _ _ C E). exact Q.
  - unfold regions_b in HR. apply andb_true_iff in HR. destruct HR as [R1 R2]. split; [|split].
    + intros i r Hi E. pose proof (forallb_seq _ _ R1 i Hi) as Q. simpl in Q. rewrite E in Q.
      apply andb_true_iff in Q. destruct Q as [Q1 Q2]. split; [exact Q1|].
      destruct (n_doc (nd h i)) as [d|]; [|discriminate]. destruct (n_id (nd h r)) as [id|]; [|discriminate].
      exists d, id. repeat split. apply oeq_true. exact Q2.
    + intros d id r Hd E. pose proof (forallb_seq _ _ R2 d Hd) as Q. simpl in Q. apply andb_true_iff in Q. destruct Q as [Q _].
      rewrite forallb_forall in Q. specialize (Q (id, r) (lookup_In _ _ _ E)). simpl in Q. rewrite E in Q.
      apply andb_true_iff in Q. destruct Q as [Q1 Q2]. split; [|apply oeq_true; exact Q2].
      destruct (kind_eq_dec (n_kind (nd h r)) KRegion); [assumption|discriminate].
    + intros d Hd. pose proof (forallb_seq _ _ R2 d Hd) as Q. simpl in Q. apply andb_true_iff in Q. destruct Q as [_ Q].
      apply nodup_b_sound. exact Q.
  - unfold values_b in HV. apply andb_true_iff in HV. destruct HV as [V1 V2]. split.
    + intros i Hi. pose proof (forallb_seq _ _ V1 i Hi) as Q. simpl in Q. apply andb_true_iff in Q. destruct Q as [Q1 Q2].
      split; apply all_valid_b_sound; assumption.
    + intros d Hd. apply all_valid_b_sound. apply (forallb_seq _ _ V2 d Hd).
Qed.
