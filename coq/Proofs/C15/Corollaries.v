(* C15: statements exported to Properties/C15.v that are direct consequences of the link and tree layers *)
From Coq Require Import List Arith Bool.
From TT Require Import Base.HeapTypes Model.Heap Spec.ModelWF Proofs.C15.HeapLemmas Proofs.C15.Links Proofs.C15.Tree.
Import ListNotations.

Lemma push_child_dll h s c cs :
  s < nnodes h -> c < nnodes h -> Children h s cs -> n_parent (nd h c) = None ->
  Children (push_heap h s c) s (cs ++ [c]) /\
  forall p l, p <> s -> Children h p l -> Children (push_heap h s c) p l.
Proof.
  intros Hs Hc C R. split; [apply push_Children_self; assumption|].
  intros p l Hp Cl. eapply push_Children_other; eauto.
Qed.
Lemma remove_child_dll h s c a b :
  s < nnodes h -> Children h s (a ++ c :: b) ->
  Children (remove_heap h s c) s (a ++ b) /\
  forall p l, p <> s -> Children h p l -> Children (remove_heap h s c) p l.
Proof.
  intros Hs C. split; [apply remove_Children_self; assumption|].
  intros p l Hp Cl. eapply remove_Children_other; eauto.
Qed.
Lemma WF_no_cycle h i : WF h -> i < nnodes h -> ~ up h i i.
Proof. intros (_ & A & _) Hi. apply Rooted_no_cycle. apply A. exact Hi. Qed.
