(* C15: Ruby.push_children / Rtc.push_children are all-or-nothing: when a child of the list is rejected
   the children pushed before it are removed again and the model is exactly what it was. *)
From Coq Require Import List Arith Bool Lia.
From TT Require Import Base.HeapTypes Model.Heap Model.HeapRep Spec.ModelWF
  Proofs.C15.HeapLemmas Proofs.C15.Links Proofs.C15.Tree Proofs.C15.Frames Proofs.C15.LinkOps Proofs.C15.Values
  Proofs.C15.Dfs Proofs.C15.Users Proofs.C15.AttrCalls Proofs.C15.LinkCalls Proofs.C15.SetDoc Proofs.C15.Step Proofs.C15.Atomic.
Import ListNotations.

(* a node = its links + everything else *)
Definition rest (n : node) : node := set_parent None (set_first None (set_last None (set_next None (set_prev None n)))).
Lemma node_lk_rest a b : lk a = lk b -> rest a = rest b -> a = b.
Proof.
  destruct a, b. unfold lk, rest. simpl. intros E1 E2. injection E1 as -> -> -> -> ->.
  injection E2. intros. subst. reflexivity.
Qed.
Lemma heap_ext h h' : nnodes h' = nnodes h -> (forall j, nd h' j = nd h j) -> h_docs h' = h_docs h -> h' = h.
Proof.
  destruct h as [ns ds], h' as [ns' ds']. unfold nnodes, nd. simpl. intros L E ->. f_equal.
  apply (nth_ext ns' ns dnode dnode); [exact L|]. intros; apply E.
Qed.

Section Inv5.
  Context {X : Type} (pi : node -> X).
  Hypothesis P1 : forall v n, pi (set_parent v n) = pi n.
  Hypothesis P2 : forall v n, pi (set_prev v n) = pi n.
  Hypothesis P3 : forall v n, pi (set_next v n) = pi n.
  Hypothesis P4 : forall v n, pi (set_first v n) = pi n.
  Hypothesis P5 : forall v n, pi (set_last v n) = pi n.

  Lemma each_push_same s : forall l h h', each (fun h c => ce_push_child h s c) l h = ROk h' -> same pi h h' /\ h_docs h' = h_docs h.
  Proof.
    induction l as [|c t IH]; intros h h' E; simpl in E; [injection E as <-; split; [apply same_refl|reflexivity]|].
    apply bind_ok in E. destruct E as (h1 & P & E). destruct (IH h1 h' E) as [S1 D1].
    destruct (push_size h h1 s c P) as [_ D0]. split; [|congruence].
    eapply same_trans; [apply (push_same h h1 s c P); assumption|exact S1].
  Qed.
  Lemma each_remove_same s : forall l h h', WFx h -> s < nnodes h -> Children h s l ->
    each (fun h c => ce_remove_child h s c) l h = ROk h' -> same pi h h' /\ h_docs h' = h_docs h.
  Proof.
    induction l as [|c t IH]; intros h h' WX Hs C E; simpl in E; [injection E as <-; split; [apply same_refl|reflexivity]|].
    assert (P : ce_remove_child h s c = ROk (remove_heap h s c)).
    { unfold ce_remove_child. rewrite (Children_kids _ _ _ C). simpl. rewrite Nat.eqb_refl. reflexivity. }
    rewrite P in E. simpl in E.
    destruct (remove_WFx_Children h _ s c WX Hs P) as (WX1 & HN & SK & a & b & C0 & CS & CO).
    pose proof (Children_unique _ _ _ _ C C0) as EQ.
    assert (a = [] /\ b = t) as [-> ->].
    { destruct C as (_ & _ & _ & ND & _). destruct a as [|x a'].
      - simpl in EQ. injection EQ as ->. auto.
      - simpl in EQ. injection EQ as E1 Et. exfalso. inversion ND as [|? ? NI ND']; subst. apply NI. rewrite in_app_iff. right; left; reflexivity. }
    simpl in CS. destruct (IH _ h' WX1 ltac:(rewrite HN; exact Hs) CS E) as [S1 D1].
    split; [|rewrite D1; apply (remove_docs h s c [] t C0)].
    eapply same_trans; [|exact S1]. intro j. apply (remove_heap_other h s c [] t C0); assumption.
  Qed.
End Inv5.

(* the child lists of the other elements survive pushes and removals under s *)
Lemma each_push_other s : forall l h h' cs0, WFx h -> s < nnodes h -> (forall x, In x l -> x < nnodes h) ->
  Children h s cs0 -> each (fun h c => ce_push_child h s c) l h = ROk h' ->
  forall p cs, p <> s -> Children h p cs -> Children h' p cs.
Proof.
  induction l as [|c t IH]; intros h h' cs0 WX Hs Hl C E p cs Np Cp; simpl in E; [injection E as <-; exact Cp|].
  apply bind_ok in E. destruct E as (h1 & P & E).
  assert (Hc : c < nnodes h) by (apply Hl; left; reflexivity).
  pose proof (push_WFx h h1 s c cs0 WX Hs Hc C P) as WX1.
  destruct (push_Children' h h1 s c cs0 Hs Hc C P) as [CS CO].
  destruct (push_size h h1 s c P) as [HN _].
  apply (IH h1 h' (cs0 ++ [c]) WX1); auto; [rewrite HN; exact Hs|intros x Hx; rewrite HN; apply Hl; right; exact Hx].
Qed.
Lemma each_remove_other s : forall l h h', WFx h -> s < nnodes h -> Children h s l ->
  each (fun h c => ce_remove_child h s c) l h = ROk h' ->
  forall p cs, p <> s -> Children h p cs -> Children h' p cs.
Proof.
  induction l as [|c t IH]; intros h h' WX Hs C E p cs Np Cp; simpl in E; [injection E as <-; exact Cp|].
  assert (P : ce_remove_child h s c = ROk (remove_heap h s c)).
  { unfold ce_remove_child. rewrite (Children_kids _ _ _ C). simpl. rewrite Nat.eqb_refl. reflexivity. }
  rewrite P in E. simpl in E.
  destruct (remove_WFx_Children h _ s c WX Hs P) as (WX1 & HN & SK & a & b & C0 & CS & CO).
  pose proof (Children_unique _ _ _ _ C C0) as EQ.
  assert (a = [] /\ b = t) as [-> ->].
  { destruct C as (_ & _ & _ & ND & _). destruct a as [|x a'].
    - simpl in EQ. injection EQ as ->. auto.
    - simpl in EQ. injection EQ as E1 Et. exfalso. inversion ND as [|? ? NI ND']; subst. apply NI. rewrite in_app_iff. right; left; reflexivity. }
  simpl in CS. apply (IH _ h' WX1 ltac:(rewrite HN; exact Hs) CS E p cs Np). apply CO; assumption.
Qed.

(* two heaps with the same child lists have the same links *)
Lemma lk_determined h h2 : nnodes h2 = nnodes h -> WFx h -> WFx h2 ->
  (forall p l, p < nnodes h -> Children h p l -> Children h2 p l) ->
  forall j, j < nnodes h -> lk (nd h2 j) = lk (nd h j).
Proof.
  intros HN (C & K & R & _) (C2 & K2 & R2 & _) T j Hj.
  destruct (K j Hj) as [cs Cj]. pose proof (T j cs Hj Cj) as Cj2.
  destruct Cj as (F & L & _), Cj2 as (F2 & L2 & _).
  assert (PNP : n_parent (nd h2 j) = n_parent (nd h j) /\ n_next (nd h2 j) = n_next (nd h j) /\ n_prev (nd h2 j) = n_prev (nd h j)).
  { destruct (n_parent (nd h j)) as [p|] eqn:Ep.
    - assert (Hp : p < nnodes h) by (destruct C as [C1 _]; destruct (C1 j Hj) as (Rp & _); rewrite Ep in Rp; exact Rp).
      destruct (K p Hp) as [cp Cp]. pose proof (T p cp Hp Cp) as Cp2.
      assert (Hin : In j cp) by (destruct Cp as (_ & _ & _ & _ & A); apply A; assumption).
      destruct (in_split _ _ Hin) as (a & b & ->).
      destruct (rm_seg h p j a b Cp) as (_ & _ & Q1 & Q2 & Q3 & _).
      destruct (rm_seg h2 p j a b Cp2) as (_ & _ & Q1' & Q2' & Q3' & _). rewrite Q1', Q2', Q3', Q2, Q3. auto.
    - destruct (R j Hj Ep) as [-> ->].
      destruct (n_parent (nd h2 j)) as [p2|] eqn:Ep2.
      + exfalso. assert (Hp2 : p2 < nnodes h).
        { rewrite <- HN. destruct C2 as [C1 _]. destruct (C1 j ltac:(rewrite HN; exact Hj)) as (Rp & _). rewrite Ep2 in Rp. exact Rp. }
        destruct (K p2 Hp2) as [cp Cp]. pose proof (T p2 cp Hp2 Cp) as Cp2.
        assert (Hin : In j cp) by (destruct Cp2 as (_ & _ & _ & _ & A); apply A; [rewrite HN; exact Hj|exact Ep2]).
        destruct (Children_member _ _ _ _ Cp Hin) as [_ Q]. congruence.
      + destruct (R2 j ltac:(rewrite HN; exact Hj) Ep2) as [-> ->]. auto. }
  destruct PNP as (Q1 & Q2 & Q3). unfold lk. rewrite Q1, Q2, Q3, F, F2, L, L2. reflexivity.
Qed.

Lemma nd_out h j : nnodes h <= j -> nd h j = dnode.
Proof. intro H. unfold nd. apply nth_overflow. exact H. Qed.

Lemma push_all_or_undo_atomic h s cs undo h' e : WF h -> s < nnodes h -> (forall x, In x cs -> x < nnodes h) ->
  n_first (nd h s) = None -> (forall h', nnodes h' = nnodes h -> undo h' = remove_children h' s) ->
  push_all_or_undo h s cs undo = RErr h' e -> h' = h.
Proof.
  intros HW Hs Hcs F U. unfold push_all_or_undo.
  destruct (WF_kids h s HW Hs) as [cs0 C0]. apply (Children_nil_first _ _ _ C0) in F. subst cs0.
  destruct (each (fun h' c => ce_push_child h' s c) cs h) as [h1|h1 e1] eqn:E; [discriminate|].
  destruct (each_push_prefix s cs h h1 e1 E) as (l1 & l2 & -> & E1).
  assert (Hl1 : forall x, In x l1 -> x < nnodes h) by (intros x Hx; apply Hcs; apply in_app_iff; left; exact Hx).
  pose proof (WF_WFx h HW) as WX0.
  destruct (each_push_ok s l1 h h1 [] WX0 Hs Hl1 C0 (WF_ContentExcept h s HW) E1) as (WX & CS & CE & SK & HN).
  simpl in CS. assert (Hs1 : s < nnodes h1) by (rewrite HN; exact Hs).
  rewrite (U h1 HN). unfold remove_children. rewrite (Children_kids _ _ _ CS).
  destruct (each_remove_ok s l1 h1 WX Hs1 CS CE) as (h2 & E2 & WX2 & CS2 & CE2 & SK2 & HN2).
  rewrite E2. intros [= <- _].
  destruct (each_push_same rest ltac:(reflexivity) ltac:(reflexivity) ltac:(reflexivity) ltac:(reflexivity) ltac:(reflexivity) s l1 h h1 E1) as [R1 D1].
  destruct (each_remove_same rest ltac:(reflexivity) ltac:(reflexivity) ltac:(reflexivity) ltac:(reflexivity) ltac:(reflexivity) s l1 h1 h2 WX Hs1 CS E2) as [R2 D2].
  assert (HN' : nnodes h2 = nnodes h) by congruence.
  apply heap_ext; [exact HN'| |congruence].
  intro j. destruct (lt_dec j (nnodes h)) as [Hj|Hj]; [|rewrite !nd_out by lia; reflexivity].
  apply node_lk_rest; [|rewrite R2; apply R1].
  apply (lk_determined h h2 HN' WX0 WX2); [|exact Hj].
  intros p l Hp Cp. destruct (Nat.eq_dec p s) as [->|Np].
  - rewrite (Children_unique _ _ _ _ Cp C0). exact CS2.
  - apply (each_remove_other s l1 h1 h2 WX Hs1 CS E2 p l Np).
    apply (each_push_other s l1 h h1 [] WX0 Hs Hl1 C0 E1 p l Np Cp).
Qed.

Theorem push_children_atomic h s cs e : Inv h -> ordered_kind (kind_of h s) = true ->
  snd (step h (CPushChildren s cs)) = ORaised e -> fst (step h (CPushChildren s cs)) = h.
Proof.
  intros [HW HR] OK. unfold step. destruct (call_ok h (CPushChildren s cs)) eqn:CO; [|reflexivity]. cbn [fst snd exec].
  cbn [call_ok] in CO. apply andb_true_iff in CO. destruct CO as [Hs Hcs]. unfold node_ok in Hs. apply ltb_lt' in Hs.
  assert (Hcs' : forall x, In x cs -> x < nnodes h) by (intros x Hx; rewrite forallb_forall in Hcs; apply ltb_lt'; apply (Hcs x Hx)).
  destruct (push_children h s cs) as [h1|h1 e1] eqn:E; [discriminate|]. intros _. simpl.
  unfold push_children in E. destruct (kind_of h s) eqn:K; try discriminate OK.
  - destruct (is_some (n_first (nd h s))) eqn:F; [injection E as <- _; reflexivity|].
    destruct (negb _); [injection E as <- _; reflexivity|]. apply is_some_false in F.
    eapply push_all_or_undo_atomic; eauto. reflexivity.
  - destruct (negb _); [injection E as <- _; reflexivity|].
    destruct (is_some (n_first (nd h s))) eqn:F; [injection E as <- _; reflexivity|]. apply is_some_false in F.
    rewrite (kids_no_first' _ _ F) in E. eapply push_all_or_undo_atomic; eauto.
    intros h' _. unfold remove_children. destruct (kids h' s); reflexivity.
Qed.

