(* the proof cone of C15 *)
From TT Require Export Base.HeapTypes Model.Heap Model.HeapTriggers Spec.ModelWF Proofs.C15.Values.
