(* the proof cone of C15 *)
From TT Require Export Base.HeapTypes Model.Heap Model.HeapRep Spec.ModelWF
  Proofs.C15.HeapLemmas Proofs.C15.Values Proofs.C15.Links Proofs.C15.Tree Proofs.C15.Frames Proofs.C15.LinkOps
  Proofs.C15.Content Proofs.C15.Users Proofs.C15.LinkCalls Proofs.C15.Dfs Proofs.C15.AttrCalls Proofs.C15.SetDoc Proofs.C15.Step
  Proofs.C15.Atomic Proofs.C15.PushAtomic Proofs.C15.DocCopy Proofs.C15.Fuel Proofs.C15.WfSound Proofs.C15.WfComplete Proofs.C15.Corollaries.
