(* C15: the calls that change the tree (push_child, push_children, remove, remove_child,
   remove_children) preserve WF. *)
From Coq Require Import List Arith Bool Lia.
From TT Require Import Base.HeapTypes Model.Heap Model.HeapRep Spec.ModelWF
  Proofs.C15.HeapLemmas Proofs.C15.Links Proofs.C15.Tree Proofs.C15.Frames Proofs.C15.LinkOps Proofs.C15.Content Proofs.C15.Users.
Import ListNotations.

Lemma map_kind_same h h' cs : same n_kind h h' -> map (fun c => n_kind (nd h' c)) cs = map (fun c => n_kind (nd h c)) cs.
Proof. intro S. apply map_ext. intro; apply S. Qed.

Lemma walk_None' h fuel : walk h fuel None = Some [].
Proof. destruct fuel; reflexivity. Qed.
Lemma kids_no_first' h s : n_first (nd h s) = None -> kids h s = Some [].
Proof. intro E. unfold kids. rewrite E. apply walk_None'. Qed.

Lemma Children_nil_first h s cs : Children h s cs -> (n_first (nd h s) = None <-> cs = []).
Proof. intros (H1 & _). rewrite H1. destruct cs; simpl; split; intros; congruence. Qed.

(* the kinds of the first and last child, as the Rtc guard reads them *)
Lemma okind_first h s cs : Children h s cs -> okind h (n_first (nd h s)) = hd_error (map (fun c => n_kind (nd h c)) cs).
Proof. intros (H1 & _). rewrite H1. destruct cs; reflexivity. Qed.
Lemma last_map {A B} (f : A -> B) (l : list A) d d' : l <> [] -> last (map f l) d' = f (last l d).
Proof.
  induction l as [|x t IH]; [congruence|]. intros _. destruct t as [|y t']; [reflexivity|].
  change (last (map f (x :: y :: t')) d') with (last (map f (y :: t')) d').
  change (last (x :: y :: t') d) with (last (y :: t') d). apply IH. discriminate.
Qed.
Lemma okind_last h s cs : Children h s cs ->
  okind h (n_last (nd h s)) = match map (fun c => n_kind (nd h c)) cs with [] => None | _ :: _ => Some (last (map (fun c => n_kind (nd h c)) cs) KText) end.
Proof.
  intros (_ & H2 & _). rewrite H2. destruct cs as [|x t]; [reflexivity|].
  unfold last_error, okind, option_map, kind_of.
  rewrite <- (last_map (fun c => n_kind (nd h c)) (x :: t) 0 KText) by discriminate. reflexivity.
Qed.

Lemma push_guard_None h s c cs : Children h s cs -> push_guard h s c = None ->
  simple_guard (kind_of h s) (kind_of h c) = true \/
  (kind_of h s = KRtc /\ rtc_guard (map (fun c => n_kind (nd h c)) cs) (kind_of h c) = true).
Proof.
  intros C G. unfold push_guard in G. destruct (kind_of h s) eqn:K; try discriminate G;
    try (left; cbn [simple_guard]; revert G; destruct (kind_in _ _); [reflexivity|discriminate]).
  right. split; [reflexivity|]. unfold rtc_guard. rewrite <- (okind_first _ _ _ C).
  revert G. destruct (okind_is KRp _ || negb _); [discriminate|reflexivity].
Qed.

Section OneStep.
  Variables (h : heap) (s : nat).
  Hypothesis HW : WF h.
  Hypothesis Hs : s < nnodes h.

  Lemma WF_WFx : WFx h. Proof. apply WF_split in HW. tauto. Qed.
  Lemma WF_content_at : forall p, p < nnodes h -> ContentAt h p. Proof. apply WF_split in HW. tauto. Qed.
  Lemma WF_ContentExcept : ContentExcept h s. Proof. intros p Hp _. apply WF_content_at. exact Hp. Qed.
  Lemma WF_kids : exists cs, Children h s cs. Proof. destruct WF_WFx as (_ & K & _). apply K. exact Hs. Qed.

  Theorem push_child_WF c : c < nnodes h -> WF (heap_of (push_child h s c)).
  Proof.
    intros Hc. unfold push_child. destruct (push_guard h s c) eqn:G; [exact HW|].
    destruct (ce_push_child h s c) as [h'|h' e] eqn:P; [|rewrite (ce_push_child_err _ _ _ _ _ P); exact HW].
    simpl. destruct WF_kids as [cs C].
    pose proof (push_WFx h h' s c cs WF_WFx Hs Hc C P) as WX.
    destruct (push_Children' h h' s c cs Hs Hc C P) as [CS CO].
    destruct (push_size h h' s c P) as [HN _].
    assert (SK : same n_kind h h') by (apply (push_same h h' s c P); reflexivity).
    apply WF_split. split; [exact WX|]. intros p Hp. destruct (Nat.eq_dec p s) as [->|Np].
    - intros cs' C'. rewrite (Children_unique _ _ _ _ C' CS). rewrite SK, (map_kind_same _ _ _ SK), map_app. simpl.
      pose proof (WF_content_at s Hs cs C) as A.
      destruct (push_guard_None _ _ _ _ C G) as [SG|[KR RG]].
      + apply allowed_snoc_simple; assumption.
      + unfold kind_of in KR. rewrite KR in *. simpl. simpl in A. apply rtc_push; [exact A|exact RG].
    - apply (push_ContentExcept h h' s c cs WF_WFx Hs Hc C P WF_ContentExcept p Hp Np).
  Qed.

  Theorem remove_child_WF c : WF (heap_of (remove_child h s c)).
  Proof.
    unfold remove_child.
    assert (G : forall (NR : n_kind (nd h s) <> KRuby) (NT : n_kind (nd h s) <> KRtc), WF (heap_of (ce_remove_child h s c))).
    { intros NR NT. destruct (ce_remove_child h s c) as [h'|h' e] eqn:P; [|rewrite (ce_remove_child_err _ _ _ _ _ P); exact HW].
      simpl. destruct (remove_WFx_Children h h' s c WF_WFx Hs P) as (WX & HN & SK & a & b & C & CS & CO).
      apply WF_split. split; [exact WX|]. intros p Hp. destruct (Nat.eq_dec p s) as [->|Np].
      - intros cs' C'. rewrite (Children_unique _ _ _ _ C' CS). rewrite SK, (map_kind_same _ _ _ SK), map_app.
        pose proof (WF_content_at s Hs _ C) as A. rewrite map_app in A. simpl in A.
        eapply allowed_remove; eauto.
      - destruct WF_WFx as (_ & K & _).
        apply (ContentExcept_frame h h' s HN SK K CO WF_ContentExcept p Hp Np). }
    unfold kind_of. destruct (n_kind (nd h s)) eqn:K; try exact HW; apply G; congruence.
  Qed.
End OneStep.

Theorem remove_WF h s : WF h -> s < nnodes h -> WF (heap_of (remove h s)).
Proof.
  intros HW Hs. unfold remove. destruct (n_parent (nd h s)) as [p|] eqn:E; [|exact HW].
  apply remove_child_WF; [exact HW|].
  destruct HW as (((C1 & _) & _) & _). destruct (C1 s Hs) as (R & _). rewrite E in R. exact R.
Qed.

(* pushing a list of children one after the other, all accepted *)
Lemma each_push_ok s : forall l h h' cs0, WFx h -> s < nnodes h -> (forall x, In x l -> x < nnodes h) ->
  Children h s cs0 -> ContentExcept h s -> each (fun h c => ce_push_child h s c) l h = ROk h' ->
  WFx h' /\ Children h' s (cs0 ++ l) /\ ContentExcept h' s /\ same n_kind h h' /\ nnodes h' = nnodes h.
Proof.
  induction l as [|c t IH]; intros h h' cs0 WX Hs Hl C CE E; simpl in E.
  - injection E as <-. rewrite app_nil_r. exact (conj WX (conj C (conj CE (conj (same_refl _ _) eq_refl)))).
  - apply bind_ok in E. destruct E as (h1 & P & E).
    assert (Hc : c < nnodes h) by (apply Hl; left; reflexivity).
    pose proof (push_WFx h h1 s c cs0 WX Hs Hc C P) as WX1.
    destruct (push_Children' h h1 s c cs0 Hs Hc C P) as [CS CO].
    destruct (push_size h h1 s c P) as [HN _].
    assert (SK : same n_kind h h1) by (apply (push_same h h1 s c P); reflexivity).
    pose proof (push_ContentExcept h h1 s c cs0 WX Hs Hc C P CE) as CE1.
    assert (Hs1 : s < nnodes h1) by (rewrite HN; exact Hs).
    assert (Hl1 : forall x, In x t -> x < nnodes h1) by (intros x Hx; rewrite HN; apply Hl; right; exact Hx).
    destruct (IH h1 h' (cs0 ++ [c]) WX1 Hs1 Hl1 CS CE1 E) as (A & B & D & F & G).
    rewrite <- app_assoc in B. simpl in B.
    refine (conj A (conj B (conj D (conj _ _)))); [eapply same_trans; eauto|congruence].
Qed.

(* removing all children of a list, one after the other: always accepted, ends with no children *)
Lemma each_remove_ok s : forall l h, WFx h -> s < nnodes h -> Children h s l -> ContentExcept h s ->
  exists h', each (fun h c => ce_remove_child h s c) l h = ROk h' /\
  WFx h' /\ Children h' s [] /\ ContentExcept h' s /\ same n_kind h h' /\ nnodes h' = nnodes h.
Proof.
  induction l as [|c t IH]; intros h WX Hs C CE.
  - exists h. simpl. exact (conj eq_refl (conj WX (conj C (conj CE (conj (same_refl _ _) eq_refl))))).
  - assert (P : ce_remove_child h s c = ROk (remove_heap h s c)).
    { unfold ce_remove_child. rewrite (Children_kids _ _ _ C). simpl. rewrite Nat.eqb_refl. reflexivity. }
    destruct (remove_WFx_Children h _ s c WX Hs P) as (WX1 & HN & SK & a & b & C0 & CS & CO).
    pose proof (Children_unique _ _ _ _ C C0) as E.
    assert (a = [] /\ b = t) as [-> ->].
    { destruct C as (_ & _ & _ & ND & _). destruct a as [|x a'].
      - simpl in E. injection E as ->. auto.
      - simpl in E. injection E as E1 Et. exfalso. inversion ND as [|? ? NI ND']; subst. apply NI. rewrite in_app_iff. right; left; reflexivity. }
    simpl in CS. destruct WX as (_ & K & _).
    pose proof (ContentExcept_frame h _ s HN SK K CO CE) as CE1.
    assert (Hs1 : s < nnodes (remove_heap h s c)) by (rewrite HN; exact Hs).
    destruct (IH (remove_heap h s c) WX1 Hs1 CS CE1) as (h' & E' & A & B & D & F & G).
    exists h'. simpl. rewrite P. simpl.
    refine (conj E' (conj A (conj B (conj D (conj _ _))))); [eapply same_trans; eauto|congruence].
Qed.

Theorem remove_children_WF h s : WF h -> s < nnodes h -> WF (heap_of (remove_children h s)).
Proof.
  intros HW Hs. unfold remove_children. destruct (WF_kids h s HW Hs) as [cs C].
  rewrite (Children_kids _ _ _ C).
  destruct (each_remove_ok s cs h (WF_WFx h HW) Hs C (WF_ContentExcept h s HW)) as (h' & E & WX & CS & CE & SK & HN).
  rewrite E. simpl. apply WF_split. split; [exact WX|]. intros p Hp. destruct (Nat.eq_dec p s) as [->|Np].
  - intros cs' C'. rewrite (Children_unique _ _ _ _ C' CS). apply allowed_nil.
  - apply CE; assumption.
Qed.

(* ---- the representation invariant: the link operations touch neither regions nor users ---- *)
Lemma ce_push_child_Rep h s c : Rep h -> Rep (heap_of (ce_push_child h s c)).
Proof.
  intro HR. destruct (ce_push_child h s c) as [h'|h' e] eqn:P; [|rewrite (ce_push_child_err _ _ _ _ _ P); exact HR].
  simpl. destruct (push_size h h' s c P) as [HN _].
  apply (rep_frame h); [exact HN| | | | |exact HR]; apply (push_same h h' s c P); reflexivity.
Qed.
Lemma ce_remove_child_Rep h s c : WFx h -> s < nnodes h -> Rep h -> Rep (heap_of (ce_remove_child h s c)).
Proof.
  intros WX Hs HR. destruct (ce_remove_child h s c) as [h'|h' e] eqn:P; [|rewrite (ce_remove_child_err _ _ _ _ _ P); exact HR].
  simpl. destruct (remove_facts h h' s c WX Hs P) as (a & b & HC & ->).
  apply (rep_frame h); [apply (remove_nnodes h s c a b HC)| | | | |exact HR]; intro j; apply (remove_heap_other h s c a b HC); reflexivity.
Qed.
Lemma each_push_Rep s : forall l h, Rep h -> Rep (heap_of (each (fun h c => ce_push_child h s c) l h)).
Proof. intros l h HR. apply each_inv; [|exact HR]. intros h0 x _ R0. apply ce_push_child_Rep. exact R0. Qed.
Lemma each_remove_Rep s : forall l h, WFx h -> s < nnodes h -> Children h s l -> Rep h ->
  Rep (heap_of (each (fun h c => ce_remove_child h s c) l h)).
Proof.
  induction l as [|c t IH]; intros h WX Hs C HR; [exact HR|].
  assert (P : ce_remove_child h s c = ROk (remove_heap h s c)).
  { unfold ce_remove_child. rewrite (Children_kids _ _ _ C). simpl. rewrite Nat.eqb_refl. reflexivity. }
  destruct (remove_WFx_Children h _ s c WX Hs P) as (WX1 & HN & SK & a & b & C0 & CS & CO).
  pose proof (Children_unique _ _ _ _ C C0) as E.
  assert (a = [] /\ b = t) as [-> ->].
  { destruct C as (_ & _ & _ & ND & _). destruct a as [|x a'].
    - simpl in E. injection E as ->. auto.
    - simpl in E. injection E as E1 Et. exfalso. inversion ND as [|? ? NI ND']; subst. apply NI. rewrite in_app_iff. right; left; reflexivity. }
  simpl in CS. simpl each. rewrite P. simpl bind.
  pose proof (ce_remove_child_Rep h s c WX Hs HR) as R1. rewrite P in R1. simpl in R1.
  apply IH; [exact WX1|rewrite HN; exact Hs|exact CS|exact R1].
Qed.
Lemma push_child_Rep h s c : Rep h -> Rep (heap_of (push_child h s c)).
Proof. intro HR. unfold push_child. destruct (push_guard h s c); [exact HR|apply ce_push_child_Rep; exact HR]. Qed.
Lemma remove_child_Rep h s c : WF h -> s < nnodes h -> Rep h -> Rep (heap_of (remove_child h s c)).
Proof.
  intros HW Hs HR. unfold remove_child.
  destruct (kind_of h s); try exact HR; apply ce_remove_child_Rep; auto; apply WF_WFx; exact HW.
Qed.
Lemma remove_Rep h s : WF h -> s < nnodes h -> Rep h -> Rep (heap_of (remove h s)).
Proof.
  intros HW Hs HR. unfold remove. destruct (n_parent (nd h s)) as [p|] eqn:E; [|exact HR].
  apply remove_child_Rep; auto.
  destruct HW as (((C1 & _) & _) & _). destruct (C1 s Hs) as (R & _). rewrite E in R. exact R.
Qed.
Lemma remove_children_Rep h s : WF h -> s < nnodes h -> Rep h -> Rep (heap_of (remove_children h s)).
Proof.
  intros HW Hs HR. unfold remove_children. destruct (WF_kids h s HW Hs) as [cs C].
  rewrite (Children_kids _ _ _ C). apply each_remove_Rep; auto. apply WF_WFx; exact HW.
Qed.

(* push_children *)
Lemma push_child_size h s c : nnodes (heap_of (push_child h s c)) = nnodes h /\ same n_kind h (heap_of (push_child h s c)).
Proof.
  unfold push_child. destruct (push_guard h s c); [split; [reflexivity|apply same_refl]|].
  destruct (ce_push_child h s c) as [h'|h' e] eqn:P.
  - simpl. destruct (push_size h h' s c P). split; [assumption|apply (push_same h h' s c P); reflexivity].
  - rewrite (ce_push_child_err _ _ _ _ _ P). split; [reflexivity|apply same_refl].
Qed.

Lemma push_children_generic h s cs : WF h -> s < nnodes h -> (forall x, In x cs -> x < nnodes h) ->
  WF (heap_of (each (fun h' c => push_child h' s c) cs h)).
Proof.
  intros HW Hs Hcs.
  refine (proj1 (each_inv (fun h0 => WF h0 /\ nnodes h0 = nnodes h) _ cs _ h _)).
  - intros h0 x Hx (W0 & N0). destruct (push_child_size h0 s x) as [N1 S1].
    split; [|congruence].
    apply push_child_WF; [exact W0|rewrite N0; exact Hs|rewrite N0; apply Hcs; exact Hx].
  - auto.
Qed.

(* a rejected push leaves its heap alone, so a loop of pushes that raises has pushed a prefix *)
Lemma each_push_prefix s : forall l h h' e, each (fun h c => ce_push_child h s c) l h = RErr h' e ->
  exists l1 l2, l = l1 ++ l2 /\ each (fun h c => ce_push_child h s c) l1 h = ROk h'.
Proof.
  induction l as [|c t IH]; intros h h' e E; simpl in E; [discriminate|].
  destruct (ce_push_child h s c) as [h1|h1 e1] eqn:P; simpl in E.
  - destruct (IH h1 h' e E) as (l1 & l2 & -> & E1). exists (c :: l1), l2. split; [reflexivity|]. simpl. rewrite P. exact E1.
  - injection E as <- _. rewrite (ce_push_child_err _ _ _ _ _ P). exists [], (c :: t). split; reflexivity.
Qed.

(* the ordered containers (Ruby, Rtc): the whole list is pushed under an element without children, or
   whatever was pushed is removed again *)
Lemma push_all_or_undo_WF h s cs undo : WF h -> s < nnodes h -> (forall x, In x cs -> x < nnodes h) ->
  n_first (nd h s) = None -> (forall h', nnodes h' = nnodes h -> undo h' = remove_children h' s) ->
  allowed (n_kind (nd h s)) (map (fun c => n_kind (nd h c)) cs) = true ->
  WF (heap_of (push_all_or_undo h s cs undo)) /\ (Rep h -> Rep (heap_of (push_all_or_undo h s cs undo))).
Proof.
  intros HW Hs Hcs F U A. unfold push_all_or_undo.
  pose proof (each_push_Rep s cs h) as RP.
  destruct (WF_kids h s HW Hs) as [cs0 C0]. apply (Children_nil_first _ _ _ C0) in F. subst cs0.
  destruct (each (fun h' c => ce_push_child h' s c) cs h) as [h'|h' e] eqn:E.
  - simpl. simpl in RP. split; [|exact RP].
    destruct (each_push_ok s cs h h' [] (WF_WFx h HW) Hs Hcs C0 (WF_ContentExcept h s HW) E) as (WX & CS & CE & SK & HN).
    apply WF_split. split; [exact WX|]. intros p Hp. destruct (Nat.eq_dec p s) as [->|Np].
    + intros cs' C'. rewrite (Children_unique _ _ _ _ C' CS). rewrite SK, (map_kind_same _ _ _ SK). exact A.
    + apply CE; assumption.
  - destruct (each_push_prefix s cs h h' e E) as (l1 & l2 & -> & E1).
    assert (Hl1 : forall x, In x l1 -> x < nnodes h) by (intros x Hx; apply Hcs; apply in_app_iff; left; exact Hx).
    destruct (each_push_ok s l1 h h' [] (WF_WFx h HW) Hs Hl1 C0 (WF_ContentExcept h s HW) E1) as (WX & CS & CE & SK & HN).
    simpl in CS. assert (Hs' : s < nnodes h') by (rewrite HN; exact Hs).
    rewrite (U h' HN). unfold remove_children. rewrite (Children_kids _ _ _ CS).
    destruct (each_remove_ok s l1 h' WX Hs' CS CE) as (h2 & E2 & WX2 & CS2 & CE2 & SK2 & HN2).
    pose proof (each_remove_Rep s l1 h' WX Hs' CS) as RR.
    rewrite E2 in *. simpl in RP, RR. split; [|intro HR; exact (RR (RP HR))].
    apply WF_split. split; [exact WX2|]. intros p Hp. destruct (Nat.eq_dec p s) as [->|Np].
    + intros cs' C'. rewrite (Children_unique _ _ _ _ C' CS2). apply allowed_nil.
    + apply CE2; assumption.
Qed.

Theorem push_children_WF h s cs : WF h -> s < nnodes h -> (forall x, In x cs -> x < nnodes h) ->
  WF (heap_of (push_children h s cs)) /\ (Rep h -> Rep (heap_of (push_children h s cs))).
Proof.
  intros HW Hs Hcs. unfold push_children.
  assert (GEN : WF (heap_of (each (fun h' c => push_child h' s c) cs h)) /\
                (Rep h -> Rep (heap_of (each (fun h' c => push_child h' s c) cs h)))).
  { split; [apply push_children_generic; [exact HW|exact Hs|exact Hcs]|].
    intro HR. apply each_inv; [|exact HR]. intros h0 x _ R0. apply push_child_Rep. exact R0. }
  destruct (kind_of h s) eqn:K; try exact GEN.
  - (* Ruby *)
    destruct (is_some (n_first (nd h s))) eqn:F; [split; [exact HW|auto]|].
    destruct (existsb (kinds_eqb (map (kind_of h) cs)) ruby_patterns) eqn:V; simpl; [|split; [exact HW|auto]].
    apply is_some_false in F. apply push_all_or_undo_WF; [exact HW|exact Hs|exact Hcs|exact F|reflexivity|].
    unfold kind_of in K. rewrite K. simpl. apply ruby_pattern_form. exact V.
  - (* Rtc *)
    destruct (rtc_list_ok (map (kind_of h) cs)) eqn:V; simpl; [|split; [exact HW|auto]].
    destruct (is_some (n_first (nd h s))) eqn:F; [split; [exact HW|auto]|]. apply is_some_false in F.
    rewrite (kids_no_first' _ _ F).
    apply push_all_or_undo_WF; [exact HW|exact Hs|exact Hcs|exact F| |].
    + intros h' _. unfold remove_children. destruct (kids h' s); reflexivity.
    + unfold kind_of in K. rewrite K. simpl. apply rtc_list_ok_form. exact V.
Qed.
