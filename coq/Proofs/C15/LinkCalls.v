(* C15: the calls that change the tree (push_child, push_children, remove, remove_child,
   remove_children) preserve WF, outside the recorded call shapes 6, 7, 8. *)
From Coq Require Import List Arith Bool Lia.
From TT Require Import Base.HeapTypes Model.Heap Model.HeapTriggers Spec.ModelWF
  Proofs.C15.HeapLemmas Proofs.C15.Links Proofs.C15.Tree Proofs.C15.Frames Proofs.C15.LinkOps Proofs.C15.Content.
Import ListNotations.

Lemma map_kind_same h h' cs : same n_kind h h' -> map (fun c => n_kind (nd h' c)) cs = map (fun c => n_kind (nd h c)) cs.
Proof. intro S. apply map_ext. intro; apply S. Qed.

Lemma Children_nil_first h s cs : Children h s cs -> (n_first (nd h s) = None <-> cs = []).
Proof. intros (H1 & _). rewrite H1. destruct cs; simpl; split; intros; congruence. Qed.

(* the kinds of the first and last child, as the Rtc guard reads them *)
Lemma okind_first h s cs : Children h s cs -> okind h (n_first (nd h s)) = hd_error (map (fun c => n_kind (nd h c)) cs).
Proof. intros (H1 & _). rewrite H1. destruct cs; reflexivity. Qed.
Lemma last_map {A B} (f : A -> B) (l : list A) d d' : l <> [] -> last (map f l) d' = f (last l d).
Proof.
  induction l as [|x t IH]; [congruence|]. intros _. destruct t as [|y t']; [reflexivity|].
  change (last (map f (x :: y :: t')) d') with (last (map f (y :: t')) d').
  change (last (x :: y :: t') d) with (last (y :: t') d). apply IH. discriminate.
Qed.
Lemma okind_last h s cs : Children h s cs ->
  okind h (n_last (nd h s)) = match map (fun c => n_kind (nd h c)) cs with [] => None | _ :: _ => Some (last (map (fun c => n_kind (nd h c)) cs) KText) end.
Proof.
  intros (_ & H2 & _). rewrite H2. destruct cs as [|x t]; [reflexivity|].
  unfold last_error, okind, option_map, kind_of.
  rewrite <- (last_map (fun c => n_kind (nd h c)) (x :: t) 0 KText) by discriminate. reflexivity.
Qed.

Lemma push_guard_None h s c cs : Children h s cs -> push_guard h s c = None ->
  simple_guard (kind_of h s) (kind_of h c) = true \/
  (kind_of h s = KRtc /\ rtc_guard (map (fun c => n_kind (nd h c)) cs) (kind_of h c) = true).
Proof.
  intros C G. unfold push_guard in G. destruct (kind_of h s) eqn:K; try discriminate G;
    try (left; cbn [simple_guard]; revert G; destruct (kind_in _ _); [reflexivity|discriminate]).
  right. split; [reflexivity|]. unfold rtc_guard. cbv zeta. rewrite <- (okind_first _ _ _ C), <- (okind_last _ _ _ C).
  revert G. destruct (okind_is KRt _); [destruct (kind_in _ _); [reflexivity|discriminate]|].
  destruct (okind_is KRp _ && okind_is KRp _); [discriminate|]. destruct (kind_in _ _); [reflexivity|discriminate].
Qed.

Section OneStep.
  Variables (h : heap) (s : nat).
  Hypothesis HW : WF h.
  Hypothesis Hs : s < nnodes h.

  Lemma WF_WFx : WFx h. Proof. apply WF_split in HW. tauto. Qed.
  Lemma WF_content_at : forall p, p < nnodes h -> ContentAt h p. Proof. apply WF_split in HW. tauto. Qed.
  Lemma WF_ContentExcept : ContentExcept h s. Proof. intros p Hp _. apply WF_content_at. exact Hp. Qed.
  Lemma WF_kids : exists cs, Children h s cs. Proof. destruct WF_WFx as (_ & K & _). apply K. exact Hs. Qed.

  Theorem push_child_WF c : c < nnodes h -> t_rtc_lone_rp h s c = false -> WF (heap_of (push_child h s c)).
  Proof.
    intros Hc T. unfold push_child. destruct (push_guard h s c) eqn:G; [exact HW|].
    destruct (ce_push_child h s c) as [h'|h' e] eqn:P; [|rewrite (ce_push_child_err _ _ _ _ _ P); exact HW].
    simpl. destruct WF_kids as [cs C].
    pose proof (push_WFx h h' s c cs WF_WFx Hs Hc C P) as WX.
    destruct (push_Children' h h' s c cs Hs Hc C P) as [CS CO].
    destruct (push_size h h' s c P) as [HN _].
    assert (SK : same n_kind h h') by (apply (push_same h h' s c P); reflexivity).
    apply WF_split. split; [exact WX|]. intros p Hp. destruct (Nat.eq_dec p s) as [->|Np].
    - intros cs' C'. rewrite (Children_unique _ _ _ _ C' CS). rewrite SK, (map_kind_same _ _ _ SK), map_app. simpl.
      pose proof (WF_content_at s Hs cs C) as A.
      destruct (push_guard_None _ _ _ _ C G) as [SG|[KR RG]].
      + apply allowed_snoc_simple; assumption.
      + unfold kind_of in KR. rewrite KR in *. simpl. simpl in A. apply rtc_push; [exact A|exact RG|].
        intros [E1 E2]. unfold t_rtc_lone_rp in T. unfold kind_of in T, E2. rewrite KR, E2 in T. simpl in T.
        apply map_eq_nil in E1. apply (Children_nil_first _ _ _ C) in E1. rewrite E1 in T. discriminate.
    - apply (push_ContentExcept h h' s c cs WF_WFx Hs Hc C P WF_ContentExcept p Hp Np).
  Qed.

  Theorem remove_child_WF c : WF (heap_of (remove_child h s c)).
  Proof.
    unfold remove_child.
    assert (G : forall (NR : n_kind (nd h s) <> KRuby) (NT : n_kind (nd h s) <> KRtc), WF (heap_of (ce_remove_child h s c))).
    { intros NR NT. destruct (ce_remove_child h s c) as [h'|h' e] eqn:P; [|rewrite (ce_remove_child_err _ _ _ _ _ P); exact HW].
      simpl. destruct (remove_WFx_Children h h' s c WF_WFx Hs P) as (WX & HN & SK & a & b & C & CS & CO).
      apply WF_split. split; [exact WX|]. intros p Hp. destruct (Nat.eq_dec p s) as [->|Np].
      - intros cs' C'. rewrite (Children_unique _ _ _ _ C' CS). rewrite SK, (map_kind_same _ _ _ SK), map_app.
        pose proof (WF_content_at s Hs _ C) as A. rewrite map_app in A. simpl in A.
        eapply allowed_remove; eauto.
      - destruct WF_WFx as (_ & K & _).
        apply (ContentExcept_frame h h' s HN SK K CO WF_ContentExcept p Hp Np). }
    unfold kind_of. destruct (n_kind (nd h s)) eqn:K; try exact HW; apply G; congruence.
  Qed.
End OneStep.

Theorem remove_WF h s : WF h -> s < nnodes h -> WF (heap_of (remove h s)).
Proof.
  intros HW Hs. unfold remove. destruct (n_parent (nd h s)) as [p|] eqn:E; [|exact HW].
  apply remove_child_WF; [exact HW|].
  destruct HW as (((C1 & _) & _) & _). destruct (C1 s Hs) as (R & _). rewrite E in R. exact R.
Qed.

(* pushing a list of children one after the other, all accepted *)
Lemma each_push_ok s : forall l h h' cs0, WFx h -> s < nnodes h -> (forall x, In x l -> x < nnodes h) ->
  Children h s cs0 -> ContentExcept h s -> each (fun h c => ce_push_child h s c) l h = ROk h' ->
  WFx h' /\ Children h' s (cs0 ++ l) /\ ContentExcept h' s /\ same n_kind h h' /\ nnodes h' = nnodes h.
Proof.
  induction l as [|c t IH]; intros h h' cs0 WX Hs Hl C CE E; simpl in E.
  - injection E as <-. rewrite app_nil_r. exact (conj WX (conj C (conj CE (conj (same_refl _ _) eq_refl)))).
  - apply bind_ok in E. destruct E as (h1 & P & E).
    assert (Hc : c < nnodes h) by (apply Hl; left; reflexivity).
    pose proof (push_WFx h h1 s c cs0 WX Hs Hc C P) as WX1.
    destruct (push_Children' h h1 s c cs0 Hs Hc C P) as [CS CO].
    destruct (push_size h h1 s c P) as [HN _].
    assert (SK : same n_kind h h1) by (apply (push_same h h1 s c P); reflexivity).
    pose proof (push_ContentExcept h h1 s c cs0 WX Hs Hc C P CE) as CE1.
    assert (Hs1 : s < nnodes h1) by (rewrite HN; exact Hs).
    assert (Hl1 : forall x, In x t -> x < nnodes h1) by (intros x Hx; rewrite HN; apply Hl; right; exact Hx).
    destruct (IH h1 h' (cs0 ++ [c]) WX1 Hs1 Hl1 CS CE1 E) as (A & B & D & F & G).
    rewrite <- app_assoc in B. simpl in B.
    refine (conj A (conj B (conj D (conj _ _)))); [eapply same_trans; eauto|congruence].
Qed.

(* removing all children of a list, one after the other: always accepted, ends with no children *)
Lemma each_remove_ok s : forall l h, WFx h -> s < nnodes h -> Children h s l -> ContentExcept h s ->
  exists h', each (fun h c => ce_remove_child h s c) l h = ROk h' /\
  WFx h' /\ Children h' s [] /\ ContentExcept h' s /\ same n_kind h h' /\ nnodes h' = nnodes h.
Proof.
  induction l as [|c t IH]; intros h WX Hs C CE.
  - exists h. simpl. exact (conj eq_refl (conj WX (conj C (conj CE (conj (same_refl _ _) eq_refl))))).
  - assert (P : ce_remove_child h s c = ROk (remove_heap h s c)).
    { unfold ce_remove_child. rewrite (Children_kids _ _ _ C). simpl. rewrite Nat.eqb_refl. reflexivity. }
    destruct (remove_WFx_Children h _ s c WX Hs P) as (WX1 & HN & SK & a & b & C0 & CS & CO).
    pose proof (Children_unique _ _ _ _ C C0) as E.
    assert (a = [] /\ b = t) as [-> ->].
    { destruct C as (_ & _ & _ & ND & _). destruct a as [|x a'].
      - simpl in E. injection E as ->. auto.
      - simpl in E. injection E as E1 Et. exfalso. inversion ND as [|? ? NI ND']; subst. apply NI. rewrite in_app_iff. right; left; reflexivity. }
    simpl in CS. destruct WX as (_ & K & _).
    pose proof (ContentExcept_frame h _ s HN SK K CO CE) as CE1.
    assert (Hs1 : s < nnodes (remove_heap h s c)) by (rewrite HN; exact Hs).
    destruct (IH (remove_heap h s c) WX1 Hs1 CS CE1) as (h' & E' & A & B & D & F & G).
    exists h'. simpl. rewrite P. simpl.
    refine (conj E' (conj A (conj B (conj D (conj _ _))))); [eapply same_trans; eauto|congruence].
Qed.

Theorem remove_children_WF h s : WF h -> s < nnodes h -> WF (heap_of (remove_children h s)).
Proof.
  intros HW Hs. unfold remove_children. destruct (WF_kids h s HW Hs) as [cs C].
  rewrite (Children_kids _ _ _ C).
  destruct (each_remove_ok s cs h (WF_WFx h HW) Hs C (WF_ContentExcept h s HW)) as (h' & E & WX & CS & CE & SK & HN).
  rewrite E. simpl. apply WF_split. split; [exact WX|]. intros p Hp. destruct (Nat.eq_dec p s) as [->|Np].
  - intros cs' C'. rewrite (Children_unique _ _ _ _ C' CS). apply allowed_nil.
  - apply CE; assumption.
Qed.

(* push_children *)
Lemma push_child_size h s c : nnodes (heap_of (push_child h s c)) = nnodes h /\ same n_kind h (heap_of (push_child h s c)).
Proof.
  unfold push_child. destruct (push_guard h s c); [split; [reflexivity|apply same_refl]|].
  destruct (ce_push_child h s c) as [h'|h' e] eqn:P.
  - simpl. destruct (push_size h h' s c P). split; [assumption|apply (push_same h h' s c P); reflexivity].
  - rewrite (ce_push_child_err _ _ _ _ _ P). split; [reflexivity|apply same_refl].
Qed.

Lemma push_children_generic h s cs : WF h -> s < nnodes h -> (forall x, In x cs -> x < nnodes h) ->
  kind_of h s <> KRtc -> WF (heap_of (each (fun h' c => push_child h' s c) cs h)).
Proof.
  intros HW Hs Hcs K.
  refine (proj1 (each_inv (fun h0 => WF h0 /\ nnodes h0 = nnodes h /\ kind_of h0 s = kind_of h s) _ cs _ h _)).
  - intros h0 x Hx (W0 & N0 & K0). destruct (push_child_size h0 s x) as [N1 S1].
    split; [|split; [congruence|unfold kind_of; rewrite S1; exact K0]].
    apply push_child_WF; [exact W0|rewrite N0; exact Hs|rewrite N0; apply Hcs; exact Hx|].
    unfold t_rtc_lone_rp. destruct (kind_eqb (kind_of h0 s) KRtc) eqn:E; [|reflexivity].
    apply kind_eqb_true in E. congruence.
  - auto.
Qed.

Theorem push_children_WF h s cs : WF h -> s < nnodes h -> (forall x, In x cs -> x < nnodes h) ->
  t_rtc_push_children_appends h s cs = false -> t_push_children_half h s cs = false ->
  WF (heap_of (push_children h s cs)).
Proof.
  intros HW Hs Hcs T8 T6. unfold push_children.
  destruct (WF_kids h s HW Hs) as [cs0 C0].
  (* the ordered containers: the whole list is pushed, or nothing *)
  assert (LOOP : forall (V : match kind_of h s with
                              | KRuby => negb (is_some (n_first (nd h s))) && existsb (kinds_eqb (map (kind_of h) cs)) ruby_patterns
                              | KRtc => rtc_list_ok (map (kind_of h) cs) | _ => false end = true),
            (forall h', each (fun h c => ce_push_child h s c) cs h = ROk h' ->
                        allowed (n_kind (nd h s)) (map (fun c => n_kind (nd h c)) (cs0 ++ cs)) = true) ->
            WF (heap_of (each (fun h c => ce_push_child h s c) cs h))).
  { intros V Hall. unfold t_push_children_half in T6. rewrite V in T6. simpl in T6.
    destruct (each (fun h c => ce_push_child h s c) cs h) as [h'|h' e] eqn:E.
    - simpl. destruct (each_push_ok s cs h h' cs0 (WF_WFx h HW) Hs Hcs C0 (WF_ContentExcept h s HW) E) as (WX & CS & CE & SK & HN).
      apply WF_split. split; [exact WX|]. intros p Hp. destruct (Nat.eq_dec p s) as [->|Np].
      + intros cs' C'. rewrite (Children_unique _ _ _ _ C' CS). rewrite SK, (map_kind_same _ _ _ SK). apply (Hall h'). reflexivity.
      + apply CE; assumption.
    - destruct cs as [|c0 rest]; [discriminate|]. simpl in E.
      destruct (ce_push_child h s c0) as [h1|h1 e1] eqn:P.
      + simpl in E. rewrite E in T6. discriminate.
      + simpl in E. injection E as <- _. rewrite (ce_push_child_err _ _ _ _ _ P). exact HW. }
  destruct (kind_of h s) eqn:K;
    try (apply push_children_generic; [exact HW|exact Hs|exact Hcs|rewrite K; discriminate]).
  - (* Ruby *)
    destruct (is_some (n_first (nd h s))) eqn:F; [exact HW|].
    destruct (existsb (kinds_eqb (map (kind_of h) cs)) ruby_patterns) eqn:V; simpl; [|exact HW].
    apply LOOP; [reflexivity|]. intros h' _.
    apply is_some_false in F. apply (Children_nil_first _ _ _ C0) in F. subst cs0. simpl.
    unfold kind_of in K. rewrite K. simpl. apply ruby_pattern_form. exact V.
  - (* Rtc *)
    destruct (rtc_list_ok (map (kind_of h) cs)) eqn:V; simpl; [|exact HW].
    apply LOOP; [reflexivity|]. intros h' _.
    unfold kind_of in K. rewrite K. simpl. rewrite map_app.
    pose proof (WF_content_at h HW s Hs cs0 C0) as A. rewrite K in A. simpl in A.
    unfold t_rtc_push_children_appends in T8. unfold kind_of in T8 at 1. rewrite K in T8. simpl in T8.
    destruct C0 as (F0 & _). rewrite F0 in T8.
    destruct cs0 as [|f t0]; [simpl; apply rtc_list_ok_form; exact V|].
    destruct cs as [|c1 rest]; [simpl; rewrite app_nil_r; exact A|].
    simpl in T8. apply orb_false_iff in T8. destruct T8 as [T8a T8b].
    assert (NoRp : existsb (fun k => kind_eqb k KRp) (map (kind_of h) (c1 :: rest)) = false).
    { assert (EM : forall l, existsb (fun k => kind_eqb k KRp) (map (kind_of h) l) = existsb (fun c => kind_eqb (kind_of h c) KRp) l).
      { induction l as [|x l IHl]; [reflexivity|]. simpl. rewrite IHl. reflexivity. }
      rewrite EM. simpl. exact T8b. }
    pose proof (rtc_list_ok_no_rp _ V NoRp) as AR.
    destruct (rtc_form_other _ _ A) as [Ef|Ef].
    + simpl in A. rewrite Ef in A. apply rtc_form_hd_rt in A. apply rtc_form_all_rt.
      rewrite all_rt_app. simpl map at 1. rewrite Ef. rewrite A. exact AR.
    + unfold kind_of in T8a. rewrite Ef in T8a. discriminate.
Qed.
