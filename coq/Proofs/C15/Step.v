(* C15: every call preserves WF (outside the recorded call shapes), hence every reachable state is
   well formed; a rejected single-element call leaves the state unchanged. *)
From Coq Require Import List Arith Bool Lia.
From TT Require Import Base.HeapTypes Model.Heap Model.HeapTriggers Spec.ModelWF
  Proofs.C15.HeapLemmas Proofs.C15.Links Proofs.C15.Tree Proofs.C15.Frames Proofs.C15.LinkOps Proofs.C15.Values
  Proofs.C15.Dfs Proofs.C15.AttrCalls Proofs.C15.LinkCalls Proofs.C15.SetDoc Proofs.C15.SetDocTree Proofs.C15.Content.
Import ListNotations.

Lemma ltb_lt' a b : (a <? b) = true -> a < b. Proof. apply Nat.ltb_lt. Qed.

Theorem step_WF h c : WF h -> trigger h c = None -> WF (fst (step h c)).
Proof.
  intros HW T. unfold step. destruct (call_ok h c) eqn:OK; [|exact HW]. cbn [fst].
  unfold trigger in T. rewrite OK in T. cbn [negb] in T.
  destruct c; cbn [exec call_ok] in *; unfold node_ok, doc_ok in OK;
    repeat match goal with H : _ && _ = true |- _ => apply andb_true_iff in H; destruct H end;
    repeat match goal with H : (_ <? _) = true |- _ => apply ltb_lt' in H end.
  - (* push_child *) apply push_child_WF; auto. destruct (t_rtc_lone_rp h s c); [discriminate|reflexivity].
  - (* push_children *)
    apply push_children_WF; auto.
    + intros x Hx. rewrite forallb_forall in H0. apply ltb_lt'. apply (H0 x Hx).
    + destruct (t_rtc_push_children_appends h s cs); [discriminate|reflexivity].
    + destruct (t_rtc_push_children_appends h s cs); [discriminate|]. destruct (t_push_children_half h s cs); [discriminate|reflexivity].
  - apply remove_WF; auto.
  - apply remove_child_WF; auto.
  - apply remove_children_WF; auto.
  - (* set_doc *)
    destruct d as [d|].
    + apply set_doc_some_WF; auto.
      * simpl in H0. apply ltb_lt'. exact H0.
      * destruct (t_set_doc_on_child h s); [discriminate|reflexivity].
    + apply set_doc_none_WF; auto. destruct (t_set_doc_none_children h s); [discriminate|reflexivity].
  - (* set_region *)
    apply set_region_WF; auto. intros rr ->. destruct (t_set_region_by_id h s rr); [discriminate|reflexivity].
  - apply put_region_WF; auto. destruct (t_put_region_replace h d r); [discriminate|reflexivity].
  - apply remove_region_WF; auto. destruct (t_remove_region_outside_body h d id); [discriminate|reflexivity].
  - apply set_body_WF; auto.
  - apply set_style_WF; auto.
  - apply add_anim_WF; auto.
  - exact HW.
  - apply put_initial_WF; auto.
  - apply copy_to_WF; auto.
  - apply set_begin_WF; auto.
  - apply set_end_WF; auto.
  - apply set_id_WF; auto.
  - apply set_lang_WF; auto.
  - apply set_space_WF; auto.
Qed.

(* histories none of whose calls is an instance of a recorded finding *)
Fixpoint admissible (h : heap) (cs : list call) : bool :=
  match cs with
  | [] => true
  | c :: t => match trigger h c with
              | Some _ => false
              | None => admissible (fst (step h c)) t
              end
  end.

Theorem run_WF : forall cs h, WF h -> admissible h cs = true -> WF (run h cs).
Proof.
  induction cs as [|c t IH]; intros h HW A; [exact HW|].
  simpl in A. destruct (trigger h c) eqn:T; [discriminate|].
  unfold run. simpl. apply IH; [apply step_WF; assumption|exact A].
Qed.

(* ---- the initial universe is well formed ---- *)
Definition elems_ok (elems : list (kind * option nat * option nat)) (ndoc : nat) : bool :=
  forallb (fun x => match snd (fst x) with None => true | Some d => d <? ndoc end) elems.

Lemma nth_repeat_ddoc n d : nth d (repeat ddoc n) ddoc = ddoc.
Proof. revert d; induction n as [|n IH]; intros [|d]; simpl; auto. Qed.

Theorem init_WF elems ndoc : elems_ok elems ndoc = true -> WF (init elems ndoc).
Proof.
  intro OK. set (h := init elems ndoc).
  assert (ND : forall i, nd h i = fresh (nth i elems (KText, None, None))).
  { intro i. unfold nd, h, init. simpl. change dnode with (fresh (KText, None, None)). apply map_nth. }
  assert (DC : forall d, dc h d = ddoc) by (intro d; unfold dc, h, init; simpl; apply nth_repeat_ddoc).
  assert (NN : nnodes h = length elems) by (unfold nnodes, h, init; simpl; apply map_length).
  assert (NDc : ndocs h = ndoc) by (unfold ndocs, h, init; simpl; apply repeat_length).
  assert (FR : forall x, n_parent (fresh x) = None /\ n_first (fresh x) = None /\ n_last (fresh x) = None /\
                         n_next (fresh x) = None /\ n_prev (fresh x) = None /\ n_region (fresh x) = None /\
                         n_styles (fresh x) = [] /\ n_anims (fresh x) = [] /\ n_doc (fresh x) = snd (fst x)).
  { intros [[k d] i]. simpl. repeat split. }
  assert (CH : forall p, Children h p []).
  { intro p. unfold Children. rewrite ND. destruct (FR (nth p elems (KText, None, None))) as (F1 & F2 & F3 & _).
    rewrite F2, F3. repeat split; try constructor. intros c _. rewrite ND.
    destruct (FR (nth c elems (KText, None, None))) as (G1 & _). rewrite G1. discriminate. }
  refine (conj (conj _ (conj _ _)) (conj _ (conj _ (conj _ (conj _ _))))).
  - split.
    + intros i Hi. rewrite ND. destruct (FR (nth i elems (KText, None, None))) as (F1 & F2 & F3 & F4 & F5 & F6 & _ & _ & F9).
      rewrite F1, F2, F3, F4, F5, F6, F9. simpl. repeat split; auto.
      unfold dref_ok. rewrite NDc. rewrite NN in Hi. unfold elems_ok in OK. rewrite forallb_forall in OK.
      specialize (OK (nth i elems (KText, None, None)) (nth_In _ _ Hi)).
      destruct (snd (fst (nth i elems (KText, None, None)))); [apply ltb_lt'; exact OK|exact I].
    + intros d Hd. rewrite DC. simpl. split; [exact I|intros id r []].
  - intros p _. exists []. apply CH.
  - intros c _ _. rewrite ND. destruct (FR (nth c elems (KText, None, None))) as (_ & _ & _ & F4 & F5 & _). auto.
  - intros i _. apply Rooted_root. rewrite ND. apply (FR (nth i elems (KText, None, None))).
  - intros c p _. rewrite ND. destruct (FR (nth c elems (KText, None, None))) as (F1 & _). rewrite F1. discriminate.
  - intros p cs _ C. rewrite (Children_unique _ _ _ _ C (CH p)). apply allowed_nil.
  - split; [|split].
    + intros i r _. rewrite ND. destruct (FR (nth i elems (KText, None, None))) as (_ & _ & _ & _ & _ & F6 & _). rewrite F6. discriminate.
    + intros d id r _. rewrite DC. discriminate.
    + intros d _. rewrite DC. constructor.
  - split.
    + intros i _. rewrite ND. destruct (FR (nth i elems (KText, None, None))) as (_ & _ & _ & _ & _ & _ & F7 & F8 & _).
      rewrite F7, F8. split; intros p v [].
    + intros d _. rewrite DC. intros p v [].
Qed.

Theorem reachable_WF elems ndoc cs :
  elems_ok elems ndoc = true -> admissible (init elems ndoc) cs = true -> WF (run (init elems ndoc) cs).
Proof. intros OK A. apply run_WF; [apply init_WF; exact OK|exact A]. Qed.
