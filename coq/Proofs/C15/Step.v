(* C15: every call preserves WF together with the representation invariant of the private state
   (Model/HeapRep.v), hence every reachable state is well formed. *)
From Coq Require Import List Arith Bool Lia.
From TT Require Import Base.HeapTypes Model.Heap Model.HeapRep Spec.ModelWF
  Proofs.C15.HeapLemmas Proofs.C15.Links Proofs.C15.Tree Proofs.C15.Frames Proofs.C15.LinkOps Proofs.C15.Values
  Proofs.C15.Dfs Proofs.C15.Users Proofs.C15.AttrCalls Proofs.C15.LinkCalls Proofs.C15.SetDoc Proofs.C15.Content.
Import ListNotations.

Lemma ltb_lt' a b : (a <? b) = true -> a < b. Proof. apply Nat.ltb_lt. Qed.

Definition Inv (h : heap) : Prop := WF h /\ Rep h.

Theorem exec_Inv h c : Inv h -> call_ok h c = true -> Inv (heap_of (exec h c)).
Proof.
  intros [HW HR] OK.
  destruct c; cbn [exec call_ok] in *; unfold node_ok, doc_ok in OK;
    repeat match goal with H : _ && _ = true |- _ => apply andb_true_iff in H; destruct H end;
    repeat match goal with H : (_ <? _) = true |- _ => apply ltb_lt' in H end.
  - split; [apply push_child_WF; auto|apply push_child_Rep; auto].
  - assert (Hcs : forall x, In x cs -> x < nnodes h).
    { intros x Hx. rewrite forallb_forall in H0. apply ltb_lt'. apply (H0 x Hx). }
    destruct (push_children_WF h s cs HW H Hcs) as [A B]. split; auto.
  - split; [apply remove_WF; auto|apply remove_Rep; auto].
  - split; [apply remove_child_WF; auto|apply remove_child_Rep; auto].
  - split; [apply remove_children_WF; auto|apply remove_children_Rep; auto].
  - destruct d as [d|].
    + apply set_doc_some_WF; auto. simpl in H0. apply ltb_lt'. exact H0.
    + apply set_doc_none_WF; auto.
  - split; [apply set_region_WF; auto|apply set_region_Rep; auto].
  - destruct (put_region_Inv h d r HW HR) as (A & B & _); auto. split; assumption.
  - destruct (remove_region_Inv h d id HW HR) as (A & B & _); auto. split; assumption.
  - split; [apply set_body_WF; auto|apply set_body_Rep; auto].
  - split; [apply set_style_WF; auto|apply set_style_Rep; auto].
  - split; [apply add_anim_WF; auto|apply add_anim_Rep; auto].
  - split; assumption.
  - split; [apply put_initial_WF; auto|apply put_initial_Rep; auto].
  - apply copy_to_Inv; auto.
  - split; [apply set_begin_WF; auto|apply set_begin_Rep; auto].
  - split; [apply set_end_WF; auto|apply set_end_Rep; auto].
  - split; [apply set_id_WF; auto|apply set_id_Rep; auto].
  - split; [apply set_lang_WF; auto|apply set_lang_Rep; auto].
  - split; [apply set_space_WF; auto|apply set_space_Rep; auto].
  - split; [apply remove_anim_WF; auto|apply remove_anim_Rep; auto].
  - split; [apply remove_initial_WF; auto|apply remove_initial_Rep; auto].
  - split; [apply set_text_WF; auto|apply set_text_Rep; auto].
  - split; [apply set_active_WF; auto|apply set_active_Rep; auto].
  - split; [apply set_cell_WF; auto|apply set_cell_Rep; auto].
  - split; [apply set_px_WF; auto|apply set_px_Rep; auto].
  - split; [apply set_dar_WF; auto|apply set_dar_Rep; auto].
  - split; [apply set_dlang_WF; auto|apply set_dlang_Rep; auto].
  - apply doc_copy_to_Inv; auto.
  - destruct (ask h q); split; assumption.
Qed.

Theorem step_Inv h c : Inv h -> Inv (fst (step h c)).
Proof.
  intro HI. unfold step. destruct (call_ok h c) eqn:OK; [|exact HI]. cbn [fst]. apply exec_Inv; assumption.
Qed.
Theorem step_WF h c : WF h -> Rep h -> WF (fst (step h c)).
Proof. intros HW HR. apply (step_Inv h c (conj HW HR)). Qed.

Theorem run_Inv : forall cs h, Inv h -> Inv (run h cs).
Proof.
  induction cs as [|c t IH]; intros h HI; [exact HI|].
  unfold run. simpl. apply IH. apply step_Inv. exact HI.
Qed.

(* ---- the initial universe is well formed ---- *)
(* the owner documents exist and every Region was given an id (Region.__init__ refuses None) *)
Definition elems_ok (elems : list (kind * option nat * option nat)) (ndoc : nat) : bool :=
  forallb (fun x => match snd (fst x) with None => true | Some d => d <? ndoc end) elems &&
  forallb (fun x => negb (kind_eqb (fst (fst x)) KRegion) || is_some (snd x)) elems.

Lemma nth_repeat_ddoc n d : nth d (repeat ddoc n) ddoc = ddoc.
Proof. revert d; induction n as [|n IH]; intros [|d]; simpl; auto. Qed.

Theorem init_WF elems ndoc : elems_ok elems ndoc = true -> WF (init elems ndoc).
Proof.
  intro OK. apply andb_true_iff in OK. destruct OK as [OK _]. set (h := init elems ndoc).
  assert (ND : forall i, nd h i = fresh (nth i elems (KText, None, None))).
  { intro i. unfold nd, h, init. simpl. change dnode with (fresh (KText, None, None)). apply map_nth. }
  assert (DC : forall d, dc h d = ddoc) by (intro d; unfold dc, h, init; simpl; apply nth_repeat_ddoc).
  assert (NN : nnodes h = length elems) by (unfold nnodes, h, init; simpl; apply map_length).
  assert (NDc : ndocs h = ndoc) by (unfold ndocs, h, init; simpl; apply repeat_length).
  assert (FR : forall x, n_parent (fresh x) = None /\ n_first (fresh x) = None /\ n_last (fresh x) = None /\
                         n_next (fresh x) = None /\ n_prev (fresh x) = None /\ n_region (fresh x) = None /\
                         n_styles (fresh x) = [] /\ n_anims (fresh x) = [] /\ n_doc (fresh x) = snd (fst x)).
  { intros [[k d] i]. simpl. repeat split. }
  assert (CH : forall p, Children h p []).
  { intro p. unfold Children. rewrite ND. destruct (FR (nth p elems (KText, None, None))) as (F1 & F2 & F3 & _).
    rewrite F2, F3. repeat split; try constructor. intros c _. rewrite ND.
    destruct (FR (nth c elems (KText, None, None))) as (G1 & _). rewrite G1. discriminate. }
  refine (conj (conj _ (conj _ _)) (conj _ (conj _ (conj _ (conj _ _))))).
  - split.
    + intros i Hi. rewrite ND. destruct (FR (nth i elems (KText, None, None))) as (F1 & F2 & F3 & F4 & F5 & F6 & _ & _ & F9).
      rewrite F1, F2, F3, F4, F5, F6, F9. simpl. repeat split; auto.
      unfold dref_ok. rewrite NDc. rewrite NN in Hi. rewrite forallb_forall in OK.
      specialize (OK (nth i elems (KText, None, None)) (nth_In _ _ Hi)).
      destruct (snd (fst (nth i elems (KText, None, None)))); [apply ltb_lt'; exact OK|exact I].
    + intros d Hd. rewrite DC. simpl. split; [exact I|intros id r []].
  - intros p _. exists []. apply CH.
  - intros c _ _. rewrite ND. destruct (FR (nth c elems (KText, None, None))) as (_ & _ & _ & F4 & F5 & _). auto.
  - intros i _. apply Rooted_root. rewrite ND. apply (FR (nth i elems (KText, None, None))).
  - intros c p _. rewrite ND. destruct (FR (nth c elems (KText, None, None))) as (F1 & _). rewrite F1. discriminate.
  - intros p cs _ C. rewrite (Children_unique _ _ _ _ C (CH p)). apply allowed_nil.
  - split; [|split].
    + intros i r _. rewrite ND. destruct (FR (nth i elems (KText, None, None))) as (_ & _ & _ & _ & _ & F6 & _). rewrite F6. discriminate.
    + intros d id r _. rewrite DC. discriminate.
    + intros d _. rewrite DC. constructor.
  - split.
    + intros i _. rewrite ND. destruct (FR (nth i elems (KText, None, None))) as (_ & _ & _ & _ & _ & _ & F7 & F8 & _).
      rewrite F7, F8. split; intros p v [].
    + intros d _. rewrite DC. intros p v [].
Qed.

Theorem init_Rep elems ndoc : elems_ok elems ndoc = true -> Rep (init elems ndoc).
Proof.
  intro OK. apply andb_true_iff in OK. destruct OK as [_ OK]. set (h := init elems ndoc).
  assert (ND : forall i, nd h i = fresh (nth i elems (KText, None, None))).
  { intro i. unfold nd, h, init. simpl. change dnode with (fresh (KText, None, None)). apply map_nth. }
  assert (NN : nnodes h = length elems) by (unfold nnodes, h, init; simpl; apply map_length).
  split.
  - intros r i Hr. rewrite !ND. destruct (nth r elems (KText, None, None)) as [[k d] j], (nth i elems (KText, None, None)) as [[k' d'] j'].
    simpl. split; [intros []|intros [_ [=]]].
  - intros i Hi. rewrite ND. rewrite NN in Hi. rewrite forallb_forall in OK.
    specialize (OK (nth i elems (KText, None, None)) (nth_In _ _ Hi)).
    destruct (nth i elems (KText, None, None)) as [[k d] j]. simpl in *. intros ->. rewrite kind_eqb_refl in OK. simpl in OK.
    destruct j; [discriminate|discriminate OK].
Qed.
Theorem init_Inv elems ndoc : elems_ok elems ndoc = true -> Inv (init elems ndoc).
Proof. intro OK. split; [apply init_WF|apply init_Rep]; exact OK. Qed.

Theorem reachable_Inv elems ndoc cs : elems_ok elems ndoc = true -> Inv (run (init elems ndoc) cs).
Proof. intro OK. apply run_Inv. apply init_Inv. exact OK. Qed.
Theorem reachable_WF elems ndoc cs : elems_ok elems ndoc = true -> WF (run (init elems ndoc) cs).
Proof. intro OK. apply (reachable_Inv elems ndoc cs OK). Qed.
