(* C15, content model: the per-class guards of push_child / push_children (as transcribed) imply the
   content model of doc/data_model.md for the lengthened child list; removal keeps it. Pure facts
   about lists of kinds. *)
From Coq Require Import List Arith Bool Lia.
From TT Require Import Base.HeapTypes Model.Heap Spec.ModelWF Proofs.C15.HeapLemmas.
Import ListNotations.

Lemma kmem_kind_in k l : kmem k l = kind_in k l.
Proof.
  unfold kmem, kind_in. induction l as [|x t IH]; simpl; [reflexivity|]. rewrite IH. f_equal.
  unfold kind_eqb. destruct (kind_eq_dec x k), (kind_eq_dec k x); congruence.
Qed.

Lemma forallb_snoc {A} (f : A -> bool) l x : forallb f (l ++ [x]) = forallb f l && f x.
Proof. rewrite forallb_app. simpl. rewrite andb_true_r. reflexivity. Qed.

Lemma all_rt_app a b : all_rt (a ++ b) = all_rt a && all_rt b.
Proof. apply forallb_app. Qed.

Lemma rtc_form_hd_rt t : rtc_form (KRt :: t) = true -> all_rt (KRt :: t) = true.
Proof. unfold rtc_form. rewrite orb_false_r. auto. Qed.
Lemma rtc_form_hd_rp t : rtc_form (KRp :: t) = true -> exists m, t = m ++ [KRp] /\ all_rt m = true.
Proof.
  unfold rtc_form. simpl. destruct (rev t) as [|x m] eqn:E; [discriminate|].
  destruct x; try discriminate. intro H. exists (rev m). split.
  - rewrite <- (rev_involutive t), E. reflexivity.
  - unfold all_rt in *. rewrite forallb_forall in *. intros x Hx. apply H. apply in_rev. exact Hx.
Qed.
Lemma rtc_form_all_rt ks : all_rt ks = true -> rtc_form ks = true.
Proof. unfold rtc_form. intros ->. reflexivity. Qed.
Lemma rtc_form_rp_rt_rp m : all_rt m = true -> rtc_form (KRp :: m ++ [KRp]) = true.
Proof.
  intro H. unfold rtc_form. simpl. rewrite rev_unit.
  unfold all_rt in *. rewrite forallb_forall in *. intros x Hx. apply H. apply in_rev. exact Hx.
Qed.
Lemma rtc_form_other k t : rtc_form (k :: t) = true -> k = KRt \/ k = KRp.
Proof. unfold rtc_form. destruct k; simpl; auto; discriminate. Qed.

Lemma last_snoc_kind (l : list kind) x d : last (l ++ [x]) d = x.
Proof. apply last_last. Qed.

(* the Rtc.push_child guard, on the kinds of the present children: no Rp-delimited list is extended and
   only an Rt is added *)
Definition rtc_guard (ks : list kind) (kc : kind) : bool :=
  negb (okind_is KRp (hd_error ks) || negb (kind_in kc [KRt])).

Lemma rtc_push ks kc : rtc_form ks = true -> rtc_guard ks kc = true -> rtc_form (ks ++ [kc]) = true.
Proof.
  intros F G. unfold rtc_guard in G. apply negb_true_iff in G. apply orb_false_iff in G. destruct G as [G1 G2].
  apply negb_false_iff in G2. assert (kc = KRt) as -> by (destruct kc; try discriminate G2; reflexivity).
  destruct ks as [|k t]; [reflexivity|].
  destruct (rtc_form_other _ _ F) as [-> | ->].
  - apply rtc_form_hd_rt in F. apply rtc_form_all_rt. rewrite all_rt_app, F. reflexivity.
  - simpl in G1. rewrite kind_eqb_refl in G1. discriminate.
Qed.

Lemma all_rt_eq l : all_rt l = forallb (kind_eqb KRt) l.
Proof.
  unfold all_rt. induction l as [|x t IH]; [reflexivity|]. cbn [forallb]. rewrite IH. f_equal.
  unfold kmem. simpl. rewrite orb_false_r. unfold kind_eqb. reflexivity.
Qed.

(* Rtc.push_children's validation implies the Rtc pattern for an empty Rtc *)
Lemma rtc_list_ok_form ks : rtc_list_ok ks = true -> rtc_form ks = true.
Proof.
  unfold rtc_list_ok. destruct ks as [|k rest]; [reflexivity|].
  destruct k; try (intro H; apply rtc_form_all_rt; rewrite all_rt_eq; exact H).
  destruct ((2 <? length (KRp :: rest)) && kind_eqb (last (KRp :: rest) KText) KRp) eqn:C.
  - apply andb_true_iff in C. destruct C as [C1 C2]. apply Nat.ltb_lt in C1. apply kind_eqb_true in C2.
    destruct rest as [|y r]; [simpl in C1; lia|].
    assert (E : y :: r = removelast (y :: r) ++ [last (y :: r) KText]) by (apply app_removelast_last; discriminate).
    change (last (KRp :: y :: r) KText) with (last (y :: r) KText) in C2. rewrite C2 in E.
    intro H. rewrite E. apply rtc_form_rp_rt_rp. rewrite all_rt_eq. exact H.
  - simpl. intro H. discriminate H.
Qed.
Lemma rtc_list_ok_no_rp ks : rtc_list_ok ks = true -> existsb (fun k => kind_eqb k KRp) ks = false -> all_rt ks = true.
Proof.
  unfold rtc_list_ok. destruct ks as [|k rest]; [reflexivity|]. intros H N.
  destruct k; try (rewrite all_rt_eq; exact H).
  simpl in N. discriminate N.
Qed.

Lemma ruby_pattern_form ks : existsb (kinds_eqb ks) ruby_patterns = true -> existsb (klist_eqb ks) ruby_forms = true.
Proof.
  intro H. apply existsb_exists in H. destruct H as (p & Hp & E).
  unfold kinds_eqb in E. destruct (list_eq_dec kind_eq_dec ks p) as [->|]; [|discriminate].
  simpl in Hp. destruct Hp as [<-|[<-|[<-|[<-|[]]]]]; vm_compute; reflexivity.
Qed.

(* removal of one child keeps the content model for the kinds that allow it *)
Lemma allowed_remove k a x b : k <> KRuby -> k <> KRtc -> allowed k (a ++ x :: b) = true -> allowed k (a ++ b) = true.
Proof.
  intros N1 N2. destruct k; try congruence; simpl; try (destruct a; discriminate);
    rewrite !forallb_app; simpl; intro H; apply andb_true_iff in H; destruct H as [H1 H2];
    apply andb_true_iff in H2; destruct H2 as [_ H2]; rewrite H1, H2; reflexivity.
Qed.
Lemma allowed_nil k : allowed k [] = true.
Proof. destruct k; vm_compute; reflexivity. Qed.

(* appending a child that the class guard lets through *)
Definition simple_guard (k kc : kind) : bool :=
  match k with
  | KBody => kind_in kc [KDiv]
  | KDiv => kind_in kc [KP; KDiv]
  | KP => kind_in kc [KSpan; KBr; KRuby]
  | KSpan => kind_in kc [KSpan; KBr; KText]
  | KRb | KRt | KRp => kind_in kc [KSpan]
  | KRbc => kind_in kc [KRb]
  | _ => false
  end.
Lemma allowed_snoc_simple k ks kc : simple_guard k kc = true -> allowed k ks = true -> allowed k (ks ++ [kc]) = true.
Proof.
  destruct k; simpl; try discriminate; intros G A; rewrite forallb_snoc, A; simpl;
    destruct kc; try discriminate; reflexivity.
Qed.
